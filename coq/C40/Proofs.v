(* KV.C40.Proofs — lemmas about the LDAP gateway model. *)
From Coq Require Import List NArith Bool Lia.
Import ListNotations.
Require Import KV.Base.Filter KV.C23.Model KV.C23.Proofs KV.C40.Model.
Open Scope N_scope.

Lemma str_eqb_eq : forall a b, str_eqb a b = true -> a = b.
Proof. exact listN_eqb_eq. Qed.

(* ================================================================== connections never write *)
(* a connection as a state machine over (directory facts, bound token): the directory component is
   threaded through unchanged because no operation of `op` produces one *)
Definition cstate := (world * option session)%type.
Definition step (st : cstate) (o : op) : cstate * resp :=
  let r := do_op (fst st) (snd st) o in ((fst st, next_cur (snd st) r), r).
Fixpoint steps (st : cstate) (ops : list op) : cstate :=
  match ops with [] => st | o :: r => steps (fst (step st o)) r end.

Lemma steps_world : forall ops st, fst (steps st ops) = fst st.
Proof. induction ops as [|o r IH]; intros st; [reflexivity|]. cbn [steps]. rewrite IH. reflexivity. Qed.

Lemma run_conn_length : forall w ops cur, length (run_conn w cur ops) = length ops.
Proof. intros w ops. induction ops as [|o r IH]; intros cur; [reflexivity|]. cbn [run_conn length]. rewrite IH. reflexivity. Qed.

(* ================================================================== binds *)
Lemma effective_unix : forall w u i acps, effective w (SUnix u) = Ok (i, acps) ->
  exists usr, assoc_n UUID_ANON (w_prin w) = Some (usr, acps) /\ i = mkI (OUser usr) ScRO.
Proof.
  intros w u i acps H. unfold effective in H.
  destruct (find_acct w u) as [a|]; [|discriminate].
  destruct (negb (ac_account a)); [discriminate|]. destruct (negb (ac_valid a)); [discriminate|].
  destruct (assoc_n UUID_ANON (w_prin w)) as [[usr ac]|]; [|discriminate].
  injection H as <- <-. exists usr. split; reflexivity.
Qed.
Lemma effective_unix_valid : forall w u x, effective w (SUnix u) = Ok x ->
  exists a, find_acct w u = Some a /\ ac_account a = true /\ ac_valid a = true.
Proof.
  intros w u x H. unfold effective in H.
  destruct (find_acct w u) as [a|]; [|discriminate]. exists a.
  destruct (ac_account a); [|discriminate]. destruct (ac_valid a); [|discriminate]. repeat split.
Qed.
Lemma effective_api : forall w a sc i acps, effective w (SApi a sc) = Ok (i, acps) ->
  exists usr, assoc_n a (w_prin w) = Some (usr, acps) /\ i = mkI (OUser usr) sc.
Proof.
  intros w a sc i acps H. unfold effective in H.
  destruct (find_acct w a) as [ac|]; [|discriminate]. destruct (negb (ac_valid ac)); [discriminate|].
  destruct (assoc_n a (w_prin w)) as [[usr ac']|]; [|discriminate].
  injection H as <- <-. exists usr. split; reflexivity.
Qed.
(* the model's identity of a session is the identity the property prescribes *)
Lemma effective_prescribed : forall w s x, effective w s = Ok x -> prescribed w s = Some x.
Proof.
  intros w [u|a sc] [i acps] H.
  - destruct (effective_unix w u i acps H) as [usr [Ha ->]]. unfold prescribed. rewrite Ha. reflexivity.
  - destruct (effective_api w a sc i acps H) as [usr [Ha ->]]. unfold prescribed. rewrite Ha. reflexivity.
Qed.

Lemma auth_unix_true : forall w u pw, auth_with_unix_pass w u pw = Ok true ->
  exists a, find_acct w u = Some a /\ ac_account a = true /\ ac_valid a = true /\ ac_locked a = false
    /\ (opt_str_is (ac_unix a) pw = true
        \/ (ac_fallback a = true /\ ac_unix a = None /\ opt_str_is (ac_primary a) pw = true)).
Proof.
  intros w u pw H. unfold auth_with_unix_pass in H.
  destruct (find_acct w u) as [a|]; [|discriminate]. exists a.
  destruct (ac_account a); cbn [negb] in H; [|discriminate].
  destruct (ac_valid a); cbn [negb] in H; [|discriminate].
  destruct (ac_fallback a); destruct (ac_unix a) as [c|]; try destruct (ac_primary a) as [p|];
    try discriminate; destruct (ac_locked a); try discriminate; injection H as H;
    repeat split; unfold opt_str_is; auto.
Qed.

Lemma auth_ldap_some : forall w u pw s, auth_ldap w u pw = Ok (Some s) ->
  s = SUnix u /\ (u = UUID_ANON \/ (w_flag w = true /\ unix_secret_ok w u pw = true)).
Proof.
  intros w u pw s H. unfold auth_ldap in H. destruct (u =? UUID_ANON) eqn:Eu.
  - apply N.eqb_eq in Eu. subst u.
    destruct (find_acct w UUID_ANON) as [a|]; [|discriminate].
    destruct (negb (ac_account a)); [discriminate|]. destruct (negb (ac_valid a)); [discriminate|].
    injection H as <-. split; [reflexivity | left; reflexivity].
  - destruct (w_flag w) eqn:Ef; cbn [negb] in H; [|discriminate].
    destruct (auth_with_unix_pass w u pw) as [[|]|e] eqn:Ea; try discriminate.
    injection H as <-. split; [reflexivity|]. right. split; [reflexivity|].
    destruct (auth_unix_true w u pw Ea) as [a [Hf [Hacc [Hv [Hl Hs]]]]].
    unfold unix_secret_ok. rewrite Ef, Hf, Hacc, Hv, Hl. cbn [andb negb].
    destruct Hs as [Hs | [Hfb [Hn Hs]]].
    + rewrite Hs. reflexivity.
    + rewrite Hfb, Hn, Hs. reflexivity.
Qed.

Lemma app_auth_some : forall w an u pw s, application_auth_ldap w an u pw = Ok (Some s) ->
  s = SUnix u /\ u <> UUID_ANON /\
  exists a ap, find_acct w u = Some a /\ ac_account a = true /\ ac_valid a = true
    /\ find_app w an = Some ap /\ memN (ap_group ap) (ac_mo a) = true
    /\ existsb (fun p => (fst p =? ap_id ap) && str_eqb (snd p) pw) (ac_apppw a) = true.
Proof.
  intros w an u pw s H. unfold application_auth_ldap in H.
  destruct (find_acct w u) as [a|] eqn:Ea; [|discriminate].
  destruct (ac_account a) eqn:Eacc; cbn [negb] in H; [|discriminate].
  destruct (u =? UUID_ANON) eqn:Eu; [discriminate|].
  destruct (ac_valid a) eqn:Ev; cbn [negb] in H; [|discriminate].
  destruct (find_app w an) as [ap|] eqn:Eap; [|discriminate].
  destruct (memN (ap_group ap) (ac_mo a)) eqn:Em; cbn [negb] in H; [|discriminate].
  destruct (existsb _ (ac_apppw a)) eqn:Ex; [|discriminate].
  injection H as <-. split; [reflexivity|]. split; [apply N.eqb_neq; exact Eu|].
  exists a, ap. repeat split; assumption.
Qed.

Lemma find_app_In : forall w an ap, find_app w an = Some ap -> In ap (w_apps w) /\ ap_name ap = an.
Proof.
  intros w an ap H. unfold find_app in H. apply find_some in H as [Hin He].
  split; [exact Hin | apply str_eqb_eq; exact He].
Qed.

Lemma token_auth_some : forall w pw s, token_auth_ldap w pw = Ok (Some s) ->
  exists a sc, s = SApi a sc /\ assoc_s pw (w_tokens w) = Some (TkLive a sc).
Proof.
  intros w pw s H. unfold token_auth_ldap in H.
  destruct (assoc_s pw (w_tokens w)) as [[a sc|]|]; try discriminate.
  destruct (find_acct w a); [|discriminate]. injection H as <-. exists a, sc. split; reflexivity.
Qed.

Lemma scope_eqb_refl : forall s, scope_eqb s s = true.
Proof. intros []; reflexivity. Qed.

(* every successful bind presented a secret that proves the bound identity *)
Lemma do_bind_ok : forall w dn pw s, do_bind w dn pw = Ok (Some s) -> bind_ok w pw s = true.
Proof.
  intros w dn pw s H. unfold do_bind in H.
  destruct (bind_target w dn pw) as [[u| |an u]|e]; [| | |discriminate].
  - destruct (auth_ldap_some w u pw s H) as [-> [-> | [_ Hs]]]; unfold bind_ok.
    + reflexivity.
    + rewrite Hs. rewrite orb_true_r. reflexivity.
  - destruct (token_auth_some w pw s H) as [a [sc [-> Ht]]]. unfold bind_ok. rewrite Ht.
    rewrite N.eqb_refl, scope_eqb_refl. reflexivity.
  - destruct (app_auth_some w an u pw s H) as [-> [Hn [a [ap [Hf [Hacc [Hv [Hap [Hm Hx]]]]]]]]].
    unfold bind_ok. apply orb_true_iff. right. unfold app_secret_ok.
    apply N.eqb_neq in Hn. rewrite Hn, Hf, Hacc, Hv. cbn [negb andb].
    apply existsb_exists. exists ap. split; [apply (find_app_In w an ap Hap)|].
    rewrite Hm, Hx. reflexivity.
Qed.

Lemma bind_target_empty : forall w, bind_target w [] [] = Ok (TAccount UUID_ANON).
Proof. reflexivity. Qed.
Lemma implicit_bind : forall w s, do_bind w [] [] = Ok (Some s) -> s = SUnix UUID_ANON.
Proof.
  intros w s H. unfold do_bind in H. rewrite bind_target_empty in H.
  destruct (auth_ldap_some w UUID_ANON [] s H) as [-> _]. reflexivity.
Qed.

(* ================================================================== LDAP search vs native search *)
Definition wf3 (e : entry) : Prop :=
  wf_entry e = true
  /\ sem e KEq A_CLASS C_CLASSTYPE = memN C_CLASSTYPE (e_class e)
  /\ sem e KEq A_CLASS C_ATTRIBUTETYPE = memN C_ATTRIBUTETYPE (e_class e)
  /\ sem e KEq A_CLASS C_ACP = memN C_ACP (e_class e)
  /\ memN A_CLASS (e_attrs e) = true.
Lemma wf40_wf3 : forall e, wf40 e = true -> wf3 e.
Proof.
  intros e H. unfold wf40 in H.
  apply andb_true_iff in H as [H H5]. apply andb_true_iff in H as [H H4].
  apply andb_true_iff in H as [H H3]. apply andb_true_iff in H as [H1 H2].
  unfold wf3. repeat split; try assumption; apply eqb_prop; assumption.
Qed.

Lemma excl_match : forall e, wf3 e -> ematches e ldap_excl = negb (schema_or_acp e).
Proof.
  intros e [_ [H1 [H2 [H3 _]]]]. unfold ematches, ldap_excl, leaf_class, schema_or_acp.
  cbn [ematch existsb]. rewrite H1, H2, H3. rewrite orb_false_r, orb_assoc. reflexivity.
Qed.

Lemma forallb_app' : forall {A} (p : A -> bool) l1 l2, forallb p (l1 ++ l2) = forallb p l1 && forallb p l2.
Proof. intros A p l1 l2. induction l1 as [|x l IH]; [reflexivity|]. cbn. rewrite IH, andb_assoc. reflexivity. Qed.

Lemma is_nil_app : forall {A} (l1 l2 : list A), is_nil (l1 ++ l2) = is_nil l1 && is_nil l2.
Proof. intros A [|x l1] l2; reflexivity. Qed.

(* the gateway's filter reveals e iff the client's filter does, e is no schema / profile entry and
   `class` is readable on e *)
Lemma reveals_ldap : forall u acps f ext e, wf3 e ->
  fattrs (nat_filter f ext) <> [] ->
  spec_reveals u acps MHidden (ldap_search_filter f ext) e
  = spec_reveals u acps MHidden (nat_filter f ext) e
    && (negb (schema_or_acp e) && may_read u acps e A_CLASS).
Proof.
  intros u acps f ext e Hwf Hne. unfold spec_reveals. cbn [wrap fst snd].
  assert (Hn : is_nil (fattrs (nat_filter f ext)) = false).
  { destruct (fattrs (nat_filter f ext)); [contradiction Hne; reflexivity | reflexivity]. }
  rewrite Hn. cbn [negb andb].
  pose proof (excl_match e Hwf) as Hx.
  destruct ext as [x|]; unfold ldap_search_filter, nat_filter, ignore_hidden, ematches in *;
    cbn [ematch forallb fattrs flat_map ldap_excl leaf_class Datatypes.app] in *.
  - rewrite Hx. rewrite !forallb_app'. rewrite !is_nil_app. cbn [forallb is_nil].
    rewrite !andb_false_r, !andb_true_r. cbn [negb andb].
    destruct (negb (existsb (ematch (sem e)) [leaf_class C_TOMBSTONE; leaf_class C_RECYCLED]));
    destruct (ematch (sem e) f); destruct (ematch (sem e) x);
    destruct (forallb (may_read u acps e) (fattrs f)); destruct (forallb (may_read u acps e) (fattrs x));
    destruct (negb (schema_or_acp e)); destruct (may_read u acps e A_CLASS); reflexivity.
  - rewrite Hx. rewrite !forallb_app'. rewrite !is_nil_app. cbn [forallb is_nil].
    rewrite !andb_false_r, !andb_true_r. cbn [negb andb].
    destruct (negb (existsb (ematch (sem e)) [leaf_class C_TOMBSTONE; leaf_class C_RECYCLED]));
    destruct (ematch (sem e) f);
    destruct (forallb (may_read u acps e) (fattrs f));
    destruct (negb (schema_or_acp e)); destruct (may_read u acps e A_CLASS); reflexivity.
Qed.

Lemma filter_pointwise_In : forall {A} (p q : A -> bool) l,
  (forall x, In x l -> p x = q x) -> filter p l = filter q l.
Proof.
  intros A p q l H. induction l as [|x l IH]; [reflexivity|]. cbn [filter].
  rewrite (H x (or_introl eq_refl)), IH; [reflexivity|]. intros y Hy. apply H. right. exact Hy.
Qed.

(* the entries a reader sees through the gateway, in terms of what it sees natively *)
Definition ldap_keeps (u : user) (acps : list acp) (e : entry) : bool :=
  negb (schema_or_acp e) && may_read u acps e A_CLASS.

Lemma ldap_search_char : forall i u acps f ext req es,
  reader i = Some u -> (forall e, In e es -> wf3 e) -> fattrs (nat_filter f ext) <> [] ->
  ldap_search i acps f ext req es
  = Some (map (spec_release u acps req)
           (filter (ldap_keeps u acps) (filter (spec_reveals u acps MHidden (nat_filter f ext)) es))).
Proof.
  intros i u acps f ext req es Hr Hwf Hne. unfold ldap_search.
  rewrite (search_ext_spec i u acps MHidden _ req es Hr). f_equal. f_equal.
  rewrite filter_filter. apply filter_pointwise_In. intros e He.
  apply (reveals_ldap u acps f ext e (Hwf e He) Hne).
Qed.
Lemma native_char : forall i u acps f ext req es, reader i = Some u ->
  native i acps f ext req es
  = Some (map (spec_release u acps req) (filter (spec_reveals u acps MHidden (nat_filter f ext)) es)).
Proof. intros. unfold native. apply search_ext_spec. assumption. Qed.

(* ================================================================== password sessions are anonymous *)
Lemma pw_session_ident : forall w u x y,
  effective w (SUnix u) = Ok x -> effective w (SUnix UUID_ANON) = Ok y -> x = y.
Proof.
  intros w u [i a] [j b] H1 H2.
  destruct (effective_unix _ _ _ _ H1) as [usr [Ha ->]]. destruct (effective_unix _ _ _ _ H2) as [usr' [Hb ->]].
  rewrite Ha in Hb. injection Hb as -> ->. reflexivity.
Qed.
Lemma pw_session_search : forall w u x b sc f req,
  effective w (SUnix u) = Ok x -> effective w (SUnix UUID_ANON) = Ok x ->
  do_search w (SUnix u) b sc f req = do_search w (SUnix UUID_ANON) b sc f req.
Proof.
  intros w u x b sc f req H1 H2. unfold do_search. rewrite H1, H2. reflexivity.
Qed.
Lemma pw_session_compare : forall w u x b ava,
  effective w (SUnix u) = Ok x -> effective w (SUnix UUID_ANON) = Ok x ->
  do_compare w (SUnix u) b ava = do_compare w (SUnix UUID_ANON) b ava.
Proof.
  intros w u x b ava H1 H2. unfold do_compare. rewrite H1, H2. reflexivity.
Qed.

(* with the flag off no POSIX password binds *)
Lemma flag_off_unix : forall w u pw, w_flag w = false -> u <> UUID_ANON -> auth_ldap w u pw = Ok None.
Proof.
  intros w u pw Hf Hu. unfold auth_ldap. apply N.eqb_neq in Hu. rewrite Hu, Hf. reflexivity.
Qed.

(* ================================================================== the stated equality fails *)
(* "LDAP search = native search minus schema / profile entries", in model terms *)
Definition search_full_statement : Prop :=
  forall i u acps f ext req es,
    reader i = Some u -> (forall e, In e es -> wf3 e) -> fattrs (nat_filter f ext) <> [] ->
    ldap_search i acps f ext req es
    = match native i acps f ext req es with
      | Some _ => Some (map (spec_release u acps req)
                    (filter (fun e => negb (schema_or_acp e))
                       (filter (spec_reveals u acps MHidden (nat_filter f ext)) es)))
      | None => None
      end.

(* the OAuth2 client entry 5: anonymous (member of group 10) may read its `name` only *)
Definition cx_entry : entry := mkE 5 [0; 3; 6] [0; 1; 2; 3] [] [] None [(KEq, A_NAME, 100)].
Definition cx_acps : list acp := [mkA (RGroup [10]) (Some (FLeaf KEq A_NAME 100 None)) [A_NAME]].
Definition cx_user : user := mkU UUID_ANON (Some [10]) [0; 6] None.
Definition cx_ident : ident := mkI (OUser cx_user) ScRO.
Definition cx_filter : filt := FLeaf KEq A_NAME 100 None.

Lemma cx_wf : forall e, In e [cx_entry] -> wf3 e.
Proof. intros e [<-|[]]. unfold wf3. vm_compute. repeat split; reflexivity. Qed.
Lemma cx_ldap : ldap_search cx_ident cx_acps cx_filter None None [cx_entry] = Some [].
Proof. vm_compute. reflexivity. Qed.
Lemma cx_native : native cx_ident cx_acps cx_filter None None [cx_entry] = Some [(5, [A_NAME])].
Proof. vm_compute. reflexivity. Qed.

Lemma search_full_refuted : ~ search_full_statement.
Proof.
  intros H. specialize (H cx_ident cx_user cx_acps cx_filter None None [cx_entry] eq_refl cx_wf).
  assert (Hne : fattrs (nat_filter cx_filter None) <> []) by (vm_compute; discriminate).
  specialize (H Hne). rewrite cx_ldap, cx_native in H. vm_compute in H. discriminate.
Qed.

(* ... and holds whenever `class` is readable on what the native search shows *)
Lemma search_full_when_class_readable : forall i u acps f ext req es,
  reader i = Some u -> (forall e, In e es -> wf3 e) -> fattrs (nat_filter f ext) <> [] ->
  (forall e, In e es -> spec_reveals u acps MHidden (nat_filter f ext) e = true ->
             schema_or_acp e = false -> may_read u acps e A_CLASS = true) ->
  ldap_search i acps f ext req es
  = Some (map (spec_release u acps req)
       (filter (fun e => negb (schema_or_acp e))
          (filter (spec_reveals u acps MHidden (nat_filter f ext)) es))).
Proof.
  intros i u acps f ext req es Hr Hwf Hne Hc.
  rewrite (ldap_search_char i u acps f ext req es Hr Hwf Hne). f_equal. f_equal.
  apply filter_pointwise_In. intros e He. apply filter_In in He as [He Hs]. unfold ldap_keeps.
  destruct (schema_or_acp e) eqn:Es; [reflexivity|]. rewrite (Hc e He Hs Es). reflexivity.
Qed.

(* ================================================================== the tie: agree -> property *)
Lemma listN_eqb_refl : forall l, listN_eqb l l = true.
Proof. induction l as [|x l IH]; [reflexivity|]. cbn [listN_eqb]. rewrite N.eqb_refl, IH. reflexivity. Qed.
Lemma ext_eqb_refl : forall l, ext_eqb l l = true.
Proof.
  induction l as [|[x a] l IH]; [reflexivity|]. cbn [ext_eqb]. rewrite N.eqb_refl, listN_eqb_refl, IH. reflexivity.
Qed.
Lemma session_eqb_eq : forall a b, session_eqb a b = true -> a = b.
Proof.
  intros [x|x s] [y|y t] H; cbn in H; try discriminate.
  - apply N.eqb_eq in H. subst. reflexivity.
  - apply andb_true_iff in H as [H1 H2]. apply N.eqb_eq in H1. subst.
    destruct s, t; try discriminate; reflexivity.
Qed.
Lemma osession_eqb_eq : forall a b, osession_eqb a b = true -> a = b.
Proof.
  intros [x|] [y|] H; cbn in H; try discriminate; [|reflexivity]. f_equal. apply session_eqb_eq. exact H.
Qed.
Lemma resp_eqb_eq : forall a b, resp_eqb a b = true -> a = b.
Proof.
  intros a b H. destruct a, b; cbn in H; try discriminate; try reflexivity.
  - f_equal. apply session_eqb_eq. exact H.
  - destruct e, e0; try discriminate; reflexivity.
  - apply osession_eqb_eq in H. subst. reflexivity.
  - apply andb_true_iff in H as [H1 H2]. apply osession_eqb_eq in H1. apply ext_eqb_eq in H2. subst. reflexivity.
  - apply andb_true_iff in H as [H1 H2]. apply osession_eqb_eq in H1. apply N.eqb_eq in H2. subst. reflexivity.
  - apply eqb_prop in H. subst. reflexivity.
Qed.
Lemma onat_eqb_eq : forall a b, onat_eqb a b = true -> a = b.
Proof.
  intros [[x y]|] [[x' y']|] H; cbn in H; try discriminate; [|reflexivity].
  apply andb_true_iff in H as [H1 H2]. apply ext_eqb_eq in H1. apply ext_eqb_eq in H2. subst. reflexivity.
Qed.
Lemma onex_eqb_eq : forall a b, onex_eqb a b = true -> a = b.
Proof.
  intros [[x y]|] [[x' y']|] H; cbn in H; try discriminate; [|reflexivity].
  apply andb_true_iff in H as [H1 H2]. apply eqb_prop in H1. apply eqb_prop in H2. subst. reflexivity.
Qed.

Lemma filter_map_comm : forall {A B} (g : A -> B) (p : B -> bool) l,
  filter p (map g l) = map g (filter (fun x => p (g x)) l).
Proof.
  intros A B g p l. induction l as [|x l IH]; [reflexivity|]. cbn [map filter].
  destruct (p (g x)); cbn [map]; rewrite IH; reflexivity.
Qed.

Lemma nodupN_NoDup : forall l, nodupN l = true -> NoDup l.
Proof.
  induction l as [|x l IH]; intros H; [constructor|]. cbn [nodupN] in H.
  apply andb_true_iff in H as [H1 H2]. constructor; [|apply IH; exact H2].
  apply negb_true_iff in H1. apply memN_false in H1. exact H1.
Qed.
Lemma NoDup_map_inj : forall (es : list entry) e e', NoDup (map e_id es) ->
  In e es -> In e' es -> e_id e = e_id e' -> e = e'.
Proof.
  induction es as [|x es IH]; intros e e' Hnd He He' Hid; [destruct He|].
  cbn [map] in Hnd. inversion Hnd as [|? ? Hnot Hnd']; subst.
  destruct He as [<-|He], He' as [<-|He'].
  - reflexivity.
  - exfalso. apply Hnot. rewrite Hid. apply in_map. exact He'.
  - exfalso. apply Hnot. rewrite <- Hid. apply in_map. exact He.
  - apply IH; assumption.
Qed.

Lemma id_is_char : forall es e p, NoDup (map e_id es) -> In e es -> id_is es (e_id e) p = p e.
Proof.
  intros es e p Hnd He. unfold id_is. apply bool_iff_eq. rewrite existsb_exists. split.
  - intros [e' [He' H]]. apply andb_true_iff in H as [H1 H2]. apply N.eqb_eq in H1.
    rewrite (NoDup_map_inj es e e' Hnd He He' (eq_sym H1)). exact H2.
  - intros H. exists e. split; [exact He|]. rewrite N.eqb_refl, H. reflexivity.
Qed.

Lemma class_readable_char : forall u acps P es e, NoDup (map e_id es) -> In e es -> P e = true ->
  memN A_CLASS (e_attrs e) = true ->
  class_readable (map (spec_release u acps None) (filter P es)) (e_id e) = may_read u acps e A_CLASS.
Proof.
  intros u acps P es e Hnd He HP Hc. unfold class_readable. apply bool_iff_eq. rewrite existsb_exists. split.
  - intros [r [Hr H]]. apply andb_true_iff in H as [H1 H2]. apply N.eqb_eq in H1.
    apply in_map_iff in Hr as [e' [<- He']]. apply filter_In in He' as [He' _].
    unfold spec_release in H1, H2. cbn [fst snd] in H1, H2.
    rewrite (NoDup_map_inj es e' e Hnd He' He H1) in H2.
    apply memN_In in H2. apply filter_In in H2 as [_ H2]. cbn [requested andb] in H2. exact H2.
  - intros Hm. exists (spec_release u acps None e). split.
    + apply in_map. apply filter_In. split; assumption.
    + unfold spec_release. cbn [fst snd]. rewrite N.eqb_refl. cbn [andb].
      apply memN_In. apply filter_In. split; [apply memN_In; exact Hc|]. cbn [requested andb]. exact Hm.
Qed.

(* list form of ldap_search_char: what the gateway returns, computed from the two native results *)
Lemma ldap_from_native : forall i u acps f ext req es l nreq nall,
  reader i = Some u -> (forall e, In e es -> wf3 e) -> NoDup (map e_id es) ->
  fattrs (nat_filter f ext) <> [] ->
  ldap_search i acps f ext req es = Some l ->
  native i acps f ext req es = Some nreq -> native i acps f ext None es = Some nall ->
  l = minus_schema_classless es nall nreq.
Proof.
  intros i u acps f ext req es l nreq nall Hr Hwf Hnd Hne Hl Hq Ha.
  rewrite (ldap_search_char i u acps f ext req es Hr Hwf Hne) in Hl. injection Hl as <-.
  rewrite (native_char i u acps f ext req es Hr) in Hq. injection Hq as <-.
  rewrite (native_char i u acps f ext None es Hr) in Ha. injection Ha as <-.
  unfold minus_schema_classless. rewrite filter_map_comm. f_equal.
  apply filter_pointwise_In. intros e He. apply filter_In in He as [He HP].
  change (fst (spec_release u acps req e)) with (e_id e). unfold ldap_keeps.
  rewrite (id_is_char es e schema_or_acp Hnd He).
  rewrite (class_readable_char u acps _ es e Hnd He HP); [reflexivity|].
  destruct (Hwf e He) as [_ [_ [_ [_ H]]]]. exact H.
Qed.

(* identities that may not search see nothing, natively and through the gateway *)
Lemma user_nonreader_search_ext : forall usr acps m f req es,
  search_ext (mkI (OUser usr) ScSync) acps m f req es = Some [].
Proof.
  intros usr acps m f req es. unfold search_ext. cbn [i_origin].
  rewrite (search_denied (mkI (OUser usr) ScSync) acps m f es); [reflexivity | reflexivity |].
  intros r H. discriminate.
Qed.
Lemma user_nonreader_exists : forall usr acps m f es,
  exists_ (mkI (OUser usr) ScSync) acps m f es = false.
Proof.
  intros usr acps m f es. unfold exists_. cbn [i_origin].
  change (filter_entries (mkI (OUser usr) ScSync) acps (snd (wrap m f)) (be_search (fst (wrap m f)) es))
    with (search (mkI (OUser usr) ScSync) acps m f es).
  rewrite (search_denied (mkI (OUser usr) ScSync) acps m f es); [reflexivity | reflexivity |].
  intros r H. discriminate.
Qed.

Lemma effective_user : forall w s i acps, effective w s = Ok (i, acps) ->
  exists usr sc, i = mkI (OUser usr) sc.
Proof.
  intros w [u|a sc] i acps H.
  - destruct (effective_unix w u i acps H) as [usr [_ ->]]. exists usr, ScRO. reflexivity.
  - destruct (effective_api w a sc i acps H) as [usr [_ ->]]. exists usr, sc. reflexivity.
Qed.

Lemma nat_filter_attrs : forall f ext, fattrs f <> [] -> fattrs (nat_filter f ext) <> [].
Proof.
  intros f [x|] H; [|exact H]. cbn [nat_filter fattrs flat_map].
  destruct (fattrs f) as [|a q]; [contradiction H; reflexivity | discriminate].
Qed.

Lemma user_search_bridge : forall usr sc acps f ext req es l,
  (forall e, In e es -> wf3 e) -> NoDup (map e_id es) -> fattrs (nat_filter f ext) <> [] ->
  ldap_search (mkI (OUser usr) sc) acps f ext req es = Some l ->
  exists nreq nall,
    native (mkI (OUser usr) sc) acps f ext req es = Some nreq
    /\ native (mkI (OUser usr) sc) acps f ext None es = Some nall
    /\ l = minus_schema_classless es nall nreq.
Proof.
  intros usr sc acps f ext req es l Hwf Hnd Hne Hl.
  assert (Hreader : forall s', s' = ScRO \/ s' = ScRW -> reader (mkI (OUser usr) s') = Some usr).
  { intros s' [->| ->]; reflexivity. }
  destruct sc.
  - pose proof (Hreader ScRO (or_introl eq_refl)) as Hr.
    eexists; eexists. split; [apply (native_char _ usr); exact Hr|]. split; [apply (native_char _ usr); exact Hr|].
    eapply ldap_from_native; try eassumption; apply (native_char _ usr); exact Hr.
  - pose proof (Hreader ScRW (or_intror eq_refl)) as Hr.
    eexists; eexists. split; [apply (native_char _ usr); exact Hr|]. split; [apply (native_char _ usr); exact Hr|].
    eapply ldap_from_native; try eassumption; apply (native_char _ usr); exact Hr.
  - unfold ldap_search in Hl. rewrite user_nonreader_search_ext in Hl. injection Hl as <-.
    exists [], []. unfold native. rewrite !user_nonreader_search_ext. repeat split; reflexivity.
Qed.

Lemma wf_world_inv : forall w, wf_world w = true ->
  (forall e, In e (w_es w) -> wf3 e) /\ NoDup (map e_id (w_es w)).
Proof.
  intros w H. unfold wf_world in H. apply andb_true_iff in H as [H1 H2]. split.
  - intros e He. apply wf40_wf3. apply (proj1 (forallb_forall _ _) H1 e He).
  - apply nodupN_NoDup. exact H2.
Qed.

Lemma search_core : forall w s i acps f ext req l,
  wf_world w = true -> fattrs f <> [] ->
  effective w s = Ok (i, acps) -> ldap_search i acps f ext req (w_es w) = Some l ->
  search_partial_ok (w_es w) l
    (match native i acps f ext req (w_es w), native i acps f ext None (w_es w) with
     | Some a, Some b => Some (a, b)
     | _, _ => None
     end) = true.
Proof.
  intros w s i acps f ext req l Hw Hf He Hl. destruct (wf_world_inv w Hw) as [Hwf Hnd].
  destruct (effective_user w s i acps He) as [usr [sc ->]].
  destruct (user_search_bridge usr sc acps f ext req (w_es w) l Hwf Hnd (nat_filter_attrs f ext Hf) Hl)
    as [nreq [nall [H1 [H2 ->]]]].
  rewrite H1, H2. unfold search_partial_ok. apply ext_eqb_refl.
Qed.

Lemma search_obs_ok : forall w s cur bnd b sc f req l,
  wf_world w = true -> fattrs f <> [] ->
  do_search w s b sc f req = SoEntries l ->
  op_session cur (REntries bnd l) = Some s ->
  (if needs_native (OpSearch b sc f req) (REntries bnd l)
   then search_partial_ok (w_es w) l (native_of w cur (OpSearch b sc f req) (REntries bnd l))
   else is_nil l) = true.
Proof.
  intros w s cur bnd b sc f req l Hw Hf Hd Hs.
  unfold native_of. rewrite Hs. clear Hs.
  destruct b as [| |l0|]; destruct sc; cbn [do_search ext_filter] in Hd; try discriminate;
    cbn [needs_native ext_filter];
    try (injection Hd as <-; reflexivity);
    (destruct (effective w s) as [[i acps]|e] eqn:Ee; [|discriminate];
     rewrite (effective_prescribed w s _ Ee);
     match type of Hd with
     | match ldap_search i acps f ?ext req (w_es w) with _ => _ end = _ =>
         destruct (ldap_search i acps f ext req (w_es w)) as [l'|] eqn:El; [|discriminate];
         injection Hd as <-; apply (search_core w s i acps f ext req l' Hw Hf Ee El)
     end).
Qed.

(* ---- compare *)
Lemma reveals_drop_excl2 : forall u acps dn ava e, fattrs dn <> [] ->
  spec_reveals u acps MHidden (FAnd [dn; ava; ldap_excl] None) e = true ->
  spec_reveals u acps MHidden (FAnd [dn; ava] None) e = true.
Proof.
  intros u acps dn ava e Hne H. unfold spec_reveals in *. cbn [wrap fst snd] in *.
  unfold ignore_hidden, ematches in *. cbn [ematch forallb fattrs flat_map] in *.
  rewrite !forallb_app' in *. rewrite !is_nil_app in *.
  destruct (fattrs dn) as [|a q] eqn:Ed; [contradiction Hne; reflexivity|].
  cbn [is_nil andb negb] in *.
  destruct (negb (existsb (ematch (sem e)) [leaf_class C_TOMBSTONE; leaf_class C_RECYCLED]));
    destruct (ematch (sem e) dn); destruct (ematch (sem e) ava);
    destruct (forallb (may_read u acps e) (a :: q)); destruct (forallb (may_read u acps e) (fattrs ava));
    cbn [andb negb] in *; rewrite ?andb_false_r in H; cbn [andb] in H; try discriminate; reflexivity.
Qed.
Lemma reveals_drop_excl1 : forall u acps dn e, fattrs dn <> [] ->
  spec_reveals u acps MHidden (FAnd [dn; ldap_excl] None) e = true ->
  spec_reveals u acps MHidden dn e = true.
Proof.
  intros u acps dn e Hne H. unfold spec_reveals in *. cbn [wrap fst snd] in *.
  unfold ignore_hidden, ematches in *. cbn [ematch forallb fattrs flat_map] in *.
  rewrite !forallb_app' in *. rewrite !is_nil_app in *.
  destruct (fattrs dn) as [|a q] eqn:Ed; [contradiction Hne; reflexivity|].
  cbn [is_nil andb negb] in *.
  destruct (negb (existsb (ematch (sem e)) [leaf_class C_TOMBSTONE; leaf_class C_RECYCLED]));
    destruct (ematch (sem e) dn);
    destruct (forallb (may_read u acps e) (a :: q));
    cbn [andb negb] in *; rewrite ?andb_false_r in H; cbn [andb] in H; try discriminate; reflexivity.
Qed.

Lemma exists_mono : forall usr sc acps F F' es,
  (forall e, spec_reveals usr acps MHidden F e = true -> spec_reveals usr acps MHidden F' e = true) ->
  exists_ (mkI (OUser usr) sc) acps MHidden F es = true ->
  exists_ (mkI (OUser usr) sc) acps MHidden F' es = true.
Proof.
  intros usr sc acps F F' es Himp H. destruct sc.
  - rewrite (exists_spec _ usr) in H |- * by reflexivity.
    apply existsb_exists in H as [e [He Hs]]. apply existsb_exists. exists e. split; [exact He | apply Himp; exact Hs].
  - rewrite (exists_spec _ usr) in H |- * by reflexivity.
    apply existsb_exists in H as [e [He Hs]]. apply existsb_exists. exists e. split; [exact He | apply Himp; exact Hs].
  - rewrite user_nonreader_exists in H. discriminate.
Qed.

Lemma compare_core : forall usr sc acps dn ava es, fattrs dn <> [] ->
  let i := mkI (OUser usr) sc in
  let c := ldap_compare i acps dn ava es in
  (if c =? 0 then exists_ i acps MHidden (FAnd [dn; ava] None) es
   else if c =? 1 then exists_ i acps MHidden dn es else c =? 2) = true.
Proof.
  intros usr sc acps dn ava es Hne i c. subst c. unfold ldap_compare.
  destruct (exists_ i acps MHidden (FAnd [dn; ava; ldap_excl] None) es) eqn:E1.
  - cbn. apply (exists_mono usr sc acps _ _ es (fun e => reveals_drop_excl2 usr acps dn ava e Hne) E1).
  - destruct (exists_ i acps MHidden (FAnd [dn; ldap_excl] None) es) eqn:E2.
    + cbn. apply (exists_mono usr sc acps _ _ es (fun e => reveals_drop_excl1 usr acps dn e Hne) E2).
    + reflexivity.
Qed.

Lemma compare_obs_ok : forall w s cur bnd b ava c,
  op_wf (OpCompare b ava) = true ->
  do_compare w s b ava = Ok c -> op_session cur (RCompare bnd c) = Some s ->
  match nexists_of w cur (OpCompare b ava) (RCompare bnd c) with
  | Some (t, f) => if c =? 0 then t else if c =? 1 then f else (c =? 2)
  | None => false
  end = true.
Proof.
  intros w s cur bnd b ava c Hwf Hd Hs. unfold do_compare in Hd.
  destruct b as [| |dn|]; try discriminate.
  destruct (effective w s) as [[i acps]|e] eqn:Ee; [|discriminate]. injection Hd as <-.
  unfold nexists_of. rewrite Hs. rewrite (effective_prescribed w s _ Ee).
  destruct (effective_user w s i acps Ee) as [usr [sc ->]].
  cbn [op_wf] in Hwf. apply negb_true_iff in Hwf.
  apply (compare_core usr sc acps dn ava (w_es w)).
  intros Hn. rewrite Hn in Hwf. discriminate.
Qed.

Lemma session_eqb_refl : forall s, session_eqb s s = true.
Proof. intros [u|a sc]; cbn; [apply N.eqb_refl | rewrite N.eqb_refl, scope_eqb_refl; reflexivity]. Qed.

Lemma obs_ok_one : forall w cur o,
  wf_world w = true -> op_wf (o_op o) = true ->
  o_resp o = do_op w cur (o_op o) ->
  o_native o = native_of w cur (o_op o) (o_resp o) ->
  o_nexists o = nexists_of w cur (o_op o) (o_resp o) ->
  o_changed o = false ->
  obs_ok false w o = true.
Proof.
  intros w cur [o r ch nat nex] Hw Hwf Hr Hn Hx Hc. cbn [o_op o_resp o_changed o_native o_nexists] in *.
  unfold obs_ok. cbn [o_op o_resp o_changed o_native o_nexists]. subst ch nat nex. cbn [negb andb].
  destruct o as [dn pw|b sc f req| |b ava|]; cbn [do_op] in Hr.
  - (* bind *)
    destruct (do_bind w dn pw) as [[s|]|e] eqn:E; subst r; [apply (do_bind_ok w dn pw s E) | reflexivity..].
  - (* search *)
    cbn [op_wf] in Hwf. apply negb_true_iff in Hwf.
    assert (Hf : fattrs f <> []) by (intros Hz; rewrite Hz in Hwf; discriminate).
    destruct cur as [s|].
    + destruct (do_search w s b sc f req) as [e| |l] eqn:Ed; subst r; try reflexivity.
      cbn [andb]. apply (search_obs_ok w s (Some s) None b sc f req l Hw Hf Ed). reflexivity.
    + destruct (do_bind w [] []) as [[s|]|e] eqn:Eb; [|subst r; reflexivity..].
      pose proof (implicit_bind w s Eb) as Hs.
      destruct (do_search w s b sc f req) as [e| |l] eqn:Ed; subst r; try reflexivity.
      * subst s. reflexivity.
      * rewrite Hs at 1. cbn [session_eqb]. rewrite N.eqb_refl. cbn [andb].
        apply (search_obs_ok w s None (Some s) b sc f req l Hw Hf Ed). reflexivity.
  - subst r. reflexivity.
  - (* compare *)
    destruct cur as [s|].
    + destruct (do_compare w s b ava) as [c|e] eqn:Ed; subst r; [|reflexivity].
      cbn [andb]. apply (compare_obs_ok w s (Some s) None b ava c Hwf Ed). reflexivity.
    + destruct (do_bind w [] []) as [[s|]|e] eqn:Eb; [|subst r; reflexivity..].
      pose proof (implicit_bind w s Eb) as Hs.
      destruct (do_compare w s b ava) as [c|e] eqn:Ed; subst r; [|reflexivity].
      rewrite Hs at 1. cbn [session_eqb]. rewrite N.eqb_refl. cbn [andb].
      apply (compare_obs_ok w s None (Some s) b ava c Hwf Ed). reflexivity.
  - subst r. reflexivity.
Qed.

Lemma run_exact : forall w os cur,
  wf_world w = true -> run_obs w cur os = true -> run_native w cur os = true ->
  forallb (fun o => op_wf (o_op o)) os = true ->
  forallb (fun o => negb (o_changed o)) os = true ->
  forallb (obs_ok false w) os = true.
Proof.
  intros w os. induction os as [|o r IH]; intros cur Hw Ho Hn Hwf Hc; [reflexivity|].
  cbn [run_obs run_native forallb] in *.
  apply andb_true_iff in Ho as [Ho1 Ho2]. apply andb_true_iff in Hn as [Hn1 Hn3].
  apply andb_true_iff in Hn1 as [Hn1 Hn2]. apply andb_true_iff in Hwf as [Hwf1 Hwf2].
  apply andb_true_iff in Hc as [Hc1 Hc2].
  apply resp_eqb_eq in Ho1. apply onat_eqb_eq in Hn1. apply onex_eqb_eq in Hn2. apply negb_true_iff in Hc1.
  apply andb_true_iff. split.
  - apply (obs_ok_one w cur o Hw Hwf1 (eq_sym Ho1) (eq_sym Hn1) (eq_sym Hn2) Hc1).
  - rewrite Ho1 in Ho2. apply (IH _ Hw Ho2 Hn3 Hwf2 Hc2).
Qed.

Lemma agree_exact : forall c, agree c = true -> pcheck_exact c = true.
Proof.
  intros [w cur0 os] H. unfold agree in H.
  apply andb_true_iff in H as [H Hc]. apply andb_true_iff in H as [H Hwf].
  apply andb_true_iff in H as [H Hn]. apply andb_true_iff in H as [Hw Ho].
  unfold pcheck_exact. apply (run_exact w os cur0 Hw Ho Hn Hwf Hc).
Qed.

(* the exact form and the stated form differ only inside the recorded class *)
Lemma partial_full : forall es l nat, has_classless es nat = false ->
  search_partial_ok es l nat = true -> search_full_ok es l nat = true.
Proof.
  intros es l [[nreq nall]|] Hh Hp; [|discriminate]. unfold search_partial_ok in Hp. unfold search_full_ok.
  apply ext_eqb_eq in Hp. subst l.
  replace (minus_schema es nreq) with (minus_schema_classless es nall nreq); [apply ext_eqb_refl|].
  unfold minus_schema, minus_schema_classless. apply filter_pointwise_In. intros r Hr.
  unfold has_classless in Hh.
  assert (Hx : negb (id_is es (fst r) schema_or_acp) && negb (class_readable nall (fst r)) = false).
  { destruct (negb (id_is es (fst r) schema_or_acp) && negb (class_readable nall (fst r))) eqn:E; [|reflexivity].
    exfalso. assert (Ht : existsb (fun r => negb (id_is es (fst r) schema_or_acp) && negb (class_readable nall (fst r))) nreq = true).
    { apply existsb_exists. exists r. split; assumption. }
    rewrite Ht in Hh. discriminate. }
  destruct (negb (id_is es (fst r) schema_or_acp)); destruct (class_readable nall (fst r)); try reflexivity; discriminate.
Qed.

Lemma obs_ok_full : forall w o,
  (needs_native (o_op o) (o_resp o) && has_classless (w_es w) (o_native o)) = false ->
  obs_ok false w o = true -> obs_ok true w o = true.
Proof.
  intros w o Hk H. unfold obs_ok in *. apply andb_true_iff in H as [H1 H2]. rewrite H1. cbn [andb].
  destruct (o_op o) as [dn pw|b sc f req| |b ava|]; try exact H2.
  destruct (o_resp o) as [s| |e|bd|bd l|bd c| |bb]; try exact H2.
  apply andb_true_iff in H2 as [H2 H3]. rewrite H2. cbn [andb].
  destruct (needs_native (OpSearch b sc f req) (REntries bd l)) eqn:En; [|exact H3].
  cbn [andb] in Hk. apply (partial_full _ _ _ Hk H3).
Qed.

Lemma exact_stated_or_known : forall c, pcheck_exact c = true -> pcheck c = true \/ known c = true.
Proof.
  intros [w cur0 os] H.
  destruct (existsb (fun o => needs_native (o_op o) (o_resp o) && has_classless (w_es w) (o_native o)) os) eqn:E.
  - right. unfold known. rewrite H, E. reflexivity.
  - left. unfold pcheck. unfold pcheck_exact in H. apply forallb_forall. intros o Ho.
    apply obs_ok_full; [|apply (proj1 (forallb_forall _ _) H o Ho)].
    destruct (needs_native (o_op o) (o_resp o) && has_classless (w_es w) (o_native o)) eqn:Ek; [|reflexivity].
    exfalso. assert (Ht : existsb (fun o => needs_native (o_op o) (o_resp o) && has_classless (w_es w) (o_native o)) os = true).
    { apply existsb_exists. exists o. split; assumption. }
    rewrite Ht in E. discriminate.
Qed.

Lemma agree_property : forall c, agree c = true -> pcheck c = true \/ known c = true.
Proof. intros c H. apply exact_stated_or_known. apply agree_exact. exact H. Qed.
