(* KV.C40.Model — the LDAP gateway: bind, effective identity, dispatch (executable definitions only).
   Transcribes

     LdapServer::do_op                         server/lib/src/idm/ldap.rs:609
     LdapServer::bind_target_from_bind_dn      server/lib/src/idm/ldap.rs:714   (incl. the bind DN regex, ldap.rs:121)
     LdapServer::do_bind                       server/lib/src/idm/ldap.rs:437
     LdapServer::do_search / do_compare        server/lib/src/idm/ldap.rs:170,493 (scope / base handling; the
                                               search itself is KV.C23.Model.ldap_search / ldap_compare)
     IdmServerAuthTransaction::auth_ldap       server/lib/src/idm/server.rs:1579
     IdmServerAuthTransaction::auth_with_unix_pass   server/lib/src/idm/server.rs:1461
     IdmServerAuthTransaction::token_auth_ldap server/lib/src/idm/server.rs:1643
     IdmServerAuthTransaction::application_auth_ldap server/lib/src/idm/application.rs:142
     validate_ldap_session, process_ldap_uuid_to_identity, process_apit_to_identity
                                               server/lib/src/idm/server.rs:1076,1010,844
     the connection loop (which token a later operation runs with)   server/core/src/ldaps.rs:105

   Universe. Strings (bind DN, secrets, names) are byte lists; uuids, attributes and filter values are
   the interned numbers of KV.C23.Model. What the bind path READS from the directory is data of the
   case: per entry whether it is an account, whether it is inside its validity window now, the
   cleartexts that its stored credentials verify (the harness set them), its memberof, its application
   passwords; the loaded application table; the name index (name_to_uuid); the bearer tokens that
   verify. Signature checking, password hashing and token expiry arithmetic are NOT modelled (C30,
   C32, C33): a secret "verifies" iff it is byte-equal to the cleartext the harness stored. *)
From Coq Require Import List NArith Bool.
Import ListNotations.
Require Export KV.Base.Filter KV.C23.Model.
Open Scope N_scope.

Definition str := list N.
Definition str_eqb (a b : str) : bool := listN_eqb a b.
Fixpoint strs_eqb (a b : list str) : bool :=
  match a, b with
  | [], [] => true
  | x :: a', y :: b' => str_eqb x y && strs_eqb a' b'
  | _, _ => false
  end.

(* ------------------------------------------------------------------ the bind DN
   binddnre = ^((([^=,]+)=)?(?P<val>[^=,]+))(,app=(?P<app>[^=,]+))?(,{basedn})?$
   Components cannot contain ',' or '=', so a match is a split of the DN at ',':
   head [`a=v` or `v`], optionally `app=x`, optionally exactly the components of the base DN.
   The optional groups are greedy: `app=` is taken when the rest still matches. *)
Definition COMMA := 44.
Definition EQUALS := 61.
Definition S_APP : str := [97; 112; 112].                         (* "app" *)
Definition S_DN_TOKEN : str := [100; 110; 61; 116; 111; 107; 101; 110].  (* "dn=token" *)

Fixpoint split (sep : N) (s : str) : list str :=
  match s with
  | [] => [[]]
  | c :: r =>
      if c =? sep then [] :: split sep r
      else match split sep r with
           | h :: t => (c :: h) :: t
           | [] => [[c]]
           end
  end.

(* (([^=,]+)=)?(?P<val>[^=,]+) on one component *)
Definition head_val (h : str) : option str :=
  match split EQUALS h with
  | [v] => if is_nil v then None else Some v
  | [a; v] => if is_nil a || is_nil v then None else Some v
  | _ => None
  end.
(* app=(?P<app>[^=,]+) on one component *)
Definition app_comp (c : str) : option str :=
  match split EQUALS c with
  | [a; v] => if str_eqb a S_APP && negb (is_nil v) then Some v else None
  | _ => None
  end.
(* (,{basedn})?$ *)
Definition rest_ok (base : list str) (r : list str) : bool := is_nil r || strs_eqb r base.

(* (val, app) *)
Definition parse_bind_dn (basedn dn : str) : option (str * option str) :=
  match split COMMA dn with
  | h :: r =>
      match head_val h with
      | None => None
      | Some v =>
          let base := split COMMA basedn in
          match r with
          | [] => Some (v, None)
          | c :: r' =>
              match app_comp c with
              | Some a =>
                  if rest_ok base r' then Some (v, Some a)
                  else if rest_ok base r then Some (v, None) else None
              | None => if rest_ok base r then Some (v, None) else None
              end
          end
      end
  | [] => None
  end.

(* str::to_lowercase on ASCII (the harness only uses ASCII in bind DNs) *)
Definition lower (c : N) : N := if (65 <=? c) && (c <=? 90) then c + 32 else c.

(* ------------------------------------------------------------------ what the bind path reads *)
Record acct := mkAc {
  ac_id : N;
  ac_account : bool;             (* Account::try_from_entry_* succeeds on this entry *)
  ac_valid : bool;               (* Account::is_within_valid_time(now) *)
  ac_unix : option str;          (* cleartext of the POSIX (unix) password credential *)
  ac_primary : option str;       (* cleartext of the primary credential's password *)
  ac_fallback : bool;            (* account policy: allow_primary_cred_fallback == Some(true) *)
  ac_locked : bool;              (* the credential's soft lock refuses right now *)
  ac_mo : list N;                (* memberof *)
  ac_apppw : list (N * str) }.   (* application passwords: (application uuid, cleartext) *)
Record app := mkApp { ap_name : str; ap_id : N; ap_group : N }.
(* a bearer token that passes jws_verify *)
Inductive tokstate :=
| TkLive (account : N) (sc : scope)   (* an API token whose session is on the account *)
| TkExpired.                          (* verifies, but past its expiry *)

Record world := mkW {
  w_flag : bool;                       (* domain: ldap_allow_unix_pw_bind *)
  w_basedn : str;
  w_names : list (str * N);            (* name_to_uuid: lower-case name / spn / uuid text -> uuid *)
  w_accts : list acct;                 (* the entries those uuids denote (absent = no such entry) *)
  w_apps : list app;                   (* IdmServer applications table *)
  w_tokens : list (str * tokstate);
  w_prin : list (N * (user * list acp)); (* possible effective identities: the entry as a C23 user and
                                            the loaded search profiles resolved for it *)
  w_es : list entry }.                 (* the tracked directory entries (KV.C23.Model.entry) *)

Fixpoint assoc_s {A} (k : str) (l : list (str * A)) : option A :=
  match l with
  | [] => None
  | (k', v) :: r => if str_eqb k k' then Some v else assoc_s k r
  end.
Fixpoint assoc_n {A} (k : N) (l : list (N * A)) : option A :=
  match l with
  | [] => None
  | (k', v) :: r => if k =? k' then Some v else assoc_n k r
  end.
Definition find_acct (w : world) (u : N) : option acct := find (fun a => ac_id a =? u) (w_accts w).
Definition find_app (w : world) (n : str) : option app := find (fun a => str_eqb (ap_name a) n) (w_apps w).

(* ------------------------------------------------------------------ errors and results *)
Inductive err :=
| ENoMatch        (* NoMatchingEntries *)
| ENotAuth        (* NotAuthenticated *)
| EExpired        (* SessionExpired *)
| EInvalidUuid    (* InvalidUuid: application bind as anonymous *)
| ENotAccount     (* MissingClass / MissingAttribute from Account::try_from_entry *)
| EConstraint     (* InvalidRequestState -> constraintViolation *)
| EOther.
Inductive res (A : Type) := Ok (a : A) | Err (e : err).
Arguments Ok {A} a.
Arguments Err {A} e.

Inductive target := TAccount (u : N) | TToken | TApp (a : str) (u : N).
(* LdapSession as do_bind produces it: application binds also yield UnixBind(account) *)
Inductive session := SUnix (u : N) | SApi (account : N) (sc : scope).

(* bind_target_from_bind_dn *)
Definition bind_target (w : world) (dn pw : str) : res target :=
  if is_nil dn then (if is_nil pw then Ok (TAccount UUID_ANON) else Ok TToken)
  else if str_eqb dn S_DN_TOKEN then Ok TToken
  else
    match parse_bind_dn (w_basedn w) dn with
    | Some (v, oa) =>
        match assoc_s (map lower v) (w_names w) with
        | None => Err ENoMatch
        | Some u => match oa with Some a => Ok (TApp a u) | None => Ok (TAccount u) end
        end
    | None => Err ENoMatch
    end.

Definition opt_str_is (o : option str) (pw : str) : bool :=
  match o with Some s => str_eqb s pw | None => false end.

(* auth_with_unix_pass: Ok true = Some(account) *)
Definition auth_with_unix_pass (w : world) (u : N) (pw : str) : res bool :=
  match find_acct w u with
  | None => Err ENoMatch
  | Some a =>
      if negb (ac_account a) then Err ENotAccount
      else if negb (ac_valid a) then Ok false
      else
        let cred := if ac_fallback a
                    then (match ac_unix a with Some c => Some c | None => ac_primary a end)
                    else ac_unix a in
        match cred with
        | None => Ok false
        | Some c => if ac_locked a then Ok false else Ok (str_eqb c pw)
        end
  end.

(* auth_ldap *)
Definition auth_ldap (w : world) (u : N) (pw : str) : res (option session) :=
  if u =? UUID_ANON then
    match find_acct w u with
    | None => Err ENoMatch
    | Some a => if negb (ac_account a) then Err ENotAccount
                else if negb (ac_valid a) then Ok None else Ok (Some (SUnix UUID_ANON))
    end
  else if negb (w_flag w) then Ok None
  else match auth_with_unix_pass w u pw with
       | Err e => Err e
       | Ok true => Ok (Some (SUnix u))
       | Ok false => Ok None
       end.

(* application_auth_ldap + Account::verify_application_password *)
Definition application_auth_ldap (w : world) (an : str) (u : N) (pw : str) : res (option session) :=
  match find_acct w u with
  | None => Err ENoMatch
  | Some a =>
      if negb (ac_account a) then Err ENotAccount
      else if u =? UUID_ANON then Err EInvalidUuid
      else if negb (ac_valid a) then Err EExpired
      else match find_app w an with
           | None => Err ENoMatch
           | Some ap =>
               if negb (memN (ap_group ap) (ac_mo a)) then Ok None
               else if existsb (fun p => (fst p =? ap_id ap) && str_eqb (snd p) pw) (ac_apppw a)
                    then Ok (Some (SUnix u)) else Ok None
           end
  end.

(* token_auth_ldap (API tokens) *)
Definition token_auth_ldap (w : world) (pw : str) : res (option session) :=
  match assoc_s pw (w_tokens w) with
  | None => Err ENotAuth
  | Some TkExpired => Err EExpired
  | Some (TkLive a sc) =>
      match find_acct w a with
      | None => Err ENotAuth
      | Some _ => Ok (Some (SApi a sc))
      end
  end.

(* do_bind *)
Definition do_bind (w : world) (dn pw : str) : res (option session) :=
  match bind_target w dn pw with
  | Err e => Err e
  | Ok (TAccount u) => auth_ldap w u pw
  | Ok TToken => token_auth_ldap w pw
  | Ok (TApp a u) => application_auth_ldap w a u pw
  end.

(* validate_ldap_session: the identity an operation of this session runs with, and its profiles *)
Definition effective (w : world) (s : session) : res (ident * list acp) :=
  match s with
  | SUnix u =>
      match find_acct w u with
      | None => Err ENoMatch
      | Some a =>
          if negb (ac_account a) then Err ENotAccount
          else if negb (ac_valid a) then Err EExpired
          else match assoc_n UUID_ANON (w_prin w) with
               | Some (usr, acps) => Ok (mkI (OUser usr) ScRO, acps)
               | None => Err ENoMatch
               end
      end
  | SApi a sc =>
      match find_acct w a with
      | None => Err ENoMatch
      | Some ac =>
          if negb (ac_valid ac) then Err EExpired
          else match assoc_n a (w_prin w) with
               | Some (usr, acps) => Ok (mkI (OUser usr) sc, acps)
               | None => Err ENoMatch
               end
      end
  end.

(* ------------------------------------------------------------------ operations (= ServerOps) *)
Definition V_DOMAIN_INFO := 29.     (* value id of the domain-info uuid (fixed by the harness) *)
Definition D_INFO : filt := FLeaf KEq A_UUID V_DOMAIN_INFO None.

Inductive lscope := LBase | LOne | LSub | LChildren.
(* the search base / compared entry as dnre reads it *)
Inductive sbase :=
| BEmpty                 (* "" *)
| BDomain                (* the base DN (optionally below app=..) *)
| BRdn (l : filt)        (* attr=val,<base DN>: the equality term of the rdn *)
| BBad.                  (* anything dnre does not match *)

Inductive op :=
| OpBind (dn pw : str)
| OpSearch (b : sbase) (sc : lscope) (f : filt) (req : option (list N))
| OpUnbind
| OpCompare (b : sbase) (ava : filt)
| OpWhoami.

Inductive resp :=
| RBound (s : session)                                  (* Bind(token, success) *)
| RInvalidCred                                          (* Respond(invalidCredentials) *)
| RErr (e : err)                                        (* Respond(error) *)
| RRootDse (bound : option session)
| REntries (bound : option session) (l : list (N * list N))  (* [Bind]MultiPartResponse of a search *)
| RCompare (bound : option session) (code : N)          (* 0 compareTrue, 1 compareFalse, 2 noSuchObject *)
| RUnbind
| RWhoami (bound : bool).

Inductive sout := SoErr (e : err) | SoRoot | SoEntries (l : list (N * list N)).

Definition ext_filter (sc : lscope) (rdn : option filt) : option (option filt) :=
  match sc, rdn with
  | LChildren, Some _ | LOne, Some _ => None                       (* success, no entries *)
  | LChildren, None | LOne, None => Some (Some (FAndNot D_INFO None))
  | LBase, Some l | LSub, Some l => Some (Some l)
  | LBase, None => Some (Some D_INFO)
  | LSub, None => Some None
  end.

Definition do_search (w : world) (s : session) (b : sbase) (sc : lscope) (f : filt)
  (req : option (list N)) : sout :=
  match b, sc with
  | BEmpty, LBase => SoRoot
  | BEmpty, _ | BBad, _ => SoErr EConstraint
  | _, _ =>
      let rdn := match b with BRdn l => Some l | _ => None end in
      match ext_filter sc rdn with
      | None => SoEntries []
      | Some ext =>
          match effective w s with
          | Err e => SoErr e
          | Ok (i, acps) =>
              match ldap_search i acps f ext req (w_es w) with
              | Some l => SoEntries l
              | None => SoErr EOther
              end
          end
      end
  end.

Definition do_compare (w : world) (s : session) (b : sbase) (ava : filt) : res N :=
  match b with
  | BRdn dn =>
      match effective w s with
      | Err e => Err e
      | Ok (i, acps) => Ok (ldap_compare i acps dn ava (w_es w))
      end
  | _ => Err EConstraint
  end.

(* do_op: `cur` is the connection's bound token (None = nothing bound yet) *)
Definition do_op (w : world) (cur : option session) (o : op) : resp :=
  match o with
  | OpBind dn pw =>
      match do_bind w dn pw with
      | Ok (Some s) => RBound s
      | Ok None => RInvalidCred
      | Err e => RErr e
      end
  | OpSearch b sc f req =>
      match cur with
      | Some s =>
          match do_search w s b sc f req with
          | SoErr e => RErr e | SoRoot => RRootDse None | SoEntries l => REntries None l
          end
      | None =>
          match do_bind w [] [] with
          | Ok (Some s) =>
              match do_search w s b sc f req with
              | SoErr e => RErr e | SoRoot => RRootDse (Some s) | SoEntries l => REntries (Some s) l
              end
          | Ok None => RInvalidCred
          | Err e => RErr e
          end
      end
  | OpUnbind => RUnbind
  | OpCompare b ava =>
      match cur with
      | Some s => match do_compare w s b ava with Ok c => RCompare None c | Err e => RErr e end
      | None =>
          match do_bind w [] [] with
          | Ok (Some s) =>
              match do_compare w s b ava with Ok c => RCompare (Some s) c | Err e => RErr e end
          | Ok None => RInvalidCred
          | Err e => RErr e
          end
      end
  | OpWhoami => RWhoami (match cur with Some _ => true | None => false end)
  end.

(* the connection loop of server/core/src/ldaps.rs: only Bind / BindMultiPartResponse replace the
   connection's token; a refused bind leaves the previous token in place *)
Definition next_cur (cur : option session) (r : resp) : option session :=
  match r with
  | RBound s => Some s
  | REntries (Some s) _ | RCompare (Some s) _ | RRootDse (Some s) => Some s
  | _ => cur
  end.

(* The directory is not part of what an operation returns: the gateway has no operation that could
   hand a new directory back. A connection is a fold over (token, responses). *)
Fixpoint run_conn (w : world) (cur : option session) (ops : list op) : list resp :=
  match ops with
  | [] => []
  | o :: r => let x := do_op w cur o in x :: run_conn w (next_cur cur x) r
  end.

(* ================================================================== the native side *)
(* the client's filter joined with the scoping term, WITHOUT the gateway's class exclusion *)
Definition nat_filter (f : filt) (ext : option filt) : filt :=
  match ext with Some x => FAnd [f; x] None | None => f end.
(* native search_ext by identity i *)
Definition native (i : ident) (acps : list acp) (f : filt) (ext : option filt)
  (req : option (list N)) (es : list entry) : option (list (N * list N)) :=
  search_ext i acps MHidden (nat_filter f ext) req es.

Definition schema_or_acp (e : entry) : bool :=
  memN C_CLASSTYPE (e_class e) || memN C_ATTRIBUTETYPE (e_class e) || memN C_ACP (e_class e).
(* case data coherence: class leaves agree with the class list, `class` is present, for the
   wrappers' leaves *)
Definition wf40 (e : entry) : bool :=
  wf_entry e
  && eqb (sem e KEq A_CLASS C_CLASSTYPE) (memN C_CLASSTYPE (e_class e))
  && eqb (sem e KEq A_CLASS C_ATTRIBUTETYPE) (memN C_ATTRIBUTETYPE (e_class e))
  && eqb (sem e KEq A_CLASS C_ACP) (memN C_ACP (e_class e))
  && memN A_CLASS (e_attrs e).
Fixpoint nodupN (l : list N) : bool :=
  match l with [] => true | x :: r => negb (memN x r) && nodupN r end.

(* ================================================================== cases *)
Definition ext_eqb' := ext_eqb.
Definition scope_eqb (a b : scope) : bool :=
  match a, b with ScRO, ScRO | ScRW, ScRW | ScSync, ScSync => true | _, _ => false end.
Definition session_eqb (a b : session) : bool :=
  match a, b with
  | SUnix x, SUnix y => x =? y
  | SApi x s, SApi y t => (x =? y) && scope_eqb s t
  | _, _ => false
  end.
Definition osession_eqb (a b : option session) : bool :=
  match a, b with Some x, Some y => session_eqb x y | None, None => true | _, _ => false end.
Definition err_eqb (a b : err) : bool :=
  match a, b with
  | ENoMatch, ENoMatch | ENotAuth, ENotAuth | EExpired, EExpired | EInvalidUuid, EInvalidUuid
  | ENotAccount, ENotAccount | EConstraint, EConstraint | EOther, EOther => true
  | _, _ => false
  end.
Definition resp_eqb (a b : resp) : bool :=
  match a, b with
  | RBound x, RBound y => session_eqb x y
  | RInvalidCred, RInvalidCred => true
  | RErr x, RErr y => err_eqb x y
  | RRootDse x, RRootDse y => osession_eqb x y
  | REntries x l, REntries y m => osession_eqb x y && ext_eqb l m
  | RCompare x c, RCompare y d => osession_eqb x y && (c =? d)
  | RUnbind, RUnbind => true
  | RWhoami x, RWhoami y => eqb x y
  | _, _ => false
  end.

(* what the harness observed next to an operation *)
Record obs := mkO {
  o_op : op;
  o_resp : resp;                         (* the implementation's answer *)
  o_changed : bool;                      (* the directory fingerprint differs after the operation, or
                                            a delayed write was queued *)
  (* for a search that returned entries through the directory: the NATIVE search_ext with the same
     filter (joined with the scoping term) by the identity the property prescribes for the
     connection's bind (anonymous for every password bind, the token's account for a token), with
     the same requested attributes, and with all attributes *)
  o_native : option (list (N * list N) * list (N * list N));
  (* for a compare that answered: the native `exists` of And[rdn; ava] and of rdn, same identity *)
  o_nexists : option (bool * bool) }.

(* cur0: the token the connection already holds when the case starts (a connection that spans a
   change of the directory made by the harness is split into two cases) *)
Inductive case := CConn (w : world) (cur0 : option session) (os : list obs).

Fixpoint run_obs (w : world) (cur : option session) (os : list obs) : bool :=
  match os with
  | [] => true
  | o :: r =>
      let x := do_op w cur (o_op o) in
      resp_eqb x (o_resp o) && run_obs w (next_cur cur x) r
  end.

(* the identity the PROPERTY prescribes for a session (not validate_ldap_session): every
   password session is anonymous read-only; a token session is its account with the token's scope *)
Definition prescribed (w : world) (s : session) : option (ident * list acp) :=
  match s with
  | SUnix _ => match assoc_n UUID_ANON (w_prin w) with
               | Some (usr, acps) => Some (mkI (OUser usr) ScRO, acps) | None => None end
  | SApi a sc => match assoc_n a (w_prin w) with
                 | Some (usr, acps) => Some (mkI (OUser usr) sc, acps) | None => None end
  end.

(* session a search / compare ran with, as the connection loop determines it *)
Definition op_session (cur : option session) (r : resp) : option session :=
  match r with
  | REntries (Some s) _ | RCompare (Some s) _ => Some s
  | _ => cur
  end.

Definition native_of (w : world) (cur : option session) (o : op) (r : resp)
  : option (list (N * list N) * list (N * list N)) :=
  match o, r with
  | OpSearch b sc f req, REntries _ _ =>
      match op_session cur r with
      | Some s =>
          match prescribed w s, ext_filter sc (match b with BRdn l => Some l | _ => None end) with
          | Some (i, acps), Some ext =>
              match native i acps f ext req (w_es w), native i acps f ext None (w_es w) with
              | Some a, Some b => Some (a, b)
              | _, _ => None
              end
          | _, _ => None
          end
      | None => None
      end
  | _, _ => None
  end.
Definition nexists_of (w : world) (cur : option session) (o : op) (r : resp) : option (bool * bool) :=
  match o, r with
  | OpCompare (BRdn dn) ava, RCompare _ _ =>
      match op_session cur r with
      | Some s =>
          match prescribed w s with
          | Some (i, acps) =>
              Some (exists_ i acps MHidden (FAnd [dn; ava] None) (w_es w),
                    exists_ i acps MHidden dn (w_es w))
          | None => None
          end
      | None => None
      end
  | _, _ => None
  end.

Definition onat_eqb (a b : option (list (N * list N) * list (N * list N))) : bool :=
  match a, b with
  | Some (x, y), Some (x', y') => ext_eqb x x' && ext_eqb y y'
  | None, None => true
  | _, _ => false
  end.
Definition onex_eqb (a b : option (bool * bool)) : bool :=
  match a, b with
  | Some (x, y), Some (x', y') => eqb x x' && eqb y y'
  | None, None => true
  | _, _ => false
  end.

Fixpoint run_native (w : world) (cur : option session) (os : list obs) : bool :=
  match os with
  | [] => true
  | o :: r =>
      onat_eqb (native_of w cur (o_op o) (o_resp o)) (o_native o)
      && onex_eqb (nexists_of w cur (o_op o) (o_resp o)) (o_nexists o)
      && run_native w (next_cur cur (o_resp o)) r
  end.

(* the correspondence covers client filters that name at least one attribute (the absolute true /
   false filters `(&)` / `(|)` are outside: natively they select nothing, see filter_entries) *)
Definition op_wf (o : op) : bool :=
  match o with
  | OpSearch _ _ f _ => negb (is_nil (fattrs f))
  | OpCompare (BRdn dn) _ => negb (is_nil (fattrs dn))
  | _ => true
  end.

Definition wf_world (w : world) : bool :=
  forallb wf40 (w_es w) && nodupN (map e_id (w_es w)).

Definition agree (c : case) : bool :=
  match c with
  | CConn w cur0 os =>
      wf_world w
      && run_obs w cur0 os
      && run_native w cur0 os
      && forallb (fun o => op_wf (o_op o)) os
      && forallb (fun o => negb (o_changed o)) os
  end.

(* ================================================================== the property on the
   IMPLEMENTATION's outputs (a specification, not the transcription above) *)

(* (1) a password proves itself: which secrets let `u` bind *)
Definition unix_secret_ok (w : world) (u : N) (pw : str) : bool :=
  w_flag w &&
  match find_acct w u with
  | Some a =>
      ac_account a && ac_valid a && negb (ac_locked a)
      && (opt_str_is (ac_unix a) pw
          || (ac_fallback a && match ac_unix a with None => true | Some _ => false end
              && opt_str_is (ac_primary a) pw))
  | None => false
  end.
Definition app_secret_ok (w : world) (u : N) (pw : str) : bool :=
  negb (u =? UUID_ANON) &&
  match find_acct w u with
  | Some a =>
      ac_account a && ac_valid a
      && existsb (fun ap => memN (ap_group ap) (ac_mo a)
                            && existsb (fun p => (fst p =? ap_id ap) && str_eqb (snd p) pw) (ac_apppw a))
                 (w_apps w)
  | None => false
  end.
Definition bind_ok (w : world) (pw : str) (s : session) : bool :=
  match s with
  | SUnix u => (u =? UUID_ANON) || unix_secret_ok w u pw || app_secret_ok w u pw
  | SApi a sc => match assoc_s pw (w_tokens w) with
                 | Some (TkLive a' sc') => (a =? a') && scope_eqb sc sc'
                 | _ => false
                 end
  end.

(* (2) search = native search minus schema / access-control entries *)
Definition id_is (es : list entry) (id : N) (p : entry -> bool) : bool :=
  existsb (fun e => (e_id e =? id) && p e) es.
Definition minus_schema (es : list entry) (l : list (N * list N)) : list (N * list N) :=
  filter (fun r => negb (id_is es (fst r) schema_or_acp)) l.
(* the exact relation the code has: additionally `class` must be readable on the entry *)
Definition class_readable (nall : list (N * list N)) (id : N) : bool :=
  existsb (fun r => (fst r =? id) && memN A_CLASS (snd r)) nall.
Definition minus_schema_classless (es : list entry) (nall l : list (N * list N)) : list (N * list N) :=
  filter (fun r => negb (id_is es (fst r) schema_or_acp) && class_readable nall (fst r)) l.

Definition search_full_ok (es : list entry) (l : list (N * list N))
  (nat : option (list (N * list N) * list (N * list N))) : bool :=
  match nat with
  | Some (nreq, _) => ext_eqb l (minus_schema es nreq)
  | None => false
  end.
Definition search_partial_ok (es : list entry) (l : list (N * list N))
  (nat : option (list (N * list N) * list (N * list N))) : bool :=
  match nat with
  | Some (nreq, nall) => ext_eqb l (minus_schema_classless es nall nreq)
  | None => false
  end.
(* the recorded deviation: a natively visible, non-schema entry whose `class` the identity cannot read *)
Definition has_classless (es : list entry)
  (nat : option (list (N * list N) * list (N * list N))) : bool :=
  match nat with
  | Some (nreq, nall) =>
      existsb (fun r => negb (id_is es (fst r) schema_or_acp) && negb (class_readable nall (fst r))) nreq
  | None => false
  end.

Definition needs_native (o : op) (r : resp) : bool :=
  match o, r with
  | OpSearch BEmpty _ _ _, _ => false
  | OpSearch (BRdn _) LOne _ _, _ | OpSearch (BRdn _) LChildren _ _, _ => false
  | OpSearch _ _ _ _, REntries _ _ => true
  | _, _ => false
  end.

Definition obs_ok (full : bool) (w : world) (o : obs) : bool :=
  negb (o_changed o)
  && match o_op o, o_resp o with
     | OpBind dn pw, RBound s => bind_ok w pw s
     | OpBind _ _, (RInvalidCred | RErr _) => true
     | OpBind _ _, _ => false
     | OpSearch _ _ _ _, REntries b l =>
         (match b with Some s => session_eqb s (SUnix UUID_ANON) | None => true end)
         && (if needs_native (o_op o) (o_resp o)
             then (if full then search_full_ok (w_es w) l (o_native o)
                   else search_partial_ok (w_es w) l (o_native o))
             else is_nil l)
     | OpSearch _ _ _ _, RRootDse b =>
         (match b with Some s => session_eqb s (SUnix UUID_ANON) | None => true end)
     | OpSearch _ _ _ _, (RErr _ | RInvalidCred) => true
     | OpSearch _ _ _ _, _ => false
     | OpCompare _ _, RCompare b c =>
         (match b with Some s => session_eqb s (SUnix UUID_ANON) | None => true end)
         && (match o_nexists o with
             | Some (t, f) => if c =? 0 then t else if c =? 1 then f else (c =? 2)
             | None => false
             end)
     | OpCompare _ _, (RErr _ | RInvalidCred) => true
     | OpCompare _ _, _ => false
     | OpUnbind, RUnbind => true
     | OpUnbind, _ => false
     | OpWhoami, RWhoami _ => true
     | OpWhoami, _ => false
     end.

(* the property as stated (full) *)
Definition pcheck (c : case) : bool :=
  match c with CConn w _ os => forallb (obs_ok true w) os end.
(* the exact form: as stated, except that entries with unreadable `class` are hidden as well *)
Definition pcheck_exact (c : case) : bool :=
  match c with CConn w _ os => forallb (obs_ok false w) os end.
(* the recorded class: the only failures are searches that differ from the native result exactly by
   entries whose `class` is unreadable to the identity *)
Definition known (c : case) : bool :=
  match c with
  | CConn w _ os =>
      pcheck_exact c
      && existsb (fun o => needs_native (o_op o) (o_resp o) && has_classless (w_es w) (o_native o)) os
  end.
