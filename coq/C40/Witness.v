(* KV.C40.Witness — non-vacuity: concrete non-trivial worlds meet the hypotheses of the implication
   theorems, binds really succeed and really are refused, and the refutation witness is concrete. *)
From Coq Require Import List NArith Bool.
Import ListNotations.
Require Import KV.Base.Filter KV.C23.Model KV.C23.Proofs KV.C40.Model KV.C40.Proofs.
Open Scope N_scope.

(* bytes: "dc=x" base DN, names "al" (alice, uuid 1), "an" (anonymous, uuid 0), "sv" (service, 3),
   application "mail" (uuid 4, linked group 10); secrets "pw1" (alice POSIX), "ap1" (alice's
   application password for mail), token "tok" (service account, read-write) *)
Definition s_base : str := [100; 99; 61; 120].
Definition s_al : str := [97; 108].
Definition s_an : str := [97; 110].
Definition s_mail : str := [109; 97; 105; 108].
Definition s_pw1 : str := [112; 119; 49].
Definition s_ap1 : str := [97; 112; 49].
Definition s_tok : str := [116; 111; 107].
(* "name=AL,dc=x" and "al,app=mail,dc=x" *)
Definition dn_al : str := [110; 97; 109; 101; 61; 65; 76; 44; 100; 99; 61; 120].
Definition dn_al_mail : str := [97; 108; 44; 97; 112; 112; 61; 109; 97; 105; 108; 44; 100; 99; 61; 120].

Definition anon_user := mkU UUID_ANON (Some [20]) [0; 6] None.
Definition svc_user := mkU 3 (Some [21]) [0; 6; 13] None.
(* members of group 20 (anonymous) read class+name of persons; members of 21 read everything listed *)
Definition w_acps : list acp :=
  [mkA (RGroup [20]) (Some (FLeaf KEq A_CLASS 7 None)) [A_CLASS; A_NAME];
   mkA (RGroup [21]) (Some (FLeaf KEq A_CLASS 7 None)) [A_CLASS; A_NAME; A_DISPLAYNAME]].
Definition e_alice := mkE 1 [0; 6; 7] [0; 1; 2; 3] [] [] None [(KEq, A_CLASS, 7); (KEq, A_NAME, 100)].
Definition e_schema := mkE 9 [0; 26] [0; 1; 2] [] [] None [(KEq, A_CLASS, C_CLASSTYPE); (KEq, A_NAME, 100)].
Definition mk_world (flag : bool) : world :=
  mkW flag s_base [(s_al, 1); (s_an, 0)]
    [mkAc 0 true true None None false false [20] [];
     mkAc 1 true true (Some s_pw1) None false false [10] [(4, s_ap1)];
     mkAc 3 true true None None false false [21] []]
    [mkApp s_mail 4 10]
    [(s_tok, TkLive 3 ScRW)]
    [(0, (anon_user, w_acps)); (3, (svc_user, w_acps))]
    [e_alice; e_schema].
Definition w_on := mk_world true.
Definition w_off := mk_world false.

(* parsing: upper-case name with base DN, and the application form *)
Example C40_witness_targets :
  bind_target w_on dn_al s_pw1 = Ok (TAccount 1)
  /\ bind_target w_on dn_al_mail s_ap1 = Ok (TApp s_mail 1)
  /\ bind_target w_on [] s_tok = Ok TToken
  /\ bind_target w_on [] [] = Ok (TAccount UUID_ANON).
Proof. vm_compute. repeat split; reflexivity. Qed.

(* C40_unix_bind_sound / C40_unix_bind_needs_flag: the same bind succeeds with the flag and is
   refused without it; a wrong password is refused *)
Example C40_witness_flag :
  do_bind w_on dn_al s_pw1 = Ok (Some (SUnix 1))
  /\ do_bind w_off dn_al s_pw1 = Ok None
  /\ do_bind w_on dn_al s_ap1 = Ok None
  /\ w_flag w_off = false /\ 1 <> UUID_ANON.
Proof. vm_compute. repeat split; try reflexivity. discriminate. Qed.

(* C40_app_bind_needs_group: the application bind succeeds (also with the flag off); without the
   membership it is refused *)
Definition w_nogroup : world :=
  mkW false s_base [(s_al, 1); (s_an, 0)]
    [mkAc 0 true true None None false false [20] [];
     mkAc 1 true true (Some s_pw1) None false false [] [(4, s_ap1)]]
    [mkApp s_mail 4 10] [] [(0, (anon_user, w_acps))] [e_alice].
Example C40_witness_app :
  do_bind w_off dn_al_mail s_ap1 = Ok (Some (SUnix 1))
  /\ do_bind w_nogroup dn_al_mail s_ap1 = Ok None
  /\ do_bind w_off dn_al_mail s_pw1 = Ok None.
Proof. vm_compute. repeat split; reflexivity. Qed.

(* C40_pw_bind_is_anonymous / C40_pw_session_equals_anonymous: alice's session is the anonymous
   reader; the token session is the service account with its own (larger) rights *)
Example C40_witness_identity :
  effective w_on (SUnix 1) = Ok (mkI (OUser anon_user) ScRO, w_acps)
  /\ effective w_on (SUnix UUID_ANON) = Ok (mkI (OUser anon_user) ScRO, w_acps)
  /\ effective w_on (SApi 3 ScRW) = Ok (mkI (OUser svc_user) ScRW, w_acps)
  /\ do_bind w_on [] s_tok = Ok (Some (SApi 3 ScRW)).
Proof. vm_compute. repeat split; reflexivity. Qed.
Definition f_person := FLeaf KEq A_CLASS 7 None.
Definition f_name := FLeaf KEq A_NAME 100 None.
Example C40_witness_searches :
  do_search w_on (SUnix 1) BDomain LSub f_person None = SoEntries [(1, [A_CLASS; A_NAME])]
  /\ do_search w_on (SApi 3 ScRW) BDomain LSub f_person None = SoEntries [(1, [A_CLASS; A_NAME; A_DISPLAYNAME])]
  /\ do_search w_on (SUnix 1) BEmpty LBase f_person None = SoRoot
  /\ do_search w_on (SUnix 1) BBad LSub f_person None = SoErr EConstraint.
Proof. vm_compute. repeat split; reflexivity. Qed.

(* a connection: failed bind keeps the connection unbound, the search binds anonymously, the token
   bind replaces the token, whoami, unbind; C40_no_write on it *)
Definition ops1 : list op :=
  [OpBind dn_al s_ap1; OpSearch BDomain LSub f_person None; OpBind [] s_tok;
   OpSearch BDomain LSub f_person (Some [A_DISPLAYNAME]); OpWhoami; OpUnbind].
Example C40_witness_connection :
  run_conn w_on None ops1
  = [RInvalidCred; REntries (Some (SUnix UUID_ANON)) [(1, [A_CLASS; A_NAME])]; RBound (SApi 3 ScRW);
     REntries None [(1, [A_DISPLAYNAME])]; RWhoami true; RUnbind]
  /\ steps (w_on, None) ops1 = (w_on, Some (SApi 3 ScRW)).
Proof. vm_compute. split; reflexivity. Qed.

(* hypotheses of C40_search_eq_native_partial / _when_class_readable / C40_ldap_never_shows_more:
   a reader, coherent entries, a filter that names an attribute; the schema entry matches the
   client's filter natively (for a caller that can read it) and is hidden by the gateway *)
Definition full_acps : list acp := [mkA (RGroup [21]) (Some f_name) [A_CLASS; A_NAME]].
Example C40_witness_search_hyps :
  reader (mkI (OUser svc_user) ScRO) = Some svc_user
  /\ forallb wf40 [e_alice; e_schema] = true
  /\ fattrs (nat_filter f_name None) <> []
  /\ native (mkI (OUser svc_user) ScRO) full_acps f_name None None [e_alice; e_schema]
     = Some [(1, [A_CLASS; A_NAME]); (9, [A_CLASS; A_NAME])]
  /\ ldap_search (mkI (OUser svc_user) ScRO) full_acps f_name None None [e_alice; e_schema]
     = Some [(1, [A_CLASS; A_NAME])].
Proof. vm_compute. repeat split; try reflexivity. discriminate. Qed.

(* the refutation witness of C40_refuted, concretely: natively visible by name, hidden by the gateway *)
Example C40_witness_refuted :
  ldap_search cx_ident cx_acps cx_filter None None [cx_entry] = Some []
  /\ native cx_ident cx_acps cx_filter None None [cx_entry] = Some [(5, [A_NAME])]
  /\ may_read cx_user cx_acps cx_entry A_CLASS = false
  /\ forallb wf40 [cx_entry] = true.
Proof. vm_compute. repeat split; reflexivity. Qed.

(* a full observed case: agrees, satisfies the stated predicate; and one inside the recorded class *)
Definition case_ok : case :=
  CConn w_on None
    [mkO (OpBind dn_al s_pw1) (RBound (SUnix 1)) false None None;
     mkO (OpSearch BDomain LSub f_person None) (REntries None [(1, [A_CLASS; A_NAME])]) false
         (Some ([(1, [A_CLASS; A_NAME])], [(1, [A_CLASS; A_NAME])])) None;
     mkO (OpCompare (BRdn f_name) f_person) (RCompare None 0) false None (Some (true, true))].
Example C40_witness_case : agree case_ok = true /\ pcheck case_ok = true /\ known case_ok = false.
Proof. vm_compute. repeat split; reflexivity. Qed.
Definition w_cx : world :=
  mkW false s_base [(s_an, 0)] [mkAc 0 true true None None false false [10] []] [] []
    [(0, (cx_user, cx_acps))] [cx_entry].
Definition case_known : case :=
  CConn w_cx None
    [mkO (OpSearch BDomain LSub cx_filter None) (REntries (Some (SUnix UUID_ANON)) []) false
         (Some ([(5, [A_NAME])], [(5, [A_NAME])])) None].
Example C40_witness_known :
  agree case_known = true /\ pcheck case_known = false /\ known case_known = true
  /\ pcheck_exact case_known = true.
Proof. vm_compute. repeat split; reflexivity. Qed.
(* a write would be noticed: the same case with a changed fingerprint neither agrees nor passes *)
Definition case_written : case :=
  CConn w_on None [mkO (OpBind dn_al s_pw1) (RBound (SUnix 1)) true None None].
Example C40_witness_write_detected : agree case_written = false /\ pcheck case_written = false /\ known case_written = false.
Proof. vm_compute. repeat split; reflexivity. Qed.
