(* KV.C47.Model — the supervisor stop protocol of libs/actors/src/lib.rs as a labelled
   transition system.  Executable definitions only.

   Transcribed code points (libs/actors/src/lib.rs):
     Supervisor::build        a supervisor = task SupervisorTask::run + handle {ctrl_tx, mbox_tx};
                              ctrl_tx is a tokio broadcast channel whose RECEIVERS are exactly the
                              live children: one per spawned actor (Supervisor::spawn: subscribe)
                              and one per subordinate supervisor task (Supervisor::subordinate).
     SupervisorTask::run      select{ parent_ctrl_rx.recv() | mbox Stop } -> break;
                              ctrl_tx.send(())          (TBcast: every CURRENT receiver gets the message)
                              ctrl_tx.closed().await    (TSupDone: returns at an instant with 0 receivers)
                              then the task ends and drops parent_ctrl_rx and mbox_rx.
     Supervisor::stop         mbox_tx.send(Stop) (LStopCall), mbox_tx.closed().await (LStopRet: the
                              supervisor task has ended).
     Runtime::exec            primary supervisor = node 0; Terminate/Interrupt = LStopCall 0
                              (ctrl_tx.send reaches its only receiver), exec returning after
                              supervisor_handle.await = LStopRet 0.
     SupervisedActor::run     setup (LSetupEnd); loop select{ stop message -> break |
                              state() -> Ready: run(msg) (LReady .. LRunEnd) | Stop: break (LStateStop) };
                              cleanup (LCleanBegin .. LCleanEnd); the receiver is dropped when the
                              task's future is dropped (TDrop), only then is the task finished (LFin).
   tokio facts used (tokio 1.53.1 sync/broadcast.rs): a receiver subscribed after send() does not
   see that message; Sender::closed() returns only while rx_cnt = 0; Receiver::drop decrements rx_cnt.
   Not modelled: panicking actor steps (excluded by the property's proviso), dropping a Supervisor
   handle without stop(). *)
From Coq Require Import List NArith Bool.
Import ListNotations.
Open Scope N_scope.

Definition id := N.

Inductive phase :=
| SRun | SDrain | SDone                                   (* supervisor task *)
| ASetup | ALoop | ARun | AStop | AClean | ACleaned | ADone. (* supervised actor task *)

Record node := mk {
  n_id : id;
  n_par : option id;      (* supervisor whose broadcast channel this task subscribed to *)
  n_late : bool;          (* subscribed after the parent task had already ended *)
  n_req : bool;           (* supervisor: Stop put in its mailbox / runtime broadcast sent *)
  n_got : bool;           (* the parent's broadcast message is in this receiver *)
  n_ret : bool;           (* supervisor: stop() (or exec) has returned *)
  n_cleaned : bool;       (* actor: cleanup() has completed *)
  n_ph : phase }.

Definition set_ph (p : phase) (n : node) :=
  mk (n_id n) (n_par n) (n_late n) (n_req n) (n_got n) (n_ret n) (n_cleaned n) p.
Definition set_req (n : node) :=
  mk (n_id n) (n_par n) (n_late n) true (n_got n) (n_ret n) (n_cleaned n) (n_ph n).
Definition set_got (n : node) :=
  mk (n_id n) (n_par n) (n_late n) (n_req n) true (n_ret n) (n_cleaned n) (n_ph n).
Definition set_ret (n : node) :=
  mk (n_id n) (n_par n) (n_late n) (n_req n) (n_got n) true (n_cleaned n) (n_ph n).
Definition set_cleaned (n : node) :=
  mk (n_id n) (n_par n) (n_late n) (n_req n) (n_got n) (n_ret n) true (n_ph n).

Definition is_sup (n : node) : bool :=
  match n_ph n with SRun | SDrain | SDone => true | _ => false end.
Definition done (n : node) : bool :=
  match n_ph n with SDone | ADone => true | _ => false end.
Definition ph_eqb (a b : phase) : bool :=
  match a, b with
  | SRun, SRun | SDrain, SDrain | SDone, SDone | ASetup, ASetup | ALoop, ALoop | ARun, ARun
  | AStop, AStop | AClean, AClean | ACleaned, ACleaned | ADone, ADone => true
  | _, _ => false
  end.
Definition ph_is (p : phase) (n : node) : bool := ph_eqb (n_ph n) p.
Definition par_is (i : id) (n : node) : bool :=
  match n_par n with Some p => p =? i | None => false end.
Definition has_id (i : id) (n : node) : bool := n_id n =? i.

Definition state := list node.

Inductive label :=
| LSpawnS (p s : id)      (* Supervisor::subordinate on p, new supervisor s *)
| LSpawnA (p a : id)      (* Supervisor::spawn on p, new actor a *)
| LStopCall (s : id)      (* Supervisor::stop(s) called / Terminate sent (s = 0) *)
| LStopRet (s : id)       (* Supervisor::stop(s) returned / Runtime::exec returned (s = 0) *)
| LSetupEnd (a : id)
| LReady (a : id)         (* state() returned Ready, run(msg) begins *)
| LRunEnd (a : id)
| LStateStop (a : id)     (* state() returned Stop *)
| LCleanBegin (a : id)
| LCleanEnd (a : id)
| LFin (a : id)           (* the actor's task was observed finished *)
| TBcast (s : id)         (* hidden: supervisor task left its select loop and broadcast *)
| TSupDone (s : id)       (* hidden: ctrl_tx.closed() returned, supervisor task ended *)
| TDrop (a : id).         (* hidden: actor task dropped its receiver *)

Definition visible (e : label) : bool :=
  match e with TBcast _ | TSupDone _ | TDrop _ => false | _ => true end.

(* update every node with id i that satisfies the guard; refuse if there is none *)
Definition on (i : id) (g : node -> bool) (f : node -> node) (l : state) : option state :=
  if existsb (fun n => has_id i n && g n) l
  then Some (map (fun n => if has_id i n && g n then f n else n) l)
  else None.

(* no live receiver on i's broadcast channel *)
Definition children_done (i : id) (l : state) : bool :=
  forallb (fun x => negb (par_is i x) || done x) l.
(* ctrl_tx.send(()): every current receiver gets the message *)
Definition bcast (i : id) (l : state) : state :=
  map (fun x => if par_is i x && negb (done x) then set_got x else x) l.

Definition spawn (p x : id) (ph : phase) (l : state) : option state :=
  if existsb (fun n => has_id p n && is_sup n) l && negb (existsb (has_id x) l)
  then Some (l ++ [mk x (Some p) (existsb (fun n => has_id p n && ph_is SDone n) l)
                      false false false false ph])
  else None.

Definition step (l : state) (e : label) : option state :=
  match e with
  | LSpawnS p s => spawn p s SRun l
  | LSpawnA p a => spawn p a ASetup l
  | LStopCall s => on s (fun n => is_sup n && negb (n_req n)) set_req l
  | LStopRet s => on s (fun n => ph_is SDone n && n_req n && negb (n_ret n)) set_ret l
  | LSetupEnd a => on a (ph_is ASetup) (set_ph ALoop) l
  | LReady a => on a (ph_is ALoop) (set_ph ARun) l
  | LRunEnd a => on a (ph_is ARun) (set_ph ALoop) l
  | LStateStop a => on a (ph_is ALoop) (set_ph AStop) l
  | LCleanBegin a => on a (fun n => ph_is AStop n || (ph_is ALoop n && n_got n)) (set_ph AClean) l
  | LCleanEnd a => on a (ph_is AClean) (fun n => set_cleaned (set_ph ACleaned n)) l
  | LFin a => on a (ph_is ADone) (fun n => n) l
  | TBcast s =>
      match on s (fun n => ph_is SRun n && (n_req n || n_got n)) (set_ph SDrain) l with
      | Some l' => Some (bcast s l')
      | None => None
      end
  | TSupDone s => on s (fun n => ph_is SDrain n && children_done s l) (set_ph SDone) l
  | TDrop a => on a (ph_is ACleaned) (set_ph ADone) l
  end.

Fixpoint run (l : state) (es : list label) : option state :=
  match es with
  | [] => Some l
  | e :: r => match step l e with Some l' => run l' r | None => None end
  end.

(* Runtime::exec: the primary supervisor, nothing registered yet *)
Definition init : state := [mk 0 None false false false false false SRun].

(* ------------------------------------------------------------------ trace acceptor
   The harness can only log the visible labels.  The acceptor replays a visible trace and
   performs every enabled hidden step as early as possible (hidden steps only ever enable
   other steps as long as nothing is spawned under a supervisor that is already stopping —
   the harness never does that, and `strict` makes the acceptor refuse such traces). *)
Definition tau_of (l : state) (n : node) : option label :=
  match n_ph n with
  | ACleaned => Some (TDrop (n_id n))
  | SRun => if n_req n || n_got n then Some (TBcast (n_id n)) else None
  | SDrain => if children_done (n_id n) l then Some (TSupDone (n_id n)) else None
  | _ => None
  end.
Fixpoint first_tau (l : state) (ns : list node) : option label :=
  match ns with
  | [] => None
  | n :: r => match tau_of l n with Some t => Some t | None => first_tau l r end
  end.
Fixpoint saturate (fuel : nat) (l : state) : state * list label :=
  match fuel with
  | O => (l, [])
  | S f =>
      match first_tau l l with
      | None => (l, [])
      | Some t =>
          match step l t with
          | Some l' => let (l'', ts) := saturate f l' in (l'', t :: ts)
          | None => (l, [])
          end
      end
  end.
Definition fuel_of (l : state) : nat := 3 * length l + 3.

(* race-freedom demanded of harness traces: nothing is spawned under a supervisor on which a stop
   is pending or which has begun to stop (in the eager reading: its task is no longer in its
   select loop) *)
Definition strict (l : state) (e : label) : bool :=
  match e with
  | LSpawnS p _ | LSpawnA p _ => negb (existsb (fun n => has_id p n && negb (ph_is SRun n)) l)
  | _ => true
  end.

Definition vstep (l : state) (e : label) : option (state * list label) :=
  if visible e && strict l e then
    match step l e with
    | Some l' => let (l'', ts) := saturate (fuel_of l') l' in Some (l'', e :: ts)
    | None => None
    end
  else None.

(* replays the visible trace; returns the final state and the full run (with hidden steps) *)
Fixpoint accept (l : state) (tr : list label) : option (state * list label) :=
  match tr with
  | [] => Some (l, [])
  | e :: r =>
      match vstep l e with
      | Some (l', es) =>
          match accept l' r with Some (l'', es') => Some (l'', es ++ es') | None => None end
      | None => None
      end
  end.

(* ------------------------------------------------------------------ the property on a trace,
   stated on the logged events only (no model state) *)
Definition pent := (id * id * bool)%type.        (* (task, parent supervisor, is an actor) *)
Fixpoint plookup (x : id) (pm : list pent) : option id :=
  match pm with
  | [] => None
  | (y, p, _) :: r => if y =? x then Some p else plookup x r
  end.
(* s is reached from supervisor p by walking up the spawn tree (p itself counts) *)
Fixpoint anc (fuel : nat) (pm : list pent) (s p : id) : bool :=
  (p =? s) ||
  match fuel with
  | O => false
  | S f => match plookup p pm with Some q => anc f pm s q | None => false end
  end.
Definition memb (x : id) (l : list id) : bool := existsb (N.eqb x) l.

Record pst := mkp {
  p_pm : list pent;        (* spawn events so far *)
  p_cl : list id;          (* actors whose cleanup has ended *)
  p_fin : list id;         (* actors whose task was observed finished *)
  p_calls : list id;       (* stop calls *)
  p_rets : list id;        (* stop returns *)
  p_clean_ok : bool;       (* every stop so far returned after the cleanup of everything under it *)
  p_once_ok : bool;        (* no actor callback after its cleanup ended *)
  p_fin_ok : bool }.       (* single-threaded flavour: tasks under a returned stop were finished *)
Definition p0 := mkp [] [] [] [] [] true true true.

(* every actor registered (transitively) under s so far is in `have` *)
Definition all_under (pm : list pent) (s : id) (have : list id) : bool :=
  forallb (fun e => match e with (x, p, isact) =>
             negb (isact && anc (length pm) pm s p) || memb x have end) pm.

Definition pstep (mt : bool) (q : pst) (e : label) : pst :=
  let quiet a := mkp (p_pm q) (p_cl q) (p_fin q) (p_calls q) (p_rets q) (p_clean_ok q)
                     (p_once_ok q && negb (memb a (p_cl q))) (p_fin_ok q) in
  match e with
  | LSpawnS p x => mkp (p_pm q ++ [(x, p, false)]) (p_cl q) (p_fin q) (p_calls q) (p_rets q)
                       (p_clean_ok q) (p_once_ok q) (p_fin_ok q)
  | LSpawnA p x => mkp (p_pm q ++ [(x, p, true)]) (p_cl q) (p_fin q) (p_calls q) (p_rets q)
                       (p_clean_ok q) (p_once_ok q) (p_fin_ok q)
  | LStopCall s => mkp (p_pm q) (p_cl q) (p_fin q) (s :: p_calls q) (p_rets q)
                       (p_clean_ok q) (p_once_ok q) (p_fin_ok q)
  | LStopRet s => mkp (p_pm q) (p_cl q) (p_fin q) (p_calls q) (s :: p_rets q)
                       (p_clean_ok q && all_under (p_pm q) s (p_cl q)) (p_once_ok q)
                       (p_fin_ok q && (mt || all_under (p_pm q) s (p_fin q)))
  | LCleanEnd a => mkp (p_pm q) (a :: p_cl q) (p_fin q) (p_calls q) (p_rets q) (p_clean_ok q)
                       (p_once_ok q && negb (memb a (p_cl q))) (p_fin_ok q)
  | LFin a => mkp (p_pm q) (p_cl q) (a :: p_fin q) (p_calls q) (p_rets q) (p_clean_ok q)
                       (p_once_ok q) (p_fin_ok q)
  | LSetupEnd a | LReady a | LRunEnd a | LStateStop a | LCleanBegin a => quiet a
  | TBcast _ | TSupDone _ | TDrop _ => q
  end.
Definition pscan (mt : bool) (tr : list label) : pst := fold_left (pstep mt) tr p0.

(* the part of the property that is a consequence of being a run of the LTS *)
Definition pcheck_clean (tr : list label) : bool :=
  let q := pscan true tr in p_clean_ok q && p_once_ok q.
(* observations about tokio's task bookkeeping and termination, outside the safety LTS:
   every stop that was called returned (no hang within the harness time-out), every task under a
   returned stop was eventually observed finished, and with the single-threaded scheduler it was
   finished at the very moment stop returned *)
Definition pcheck_obs (mt : bool) (tr : list label) : bool :=
  let q := pscan mt tr in
  p_fin_ok q &&
  forallb (fun s => memb s (p_rets q)) (p_calls q) &&
  forallb (fun s => all_under (p_pm q) s (p_fin q)) (p_rets q).

Inductive case := Case (mt : bool) (tr : list label).

Definition agree (c : case) : bool :=
  match c with Case _ tr => match accept init tr with Some _ => true | None => false end end.
Definition pcheck (c : case) : bool :=
  match c with Case mt tr => pcheck_clean tr && pcheck_obs mt tr end.
Definition known (_ : case) : bool := false.
