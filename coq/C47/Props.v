(* KV.C47.Props — property theorems only. *)
From Coq Require Import List NArith Bool.
Import ListNotations.
Require Import KV.C47.Model KV.C47.Proofs.
Open Scope N_scope.

(* SAFETY, state form.  In every state reachable by ANY interleaving of the steps of the
   supervisor tasks, the actor tasks, the callers of spawn/subordinate/stop and the runtime
   (trees of any shape and depth, any number of tasks, spawns racing stops included): once
   stop() on a supervisor (or Runtime::exec, supervisor 0) has returned, every task registered
   under it — directly or through subordinate supervisors, while the respective supervisor task
   was still alive — is finished, and every such actor has completed cleanup() and dropped its
   receiver. *)
Theorem C47_stop_implies_all_stopped : forall l, reachable l ->
  forall s, In s l -> n_ret s = true ->
  forall x, under l (n_id s) x ->
    done x = true /\ (is_sup x = false -> n_ph x = ADone /\ n_cleaned x = true).
Proof.
  intros l Hr s Hs Hret x Hu. pose proof (reachable_Inv l Hr) as HI.
  exact (sdone_all_stopped l HI s Hs (ret_sdone l HI s Hs Hret) x Hu).
Qed.

(* the same at the instant the return happens: the step "stop(s) returns" is only enabled in
   states in which everything under s is already stopped and cleaned up *)
Theorem C47_stop_returns_only_after_all_stopped : forall es l s l',
  run init es = Some l -> step l (LStopRet s) = Some l' ->
  forall x, under l s x ->
    done x = true /\ (is_sup x = false -> n_ph x = ADone /\ n_cleaned x = true).
Proof.
  intros es l s l' Hr Hs x Hu. pose proof (reachable_Inv l (ex_intro _ es Hr)) as HI.
  cbn in Hs. apply on_some in Hs as [_ [sn [Hsn [Hid Hg]]]].
  apply andb_true_iff in Hg as [Hg _]. apply andb_true_iff in Hg as [Hg _].
  unfold ph_is in Hg. assert (Hph : n_ph sn = SDone) by (destruct (n_ph sn); try discriminate; reflexivity).
  rewrite <- Hid in Hu. exact (sdone_all_stopped l HI sn Hsn Hph x Hu).
Qed.

(* the mechanism: a supervisor task ends only at an instant with no live receiver on its
   broadcast channel, and a receiver is dropped only after cleanup *)
Theorem C47_supervisor_task_end_implies_all_stopped : forall l, reachable l ->
  forall s, In s l -> n_ph s = SDone ->
  forall x, under l (n_id s) x ->
    done x = true /\ (is_sup x = false -> n_ph x = ADone /\ n_cleaned x = true).
Proof. intros l Hr. exact (sdone_all_stopped l (reachable_Inv l Hr)). Qed.

(* the acceptor used on recorded logs is sound: an accepted visible trace is the visible
   projection of a genuine run of the transition system (hidden steps filled in) *)
Theorem C47_accept_sound : forall tr l es, accept init tr = Some (l, es) ->
  run init es = Some l /\ filter visible es = tr.
Proof. intros tr l es. exact (accept_sound tr init l es). Qed.

(* bridge: a recorded log that the acceptor accepts satisfies the trace-level property —
   at every "stop(s) returned" entry, every actor spawned so far anywhere under s has its
   "cleanup ended" entry earlier in the log, and no actor callback is logged after its cleanup
   ended.  (The observation part pcheck_obs — stop calls return, tokio marks the tasks finished —
   is checked on the implementation only.) *)
Theorem C47_agree_implies_property : forall mt tr,
  agree (Case mt tr) = true -> pcheck_clean tr = true.
Proof. exact agree_clean. Qed.

(* PROGRESS (partial: deadlock freedom, not termination).  `covered` = every live child of a
   supervisor that has already broadcast holds the message; it holds initially and is preserved
   by every step except a spawn under a supervisor that has already left its select loop — the
   race the property excludes. *)
Theorem C47_covered_preserved : forall l e l', Inv l -> covered l -> step l e = Some l' ->
  (forall p x, (e = LSpawnS p x \/ e = LSpawnA p x) ->
     existsb (fun n => has_id p n && negb (ph_is SRun n)) l = false) ->
  covered l'.
Proof.
  intros l e l' HI Hc Hs Hrace. destruct (is_spawn e) eqn:E.
  - destruct e; try discriminate; cbn in Hs.
    + apply (covered_spawn p s SRun l l'); auto. apply (Hrace p s). left. reflexivity.
    + apply (covered_spawn p a ASetup l l'); auto. apply (Hrace p a). right. reflexivity.
  - destruct (Fof_some l e E) as [F HF]. exact (covered_map l e F l' Hc HF Hs).
Qed.

(* In a reachable covered state in which no forced step (hidden runtime step, end of an actor
   callback, stop branch of a select loop holding the message) is possible, every supervisor
   with a pending stop has ended, everything under it is stopped and cleaned up, and its
   stop() call can return.  So a pending stop can never be stuck: as long as it has not
   completed, some step that needs nobody's cooperation is enabled (each actor step terminates:
   the property's proviso).
   MISSING for full termination: a fairness argument — select! must eventually take the stop
   branch of an actor that keeps having Ready messages (tokio's select! picks at random), and
   the scheduler must run every enabled task. *)
Theorem C47_stop_progress_partial : forall l, reachable l -> covered l -> quiescent l ->
  forall s, In s l -> is_sup s = true -> n_req s = true \/ n_got s = true ->
    n_ph s = SDone /\
    (forall x, under l (n_id s) x ->
       done x = true /\ (is_sup x = false -> n_ph x = ADone /\ n_cleaned x = true)) /\
    (n_req s = true -> n_ret s = false -> step l (LStopRet (n_id s)) <> None).
Proof.
  intros l Hr Hc Hq s Hs Hsup Hreq. pose proof (reachable_Inv l Hr) as HI.
  pose proof (quiescent_stop_complete l HI (reachable_ordered l Hr) Hc Hq s Hs Hsup Hreq) as Hd.
  split; [exact Hd|]. split; [exact (sdone_all_stopped l HI s Hs Hd)|].
  intros Hrq Hrt. cbn. apply (on_enabled _ _ _ l s Hs eq_refl). unfold ph_is. rewrite Hd, Hrq, Hrt. reflexivity.
Qed.

(* every state the trace acceptor passes through is reachable and covered, so the progress
   theorem applies to all states observed through recorded logs *)
Theorem C47_accepted_states_covered : forall tr l es, accept init tr = Some (l, es) ->
  reachable l /\ covered l.
Proof. intros tr l es H. destruct (accept_state tr l es H) as [H1 [H2 _]]. split; assumption. Qed.
