(* KV.C47.Proofs — invariants of the supervisor LTS, soundness of the trace acceptor, bridge
   from accepted traces to the trace-level property. *)
From Coq Require Import List NArith Bool Lia.
Import ListNotations.
Require Import KV.C47.Model.
Open Scope N_scope.

(* ------------------------------------------------------------------ steps as node maps *)
Definition upf (i : id) (g : node -> bool) (f : node -> node) (n : node) : node :=
  if has_id i n && g n then f n else n.

Lemma on_some : forall i g f l l', on i g f l = Some l' ->
  l' = map (upf i g f) l /\ exists n, In n l /\ n_id n = i /\ g n = true.
Proof.
  intros i g f l l' H. unfold on in H.
  destruct (existsb (fun n => has_id i n && g n) l) eqn:E; [|discriminate].
  injection H as <-. split; [reflexivity|].
  apply existsb_exists in E as [n [Hin Hn]]. apply andb_true_iff in Hn as [Hi Hg].
  exists n. repeat split; try assumption. apply N.eqb_eq. exact Hi.
Qed.

Definition G_bcast (i : id) (x : node) := if par_is i x && negb (done x) then set_got x else x.

(* the node function of every non-spawning step *)
Definition Fof (l : state) (e : label) : option (node -> node) :=
  match e with
  | LSpawnS _ _ | LSpawnA _ _ => None
  | LStopCall s => Some (upf s (fun n => is_sup n && negb (n_req n)) set_req)
  | LStopRet s => Some (upf s (fun n => ph_is SDone n && n_req n && negb (n_ret n)) set_ret)
  | LSetupEnd a => Some (upf a (ph_is ASetup) (set_ph ALoop))
  | LReady a => Some (upf a (ph_is ALoop) (set_ph ARun))
  | LRunEnd a => Some (upf a (ph_is ARun) (set_ph ALoop))
  | LStateStop a => Some (upf a (ph_is ALoop) (set_ph AStop))
  | LCleanBegin a => Some (upf a (fun n => ph_is AStop n || (ph_is ALoop n && n_got n)) (set_ph AClean))
  | LCleanEnd a => Some (upf a (ph_is AClean) (fun n => set_cleaned (set_ph ACleaned n)))
  | LFin a => Some (upf a (ph_is ADone) (fun n => n))
  | TBcast s => Some (fun n => G_bcast s (upf s (fun n => ph_is SRun n && (n_req n || n_got n)) (set_ph SDrain) n))
  | TSupDone s => Some (upf s (fun n => ph_is SDrain n && children_done s l) (set_ph SDone))
  | TDrop a => Some (upf a (ph_is ACleaned) (set_ph ADone))
  end.

Definition is_spawn (e : label) : bool :=
  match e with LSpawnS _ _ | LSpawnA _ _ => true | _ => false end.

Lemma Fof_some : forall l e, is_spawn e = false -> exists F, Fof l e = Some F.
Proof. intros l e H. destruct e; try discriminate; eexists; reflexivity. Qed.

Lemma step_map : forall l e l' F, Fof l e = Some F -> step l e = Some l' -> l' = map F l.
Proof.
  intros l e l' F HF Hs. destruct e; cbn in HF; try discriminate; injection HF as <-; cbn [step] in Hs;
    try (apply on_some in Hs as [-> _]; reflexivity).
  destruct (on s _ _ l) as [l1|] eqn:E; [|discriminate]. injection Hs as <-.
  apply on_some in E as [-> _]. unfold bcast. rewrite map_map. reflexivity.
Qed.

(* the guard of a step: some node with that id satisfies it *)
Lemma step_guard_cleanend : forall l a l', step l (LCleanEnd a) = Some l' ->
  exists n, In n l /\ n_id n = a /\ n_ph n = AClean.
Proof.
  intros l a l' H. cbn in H. apply on_some in H as [_ [n [Hin [Hi Hg]]]].
  exists n. repeat split; try assumption. unfold ph_is in Hg. destruct (n_ph n); try discriminate. reflexivity.
Qed.

(* ------------------------------------------------------------------ per-node facts, by brute force *)
Definition cleaned_ph (n : node) : bool :=
  match n_ph n with ACleaned | ADone => true | _ => false end.
Definition ninv (n : node) : Prop :=
  (cleaned_ph n = true -> n_cleaned n = true) /\ (n_ret n = true -> n_ph n = SDone).

Ltac unf :=
  unfold upf, G_bcast, has_id, ph_is, par_is, is_sup, done, cleaned_ph, ninv, set_ph, set_req, set_got,
    set_ret, set_cleaned in *;
  cbn [n_id n_par n_late n_req n_got n_ret n_cleaned n_ph ph_eqb andb orb negb] in *.

Ltac split_ifs :=
  repeat (match goal with
          | |- context [if ?c then _ else _] => let E := fresh "E" in destruct c eqn:E
          | H : context [if ?c then _ else _] |- _ => let E := fresh "E" in destruct c eqn:E
          end).
Ltac split_ands :=
  repeat match goal with
         | H : _ && _ = true |- _ => apply andb_true_iff in H; destruct H
         end.

Ltac brute e n :=
  destruct e; cbn [Fof] in *;
  match goal with H : _ = Some _ |- _ => first [discriminate H | injection H as <-] end;
  unfold upf, G_bcast in *; split_ifs; split_ands;
  try reflexivity; try assumption;
  destruct n as [i0 p0 la rq gt rt cl ph]; destruct ph; unf; try discriminate;
  try reflexivity; try assumption; try tauto; try congruence.

Lemma F_id : forall l e F n, Fof l e = Some F -> n_id (F n) = n_id n.
Proof. intros l e F n H. brute e n. Qed.
Lemma F_par : forall l e F n, Fof l e = Some F -> n_par (F n) = n_par n.
Proof. intros l e F n H. brute e n. Qed.
Lemma F_late : forall l e F n, Fof l e = Some F -> n_late (F n) = n_late n.
Proof. intros l e F n H. brute e n. Qed.
Lemma F_sup : forall l e F n, Fof l e = Some F -> is_sup (F n) = is_sup n.
Proof. intros l e F n H. brute e n. Qed.
Lemma F_done : forall l e F n, Fof l e = Some F -> done n = true -> done (F n) = true.
Proof. intros l e F n H D. brute e n. Qed.
Lemma F_ninv : forall l e F n, Fof l e = Some F -> ninv n -> ninv (F n).
Proof. intros l e F n H D. brute e n. all: destruct D as [D1 D2]; split; intros; try discriminate; auto;
  try (match goal with D : ?r = true -> _ = SDone, R : ?r = true |- _ => specialize (D R); discriminate end). Qed.
Lemma F_cleaned_ph : forall l e F n, Fof l e = Some F -> cleaned_ph n = true -> cleaned_ph (F n) = true.
Proof. intros l e F n H D. brute e n. Qed.
Lemma F_cleaned : forall l e F n, Fof l e = Some F -> n_cleaned n = true -> n_cleaned (F n) = true.
Proof. intros l e F n H D. brute e n. Qed.
Lemma F_cleaned_back : forall l e F n, Fof l e = Some F -> (forall a, e <> LCleanEnd a) ->
  n_cleaned (F n) = true -> n_cleaned n = true.
Proof.
  intros l e F n H Hne D. destruct e; try (exfalso; eapply Hne; reflexivity); revert D; clear Hne;
  cbn [Fof] in H; try discriminate H; injection H as <-;
  destruct n as [i0 p0 la rq gt rt cl ph]; destruct ph; unf; split_ifs; intros; try assumption; try discriminate.
Qed.
Lemma F_got : forall l e F n, Fof l e = Some F -> n_got n = true -> n_got (F n) = true.
Proof. intros l e F n H D. brute e n. Qed.
(* only TBcast takes a supervisor task out of its select loop *)
Lemma F_srun : forall l e F n, Fof l e = Some F -> n_ph n = SRun -> n_ph (F n) <> SRun ->
  e = TBcast (n_id n).
Proof.
  intros l e F n H D1 D2. destruct e; cbn [Fof] in H; try discriminate H; injection H as <-;
    unfold upf, G_bcast in *; split_ifs; split_ands; try congruence;
    destruct n as [i0 p0 la rq gt rt cl ph]; destruct ph; unf; try discriminate; try congruence.
  all: match goal with H : (_ =? _) = true |- _ => apply N.eqb_eq in H; subst; reflexivity end.
Qed.
Lemma F_bcast_child : forall l s F x, Fof l (TBcast s) = Some F -> n_par x = Some s ->
  done (F x) = true \/ n_got (F x) = true.
Proof.
  intros l s F x H Hp. cbn [Fof] in H. injection H as <-. unfold G_bcast.
  assert (Hpar : forall y, n_par y = Some s -> par_is s y = true).
  { intros y Hy. unfold par_is. rewrite Hy. apply N.eqb_refl. }
  set (y := upf s _ _ x). assert (Hy : n_par y = Some s).
  { unfold y, upf. destruct (has_id s x && _); [|exact Hp]. exact Hp. }
  rewrite (Hpar y Hy). destruct (done y) eqn:E; cbn; [left; exact E | right; reflexivity].
Qed.
(* only TSupDone turns a supervisor task into SDone, and only when no receiver is left *)
Lemma F_sdone : forall l e F n, Fof l e = Some F -> n_ph (F n) = SDone ->
  n_ph n = SDone \/ (exists s, e = TSupDone s /\ n_id n = s /\ children_done s l = true).
Proof.
  intros l e F n H D. destruct e; cbn [Fof] in H; try discriminate H; injection H as <-;
    unfold upf, G_bcast in *; split_ifs; split_ands; try (left; assumption);
    destruct n as [i0 p0 la rq gt rt cl ph]; destruct ph; unf; try discriminate; try (left; reflexivity).
  all: right; exists s; repeat split; try reflexivity; try assumption; apply N.eqb_eq; assumption.
Qed.

(* ------------------------------------------------------------------ state invariants *)
Definition I1 (l : state) : Prop := forall s x, In s l -> In x l ->
  n_ph s = SDone -> n_par x = Some (n_id s) -> n_late x = false -> done x = true.
Definition I4 (l : state) : Prop := forall x p, In x l -> n_par x = Some p ->
  (exists y, In y l /\ n_id y = p) /\ (forall y, In y l -> n_id y = p -> is_sup y = true).
Definition Inv (l : state) : Prop := I1 l /\ I4 l /\ Forall ninv l /\ NoDup (map n_id l).

Lemma nodup_id : forall l a b, NoDup (map n_id l) -> In a l -> In b l -> n_id a = n_id b -> a = b.
Proof.
  induction l as [|h t IH]; intros a b Hn Ha Hb E; [contradiction|].
  cbn in Hn. inversion Hn as [|? ? Hnot Hn']; subst.
  destruct Ha as [->|Ha], Hb as [->|Hb]; try reflexivity.
  - exfalso. apply Hnot. rewrite E. apply in_map. exact Hb.
  - exfalso. apply Hnot. rewrite <- E. apply in_map. exact Ha.
  - apply IH; assumption.
Qed.

Lemma Inv_init : Inv init.
Proof.
  unfold Inv, init. repeat split.
  - intros s x [<-|[]] [<-|[]]. cbn. discriminate.
  - destruct H as [<-|[]]. cbn in H0. discriminate.
  - destruct H as [<-|[]]. cbn in H0. discriminate.
  - constructor; [|constructor]. split; cbn; discriminate.
  - cbn. constructor; [intros []|constructor].
Qed.

Definition newnode (p x : id) (ph : phase) (l : state) : node :=
  mk x (Some p) (existsb (fun n => has_id p n && ph_is SDone n) l) false false false false ph.

Lemma spawn_some : forall p x ph l l', spawn p x ph l = Some l' ->
  l' = l ++ [newnode p x ph l] /\
  (exists pn, In pn l /\ n_id pn = p /\ is_sup pn = true) /\
  (forall n, In n l -> n_id n <> x).
Proof.
  intros p x ph l l' H. unfold spawn in H.
  destruct (existsb (fun n => has_id p n && is_sup n) l) eqn:E1; [|discriminate].
  destruct (existsb (has_id x) l) eqn:E2; [discriminate|]. cbn in H. injection H as <-.
  split; [reflexivity|]. split.
  - apply existsb_exists in E1 as [pn [Hin Hp]]. apply andb_true_iff in Hp as [Hi Hs].
    exists pn. repeat split; try assumption. apply N.eqb_eq. exact Hi.
  - intros n Hin Hid. assert (existsb (has_id x) l = true); [|congruence].
    apply existsb_exists. exists n. split; [exact Hin|]. apply N.eqb_eq. exact Hid.
Qed.

Lemma NoDup_app_fresh : forall (l : list N) a, NoDup l -> ~ In a l -> NoDup (l ++ [a]).
Proof.
  induction l as [|h t IH]; intros a Hd Hn; cbn.
  - constructor; [intros []|constructor].
  - inversion Hd as [|? ? Hh Ht]; subst. constructor.
    + intros Hin. apply in_app_iff in Hin as [Hin|[<-|[]]]; [exact (Hh Hin)|]. apply Hn. left. reflexivity.
    + apply IH; [exact Ht|]. intros Hin. apply Hn. right. exact Hin.
Qed.

Lemma Inv_spawn : forall p x ph l l', (ph = SRun \/ ph = ASetup) ->
  Inv l -> spawn p x ph l = Some l' -> Inv l'.
Proof.
  intros p x ph l l' Hph [H1 [H4 [Hn Hd]]] H.
  apply spawn_some in H as [-> [[pn [Hpn [Hpi Hps]]] Hfresh]].
  set (nn := newnode p x ph l). repeat split.
  - intros s y Hs Hy Es Ep El. apply in_app_iff in Hs, Hy.
    destruct Hs as [Hs|[<-|[]]].
    + destruct Hy as [Hy|[<-|[]]]; [exact (H1 s y Hs Hy Es Ep El)|].
      exfalso. cbn in Ep, El. injection Ep as Ep.
      assert (existsb (fun n => has_id p n && ph_is SDone n) l = true); [|congruence].
      apply existsb_exists. exists s. split; [exact Hs|]. unfold has_id, ph_is. rewrite Es, <- Ep, N.eqb_refl. reflexivity.
    + cbn in Es. destruct Hph; congruence.
  - apply in_app_iff in H as [H|[<-|[]]].
    + destruct (H4 x0 p0 H H0) as [[y [Hy Hi]] _]. exists y. split; [apply in_app_iff; left; exact Hy | exact Hi].
    + cbn in H0. injection H0 as <-. exists pn. split; [apply in_app_iff; left; exact Hpn | exact Hpi].
  - intros y Hy Hi. apply in_app_iff in H as [H|[<-|[]]].
    + destruct (H4 x0 p0 H H0) as [[z [Hz Hzi]] Hall].
      apply in_app_iff in Hy as [Hy|[<-|[]]]; [apply Hall; assumption|].
      exfalso. cbn in Hi. apply (Hfresh z Hz). congruence.
    + cbn in H0. injection H0 as <-.
      apply in_app_iff in Hy as [Hy|[<-|[]]].
      * rewrite <- Hpi in Hi. rewrite (nodup_id l y pn Hd Hy Hpn Hi). exact Hps.
      * exfalso. cbn in Hi. apply (Hfresh pn Hpn). congruence.
  - apply Forall_app. split; [exact Hn|]. constructor; [|constructor].
    split; cbn; [destruct Hph as [-> | ->]; cbn; discriminate | discriminate].
  - rewrite map_app. cbn. apply NoDup_app_fresh; [exact Hd|].
    intros Hin. apply in_map_iff in Hin as [n [Hi Hin]]. exact (Hfresh n Hin Hi).
Qed.

Lemma children_done_spec : forall i l x, children_done i l = true -> In x l ->
  n_par x = Some i -> done x = true.
Proof.
  intros i l x H Hin Hp. unfold children_done in H. rewrite forallb_forall in H.
  specialize (H x Hin). unfold par_is in H. rewrite Hp, N.eqb_refl in H. cbn in H. exact H.
Qed.

Lemma Inv_map : forall l e F l', Inv l -> Fof l e = Some F -> step l e = Some l' -> Inv l'.
Proof.
  intros l e F l' [H1 [H4 [Hn Hd]]] HF Hs. rewrite (step_map l e l' F HF Hs). repeat split.
  - intros s' x' Hs' Hx' Es Ep El.
    apply in_map_iff in Hs' as [s [<- Hsin]]. apply in_map_iff in Hx' as [x [<- Hxin]].
    rewrite (F_par l e F x HF), (F_id l e F s HF) in Ep. rewrite (F_late l e F x HF) in El.
    apply (F_done l e F x HF).
    destruct (F_sdone l e F s HF Es) as [Es'|[i [-> [Hi Hc]]]].
    + exact (H1 s x Hsin Hxin Es' Ep El).
    + apply (children_done_spec i l x Hc Hxin). rewrite Ep, Hi. reflexivity.
  - apply in_map_iff in H as [x0 [<- Hx0]]. rewrite (F_par l e F x0 HF) in H0.
    destruct (H4 x0 p Hx0 H0) as [[y [Hy Hi]] _]. exists (F y). split; [apply in_map; exact Hy|].
    rewrite (F_id l e F y HF). exact Hi.
  - intros y' Hy' Hi. apply in_map_iff in H as [x0 [<- Hx0]]. rewrite (F_par l e F x0 HF) in H0.
    apply in_map_iff in Hy' as [y [<- Hy]]. rewrite (F_id l e F y HF) in Hi. rewrite (F_sup l e F y HF).
    destruct (H4 x0 p Hx0 H0) as [_ Hall]. exact (Hall y Hy Hi).
  - apply Forall_forall. intros n' Hn'. apply in_map_iff in Hn' as [n [<- Hin]].
    apply (F_ninv l e F n HF). rewrite Forall_forall in Hn. exact (Hn n Hin).
  - rewrite map_map. erewrite map_ext; [exact Hd|]. intros n. cbn. exact (F_id l e F n HF).
Qed.

Lemma Inv_step : forall l e l', Inv l -> step l e = Some l' -> Inv l'.
Proof.
  intros l e l' HI Hs. destruct (is_spawn e) eqn:E.
  - destruct e; try discriminate; cbn in Hs; eapply Inv_spawn; try eassumption; tauto.
  - destruct (Fof_some l e E) as [F HF]. exact (Inv_map l e F l' HI HF Hs).
Qed.

Lemma Inv_run : forall es l l', Inv l -> run l es = Some l' -> Inv l'.
Proof.
  induction es as [|e r IH]; intros l l' HI H; cbn in H.
  - injection H as <-. exact HI.
  - destruct (step l e) as [l1|] eqn:E; [|discriminate]. exact (IH l1 l' (Inv_step l e l1 HI E) H).
Qed.

Definition reachable (l : state) : Prop := exists es, run init es = Some l.

Lemma reachable_Inv : forall l, reachable l -> Inv l.
Proof. intros l [es H]. exact (Inv_run es init l Inv_init H). Qed.

(* x is registered (transitively, through registrations made while the supervisor task was
   still alive) under the supervisor with id s *)
Inductive under (l : state) (s : id) : node -> Prop :=
| U_child : forall x, In x l -> n_par x = Some s -> n_late x = false -> under l s x
| U_trans : forall y x, under l s y -> In x l -> n_par x = Some (n_id y) -> n_late x = false -> under l s x.

Lemma under_in : forall l s x, under l s x -> In x l.
Proof. intros l s x H. destruct H; assumption. Qed.

Lemma done_sup : forall n, done n = true -> is_sup n = true -> n_ph n = SDone.
Proof. intros n. unfold done, is_sup. destruct (n_ph n); intros; try discriminate; reflexivity. Qed.
Lemma done_act : forall n, done n = true -> is_sup n = false -> n_ph n = ADone.
Proof. intros n. unfold done, is_sup. destruct (n_ph n); intros; try discriminate; reflexivity. Qed.

(* the supervisor task s has ended  ==>  everything under it is done, every actor under it
   has finished its cleanup and dropped its receiver *)
Lemma sdone_all_stopped : forall l, Inv l -> forall s, In s l -> n_ph s = SDone ->
  forall x, under l (n_id s) x ->
  done x = true /\ (is_sup x = false -> n_ph x = ADone /\ n_cleaned x = true).
Proof.
  intros l [H1 [H4 [Hn Hd]]] s Hs Es x Hu.
  assert (D : done x = true).
  { induction Hu as [x Hx Hp Hl | y x Hu IH Hx Hp Hl].
    - exact (H1 s x Hs Hx Es Hp Hl).
    - destruct (H4 x (n_id y) Hx Hp) as [_ Hall].
      pose proof (Hall y (under_in l _ y Hu) eq_refl) as Hys.
      exact (H1 y x (under_in l _ y Hu) Hx (done_sup y IH Hys) Hp Hl). }
  split; [exact D|]. intros Hx. pose proof (done_act x D Hx) as Ex. split; [exact Ex|].
  rewrite Forall_forall in Hn. destruct (Hn x (under_in l _ x Hu)) as [Hc _]. apply Hc.
  unfold cleaned_ph. rewrite Ex. reflexivity.
Qed.

Lemma ret_sdone : forall l, Inv l -> forall s, In s l -> n_ret s = true -> n_ph s = SDone.
Proof. intros l [_ [_ [Hn _]]] s Hs Hr. rewrite Forall_forall in Hn. destruct (Hn s Hs) as [_ H]. exact (H Hr). Qed.

(* ------------------------------------------------------------------ progress (no deadlock while a stop is pending) *)
(* registration order: a task is registered after its supervisor *)
Fixpoint ordered_from (seen : list id) (l : list node) : Prop :=
  match l with
  | [] => True
  | x :: r => match n_par x with Some p => In p seen | None => True end /\ ordered_from (n_id x :: seen) r
  end.

Lemma ordered_map : forall F l seen, (forall n, n_id (F n) = n_id n /\ n_par (F n) = n_par n) ->
  ordered_from seen l -> ordered_from seen (map F l).
Proof.
  intros F l seen H. revert seen. induction l as [|x r IH]; intros seen Ho; [exact I|].
  cbn in *. destruct (H x) as [-> ->]. destruct Ho as [H1 H2]. split; [exact H1 | exact (IH _ H2)].
Qed.

Lemma ordered_app : forall l seen z, ordered_from seen (l ++ [z]) <->
  ordered_from seen l /\ match n_par z with Some p => In p (rev (map n_id l) ++ seen) | None => True end.
Proof.
  induction l as [|x r IH]; intros seen z; cbn.
  - tauto.
  - rewrite IH. rewrite <- app_assoc. cbn. tauto.
Qed.

Lemma ordered_parent_before : forall l1 c l2 seen p, ordered_from seen (l1 ++ c :: l2) ->
  n_par c = Some p -> In p (rev (map n_id l1) ++ seen).
Proof.
  induction l1 as [|y r IH]; intros c l2 seen p Ho Hp; cbn in Ho.
  - rewrite Hp in Ho. cbn. tauto.
  - destruct Ho as [_ Ho]. specialize (IH _ _ _ _ Ho Hp). cbn. rewrite <- app_assoc. exact IH.
Qed.

(* every node satisfying P has a child satisfying P  ==>  nothing satisfies P *)
Lemma no_infinite_descent : forall (P : node -> Prop) l seen,
  ordered_from seen l -> NoDup (rev (map n_id l) ++ seen) ->
  (forall x, In x l -> P x -> exists c, In c l /\ n_par c = Some (n_id x) /\ P c) ->
  forall x, In x l -> ~ P x.
Proof.
  intros P l. induction l as [|z l' IH] using rev_ind; intros seen Ho Hd Hc x Hx; [contradiction|].
  apply ordered_app in Ho as [Ho Hz].
  rewrite map_app, rev_app_distr in Hd. cbn in Hd. inversion Hd as [|? ? Hnz Hd']; subst.
  assert (HPz : ~ P z).
  { intros HP. assert (Hzin : In z (l' ++ [z])) by (apply in_app_iff; right; left; reflexivity).
    destruct (Hc z Hzin HP) as [c [Hcin [Hcp HPc]]].
    apply in_app_iff in Hcin as [Hcin|[<-|[]]].
    - (* the child is registered before z: its parent id is among the earlier ones *)
      apply in_split in Hcin as [l1 [l2 ->]].
      pose proof (ordered_parent_before l1 c l2 seen (n_id z) Ho Hcp) as H.
      apply Hnz. apply in_app_iff in H as [H|H]; apply in_app_iff; [left|right; exact H].
      rewrite <- in_rev in H. rewrite <- in_rev, map_app. apply in_app_iff. left. exact H.
    - rewrite Hcp in Hz. exact (Hnz Hz). }
  apply in_app_iff in Hx as [Hx|[<-|[]]]; [|exact HPz].
  apply (IH seen Ho Hd'); [|exact Hx].
  intros y Hy HPy. destruct (Hc y (in_or_app _ _ _ (or_introl Hy)) HPy) as [c [Hcin [Hcp HPc]]].
  apply in_app_iff in Hcin as [Hcin|[<-|[]]]; [|contradiction].
  exists c. repeat split; assumption.
Qed.

Definition ordered (l : state) : Prop := ordered_from [] l.

Lemma ordered_step : forall l e l', Inv l -> ordered l -> step l e = Some l' -> ordered l'.
Proof.
  intros l e l' HI Ho Hs. destruct (is_spawn e) eqn:E.
  - assert (exists p x ph, spawn p x ph l = Some l') as [p [x [ph Hsp]]].
    { destruct e; try discriminate; cbn in Hs; eauto. }
    apply spawn_some in Hsp as [-> [[pn [Hpn [Hpi _]]] _]].
    apply ordered_app. split; [exact Ho|]. cbn. rewrite app_nil_r, <- in_rev, <- Hpi. apply in_map. exact Hpn.
  - destruct (Fof_some l e E) as [F HF]. rewrite (step_map l e l' F HF Hs).
    apply ordered_map; [|exact Ho]. intros n. rewrite (F_id l e F n HF), (F_par l e F n HF). tauto.
Qed.

Lemma ordered_run : forall es l l', Inv l -> ordered l -> run l es = Some l' -> ordered l'.
Proof.
  induction es as [|e r IH]; intros l l' HI Ho H; cbn in H.
  - injection H as <-. exact Ho.
  - destruct (step l e) as [l1|] eqn:E; [|discriminate].
    exact (IH l1 l' (Inv_step l e l1 HI E) (ordered_step l e l1 HI Ho E) H).
Qed.

Lemma reachable_ordered : forall l, reachable l -> ordered l.
Proof. intros l [es H]. apply (ordered_run es init l Inv_init); [cbn; tauto | exact H]. Qed.

(* steps that need nobody's cooperation: hidden steps of the runtime, and the end of actor
   callbacks (each actor step terminates — the property's proviso), and the select loop taking
   the stop branch when the message is there *)
Definition forced (e : label) : bool :=
  match e with
  | TBcast _ | TSupDone _ | TDrop _ | LSetupEnd _ | LRunEnd _ | LCleanBegin _ | LCleanEnd _ => true
  | _ => false
  end.
Definition quiescent (l : state) : Prop := forall e, forced e = true -> step l e = None.

(* every live child of a supervisor that has already broadcast holds the message (this is what
   a spawn racing the stop breaks) *)
Definition covered (l : state) : Prop := forall x p, In x l -> In p l ->
  n_par x = Some (n_id p) -> n_ph p <> SRun -> done x = true \/ n_got x = true.

Lemma on_enabled : forall i g f l n, In n l -> n_id n = i -> g n = true -> on i g f l <> None.
Proof.
  intros i g f l n Hn Hi Hg. unfold on.
  assert (existsb (fun n => has_id i n && g n) l = true) as ->; [|discriminate].
  apply existsb_exists. exists n. split; [exact Hn|]. unfold has_id. rewrite Hi, N.eqb_refl, Hg. reflexivity.
Qed.

Lemma children_not_done : forall i l, children_done i l = false ->
  exists c, In c l /\ n_par c = Some i /\ done c = false.
Proof.
  intros i l H. unfold children_done in H.
  induction l as [|x r IH]; cbn in H; [discriminate|].
  destruct (negb (par_is i x) || done x) eqn:E.
  - cbn in H. destruct (IH H) as [c [Hc R]]. exists c. split; [right; exact Hc | exact R].
  - apply orb_false_iff in E as [E1 E2]. apply negb_false_iff in E1. unfold par_is in E1.
    destruct (n_par x) as [p|] eqn:Ep; [|discriminate]. apply N.eqb_eq in E1 as ->.
    exists x. split; [left; reflexivity|]. split; [exact Ep | exact E2].
Qed.

Lemma quiescent_no_drain : forall l, Inv l -> ordered l -> covered l -> quiescent l ->
  forall x, In x l -> n_ph x <> SDrain.
Proof.
  intros l HI Ho Hcov Hq. destruct HI as [_ [_ [_ Hd]]].
  apply (no_infinite_descent (fun x => n_ph x = SDrain) l [] Ho).
  { rewrite app_nil_r. apply NoDup_rev. exact Hd. }
  intros x Hx Hp.
  destruct (children_done (n_id x) l) eqn:Ec.
  { exfalso. apply (on_enabled (n_id x) (fun n => ph_is SDrain n && children_done (n_id x) l) (set_ph SDone) l x Hx eq_refl).
    - unfold ph_is. rewrite Hp, Ec. reflexivity.
    - exact (Hq (TSupDone (n_id x)) eq_refl). }
  destruct (children_not_done _ _ Ec) as [c [Hc [Hcp Hcd]]].
  exists c. split; [exact Hc|]. split; [exact Hcp|].
  assert (Hg : n_got c = true).
  { destruct (Hcov c x Hc Hx Hcp) as [H|H]; [rewrite Hp; discriminate | congruence | exact H]. }
  assert (En : forall e g f, forced e = true -> step l e = on (n_id c) g f l -> g c = true -> False).
  { intros e g f Hf He Hgc. apply (on_enabled (n_id c) g f l c Hc eq_refl Hgc). rewrite <- He. exact (Hq e Hf). }
  unfold done in Hcd. destruct (n_ph c) eqn:Eph; try discriminate; try reflexivity; exfalso.
  - (* SRun with the message: must broadcast *)
    pose proof (Hq (TBcast (n_id c)) eq_refl) as H. cbn in H.
    destruct (on (n_id c) (fun n => ph_is SRun n && (n_req n || n_got n)) (set_ph SDrain) l) eqn:E; [discriminate|].
    revert E. apply (on_enabled _ _ _ l c Hc eq_refl). unfold ph_is. rewrite Eph, Hg. cbn. apply orb_true_r.
  - apply (En (LSetupEnd (n_id c)) (ph_is ASetup) (set_ph ALoop) eq_refl eq_refl). unfold ph_is. rewrite Eph. reflexivity.
  - apply (En (LCleanBegin (n_id c)) (fun n => ph_is AStop n || (ph_is ALoop n && n_got n)) (set_ph AClean) eq_refl eq_refl).
    unfold ph_is. rewrite Eph, Hg. reflexivity.
  - apply (En (LRunEnd (n_id c)) (ph_is ARun) (set_ph ALoop) eq_refl eq_refl). unfold ph_is. rewrite Eph. reflexivity.
  - apply (En (LCleanBegin (n_id c)) (fun n => ph_is AStop n || (ph_is ALoop n && n_got n)) (set_ph AClean) eq_refl eq_refl).
    unfold ph_is. rewrite Eph. reflexivity.
  - apply (En (LCleanEnd (n_id c)) (ph_is AClean) (fun n => set_cleaned (set_ph ACleaned n)) eq_refl eq_refl).
    unfold ph_is. rewrite Eph. reflexivity.
  - apply (En (TDrop (n_id c)) (ph_is ACleaned) (set_ph ADone) eq_refl eq_refl). unfold ph_is. rewrite Eph. reflexivity.
Qed.

(* DEADLOCK FREEDOM of the stop protocol: in a state in which none of the forced steps is
   possible any more, every supervisor on which a stop is pending (Stop in its mailbox, or its
   parent's broadcast in its receiver) has ended — so stop() can return, and by the safety
   theorem everything under it is stopped and cleaned up. *)
Lemma quiescent_stop_complete : forall l, Inv l -> ordered l -> covered l -> quiescent l ->
  forall s, In s l -> is_sup s = true -> n_req s = true \/ n_got s = true -> n_ph s = SDone.
Proof.
  intros l HI Ho Hcov Hq s Hs Hsup Hreq.
  pose proof (quiescent_no_drain l HI Ho Hcov Hq s Hs) as Hnd.
  unfold is_sup in Hsup. destruct (n_ph s) eqn:Eph; try discriminate; try reflexivity; [|congruence].
  exfalso. pose proof (Hq (TBcast (n_id s)) eq_refl) as H. cbn in H.
  destruct (on (n_id s) (fun n => ph_is SRun n && (n_req n || n_got n)) (set_ph SDrain) l) eqn:E; [discriminate|].
  revert E. apply (on_enabled _ _ _ l s Hs eq_refl). unfold ph_is. rewrite Eph. cbn.
  destruct Hreq as [-> | ->]; [reflexivity | apply orb_true_r].
Qed.

Lemma existsb_false_in : forall (f : node -> bool) l n, existsb f l = false -> In n l -> f n = false.
Proof.
  intros f l n H Hn. destruct (f n) eqn:E; [|reflexivity].
  assert (existsb f l = true); [|congruence]. apply existsb_exists. exists n. split; assumption.
Qed.

(* `covered` is preserved by every step except a spawn under a supervisor that has left its
   select loop *)
Lemma covered_map : forall l e F l', covered l -> Fof l e = Some F -> step l e = Some l' -> covered l'.
Proof.
  intros l e F l' Hc HF Hs. rewrite (step_map l e l' F HF Hs).
  intros x' p' Hx' Hp' Hpar Hph.
  apply in_map_iff in Hx' as [x [<- Hx]]. apply in_map_iff in Hp' as [p [<- Hp]].
  rewrite (F_par l e F x HF), (F_id l e F p HF) in Hpar.
  assert (D : n_ph p = SRun \/ n_ph p <> SRun) by (destruct (n_ph p); (left; reflexivity) || (right; discriminate)).
  destruct D as [D|D].
  - pose proof (F_srun l e F p HF D Hph) as ->. exact (F_bcast_child l (n_id p) F x HF Hpar).
  - destruct (Hc x p Hx Hp Hpar D) as [H|H]; [left; exact (F_done l e F x HF H) | right; exact (F_got l e F x HF H)].
Qed.

Lemma covered_spawn : forall p x ph l l', (ph = SRun \/ ph = ASetup) -> Inv l -> covered l ->
  existsb (fun n => has_id p n && negb (ph_is SRun n)) l = false ->
  spawn p x ph l = Some l' -> covered l'.
Proof.
  intros p x ph l l' Hph [_ [H4 _]] Hc Hst Hs.
  apply spawn_some in Hs as [-> [[pn [Hpn [Hpi _]]] Hfresh]].
  intros c q Hcin Hqin Hpar Hq.
  apply in_app_iff in Hcin as [Hcin|[<-|[]]]; apply in_app_iff in Hqin as [Hqin|[<-|[]]].
  - exact (Hc c q Hcin Hqin Hpar Hq).
  - exfalso. cbn in Hpar. destruct (H4 c x Hcin Hpar) as [[y [Hy Hyi]] _]. exact (Hfresh y Hy Hyi).
  - exfalso. cbn in Hpar. injection Hpar as Hpar.
    pose proof (existsb_false_in _ l q Hst Hqin) as E. cbn in E. unfold has_id in E.
    rewrite <- Hpar, N.eqb_refl in E. cbn in E. apply negb_false_iff in E. unfold ph_is in E.
    apply Hq. destruct (n_ph q); try discriminate; reflexivity.
  - exfalso. cbn in Hpar. injection Hpar as Hpar. apply (Hfresh pn Hpn). congruence.
Qed.

Lemma strict_nodone : forall p l, existsb (fun n => has_id p n && negb (ph_is SRun n)) l = false ->
  existsb (fun n => has_id p n && ph_is SDone n) l = false.
Proof.
  intros p l H. destruct (existsb (fun n => has_id p n && ph_is SDone n) l) eqn:E; [|reflexivity].
  apply existsb_exists in E as [n [Hn E]]. apply andb_true_iff in E as [E1 E2].
  pose proof (existsb_false_in _ l n H Hn) as F. cbn in F. rewrite E1 in F. cbn in F.
  unfold ph_is in *. destruct (n_ph n); discriminate.
Qed.

Lemma covered_init : covered init.
Proof. intros x p [<-|[]] [<-|[]] H. discriminate. Qed.

(* ------------------------------------------------------------------ the acceptor only performs LTS steps *)
Lemma run_app : forall a b l, run l (a ++ b) = match run l a with Some l1 => run l1 b | None => None end.
Proof.
  induction a as [|e r IH]; intros b l; cbn; [reflexivity|].
  destruct (step l e); [apply IH | reflexivity].
Qed.

Lemma tau_of_hidden : forall l n t, tau_of l n = Some t -> visible t = false.
Proof.
  intros l n t H. unfold tau_of in H.
  destruct (n_ph n); try discriminate H;
    repeat match type of H with (if ?c then _ else _) = _ => destruct c end;
    try discriminate H; inversion H; reflexivity.
Qed.
Lemma first_tau_hidden : forall l ns t, first_tau l ns = Some t -> visible t = false.
Proof.
  induction ns as [|n r IH]; intros t H; cbn in H; [discriminate|].
  destruct (tau_of l n) eqn:E; [injection H as <-; exact (tau_of_hidden l n _ E) | exact (IH t H)].
Qed.

Lemma saturate_sound : forall f l l' ts, saturate f l = (l', ts) ->
  run l ts = Some l' /\ filter visible ts = [].
Proof.
  induction f as [|f IH]; intros l l' ts H; cbn in H.
  - injection H as <- <-. split; reflexivity.
  - destruct (first_tau l l) as [t|] eqn:Et; [|injection H as <- <-; split; reflexivity].
    destruct (step l t) as [l1|] eqn:Es; [|injection H as <- <-; split; reflexivity].
    destruct (saturate f l1) as [l2 ts2] eqn:E2. injection H as <- <-.
    destruct (IH l1 l2 ts2 E2) as [Hr Hf]. split.
    + cbn. rewrite Es. exact Hr.
    + cbn. rewrite (first_tau_hidden l l t Et). exact Hf.
Qed.

Lemma vstep_sound : forall l e l' es, vstep l e = Some (l', es) ->
  exists l1 ts, es = e :: ts /\ visible e = true /\ strict l e = true /\ step l e = Some l1 /\
                run l1 ts = Some l' /\ filter visible ts = [].
Proof.
  intros l e l' es H. unfold vstep in H.
  destruct (visible e) eqn:Ev; [|discriminate]. destruct (strict l e) eqn:Est; [|discriminate]. cbn [andb] in H.
  destruct (step l e) as [l1|] eqn:Es; [|discriminate].
  destruct (saturate (fuel_of l1) l1) as [l2 ts] eqn:E2. cbn in H. injection H as <- <-.
  destruct (saturate_sound _ _ _ _ E2) as [Hr Hf]. exists l1, ts. repeat split; assumption.
Qed.

Lemma accept_sound : forall tr l l' es, accept l tr = Some (l', es) ->
  run l es = Some l' /\ filter visible es = tr.
Proof.
  induction tr as [|e r IH]; intros l l' es H; cbn in H.
  - injection H as <- <-. split; reflexivity.
  - destruct (vstep l e) as [[l1 es1]|] eqn:Ev; [|discriminate].
    destruct (accept l1 r) as [[l2 es2]|] eqn:Ea; [|discriminate]. injection H as <- <-.
    destruct (vstep_sound l e l1 es1 Ev) as [l0 [ts [-> [Hv [_ [Hs [Hr Hf]]]]]]].
    destruct (IH l1 l2 es2 Ea) as [Hr2 Hf2]. split.
    + cbn. rewrite Hs. rewrite run_app, Hr. exact Hr2.
    + cbn. rewrite Hv. rewrite filter_app, Hf, Hf2. reflexivity.
Qed.

(* ------------------------------------------------------------------ bridge: accepted trace => trace-level property *)
Definition pmap_of (l : state) : list pent :=
  flat_map (fun n => match n_par n with Some p => [(n_id n, p, negb (is_sup n))] | None => [] end) l.
Definition nolate (l : state) : Prop := forall n, In n l -> n_late n = false.

(* relation between the acceptor's state and the trace scanner's spawn map / cleaned list *)
Record S (l : state) (pm : list pent) (cl : list id) : Prop := {
  s_inv : Inv l;
  s_nolate : nolate l;
  s_cov : covered l;
  s_pm : pm = pmap_of l;
  s_cl1 : forall n, In n l -> n_cleaned n = true -> memb (n_id n) cl = true;
  s_cl2 : forall a, memb a cl = true -> exists n, In n l /\ n_id n = a /\ cleaned_ph n = true }.

Lemma pmap_map : forall F l,
  (forall n, n_id (F n) = n_id n /\ n_par (F n) = n_par n /\ is_sup (F n) = is_sup n) ->
  pmap_of (map F l) = pmap_of l.
Proof.
  intros F l H. unfold pmap_of. induction l as [|n r IH]; [reflexivity|].
  cbn. destruct (H n) as [-> [-> ->]]. rewrite IH. reflexivity.
Qed.

Lemma S_nonspawn : forall l pm cl e l', S l pm cl -> is_spawn e = false ->
  (forall a, e <> LCleanEnd a) -> step l e = Some l' -> S l' pm cl.
Proof.
  intros l pm cl e l' [Hi Hl Hcv Hp H1 H2] Esp Hne Hs.
  destruct (Fof_some l e Esp) as [F HF]. pose proof (step_map l e l' F HF Hs) as ->.
  split.
  - exact (Inv_step l e _ Hi Hs).
  - intros n' Hn'. apply in_map_iff in Hn' as [n [<- Hn]]. rewrite (F_late l e F n HF). exact (Hl n Hn).
  - exact (covered_map l e F _ Hcv HF Hs).
  - rewrite pmap_map; [exact Hp|]. intros n.
    rewrite (F_id l e F n HF), (F_par l e F n HF), (F_sup l e F n HF). tauto.
  - intros n' Hn' Hc. apply in_map_iff in Hn' as [n [<- Hn]]. rewrite (F_id l e F n HF).
    apply (H1 n Hn). exact (F_cleaned_back l e F n HF Hne Hc).
  - intros a Ha. destruct (H2 a Ha) as [n [Hn [Hid Hc]]]. exists (F n).
    split; [apply in_map; exact Hn|]. split; [rewrite (F_id l e F n HF); exact Hid|].
    exact (F_cleaned_ph l e F n HF Hc).
Qed.

Lemma memb_cons : forall x a l, memb x (a :: l) = (x =? a) || memb x l.
Proof. reflexivity. Qed.

Lemma S_cleanend : forall l pm cl a l', S l pm cl -> step l (LCleanEnd a) = Some l' -> S l' pm (a :: cl).
Proof.
  intros l pm cl a l' [Hi Hl Hcv Hp H1 H2] Hs.
  assert (Esp : is_spawn (LCleanEnd a) = false) by reflexivity.
  destruct (Fof_some l _ Esp) as [F HF]. pose proof (step_map l _ l' F HF Hs) as ->.
  split.
  - exact (Inv_step l _ _ Hi Hs).
  - intros n' Hn'. apply in_map_iff in Hn' as [n [<- Hn]]. rewrite (F_late l _ F n HF). exact (Hl n Hn).
  - exact (covered_map l _ F _ Hcv HF Hs).
  - rewrite pmap_map; [exact Hp|]. intros n.
    rewrite (F_id l _ F n HF), (F_par l _ F n HF), (F_sup l _ F n HF). tauto.
  - intros n' Hn' Hc. apply in_map_iff in Hn' as [n [<- Hn]]. rewrite (F_id l _ F n HF).
    rewrite memb_cons. destruct (n_cleaned n) eqn:Ec.
    + rewrite (H1 n Hn Ec). apply orb_true_r.
    + cbn in HF. injection HF as <-. unfold upf in Hc.
      destruct (has_id a n && ph_is AClean n) eqn:E; [|congruence].
      apply andb_true_iff in E as [E _]. unfold has_id in E. rewrite E. reflexivity.
  - intros x Hx. rewrite memb_cons in Hx. apply orb_true_iff in Hx as [Hx|Hx].
    + apply N.eqb_eq in Hx as ->. destruct (step_guard_cleanend l a _ Hs) as [m [Hm [Hid Hph]]].
      exists (F m). split; [apply in_map; exact Hm|]. split; [rewrite (F_id l _ F m HF); exact Hid|].
      cbn in HF. injection HF as <-. unfold upf, has_id, ph_is. rewrite Hid, Hph, N.eqb_refl. reflexivity.
    + destruct (H2 x Hx) as [n [Hn [Hid Hc]]]. exists (F n).
      split; [apply in_map; exact Hn|]. split; [rewrite (F_id l _ F n HF); exact Hid|].
      exact (F_cleaned_ph l _ F n HF Hc).
Qed.

Lemma pmap_app : forall l n, pmap_of (l ++ [n]) =
  pmap_of l ++ match n_par n with Some p => [(n_id n, p, negb (is_sup n))] | None => [] end.
Proof. intros l n. unfold pmap_of. rewrite flat_map_app. cbn. rewrite app_nil_r. reflexivity. Qed.

Lemma S_spawn : forall l pm cl p x ph l', (ph = SRun \/ ph = ASetup) -> S l pm cl ->
  existsb (fun n => has_id p n && negb (ph_is SRun n)) l = false ->
  spawn p x ph l = Some l' ->
  S l' (pm ++ [(x, p, negb (is_sup (newnode p x ph l)))]) cl.
Proof.
  intros l pm cl p x ph l' Hph [Hi Hl Hcv Hp H1 H2] Hst Hs.
  pose proof (Inv_spawn p x ph l l' Hph Hi Hs) as Hi'.
  pose proof (covered_spawn p x ph l l' Hph Hi Hcv Hst Hs) as Hcv'.
  apply spawn_some in Hs as [-> [_ Hfresh]]. split.
  - exact Hi'.
  - intros n Hn. apply in_app_iff in Hn as [Hn|[<-|[]]]; [exact (Hl n Hn)|]. cbn. exact (strict_nodone p l Hst).
  - exact Hcv'.
  - rewrite pmap_app, <- Hp. reflexivity.
  - intros n Hn Hc. apply in_app_iff in Hn as [Hn|[<-|[]]]; [exact (H1 n Hn Hc)|]. cbn in Hc. discriminate.
  - intros a Ha. destruct (H2 a Ha) as [n [Hn R]]. exists n. split; [apply in_app_iff; left; exact Hn | exact R].
Qed.

Lemma S_run_hidden : forall ts l pm cl l', S l pm cl -> run l ts = Some l' ->
  filter visible ts = [] -> S l' pm cl.
Proof.
  induction ts as [|t r IH]; intros l pm cl l' HS Hr Hf; cbn in Hr.
  - injection Hr as <-. exact HS.
  - destruct (step l t) as [l1|] eqn:Es; [|discriminate]. cbn in Hf.
    destruct (visible t) eqn:Ev; [discriminate|].
    apply (IH l1 pm cl l'); try assumption. apply (S_nonspawn l pm cl t l1 HS); try assumption.
    + destruct t; try discriminate; reflexivity.
    + intros a ->. discriminate.
Qed.

(* guards of the actor events: the actor is not past its cleanup *)
Definition actor_of (e : label) : option id :=
  match e with
  | LSetupEnd a | LReady a | LRunEnd a | LStateStop a | LCleanBegin a | LCleanEnd a => Some a
  | _ => None
  end.
Lemma actor_guard : forall l e a l', actor_of e = Some a -> step l e = Some l' ->
  exists m, In m l /\ n_id m = a /\ cleaned_ph m = false.
Proof.
  intros l e a l' Ha Hs. destruct e; cbn in Ha; try discriminate; injection Ha as ->; cbn in Hs;
    apply on_some in Hs as [_ [m [Hm [Hid Hg]]]]; exists m; repeat split; try assumption;
    unfold cleaned_ph, ph_is in *; destruct (n_ph m); try reflexivity; cbn in Hg; discriminate.
Qed.

Lemma not_yet_cleaned : forall l pm cl e a l', S l pm cl -> actor_of e = Some a ->
  step l e = Some l' -> memb a cl = false.
Proof.
  intros l pm cl e a l' HS Ha Hs. destruct (memb a cl) eqn:E; [|reflexivity]. exfalso.
  destruct (actor_guard l e a l' Ha Hs) as [m [Hm [Hid Hc]]].
  destruct (s_cl2 _ _ _ HS a E) as [n [Hn [Hid' Hc']]].
  destruct (s_inv _ _ _ HS) as [_ [_ [_ Hd]]].
  assert (n = m) by (apply (nodup_id l n m Hd Hn Hm); congruence). subst n. congruence.
Qed.

Lemma in_pmap : forall l x p b, In (x, p, b) (pmap_of l) ->
  exists n, In n l /\ n_id n = x /\ n_par n = Some p /\ b = negb (is_sup n).
Proof.
  intros l x p b H. unfold pmap_of in H. apply in_flat_map in H as [n [Hn Hin]].
  destruct (n_par n) as [q|] eqn:E; [|contradiction]. destruct Hin as [Hin|[]]. injection Hin as <- <- <-.
  exists n. repeat split; assumption.
Qed.

Lemma plookup_in : forall pm x p, plookup x pm = Some p -> exists b, In (x, p, b) pm.
Proof.
  induction pm as [|[[y q] b] r IH]; intros x p H; cbn in H; [discriminate|].
  destruct (y =? x) eqn:E.
  - injection H as <-. apply N.eqb_eq in E as ->. exists b. left. reflexivity.
  - destruct (IH x p H) as [b' Hin]. exists b'. right. exact Hin.
Qed.

Lemma anc_under : forall l s, nolate l -> forall fuel p, anc fuel (pmap_of l) s p = true ->
  p = s \/ exists y, In y l /\ n_id y = p /\ under l s y.
Proof.
  intros l s Hl. induction fuel as [|f IH]; intros p H; cbn in H; apply orb_true_iff in H as [H|H];
    try (left; apply N.eqb_eq; exact H); try discriminate.
  destruct (plookup p (pmap_of l)) as [q|] eqn:E; [|discriminate].
  destruct (plookup_in _ _ _ E) as [b Hin]. destruct (in_pmap l p q b Hin) as [y [Hy [Hid [Hp _]]]].
  right. exists y. split; [exact Hy|]. split; [exact Hid|].
  destruct (IH q H) as [->|[z [Hz [Hzid Hu]]]].
  - apply U_child; [exact Hy | exact Hp | exact (Hl y Hy)].
  - apply (U_trans l s z y Hu Hy); [rewrite Hzid; exact Hp | exact (Hl y Hy)].
Qed.

Lemma stopret_all_under : forall l pm cl s l', S l pm cl -> step l (LStopRet s) = Some l' ->
  all_under pm s cl = true.
Proof.
  intros l pm cl s l' HS Hs. cbn in Hs. apply on_some in Hs as [_ [sn [Hsn [Hid Hg]]]].
  apply andb_true_iff in Hg as [Hg _]. apply andb_true_iff in Hg as [Hg _].
  unfold ph_is in Hg. assert (Hph : n_ph sn = SDone) by (destruct (n_ph sn); try discriminate; reflexivity).
  unfold all_under. apply forallb_forall. intros [[x p] b] Hin.
  destruct (b && anc (length pm) pm s p) eqn:E; [|reflexivity]. cbn.
  apply andb_true_iff in E as [-> Ha].
  rewrite (s_pm _ _ _ HS) in Hin, Ha.
  destruct (in_pmap l x p true Hin) as [n [Hn [Hnid [Hp Hb]]]].
  assert (Hu : under l (n_id sn) n).
  { rewrite Hid. destruct (anc_under l s (s_nolate _ _ _ HS) _ p Ha) as [->|[y [Hy [Hyid Hu]]]].
    - apply U_child; [exact Hn | exact Hp | exact (s_nolate _ _ _ HS n Hn)].
    - apply (U_trans l s y n Hu Hn); [rewrite Hyid; exact Hp | exact (s_nolate _ _ _ HS n Hn)]. }
  destruct (sdone_all_stopped l (s_inv _ _ _ HS) sn Hsn Hph n Hu) as [_ Hc].
  assert (Hsup : is_sup n = false) by (destruct (is_sup n); [discriminate | reflexivity]).
  destruct (Hc Hsup) as [_ Hcl]. rewrite <- Hnid. exact (s_cl1 _ _ _ HS n Hn Hcl).
Qed.

Definition R (l : state) (q : pst) : Prop :=
  S l (p_pm q) (p_cl q) /\ p_clean_ok q = true /\ p_once_ok q = true.

Lemma R_step : forall l q e l1 mt, R l q -> visible e = true -> strict l e = true ->
  step l e = Some l1 -> R l1 (pstep mt q e).
Proof.
  intros l q e l1 mt [HS [Hc Ho]] Hv Hst Hs.
  destruct e; try discriminate Hv; unfold R; cbn [pstep p_pm p_cl p_clean_ok p_once_ok].
  - (* LSpawnS *) cbn in Hst, Hs. apply negb_true_iff in Hst. split; [|tauto].
    exact (S_spawn l _ _ p s SRun l1 (or_introl eq_refl) HS Hst Hs).
  - (* LSpawnA *) cbn in Hst, Hs. apply negb_true_iff in Hst. split; [|tauto].
    exact (S_spawn l _ _ p a ASetup l1 (or_intror eq_refl) HS Hst Hs).
  - split; [|tauto]. eapply S_nonspawn; [exact HS | | | exact Hs]; [reflexivity | intros ?; discriminate].
  - (* LStopRet *) split; [eapply S_nonspawn; [exact HS | | | exact Hs]; [reflexivity | intros ?; discriminate]|].
    rewrite Hc, Ho, (stopret_all_under l _ _ s l1 HS Hs). tauto.
  - split; [eapply S_nonspawn; [exact HS | | | exact Hs]; [reflexivity | intros ?; discriminate]|].
    rewrite Hc, Ho, (not_yet_cleaned l _ _ (LSetupEnd a) a l1 HS eq_refl Hs). tauto.
  - split; [eapply S_nonspawn; [exact HS | | | exact Hs]; [reflexivity | intros ?; discriminate]|].
    rewrite Hc, Ho, (not_yet_cleaned l _ _ (LReady a) a l1 HS eq_refl Hs). tauto.
  - split; [eapply S_nonspawn; [exact HS | | | exact Hs]; [reflexivity | intros ?; discriminate]|].
    rewrite Hc, Ho, (not_yet_cleaned l _ _ (LRunEnd a) a l1 HS eq_refl Hs). tauto.
  - split; [eapply S_nonspawn; [exact HS | | | exact Hs]; [reflexivity | intros ?; discriminate]|].
    rewrite Hc, Ho, (not_yet_cleaned l _ _ (LStateStop a) a l1 HS eq_refl Hs). tauto.
  - split; [eapply S_nonspawn; [exact HS | | | exact Hs]; [reflexivity | intros ?; discriminate]|].
    rewrite Hc, Ho, (not_yet_cleaned l _ _ (LCleanBegin a) a l1 HS eq_refl Hs). tauto.
  - (* LCleanEnd *) split; [exact (S_cleanend l _ _ a l1 HS Hs)|].
    rewrite Hc, Ho, (not_yet_cleaned l _ _ (LCleanEnd a) a l1 HS eq_refl Hs). tauto.
  - split; [|tauto]. eapply S_nonspawn; [exact HS | | | exact Hs]; [reflexivity | intros ?; discriminate].
Qed.

Lemma R_hidden : forall l q l' ts, R l q -> run l ts = Some l' -> filter visible ts = [] -> R l' q.
Proof. intros l q l' ts [HS Hok] Hr Hf. split; [exact (S_run_hidden ts l _ _ l' HS Hr Hf) | exact Hok]. Qed.

Lemma R_accept : forall tr l q l' es mt, R l q -> accept l tr = Some (l', es) ->
  R l' (fold_left (pstep mt) tr q).
Proof.
  induction tr as [|e r IH]; intros l q l' es mt HR H; cbn in H.
  - injection H as <- <-. exact HR.
  - destruct (vstep l e) as [[l1 es1]|] eqn:Ev; [|discriminate].
    destruct (accept l1 r) as [[l2 es2]|] eqn:Ea; [|discriminate]. injection H as <- <-.
    destruct (vstep_sound l e l1 es1 Ev) as [l0 [ts [-> [Hv [Hst [Hs [Hr Hf]]]]]]].
    cbn. apply (IH l1 _ l2 es2 mt); [|exact Ea].
    apply (R_hidden l0 _ l1 ts); try assumption. exact (R_step l q e l0 mt HR Hv Hst Hs).
Qed.

Lemma R_init : R init p0.
Proof.
  split; [|split; reflexivity]. split.
  - exact Inv_init.
  - intros n [<-|[]]. reflexivity.
  - exact covered_init.
  - reflexivity.
  - intros n [<-|[]]. cbn. discriminate.
  - cbn. discriminate.
Qed.

Lemma agree_clean : forall mt tr, agree (Case mt tr) = true -> pcheck_clean tr = true.
Proof.
  intros mt tr H. cbn in H. destruct (accept init tr) as [[l es]|] eqn:E; [|discriminate].
  destruct (R_accept tr init p0 l es true R_init E) as [_ [Hc Ho]].
  unfold pcheck_clean, pscan. rewrite Hc, Ho. reflexivity.
Qed.

(* every state the acceptor reaches is reachable, covered and registration-ordered *)
Lemma accept_state : forall tr l es, accept init tr = Some (l, es) ->
  reachable l /\ covered l /\ nolate l.
Proof.
  intros tr l es H. destruct (accept_sound tr init l es H) as [Hr _].
  destruct (R_accept tr init p0 l es true R_init H) as [HS _].
  split; [exists es; exact Hr|]. split; [exact (s_cov _ _ _ HS) | exact (s_nolate _ _ _ HS)].
Qed.

(* executable test for quiescence *)
Definition forced_enabled (l : state) (n : node) : bool :=
  match n_ph n with
  | SRun => n_req n || n_got n
  | SDrain => children_done (n_id n) l
  | ASetup | ARun | AStop | AClean | ACleaned => true
  | ALoop => n_got n
  | SDone | ADone => false
  end.
Definition quiescentb (l : state) : bool := forallb (fun n => negb (forced_enabled l n)) l.

Lemma on_none : forall i g f l, (forall n, In n l -> n_id n = i -> g n = false) -> on i g f l = None.
Proof.
  intros i g f l H. unfold on.
  destruct (existsb (fun n => has_id i n && g n) l) eqn:E; [|reflexivity].
  apply existsb_exists in E as [n [Hn E]]. apply andb_true_iff in E as [E1 E2].
  apply N.eqb_eq in E1. rewrite (H n Hn E1) in E2. discriminate.
Qed.

Lemma quiescentb_sound : forall l, quiescentb l = true -> quiescent l.
Proof.
  intros l H e He. unfold quiescentb in H. rewrite forallb_forall in H.
  assert (Q : forall n, In n l -> forced_enabled l n = false).
  { intros n Hn. apply negb_true_iff. exact (H n Hn). }
  destruct e; try discriminate He; cbn [step];
    try (apply on_none; intros n Hn Hi; specialize (Q n Hn); unfold forced_enabled in Q; unfold ph_is;
         destruct (n_ph n); cbn; try reflexivity; try discriminate Q; try (rewrite Q; reflexivity);
         try (subst; rewrite Q; reflexivity)).
  rewrite on_none; [reflexivity|]. intros n Hn Hi. specialize (Q n Hn). unfold forced_enabled in Q; unfold ph_is.
  destruct (n_ph n); cbn; try reflexivity. exact Q.
Qed.
