From Coq Require Import List NArith Bool.
Import ListNotations.
Require Import KV.C47.Model KV.C47.Proofs.
Open Scope N_scope.

(* a log of the shape the harness records: primary 0, subordinate 1 with a blocked actor 3 and
   a subordinate 2 holding a running actor 4; stop(1) is called while 4 is inside run() *)
Definition wtrace : list label :=
  [LSpawnS 0 1; LSpawnA 1 3; LSpawnS 1 2; LSpawnA 2 4; LSetupEnd 3; LSetupEnd 4; LReady 4;
   LStopCall 1; LCleanBegin 3; LRunEnd 4; LCleanEnd 3; LCleanBegin 4; LCleanEnd 4; LFin 3; LFin 4;
   LStopRet 1; LStopCall 0; LStopRet 0].

(* non-vacuity of C47_stop_implies_all_stopped / C47_accept_sound / C47_agree_implies_property:
   the log is accepted, the final state is reachable, supervisor 1 has returned from stop, and
   actor 4 (two levels down) is under it *)
Example C47_witness_accepted :
  agree (Case false wtrace) = true /\ pcheck (Case false wtrace) = true /\
  match accept init wtrace with
  | Some (l, es) =>
      run init es = Some l /\
      existsb (fun n => has_id 1 n && n_ret n) l = true /\
      existsb (fun n => has_id 4 n && ph_is ADone n && n_cleaned n) l = true /\
      length es = 26%nat
  | None => False
  end.
Proof. vm_compute. repeat split; reflexivity. Qed.

Example C47_witness_under : forall l es, accept init wtrace = Some (l, es) ->
  exists s x, In s l /\ n_id s = 1 /\ n_ret s = true /\ n_id x = 4 /\ under l (n_id s) x.
Proof.
  intros l es H. vm_compute in H. injection H as <- _.
  eexists; eexists. split; [right; left; reflexivity|]. split; [reflexivity|]. split; [reflexivity|].
  split; [|eapply U_trans; [apply U_child|..]].
  2: { right; right; right; left; reflexivity. }
  2: reflexivity. 2: reflexivity.
  2: { right; right; right; right; left; reflexivity. }
  all: reflexivity.
Qed.

(* what a broken implementation would log: stop returns while the actor is still running.
   The acceptor refuses it and the trace-level property fails on it. *)
Example C47_witness_early_return_rejected :
  let bad := [LSpawnS 0 1; LSpawnA 1 2; LSetupEnd 2; LStopCall 1; LStopRet 1; LCleanBegin 2; LCleanEnd 2] in
  agree (Case true bad) = false /\ pcheck (Case true bad) = false.
Proof. vm_compute. split; reflexivity. Qed.

(* cleanup skipped: the task ends without the cleanup entries *)
Example C47_witness_no_cleanup_rejected :
  let bad := [LSpawnS 0 1; LSpawnA 1 2; LSetupEnd 2; LStopCall 1; LFin 2; LStopRet 1] in
  agree (Case true bad) = false /\ pcheck (Case true bad) = false.
Proof. vm_compute. split; reflexivity. Qed.

(* a stop that never returns (the broadcast was not sent): accepted as a safety trace, refused by
   the observation part of pcheck *)
Example C47_witness_hang_fails_pcheck :
  let bad := [LSpawnS 0 1; LSpawnA 1 2; LSetupEnd 2; LStopCall 1] in
  agree (Case true bad) = true /\ pcheck (Case true bad) = false.
Proof. vm_compute. split; reflexivity. Qed.

(* the spawn-after-the-task-ended race is a genuine behaviour of the LTS: the late actor is not
   stopped, and it is exactly what `under` (n_late = false) excludes *)
Example C47_witness_late_spawn :
  match run init [LSpawnS 0 1; LStopCall 0; TBcast 0; TBcast 1; TSupDone 1; LSpawnA 1 2] with
  | Some l => existsb (fun n => has_id 2 n && n_late n && negb (done n)) l = true
  | None => False
  end.
Proof. vm_compute. reflexivity. Qed.

(* non-vacuity of C47_stop_progress_partial: the final state of the witness log is reachable,
   covered and quiescent, and supervisors 0 and 1 had a pending stop *)
Example C47_witness_quiescent : forall l es, accept init wtrace = Some (l, es) ->
  reachable l /\ covered l /\ quiescent l /\
  existsb (fun n => has_id 1 n && is_sup n && n_req n) l = true.
Proof.
  intros l es H. destruct (accept_state wtrace l es H) as [H1 [H2 _]].
  split; [exact H1|]. split; [exact H2|]. vm_compute in H. injection H as <- _.
  split; [apply quiescentb_sound; vm_compute; reflexivity | vm_compute; reflexivity].
Qed.
(* and a state in which a stop is pending and NOT complete is not quiescent: stop(1) called,
   hidden steps withheld *)
Example C47_witness_pending_not_quiescent :
  match run init [LSpawnS 0 1; LSpawnA 1 2; LStopCall 1] with
  | Some l => quiescentb l = false /\ step l (TBcast 1) <> None
  | None => False
  end.
Proof. vm_compute. split; [reflexivity | discriminate]. Qed.
