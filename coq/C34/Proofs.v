(* KV.C34.Proofs — lemmas and proofs for the key object model. *)
From Coq Require Import List NArith Bool Lia PeanoNat.
Import ListNotations.
Require Import KV.C34.Model.
Open Scope N_scope.

Arguments N.add : simpl never.
Arguments N.sub : simpl never.
Arguments N.ltb : simpl never.
Arguments N.leb : simpl never.
Arguments N.eqb : simpl never.
Arguments N.div : simpl never.

(* ------------------------------------------------------------------ association lists *)
Section Assoc.
Context {A : Type}.
Implicit Types (l : list (N * A)) (k : N) (v : A).

Lemma find_In : forall l k v, find k l = Some v -> In (k, v) l.
Proof.
  induction l as [|[k' v'] t IH]; cbn [find]; intros k v H; [discriminate|].
  destruct (N.eqb_spec k k') as [->|Hne].
  - inversion H; subst. now left.
  - right. now apply IH.
Qed.

Lemma In_find_some : forall l k v, In (k, v) l -> exists v', find k l = Some v'.
Proof.
  induction l as [|[k' v'] t IH]; cbn [find]; intros k v H; [destruct H|].
  destruct (N.eqb_spec k k') as [->|Hne]; [eauto|].
  destruct H as [H|H]; [inversion H; subst; congruence|eauto].
Qed.

Lemma find_none_In : forall l k v, find k l = None -> ~ In (k, v) l.
Proof.
  intros l k v Hn Hin. destruct (In_find_some _ _ _ Hin) as [v' Hv]. congruence.
Qed.

Definition uniq l := NoDup (map fst l).

Lemma uniq_In_find : forall l k v, uniq l -> In (k, v) l -> find k l = Some v.
Proof.
  induction l as [|[k' v'] t IH]; cbn [find]; intros k v Hu Hin; [destruct Hin|].
  unfold uniq in Hu. cbn in Hu. inversion Hu as [|? ? Hni Hu']; subst.
  destruct Hin as [Hin|Hin].
  - inversion Hin; subst. now rewrite N.eqb_refl.
  - destruct (N.eqb_spec k k') as [->|Hne].
    + exfalso. apply Hni. now apply (in_map fst) in Hin.
    + now apply IH.
Qed.

Lemma In_place : forall l k v k0 x,
  In (k0, x) (place k v l) <-> (k0 = k /\ x = v) \/ In (k0, x) l.
Proof.
  induction l as [|[k' v'] t IH]; cbn [place]; intros k v k0 x.
  - cbn. split; [intros [H|[]]; inversion H; auto | intros [[-> ->]|[]]; auto].
  - destruct (k <? k').
    + cbn. split; [intros [H|H]; [inversion H; auto|auto] | intros [[-> ->]|H]; auto].
    + cbn [In]. rewrite IH. tauto.
Qed.

Lemma In_ins : forall l k v k0 x,
  In (k0, x) (ins k v l) <-> (k0 = k /\ x = v) \/ (k0 <> k /\ In (k0, x) l).
Proof.
  intros l k v k0 x. unfold ins. rewrite In_place, filter_In. cbn [fst].
  destruct (N.eqb_spec k0 k) as [->|Hne]; cbn; split; intros H.
  - destruct H as [H|[_ H]]; [auto|discriminate].
  - destruct H as [H|[H _]]; [auto|congruence].
  - destruct H as [[H _]|[H _]]; [congruence|auto].
  - destruct H as [[H _]|[_ H]]; [congruence|auto].
Qed.

Lemma keys_place : forall l k v x, In x (map fst (place k v l)) <-> x = k \/ In x (map fst l).
Proof.
  induction l as [|[k' v'] t IH]; cbn [place]; intros k v x.
  - cbn. intuition.
  - destruct (k <? k'); cbn [map fst In]; [intuition|]. rewrite IH. intuition.
Qed.

Lemma uniq_place : forall l k v, uniq l -> ~ In k (map fst l) -> uniq (place k v l).
Proof.
  unfold uniq. induction l as [|[k' v'] t IH]; cbn [place]; intros k v Hu Hni.
  - cbn. constructor; [intros []|constructor].
  - cbn in Hu. inversion Hu as [|? ? Hn Hu']; subst.
    destruct (k <? k').
    + cbn. constructor; [exact Hni|]. cbn. constructor; assumption.
    + cbn. constructor.
      * rewrite keys_place. intros [->|H]; [apply Hni; now left|contradiction].
      * apply IH; [assumption|]. intros H. apply Hni. now right.
Qed.

Lemma uniq_filter : forall (f : N * A -> bool) l, uniq l -> uniq (filter f l).
Proof.
  unfold uniq. intros f. induction l as [|[k v] t IH]; cbn; intros Hu; [constructor|].
  inversion Hu as [|? ? Hn Hu']; subst.
  destruct (f (k, v)); cbn; [constructor|auto].
  - intros H. apply Hn. apply in_map_iff in H. destruct H as [[k2 v2] [E H]].
    apply filter_In in H. destruct H as [H _]. cbn in E. subst. now apply (in_map fst) in H.
  - auto.
Qed.

Lemma uniq_ins : forall l k v, uniq l -> uniq (ins k v l).
Proof.
  intros l k v Hu. unfold ins. apply uniq_place; [now apply uniq_filter|].
  intros H. apply in_map_iff in H. destruct H as [[k2 v2] [E H]]. cbn in E. subst.
  apply filter_In in H. destruct H as [_ H]. cbn in H. now rewrite N.eqb_refl in H.
Qed.

Lemma find_ins_same : forall l k v, uniq l -> find k (ins k v l) = Some v.
Proof.
  intros l k v Hu. apply uniq_In_find; [now apply uniq_ins|]. apply In_ins. auto.
Qed.

Lemma find_place_other : forall l k v k0, k0 <> k -> find k0 (place k v l) = find k0 l.
Proof.
  induction l as [|[k' v'] t IH]; cbn [place]; intros k v k0 Hne.
  - cbn [find]. destruct (N.eqb_spec k0 k); congruence.
  - destruct (k <? k'); cbn [find].
    + destruct (N.eqb_spec k0 k); congruence.
    + destruct (k0 =? k'); [reflexivity|now apply IH].
Qed.

Lemma find_filter_other : forall l k k0, k0 <> k ->
  find k0 (filter (fun p : N * A => negb (fst p =? k)) l) = find k0 l.
Proof.
  induction l as [|[k' v'] t IH]; cbn [filter find fst]; intros k k0 Hne; [reflexivity|].
  destruct (N.eqb_spec k' k) as [->|Hn]; cbn [negb find].
  - destruct (N.eqb_spec k0 k); [congruence|now apply IH].
  - destruct (k0 =? k'); [reflexivity|now apply IH].
Qed.

Lemma find_ins_other : forall l k v k0, k0 <> k -> find k0 (ins k v l) = find k0 l.
Proof.
  intros. unfold ins. rewrite find_place_other by assumption. now apply find_filter_other.
Qed.
End Assoc.

Lemma mem_In : forall l x, mem x l = true <-> In x l.
Proof.
  induction l as [|y t IH]; cbn [mem In]; intros x; [split; [discriminate|tauto]|].
  rewrite orb_true_iff, IH, N.eqb_eq. intuition.
Qed.

Lemma In_add : forall l x y, In x (add y l) <-> x = y \/ In x l.
Proof.
  induction l as [|z t IH]; cbn [add]; intros x y; [cbn; intuition|].
  destruct (y <? z); [cbn; intuition|].
  destruct (N.eqb_spec y z) as [->|Hne]; [cbn; intuition|].
  cbn [In]. rewrite IH. intuition.
Qed.

(* ------------------------------------------------------------------ stored value sets *)
Lemma In_merge1 : forall acc e k x, In (k, x) (merge1 acc e) -> In (k, x) acc \/ (k, x) = e.
Proof.
  intros acc [k2 v2] k x. unfold merge1.
  destruct (find k2 acc) as [vs|]; [destruct (better v2 vs)|]; intros H; auto;
    apply In_ins in H; destruct H as [[-> ->]|[_ H]]; auto.
Qed.

Lemma In_merge : forall b a k x, In (k, x) (merge a b) -> In (k, x) a \/ In (k, x) b.
Proof.
  unfold merge. induction b as [|e t IH]; cbn [fold_left]; intros a k x H; [auto|].
  apply IH in H. destruct H as [H|H]; [|right; now right].
  apply In_merge1 in H. destruct H as [H|H]; [auto|right; left; auto].
Qed.

Lemma uniq_merge1 : forall acc e, uniq acc -> uniq (merge1 acc e).
Proof.
  intros acc [k2 v2] Hu. unfold merge1.
  destruct (find k2 acc) as [vs|]; [destruct (better v2 vs)|]; auto using uniq_ins.
Qed.

Lemma uniq_merge : forall b a, uniq a -> uniq (merge a b).
Proof.
  unfold merge. induction b as [|e t IH]; cbn [fold_left]; intros a Hu; [assumption|].
  apply IH. now apply uniq_merge1.
Qed.

Lemma In_trim : forall t l e, In e (trim t l) -> In e l.
Proof. intros t l e H. unfold trim in H. apply filter_In in H. tauto. Qed.

Lemma uniq_trim : forall t l, uniq l -> uniq (trim t l).
Proof. intros. unfold trim. now apply uniq_filter. Qed.

Lemma In_trim_keep : forall t l k x,
  In (k, x) l -> is_revoked (k_st x) = false -> In (k, x) (trim t l).
Proof.
  intros t l k x H Hr. unfold trim. apply filter_In. split; [assumption|]. cbn [snd]. now rewrite Hr.
Qed.

Definition allQ (Q : key -> Prop) (l : stored) (k : N) : Prop := forall x, In (k, x) l -> Q x.
Definition dead := allQ (fun x => k_st x = Revoked).

Lemma allQ_merge : forall (Q : key -> Prop) a b k, allQ Q a k -> allQ Q b k -> allQ Q (merge a b) k.
Proof. intros Q a b k Ha Hb x H. apply In_merge in H. destruct H; auto. Qed.

Lemma allQ_trim : forall (Q : key -> Prop) t l k, allQ Q l k -> allQ Q (trim t l) k.
Proof. intros Q t l k H x Hin. apply H. eapply In_trim; eauto. Qed.

Lemma allQ_ins_other : forall (Q : key -> Prop) l k k2 v,
  k <> k2 -> (allQ Q (ins k2 v l) k <-> allQ Q l k).
Proof.
  intros Q l k k2 v Hne. unfold allQ. split; intros H x Hin.
  - apply H. apply In_ins. right. auto.
  - apply In_ins in Hin. destruct Hin as [[-> _]|[_ Hin]]; [congruence|auto].
Qed.

Lemma allQ_ins_same : forall (Q : key -> Prop) l k v, Q v -> allQ Q (ins k v l) k.
Proof.
  intros Q l k v Hq x Hin. apply In_ins in Hin. destruct Hin as [[_ ->]|[Hne _]]; [assumption|congruence].
Qed.

Lemma not_better_revoked : forall vo vs,
  k_st vo = Revoked -> better vo vs = false -> k_st vs = Revoked.
Proof.
  intros vo vs Ho Hb. unfold better in Hb. rewrite Ho in Hb. apply orb_false_iff in Hb.
  destruct Hb as [Hb _]. destruct (k_st vs); cbn in Hb; try discriminate; reflexivity.
Qed.

(* revoked on the incoming side wins *)
Lemma fold_merge_revoked : forall k b acc,
  uniq acc -> dead b k -> (dead acc k \/ exists x, In (k, x) b) ->
  dead (fold_left merge1 b acc) k.
Proof.
  intros k. induction b as [|[k2 v2] t IH]; cbn [fold_left]; intros acc Hu Hb Hd.
  - destruct Hd as [Hd|[x []]]. exact Hd.
  - assert (Hbt : dead t k) by (intros x Hx; apply Hb; now right).
    apply IH; [now apply uniq_merge1|exact Hbt|].
    destruct (N.eq_dec k2 k) as [->|Hne].
    + left. assert (Hv2 : k_st v2 = Revoked) by (apply Hb; now left).
      unfold merge1. destruct (find k acc) as [vs|] eqn:Hf.
      * destruct (better v2 vs) eqn:Hbt2; [now apply allQ_ins_same|].
        pose proof (not_better_revoked _ _ Hv2 Hbt2) as Hvs.
        intros x Hx. rewrite (uniq_In_find _ _ _ Hu Hx) in Hf. inversion Hf; subst. exact Hvs.
      * now apply allQ_ins_same.
    + assert (Hiff : dead (merge1 acc (k2, v2)) k <-> dead acc k).
      { unfold merge1. destruct (find k2 acc) as [vs|]; [destruct (better v2 vs)|];
          try tauto; apply allQ_ins_other; congruence. }
      destruct Hd as [Hd|[x [Hx|Hx]]]; [left; now apply Hiff| inversion Hx; congruence | right; eauto].
Qed.

Lemma merge_revoked_right : forall a b k x,
  uniq a -> dead b k -> In (k, x) b -> dead (merge a b) k.
Proof. intros. unfold merge. apply fold_merge_revoked; eauto. Qed.

(* a key present on one side stays present *)
Lemma merge1_keeps : forall acc e k, (exists x, In (k, x) acc) -> exists x, In (k, x) (merge1 acc e).
Proof.
  intros acc [k2 v2] k [x Hx]. unfold merge1.
  assert (Hi : exists y, In (k, y) (ins k2 v2 acc)).
  { destruct (N.eq_dec k k2) as [->|Hne]; [exists v2|exists x]; apply In_ins; auto. }
  destruct (find k2 acc) as [vs|]; [destruct (better v2 vs)|]; eauto.
Qed.

Lemma merge1_adds : forall acc k v, exists x, In (k, x) (merge1 acc (k, v)).
Proof.
  intros acc k v. unfold merge1. destruct (find k acc) as [vs|] eqn:Hf.
  - destruct (better v vs); [exists v; apply In_ins; auto|exists vs; now apply find_In].
  - exists v. apply In_ins. auto.
Qed.

Lemma merge_present : forall k b a,
  (exists x, In (k, x) a) \/ (exists x, In (k, x) b) -> exists x, In (k, x) (merge a b).
Proof.
  intros k. unfold merge. induction b as [|[k2 v2] t IH]; cbn [fold_left]; intros a H.
  - destruct H as [H|[x []]]. exact H.
  - apply IH. destruct H as [H|[x [Hx|Hx]]].
    + left. now apply merge1_keeps.
    + inversion Hx; subst. left. apply merge1_adds.
    + right. eauto.
Qed.

(* ------------------------------------------------------------------ the key maps of an object *)
Lemma all_new_active : forall fx o u vf kid c,
  o_all (new_active fx o u vf kid c) = ins kid (mkkey u vf Valid c) (o_all o).
Proof. reflexivity. Qed.

Lemma all_assert : forall fx o u t kid c,
  o_all (assert_active fx o u t kid c) = o_all o \/
  o_all (assert_active fx o u t kid c) = ins kid (mkkey u (secs_of t) Valid c) (o_all o).
Proof. intros. unfold assert_active. destruct (signer o u (secs_of t)); cbn; auto. Qed.

Definition rot_kid (news : list (N * N)) (u : N) : N :=
  match find u news with Some k => k | None => 0 end.

Lemma rotate_fold : forall fx t c news us o,
  fold_left (fun acc u => new_active fx acc u (secs_of t) (rot_kid news u) c) us o =
  fold_left (fun acc u => new_active fx acc u (secs_of t)
                            (match find u news with Some k => k | None => 0 end) c) us o.
Proof. reflexivity. Qed.

(* what a rotation does to the key map: only fresh Valid bindings for the supplied kids *)
Lemma rotate_all : forall fx t c news us o,
  let o' := fold_left (fun acc u => new_active fx acc u (secs_of t) (rot_kid news u) c) us o in
  (uniq (o_all o) -> uniq (o_all o')) /\
  (forall k x, In (k, x) (o_all o') ->
     In (k, x) (o_all o) \/ (k_st x = Valid /\ exists u, In u us /\ k = rot_kid news u)) /\
  (forall k x, (forall u, In u us -> rot_kid news u <> k) -> In (k, x) (o_all o) -> In (k, x) (o_all o')).
Proof.
  intros fx t c news. induction us as [|u us IH]; cbn [fold_left]; intros o.
  - cbn. repeat split; auto.
  - specialize (IH (new_active fx o u (secs_of t) (rot_kid news u) c)).
    cbn zeta in IH. destruct IH as [IHu [IHi IHk]]. cbn zeta. repeat split.
    + intros Hu. apply IHu. rewrite all_new_active. now apply uniq_ins.
    + intros k x H. apply IHi in H. destruct H as [H|[Hv [u2 [Hin Hk]]]].
      * rewrite all_new_active in H. apply In_ins in H. destruct H as [[-> ->]|[_ H]]; [|auto].
        right. split; [reflexivity|]. exists u. split; [now left|reflexivity].
      * right. split; [assumption|]. exists u2. split; [now right|assumption].
    + intros k x Hne H. apply IHk; [intros u2 Hu2; apply Hne; now right|].
      rewrite all_new_active. apply In_ins. right. split; [|assumption].
      intros ->. apply (Hne u); [now left|reflexivity].
Qed.

Lemma revoke1_all : forall fx o kid c o' ok,
  revoke1 fx o kid c = (o', ok) ->
  o_pres o' = o_pres o /\
  ((ok = false /\ o' = o) \/
   (ok = true /\ exists x, find kid (o_all o) = Some x /\
      o_all o' = ins kid (mkkey (k_us x) (k_vf x) Revoked c) (o_all o))).
Proof.
  intros fx o kid c o' ok H. unfold revoke1 in H.
  destruct (find kid (o_all o)) as [x|] eqn:Hf.
  - destruct (norerevoke (k_us x) && is_revoked (k_st x)); inversion H; subst; cbn; split; auto.
    right. split; [reflexivity|]. exists x. auto.
  - inversion H; subst. auto.
Qed.

Lemma revoke_all_spec : forall fx c kids o o',
  revoke_all fx o kids c = Some o' ->
  (uniq (o_all o) -> uniq (o_all o')) /\
  (forall k, dead (o_all o) k -> dead (o_all o') k) /\
  (forall k, In k kids -> uniq (o_all o) -> dead (o_all o') k /\ exists x, In (k, x) (o_all o')) /\
  (forall k x, ~ In k kids -> (In (k, x) (o_all o') <-> In (k, x) (o_all o))) /\
  o_pres o' = o_pres o.
Proof.
  intros fx c. induction kids as [|kid t IH]; cbn [revoke_all]; intros o o' H.
  - inversion H; subst. split; [auto|]. split; [auto|]. split; [intros k0 []|]. split; [tauto|reflexivity].
  - destruct (revoke1 fx o kid c) as [o1 ok] eqn:Hr. destruct ok; [|discriminate].
    apply revoke1_all in Hr. destruct Hr as [Hp [[Hf _]|[_ [x [Hfx Hall]]]]]; [discriminate|].
    specialize (IH _ _ H). destruct IH as [IHu [IHd [IHk [IHo IHp]]]].
    assert (Hu1 : uniq (o_all o) -> uniq (o_all o1)) by (intros; rewrite Hall; now apply uniq_ins).
    assert (Hd1 : forall k, dead (o_all o) k -> dead (o_all o1) k).
    { intros k Hd. rewrite Hall. destruct (N.eq_dec k kid) as [->|Hne].
      - now apply allQ_ins_same.
      - now apply allQ_ins_other. }
    split; [auto|]. split; [auto|]. split; [|split; [|congruence]].
    + intros k Hk Hu. destruct Hk as [<-|Hin].
      * split.
        -- apply IHd. rewrite Hall. now apply allQ_ins_same.
        -- destruct (in_dec N.eq_dec kid t) as [Hi|Hni]; [apply IHk; auto|].
           exists (mkkey (k_us x) (k_vf x) Revoked c). apply IHo; [assumption|].
           rewrite Hall. apply In_ins. auto.
      * apply IHk; auto.
    + intros k y Hnk. split.
      * intros Hi. apply IHo in Hi; [|intros Hc; apply Hnk; now right].
        rewrite Hall in Hi. apply In_ins in Hi. destruct Hi as [[-> _]|[_ Hi]]; [|assumption].
        exfalso. apply Hnk. now left.
      * intros Hi. apply IHo; [intros Hc; apply Hnk; now right|].
        rewrite Hall. apply In_ins. right. split; [|assumption]. intros ->. apply Hnk. now left.
Qed.

Lemma load_all : forall fx e, o_all (load fx e) = e.
Proof. reflexivity. Qed.

(* ------------------------------------------------------------------ clusters *)
Lemma nth_setn : forall {A} (l : list A) n n' x d,
  nth n' (setn n x l) d = nth n' l d \/ (n' = n /\ nth n' (setn n x l) d = x).
Proof.
  induction l as [|h t IH]; intros n n' x d; cbn [setn]; [destruct n; auto|].
  destruct n as [|n]; destruct n' as [|n']; cbn [nth]; auto.
  destruct (IH n n' x d) as [H|[-> H]]; auto.
Qed.

Lemma getr_setr : forall (P : rep -> Prop) cl r x r0,
  P (getr cl r0) -> (r0 = r -> P x) -> P (getr (setr cl r x) r0).
Proof.
  intros P cl r x r0 Hold Hnew. unfold getr, setr.
  destruct (nth_setn cl (N.to_nat r) (N.to_nat r0) x rep0) as [H|[He H]]; rewrite H; [assumption|].
  apply Hnew. now apply N2Nat.inj.
Qed.

Definition Urep (x : rep) : Prop := uniq (r_ent x) /\ uniq (o_all (r_obj x)).
Definition Ucl (cl : cluster) : Prop := forall r, Urep (getr cl r).

Lemma Urep0 : Urep rep0.
Proof. split; constructor. Qed.

Lemma Ucl_repeat : forall n, Ucl (repeat rep0 n).
Proof.
  intros n r. unfold getr. destruct (nth_in_or_default (N.to_nat r) (repeat rep0 n) rep0) as [H|H].
  - apply repeat_spec in H. rewrite H. apply Urep0.
  - rewrite H. apply Urep0.
Qed.

Lemma uniq_retain : forall e kid, uniq e -> uniq (retain e kid).
Proof.
  intros e kid Hu. unfold retain. destruct (find kid e) as [x|]; [|assumption].
  destruct (is_valid (k_st x)); [now apply uniq_ins|assumption].
Qed.

Lemma step_U : forall fx cl o, Ucl cl -> Ucl (fst (step fx cl o)).
Proof.
  intros fx cl o HU r0. destruct o; cbn [step fst];
    try (destruct (revoke_all fx (r_obj (getr cl r)) kids c) as [o'|] eqn:Hrv; cbn [fst]);
    try apply HU; apply getr_setr; try apply HU; intros _; split; cbn [r_ent r_obj];
    try rewrite load_all; try apply (HU r); try apply (HU dst).
  - destruct (all_assert fx (r_obj (getr cl r)) u t_ms kid c) as [H|H]; rewrite H;
      [apply (HU r)|apply uniq_ins, (HU r)].
  - unfold rotate. rewrite <- rotate_fold.
    apply (proj1 (rotate_all fx t_ms c news (o_pres (r_obj (getr cl r))) (r_obj (getr cl r)))), (HU r).
  - apply (proj1 (revoke_all_spec _ _ _ _ _ Hrv)), (HU r).
  - apply uniq_merge, (HU r).
  - apply uniq_merge, (HU r).
  - destruct flip; unfold repl_merge; apply uniq_trim, uniq_merge; [apply (HU src)|apply (HU dst)].
  - destruct flip; unfold repl_merge; apply uniq_trim, uniq_merge; [apply (HU src)|apply (HU dst)].
  - apply uniq_retain, (HU r).
  - apply uniq_retain, (HU r).
Qed.

Lemma run_U : forall fx ops cl, Ucl cl -> Ucl (run fx cl ops).
Proof.
  intros fx. induction ops as [|o t IH]; cbn [run]; intros cl HU; [assumption|].
  apply IH. now apply step_U.
Qed.

Lemma nth_setn_same : forall {A} (l : list A) n x d,
  nth n (setn n x l) d = x \/ nth n (setn n x l) d = d.
Proof.
  induction l as [|h t IH]; intros n x d; cbn [setn]; [destruct n; cbn; auto|].
  destruct n as [|n]; cbn [nth]; [auto|apply IH].
Qed.

Lemma getr_setr_same : forall cl r x, getr (setr cl r x) r = x \/ getr (setr cl r x) r = rep0.
Proof. intros. unfold getr, setr. apply nth_setn_same. Qed.

(* ------------------------------------------------------------------ revoked keys stay dead *)
Definition deadR (x : rep) (k : N) : Prop := dead (r_ent x) k /\ dead (o_all (r_obj x)) k.

Lemma deadR0 : forall k, deadR rep0 k.
Proof. intros k. split; intros x []. Qed.

Definition safe_op (cl : cluster) (r0 k : N) (o : op) : Prop :=
  match o with
  | OAssert r _ _ _ kid => r = r0 -> kid <> k
  | ORotate r _ _ news => r = r0 -> forall u, rot_kid news u <> k
  | ORepl src dst _ _ => dst = r0 -> dead (r_ent (getr cl src)) k
  | _ => True
  end.

Lemma dead_retain : forall e kid k, dead e k -> dead (retain e kid) k.
Proof.
  intros e kid k Hd. unfold retain. destruct (find kid e) as [x|] eqn:Hf; [|assumption].
  destruct (is_valid (k_st x)) eqn:Hv; [|assumption].
  destruct (N.eq_dec k kid) as [->|Hne]; [|now apply allQ_ins_other].
  apply find_In in Hf. apply Hd in Hf. rewrite Hf in Hv. discriminate.
Qed.

Lemma dead_rotate : forall fx o t c news k,
  (forall u, rot_kid news u <> k) -> dead (o_all o) k -> dead (o_all (rotate fx o t c news)) k.
Proof.
  intros fx o t c news k Hne Hd x Hin. unfold rotate in Hin. rewrite <- rotate_fold in Hin.
  apply (proj1 (proj2 (rotate_all fx t c news (o_pres o) o))) in Hin.
  destruct Hin as [Hin|[_ [u [_ Hk]]]]; [now apply Hd|]. exfalso. now apply (Hne u).
Qed.

Lemma step_dead : forall fx cl r0 k o,
  Ucl cl -> deadR (getr cl r0) k -> safe_op cl r0 k o ->
  deadR (getr (fst (step fx cl o)) r0) k.
Proof.
  intros fx cl r0 k o HU Hd Hs. destruct o; cbn [step fst]; cbn [safe_op] in Hs;
    try (destruct (revoke_all fx (r_obj (getr cl r)) kids c) as [o'|] eqn:Hrv; cbn [fst]);
    try exact Hd; apply getr_setr; try exact Hd; intros E; subst; destruct Hd as [He Ho];
    split; cbn [r_ent r_obj]; try rewrite load_all; try assumption.
  - destruct (all_assert fx (r_obj (getr cl r)) u t_ms kid c) as [H|H]; rewrite H; [assumption|].
    apply allQ_ins_other; [|assumption]. intros E. apply (Hs eq_refl). now symmetry.
  - apply dead_rotate; [apply Hs; reflexivity|assumption].
  - now apply (proj1 (proj2 (revoke_all_spec _ _ _ _ _ Hrv))).
  - now apply allQ_merge.
  - now apply allQ_merge.
  - specialize (Hs eq_refl). destruct flip; unfold repl_merge; apply allQ_trim, allQ_merge; auto.
  - specialize (Hs eq_refl). destruct flip; unfold repl_merge; apply allQ_trim, allQ_merge; auto.
  - now apply dead_retain.
  - now apply dead_retain.
Qed.

Fixpoint safe_hist (fx : bool) (cl : cluster) (r0 k : N) (ops : list op) : Prop :=
  match ops with
  | [] => True
  | o :: t => safe_op cl r0 k o /\ safe_hist fx (fst (step fx cl o)) r0 k t
  end.

Lemma run_dead : forall fx ops cl r0 k,
  Ucl cl -> deadR (getr cl r0) k -> safe_hist fx cl r0 k ops ->
  deadR (getr (run fx cl ops) r0) k.
Proof.
  intros fx. induction ops as [|o t IH]; cbn [run safe_hist]; intros cl r0 k HU Hd Hs; [assumption|].
  destruct Hs as [Hs Ht]. apply IH; [now apply step_U|now apply step_dead|assumption].
Qed.

Lemma dead_verify : forall o u k good, dead (o_all o) k -> verify o u k good <> VOk.
Proof.
  intros o u k good Hd. unfold verify. destruct (negb (mem u (o_pres o))); [discriminate|].
  destruct (find k (o_all o)) as [x|] eqn:Hf; [|discriminate].
  apply find_In in Hf. apply Hd in Hf. rewrite Hf. cbn. destruct (negb (k_us x =? u)); discriminate.
Qed.

(* a successful revoke kills at once; the next commit makes it durable *)
Lemma revoke_dead_now : forall fx cl r kids c cl' k,
  Ucl cl -> step fx cl (ORevoke r kids c) = (cl', OutRev true) -> In k kids ->
  dead (o_all (r_obj (getr cl' r))) k /\ exists x, In (k, x) (o_all (r_obj (getr cl' r))).
Proof.
  intros fx cl r kids c cl' k HU Hs Hk. cbn [step] in Hs.
  destruct (revoke_all fx (r_obj (getr cl r)) kids c) as [o'|] eqn:Hrv; inversion Hs; subst; clear Hs.
  pose proof (proj1 (proj2 (proj2 (revoke_all_spec _ _ _ _ _ Hrv))) k Hk (proj2 (HU r))) as [Hd Hx].
  destruct (getr_setr_same cl r (mkrep (r_ent (getr cl r)) o')) as [E|E]; rewrite E; cbn [r_obj]; [auto|].
  (* out of range: the replica is the empty one, where no revoke succeeds *)
  exfalso. unfold getr, setr in E.
  assert (Hg : getr cl r = rep0 \/ (N.to_nat r < length cl)%nat).
  { unfold getr. destruct (Compare_dec.le_lt_dec (length cl) (N.to_nat r)); [left; now apply nth_overflow|auto]. }
  destruct Hg as [Hg|Hg].
  - rewrite Hg in Hrv. destruct kids as [|k0 t]; [destruct Hk|]. cbn in Hrv. discriminate.
  - destruct Hx as [x Hx].
    assert (Hn : forall (l : list rep) n y, (n < length l)%nat -> nth n (setn n y l) rep0 = y).
    { induction l as [|h t IH]; intros n y Hl; cbn in Hl; [lia|]. destruct n; cbn; [reflexivity|]. apply IH. lia. }
    rewrite Hn in E by assumption. inversion E; subst. destruct Hx.
Qed.

Lemma fold_merge_keeps_revoked : forall k b acc,
  uniq acc -> dead acc k -> (exists x, In (k, x) acc) ->
  dead (fold_left merge1 b acc) k /\ exists x, In (k, x) (fold_left merge1 b acc).
Proof.
  intros k. induction b as [|[k2 v2] t IH]; cbn [fold_left]; intros acc Hu Hd Hx; [auto|].
  apply IH; [now apply uniq_merge1| |now apply merge1_keeps].
  destruct (N.eq_dec k2 k) as [->|Hne].
  - destruct Hx as [x Hx]. unfold merge1. rewrite (uniq_In_find _ _ _ Hu Hx).
    destruct (better v2 x) eqn:Hb; [|assumption].
    apply allQ_ins_same. pose proof (Hd _ Hx) as Hr. unfold better in Hb. rewrite Hr in Hb.
    destruct (k_st v2); cbn in Hb; try discriminate; reflexivity.
  - unfold merge1. destruct (find k2 acc) as [vs|]; [destruct (better v2 vs)|];
      try assumption; (apply allQ_ins_other; [congruence|assumption]).
Qed.

Lemma commit_dead : forall fx cl r k,
  Ucl cl -> dead (o_all (r_obj (getr cl r))) k -> (exists x, In (k, x) (o_all (r_obj (getr cl r)))) ->
  deadR (getr (fst (step fx cl (OCommit r))) r) k.
Proof.
  intros fx cl r k HU Hd [x Hx]. cbn [step fst].
  destruct (getr_setr_same cl r (mkrep (merge (r_ent (getr cl r)) (o_all (r_obj (getr cl r))))
             (load fx (merge (r_ent (getr cl r)) (o_all (r_obj (getr cl r))))))) as [E|E]; rewrite E;
    [|apply deadR0].
  split; cbn [r_ent r_obj]; rewrite ?load_all; eapply merge_revoked_right; eauto; apply (HU r).
Qed.

(* replication carries a revocation to the receiving replica, whichever side is "newer" *)
Lemma repl_spreads : forall fx cl src dst flip t k,
  Ucl cl -> dead (r_ent (getr cl src)) k -> (exists x, In (k, x) (r_ent (getr cl src))) ->
  deadR (getr (fst (step fx cl (ORepl src dst flip t))) dst) k.
Proof.
  intros fx cl src dst flip t k HU Hd Hx. cbn [step fst].
  match goal with |- deadR (getr (setr cl dst ?X) dst) k =>
    destruct (getr_setr_same cl dst X) as [E|E]; rewrite E; [|apply deadR0] end.
  assert (Hm : dead (if flip then repl_merge (r_ent (getr cl src)) (r_ent (getr cl dst)) t
                     else repl_merge (r_ent (getr cl dst)) (r_ent (getr cl src)) t) k).
  { destruct flip; unfold repl_merge; apply allQ_trim.
    - unfold merge. apply fold_merge_keeps_revoked; auto. apply (HU src).
    - destruct Hx as [x Hx]. eapply merge_revoked_right; eauto. apply (HU dst). }
  split; cbn [r_ent r_obj]; rewrite ?load_all; exact Hm.
Qed.

(* ------------------------------------------------------------------ keys that are not revoked stay usable *)
Definition okkey (u : N) (x : key) : Prop := is_revoked (k_st x) = false /\ k_us x = u.
Definition alive (u : N) (l : stored) (k : N) : Prop := (exists x, In (k, x) l) /\ allQ (okkey u) l k.
Definition aliveR (u : N) (x : rep) (k : N) : Prop :=
  alive u (r_ent x) k /\ alive u (o_all (r_obj x)) k.

Definition keep_op (cl : cluster) (r0 u k : N) (o : op) : Prop :=
  match o with
  | OAssert r _ _ _ kid => r = r0 -> kid <> k
  | ORotate r _ _ news => r = r0 -> forall u', rot_kid news u' <> k
  | ORevoke r kids _ => r = r0 -> ~ In k kids
  | ORepl src dst _ _ => dst = r0 -> allQ (okkey u) (r_ent (getr cl src)) k
  | _ => True
  end.

Lemma alive_ins_other : forall u l k k2 v, k <> k2 -> alive u l k -> alive u (ins k2 v l) k.
Proof.
  intros u l k k2 v Hne [[x Hx] Hq]. split.
  - exists x. apply In_ins. auto.
  - now apply allQ_ins_other.
Qed.

Lemma alive_merge : forall u a b k,
  allQ (okkey u) a k -> allQ (okkey u) b k ->
  (exists x, In (k, x) a) \/ (exists x, In (k, x) b) -> alive u (merge a b) k.
Proof. intros. split; [now apply merge_present|now apply allQ_merge]. Qed.

Lemma alive_trim : forall u t l k, alive u l k -> alive u (trim t l) k.
Proof.
  intros u t l k [[x Hx] Hq]. split; [|now apply allQ_trim].
  exists x. apply In_trim_keep; [assumption|]. apply (Hq _ Hx).
Qed.

Lemma alive_retain : forall u e kid k, alive u e k -> alive u (retain e kid) k.
Proof.
  intros u e kid k Ha. unfold retain. destruct (find kid e) as [x|] eqn:Hf; [|assumption].
  destruct (is_valid (k_st x)); [|assumption].
  destruct (N.eq_dec k kid) as [->|Hne]; [|now apply alive_ins_other].
  destruct Ha as [_ Hq]. apply find_In in Hf. destruct (Hq _ Hf) as [_ Hu]. split.
  - eexists. apply In_ins. left. split; reflexivity.
  - apply allQ_ins_same. split; [reflexivity|exact Hu].
Qed.

Lemma alive_rotate : forall fx o u t c news k,
  (forall u', rot_kid news u' <> k) -> alive u (o_all o) k -> alive u (o_all (rotate fx o t c news)) k.
Proof.
  intros fx o u t c news k Hne [[x Hx] Hq]. unfold rotate. rewrite <- rotate_fold.
  destruct (rotate_all fx t c news (o_pres o) o) as [_ [Hi Hk]]. split.
  - exists x. apply Hk; [intros; apply Hne|assumption].
  - intros y Hy. apply Hi in Hy. destruct Hy as [Hy|[_ [u' [_ E]]]]; [now apply Hq|].
    exfalso. now apply (Hne u').
Qed.

Lemma step_alive : forall fx cl r0 u k o,
  Ucl cl -> aliveR u (getr cl r0) k -> keep_op cl r0 u k o ->
  aliveR u (getr (fst (step fx cl o)) r0) k.
Proof.
  intros fx cl r0 u k o HU Ha Hs. destruct o; cbn [step fst]; cbn [keep_op] in Hs;
    try (destruct (revoke_all fx (r_obj (getr cl r)) kids c) as [o'|] eqn:Hrv; cbn [fst]);
    try exact Ha; apply getr_setr; try exact Ha; intros E; subst; try specialize (Hs eq_refl);
    destruct Ha as [He Ho]; split; cbn [r_ent r_obj]; try rewrite load_all; try assumption.
  - destruct (all_assert fx (r_obj (getr cl r)) u0 t_ms kid c) as [H|H]; rewrite H; [assumption|].
    apply alive_ins_other; [|assumption]. intros E. apply Hs. now symmetry.
  - now apply alive_rotate.
  - destruct (revoke_all_spec _ _ _ _ _ Hrv) as [_ [_ [_ [Hi _]]]].
    destruct Ho as [[x Hx] Hq]. split.
    + exists x. now apply Hi.
    + intros y Hy. apply Hq. now apply Hi.
  - apply alive_merge; [apply He|apply Ho|left; apply He].
  - apply alive_merge; [apply He|apply Ho|left; apply He].
  - destruct flip; unfold repl_merge; apply alive_trim, alive_merge; auto; try apply He;
      [right|left]; apply He.
  - destruct flip; unfold repl_merge; apply alive_trim, alive_merge; auto; try apply He;
      [right|left]; apply He.
  - now apply alive_retain.
  - now apply alive_retain.
Qed.

Fixpoint keep_hist (fx : bool) (cl : cluster) (r0 u k : N) (ops : list op) : Prop :=
  match ops with
  | [] => True
  | o :: t => keep_op cl r0 u k o /\ keep_hist fx (fst (step fx cl o)) r0 u k t
  end.

Lemma run_alive : forall fx ops cl r0 u k,
  Ucl cl -> aliveR u (getr cl r0) k -> keep_hist fx cl r0 u k ops ->
  aliveR u (getr (run fx cl ops) r0) k.
Proof.
  intros fx. induction ops as [|o t IH]; cbn [run keep_hist]; intros cl r0 u k HU Ha Hs; [assumption|].
  destruct Hs as [Hs Ht]. apply IH; [now apply step_U|now apply step_alive|assumption].
Qed.

Lemma alive_verify : forall o u k,
  uniq (o_all o) -> alive u (o_all o) k -> mem u (o_pres o) = true -> verify o u k true = VOk.
Proof.
  intros o u k Hu [[x Hx] Hq] Hm. unfold verify. rewrite Hm. cbn [negb].
  rewrite (uniq_In_find _ _ _ Hu Hx). destruct (Hq _ Hx) as [Hr Hus].
  rewrite Hus, N.eqb_refl, Hr. reflexivity.
Qed.

(* ------------------------------------------------------------------ the signer is the newest valid key *)
Lemma signer_from_some : forall a best u s u' vf k,
  signer_from best u s a = Some (u', vf, k) ->
  (best = Some (u', vf, k) \/ (In (u', vf, k) a /\ u' = u /\ vf <= s)) /\
  (forall bu bvf bk, best = Some (bu, bvf, bk) -> bvf <= vf) /\
  (forall vf' k', In (u, vf', k') a -> vf' <= s -> vf' <= vf).
Proof.
  induction a as [|[[u1 vf1] k1] t IH]; cbn [signer_from]; intros best u s u' vf k H.
  - subst. split; [auto|]. split; [|intros ? ? []].
    intros bu bvf bk E. inversion E; subst. lia.
  - apply IH in H. destruct H as [Hsrc [Hb Ht]].
    destruct ((u1 =? u) && (vf1 <=? s)) eqn:Hc.
    + apply andb_true_iff in Hc. destruct Hc as [Hu Hle]. apply N.eqb_eq in Hu. apply N.leb_le in Hle. subst u1.
      destruct best as [[[bu bvf] bk]|].
      * destruct (slot_lt (bu, bvf, bk) (u, vf1, k1)) eqn:Hlt.
        -- specialize (Hb _ _ _ eq_refl). split; [|split].
           ++ destruct Hsrc as [E|[Hin Hr]]; [inversion E; subst; right; split; [now left|auto]|right; split; [now right|auto]].
           ++ intros bu' bvf' bk' E. inversion E; subst. cbn in Hlt.
              apply orb_true_iff in Hlt. destruct Hlt as [Hlt|Hlt].
              ** apply N.ltb_lt in Hlt. lia.
              ** apply andb_true_iff in Hlt. destruct Hlt as [Hlt _]. apply N.eqb_eq in Hlt. lia.
           ++ intros vf' k' [E|Hin] Hs; [inversion E; subst; assumption|eauto].
        -- specialize (Hb _ _ _ eq_refl). split; [|split].
           ++ destruct Hsrc as [E|[Hin Hr]]; [now left|right; split; [now right|auto]].
           ++ intros bu' bvf' bk' E. inversion E; subst. assumption.
           ++ intros vf' k' [E|Hin] Hs; [|eauto]. inversion E; subst. cbn in Hlt.
              apply orb_false_iff in Hlt. destruct Hlt as [Hlt _]. apply N.ltb_ge in Hlt. lia.
      * specialize (Hb _ _ _ eq_refl). split; [|split].
        -- destruct Hsrc as [E|[Hin Hr]]; [inversion E; subst; right; split; [now left|auto]|right; split; [now right|auto]].
        -- intros ? ? ? E. discriminate.
        -- intros vf' k' [E|Hin] Hs; [inversion E; subst; assumption|eauto].
    + split; [|split].
      * destruct Hsrc as [E|[Hin Hr]]; [now left|right; split; [now right|auto]].
      * assumption.
      * intros vf' k' [E|Hin] Hs; [|eauto]. inversion E; subst. rewrite N.eqb_refl in Hc. cbn in Hc.
        apply N.leb_gt in Hc. lia.
Qed.

Lemma signer_from_none : forall a best u s,
  signer_from best u s a = None ->
  best = None /\ forall vf' k', In (u, vf', k') a -> vf' <= s -> False.
Proof.
  induction a as [|[[u1 vf1] k1] t IH]; cbn [signer_from]; intros best u s H.
  - split; [assumption|intros ? ? []].
  - apply IH in H. destruct H as [Hb Ht].
    destruct ((u1 =? u) && (vf1 <=? s)) eqn:Hc.
    + destruct best as [b|]; [destruct (slot_lt b (u1, vf1, k1))|]; discriminate.
    + split; [assumption|]. intros vf' k' [E|Hin] Hs; [|eauto]. inversion E; subst.
      rewrite N.eqb_refl in Hc. cbn in Hc. apply N.leb_gt in Hc. lia.
Qed.

Definition Ainv (o : obj) : Prop :=
  forall u vf k, In (u, vf, k) (o_act o) ->
    exists x, In (k, x) (o_all o) /\ k_us x = u /\ k_vf x = vf /\ k_st x = Valid.
Definition Binv (o : obj) : Prop :=
  forall k x, In (k, x) (o_all o) -> k_st x = Valid -> exists k', In (k_us x, k_vf x, k') (o_act o).

(* the declarative reading of "the newest non-revoked key whose validity has started" *)
Definition newest_valid (o : obj) (u s : N) (r : option N) : Prop :=
  match r with
  | Some k => exists x, In (k, x) (o_all o) /\ k_us x = u /\ k_st x = Valid /\ k_vf x <= s /\
      forall k' x', In (k', x') (o_all o) -> k_us x' = u -> k_st x' = Valid -> k_vf x' <= s ->
                    k_vf x' <= k_vf x
  | None => forall k' x', In (k', x') (o_all o) -> k_us x' = u -> k_st x' = Valid -> k_vf x' <= s -> False
  end.

Lemma signer_spec : forall o u s, Ainv o -> Binv o -> newest_valid o u s (signer o u s).
Proof.
  intros o u s HA HB. unfold signer, newest_valid.
  destruct (signer_from None u s (o_act o)) as [[[u' vf] k]|] eqn:Hs.
  - apply signer_from_some in Hs. destruct Hs as [[E|[Hin [-> Hle]]] [_ Hmax]]; [discriminate|].
    destruct (HA _ _ _ Hin) as [x [Hx [Hu [Hv Hst]]]]. exists x. subst vf.
    repeat split; auto. intros k' x' Hx' Hu' Hst' Hle'.
    destruct (HB _ _ Hx' Hst') as [k'' Hk]. rewrite Hu' in Hk. eapply Hmax; eauto.
  - apply signer_from_none in Hs. destruct Hs as [_ Hn]. intros k' x' Hx' Hu' Hst' Hle'.
    destruct (HB _ _ Hx' Hst') as [k'' Hk]. rewrite Hu' in Hk. eapply Hn; eauto.
Qed.

Lemma In_act_rem : forall fx s a sl, In sl (act_rem fx s a) -> In sl a /\ same_slot fx s sl = false.
Proof.
  intros fx s a sl H. unfold act_rem in H. apply filter_In in H. destruct H as [H1 H2].
  split; [assumption|]. now apply negb_true_iff in H2.
Qed.

Lemma In_act_ins : forall fx s a sl, In sl (act_ins fx s a) -> sl = s \/ In sl a.
Proof. intros fx s a sl [H|H]; [auto|]. apply In_act_rem in H. tauto. Qed.

(* an occupied (usage, second) slot stays occupied when something is inserted *)
Lemma act_ins_occupied : forall fx u vf k a u1 vf1 k1,
  In (u1, vf1, k1) a -> exists k', In (u1, vf1, k') (act_ins fx (u, vf, k) a).
Proof.
  intros fx u vf k a u1 vf1 k1 Hin.
  destruct (same_slot fx (u, vf, k) (u1, vf1, k1)) eqn:Hs.
  - cbn in Hs. apply andb_true_iff in Hs. destruct Hs as [Hs _]. apply andb_true_iff in Hs.
    destruct Hs as [H1 H2]. apply N.eqb_eq in H1. apply N.eqb_eq in H2. subst. exists k. now left.
  - exists k1. right. unfold act_rem. apply filter_In. split; [assumption|]. now rewrite Hs.
Qed.

Lemma same_slot_fields : forall fx u vf k u1 vf1 k1,
  same_slot fx (u, vf, k) (u1, vf1, k1) = false -> k1 = k -> u1 = u -> vf1 = vf -> False.
Proof.
  intros fx u vf k u1 vf1 k1 H -> -> ->. cbn in H. rewrite !N.eqb_refl in H. destruct fx; discriminate.
Qed.

Lemma new_active_wf : forall fx o u vf kid c,
  uniq (o_all o) -> find kid (o_all o) = None -> Ainv o -> Binv o ->
  Ainv (new_active fx o u vf kid c) /\ Binv (new_active fx o u vf kid c).
Proof.
  intros fx o u vf kid c Hu Hf HA HB. split.
  - intros u1 vf1 k1 Hin. cbn [new_active o_act o_all] in *. apply In_act_ins in Hin.
    destruct Hin as [E|Hin].
    + inversion E; subst. eexists. split; [apply In_ins; left; split; reflexivity|]. cbn. auto.
    + destruct (HA _ _ _ Hin) as [x [Hx Hr]]. exists x. split; [|assumption].
      apply In_ins. right. split; [|assumption]. intros ->. eapply find_none_In; eauto.
  - intros k x Hin Hst. cbn [new_active o_act o_all] in *. apply In_ins in Hin.
    destruct Hin as [[-> ->]|[Hne Hin]].
    + cbn. exists kid. now left.
    + destruct (HB _ _ Hin Hst) as [k' Hk']. eapply act_ins_occupied; eauto.
Qed.

Lemma assert_wf : forall fx o u t kid c,
  uniq (o_all o) -> (signer o u (secs_of t) = None -> find kid (o_all o) = None) -> Ainv o -> Binv o ->
  Ainv (assert_active fx o u t kid c) /\ Binv (assert_active fx o u t kid c).
Proof.
  intros fx o u t kid c Hu Hf HA HB. unfold assert_active.
  destruct (signer o u (secs_of t)); [split; assumption|]. apply new_active_wf; auto.
Qed.

Lemma load_fold : forall fx e o,
  let o' := fold_left (load1 fx) e o in
  (forall sl, In sl (o_act o') ->
     In sl (o_act o) \/ exists k x, sl = (k_us x, k_vf x, k) /\ In (k, x) e /\ k_st x = Valid) /\
  (forall u vf k, In (u, vf, k) (o_act o) -> exists k', In (u, vf, k') (o_act o')) /\
  (forall k x, In (k, x) e -> k_st x = Valid -> exists k', In (k_us x, k_vf x, k') (o_act o')).
Proof.
  intros fx. induction e as [|[k0 x0] t IH]; cbn [fold_left]; intros o.
  - cbn. repeat split; eauto. intros ? ? [].
  - specialize (IH (load1 fx o (k0, x0))). cbn zeta in IH. destruct IH as [I1 [I2 I3]]. cbn zeta.
    assert (Hocc : forall u vf k, In (u, vf, k) (o_act o) ->
              exists k', In (u, vf, k') (o_act (load1 fx o (k0, x0)))).
    { intros u vf k Hin. cbn [load1 o_act]. destruct (is_valid (k_st x0)); [|eauto].
      eapply act_ins_occupied; eauto. }
    split; [|split].
    + intros sl Hin. apply I1 in Hin. destruct Hin as [Hin|[k [x [E [Hx Hv]]]]].
      * cbn [load1 o_act] in Hin. destruct (is_valid (k_st x0)) eqn:Hv; [|auto].
        apply In_act_ins in Hin. destruct Hin as [->|Hin]; [|auto].
        right. exists k0, x0. split; [reflexivity|]. split; [now left|].
        destruct (k_st x0); try discriminate; reflexivity.
      * right. exists k, x. split; [assumption|]. split; [now right|assumption].
    + intros u vf k Hin. destruct (Hocc _ _ _ Hin) as [k' Hk']. eauto.
    + intros k x [E|Hin] Hv; [|eauto]. inversion E; subst.
      apply (I2 (k_us x) (k_vf x) k). cbn [load1 o_act]. rewrite Hv. cbn. now left.
Qed.

Lemma load_wf : forall fx e, uniq e -> Ainv (load fx e) /\ Binv (load fx e).
Proof.
  intros fx e Hu. destruct (load_fold fx e obj0) as [I1 [_ I3]]. cbn zeta in *. split.
  - intros u vf k Hin. cbn [load o_act o_all] in *. apply I1 in Hin.
    destruct Hin as [[]|[k' [x [E [Hx Hv]]]]]. inversion E; subst. exists x. auto.
  - intros k x Hin Hv. cbn [load o_act o_all] in *. eauto.
Qed.

Lemma revoke1_wf : forall fx o kid c o',
  revoke1 fx o kid c = (o', true) -> uniq (o_all o) -> Ainv o -> Binv o ->
  Ainv o' /\ (has_sibling (o_all o) kid = false -> Binv o').
Proof.
  intros fx o kid c o' H Hu HA HB. unfold revoke1 in H.
  destruct (find kid (o_all o)) as [x|] eqn:Hf; [|discriminate].
  destruct (norerevoke (k_us x) && is_revoked (k_st x)); [discriminate|].
  inversion H; subst; clear H. split.
  - intros u vf k Hin. cbn [o_act o_all] in *. apply In_act_rem in Hin. destruct Hin as [Hin Hs].
    destruct (HA _ _ _ Hin) as [y [Hy [Hyu [Hyv Hyst]]]]. exists y. split; [|auto].
    apply In_ins. right. split; [|assumption]. intros ->.
    rewrite (uniq_In_find _ _ _ Hu Hy) in Hf. inversion Hf; subst.
    eapply same_slot_fields; eauto.
  - intros Hsib k y Hin Hst. cbn [o_act o_all] in *. apply In_ins in Hin.
    destruct Hin as [[-> ->]|[Hne Hin]]; [discriminate|].
    destruct (HB _ _ Hin Hst) as [k' Hk']. exists k'. unfold act_rem. apply filter_In.
    split; [assumption|]. apply negb_true_iff.
    destruct (same_slot fx (k_us x, k_vf x, kid) (k_us y, k_vf y, k')) eqn:Hs; [|reflexivity].
    exfalso. unfold has_sibling in Hsib. rewrite Hf in Hsib.
    assert (Hex : existsb (fun p : N * key => negb (fst p =? kid) && (k_us (snd p) =? k_us x)
                     && (k_vf (snd p) =? k_vf x) && is_valid (k_st (snd p))) (o_all o) = true).
    { apply existsb_exists. exists (k, y). split; [assumption|]. cbn [fst snd].
      cbn in Hs. apply andb_true_iff in Hs. destruct Hs as [Hs _]. apply andb_true_iff in Hs.
      destruct Hs as [H1 H2]. apply N.eqb_eq in H1. apply N.eqb_eq in H2.
      rewrite <- H1, <- H2, !N.eqb_refl, Hst. apply N.eqb_neq in Hne. rewrite Hne. reflexivity. }
    congruence.
Qed.

(* ------------------------------------------------------------------ lifted over histories *)
Definition wf_rep (x : rep) : Prop := Urep x /\ Ainv (r_obj x) /\ Binv (r_obj x).
Definition wf_cl (cl : cluster) : Prop := forall r, wf_rep (getr cl r).

Lemma wf_rep0 : wf_rep rep0.
Proof. split; [apply Urep0|]. split; [intros ? ? ? []|intros ? ? []]. Qed.

Lemma wf_repeat : forall n, wf_cl (repeat rep0 n).
Proof.
  intros n r. unfold getr. destruct (nth_in_or_default (N.to_nat r) (repeat rep0 n) rep0) as [H|H].
  - apply repeat_spec in H. rewrite H. apply wf_rep0.
  - rewrite H. apply wf_rep0.
Qed.

Definition fresh_rot (us : list N) (all : stored) (news : list (N * N)) : Prop :=
  NoDup (map (rot_kid news) us) /\ forall u, In u us -> find (rot_kid news u) all = None.

(* new key ids are fresh (they are random 96-bit values in the code); a revoke does not hit a
   key that shares (usage, second) with another valid key *)
Definition good_op (cl : cluster) (o : op) : Prop :=
  match o with
  | OAssert r u t _ kid =>
      signer (r_obj (getr cl r)) u (secs_of t) = None -> find kid (o_all (r_obj (getr cl r))) = None
  | ORotate r _ _ news => fresh_rot (o_pres (r_obj (getr cl r))) (o_all (r_obj (getr cl r))) news
  | ORevoke r kids c => sibling_event (o_all (r_obj (getr cl r))) kids c = false
  | _ => True
  end.

Lemma rotate_wf : forall fx t c news us o,
  uniq (o_all o) -> fresh_rot us (o_all o) news -> Ainv o -> Binv o ->
  let o' := fold_left (fun acc u => new_active fx acc u (secs_of t) (rot_kid news u) c) us o in
  Ainv o' /\ Binv o'.
Proof.
  intros fx t c news. induction us as [|u us IH]; cbn [fold_left]; intros o Hu [Hnd Hfr] HA HB; [auto|].
  cbn [map] in Hnd. inversion Hnd as [|? ? Hni Hnd']; subst.
  destruct (new_active_wf fx o u (secs_of t) (rot_kid news u) c Hu (Hfr u (or_introl eq_refl)) HA HB) as [HA' HB'].
  apply IH; auto.
  - rewrite all_new_active. now apply uniq_ins.
  - split; [assumption|]. intros u2 Hu2. rewrite all_new_active, find_ins_other; [apply Hfr; now right|].
    intros E. apply Hni. rewrite <- E. now apply in_map.
Qed.

Lemma revoke_all_wf : forall fx c kids o o',
  revoke_all fx o kids c = Some o' -> sibling_event (o_all o) kids c = false ->
  uniq (o_all o) -> Ainv o -> Binv o -> Ainv o' /\ Binv o'.
Proof.
  intros fx c. induction kids as [|kid t IH]; cbn [revoke_all sibling_event]; intros o o' H Hs Hu HA HB.
  - inversion H; subst. auto.
  - destruct (revoke1 fx o kid c) as [o1 ok] eqn:Hr. destruct ok; [|discriminate].
    apply orb_false_iff in Hs. destruct Hs as [Hs1 Hs2].
    destruct (revoke1_wf _ _ _ _ _ Hr Hu HA HB) as [HA1 HB1]. specialize (HB1 Hs1).
    apply revoke1_all in Hr. destruct Hr as [_ [[Hf _]|[_ [x [Hfx Hall]]]]]; [discriminate|].
    rewrite Hfx, <- Hall in Hs2.
    apply (IH o1 o'); auto. rewrite Hall. now apply uniq_ins.
Qed.

Lemma step_wf : forall fx cl o, wf_cl cl -> good_op cl o -> wf_cl (fst (step fx cl o)).
Proof.
  intros fx cl o HW Hg r0.
  assert (HU : Ucl cl) by (intros r; apply (HW r)).
  pose proof (step_U fx cl o HU r0) as HU'.
  split; [exact HU'|]. clear HU'.
  assert (Hl : forall e, uniq e -> Ainv (load fx e) /\ Binv (load fx e)) by (intros; now apply load_wf).
  destruct o; cbn [step fst]; cbn [good_op] in Hg;
    try (destruct (revoke_all fx (r_obj (getr cl r)) kids c) as [o'|] eqn:Hrv; cbn [fst]);
    try apply (HW r0);
    apply (getr_setr (fun x => Ainv (r_obj x) /\ Binv (r_obj x))); try apply (HW r0); intros _;
    cbn [r_obj].
  - apply assert_wf; auto; try apply (HW r); try apply (HU r).
  - unfold rotate. rewrite <- rotate_fold. apply rotate_wf; auto; try apply (HW r); try apply (HU r).
  - eapply revoke_all_wf; eauto; try apply (HW r); try apply (HU r).
  - apply Hl, uniq_merge, (HU r).
  - apply Hl, (HU r).
  - apply Hl. destruct flip; unfold repl_merge; apply uniq_trim, uniq_merge; [apply (HU src)|apply (HU dst)].
  - apply Hl, uniq_retain, (HU r).
Qed.

Fixpoint good_hist (fx : bool) (cl : cluster) (ops : list op) : Prop :=
  match ops with
  | [] => True
  | o :: t => good_op cl o /\ good_hist fx (fst (step fx cl o)) t
  end.

Lemma run_wf : forall fx ops cl, wf_cl cl -> good_hist fx cl ops -> wf_cl (run fx cl ops).
Proof.
  intros fx. induction ops as [|o t IH]; cbn [run good_hist]; intros cl HW Hg; [assumption|].
  destruct Hg as [Hg Ht]. apply IH; [now apply step_wf|assumption].
Qed.

Lemma sign_signer : forall o u t k, sign o u t = SKid k -> signer o u (secs_of t) = Some k.
Proof.
  intros o u t k H. unfold sign in H. destruct (negb (mem u (o_pres o))); [discriminate|].
  destruct (signer o u (secs_of t)); inversion H; reflexivity.
Qed.

Lemma sign_noactive : forall o u t, sign o u t = SNoActive -> signer o u (secs_of t) = None.
Proof.
  intros o u t H. unfold sign in H. destruct (negb (mem u (o_pres o))); [discriminate|].
  destruct (signer o u (secs_of t)); [discriminate|reflexivity].
Qed.

(* freshness alone (the environment assumption), without the no-sibling clause *)
Definition fresh_op (cl : cluster) (o : op) : Prop :=
  match o with
  | ORevoke _ _ _ => True
  | _ => good_op cl o
  end.
Fixpoint fresh_hist (fx : bool) (cl : cluster) (ops : list op) : Prop :=
  match ops with
  | [] => True
  | o :: t => fresh_op cl o /\ fresh_hist fx (fst (step fx cl o)) t
  end.

Lemma rotate_keeps : forall fx o t c news k x,
  (forall u, rot_kid news u <> k) ->
  (In (k, x) (o_all (rotate fx o t c news)) <-> In (k, x) (o_all o)).
Proof.
  intros fx o t c news k x Hne. unfold rotate. rewrite <- rotate_fold.
  destruct (rotate_all fx t c news (o_pres o) o) as [_ [Hi Hk]]. split.
  - intros H. apply Hi in H. destruct H as [H|[_ [u [_ E]]]]; [assumption|]. exfalso. now apply (Hne u).
  - intros H. apply Hk; [intros; apply Hne|assumption].
Qed.

(* the scripted counterexample of the unfixed tree: es256 key 1 @0 s, keys 2 and 3 @5 s,
   revoke 2: key 3 is valid, newest, started, yet key 1 signs at 6 s *)
Definition cex_ops : list op :=
  [OAssert 0 0 0 (1, 1) 1; ORotate 0 5000 (2, 1) [(0, 2)]; ORotate 0 5400 (3, 1) [(0, 3)];
   ORevoke 0 [2] (4, 1)].

Lemma cex_fresh : fresh_hist false [rep0] cex_ops.
Proof.
  cbn [fresh_hist cex_ops fresh_op good_op]. repeat split; try reflexivity;
    try (intros _; reflexivity); try (constructor; [intros []|constructor]);
    intros u [<-|[]]; reflexivity.
Qed.

Lemma cex_not_newest :
  ~ newest_valid (r_obj (getr (run false [rep0] cex_ops) 0)) 0 6
      (signer (r_obj (getr (run false [rep0] cex_ops) 0)) 0 6).
Proof.
  assert (E : signer (r_obj (getr (run false [rep0] cex_ops) 0)) 0 6 = Some 1) by (vm_compute; reflexivity).
  rewrite E. cbn [newest_valid]. intros [x [Hx [_ [_ [_ Hmax]]]]].
  assert (Hall : o_all (r_obj (getr (run false [rep0] cex_ops) 0)) =
     [(1, mkkey 0 0 Valid (1, 1)); (2, mkkey 0 5 Revoked (4, 1)); (3, mkkey 0 5 Valid (3, 1))])
    by (vm_compute; reflexivity).
  rewrite Hall in Hx, Hmax.
  assert (Hx1 : k_vf x = 0).
  { destruct Hx as [Hx|[Hx|[Hx|[]]]]; inversion Hx; subst; reflexivity. }
  specialize (Hmax 3 (mkkey 0 5 Valid (3, 1))). cbn in Hmax. rewrite Hx1 in Hmax.
  assert (5 <= 0) by (apply Hmax; auto; lia). lia.
Qed.

(* ------------------------------------------------------------------ the fixed tree (fx = true):
   the active map holds EVERY valid key under (usage, second, kid) *)
Definition BinvX (o : obj) : Prop :=
  forall k x, In (k, x) (o_all o) -> k_st x = Valid -> In (k_us x, k_vf x, k) (o_act o).

Lemma BinvX_Binv : forall o, BinvX o -> Binv o.
Proof. intros o H k x Hin Hv. exists k. now apply H. Qed.

Lemma act_ins_true_keeps : forall s a sl, In sl a -> In sl (act_ins true s a).
Proof.
  intros [[u vf] k] a [[u1 vf1] k1] Hin.
  destruct (same_slot true (u, vf, k) (u1, vf1, k1)) eqn:Hs.
  - cbn in Hs. apply andb_true_iff in Hs. destruct Hs as [Hs H3]. apply andb_true_iff in Hs.
    destruct Hs as [H1 H2]. apply N.eqb_eq in H1. apply N.eqb_eq in H2. apply N.eqb_eq in H3. subst. now left.
  - right. unfold act_rem. apply filter_In. split; [assumption|]. now rewrite Hs.
Qed.

Lemma new_active_wfX : forall o u vf kid c,
  uniq (o_all o) -> find kid (o_all o) = None -> Ainv o -> BinvX o ->
  Ainv (new_active true o u vf kid c) /\ BinvX (new_active true o u vf kid c).
Proof.
  intros o u vf kid c Hu Hf HA HB. split.
  - apply (new_active_wf true o u vf kid c Hu Hf HA (BinvX_Binv _ HB)).
  - intros k x Hin Hst. cbn [new_active o_act o_all] in *. apply In_ins in Hin.
    destruct Hin as [[-> ->]|[Hne Hin]]; [cbn; now left|].
    apply act_ins_true_keeps. now apply HB.
Qed.

Lemma assert_wfX : forall o u t kid c,
  uniq (o_all o) -> (signer o u (secs_of t) = None -> find kid (o_all o) = None) -> Ainv o -> BinvX o ->
  Ainv (assert_active true o u t kid c) /\ BinvX (assert_active true o u t kid c).
Proof.
  intros o u t kid c Hu Hf HA HB. unfold assert_active.
  destruct (signer o u (secs_of t)); [split; assumption|]. apply new_active_wfX; auto.
Qed.

Lemma rotate_wfX : forall t c news us o,
  uniq (o_all o) -> fresh_rot us (o_all o) news -> Ainv o -> BinvX o ->
  let o' := fold_left (fun acc u => new_active true acc u (secs_of t) (rot_kid news u) c) us o in
  Ainv o' /\ BinvX o'.
Proof.
  intros t c news. induction us as [|u us IH]; cbn [fold_left]; intros o Hu [Hnd Hfr] HA HB; [auto|].
  cbn [map] in Hnd. inversion Hnd as [|? ? Hni Hnd']; subst.
  destruct (new_active_wfX o u (secs_of t) (rot_kid news u) c Hu (Hfr u (or_introl eq_refl)) HA HB) as [HA' HB'].
  apply IH; auto.
  - rewrite all_new_active. now apply uniq_ins.
  - split; [assumption|]. intros u2 Hu2. rewrite all_new_active, find_ins_other; [apply Hfr; now right|].
    intros E. apply Hni. rewrite <- E. now apply in_map.
Qed.

Lemma revoke1_wfX : forall o kid c o',
  revoke1 true o kid c = (o', true) -> uniq (o_all o) -> Ainv o -> BinvX o -> Ainv o' /\ BinvX o'.
Proof.
  intros o kid c o' H Hu HA HB.
  split; [exact (proj1 (revoke1_wf true o kid c o' H Hu HA (BinvX_Binv _ HB)))|].
  unfold revoke1 in H. destruct (find kid (o_all o)) as [x|] eqn:Hf; [|discriminate].
  destruct (norerevoke (k_us x) && is_revoked (k_st x)); [discriminate|].
  inversion H; subst; clear H.
  intros k y Hin Hst. cbn [o_act o_all] in *. apply In_ins in Hin.
  destruct Hin as [[-> ->]|[Hne Hin]]; [discriminate|].
  unfold act_rem. apply filter_In. split; [now apply HB|]. apply negb_true_iff. cbn.
  apply N.eqb_neq in Hne. rewrite N.eqb_sym in Hne. rewrite Hne. now rewrite andb_false_r.
Qed.

Lemma revoke_all_wfX : forall c kids o o',
  revoke_all true o kids c = Some o' -> uniq (o_all o) -> Ainv o -> BinvX o -> Ainv o' /\ BinvX o'.
Proof.
  intros c. induction kids as [|kid t IH]; cbn [revoke_all]; intros o o' H Hu HA HB.
  - inversion H; subst. auto.
  - destruct (revoke1 true o kid c) as [o1 ok] eqn:Hr. destruct ok; [|discriminate].
    destruct (revoke1_wfX _ _ _ _ Hr Hu HA HB) as [HA1 HB1].
    apply revoke1_all in Hr. destruct Hr as [_ [[Hf _]|[_ [x [Hfx Hall]]]]]; [discriminate|].
    apply (IH o1 o'); auto. rewrite Hall. now apply uniq_ins.
Qed.

Lemma load_foldX : forall e o,
  let o' := fold_left (load1 true) e o in
  (forall sl, In sl (o_act o) -> In sl (o_act o')) /\
  (forall k x, In (k, x) e -> k_st x = Valid -> In (k_us x, k_vf x, k) (o_act o')).
Proof.
  induction e as [|[k0 x0] t IH]; cbn [fold_left]; intros o.
  - cbn. split; [auto|intros ? ? []].
  - specialize (IH (load1 true o (k0, x0))). cbn zeta in IH. destruct IH as [I1 I2]. cbn zeta. split.
    + intros sl Hin. apply I1. cbn [load1 o_act]. destruct (is_valid (k_st x0)); [|assumption].
      now apply act_ins_true_keeps.
    + intros k x [E|Hin] Hv; [|eauto]. inversion E; subst. apply I1. cbn [load1 o_act]. rewrite Hv. cbn. now left.
Qed.

Lemma load_wfX : forall e, uniq e -> Ainv (load true e) /\ BinvX (load true e).
Proof.
  intros e Hu. split; [exact (proj1 (load_wf true e Hu))|].
  intros k x Hin Hv. cbn [load o_act o_all] in *. now apply (proj2 (load_foldX e obj0)).
Qed.

Definition wf_repX (x : rep) : Prop := Urep x /\ Ainv (r_obj x) /\ BinvX (r_obj x).
Definition wf_clX (cl : cluster) : Prop := forall r, wf_repX (getr cl r).

Lemma wf_repX0 : wf_repX rep0.
Proof. split; [apply Urep0|]. split; [intros ? ? ? []|intros ? ? []]. Qed.

Lemma wf_repeatX : forall n, wf_clX (repeat rep0 n).
Proof.
  intros n r. unfold getr. destruct (nth_in_or_default (N.to_nat r) (repeat rep0 n) rep0) as [H|H].
  - apply repeat_spec in H. rewrite H. apply wf_repX0.
  - rewrite H. apply wf_repX0.
Qed.

Lemma step_wfX : forall cl o, wf_clX cl -> fresh_op cl o -> wf_clX (fst (step true cl o)).
Proof.
  intros cl o HW Hg r0.
  assert (HU : Ucl cl) by (intros r; apply (HW r)).
  pose proof (step_U true cl o HU r0) as HU'.
  split; [exact HU'|]. clear HU'.
  assert (Hl : forall e, uniq e -> Ainv (load true e) /\ BinvX (load true e)) by (intros; now apply load_wfX).
  destruct o; cbn [step fst]; cbn [fresh_op good_op] in Hg;
    try (destruct (revoke_all true (r_obj (getr cl r)) kids c) as [o'|] eqn:Hrv; cbn [fst]);
    try apply (HW r0);
    apply (getr_setr (fun x => Ainv (r_obj x) /\ BinvX (r_obj x))); try apply (HW r0); intros _;
    cbn [r_obj].
  - apply assert_wfX; auto; try apply (HW r); try apply (HU r).
  - unfold rotate. rewrite <- rotate_fold. apply rotate_wfX; auto; try apply (HW r); try apply (HU r).
  - eapply revoke_all_wfX; eauto; try apply (HW r); try apply (HU r).
  - apply Hl, uniq_merge, (HU r).
  - apply Hl, (HU r).
  - apply Hl. destruct flip; unfold repl_merge; apply uniq_trim, uniq_merge; [apply (HU src)|apply (HU dst)].
  - apply Hl, uniq_retain, (HU r).
Qed.

Lemma run_wfX : forall ops cl, wf_clX cl -> fresh_hist true cl ops -> wf_clX (run true cl ops).
Proof.
  induction ops as [|o t IH]; cbn [run fresh_hist]; intros cl HW Hg; [assumption|].
  destruct Hg as [Hg Ht]. apply IH; [now apply step_wfX|assumption].
Qed.
