From Coq Require Import List NArith Bool Lia.
Import ListNotations.
Require Import KV.C34.Model.
Open Scope N_scope.
