(* KV.C34.Props — property theorems only.
   Vocabulary (KV.C34.Model / Proofs): a cluster is a list of replicas of ONE key object; a replica
   is (r_ent = the KeyInternalData value set stored in its entry, r_obj = the live key object the
   plugin stages on and sign/verify use). `run fx cl ops` executes a history of assert / rotate /
   revoke / sign / verify / commit (store + db + reload) / abort (reload) / replicate
   (repl_merge_valueset + reload) / retain ops. `fx` selects the tree: true = /repo as it is (with
   commit 2dbb6f7), false = the tree before that fix; every theorem below holds for BOTH unless it
   names one. *)
From Coq Require Import List NArith Bool.
Import ListNotations.
Require Import KV.C34.Model KV.C34.Proofs.
Open Scope N_scope.

(* REVOKED KEYS NEVER VERIFY. If key k is revoked (or absent) both in the stored entry and in the
   live object of replica r0, then after ANY history - at any times, with reloads from storage,
   aborted transactions, replication in either direction with any trim id, re-revocations,
   rotations - no token carrying kid k, intact or tampered, of any usage, is accepted at r0.
   Premises (safe_hist): newly generated key ids are not k (they are random in the code), and
   no replica that still holds k un-revoked is merged into r0 (a source older than r0's trim
   horizon; excluded in kanidm by the replication window / RUV check, see
   C34_witness_stale_source_needed). *)
Theorem C34_revoked_never : forall fx cl ops r0 k,
  Ucl cl -> deadR (getr cl r0) k -> safe_hist fx cl r0 k ops ->
  forall u good, verify (r_obj (getr (run fx cl ops) r0)) u k good <> VOk.
Proof.
  intros fx cl ops r0 k HU Hd Hs u good. apply dead_verify.
  exact (proj2 (run_dead fx ops cl r0 k HU Hd Hs)).
Qed.

(* ... and the revoked state itself persists (entry and live object). *)
Theorem C34_revoked_stays_revoked : forall fx cl ops r0 k,
  Ucl cl -> deadR (getr cl r0) k -> safe_hist fx cl r0 k ops -> deadR (getr (run fx cl ops) r0) k.
Proof. exact (fun fx cl ops r0 k => run_dead fx ops cl r0 k). Qed.

(* A successful revoke takes effect at once on the live object: every key named in it is present
   and revoked, so nothing signed by it verifies any more ... *)
Theorem C34_revoke_immediate : forall fx cl r kids c cl' k u good,
  Ucl cl -> step fx cl (ORevoke r kids c) = (cl', OutRev true) -> In k kids ->
  verify (r_obj (getr cl' r)) u k good <> VOk.
Proof.
  intros fx cl r kids c cl' k u good HU Hs Hk. apply dead_verify.
  exact (proj1 (revoke_dead_now fx cl r kids c cl' k HU Hs Hk)).
Qed.

(* ... and the following commit (store in the entry, db round trip, reload) makes it durable:
   from then on C34_revoked_never applies. *)
Theorem C34_revoke_commit_durable : forall fx cl r kids c cl' k,
  Ucl cl -> step fx cl (ORevoke r kids c) = (cl', OutRev true) -> In k kids ->
  deadR (getr (fst (step fx cl' (OCommit r))) r) k.
Proof.
  intros fx cl r kids c cl' k HU Hs Hk.
  assert (HU' : Ucl cl') by (change cl' with (fst (cl', OutRev true)); rewrite <- Hs; now apply step_U).
  destruct (revoke_dead_now fx cl r kids c cl' k HU Hs Hk) as [Hd Hx].
  now apply commit_dead.
Qed.

(* Replication carries a revocation: if the source's entry holds k revoked, then after the merge
   (whichever side plays `self`, whatever the trim id) k is revoked-or-absent on the receiver,
   whatever the receiver held before (even k valid). *)
Theorem C34_replication_spreads_revocation : forall fx cl src dst flip t k,
  Ucl cl -> dead (r_ent (getr cl src)) k -> (exists x, In (k, x) (r_ent (getr cl src))) ->
  deadR (getr (fst (step fx cl (ORepl src dst flip t))) dst) k.
Proof. exact repl_spreads. Qed.

(* ROTATION NEVER INVALIDATES OLDER, NON-REVOKED KEYS. A rotation changes no existing binding of
   the key map (only adds the new keys) ... *)
Theorem C34_rotation_keeps_old : forall fx o t c news k x,
  (forall u, rot_kid news u <> k) ->
  (In (k, x) (o_all (rotate fx o t c news)) <-> In (k, x) (o_all o)).
Proof. exact rotate_keeps. Qed.

(* ... and over whole histories: a key of usage u that is present and not revoked at r0 (entry and
   live object) stays so, and its intact tokens keep verifying, through any number of rotations,
   asserts, commits, aborts, retains, revocations of OTHER keys and replication from sources that
   do not hold it revoked. *)
Theorem C34_unrevoked_keeps_verifying : forall fx cl ops r0 u k,
  Ucl cl -> aliveR u (getr cl r0) k -> keep_hist fx cl r0 u k ops ->
  aliveR u (getr (run fx cl ops) r0) k /\
  (mem u (o_pres (r_obj (getr (run fx cl ops) r0))) = true ->
   verify (r_obj (getr (run fx cl ops) r0)) u k true = VOk).
Proof.
  intros fx cl ops r0 u k HU Ha Hk.
  pose proof (run_alive fx ops cl r0 u k HU Ha Hk) as H. split; [exact H|].
  intros Hm. apply alive_verify; [apply (run_U fx ops cl HU r0)|apply H|exact Hm].
Qed.

(* NEW SIGNATURES USE THE NEWEST NON-REVOKED KEY WHOSE VALIDITY HAS STARTED.
   `newest_valid o u s r`: r = Some k -> k is a Valid key of usage u with valid_from <= s and no
   Valid key of usage u with valid_from <= s is newer; r = None -> there is no such key at all.
   (1) Unconditionally after every (re)load from storage, for any stored key set: *)
Theorem C34_signer_newest_valid_after_reload : forall fx e u s,
  uniq e -> newest_valid (load fx e) u s (signer (load fx e) u s).
Proof.
  intros fx e u s Hu. destruct (load_wf fx e Hu) as [HA HB]. now apply signer_spec.
Qed.

(* (2) The full statement: in EVERY state reachable from n empty replicas by ANY history whose
   only restriction is that newly generated key ids are fresh (random 96-bit ids in the code),
   the signer chosen for usage u at second s is the newest valid started key, and there is no
   signer only if no such key exists. *)
Definition C34_full_statement (fx : bool) : Prop :=
  forall n ops, fresh_hist fx (repeat rep0 n) ops ->
  forall r u s, newest_valid (r_obj (getr (run fx (repeat rep0 n) ops) r)) u s
                             (signer (r_obj (getr (run fx (repeat rep0 n) ops) r)) u s).

(* It HOLDS for the tree as it is (active map keyed by (valid_from, kid), commit 2dbb6f7). *)
Theorem C34_signer_newest_valid : C34_full_statement true.
Proof.
  intros n ops Hf r u s.
  destruct (run_wfX ops (repeat rep0 n) (wf_repeatX n) Hf r) as [_ [HA HB]].
  apply signer_spec; [exact HA|now apply BinvX_Binv].
Qed.

(* The same from any well-formed cluster, and phrased on the observable results of `sign`. *)
Theorem C34_signer_newest_valid_results : forall cl ops,
  wf_clX cl -> fresh_hist true cl ops ->
  forall r u t,
    let o := r_obj (getr (run true cl ops) r) in
    newest_valid o u (secs_of t) (signer o u (secs_of t)) /\
    (forall k, sign o u t = SKid k -> newest_valid o u (secs_of t) (Some k)) /\
    (sign o u t = SNoActive -> newest_valid o u (secs_of t) None).
Proof.
  intros cl ops HW Hg r u t o.
  destruct (run_wfX ops cl HW Hg r) as [_ [HA HB]].
  pose proof (signer_spec o u (secs_of t) HA (BinvX_Binv _ HB)) as Hs. split; [exact Hs|]. split.
  - intros k Hk. apply sign_signer in Hk. fold o in Hk. now rewrite Hk in Hs.
  - intros Hk. apply sign_noactive in Hk. fold o in Hk. now rewrite Hk in Hs.
Qed.

(* FOR THE RECORD (tree before 2dbb6f7, fx = false). The full statement was FALSE: revoking one of
   two keys that became valid in the same second silenced the other one (confirmed on the real
   code of that tree with harness `c34 --probe`; reversing the fix makes ./vcheck C34 fail). *)
Theorem C34_prefix_refuted : ~ C34_full_statement false.
Proof. intros H. apply cex_not_newest. apply (H 1%nat cex_ops). exact cex_fresh. Qed.

(* It held on that tree (and holds on this one) for every history in which no revoke hits a key
   that shares (usage, valid_from second) with another valid key. *)
Theorem C34_prefix_signer_partial : forall fx cl ops,
  wf_cl cl -> good_hist fx cl ops ->
  forall r u t,
    let o := r_obj (getr (run fx cl ops) r) in
    newest_valid o u (secs_of t) (signer o u (secs_of t)) /\
    (forall k, sign o u t = SKid k -> newest_valid o u (secs_of t) (Some k)) /\
    (sign o u t = SNoActive -> newest_valid o u (secs_of t) None).
Proof.
  intros fx cl ops HW Hg r u t o.
  destruct (run_wf fx ops cl HW Hg r) as [_ [HA HB]].
  pose proof (signer_spec o u (secs_of t) HA HB) as Hs. split; [exact Hs|]. split.
  - intros k Hk. apply sign_signer in Hk. fold o in Hk. now rewrite Hk in Hs.
  - intros Hk. apply sign_noactive in Hk. fold o in Hk. now rewrite Hk in Hs.
Qed.

(* The start state of every case (n empty replicas) satisfies the invariants the theorems ask for. *)
Theorem C34_initial_wf : forall n, wf_clX (repeat rep0 n) /\ wf_cl (repeat rep0 n) /\ Ucl (repeat rep0 n).
Proof. intros n. split; [apply wf_repeatX|]. split; [apply wf_repeat|apply Ucl_repeat]. Qed.
