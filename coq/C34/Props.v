From Coq Require Import List NArith Bool.
Import ListNotations.
Require Import KV.C34.Model KV.C34.Proofs.
Open Scope N_scope.
Theorem C34_stub : True. Proof. exact I. Qed.
