(* KV.C34.Witness — non-vacuity: concrete, non-trivial histories meet the hypotheses of the
   implication theorems of Props.v (on the current tree, fx = true); the premise about stale
   replication sources is needed; the pre-fix counterexample. *)
From Coq Require Import List NArith Bool.
Import ListNotations.
Require Import KV.C34.Model KV.C34.Proofs KV.C34.Props.
Open Scope N_scope.

(* a statement about all bindings of one kid in a concrete key map *)
Ltac conc :=
  let x := fresh "x" in let Hin := fresh "Hin" in
  intros x Hin; vm_compute in Hin;
  repeat (destruct Hin as [Hin|Hin]; [inversion Hin; subst; vm_compute; auto|]); try destruct Hin.
(* the new kids of a rotation [(0, a); (3, b)] differ from the watched kid *)
Ltac rot :=
  let u := fresh "u" in let E := fresh "E" in
  intros _ u E; revert E; unfold rot_kid; cbn [find];
  destruct (u =? 0); [discriminate|]; destruct (u =? 3); discriminate.

(* two replicas; es256 key 1 and jwe key 2 created at r0, replicated, key 1 revoked and committed *)
Definition w_pre : list op :=
  [OAssert 0 0 0 (1, 1) 1; OAssert 0 3 0 (2, 1) 2; OCommit 0; ORepl 0 1 false (0, 0);
   ORevoke 0 [1] (3, 1); OAssert 0 0 0 (4, 1) 3; OCommit 0].
Definition w_cl : cluster := run true [rep0; rep0] w_pre.
(* then: rotations in the same second, a re-revocation that is aborted, replication in both roles
   with a trim id that removes the revoked key, a retain, a verify, a sign *)
Definition w_ops : list op :=
  [ORotate 0 5000 (5, 1) [(0, 4); (3, 5)]; ORotate 0 5400 (6, 1) [(0, 6); (3, 7)]; OCommit 0;
   ORevoke 0 [1] (7, 1); OAbort 0; ORepl 0 1 true (0, 0); ORepl 1 0 false (9, 0); ORetain 0 2;
   OVerify 0 0 1 true; OSign 0 0 6000].

Example C34_witness_revoked_never_hyps :
  Ucl w_cl /\ deadR (getr w_cl 0) 1 /\ safe_hist true w_cl 0 1 w_ops /\
  (exists x, In (1, x) (r_ent (getr w_cl 0))) /\          (* non-trivial: the key is there, revoked *)
  verify (r_obj (getr (run true w_cl w_ops) 0)) 0 1 true = VNotAssoc.  (* trimmed at the end *)
Proof.
  split; [apply run_U, (Ucl_repeat 2)|].
  split; [split; conc|].
  split.
  - unfold w_ops.
    split; [rot|]. split; [rot|]. split; [exact I|]. split; [exact I|]. split; [exact I|].
    split; [intros E; discriminate E|]. split; [intros _; conc|].
    split; [exact I|]. split; [exact I|]. split; [exact I|]. exact I.
  - split; [eexists; vm_compute; left; reflexivity|vm_compute; reflexivity].
Qed.

(* the same history seen from key 2 (jwe, never revoked): it keeps verifying *)
Example C34_witness_unrevoked_hyps :
  aliveR 3 (getr w_cl 0) 2 /\ keep_hist true w_cl 0 3 2 w_ops /\
  mem 3 (o_pres (r_obj (getr (run true w_cl w_ops) 0))) = true /\
  verify (r_obj (getr (run true w_cl w_ops) 0)) 3 2 true = VOk.
Proof.
  split; [split; (split; [eexists; vm_compute; right; left; reflexivity|conc])|].
  split; [|split; vm_compute; reflexivity].
  unfold w_ops.
  split; [rot|]. split; [rot|]. split; [exact I|].
  split; [intros _ [E|[]]; discriminate E|]. split; [exact I|].
  split; [intros E; discriminate E|]. split; [intros _; conc|].
  split; [exact I|]. split; [exact I|]. split; [exact I|]. exact I.
Qed.

(* revoke premises: a successful revoke of a real key *)
Example C34_witness_revoke_hyps :
  step true (run true [rep0; rep0] [OAssert 0 0 0 (1, 1) 1; OCommit 0]) (ORevoke 0 [1] (3, 1))
  = (run true [rep0; rep0] [OAssert 0 0 0 (1, 1) 1; OCommit 0; ORevoke 0 [1] (3, 1)], OutRev true).
Proof. vm_compute. reflexivity. Qed.

(* replication premise: the source holds key 1 revoked while the receiver still holds it valid *)
Example C34_witness_spread_hyps :
  dead (r_ent (getr w_cl 0)) 1 /\ (exists x, In (1, x) (r_ent (getr w_cl 0))) /\
  verify (r_obj (getr w_cl 1)) 0 1 true = VOk /\
  verify (r_obj (getr (fst (step true w_cl (ORepl 0 1 true (0, 0)))) 1)) 0 1 true = VRevoked.
Proof.
  split; [conc|]. split; [eexists; vm_compute; left; reflexivity|]. split; vm_compute; reflexivity.
Qed.

(* signer premises: fresh ids only; the history contains the shape that broke the old tree (two
   keys in second 5, one of them revoked) and the right key signs *)
Example C34_witness_signer_hyps :
  fresh_hist true (repeat rep0 1) cex_ops /\
  signer (r_obj (getr (run true (repeat rep0 1) cex_ops) 0)) 0 6 = Some 3.
Proof.
  split; [|vm_compute; reflexivity].
  change (repeat rep0 1) with [rep0].
  cbn [fresh_hist cex_ops fresh_op good_op]. repeat split; try reflexivity;
    try (intros _; reflexivity); try (constructor; [intros []|constructor]);
    intros u [<-|[]]; reflexivity.
Qed.

(* pre-fix partial theorem: a history with same-second rotations and a revoke WITHOUT a valid sibling *)
Definition w_good : list op :=
  [OAssert 0 0 0 (1, 1) 1; OCommit 0; ORotate 0 5000 (2, 1) [(0, 2)]; ORotate 0 5400 (3, 1) [(0, 3)];
   OSign 0 0 6000; ORevoke 0 [1] (4, 1); OAssert 0 0 0 (5, 1) 4; OSign 0 0 400; OCommit 0].
Example C34_witness_prefix_partial_hyps :
  wf_cl [rep0] /\ good_hist false [rep0] w_good /\
  sign (r_obj (getr (run false [rep0] w_good) 0)) 0 6000 = SKid 3 /\
  sign (r_obj (getr (run false [rep0] w_good) 0)) 0 400 = SKid 4.
Proof.
  split; [apply (wf_repeat 1)|]. split; [|split; vm_compute; reflexivity].
  unfold w_good.
  split; [intros _; reflexivity|]. split; [exact I|].
  split; [split; [constructor; [intros []|constructor]|intros u [<-|[]]; reflexivity]|].
  split; [split; [constructor; [intros []|constructor]|intros u [<-|[]]; reflexivity]|].
  split; [exact I|]. split; [vm_compute; reflexivity|].
  split; [intros _; reflexivity|]. split; [exact I|]. split; [exact I|]. exact I.
Qed.

(* The premise of C34_revoked_never about replication sources is NEEDED (and is what the
   replication window guarantees): r0 revokes key 1 and trims it away (trim id past the
   revocation); a replica r1 that never saw the revocation is merged in: key 1 verifies again. *)
Example C34_witness_stale_source_needed :
  let ops := [OAssert 0 0 0 (1, 1) 1; OCommit 0; ORepl 0 1 false (0, 0);
              ORevoke 0 [1] (3, 1); OAssert 0 0 0 (4, 1) 2; OCommit 0;
              ORepl 0 0 false (9, 0);          (* trim at r0 *)
              ORepl 1 0 false (0, 0)] in      (* stale r1 merged into r0 *)
  verify (r_obj (getr (run true [rep0; rep0] ops) 0)) 0 1 true = VOk.
Proof. vm_compute. reflexivity. Qed.

(* the pre-fix counterexample: legal history (fresh ids), old tree signs with key 1 (second 0)
   although key 3 (second 5) is valid; the current tree signs with key 3 *)
Example C34_witness_prefix_refuted :
  fresh_hist false [rep0] cex_ops /\
  signer (r_obj (getr (run false [rep0] cex_ops) 0)) 0 6 = Some 1 /\
  signer (r_obj (getr (run true [rep0] cex_ops) 0)) 0 6 = Some 3.
Proof. split; [exact cex_fresh|split; vm_compute; reflexivity]. Qed.
