(* KV.C34.Model — key objects of the internal key provider
   (server/lib/src/server/keys/internal.rs, valueset/key_internal.rs, plugins/keyobject.rs).
   Executable definitions only.

   Crypto is abstract: a key is its key id (kid : N, numbered in the ORDER of the kid strings, so
   that BTreeMap<KeyId,_> iteration order = ascending N), a token is (usage, kid, intact?).
   The five per-usage structs (JwtEs256 0, JwtHs256 1, JwtRs256 2, JweA128GCM 3, HkdfS256 4) are
   flattened into one record: [o_all] is the union of the five `all` maps (what as_valuesets
   collects into ONE BTreeMap keyed by kid), [o_act] the union of the five `active` maps, keyed
   by (usage, valid_from seconds) exactly as the code keys them by valid_from inside one usage,
   [o_pres] the usages whose Option<..> is Some. *)
From Coq Require Import List NArith Bool.
Import ListNotations.
Open Scope N_scope.

(* true : /repo as it is now, i.e. with commit 2dbb6f7 "fix: revoking a key must not drop a sibling
          key created in the same second" (= fixes/C34.patch): active keyed by (valid_from, kid).
   false: the tree before that commit (active keyed by valid_from alone; revoke removed the whole
          slot). Kept as the `fx = false` variant of every definition for the record. *)
Definition tree_fixed : bool := true.

Definition cid := (N * N)%type.                       (* (ts, server) ; derive(Ord) = lexicographic *)
Definition cid_ltb (a b : cid) : bool :=
  (fst a <? fst b) || ((fst a =? fst b) && (snd a <? snd b)).

Inductive status := Valid | Retained | Revoked.      (* derive(Ord): Valid < Retained < Revoked *)
Definition st_rank (s : status) : N := match s with Valid => 0 | Retained => 1 | Revoked => 2 end.
Definition is_revoked (s : status) : bool := match s with Revoked => true | _ => false end.
Definition is_valid (s : status) : bool := match s with Valid => true | _ => false end.

Record key := mkkey { k_us : N; k_vf : N; k_st : status; k_cid : cid }.
Definition stored := list (N * key).                  (* BTreeMap<KeyId, KeyInternalData>, ascending *)

Fixpoint find {A} (k : N) (l : list (N * A)) : option A :=
  match l with
  | [] => None
  | (k', v) :: t => if k =? k' then Some v else find k t
  end.

(* BTreeMap::insert on an ascending association list: the binding of k (if any) is dropped
   and (k, v) is placed before the first greater key *)
Fixpoint place {A} (k : N) (v : A) (l : list (N * A)) : list (N * A) :=
  match l with
  | [] => [(k, v)]
  | (k', v') :: t => if k <? k' then (k, v) :: l else (k', v') :: place k v t
  end.
Definition ins {A} (k : N) (v : A) (l : list (N * A)) : list (N * A) :=
  place k v (filter (fun p => negb (fst p =? k)) l).

Fixpoint mem (x : N) (l : list N) : bool :=
  match l with [] => false | y :: t => (x =? y) || mem x t end.
Fixpoint add (x : N) (l : list N) : list N :=         (* ascending set insert *)
  match l with
  | [] => [x]
  | y :: t => if x <? y then x :: l else if x =? y then l else y :: add x t
  end.

(* ---------------------------------------------------------------- the live key object *)
Definition slot := (N * N * N)%type.                  (* (usage, valid_from secs, kid of the signer) *)
Record obj := mkobj { o_pres : list N; o_act : list slot; o_all : stored }.
Definition obj0 := mkobj [] [] [].

Definition same_slot (fx : bool) (a b : slot) : bool :=
  let '(u, vf, k) := a in let '(u', vf', k') := b in
  (u =? u') && (vf =? vf') && (if fx then k =? k' else true).
(* BTreeMap insert / remove on the active map; its order is only observable through
   [signer] below, which takes a maximum, so the list is kept unordered *)
Definition act_rem (fx : bool) (s : slot) (a : list slot) : list slot :=
  filter (fun x => negb (same_slot fx s x)) a.
Definition act_ins (fx : bool) (s : slot) (a : list slot) : list slot := s :: act_rem fx s a.

Definition slot_lt (a b : slot) : bool :=             (* by valid_from, then kid *)
  let '(_, vf, k) := a in let '(_, vf', k') := b in (vf <? vf') || ((vf =? vf') && (k <? k')).
(* get_valid_signer: active.range(..=secs).next_back() *)
Fixpoint signer_from (best : option slot) (u secs : N) (a : list slot) : option slot :=
  match a with
  | [] => best
  | s :: t =>
      let '(u', vf, _) := s in
      let best' :=
        if (u' =? u) && (vf <=? secs) then
          match best with None => Some s | Some b => if slot_lt b s then Some s else best end
        else best in
      signer_from best' u secs t
  end.
Definition signer (o : obj) (u secs : N) : option N :=
  match signer_from None u secs (o_act o) with Some (_, _, k) => Some k | None => None end.

Definition secs_of (t_ms : N) : N := t_ms / 1000.     (* Duration::as_secs *)

(* new_active *)
Definition new_active (fx : bool) (o : obj) (u vf kid : N) (c : cid) : obj :=
  mkobj (add u (o_pres o)) (act_ins fx (u, vf, kid) (o_act o)) (ins kid (mkkey u vf Valid c) (o_all o)).

(* jws_*_assert: get_or_insert_with(default) then assert_active *)
Definition assert_active (fx : bool) (o : obj) (u t_ms kid : N) (c : cid) : obj :=
  match signer o u (secs_of t_ms) with
  | None => new_active fx o u (secs_of t_ms) kid c
  | Some _ => mkobj (add u (o_pres o)) (o_act o) (o_all o)
  end.

(* rotate_keys: new_active for every usage that is Some *)
Definition rotate (fx : bool) (o : obj) (t_ms : N) (c : cid) (news : list (N * N)) : obj :=
  fold_left (fun acc u => new_active fx acc u (secs_of t_ms)
                            (match find u news with Some k => k | None => 0 end) c)
            (o_pres o) o.

(* Hs256 and Hkdf refuse to revoke an already revoked key (Ok(false)); the others redo it *)
Definition norerevoke (u : N) : bool := (u =? 1) || (u =? 4).

Definition revoke1 (fx : bool) (o : obj) (kid : N) (c : cid) : obj * bool :=
  match find kid (o_all o) with
  | None => (o, false)
  | Some k =>
      if norerevoke (k_us k) && is_revoked (k_st k) then (o, false)
      else (mkobj (o_pres o) (act_rem fx (k_us k, k_vf k, kid) (o_act o))
                  (ins kid (mkkey (k_us k) (k_vf k) Revoked c) (o_all o)), true)
  end.
(* revoke_keys on a staged duplicate: all or nothing *)
Fixpoint revoke_all (fx : bool) (o : obj) (kids : list N) (c : cid) : option obj :=
  match kids with
  | [] => Some o
  | k :: t => let '(o', ok) := revoke1 fx o k c in if ok then revoke_all fx o' t c else None
  end.

(* load_key_object: the stored map is walked in kid order *)
Definition load1 (fx : bool) (o : obj) (e : N * key) : obj :=
  let '(kid, k) := e in
  mkobj (add (k_us k) (o_pres o))
        (if is_valid (k_st k) then act_ins fx (k_us k, k_vf k, kid) (o_act o) else o_act o)
        (o_all o).
Definition load (fx : bool) (e : stored) : obj :=
  let o := fold_left (load1 fx) e obj0 in mkobj (o_pres o) (o_act o) e.

Inductive sres := SKid (k : N) | SNoActive | SNoUsage | SOther.
Inductive vres := VOk | VInvalid | VRevoked | VNotAssoc | VNoUsage | VOther.

Definition sign (o : obj) (u t_ms : N) : sres :=
  if negb (mem u (o_pres o)) then SNoUsage else
  match signer o u (secs_of t_ms) with Some k => SKid k | None => SNoActive end.

(* jws_verify / jwe_decrypt of a token (usage by its alg, kid from its header, intact or tampered) *)
Definition verify (o : obj) (u kid : N) (good : bool) : vres :=
  if negb (mem u (o_pres o)) then VNoUsage else
  match find kid (o_all o) with
  | None => VNotAssoc
  | Some k =>
      if negb (k_us k =? u) then VNotAssoc
      else if is_revoked (k_st k) then VRevoked
      else if good then VOk else VInvalid
  end.

(* ---------------------------------------------------------------- the stored value set *)
Definition better (vo vs : key) : bool :=
  (st_rank (k_st vs) <? st_rank (k_st vo))
  || ((st_rank (k_st vs) =? st_rank (k_st vo)) && cid_ltb (k_cid vo) (k_cid vs)).
Definition merge1 (acc : stored) (e : N * key) : stored :=
  let '(k, vo) := e in
  match find k acc with
  | Some vs => if better vo vs then ins k vo acc else acc
  | None => ins k vo acc
  end.
(* ValueSetKeyInternal::merge (self = a) *)
Definition merge (a b : stored) : stored := fold_left merge1 b a.
Definition trim (t : cid) (l : stored) : stored :=
  filter (fun e => negb (is_revoked (k_st (snd e)) && cid_ltb (k_cid (snd e)) t)) l.
(* repl_merge_valueset (self = a, older = b) *)
Definition repl_merge (a b : stored) (t : cid) : stored := trim t (merge a b).

(* ---------------------------------------------------------------- replicas *)
Record rep := mkrep { r_ent : stored; r_obj : obj }.   (* entry attribute in the db ; loaded/staged object *)
Definition rep0 := mkrep [] obj0.
Definition cluster := list rep.

Definition getr (cl : cluster) (r : N) : rep := nth (N.to_nat r) cl rep0.
Fixpoint setn {A} (n : nat) (x : A) (l : list A) : list A :=
  match l, n with
  | [], _ => []
  | _ :: t, O => x :: t
  | h :: t, S m => h :: setn m x t
  end.
Definition setr (cl : cluster) (r : N) (x : rep) : cluster := setn (N.to_nat r) x cl.

Inductive op :=
| OAssert (r u t_ms : N) (c : cid) (kid : N)
| ORotate (r t_ms : N) (c : cid) (news : list (N * N))
| ORevoke (r : N) (kids : list N) (c : cid)
| OSign (r u t_ms : N)
| OVerify (r u kid : N) (good : bool)
| OCommit (r : N)          (* entry.merge_ava_set(as_valuesets) ; db ; reload_key_material *)
| OAbort (r : N)           (* staged changes dropped, object as loaded from the entry *)
| ORepl (src dst : N) (flip : bool) (t : cid)
| ORetain (r kid : N).     (* stored status Valid -> Retained (expiry), then reload *)

Inductive out := OutUnit | OutRev (ok : bool) | OutSign (s : sres) | OutVer (v : vres).

Definition retain (e : stored) (kid : N) : stored :=
  match find kid e with
  | Some k => if is_valid (k_st k) then ins kid (mkkey (k_us k) (k_vf k) Retained (k_cid k)) e else e
  | None => e
  end.

Definition step (fx : bool) (cl : cluster) (o : op) : cluster * out :=
  match o with
  | OAssert r u t c kid =>
      let x := getr cl r in
      (setr cl r (mkrep (r_ent x) (assert_active fx (r_obj x) u t kid c)), OutUnit)
  | ORotate r t c news =>
      let x := getr cl r in
      (setr cl r (mkrep (r_ent x) (rotate fx (r_obj x) t c news)), OutUnit)
  | ORevoke r kids c =>
      let x := getr cl r in
      match revoke_all fx (r_obj x) kids c with
      | Some o' => (setr cl r (mkrep (r_ent x) o'), OutRev true)
      | None => (cl, OutRev false)
      end
  | OSign r u t => (cl, OutSign (sign (r_obj (getr cl r)) u t))
  | OVerify r u kid good => (cl, OutVer (verify (r_obj (getr cl r)) u kid good))
  | OCommit r =>
      let x := getr cl r in
      let e := merge (r_ent x) (o_all (r_obj x)) in
      (setr cl r (mkrep e (load fx e)), OutUnit)
  | OAbort r =>
      let x := getr cl r in
      (setr cl r (mkrep (r_ent x) (load fx (r_ent x))), OutUnit)
  | ORepl src dst flip t =>
      let a := r_ent (getr cl dst) in
      let b := r_ent (getr cl src) in
      let e := if flip then repl_merge b a t else repl_merge a b t in
      (setr cl dst (mkrep e (load fx e)), OutUnit)
  | ORetain r kid =>
      let x := getr cl r in
      let e := retain (r_ent x) kid in
      (setr cl r (mkrep e (load fx e)), OutUnit)
  end.

Fixpoint run (fx : bool) (cl : cluster) (ops : list op) : cluster :=
  match ops with [] => cl | o :: t => run fx (fst (step fx cl o)) t end.

(* the replica whose state an op may change *)
Definition op_rep (o : op) : N :=
  match o with
  | OAssert r _ _ _ _ | ORotate r _ _ _ | ORevoke r _ _ | OSign r _ _ | OVerify r _ _ _
  | OCommit r | OAbort r | ORetain r _ => r
  | ORepl _ dst _ _ => dst
  end.

(* ---------------------------------------------------------------- equality tests *)
Definition cid_eqb (a b : cid) := (fst a =? fst b) && (snd a =? snd b).
Definition st_eqb (a b : status) := st_rank a =? st_rank b.
Definition key_eqb (a b : key) :=
  (k_us a =? k_us b) && (k_vf a =? k_vf b) && st_eqb (k_st a) (k_st b) && cid_eqb (k_cid a) (k_cid b).
Fixpoint stored_eqb (a b : stored) : bool :=
  match a, b with
  | [], [] => true
  | (k, v) :: a', (k', v') :: b' => (k =? k') && key_eqb v v' && stored_eqb a' b'
  | _, _ => false
  end.
Definition sres_eqb (a b : sres) :=
  match a, b with
  | SKid x, SKid y => x =? y | SNoActive, SNoActive | SNoUsage, SNoUsage | SOther, SOther => true
  | _, _ => false end.
Definition vres_eqb (a b : vres) :=
  match a, b with
  | VOk, VOk | VInvalid, VInvalid | VRevoked, VRevoked | VNotAssoc, VNotAssoc
  | VNoUsage, VNoUsage | VOther, VOther => true
  | _, _ => false end.
Definition out_eqb (a b : out) :=
  match a, b with
  | OutUnit, OutUnit => true
  | OutRev x, OutRev y => Bool.eqb x y
  | OutSign x, OutSign y => sres_eqb x y
  | OutVer x, OutVer y => vres_eqb x y
  | _, _ => false end.

(* ---------------------------------------------------------------- cases *)
(* one observed step: the op, the implementation's answer, and the implementation's
   (live object keys, stored entry keys) of the op's replica after the op *)
Record obs := mkobs { b_op : op; b_out : out; b_all : stored; b_ent : stored }.
Inductive case := CHist (nrep : N) (steps : list obs).

(* sign / verify take &self: no state is reported for them *)
Definition is_query (o : op) : bool :=
  match o with OSign _ _ _ | OVerify _ _ _ _ => true | _ => false end.

Fixpoint agree_from (fx : bool) (cl : cluster) (l : list obs) : bool :=
  match l with
  | [] => true
  | b :: t =>
      let '(cl', o) := step fx cl (b_op b) in
      let x := getr cl' (op_rep (b_op b)) in
      out_eqb o (b_out b)
      && (is_query (b_op b)
          || (stored_eqb (o_all (r_obj x)) (b_all b) && stored_eqb (r_ent x) (b_ent b)))
      && agree_from fx cl' t
  end.
Definition agree (c : case) : bool :=
  match c with CHist n steps => agree_from tree_fixed (repeat rep0 (N.to_nat n)) steps end.

(* ---------------------------------------------------------------- the property on observations
   Ghost knowledge per replica, built from the HISTORY (ops and the implementation's answers),
   not from the model state:
     g_tombO / g_tombE : kids revoked at this replica (in the live object / committed), or
                         known revoked by a replica it merged from;
     g_liveO / g_liveE : kids the replica has signed with and that were not revoked since;
     g_all             : the implementation's last reported live-object keys. *)
Record ghost := mkg { g_tombO : list N; g_tombE : list N; g_liveO : list N; g_liveE : list N;
                      g_all : stored; g_ent : stored }.
Definition ghost0 := mkg [] [] [] [] [] [].
Definition gget (gs : list ghost) (r : N) := nth (N.to_nat r) gs ghost0.
Definition gset (gs : list ghost) (r : N) (g : ghost) := setn (N.to_nat r) g gs.

Definition union (a b : list N) : list N := fold_left (fun acc x => add x acc) a b.
Definition minus (a b : list N) : list N := filter (fun x => negb (mem x b)) a.
Definition revoked_kids (e : stored) : list N :=
  map fst (filter (fun p => is_revoked (k_st (snd p))) e).
Definition nonrevoked_kids (e : stored) : list N :=
  map fst (filter (fun p => negb (is_revoked (k_st (snd p)))) e).

(* "the newest non-revoked key whose validity has started", read off the reported keys *)
Definition sign_spec (d : stored) (u t_ms : N) (s : sres) : bool :=
  let cand := filter (fun p => (k_us (snd p) =? u) && is_valid (k_st (snd p))
                               && (k_vf (snd p) <=? secs_of t_ms)) d in
  match s with
  | SKid k =>
      match find k cand with
      | Some kk => forallb (fun p => k_vf (snd p) <=? k_vf kk) cand
      | None => false
      end
  | SNoActive => match cand with [] => true | _ => false end
  | SNoUsage => negb (existsb (fun p => k_us (snd p) =? u) d)
  | SOther => false
  end.

Record pacc := mkp { p_gs : list ghost; p1 : bool; p2 : bool; p3 : bool }.

Definition pstep (a : pacc) (b : obs) : pacc :=
  let gs := p_gs a in
  let r := op_rep (b_op b) in
  let g := gget gs r in
  (* keys reported after the op *)
  let g' d := mkg (g_tombO d) (g_tombE d) (g_liveO d) (g_liveE d) (b_all b) (b_ent b) in
  match b_op b, b_out b with
  | ORevoke _ kids _, OutRev true =>
      mkp (gset gs r (g' (mkg (union (g_tombO g) kids) (g_tombE g) (minus (g_liveO g) kids) (g_liveE g) [] [])))
          (p1 a) (p2 a) (p3 a)
  | OSign _ u t, OutSign s =>
      let live := match s with SKid k => if mem k (g_tombO g) then g_liveO g else add k (g_liveO g) | _ => g_liveO g end in
      mkp (gset gs r (mkg (g_tombO g) (g_tombE g) live (g_liveE g) (g_all g) (g_ent g)))
          (p1 a) (p2 a && sign_spec (g_all g) u t s) (p3 a)
  | OVerify _ u kid good, OutVer v =>
      mkp gs
          (p1 a && negb (mem kid (g_tombO g) && vres_eqb v VOk))
          (p2 a)
          (p3 a && (negb (good && mem kid (g_liveO g)) || vres_eqb v VOk))
  | OCommit _, _ =>
      mkp (gset gs r (g' (mkg (g_tombO g) (g_tombO g) (g_liveO g) (g_liveO g) [] []))) (p1 a) (p2 a) (p3 a)
  | OAbort _, _ | ORetain _ _, _ =>
      (* the object is rebuilt from the entry: uncommitted changes are gone *)
      mkp (gset gs r (g' (mkg (g_tombE g) (g_tombE g) (g_liveE g) (g_liveE g) [] []))) (p1 a) (p2 a) (p3 a)
  | ORepl src _ _ _, _ =>
      let gsrc := gget gs src in
      (* a source that still holds, not revoked, a key this replica knows to be revoked and
         has already trimmed is outside the replication window (see Props: no_stale_source) *)
      let stale := filter (fun k => mem k (nonrevoked_kids (g_ent gsrc))
                                    && negb (mem k (map fst (g_ent g)))) (g_tombE g) in
      let tomb := union (minus (g_tombE g) stale) (revoked_kids (g_ent gsrc)) in
      let live := minus (g_liveE g) (revoked_kids (g_ent gsrc)) in
      mkp (gset gs r (g' (mkg tomb tomb live live [] []))) (p1 a) (p2 a) (p3 a)
  | _, _ =>
      (* assert, rotate, failed revoke *)
      mkp (gset gs r (g' g)) (p1 a) (p2 a) (p3 a)
  end.

Definition prun (n : N) (steps : list obs) : pacc :=
  fold_left pstep steps (mkp (repeat ghost0 (N.to_nat n)) true true true).

Definition pcheck (c : case) : bool :=
  match c with CHist n steps => let a := prun n steps in p1 a && p2 a && p3 a end.

(* Pre-fix finding class (tree before 2dbb6f7), kept for the record: a revoke that hits a key while
   ANOTHER valid key of the same usage shares its valid_from second. The slot of the active map was
   removed, the sibling stayed valid but unused until the next reload. Only the "newest key
   signs" part (p2) failed in this class. *)
Definition has_sibling (d : stored) (k : N) : bool :=
  match find k d with
  | Some kk => existsb (fun p => negb (fst p =? k) && (k_us (snd p) =? k_us kk)
                                 && (k_vf (snd p) =? k_vf kk) && is_valid (k_st (snd p))) d
  | None => false
  end.
(* the kids are revoked one after the other *)
Fixpoint sibling_event (d : stored) (kids : list N) (c : cid) : bool :=
  match kids with
  | [] => false
  | k :: t =>
      has_sibling d k
      || sibling_event (match find k d with
                        | Some kk => ins k (mkkey (k_us kk) (k_vf kk) Revoked c) d
                        | None => d end) t c
  end.
Fixpoint has_sibling_event (gs : list (N * stored)) (l : list obs) : bool :=
  match l with
  | [] => false
  | b :: t =>
      let r := op_rep (b_op b) in
      let d := match find r gs with Some d => d | None => [] end in
      (match b_op b, b_out b with
       | ORevoke _ kids c, OutRev true => sibling_event d kids c
       | _, _ => false end)
      || has_sibling_event
           (if is_query (b_op b) then gs else ins r (b_all b) gs) t
  end.
Definition known_prefix (c : case) : bool :=
  match c with
  | CHist n steps => (let a := prun n steps in p1 a && p3 a) && has_sibling_event [] steps
  end.
(* no recorded finding class on the current tree *)
Definition known (_ : case) : bool := false.
