(* KV.C41.Witness — non-vacuity of the implication theorems and the refutation witnesses. *)
From Coq Require Import List NArith Bool String.
Import ListNotations.
Require Import KV.Base.Filter KV.C41.Model.
Open Scope N_scope.

Definition wsch : schema :=
  [ (s "name", (SyIname, false)); (s "class", (SyIutf8, true)); (s "mail", (SyEmail, true));
    (s "spn", (SySpn, false)); (s "uuid", (SyUuid, false)); (s "member", (SyRefer, true));
    (s "displayname", (SyUtf8, false)); (s "gidnumber", (SyU32, false)) ].
Definition w_ab : entry :=
  [ (s "name", [VS (s "ab")]); (s "class", [VS (s "account"); VS (s "object"); VS (s "person")]);
    (s "mail", [VS (s "abc@x.example"); VS (s "def@y.example")]); (s "spn", [VS (s "ab@example.com")]);
    (s "uuid", [VN 300]); (s "displayname", [VS (s "Ab Ba")]) ].
Definition w_aba : entry :=
  [ (s "name", [VS (s "aba")]); (s "class", [VS (s "group"); VS (s "object")]);
    (s "spn", [VS (s "aba@example.com")]); (s "uuid", [VN 200]); (s "member", [VN 100; VN 300]) ].
Definition w_gone : entry :=
  [ (s "name", [VS (s "gone")]); (s "class", [VS (s "person"); VS (s "recycled")]); (s "uuid", [VN 400]) ].
Definition wpop := [w_ab; w_aba; w_gone].

(* ---- hypotheses of C41_ldap_partial / C41_ldap_search_exact_partial are met by a non-trivial
   filter: nesting, NOT, an alias in mixed case, one-part substrings, a name resolved to a uuid;
   it selects one live entry and rejects another *)
Definition wf1 : ldapf :=
  LAnd [ LOr [ LSub (s "CN") (Some (s "AB")) [] None; LEq (s "member") (s "ab") ];
         LNot (LSub (s "objectClass") None [s "rou"] None);
         LPres (s "mail") ].
Example C41_witness_ldap_partial :
  ldap_known wsch wpop wf1 = false /\
  (exists g l, from_ldap wsch wpop 12 32 wf1 = Ok (g, l) /\ fvalid wsch g = true /\
               fmatch wsch w_ab g = true /\ fmatch wsch w_aba g = false) /\
  run_ldap wsch wpop 32 wf1 = Ok [300] /\ std_ldap wsch wpop wf1 = [300].
Proof.
  split; [vm_compute; reflexivity|]. split.
  - eexists. eexists. split; [vm_compute; reflexivity|]. vm_compute. repeat split; reflexivity.
  - vm_compute. split; reflexivity.
Qed.

(* ---- hypotheses of C41_scim_partial / _search_exact_partial: ordering on the single-valued uuid,
   lt / le on the multi-valued member, string operators, NOT *)
Definition wf2 : scimf :=
  SOr (SAnd (SCmp OGt (s "uuid") false (JStr (s "00000000-0000-0000-0000-0000000000c8")))
            (SNot (SCmp OCo (s "name") false (JStr (s "ON")))))
      (SCmp OLe (s "member") false (JStr (s "00000000-0000-0000-0000-000000000064"))).
Example C41_witness_scim_partial :
  scim_known wsch wf2 = false /\ forallb (entry_okb wsch) wpop = true /\
  (exists g l, from_scim wsch wpop 12 32 wf2 = Ok (g, l) /\ fvalid wsch g = true) /\
  run_scim wsch wpop 32 wf2 = Ok [300; 200] /\ std_scim wsch wpop wf2 = [300; 200].
Proof.
  split; [vm_compute; reflexivity|]. split; [vm_compute; reflexivity|]. split.
  - eexists. eexists. split; vm_compute; reflexivity.
  - vm_compute. split; reflexivity.
Qed.

(* ---- hypotheses of the agree => property theorems: a recorded case that agrees and is in scope *)
Example C41_witness_agree_ldap :
  let c := CLdap wsch wpop 32 wf1 (Ok [300]) in
  known c = false /\ agree c = true /\ pcheck c = true.
Proof. vm_compute. repeat split; reflexivity. Qed.
Example C41_witness_agree_scim :
  let c := CScim wsch wpop 32 wf2 (Ok [200; 300]) in
  known c = false /\ agree c = true /\ pcheck c = true.
Proof. vm_compute. repeat split; reflexivity. Qed.

(* ---- rejection is real: budgets, depth, unsupported operators, bad values, empty groups *)
Example C41_witness_rejections :
  run_ldap wsch wpop 32 (LGe (s "gidnumber") (s "5")) = Err EFilterGeneration /\
  run_ldap wsch wpop 32 (LEq (s "uidNumber") (s "x")) = Err EInvalidAttribute /\
  run_ldap wsch wpop 32 (LEq (s "nosuch") (s "x")) = Err EInvalidAttrName /\
  run_ldap wsch wpop 32 (LPres (s "nosuch")) = Err ESchema /\
  run_ldap wsch wpop 32 (LAnd []) = Err ESchema /\
  run_ldap wsch wpop 32 (LSub (s "name") None [] None) = Err ESchema /\
  run_ldap wsch wpop 7 (LPres (s "name")) = Ok [300; 200] /\
  run_ldap wsch wpop 6 (LPres (s "name")) = Err EResourceLimit /\
  run_scim wsch wpop 32 (SCmp ONe (s "name") false (JStr (s "ab"))) = Err EFilterGeneration /\
  run_scim wsch wpop 32 (SCmp OEq (s "mail") false (JStr (s "x"))) = Err EInvalidAttribute /\
  run_scim wsch wpop 32 (SCmp OEq (s "name") false (JBool true)) = Err EInvalidAttribute /\
  run_scim wsch wpop 32 (SComplex (s "mail")) = Err EFilterGeneration /\
  run_scim wsch wpop 1 (SNot (SPres (s "name") false)) = Err EResourceLimit.
Proof. vm_compute. repeat split; reflexivity. Qed.

(* ================================================================== refutation witnesses
   (each replayed on the real server by harness/src/bin/c41.rs, corpus part) *)

(* LDAP 1: order of the any-parts is not enforced — the filter name = * b * a * selects "ab" *)
Example C41_witness_refuted_substring_order :
  let f := LSub (s "name") None [s "b"; s "a"] None in
  ldap_known wsch wpop f = true /\
  run_ldap wsch wpop 32 f = Ok [300; 200] /\ std_ldap wsch wpop f = [200].
Proof. vm_compute. repeat split; reflexivity. Qed.

(* LDAP 2: parts may overlap — cn = ab * ba selects "aba" *)
Example C41_witness_refuted_substring_overlap :
  let f := LSub (s "cn") (Some (s "ab")) [] (Some (s "ba")) in
  ldap_known wsch wpop f = true /\
  run_ldap wsch wpop 32 f = Ok [200] /\ std_ldap wsch wpop f = [].
Proof. vm_compute. repeat split; reflexivity. Qed.

(* LDAP 3: the parts may be found in DIFFERENT values of a multi-valued attribute —
   mail = abc * y.example selects the entry holding abc@x.example and def@y.example *)
Example C41_witness_refuted_substring_values :
  let f := LSub (s "mail") (Some (s "abc")) [] (Some (s "y.example")) in
  ldap_known wsch wpop f = true /\
  run_ldap wsch wpop 32 f = Ok [300] /\ std_ldap wsch wpop f = [].
Proof. vm_compute. repeat split; reflexivity. Qed.

(* LDAP 4: Undefined becomes FALSE, so its negation selects everything — NOT (spn = notanspn) *)
Example C41_witness_refuted_undefined_not :
  let f := LNot (LEq (s "spn") (s "notanspn")) in
  ldap_known wsch wpop f = true /\
  run_ldap wsch wpop 32 f = Ok [300; 200] /\ std_ldap wsch wpop f = [].
Proof. vm_compute. repeat split; reflexivity. Qed.

(* SCIM 1: gt / ge on a multi-valued attribute mean "every value", not "any value" *)
Example C41_witness_refuted_scim_multi_gt :
  let f := SCmp OGt (s "member") false (JStr (s "00000000-0000-0000-0000-0000000000c8")) in
  scim_known wsch f = true /\
  run_scim wsch wpop 32 f = Ok [] /\ std_scim wsch wpop f = [200].
Proof. vm_compute. repeat split; reflexivity. Qed.

(* SCIM 2: strings are not ordered by the server: lt never matches, ge = present *)
Example C41_witness_refuted_scim_string_order :
  let f := SCmp OLt (s "name") false (JStr (s "abz")) in
  let g := SCmp OGe (s "name") false (JStr (s "abz")) in
  scim_known wsch f = true /\ scim_known wsch g = true /\
  run_scim wsch wpop 32 f = Ok [] /\ std_scim wsch wpop f = [300; 200] /\
  run_scim wsch wpop 32 g = Ok [300; 200] /\ std_scim wsch wpop g = [].
Proof. vm_compute. repeat split; reflexivity. Qed.

(* the presentation name pwdChangedTime is the one entry of the table that can never be selected *)
Example C41_witness_refuted_attr_map :
  ldap_attr_map (s "pwdChangedTime") = s "pwdchangedtime" /\
  spec_attr_map (s "pwdChangedTime") = s "pwd_changed_time" /\
  ldap_attr_map (s "objectClass") = s "class" /\ spec_attr_map (s "objectClass") = s "class".
Proof. vm_compute. repeat split; reflexivity. Qed.

(* ---- the translator with the fix: the two SCIM deviation classes are refused, everything else
   (here wf2: gt on the single-valued uuid, le on the multi-valued member) is still accepted, so
   C41_scim_fixed_full is not vacuous *)
Example C41_witness_scim_fixed :
  from_scim_gen true wsch wpop 12 32 (SCmp OGt (s "member") false (JStr (s "ab"))) = Err EFilterGeneration /\
  from_scim_gen true wsch wpop 12 32 (SCmp OGe (s "member") false (JStr (s "ab"))) = Err EFilterGeneration /\
  from_scim_gen true wsch wpop 12 32 (SCmp OLt (s "name") false (JStr (s "ab"))) = Err EFilterGeneration /\
  from_scim_gen true wsch wpop 12 32 (SCmp OLe (s "displayname") false (JStr (s "ab"))) = Err EFilterGeneration /\
  from_scim_gen true wsch wpop 12 32 wf2 = from_scim_gen false wsch wpop 12 32 wf2 /\
  (exists g l, from_scim_gen true wsch wpop 12 32 wf2 = Ok (g, l) /\ fvalid wsch g = true /\
               fmatch wsch w_ab g = true /\ fmatch wsch w_gone g = false /\
               fmatch wsch [(s "name", [VS (s "on")]); (s "uuid", [VN 500])] g = false).
Proof.
  repeat (split; [vm_compute; reflexivity|]).
  eexists. eexists. split; [vm_compute; reflexivity|]. vm_compute. repeat split; reflexivity.
Qed.

(* ---- hypotheses of C41_ldap_substring_superset: a three-part assertion the standard evaluates to
   TRUE on "aba" (a, then b, then a, in order and disjoint) *)
Example C41_witness_substring_superset :
  let f := LSub (s "name") (Some (s "a")) [s "b"] (Some (s "A")) in
  (exists g l, from_ldap wsch wpop 12 32 f = Ok (g, l) /\ fmatch wsch w_aba g = true) /\
  ldap_sem wsch wpop w_aba f = TT /\ ldap_sem wsch wpop w_ab f = FF.
Proof.
  split.
  - eexists. eexists. split; vm_compute; reflexivity.
  - vm_compute. split; reflexivity.
Qed.
