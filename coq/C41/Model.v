(* KV.C41.Model — LDAP / SCIM filter translation and the standards' meaning of the source filters.
   Transcribes FilterComp::from_ldap_ro (server/lib/src/filter.rs:1116), FilterComp::from_scim_ro
   (filter.rs:1198), FilterComp::validate (filter.rs:868), FilterComp::new_ignore_hidden (filter.rs:830),
   ldap_attr_filter_map / ldap_vattr_map (idm/ldap.rs:826-862), clone_partialvalue and
   resolve_scim_json_get (server/mod.rs:822, 1045) for eight value syntaxes, the leaf matching rules of
   the value sets (valueset/{iname,iutf8,utf8,address,spn,uuid,uint32}.rs) and
   Entry::entry_match_no_index_inner.  Independently: RFC 4511 (three-valued) and RFC 7644 semantics.
   Executable definitions only. *)
From Coq Require Import List NArith Bool String Ascii.
Import ListNotations.
Require Import KV.Base.Filter.
Open Scope N_scope.

(* ------------------------------------------------------------------ strings (bytes) *)
Definition str := list N.
Definition s (x : string) : str := map N_of_ascii (list_ascii_of_string x).

Fixpoint str_eqb (a b : str) : bool :=
  match a, b with
  | [], [] => true
  | x :: a', y :: b' => (x =? y) && str_eqb a' b'
  | _, _ => false
  end.
Fixpoint prefix (p t : str) : bool :=
  match p, t with
  | [], _ => true
  | x :: p', y :: t' => (x =? y) && prefix p' t'
  | _ :: _, [] => false
  end.
Definition suffix (p t : str) : bool := prefix (rev p) (rev t).
Fixpoint contains (p t : str) : bool :=
  prefix p t || match t with [] => false | _ :: t' => contains p t' end.
(* ASCII lower-casing (inputs are ASCII; Rust's to_lowercase is Unicode aware) *)
Definition lower_c (c : N) : N := if (65 <=? c) && (c <=? 90) then c + 32 else c.
Definition lower (x : str) : str := map lower_c x.
Fixpoint str_ltb (a b : str) : bool :=
  match a, b with
  | _, [] => false
  | [], _ :: _ => true
  | x :: a', y :: b' => (x <? y) || ((x =? y) && str_ltb a' b')
  end.
Definition is_nil {A} (l : list A) : bool := match l with [] => true | _ => false end.

(* ------------------------------------------------------------------ values, schema, entries *)
Inductive val := VS (x : str) | VN (n : N).
Definition val_eqb (a b : val) : bool :=
  match a, b with
  | VS x, VS y => str_eqb x y
  | VN x, VN y => x =? y
  | _, _ => false
  end.
Definition is_vn (v : val) : bool := match v with VN _ => true | VS _ => false end.

Inductive syn := SyIname | SyIutf8 | SyUtf8 | SyEmail | SySpn | SyUuid | SyRefer | SyU32.
Definition schema := list (str * (syn * bool)).       (* attribute -> (syntax, multivalue) *)
Definition entry := list (str * list val).             (* attribute -> value set; absent key = no attribute *)

Fixpoint assoc {A} (k : str) (m : list (str * A)) : option A :=
  match m with
  | [] => None
  | (k', x) :: r => if str_eqb k k' then Some x else assoc k r
  end.
Definition vals (e : entry) (a : str) : list val := match assoc a e with Some l => l | None => [] end.
Definition has (e : entry) (a : str) : bool := match assoc a e with Some _ => true | None => false end.

(* value sets that implement substring / startswith / endswith *)
Definition is_str (sy : syn) : bool := match sy with SyIname | SyIutf8 | SyUtf8 | SyEmail => true | _ => false end.
(* ... and of those, the ones that lower-case both sides at match time (utf8.rs, address.rs) *)
Definition folds (sy : syn) : bool := match sy with SyUtf8 | SyEmail => true | _ => false end.
(* value sets with a real lessthan (uuid.rs x2, uint32.rs); every other one answers false *)
Definition is_ord (sy : syn) : bool := match sy with SyUuid | SyRefer | SyU32 => true | _ => false end.
Definition is_uuidlike (sy : syn) : bool := match sy with SyUuid | SyRefer => true | _ => false end.

Definition strop (k : leafkind) (p t : str) : bool :=
  match k with KCnt => contains p t | KStw => prefix p t | KEnw => suffix p t | _ => false end.

(* attribute_equality / _substring / _startswith / _endswith / _pres / _lessthan of one entry *)
Definition leaf_holds (sch : schema) (e : entry) (k : leafkind) (a : str) (v : val) : bool :=
  match k with
  | KPres => has e a
  | KEq => existsb (val_eqb v) (vals e a)
  | KCnt | KStw | KEnw =>
      match assoc a sch, v with
      | Some (sy, _), VS p =>
          if is_str sy then
            existsb (fun x => match x with
                              | VS t => if folds sy then strop k (lower p) (lower t) else strop k p t
                              | VN _ => false end) (vals e a)
          else false
      | _, _ => false
      end
  | KLt =>
      match assoc a sch, v with
      | Some (sy, _), VN n =>
          if is_ord sy then existsb (fun x => match x with VN m => m <? n | VS _ => false end) (vals e a) else false
      | _, _ => false
      end
  end.

(* enum FilterComp restricted to what the two translators can produce *)
Inductive fcomp :=
| FcLeaf (k : leafkind) (a : str) (v : val)       (* Pres ignores v *)
| FcOr (l : list fcomp)
| FcAnd (l : list fcomp)
| FcAndNot (f : fcomp)
| FcInvalid (a : str).

(* entry_match_no_index_inner *)
Fixpoint fmatch (sch : schema) (e : entry) (f : fcomp) : bool :=
  match f with
  | FcLeaf k a v => leaf_holds sch e k a v
  | FcOr l => existsb (fmatch sch e) l
  | FcAnd l => forallb (fmatch sch e) l
  | FcAndNot g => negb (fmatch sch e g)
  | FcInvalid _ => false
  end.

(* FilterComp::validate: attribute known, And/Or non-empty (value types match by construction) *)
Fixpoint fvalid (sch : schema) (f : fcomp) : bool :=
  match f with
  | FcLeaf _ a _ => match assoc a sch with Some _ => true | None => false end
  | FcOr l | FcAnd l => negb (is_nil l) && forallb (fvalid sch) l
  | FcAndNot g => fvalid sch g
  | FcInvalid _ => true
  end.

Definition a_class := s "class".
Definition a_name := s "name".
Definition a_spn := s "spn".
Definition a_uuid := s "uuid".
(* FilterComp::new_ignore_hidden *)
Definition ignore_hidden (g : fcomp) : fcomp :=
  FcAnd [FcAndNot (FcOr [FcLeaf KEq a_class (VS (s "tombstone")); FcLeaf KEq a_class (VS (s "recycled"))]); g].
Definition hidden (e : entry) : bool :=
  existsb (val_eqb (VS (s "tombstone"))) (vals e a_class) || existsb (val_eqb (VS (s "recycled"))) (vals e a_class).

(* ------------------------------------------------------------------ errors *)
Inductive err := EResourceLimit | EFilterGeneration | EInvalidAttrName | EInvalidAttribute | ESchema | EOther.
Inductive res (A : Type) := Ok (x : A) | Err (e : err).
Arguments Ok {A} x.
Arguments Err {A} e.
Definition bind {A B} (r : res A) (k : A -> res B) : res B :=
  match r with Ok x => k x | Err e => Err e end.
Fixpoint mapm {A B} (f : A -> res B) (l : list A) : res (list B) :=
  match l with
  | [] => Ok []
  | x :: r => bind (f x) (fun y => bind (mapm f r) (fun ys => Ok (y :: ys)))
  end.

(* ------------------------------------------------------------------ assertion value parsing *)
Definition hexv (c : N) : option N :=
  if (48 <=? c) && (c <=? 57) then Some (c - 48)
  else if (97 <=? c) && (c <=? 102) then Some (c - 87)
  else None.
Definition hyphen_pos (i : N) : bool := (i =? 8) || (i =? 13) || (i =? 18) || (i =? 23).
(* hyphenated form only (the other textual forms Uuid::parse_str accepts are never generated) *)
Fixpoint parse_uuid_from (l : str) (i : N) (acc : N) : option N :=
  match l with
  | [] => if i =? 36 then Some acc else None
  | c :: r =>
      if hyphen_pos i then (if c =? 45 then parse_uuid_from r (i + 1) acc else None)
      else match hexv c with Some d => parse_uuid_from r (i + 1) (acc * 16 + d) | None => None end
  end.
Definition parse_uuid (w : str) : option N := parse_uuid_from w 0 0.

Fixpoint digits (l : str) (acc : N) : option N :=
  match l with
  | [] => Some acc
  | c :: r => if (48 <=? c) && (c <=? 57) then digits r (acc * 10 + (c - 48)) else None
  end.
(* u32::from_str: optional '+', at least one digit, value < 2^32 *)
Definition parse_u32 (x : str) : option N :=
  let body := match x with 43 :: r => r | _ => x end in
  match body with
  | [] => None
  | _ => match digits body 0 with Some n => if n <? 4294967296 then Some n else None | None => None end
  end.

(* SPN_RE = "(?P<name>[^@]+)@(?P<realm>[^@]+)", unanchored, leftmost match: the first two adjacent
   non-empty '@'-separated segments *)
Fixpoint split_at (l cur : str) : list str :=
  match l with
  | [] => [rev cur]
  | c :: r => if c =? 64 then rev cur :: split_at r [] else split_at r (c :: cur)
  end.
Fixpoint first_pair (segs : list str) : option (str * str) :=
  match segs with
  | a :: r => match r with
              | b :: _ => if negb (is_nil a) && negb (is_nil b) then Some (a, b) else first_pair r
              | [] => None
              end
  | [] => None
  end.
Definition spn_parse (raw : str) : option str :=
  match first_pair (split_at raw []) with Some (n, r) => Some (n ++ 64 :: r) | None => None end.

(* name_to_uuid(..).unwrap_or(UUID_DOES_NOT_EXIST) for plain tokens (no '=' or ','): a uuid, else the
   name or spn of a live entry *)
Definition dne : N := 281474976710654.        (* 00000000-0000-0000-0000-fffffffffffe *)
Definition euuid (e : entry) : N := match vals e a_uuid with VN n :: _ => n | _ => 0 end.
Fixpoint name2uuid (p : list entry) (w : str) : option N :=
  match p with
  | [] => None
  | e :: r =>
      if negb (hidden e) && (existsb (val_eqb (VS w)) (vals e a_name) || existsb (val_eqb (VS w)) (vals e a_spn))
      then Some (euuid e) else name2uuid r w
  end.
Definition resolve_uuid (p : list entry) (raw : str) : N :=
  let w := lower raw in
  match parse_uuid w with
  | Some n => n
  | None => match name2uuid p w with Some n => n | None => dne end
  end.

(* QueryServerTransaction::clone_partialvalue *)
Definition clone_pv (sch : schema) (p : list entry) (a raw : str) : res val :=
  match assoc a sch with
  | None => Err EInvalidAttrName
  | Some (sy, _) =>
      match sy with
      | SyUtf8 | SyEmail => Ok (VS raw)
      | SyIutf8 | SyIname => Ok (VS (lower raw))
      | SySpn => match spn_parse raw with Some x => Ok (VS x) | None => Err EInvalidAttribute end
      | SyUuid | SyRefer => Ok (VN (resolve_uuid p raw))
      | SyU32 => match parse_u32 raw with Some n => Ok (VN n) | None => Err EInvalidAttribute end
      end
  end.

Inductive json := JStr (x : str) | JBool (b : bool) | JNum (n : N) | JNull.
(* QueryServerTransaction::resolve_scim_json_get *)
Definition scim_pv (sch : schema) (p : list entry) (a : str) (j : json) : res val :=
  match assoc a sch with
  | None => Err EInvalidAttrName
  | Some (sy, _) =>
      match sy, j with
      | SyUtf8, JStr x => Ok (VS x)
      | (SyIutf8 | SyIname), JStr x => Ok (VS (lower x))
      | (SyUuid | SyRefer), JStr x => Ok (VN (resolve_uuid p x))
      | _, _ => Err EInvalidAttribute
      end
  end.

(* ------------------------------------------------------------------ LDAP attribute names *)
Definition vattr_table : list (str * str) :=
  [ (s "cn", s "name"); (s "uid", s "name"); (s "entrydn", s "name"); (s "dn", s "name");
    (s "gecos", s "displayname");
    (s "email", s "mail"); (s "emailaddress", s "mail"); (s "emailalternative", s "mail");
    (s "emailprimary", s "mail");
    (s "entryuuid", s "uuid");
    (s "keys", s "ssh_publickey");
    (s "mail;alternative", s "mail"); (s "mail;primary", s "mail");
    (s "objectclass", s "class");
    (s "sshpublickey", s "ssh_publickey");
    (s "uidnumber", s "gidnumber");
    (s "homedirectory", s "uuid");
    (s "pwdChangedTime", s "pwd_changed_time") ].      (* mixed-case key, compared with lower-cased input *)
Definition ldap_vattr_map (x : str) : option str := assoc x vattr_table.
(* ldap_attr_filter_map *)
Definition ldap_attr_map (x : str) : str :=
  let l := lower x in match ldap_vattr_map l with Some k => k | None => l end.

(* ------------------------------------------------------------------ LDAP translation *)
Inductive ldapf :=
| LAnd (l : list ldapf)
| LOr (l : list ldapf)
| LNot (f : ldapf)
| LEq (a v : str)
| LPres (a : str)
| LSub (a : str) (ini : option str) (anys : list str) (fin : option str)
| LGe (a v : str)
| LLe (a v : str)
| LApprox (a v : str)
| LExt (a v : str).

Definition sub_terms (sch : schema) (p : list entry) (a : str) (ini : option str) (anys : list str) (fin : option str)
  : res (list fcomp) :=
  bind (match ini with
        | Some x => bind (clone_pv sch p a x) (fun v => Ok [FcLeaf KStw a v])
        | None => Ok [] end) (fun t1 =>
  bind (mapm (fun x => bind (clone_pv sch p a x) (fun v => Ok (FcLeaf KCnt a v))) anys) (fun t2 =>
  bind (match fin with
        | Some x => bind (clone_pv sch p a x) (fun v => Ok [FcLeaf KEnw a v])
        | None => Ok [] end) (fun t3 =>
  Ok (t1 ++ t2 ++ t3)))).

(* `l.iter().map(|f| from_ldap_ro(f, qs, ndepth, elems)).collect::<Result<Vec<_>, _>>()` with the
   shared mutable element budget: left to right, stop at the first error *)
Section Thread.
  Context {A B : Type}.
  Variable f : N -> A -> res (B * N).
  Fixpoint thread (l : list A) (el : N) : res (list B * N) :=
    match l with
    | [] => Ok ([], el)
    | x :: r =>
        match f el x with
        | Err e => Err e
        | Ok (g, el1) =>
            match thread r el1 with
            | Err e => Err e
            | Ok (gs, el2) => Ok (g :: gs, el2)
            end
        end
    end.
End Thread.

(* FilterComp::from_ldap_ro; returns the term and the element budget left *)
Fixpoint from_ldap (sch : schema) (p : list entry) (depth elems : N) (f : ldapf) : res (fcomp * N) :=
  if depth =? 0 then Err EResourceLimit else
  if elems =? 0 then Err EResourceLimit else
  let nd := depth - 1 in
  let el := elems - 1 in
  match f with
  | LAnd l =>
      match thread (fun e x => from_ldap sch p nd e x) l el with
      | Err e => Err e
      | Ok (gs, el1) => Ok (FcAnd gs, el1)
      end
  | LOr l =>
      match thread (fun e x => from_ldap sch p nd e x) l el with
      | Err e => Err e
      | Ok (gs, el1) => Ok (FcOr gs, el1)
      end
  | LNot g => match from_ldap sch p nd el g with Err e => Err e | Ok (g', el1) => Ok (FcAndNot g', el1) end
  | LEq a v =>
      let a' := ldap_attr_map a in
      match clone_pv sch p a' v with
      | Ok pv => Ok (FcLeaf KEq a' pv, el)
      | Err e => if str_eqb a' a_spn then Ok (FcInvalid a', el) else Err e
      end
  | LPres a => Ok (FcLeaf KPres (ldap_attr_map a) (VN 0), el)
  | LSub a ini anys fin =>
      let a' := ldap_attr_map a in
      match sub_terms sch p a' ini anys fin with
      | Ok ts => Ok (FcAnd ts, el)
      | Err e => Err e
      end
  | LGe _ _ | LLe _ _ | LApprox _ _ | LExt _ _ => Err EFilterGeneration
  end.

(* what LdapServer::do_search adds for a subtree search at the base dn *)
Definition ldap_wrap (f : ldapf) : ldapf :=
  LAnd [f; LNot (LOr [LEq a_class (s "classtype"); LEq a_class (s "attributetype");
                      LEq a_class (s "access_control_profile")])].

Definition depth_max : N := 12.       (* DEFAULT_LIMIT_FILTER_DEPTH_MAX *)

(* SearchEvent::new_ext_impersonate_uuid: translate, validate *)
Definition compile_ldap (sch : schema) (p : list entry) (lim : N) (f : ldapf) : res fcomp :=
  match from_ldap sch p depth_max lim f with
  | Err e => Err e
  | Ok (g, _) => if fvalid sch g then Ok g else Err ESchema
  end.

(* search_ext for an internal identity: exactly the entries matching ignore_hidden(filter)
   (that the backend returns exactly those is C01/C02's theorem and is re-observed here) *)
Definition search (sch : schema) (p : list entry) (g : fcomp) : list N :=
  map euuid (filter (fun e => fmatch sch e (ignore_hidden g)) p).

Definition run_ldap (sch : schema) (p : list entry) (lim : N) (f : ldapf) : res (list N) :=
  match compile_ldap sch p lim (ldap_wrap f) with
  | Err e => Err e
  | Ok g => Ok (search sch p g)
  end.

(* ------------------------------------------------------------------ SCIM translation *)
Inductive sop := OEq | ONe | OCo | OSw | OEw | OGt | OLt | OGe | OLe.
Inductive scimf :=
| SPres (a : str) (sub : bool)
| SCmp (o : sop) (a : str) (sub : bool) (j : json)
| SNot (f : scimf)
| SOr (l r : scimf)
| SAnd (l r : scimf)
| SComplex (a : str).

Definition scim_leaf (o : sop) (a : str) (pv : val) : fcomp :=
  match o with
  | OEq | ONe => FcLeaf KEq a pv
  | OCo => FcLeaf KCnt a pv
  | OSw => FcLeaf KStw a pv
  | OEw => FcLeaf KEnw a pv
  | OGt => FcAnd [FcLeaf KPres a (VN 0); FcAndNot (FcOr [FcLeaf KLt a pv; FcLeaf KEq a pv])]
  | OLt => FcLeaf KLt a pv
  | OGe => FcAnd [FcLeaf KPres a (VN 0); FcAndNot (FcLeaf KLt a pv)]
  | OLe => FcOr [FcLeaf KLt a pv; FcLeaf KEq a pv]
  end.

(* SCIM: an ordering operator on a syntax the server cannot order (it answers lt = false), or
   gt / ge on an attribute the schema allows to be multi-valued *)
Definition is_ordop (o : sop) : bool := match o with OGt | OLt | OGe | OLe => true | _ => false end.
Definition is_gtop (o : sop) : bool := match o with OGt | OGe => true | _ => false end.
Fixpoint scim_known (sch : schema) (f : scimf) : bool :=
  match f with
  | SCmp o a _ _ =>
      match assoc a sch with
      | Some (sy, multi) => is_ordop o && (negb (is_uuidlike sy) || (is_gtop o && multi))
      | None => false
      end
  | SNot g => scim_known sch g
  | SOr l r | SAnd l r => scim_known sch l || scim_known sch r
  | _ => false
  end.

(* FilterComp::from_scim_ro *)
(* `fx` selects the tree: false = the translator as pinned (every comparison the value resolver
   accepts is translated), true = with /verif/fixes/C41.patch (an ordering operator the server
   cannot answer with the standard's meaning is refused with FilterGeneration) *)
Fixpoint from_scim_gen (fx : bool) (sch : schema) (p : list entry) (depth elems : N) (f : scimf) : res (fcomp * N) :=
  if depth =? 0 then Err EResourceLimit else
  if elems =? 0 then Err EResourceLimit else
  let nd := depth - 1 in
  let el := elems - 1 in
  match f with
  | SPres a false => Ok (FcLeaf KPres a (VN 0), el)
  | SCmp ONe _ false _ => Err EFilterGeneration
  | SCmp o a false j =>
      match scim_pv sch p a j with
      | Ok pv => if fx && scim_known sch (SCmp o a false j) then Err EFilterGeneration
                 else Ok (scim_leaf o a pv, el)
      | Err e => Err e
      end
  | SNot g => match from_scim_gen fx sch p nd el g with Err e => Err e | Ok (g', el1) => Ok (FcAndNot g', el1) end
  | SOr l r =>
      match from_scim_gen fx sch p nd el l with
      | Err e => Err e
      | Ok (gl, el1) =>
          match from_scim_gen fx sch p nd el1 r with
          | Err e => Err e
          | Ok (gr, el2) => Ok (FcOr [gl; gr], el2)
          end
      end
  | SAnd l r =>
      match from_scim_gen fx sch p nd el l with
      | Err e => Err e
      | Ok (gl, el1) =>
          match from_scim_gen fx sch p nd el1 r with
          | Err e => Err e
          | Ok (gr, el2) => Ok (FcAnd [gl; gr], el2)
          end
      end
  | SPres _ true | SCmp _ _ true _ | SComplex _ => Err EFilterGeneration
  end.

(* which tree /repo holds; flip when the fix is committed *)
Definition tree_fixed_scim : bool := false.
Definition from_scim := from_scim_gen tree_fixed_scim.

(* scim_search_ext + scim_search_filter_ext (no sort, no pagination) *)
Definition compile_scim (sch : schema) (p : list entry) (lim : N) (f : scimf) : res fcomp :=
  match from_scim sch p depth_max lim f with
  | Err e => Err e
  | Ok (g, _) => if fvalid sch g then Ok g else Err ESchema
  end.
Definition run_scim (sch : schema) (p : list entry) (lim : N) (f : scimf) : res (list N) :=
  match compile_scim sch p lim f with
  | Err e => Err e
  | Ok g => Ok (search sch p g)
  end.

(* ================================================================== the standards' semantics *)
(* Stored strings and assertion pieces under the attribute's matching rule: the case-ignore rules
   compare lower-cased text; iname / iutf8 values are stored in that canonical form already. *)
Definition nval (sy : syn) (t : str) : str := if folds sy then lower t else t.

(* RFC 4517 substring assertion on ONE value: initial, then the any-parts IN ORDER and
   NON-OVERLAPPING, then final.  Taking the leftmost occurrence of each part is complete. *)
Fixpoint find_after (q t : str) : option str :=       (* rest of t after the leftmost occurrence of q *)
  if prefix q t then Some (skipn (List.length q) t)
  else match t with [] => None | _ :: t' => find_after q t' end.
Fixpoint anys_after (anys : list str) (t : str) : option str :=
  match anys with
  | [] => Some t
  | q :: r => match find_after q t with Some t' => anys_after r t' | None => None end
  end.
Definition sub_match (ini : option str) (anys : list str) (fin : option str) (t : str) : bool :=
  match (match ini with
         | Some q => if prefix q t then Some (skipn (List.length q) t) else None
         | None => Some t end) with
  | None => false
  | Some t1 =>
      match anys_after anys t1 with
      | None => false
      | Some t2 => match fin with Some q => suffix q t2 | None => true end
      end
  end.

(* RFC 4511 4.5.1.7: a filter evaluates to TRUE, FALSE or Undefined; an entry is selected iff TRUE *)
Inductive tv := TT | FF | UU.
Definition tv_of (b : bool) : tv := if b then TT else FF.
Definition tv_true (t : tv) : bool := match t with TT => true | _ => false end.
Definition tv_not (t : tv) : tv := match t with TT => FF | FF => TT | UU => UU end.
Definition tv_and (a b : tv) : tv :=
  match a, b with FF, _ | _, FF => FF | TT, TT => TT | _, _ => UU end.
Definition tv_or (a b : tv) : tv :=
  match a, b with TT, _ | _, TT => TT | FF, FF => FF | _, _ => UU end.

Definition syn_of (sch : schema) (a : str) : option syn :=
  match assoc a sch with Some (sy, _) => Some sy | None => None end.

Fixpoint ldap_sem (sch : schema) (p : list entry) (e : entry) (f : ldapf) : tv :=
  match f with
  | LAnd l => fold_right (fun x acc => tv_and (ldap_sem sch p e x) acc) TT l
  | LOr l => fold_right (fun x acc => tv_or (ldap_sem sch p e x) acc) FF l
  | LNot g => tv_not (ldap_sem sch p e g)
  | LEq a v =>
      let a' := ldap_attr_map a in
      match clone_pv sch p a' v with          (* the assertion value under the attribute's syntax *)
      | Ok pv => tv_of (existsb (val_eqb pv) (vals e a'))
      | Err _ => UU                            (* unknown attribute / unparsable assertion value *)
      end
  | LPres a => tv_of (has e (ldap_attr_map a))
  | LSub a ini anys fin =>
      let a' := ldap_attr_map a in
      match syn_of sch a' with
      | Some sy =>
          if is_str sy then
            tv_of (existsb (fun x => match x with
                                     | VS t => sub_match (option_map lower ini) (map lower anys)
                                                         (option_map lower fin) (nval sy t)
                                     | VN _ => false end) (vals e a'))
          else UU                              (* no substring matching rule for this syntax *)
      | None => UU
      end
  | LGe _ _ | LLe _ _ | LApprox _ _ | LExt _ _ => UU   (* no such matching rule offered *)
  end.

(* RFC 7644 3.4.2.2 (two-valued; an absent attribute matches no comparison; a multi-valued
   attribute matches when ANY value does).  Strings compare lexicographically, uuids as numbers
   (= lexicographic order of their canonical text). *)
Definition val_ltb (a b : val) : bool :=
  match a, b with
  | VS x, VS y => str_ltb x y
  | VN x, VN y => x <? y
  | _, _ => false
  end.
Definition scim_cmp (sy : syn) (o : sop) (pv x : val) : bool :=
  match o with
  | OEq => val_eqb pv x
  | ONe => negb (val_eqb pv x)
  | OCo | OSw | OEw =>
      match pv, x with
      | VS q, VS t => is_str sy && strop (match o with OCo => KCnt | OSw => KStw | _ => KEnw end)
                                         (if folds sy then lower q else q) (nval sy t)
      | _, _ => false                          (* string operators never match a non-string value *)
      end
  | OGt => val_ltb pv x
  | OLt => val_ltb x pv
  | OGe => val_ltb pv x || val_eqb pv x
  | OLe => val_ltb x pv || val_eqb pv x
  end.
Fixpoint scim_sem (sch : schema) (p : list entry) (e : entry) (f : scimf) : bool :=
  match f with
  | SPres a _ => has e a
  | SCmp o a _ j =>
      match syn_of sch a, scim_pv sch p a j with
      | Some sy, Ok pv => existsb (scim_cmp sy o pv) (vals e a)
      | _, _ => false
      end
  | SNot g => negb (scim_sem sch p e g)
  | SOr l r => scim_sem sch p e l || scim_sem sch p e r
  | SAnd l r => scim_sem sch p e l && scim_sem sch p e r
  | SComplex _ => false
  end.

(* ------------------------------------------------------------------ the deviation classes *)
Definition ncomp (ini : option str) (anys : list str) (fin : option str) : nat :=
  ((if ini then 1 else 0) + List.length anys + (if fin then 1 else 0))%nat.
(* LDAP: (multi) a substring assertion with two or more parts; (undef) a term the standard leaves
   Undefined but the server turns into FALSE: an spn equality whose value does not parse, a
   substring assertion on a syntax without substring matching *)
Fixpoint ldap_known (sch : schema) (p : list entry) (f : ldapf) : bool :=
  match f with
  | LAnd l | LOr l => existsb (ldap_known sch p) l
  | LNot g => ldap_known sch p g
  | LEq a v =>
      match clone_pv sch p (ldap_attr_map a) v with
      | Err _ => str_eqb (ldap_attr_map a) a_spn
      | Ok _ => false
      end
  | LSub a ini anys fin =>
      Nat.ltb 1 (ncomp ini anys fin)
      || match syn_of sch (ldap_attr_map a) with Some sy => negb (is_str sy) | None => false end
  | _ => false
  end.
(* an entry that respects the schema for the modelled attributes: no empty value set, at most one
   value where the schema says single-valued, uuid-like attributes hold uuids *)
Definition entry_okb (sch : schema) (e : entry) : bool :=
  forallb (fun av =>
             match assoc (fst av) sch with
             | None => true
             | Some (sy, multi) =>
                 negb (is_nil (snd av))
                 && (multi || Nat.leb (List.length (snd av)) 1)
                 && (negb (is_uuidlike sy) || forallb is_vn (snd av))
             end) e.

(* ------------------------------------------------------------------ correspondence *)
Definition mem (x : N) (l : list N) : bool := existsb (N.eqb x) l.
Definition subset (a b : list N) : bool := forallb (fun x => mem x b) a.
Definition set_eqb (a b : list N) : bool := subset a b && subset b a.
Definition err_eqb (a b : err) : bool :=
  match a, b with
  | EResourceLimit, EResourceLimit | EFilterGeneration, EFilterGeneration
  | EInvalidAttrName, EInvalidAttrName | EInvalidAttribute, EInvalidAttribute
  | ESchema, ESchema | EOther, EOther => true
  | _, _ => false
  end.
Definition out_eqb (m i : res (list N)) : bool :=
  match m, i with
  | Ok a, Ok b => set_eqb a b
  | Err a, Err b => err_eqb a b
  | _, _ => false
  end.

(* what the LDAP view never shows: hidden entries (the wrapper terms are part of the filter) *)
Definition std_ldap (sch : schema) (p : list entry) (f : ldapf) : list N :=
  map euuid (filter (fun e => negb (hidden e) && tv_true (ldap_sem sch p e (ldap_wrap f))) p).
Definition std_scim (sch : schema) (p : list entry) (f : scimf) : list N :=
  map euuid (filter (fun e => negb (hidden e) && scim_sem sch p e f) p).

(* the LDAP presentation names, case-insensitively, select the attribute they present *)
Definition spec_attr_map (x : str) : str :=
  let l := lower x in
  match assoc l (map (fun kv => (lower (fst kv), snd kv)) vattr_table) with Some k => k | None => l end.

Inductive case :=
| CLdap (sch : schema) (p : list entry) (lim : N) (f : ldapf) (impl : res (list N))
| CScim (sch : schema) (p : list entry) (lim : N) (f : scimf) (impl : res (list N))
| CMap (input output : str).

Definition agree (c : case) : bool :=
  match c with
  | CLdap sch p lim f impl => out_eqb (run_ldap sch p lim f) impl
  | CScim sch p lim f impl => out_eqb (run_scim sch p lim f) impl
  | CMap i o => str_eqb (ldap_attr_map i) o
  end.

(* the property on the IMPLEMENTATION's answer: rejected, or exactly the standard's selection *)
Definition pcheck (c : case) : bool :=
  match c with
  | CLdap sch p lim f impl =>
      match impl with Err _ => true | Ok r => set_eqb r (std_ldap sch p f) end
  | CScim sch p lim f impl =>
      match impl with Err _ => true | Ok r => set_eqb r (std_scim sch p f) end
  | CMap i o => str_eqb (spec_attr_map i) o
  end.

Definition known (c : case) : bool :=
  match c with
  | CLdap sch p _ f _ => ldap_known sch p f
  | CScim sch _ _ f _ => negb tree_fixed_scim && scim_known sch f
  | CMap i _ => str_eqb (lower i) (s "pwdchangedtime")
  end.
