(* KV.C41.Props — property theorems only. *)
From Coq Require Import List NArith Bool String.
Import ListNotations.
Require Import KV.Base.Filter KV.C41.Model KV.C41.Proofs.
Open Scope N_scope.

(* ---------------------------------------------------------------- LDAP *)

(* THE PROPERTY for LDAP, at full strength: for every schema, every population (it only serves to
   resolve names to uuids), every depth / element budget and EVERY filter tree that the translator
   accepts and validation lets through, every entry matches the translated filter iff the RFC 4511
   evaluation of the source filter is TRUE. *)
Definition C41_ldap_full_statement : Prop :=
  forall sch p depth lim f g lim',
    from_ldap sch p depth lim f = Ok (g, lim') -> fvalid sch g = true ->
    forall e, fmatch sch e g = tv_true (ldap_sem sch p e f).

(* It does NOT hold for the code as it is: the filter name = * b * a * (two any-parts) is translated to And[Cnt b; Cnt a], which
   the entry named "ab" satisfies although no "a" follows a "b" in it.  (Three more kinds of
   counterexample are in Witness.v; all four were replayed on the real server.) *)
Theorem C41_ldap_refuted : ~ C41_ldap_full_statement.
Proof.
  intros H.
  pose (sch := [(s "name", (SyIname, false))] : schema).
  pose (f := LSub (s "name") None [s "b"; s "a"] None).
  pose (g := FcAnd [FcLeaf KCnt (s "name") (VS (s "b")); FcLeaf KCnt (s "name") (VS (s "a"))]).
  assert (F : from_ldap sch [] 12 32 f = Ok (g, 31)) by (vm_compute; reflexivity).
  assert (V : fvalid sch g = true) by (vm_compute; reflexivity).
  specialize (H sch [] 12 32 f g 31 F V [(s "name", [VS (s "ab")])]).
  vm_compute in H. discriminate.
Qed.

(* What DOES hold, for all schemas, populations, budgets, entries and all filter trees (unbounded
   nesting of and / or / not over equality, presence, substring): outside the two deviation
   classes recognised by `ldap_known` — a substring assertion with two or more parts; a term the
   standard leaves Undefined (spn equality with an unparsable value, substring on a syntax without
   substring matching) — the source filter is never Undefined and the translated filter matches
   exactly when it is TRUE.  In particular NOT is negation and a multi-valued attribute matches
   when any value does. *)
Theorem C41_ldap_partial :
  forall sch p depth lim f g lim',
    ldap_known sch p f = false ->
    from_ldap sch p depth lim f = Ok (g, lim') -> fvalid sch g = true ->
    forall e, ldap_sem sch p e f <> UU /\ fmatch sch e g = tv_true (ldap_sem sch p e f).
Proof.
  intros sch p depth lim f g lim' Hk Hf Hv e.
  rewrite (ldap_partial sch p f depth lim g lim' Hk Hf Hv e). split.
  - apply tv_of_not_uu.
  - symmetry. apply tv_true_of.
Qed.

(* Search level: outside the deviation classes, whenever the server-side pipeline (wrap as
   do_search does, translate, validate, hide recycled / tombstones, match) answers at all, it
   answers EXACTLY the live entries on which the standard evaluation is TRUE. *)
Theorem C41_ldap_search_exact_partial :
  forall sch p lim f r,
    ldap_known sch p f = false -> run_ldap sch p lim f = Ok r -> r = std_ldap sch p f.
Proof. exact run_ldap_std. Qed.

(* The shape of the substring deviation, for EVERY substring assertion (any number of parts, any
   syntax, any entry): whatever the standard selects, the translated filter selects too — the
   server's answer to a substring term is a superset (too many entries at a positive position,
   too few under a NOT), never an unrelated set. *)
Theorem C41_ldap_substring_superset :
  forall sch p a ini anys fin depth lim g lim' e,
    from_ldap sch p depth lim (LSub a ini anys fin) = Ok (g, lim') ->
    ldap_sem sch p e (LSub a ini anys fin) = TT -> fmatch sch e g = true.
Proof. exact ldap_substring_superset. Qed.

(* ge / le / approx / extensible are refused, never silently reinterpreted *)
Theorem C41_ldap_unsupported_rejected :
  forall sch p depth lim a v f,
    f = LGe a v \/ f = LLe a v \/ f = LApprox a v \/ f = LExt a v ->
    exists e, from_ldap sch p depth lim f = Err e.
Proof. exact ldap_unsupported_rejected. Qed.

(* ---------------------------------------------------------------- SCIM *)

(* THE PROPERTY for SCIM, at full strength (RFC 7644 3.4.2.2), for the translator of tree `fx`
   (false = as pinned, true = with /verif/fixes/C41.patch). *)
Definition C41_scim_full_statement_gen (fx : bool) : Prop :=
  forall sch p depth lim f g lim',
    from_scim_gen fx sch p depth lim f = Ok (g, lim') -> fvalid sch g = true ->
    forall e, entry_okb sch e = true -> fmatch sch e g = scim_sem sch p e f.
(* ... for the tree /repo holds (KV.C41.Model.tree_fixed_scim) *)
Definition C41_scim_full_statement : Prop := C41_scim_full_statement_gen tree_fixed_scim.

(* Refuted for the pinned translator: `member gt X` is translated to pres AND NOT (lt OR eq), i.e.
   "EVERY value is greater"; a group whose members are {5, 20} does not match `member gt 10`.
   (String ordering is the second kind of counterexample, in Witness.v.) *)
Theorem C41_scim_prefix_refuted : ~ C41_scim_full_statement_gen false.
Proof.
  intros H.
  pose (sch := [(s "member", (SyRefer, true))] : schema).
  pose (u := s "00000000-0000-0000-0000-00000000000a").
  pose (f := SCmp OGt (s "member") false (JStr u)).
  pose (g := scim_leaf OGt (s "member") (VN 10)).
  assert (F : from_scim_gen false sch [] 12 32 f = Ok (g, 31)) by (vm_compute; reflexivity).
  assert (V : fvalid sch g = true) by (vm_compute; reflexivity).
  assert (E : entry_okb sch [(s "member", [VN 5; VN 20])] = true) by (vm_compute; reflexivity).
  specialize (H sch [] 12 32 f g 31 F V _ E).
  vm_compute in H. discriminate.
Qed.

(* The tree /repo holds is the pinned one (tree_fixed_scim = false), so the property is refuted
   for it.  When the fix is committed and the flag flipped, this theorem is to be replaced by
   `C41_scim_full : C41_scim_full_statement` proved by `exact C41_scim_fixed_full`. *)
Theorem C41_scim_refuted : ~ C41_scim_full_statement.
Proof. exact C41_scim_prefix_refuted. Qed.

(* With the fix (ordering operators refused where the server cannot give them the standard's
   meaning) the FULL statement holds: every accepted SCIM filter tree, every schema-respecting
   entry, no exception class. *)
Theorem C41_scim_fixed_full : C41_scim_full_statement_gen true.
Proof.
  intros sch p depth lim f g lim' Hf _ e He. exact (scim_fixed_full sch p f depth lim g lim' Hf e He).
Qed.

(* What holds for BOTH trees and every filter tree: outside `scim_known` (an ordering operator on a
   syntax the server cannot order, or gt / ge on an attribute the schema allows to be multi-valued)
   and for every entry that respects the schema, translated filter = standard meaning. *)
Theorem C41_scim_partial :
  forall fx sch p depth lim f g lim',
    scim_known sch f = false -> from_scim_gen fx sch p depth lim f = Ok (g, lim') ->
    forall e, entry_okb sch e = true -> fmatch sch e g = scim_sem sch p e f.
Proof. intros fx sch p depth lim f g lim'. apply scim_partial. Qed.

(* Search level, for the tree /repo holds: outside the class `known` recognises, the pipeline
   answers exactly the standard's selection of live entries, or rejects. *)
Theorem C41_scim_search_exact_partial :
  forall sch p lim f r,
    negb tree_fixed_scim && scim_known sch f = false -> forallb (entry_okb sch) p = true ->
    run_scim sch p lim f = Ok r -> r = std_scim sch p f.
Proof. exact run_scim_std. Qed.

(* ne, sub-attribute paths and complex filters are refused *)
Theorem C41_scim_unsupported_rejected :
  forall fx sch p depth lim f,
    (exists a j, f = SCmp ONe a false j) \/ (exists a, f = SPres a true) \/
    (exists o a j, f = SCmp o a true j) \/ (exists a, f = SComplex a) ->
    exists e, from_scim_gen fx sch p depth lim f = Err e.
Proof. exact scim_unsupported_rejected. Qed.

(* ---------------------------------------------------------------- the run-time tie *)

(* On a recorded case outside the deviation classes, agreement of the real server's answer with
   the model's forces the real answer to satisfy the property: rejected, or exactly the standard's
   selection.  So a run with zero disagreements transfers the two `_partial` theorems to every
   observed implementation case. *)
Theorem C41_agree_implies_property_ldap :
  forall sch p lim f impl,
    known (CLdap sch p lim f impl) = false ->
    agree (CLdap sch p lim f impl) = true -> pcheck (CLdap sch p lim f impl) = true.
Proof. intros sch p lim f impl Hk. apply agree_pcheck_ldap. exact Hk. Qed.

Theorem C41_agree_implies_property_scim :
  forall sch p lim f impl,
    known (CScim sch p lim f impl) = false -> forallb (entry_okb sch) p = true ->
    agree (CScim sch p lim f impl) = true -> pcheck (CScim sch p lim f impl) = true.
Proof. intros sch p lim f impl Hk. apply agree_pcheck_scim. exact Hk. Qed.
