(* KV.C41.Proofs — lemmas and proofs for C41. *)
From Coq Require Import List NArith Bool String Ascii Lia.
Import ListNotations.
Require Import KV.Base.Filter KV.C41.Model.
Open Scope N_scope.

Arguments N.add : simpl never.
Arguments N.sub : simpl never.
Arguments N.mul : simpl never.
Arguments N.ltb : simpl never.
Arguments N.leb : simpl never.
Arguments N.eqb : simpl never.
Arguments ldap_attr_map : simpl never.
Arguments clone_pv : simpl never.
Arguments scim_pv : simpl never.
Arguments sub_terms : simpl never.
Arguments leaf_holds : simpl never.
Arguments sub_match : simpl never.

(* ------------------------------------------------------------------ basics *)
Lemma str_eqb_eq : forall a b, str_eqb a b = true -> a = b.
Proof.
  induction a as [|x a IH]; destruct b as [|y b]; simpl; try discriminate; auto.
  intros H. apply andb_true_iff in H as [H1 H2]. apply N.eqb_eq in H1. subst. f_equal. auto.
Qed.

Lemma assoc_in {A} : forall k (m : list (str * A)) x, assoc k m = Some x -> In (k, x) m.
Proof.
  induction m as [|[k' y] m IH]; simpl; intros x H; try discriminate.
  destruct (str_eqb k k') eqn:E.
  - apply str_eqb_eq in E. subst. inversion H. subst. left. reflexivity.
  - right. auto.
Qed.

Lemma existsb_ext' {A} (f g : A -> bool) : (forall x, f x = g x) -> forall l, existsb f l = existsb g l.
Proof. intros H. induction l as [|x l IH]; simpl; auto. rewrite H, IH. reflexivity. Qed.

Lemma existsb_false' {A} (l : list A) : existsb (fun _ => false) l = false.
Proof. induction l; simpl; auto. Qed.

Lemma existsb_orb {A} (f g : A -> bool) : forall l, existsb (fun x => f x || g x) l = existsb f l || existsb g l.
Proof.
  induction l as [|x l IH]; simpl; auto. rewrite IH.
  destruct (f x), (g x), (existsb f l), (existsb g l); reflexivity.
Qed.

Lemma filter_ext' {A} (f g : A -> bool) : (forall x, f x = g x) -> forall l, filter f l = filter g l.
Proof. intros H. induction l as [|x l IH]; simpl; auto. rewrite H, IH. reflexivity. Qed.

Lemma tv_true_of : forall b, tv_true (tv_of b) = b.
Proof. destruct b; reflexivity. Qed.
Lemma tv_and_of : forall a b, tv_and (tv_of a) (tv_of b) = tv_of (a && b).
Proof. destruct a, b; reflexivity. Qed.
Lemma tv_or_of : forall a b, tv_or (tv_of a) (tv_of b) = tv_of (a || b).
Proof. destruct a, b; reflexivity. Qed.
Lemma tv_not_of : forall a, tv_not (tv_of a) = tv_of (negb a).
Proof. destruct a; reflexivity. Qed.
Lemma tv_of_not_uu : forall b, tv_of b <> UU.
Proof. destruct b; discriminate. Qed.

Lemma subset_refl : forall a, subset a a = true.
Proof.
  intros a. unfold subset. apply forallb_forall. intros x Hx. unfold mem.
  apply existsb_exists. exists x. split; auto. apply N.eqb_refl.
Qed.
Lemma set_eqb_refl : forall a, set_eqb a a = true.
Proof. intros a. unfold set_eqb. rewrite subset_refl. reflexivity. Qed.
Lemma set_eqb_sym : forall a b, set_eqb a b = set_eqb b a.
Proof. intros a b. unfold set_eqb. apply andb_comm. Qed.

(* ------------------------------------------------------------------ hidden entries *)
Lemma fmatch_ignore_hidden : forall sch e g,
  fmatch sch e (ignore_hidden g) = negb (hidden e) && fmatch sch e g.
Proof.
  intros sch e g. unfold ignore_hidden, hidden. simpl. unfold leaf_holds.
  rewrite !orb_false_r, andb_true_r. reflexivity.
Qed.

(* ------------------------------------------------------------------ substring assertions with one part *)
Lemma sub_match_ini : forall q t, sub_match (Some q) [] None t = prefix q t.
Proof. intros q t. unfold sub_match. destruct (prefix q t); reflexivity. Qed.

Lemma find_after_contains : forall q t,
  (match find_after q t with Some _ => true | None => false end) = contains q t.
Proof.
  intros q. induction t as [|c t IH]; simpl.
  - destruct (prefix q []); reflexivity.
  - destruct (prefix q (c :: t)); simpl; auto.
Qed.

Lemma sub_match_any : forall q t, sub_match None [q] None t = contains q t.
Proof.
  intros q t. unfold sub_match. simpl. rewrite <- find_after_contains.
  destruct (find_after q t); reflexivity.
Qed.

Lemma sub_match_fin : forall q t, sub_match None [] (Some q) t = suffix q t.
Proof. reflexivity. Qed.

(* ------------------------------------------------------------------ threading *)
Lemma thread_forall2 {A B} (f : N -> A -> res (B * N)) : forall l el gs el',
  thread f l el = Ok (gs, el') ->
  Forall2 (fun x g => exists e1 e2, f e1 x = Ok (g, e2)) l gs.
Proof.
  induction l as [|x r IH]; simpl; intros el gs el' H.
  - inversion H. constructor.
  - destruct (f el x) as [[g e1]|er] eqn:E1; try discriminate.
    destruct (thread f r e1) as [[gs' e2]|er] eqn:E2; try discriminate.
    inversion H; subst. constructor; eauto.
Qed.

(* ------------------------------------------------------------------ induction over LDAP filters *)
Section LdapInd.
  Variable P : ldapf -> Prop.
  Hypothesis Hand : forall l, Forall P l -> P (LAnd l).
  Hypothesis Hor : forall l, Forall P l -> P (LOr l).
  Hypothesis Hnot : forall g, P g -> P (LNot g).
  Hypothesis Heq : forall a v, P (LEq a v).
  Hypothesis Hpres : forall a, P (LPres a).
  Hypothesis Hsub : forall a i m f, P (LSub a i m f).
  Hypothesis Hge : forall a v, P (LGe a v).
  Hypothesis Hle : forall a v, P (LLe a v).
  Hypothesis Happrox : forall a v, P (LApprox a v).
  Hypothesis Hext : forall a v, P (LExt a v).
  Fixpoint ldapf_ind' (f : ldapf) : P f :=
    let fix go (l : list ldapf) : Forall P l :=
      match l with
      | [] => Forall_nil P
      | x :: r => Forall_cons x (ldapf_ind' x) (go r)
      end in
    match f with
    | LAnd l => Hand l (go l)
    | LOr l => Hor l (go l)
    | LNot g => Hnot g (ldapf_ind' g)
    | LEq a v => Heq a v
    | LPres a => Hpres a
    | LSub a i m f => Hsub a i m f
    | LGe a v => Hge a v
    | LLe a v => Hle a v
    | LApprox a v => Happrox a v
    | LExt a v => Hext a v
    end.
End LdapInd.

Lemma clone_pv_str : forall sch p a raw v sy m,
  clone_pv sch p a raw = Ok v -> assoc a sch = Some (sy, m) -> is_str sy = true ->
  v = VS (if folds sy then raw else lower raw).
Proof.
  intros sch p a raw v sy m C As S. unfold clone_pv in C. rewrite As in C.
  destruct sy; simpl in *; try discriminate; inversion C; reflexivity.
Qed.

Lemma clone_pv_known : forall sch p a raw v,
  clone_pv sch p a raw = Ok v -> exists sy m, assoc a sch = Some (sy, m).
Proof.
  intros sch p a raw v C. unfold clone_pv in C.
  destruct (assoc a sch) as [[sy m]|]; try discriminate. eauto.
Qed.

(* the one-part substring leaf means the one-part substring assertion *)
Lemma sub_leaf : forall sch e a sy m raw k ini anys fin,
  assoc a sch = Some (sy, m) -> is_str sy = true ->
  (forall t, sub_match (option_map lower ini) (map lower anys) (option_map lower fin) t = strop k (lower raw) t) ->
  (k = KCnt \/ k = KStw \/ k = KEnw) ->
  existsb (fun x => match x with
                    | VS t => sub_match (option_map lower ini) (map lower anys) (option_map lower fin) (nval sy t)
                    | VN _ => false end) (vals e a)
  = leaf_holds sch e k a (VS (if folds sy then raw else lower raw)).
Proof.
  intros sch e a sy m raw k ini anys fin As S Hm Hk.
  unfold leaf_holds.
  assert (E : existsb (fun x => match x with
                    | VS t => sub_match (option_map lower ini) (map lower anys) (option_map lower fin) (nval sy t)
                    | VN _ => false end) (vals e a)
              = match assoc a sch with
                | Some (sy0, _) =>
                    if is_str sy0 then
                      existsb (fun x => match x with
                                        | VS t => if folds sy0 then strop k (lower (if folds sy then raw else lower raw)) (lower t)
                                                  else strop k (if folds sy then raw else lower raw) t
                                        | VN _ => false end) (vals e a)
                    else false
                | None => false
                end).
  { rewrite As, S. apply existsb_ext'. intros [t|n]; auto. rewrite Hm. unfold nval.
    destruct (folds sy); reflexivity. }
  rewrite E. destruct Hk as [-> | [-> | ->]]; reflexivity.
Qed.

Section Ldap.
  Variable sch : schema.
  Variable p : list entry.

  Definition ldap_ok (f : ldapf) : Prop :=
    forall depth lim g lim', ldap_known sch p f = false ->
      from_ldap sch p depth lim f = Ok (g, lim') -> fvalid sch g = true ->
      forall e, ldap_sem sch p e f = tv_of (fmatch sch e g).

  Lemma lift_list : forall nd e l gs,
    Forall ldap_ok l ->
    Forall2 (fun x g => exists e1 e2, from_ldap sch p nd e1 x = Ok (g, e2)) l gs ->
    existsb (ldap_known sch p) l = false -> forallb (fvalid sch) gs = true ->
    Forall2 (fun x g => ldap_sem sch p e x = tv_of (fmatch sch e g)) l gs.
  Proof.
    intros nd e l gs HF H2. induction H2 as [|x g l gs [e1 [e2 Hx]] H2 IH]; intros Hk Hv.
    - constructor.
    - inversion HF as [|? ? Px PF]; subst. simpl in Hk, Hv.
      apply orb_false_iff in Hk as [Hk1 Hk2]. apply andb_true_iff in Hv as [Hv1 Hv2].
      constructor; auto. eapply Px; eauto.
  Qed.

  Lemma and_list : forall e l gs,
    Forall2 (fun x g => ldap_sem sch p e x = tv_of (fmatch sch e g)) l gs ->
    fold_right (fun x acc => tv_and (ldap_sem sch p e x) acc) TT l = tv_of (forallb (fmatch sch e) gs).
  Proof.
    intros e l gs H. induction H as [|x g l gs Hx H IH]; simpl; auto.
    rewrite Hx, IH. apply tv_and_of.
  Qed.
  Lemma or_list : forall e l gs,
    Forall2 (fun x g => ldap_sem sch p e x = tv_of (fmatch sch e g)) l gs ->
    fold_right (fun x acc => tv_or (ldap_sem sch p e x) acc) FF l = tv_of (existsb (fmatch sch e) gs).
  Proof.
    intros e l gs H. induction H as [|x g l gs Hx H IH]; simpl; auto.
    rewrite Hx, IH. apply tv_or_of.
  Qed.

  Lemma ldap_partial : forall f, ldap_ok f.
  Proof.
    induction f using ldapf_ind'; unfold ldap_ok; intros depth lim g lim' Hk Hf Hv e;
      simpl in Hf; destruct (depth =? 0); try discriminate; destruct (lim =? 0); try discriminate.
    - (* And *)
      destruct (thread _ l (lim - 1)) as [[gs e1]|er] eqn:T; try discriminate.
      inversion Hf; subst g lim'. clear Hf. apply thread_forall2 in T. simpl in T.
      simpl in Hk, Hv. apply andb_true_iff in Hv as [_ Hv].
      simpl. apply and_list. eapply lift_list; eauto.
    - (* Or *)
      destruct (thread _ l (lim - 1)) as [[gs e1]|er] eqn:T; try discriminate.
      inversion Hf; subst g lim'. clear Hf. apply thread_forall2 in T. simpl in T.
      simpl in Hk, Hv. apply andb_true_iff in Hv as [_ Hv].
      simpl. apply or_list. eapply lift_list; eauto.
    - (* Not *)
      destruct (from_ldap sch p (depth - 1) (lim - 1) f) as [[g' e1]|er] eqn:F; try discriminate.
      inversion Hf; subst g lim'. simpl in Hk, Hv. simpl.
      rewrite (IHf _ _ _ _ Hk F Hv e). apply tv_not_of.
    - (* Eq *)
      simpl in Hk. simpl.
      destruct (clone_pv sch p (ldap_attr_map a) v) as [pv|er] eqn:C.
      + inversion Hf; subst g lim'. reflexivity.
      + rewrite Hk in Hf. discriminate.
    - (* Pres *)
      inversion Hf; subst g lim'. reflexivity.
    - (* Sub *)
      destruct (sub_terms sch p (ldap_attr_map a) i m f) as [ts|er] eqn:S; try discriminate.
      inversion Hf; subst g lim'. clear Hf.
      simpl in Hk. apply orb_false_iff in Hk as [Hk1 Hk2].
      destruct i as [x|]; destruct m as [|q [|q2 r]]; destruct f as [y|]; simpl in Hk1; try discriminate;
        unfold sub_terms in S; simpl in S.
      + (* initial only *)
        destruct (clone_pv sch p (ldap_attr_map a) x) as [v|er] eqn:C; simpl in S; try discriminate.
        inversion S; subst ts. clear S.
        destruct (clone_pv_known _ _ _ _ _ C) as [sy [mu As]].
        unfold syn_of in Hk2. rewrite As in Hk2. apply negb_false_iff in Hk2.
        rewrite (clone_pv_str _ _ _ _ _ _ _ C As Hk2).
        simpl. unfold syn_of. rewrite As, Hk2, andb_true_r. f_equal.
        apply (sub_leaf sch e (ldap_attr_map a) sy mu x KStw (Some x) [] None As Hk2); auto.
        intros t. apply sub_match_ini.
      + (* final only *)
        destruct (clone_pv sch p (ldap_attr_map a) y) as [v|er] eqn:C; simpl in S; try discriminate.
        inversion S; subst ts. clear S.
        destruct (clone_pv_known _ _ _ _ _ C) as [sy [mu As]].
        unfold syn_of in Hk2. rewrite As in Hk2. apply negb_false_iff in Hk2.
        rewrite (clone_pv_str _ _ _ _ _ _ _ C As Hk2).
        simpl. unfold syn_of. rewrite As, Hk2, andb_true_r. f_equal.
        apply (sub_leaf sch e (ldap_attr_map a) sy mu y KEnw None [] (Some y) As Hk2); auto.
      + (* no part at all: an empty And, refused by validate *)
        inversion S; subst ts. simpl in Hv. discriminate.
      + (* one any *)
        destruct (clone_pv sch p (ldap_attr_map a) q) as [v|er] eqn:C; simpl in S; try discriminate.
        inversion S; subst ts. clear S.
        destruct (clone_pv_known _ _ _ _ _ C) as [sy [mu As]].
        unfold syn_of in Hk2. rewrite As in Hk2. apply negb_false_iff in Hk2.
        rewrite (clone_pv_str _ _ _ _ _ _ _ C As Hk2).
        simpl. unfold syn_of. rewrite As, Hk2, andb_true_r. f_equal.
        apply (sub_leaf sch e (ldap_attr_map a) sy mu q KCnt None [q] None As Hk2); auto.
        intros t. apply sub_match_any.
  Qed.
End Ldap.

(* ------------------------------------------------------------------ SCIM *)
Lemma scim_pv_ok : forall sch p a j pv,
  scim_pv sch p a j = Ok pv ->
  exists sy m, assoc a sch = Some (sy, m) /\
    ((is_str sy = true /\ exists x, pv = VS (if folds sy then x else lower x))
     \/ (is_uuidlike sy = true /\ exists n, pv = VN n)).
Proof.
  intros sch p a j pv H. unfold scim_pv in H.
  destruct (assoc a sch) as [[sy m]|]; try discriminate.
  exists sy, m. split; auto.
  destruct sy, j; simpl in *; try discriminate; inversion H; subst;
    first [ left; split; [reflexivity | eexists; reflexivity]
          | right; split; [reflexivity | eexists; reflexivity] ].
Qed.

Lemma str_not_uuidlike : forall sy, is_str sy = true -> is_uuidlike sy = false.
Proof. destruct sy; simpl; auto; discriminate. Qed.
Lemma uuidlike_ord : forall sy, is_uuidlike sy = true -> is_ord sy = true /\ is_str sy = false.
Proof. destruct sy; simpl; auto; discriminate. Qed.

Lemma entry_ok_single : forall sch e a sy vs,
  entry_okb sch e = true -> assoc a sch = Some (sy, false) -> is_uuidlike sy = true ->
  assoc a e = Some vs -> exists m, vs = [VN m].
Proof.
  intros sch e a sy vs H As U Ae. unfold entry_okb in H. rewrite forallb_forall in H.
  apply assoc_in in Ae. specialize (H _ Ae). simpl in H. rewrite As, U in H. simpl in H.
  destruct vs as [|v [|v2 r]]; simpl in H; try discriminate.
  destruct v; simpl in H; try discriminate. eauto.
Qed.

Lemma scim_known_cmp : forall sch o a sub j,
  scim_known sch (SCmp o a sub j)
  = match assoc a sch with
    | Some (sy, multi) => is_ordop o && (negb (is_uuidlike sy) || (is_gtop o && multi))
    | None => false
    end.
Proof. reflexivity. Qed.
Lemma scim_known_not : forall sch g, scim_known sch (SNot g) = scim_known sch g.
Proof. reflexivity. Qed.
Lemma scim_known_or : forall sch l r, scim_known sch (SOr l r) = scim_known sch l || scim_known sch r.
Proof. reflexivity. Qed.
Lemma scim_known_and : forall sch l r, scim_known sch (SAnd l r) = scim_known sch l || scim_known sch r.
Proof. reflexivity. Qed.
Lemma scim_known_pres : forall sch a sub, scim_known sch (SPres a sub) = false.
Proof. reflexivity. Qed.
Opaque scim_known.

Lemma scim_leaf_ok : forall sch p e o a j pv,
  scim_known sch (SCmp o a false j) = false -> o <> ONe ->
  scim_pv sch p a j = Ok pv -> entry_okb sch e = true ->
  fmatch sch e (scim_leaf o a pv) = scim_sem sch p e (SCmp o a false j).
Proof.
  intros sch p e o a j pv Hk Hne Hpv Hok.
  destruct (scim_pv_ok _ _ _ _ _ Hpv) as [sy [m [As Hcase]]].
  simpl. unfold syn_of. rewrite As, Hpv. rewrite scim_known_cmp, As in Hk.
  destruct Hcase as [[Hs [x ->]] | [Hu [n ->]]].
  - (* a string syntax: only eq / co / sw / ew are in scope *)
    rewrite (str_not_uuidlike _ Hs) in Hk. simpl in Hk. rewrite andb_true_r in Hk.
    destruct o; simpl in Hk; try discriminate; try congruence; simpl; unfold leaf_holds;
      rewrite ?As, ?Hs; try reflexivity;
      apply existsb_ext'; intros [t|k]; unfold scim_cmp, nval; rewrite ?Hs; simpl; auto;
      destruct (folds sy); reflexivity.
  - (* uuid / reference *)
    destruct (uuidlike_ord _ Hu) as [Ho Hns]. rewrite Hu in Hk. simpl in Hk.
    destruct o; try congruence; simpl; unfold leaf_holds; rewrite ?As, ?Ho, ?Hns.
    + (* eq *) reflexivity.
    + (* co *) symmetry. apply existsb_false'.
    + (* sw *) symmetry. apply existsb_false'.
    + (* ew *) symmetry. apply existsb_false'.
    + (* gt *)
      simpl in Hk. subst m.
      unfold has, vals. destruct (assoc a e) as [vs|] eqn:Ae; simpl; auto.
      destruct (entry_ok_single _ _ _ _ _ Hok As Hu Ae) as [k ->]. simpl.
      destruct (N.ltb_spec k n), (N.eqb_spec n k), (N.ltb_spec n k); simpl; try reflexivity; lia.
    + (* lt *)
      apply existsb_ext'. intros [t|k]; reflexivity.
    + (* ge *)
      simpl in Hk. subst m.
      unfold has, vals. destruct (assoc a e) as [vs|] eqn:Ae; simpl; auto.
      destruct (entry_ok_single _ _ _ _ _ Hok As Hu Ae) as [k ->]. simpl.
      destruct (N.ltb_spec k n), (N.eqb_spec n k), (N.ltb_spec n k); simpl; try reflexivity; lia.
    + (* le *)
      rewrite orb_false_r.
      rewrite (existsb_ext' (fun x => scim_cmp sy OLe (VN n) x)
                            (fun x => (match x with VN k => k <? n | VS _ => false end) || val_eqb (VN n) x)).
      * symmetry. apply (existsb_orb (fun x => match x with VN k => k <? n | VS _ => false end) (val_eqb (VN n))).
      * intros [t|k]; reflexivity.
Qed.

Lemma scim_partial : forall fx sch p f depth lim g lim',
  scim_known sch f = false -> from_scim_gen fx sch p depth lim f = Ok (g, lim') ->
  forall e, entry_okb sch e = true -> fmatch sch e g = scim_sem sch p e f.
Proof.
  intros fx sch p. induction f as [a sub|o a sub j|f IH|l IHl r IHr|l IHl r IHr|a];
    intros depth lim g lim' Hk Hf e Hok;
    simpl in Hf; destruct (depth =? 0); try discriminate; destruct (lim =? 0); try discriminate.
  - destruct sub; try discriminate. inversion Hf; subst. reflexivity.
  - destruct sub; [destruct o; discriminate|].
    destruct (scim_pv sch p a j) as [pv|er] eqn:Hpv; [|destruct o; discriminate].
    rewrite Hk, andb_false_r in Hf.
    assert (Hne : o <> ONe) by (intros ->; discriminate).
    assert (Hg : g = scim_leaf o a pv) by (destruct o; try congruence; inversion Hf; reflexivity).
    subst g. apply scim_leaf_ok; auto.
  - destruct (from_scim_gen fx sch p (depth - 1) (lim - 1) f) as [[g' e1]|er] eqn:F; try discriminate.
    inversion Hf; subst. rewrite scim_known_not in Hk. simpl. rewrite (IH _ _ _ _ Hk F e Hok). reflexivity.
  - destruct (from_scim_gen fx sch p (depth - 1) (lim - 1) l) as [[gl e1]|er] eqn:F1; try discriminate.
    destruct (from_scim_gen fx sch p (depth - 1) e1 r) as [[gr e2]|er] eqn:F2; try discriminate.
    inversion Hf; subst. rewrite scim_known_or in Hk. apply orb_false_iff in Hk as [Hk1 Hk2]. simpl.
    rewrite (IHl _ _ _ _ Hk1 F1 e Hok), (IHr _ _ _ _ Hk2 F2 e Hok), orb_false_r. reflexivity.
  - destruct (from_scim_gen fx sch p (depth - 1) (lim - 1) l) as [[gl e1]|er] eqn:F1; try discriminate.
    destruct (from_scim_gen fx sch p (depth - 1) e1 r) as [[gr e2]|er] eqn:F2; try discriminate.
    inversion Hf; subst. rewrite scim_known_and in Hk. apply orb_false_iff in Hk as [Hk1 Hk2]. simpl.
    rewrite (IHl _ _ _ _ Hk1 F1 e Hok), (IHr _ _ _ _ Hk2 F2 e Hok), andb_true_r. reflexivity.
Qed.

(* with the fix, whatever the translator accepts is in scope *)
Lemma fixed_in_scope : forall sch p f depth lim r,
  from_scim_gen true sch p depth lim f = Ok r -> scim_known sch f = false.
Proof.
  intros sch p. induction f as [a sub|o a sub j|f IH|l IHl r0 IHr|l IHl r0 IHr|a];
    intros depth lim r Hf;
    simpl in Hf; destruct (depth =? 0); try discriminate; destruct (lim =? 0); try discriminate.
  - apply scim_known_pres.
  - destruct sub; [destruct o; discriminate|].
    destruct (scim_pv sch p a j) as [pv|er] eqn:Hpv; [|destruct o; discriminate].
    destruct (scim_known sch (SCmp o a false j)); [destruct o; discriminate | reflexivity].
  - destruct (from_scim_gen true sch p (depth - 1) (lim - 1) f) as [[g' e1]|er] eqn:F; try discriminate.
    rewrite scim_known_not. eapply IH; eauto.
  - destruct (from_scim_gen true sch p (depth - 1) (lim - 1) l) as [[gl e1]|er] eqn:F1; try discriminate.
    destruct (from_scim_gen true sch p (depth - 1) e1 r0) as [[gr e2]|er] eqn:F2; try discriminate.
    rewrite scim_known_or, (IHl _ _ _ F1), (IHr _ _ _ F2). reflexivity.
  - destruct (from_scim_gen true sch p (depth - 1) (lim - 1) l) as [[gl e1]|er] eqn:F1; try discriminate.
    destruct (from_scim_gen true sch p (depth - 1) e1 r0) as [[gr e2]|er] eqn:F2; try discriminate.
    rewrite scim_known_and, (IHl _ _ _ F1), (IHr _ _ _ F2). reflexivity.
Qed.

Lemma scim_fixed_full : forall sch p f depth lim g lim',
  from_scim_gen true sch p depth lim f = Ok (g, lim') ->
  forall e, entry_okb sch e = true -> fmatch sch e g = scim_sem sch p e f.
Proof.
  intros sch p f depth lim g lim' Hf. eapply scim_partial; eauto. eapply fixed_in_scope; eauto.
Qed.

Lemma scope_of_flag : forall fx sch p f depth lim r,
  negb fx && scim_known sch f = false -> from_scim_gen fx sch p depth lim f = Ok r ->
  scim_known sch f = false.
Proof.
  intros [|] sch p f depth lim r Hk Hf.
  - eapply fixed_in_scope; eauto.
  - exact Hk.
Qed.

(* ------------------------------------------------------------------ search results *)
Lemma ldap_known_class : forall sch p v, ldap_known sch p (LEq a_class v) = false.
Proof.
  intros sch p v. cbn [ldap_known].
  destruct (clone_pv sch p (ldap_attr_map a_class) v); [reflexivity | vm_compute; reflexivity].
Qed.

Lemma ldap_wrap_known : forall sch p f, ldap_known sch p (ldap_wrap f) = ldap_known sch p f.
Proof.
  intros sch p f.
  assert (E : ldap_known sch p (ldap_wrap f)
              = ldap_known sch p f
                || ((ldap_known sch p (LEq a_class (s "classtype"))
                     || (ldap_known sch p (LEq a_class (s "attributetype"))
                         || (ldap_known sch p (LEq a_class (s "access_control_profile")) || false)))
                    || false)) by reflexivity.
  rewrite E, !ldap_known_class. simpl. apply orb_false_r.
Qed.

Lemma run_ldap_std : forall sch p lim f r,
  ldap_known sch p f = false -> run_ldap sch p lim f = Ok r -> r = std_ldap sch p f.
Proof.
  intros sch p lim f r Hk H. unfold run_ldap, compile_ldap in H.
  destruct (from_ldap sch p depth_max lim (ldap_wrap f)) as [[g el]|er] eqn:F; try discriminate.
  destruct (fvalid sch g) eqn:V; try discriminate. inversion H; subst r. clear H.
  unfold search, std_ldap. f_equal. apply filter_ext'. intros e.
  rewrite fmatch_ignore_hidden. f_equal.
  rewrite (ldap_partial sch p (ldap_wrap f) depth_max lim g el); auto.
  - symmetry. apply tv_true_of.
  - rewrite ldap_wrap_known. exact Hk.
Qed.

Lemma filter_ext_in {A} (f g : A -> bool) : forall l, (forall x, In x l -> f x = g x) -> filter f l = filter g l.
Proof.
  induction l as [|x l IH]; simpl; intros H; auto.
  rewrite (H x (or_introl eq_refl)), IH; auto.
Qed.

Lemma run_scim_std : forall sch p lim f r,
  negb tree_fixed_scim && scim_known sch f = false -> forallb (entry_okb sch) p = true ->
  run_scim sch p lim f = Ok r -> r = std_scim sch p f.
Proof.
  intros sch p lim f r Hk Hp H. unfold run_scim, compile_scim, from_scim in H.
  destruct (from_scim_gen tree_fixed_scim sch p depth_max lim f) as [[g el]|er] eqn:F; try discriminate.
  destruct (fvalid sch g) eqn:V; try discriminate. inversion H; subst r. clear H.
  pose proof (scope_of_flag _ _ _ _ _ _ _ Hk F) as Hs.
  unfold search, std_scim. f_equal. apply filter_ext_in. intros e He.
  rewrite fmatch_ignore_hidden. f_equal.
  rewrite forallb_forall in Hp.
  apply (scim_partial tree_fixed_scim sch p f depth_max lim g el Hs F e (Hp e He)).
Qed.

Lemma agree_pcheck_ldap : forall sch p lim f impl,
  ldap_known sch p f = false -> agree (CLdap sch p lim f impl) = true -> pcheck (CLdap sch p lim f impl) = true.
Proof.
  intros sch p lim f impl Hk H. simpl in *. destruct impl as [r|er]; auto.
  destruct (run_ldap sch p lim f) as [r'|er] eqn:R; simpl in H; try discriminate.
  rewrite (run_ldap_std _ _ _ _ _ Hk R) in H. rewrite set_eqb_sym. exact H.
Qed.

Lemma agree_pcheck_scim : forall sch p lim f impl,
  negb tree_fixed_scim && scim_known sch f = false -> forallb (entry_okb sch) p = true ->
  agree (CScim sch p lim f impl) = true -> pcheck (CScim sch p lim f impl) = true.
Proof.
  intros sch p lim f impl Hk Hp H. simpl in *. destruct impl as [r|er]; auto.
  destruct (run_scim sch p lim f) as [r'|er] eqn:R; simpl in H; try discriminate.
  rewrite (run_scim_std _ _ _ _ _ Hk Hp R) in H. rewrite set_eqb_sym. exact H.
Qed.

(* ------------------------------------------------------------------ rejection of what is not offered *)
Lemma ldap_unsupported_rejected : forall sch p depth lim a v f,
  f = LGe a v \/ f = LLe a v \/ f = LApprox a v \/ f = LExt a v ->
  exists e, from_ldap sch p depth lim f = Err e.
Proof.
  intros sch p depth lim a v f [-> | [-> | [-> | ->]]]; simpl;
    destruct (depth =? 0); eauto; destruct (lim =? 0); eauto.
Qed.

Lemma scim_unsupported_rejected : forall fx sch p depth lim f,
  (exists a j, f = SCmp ONe a false j) \/ (exists a, f = SPres a true) \/
  (exists o a j, f = SCmp o a true j) \/ (exists a, f = SComplex a) ->
  exists e, from_scim_gen fx sch p depth lim f = Err e.
Proof.
  intros fx sch p depth lim f [[a [j ->]] | [[a ->] | [[o [a [j ->]]] | [a ->]]]]; simpl;
    destruct (depth =? 0); eauto; destruct (lim =? 0); eauto; destruct o; eauto.
Qed.

(* ------------------------------------------------------------------ substring assertions: the server's
   translation is a superset of the standard's selection *)
Lemma prefix_split : forall q t, prefix q t = true -> t = q ++ skipn (List.length q) t.
Proof.
  induction q as [|x q IH]; intros t H; simpl in *; auto.
  destruct t as [|y t]; try discriminate. apply andb_true_iff in H as [H1 H2].
  apply N.eqb_eq in H1. subst. simpl. f_equal. auto.
Qed.
Lemma prefix_app_self : forall q r, prefix q (q ++ r) = true.
Proof. induction q as [|x q IH]; intros r; simpl; auto. rewrite N.eqb_refl. simpl. auto. Qed.
Lemma prefix_app_r : forall q a b, prefix q a = true -> prefix q (a ++ b) = true.
Proof.
  induction q as [|x q IH]; intros a b H; simpl in *; auto.
  destruct a as [|y a]; try discriminate. simpl. apply andb_true_iff in H as [H1 H2].
  rewrite H1. simpl. auto.
Qed.
Lemma contains_mid : forall q pre r, contains q (pre ++ q ++ r) = true.
Proof.
  induction pre as [|c pre IH]; intros r.
  - simpl. destruct (q ++ r) eqn:E; simpl; rewrite <- E, prefix_app_self; reflexivity.
  - simpl. rewrite IH. apply orb_true_r.
Qed.
Lemma contains_tail : forall q pre r, contains q r = true -> contains q (pre ++ r) = true.
Proof.
  induction pre as [|c pre IH]; intros r H; simpl; auto. rewrite (IH r H). apply orb_true_r.
Qed.
Lemma suffix_tail : forall q pre r, suffix q r = true -> suffix q (pre ++ r) = true.
Proof. intros q pre r H. unfold suffix in *. rewrite rev_app_distr. apply prefix_app_r. exact H. Qed.

Lemma find_after_split : forall q t r, find_after q t = Some r -> exists pre, t = pre ++ q ++ r.
Proof.
  intros q. induction t as [|c t IH]; intros r H; simpl in H.
  - destruct (prefix q []) eqn:P; try discriminate. inversion H; subst. exists []. simpl.
    apply prefix_split in P. exact P.
  - destruct (prefix q (c :: t)) eqn:P.
    + inversion H; subst. exists []. simpl. apply prefix_split in P. exact P.
    + destruct (IH _ H) as [pre E]. exists (c :: pre). simpl. rewrite E. reflexivity.
Qed.

Lemma anys_after_spec : forall anys t r, anys_after anys t = Some r ->
  forallb (fun q => contains q t) anys = true /\ exists pre, t = pre ++ r.
Proof.
  induction anys as [|q rest IH]; intros t r H; simpl in H.
  - inversion H; subst. split; auto. exists []. reflexivity.
  - destruct (find_after q t) as [t'|] eqn:F; try discriminate.
    destruct (find_after_split _ _ _ F) as [pre1 E1].
    destruct (IH _ _ H) as [Hall [pre2 E2]]. split.
    + simpl. apply andb_true_iff. split.
      * rewrite E1. apply contains_mid.
      * apply forallb_forall. intros q' Hq'. rewrite forallb_forall in Hall.
        rewrite E1, app_assoc. apply contains_tail. auto.
    + exists (pre1 ++ q ++ pre2). rewrite E1, E2. rewrite <- !app_assoc. reflexivity.
Qed.

(* the standard's substring assertion on ONE value implies each of the server's independent terms *)
Lemma sub_match_implies_terms : forall ini anys fin t,
  sub_match ini anys fin t = true ->
  (match ini with Some q => prefix q t | None => true end) = true /\
  forallb (fun q => contains q t) anys = true /\
  (match fin with Some q => suffix q t | None => true end) = true.
Proof.
  intros ini anys fin t H. unfold sub_match in H.
  assert (exists t1 pre0, (match ini with Some q => if prefix q t then Some (skipn (List.length q) t) else None | None => Some t end) = Some t1
          /\ t = pre0 ++ t1 /\ (match ini with Some q => prefix q t | None => true end) = true) as [t1 [pre0 [E0 [Et Hi]]]].
  { destruct ini as [q|].
    - destruct (prefix q t) eqn:P; try discriminate. exists (skipn (List.length q) t), q. repeat split; auto.
      apply prefix_split. exact P.
    - exists t, []. repeat split; auto. }
  rewrite E0 in H. destruct (anys_after anys t1) as [t2|] eqn:A; try discriminate.
  destruct (anys_after_spec _ _ _ A) as [Hall [pre2 E2]]. repeat split; auto.
  - apply forallb_forall. intros q Hq. rewrite forallb_forall in Hall. rewrite Et.
    apply contains_tail. auto.
  - destruct fin as [q|]; auto. rewrite Et, E2, app_assoc. apply suffix_tail. exact H.
Qed.


Lemma leaf_str_witness : forall sch e a sy m k raw t,
  assoc a sch = Some (sy, m) -> is_str sy = true -> (k = KCnt \/ k = KStw \/ k = KEnw) ->
  In (VS t) (vals e a) -> strop k (lower raw) (nval sy t) = true ->
  leaf_holds sch e k a (VS (if folds sy then raw else lower raw)) = true.
Proof.
  intros sch e a sy m k raw t As S Hk Hin Hs.
  assert (E : existsb (fun x => match x with
                                | VS t0 => if folds sy then strop k (lower (if folds sy then raw else lower raw)) (lower t0)
                                           else strop k (if folds sy then raw else lower raw) t0
                                | VN _ => false end) (vals e a) = true).
  { apply existsb_exists. exists (VS t). split; auto. unfold nval in Hs. destruct (folds sy); exact Hs. }
  unfold leaf_holds. rewrite As, S. destruct Hk as [-> | [-> | ->]]; exact E.
Qed.

Lemma anys_terms : forall sch p e a sy m t anys ts,
  assoc a sch = Some (sy, m) -> is_str sy = true -> In (VS t) (vals e a) ->
  mapm (fun x => bind (clone_pv sch p a x) (fun v => Ok (FcLeaf KCnt a v))) anys = Ok ts ->
  forallb (fun q => contains q (nval sy t)) (map lower anys) = true ->
  forallb (fmatch sch e) ts = true.
Proof.
  intros sch p e a sy m t anys. induction anys as [|q rest IH]; intros ts As S Hin Hm Hall; simpl in Hm.
  - inversion Hm. reflexivity.
  - destruct (clone_pv sch p a q) as [v|er] eqn:C; simpl in Hm; try discriminate.
    destruct (mapm _ rest) as [ts'|er] eqn:M; simpl in Hm; try discriminate.
    inversion Hm; subst ts. simpl in Hall. apply andb_true_iff in Hall as [H1 H2].
    simpl. rewrite (IH ts' As S Hin eq_refl H2), andb_true_r.
    rewrite (clone_pv_str _ _ _ _ _ _ _ C As S).
    eapply leaf_str_witness; eauto.
Qed.

(* At a positive position the server's translation of a substring assertion never loses an entry
   the standard selects: it is a superset (the deviation is only ever "too many"). *)
Lemma ldap_substring_superset : forall sch p a ini anys fin depth lim g lim' e,
  from_ldap sch p depth lim (LSub a ini anys fin) = Ok (g, lim') ->
  ldap_sem sch p e (LSub a ini anys fin) = TT -> fmatch sch e g = true.
Proof.
  intros sch p a ini anys fin depth lim g lim' e Hf Hs.
  simpl in Hf. destruct (depth =? 0); try discriminate. destruct (lim =? 0); try discriminate.
  destruct (sub_terms sch p (ldap_attr_map a) ini anys fin) as [ts|er] eqn:S; try discriminate.
  inversion Hf; subst g lim'. clear Hf.
  simpl in Hs. unfold syn_of in Hs.
  destruct (assoc (ldap_attr_map a) sch) as [[sy m]|] eqn:As; try discriminate.
  destruct (is_str sy) eqn:St; try discriminate.
  destruct (existsb _ (vals e (ldap_attr_map a))) eqn:Ex; try discriminate. clear Hs.
  apply existsb_exists in Ex as [x [Hin Hx]]. destruct x as [t|n]; try discriminate.
  apply sub_match_implies_terms in Hx as [Hi [Ha Hfin]].
  unfold sub_terms in S.
  destruct (match ini with
            | Some x => bind (clone_pv sch p (ldap_attr_map a) x) (fun v => Ok [FcLeaf KStw (ldap_attr_map a) v])
            | None => Ok [] end) as [t1|er] eqn:E1; simpl in S; try discriminate.
  destruct (mapm _ anys) as [t2|er] eqn:E2; simpl in S; try discriminate.
  destruct (match fin with
            | Some x => bind (clone_pv sch p (ldap_attr_map a) x) (fun v => Ok [FcLeaf KEnw (ldap_attr_map a) v])
            | None => Ok [] end) as [t3|er] eqn:E3; simpl in S; try discriminate.
  inversion S; subst ts. clear S. simpl. rewrite !forallb_app.
  apply andb_true_iff. split; [|apply andb_true_iff; split].
  - destruct ini as [x|]; simpl in E1.
    + destruct (clone_pv sch p (ldap_attr_map a) x) as [v|er] eqn:C; simpl in E1; try discriminate.
      inversion E1; subst t1. simpl. rewrite andb_true_r.
      rewrite (clone_pv_str _ _ _ _ _ _ _ C As St). eapply leaf_str_witness; eauto.
    + inversion E1. reflexivity.
  - eapply anys_terms; eauto.
  - destruct fin as [x|]; simpl in E3.
    + destruct (clone_pv sch p (ldap_attr_map a) x) as [v|er] eqn:C; simpl in E3; try discriminate.
      inversion E3; subst t3. simpl. rewrite andb_true_r.
      rewrite (clone_pv_str _ _ _ _ _ _ _ C As St). eapply leaf_str_witness; eauto.
    + inversion E3. reflexivity.
Qed.

Transparent scim_known.
