(* KV.C03.Model — index and name-table maintenance of the kanidm backend (executable only).
   Transcribes:
     BackendWriteTransaction::entry_index / create / modify / reap_tombstones tail / reindex
                                                     (server/lib/src/be/mod.rs)
     Entry::idx_diff / idx_name2uuid_diff / idx_externalid2uuid_diff / idx_uuid2spn_diff /
     idx_uuid2rdn_diff / mask_recycled_ts            (server/lib/src/entry.rs)
     IdlArcSqliteWriteTransaction: get_idl / write_idl / name2uuid! uuid2spn! ... macros /
     write_name2uuid_add / _rem / write_uuid2spn / danger_purge_idxs / commit
                                                     (server/lib/src/be/idl_arc_sqlite.rs)
   An entry is abstracted to what indexing reads (supplied by the implementation dump):
   id, uuid, mask_recycled_ts, name2uuid candidates, external id, uuid2spn value, uuid2rdn
   string and the set of (attr, index type, key) triples it generates under the current
   index metadata.  All strings / triples / uuids are interned to N by the harness.

   Each cache (idl_cache, name_cache) is modelled as the write transaction's thread-local
   overlay on top of the committed SQLite table; the shared ARC is assumed coherent with
   SQLite (it is only ever filled from SQLite reads and from committed overlays). *)
From Coq Require Import List NArith Bool.
Import ListNotations.
Open Scope N_scope.

Record ent := mkent {
  eid : N; euuid : N; elive : bool;       (* elive = mask_recycled_ts().is_some() *)
  enames : list N;                        (* get_name2uuid_cands (a set) *)
  eext : option N;                        (* get_externalid2uuid *)
  espn : N; erdn : N;                     (* get_uuid2spn / get_uuid2rdn *)
  ekeys : list N }.                       (* every (attr,itype,key) the entry produces (a set) *)

(* ------------------------------------------------------------------ finite maps keyed by N *)
Section Assoc.
  Context {V : Type}.
  Fixpoint aget (k : N) (l : list (N * V)) : option V :=
    match l with
    | [] => None
    | (k', v) :: r => if k =? k' then Some v else aget k r
    end.
  Definition adel (k : N) (l : list (N * V)) : list (N * V) :=
    filter (fun p => negb (fst p =? k)) l.
  (* insert / replace: the key occurs exactly once afterwards *)
  Definition aset (k : N) (v : V) (l : list (N * V)) : list (N * V) := (k, v) :: adel k l.
End Assoc.

Definition mem (x : N) (l : list N) : bool := existsb (N.eqb x) l.
(* set difference a \ b *)
Definition ldiff (a b : list N) : list N := filter (fun x => negb (mem x b)) a.

(* IDLBitRange::insert_id / remove_id on ascending duplicate-free id lists *)
Fixpoint ins (i : N) (l : list N) : list N :=
  match l with
  | [] => [i]
  | x :: r => if i <? x then i :: l else if i =? x then l else x :: ins i r
  end.
Definition rem (i : N) (l : list N) : list N := filter (fun x => negb (x =? i)) l.

(* ------------------------------------------------------------------ name cache over a table *)
(* ThreadCacheItem: Present(v, clean) | Removed(dirty).  `remove` (clean) is never used. *)
Inductive item := IDirty (v : option N) | IClean (v : N).
Record layer := mklayer { ov : list (N * item); db : list (N * N) }.
Definition layer0 := mklayer [] [].

(* what the transaction has written: the intended content of the table *)
Definition vget (k : N) (L : layer) : option N :=
  match aget k (ov L) with
  | Some (IDirty o) => o
  | Some (IClean v) => Some v
  | None => aget k (db L)
  end.

(* the name2uuid! / externalid2uuid! / uuid2spn! / uuid2rdn! macros: `cache.get` answers None
   both for "absent" and for "Removed"; on None the SQLite table is read and a hit is
   inserted CLEAN (replacing whatever the overlay held for that key). *)
Definition look (k : N) (L : layer) : option N * layer :=
  match aget k (ov L) with
  | Some (IDirty (Some v)) => (Some v, L)
  | Some (IClean v) => (Some v, L)
  | _ =>
      match aget k (db L) with
      | Some v => (Some v, mklayer (aset k (IClean v) (ov L)) (db L))
      | None => (None, L)
      end
  end.

Definition ladd (k v : N) (L : layer) : layer := mklayer (aset k (IDirty (Some v)) (ov L)) (db L).
Definition lrem (k : N) (L : layer) : layer := mklayer (aset k (IDirty None) (ov L)) (db L).
(* commit: iter_mut_mark_clean writes every dirty item to SQLite *)
Definition flush1 (d : list (N * N)) (p : N * item) : list (N * N) :=
  match snd p with
  | IDirty (Some v) => aset (fst p) v d
  | IDirty None => adel (fst p) d
  | IClean _ => d
  end.
Definition lflush (L : layer) : layer := mklayer [] (fold_left flush1 (ov L) (db L)).

(* ------------------------------------------------------------------ idl cache over the index tables *)
Record ilayer := mkil { iov : list (N * list N); idb : list (N * list N) }.
Definition ilayer0 := mkil [] [].
(* get_idl: overlay, else SQLite (a missing row is the empty list) *)
Definition iget (k : N) (I : ilayer) : list N :=
  match aget k (iov I) with
  | Some l => l
  | None => match aget k (idb I) with Some l => l | None => [] end
  end.
(* write_idl: always a dirty Present item (an empty list when the idl is empty) *)
Definition iput (k : N) (l : list N) (I : ilayer) : ilayer := mkil (aset k l (iov I)) (idb I).
(* IdlSqlite::write_idl deletes the row of an empty idl *)
Definition iflush1 (d : list (N * list N)) (p : N * list N) : list (N * list N) :=
  match snd p with [] => adel (fst p) d | l => aset (fst p) l d end.
Definition iflush (I : ilayer) : ilayer := mkil [] (fold_left iflush1 (iov I) (idb I)).

(* ------------------------------------------------------------------ backend write transaction *)
Record st := mkst {
  ents : list (N * ent);                  (* id2entry as the transaction sees it *)
  idx : ilayer;
  n2u : layer; x2u : layer; u2s : layer; u2r : layer }.
Definition st0 := mkst [] ilayer0 layer0 layer0 layer0 layer0.

Definition mask (o : option ent) : option ent :=
  match o with Some e => if elive e then Some e else None | None => None end.

(* Entry::idx_name2uuid_diff : (add, remove) *)
Definition n2u_diff (a b : option ent) : option (list N) * option (list N) :=
  match a, b with
  | None, None => (None, None)
  | None, Some y => (Some (enames y), None)
  | Some x, None => (None, Some (enames x))
  | Some x, Some y => (Some (ldiff (enames y) (enames x)), Some (ldiff (enames x) (enames y)))
  end.
Definition oeqb (a b : option N) : bool :=
  match a, b with Some x, Some y => x =? y | None, None => true | _, _ => false end.
(* Entry::idx_externalid2uuid_diff : (add, remove) *)
Definition x2u_diff (a b : option ent) : option N * option N :=
  match a, b with
  | None, None => (None, None)
  | None, Some y => (eext y, None)
  | Some x, None => (None, eext x)
  | Some x, Some y => if oeqb (eext x) (eext y) then (None, None) else (eext y, eext x)
  end.
(* Entry::idx_uuid2spn_diff / idx_uuid2rdn_diff : None | Some(Ok v) | Some(Err) *)
Definition val_diff (f : ent -> N) (a b : option ent) : option (option N) :=
  match a, b with
  | None, None => None
  | None, Some y => Some (Some (f y))
  | Some _, None => Some None
  | Some x, Some y => if f x =? f y then None else Some (Some (f y))
  end.
Definition val_write (u : N) (d : option (option N)) (L : layer) : layer :=
  match d with None => L | Some (Some v) => ladd u v L | Some None => lrem u L end.

(* the block "Write the changes out to the backend" of entry_index, for uuid [u] *)
Definition names_write (u : N) (a b : option ent) (s : st) : st :=
  let n1 := match fst (n2u_diff a b) with
            | Some l => fold_left (fun L k => ladd k u L) l (n2u s) | None => n2u s end in
  let n2 := match snd (n2u_diff a b) with
            | Some l => fold_left (fun L k => lrem k L) l n1 | None => n1 end in
  let x1 := match fst (x2u_diff a b) with Some k => ladd k u (x2u s) | None => x2u s end in
  let x2 := match snd (x2u_diff a b) with Some k => lrem k x1 | None => x1 end in
  mkst (ents s) (idx s) n2 x2
       (val_write u (val_diff espn a b) (u2s s)) (val_write u (val_diff erdn a b) (u2r s)).

(* Entry::idx_diff : (false,k) = Err = remove, (true,k) = Ok = add *)
Definition keys_diff (a b : option ent) : list (bool * N) :=
  match a, b with
  | None, None => []
  | Some x, None => map (pair false) (ekeys x)
  | None, Some y => map (pair true) (ekeys y)
  | Some x, Some y =>
      map (pair false) (ldiff (ekeys x) (ekeys y)) ++ map (pair true) (ldiff (ekeys y) (ekeys x))
  end.
Definition key_apply (id : N) (I : ilayer) (p : bool * N) : ilayer :=
  iput (snd p) ((if fst p then ins id else rem id) (iget (snd p) I)) I.

(* BackendWriteTransaction::entry_index; None = Err(InvalidState) *)
Definition entry_index (pre post : option ent) (s : st) : option st :=
  match pre, post with
  | None, None => None
  | _, _ =>
      let e := match post, pre with Some y, _ => Some y | None, o => o end in
      let e_uuid := match e with Some y => euuid y | None => 0 end in
      let e_id := match e with Some y => eid y | None => 0 end in
      let uuid_same := match pre, post with Some x, Some y => euuid x =? euuid y | _, _ => true end in
      let r := if uuid_same then Some (mask pre, s)
               else match mask pre with
                    | None => None
                    | Some x => Some (None, names_write (euuid x) (Some x) None s)
                    end in
      match r with
      | None => None
      | Some (mpre, s1) =>
          let s2 := names_write e_uuid mpre (mask post) s1 in
          Some (mkst (ents s2) (fold_left (key_apply e_id) (keys_diff pre post) (idx s2))
                     (n2u s2) (x2u s2) (u2s s2) (u2r s2))
      end
  end.

Definition with_ents (es : list (N * ent)) (s : st) : st :=
  mkst es (idx s) (n2u s) (x2u s) (u2s s) (u2r s).

Fixpoint index_all (es : list ent) (s : option st) : option st :=
  match es with
  | [] => s
  | e :: r => index_all r (match s with Some s1 => entry_index None (Some e) s1 | None => None end)
  end.

(* reindex: danger_purge_idxs (drop tables, clear caches) + create_idxs + entry_index(None, e)
   for every stored entry *)
Definition reindex (s : st) : option st :=
  index_all (map snd (ents s)) (Some (mkst (ents s) ilayer0 layer0 layer0 layer0 layer0)).

Inductive tbl := TN2U | TX2U | TU2S | TU2R.
Definition tget (t : tbl) (s : st) : layer :=
  match t with TN2U => n2u s | TX2U => x2u s | TU2S => u2s s | TU2R => u2r s end.
Definition tset (t : tbl) (L : layer) (s : st) : st :=
  match t with
  | TN2U => mkst (ents s) (idx s) L (x2u s) (u2s s) (u2r s)
  | TX2U => mkst (ents s) (idx s) (n2u s) L (u2s s) (u2r s)
  | TU2S => mkst (ents s) (idx s) (n2u s) (x2u s) L (u2r s)
  | TU2R => mkst (ents s) (idx s) (n2u s) (x2u s) (u2s s) L
  end.

Definition opt_eqb (a b : option N) : bool := oeqb a b.
Fixpoint list_eqb (a b : list N) : bool :=
  match a, b with
  | [], [] => true
  | x :: r, y :: t => (x =? y) && list_eqb r t
  | _, _ => false
  end.
Definition ent_eqb (a b : ent) : bool :=
  (eid a =? eid b) && (euuid a =? euuid b) && Bool.eqb (elive a) (elive b) &&
  list_eqb (enames a) (enames b) && oeqb (eext a) (eext b) && (espn a =? espn b) &&
  (erdn a =? erdn b) && list_eqb (ekeys a) (ekeys b).
(* same entry up to the generated index keys (which depend on the index metadata) *)
Definition ent_same (a b : ent) : bool :=
  (eid a =? eid b) && (euuid a =? euuid b) && Bool.eqb (elive a) (elive b) &&
  list_eqb (enames a) (enames b) && oeqb (eext a) (eext b) && (espn a =? espn b) &&
  (erdn a =? erdn b).
Fixpoint all2 {A} (f : A -> A -> bool) (a b : list A) : bool :=
  match a, b with
  | [], [] => true
  | x :: r, y :: t => f x y && all2 f r t
  | _, _ => false
  end.

(* operations of a write transaction *)
Inductive op :=
| OPut (e : ent)                          (* write_identries *)
| ODel (id : N)                           (* delete_identry *)
| OIdx (pre post : option ent)            (* entry_index(pre, post) *)
| OLook (t : tbl) (k : N) (res : option N)  (* name2uuid/externalid2uuid/uuid2spn/uuid2rdn; res = observed *)
| OReindex (es : list ent).               (* update_idxmeta + reindex; es = the stored entries' views
                                             under the new index metadata *)

(* one operation; the bool says whether an observed lookup result equals the model's *)
Definition step (s : st) (o : op) : option (st * bool) :=
  match o with
  | OPut e => Some (with_ents (aset (eid e) e (ents s)) s, true)
  | ODel i => Some (with_ents (adel i (ents s)) s, true)
  | OIdx a b => match entry_index a b s with Some s1 => Some (s1, true) | None => None end
  | OLook t k res =>
      let '(r, L) := look k (tget t s) in Some (tset t L s, oeqb r res)
  | OReindex es =>
      if (N.of_nat (length es) =? N.of_nat (length (ents s))) &&
         forallb (fun e => match aget (eid e) (ents s) with Some e' => ent_same e e' | None => false end) es then
        match reindex (with_ents (map (fun e => (eid e, e)) es) s) with
        | Some s1 => Some (s1, true) | None => None end
      else None
  end.

Fixpoint steps (s : st) (ok : bool) (l : list op) : option (st * bool) :=
  match l with
  | [] => Some (s, ok)
  | o :: r => match step s o with Some (s1, b) => steps s1 (ok && b) r | None => None end
  end.

(* BackendWriteTransaction::commit -> IdlArcSqliteWriteTransaction::commit *)
Definition commit (s : st) : st :=
  mkst (ents s) (iflush (idx s)) (lflush (n2u s)) (lflush (x2u s)) (lflush (u2s s)) (lflush (u2r s)).

(* ------------------------------------------------------------------ correspondence *)
(* what the harness reads back after every transaction (raw SQLite tables, stored entries) *)
Record dump := mkdump {
  d_ents : list ent;
  d_idx : list (N * list N);
  d_n2u : list (N * N); d_x2u : list (N * N); d_u2s : list (N * N); d_u2r : list (N * N);
  d_coh : bool }.            (* every cached read (get_idl, name2uuid, ...) equals the raw table *)

(* ok = every operation returned Ok; a failed or uncommitted transaction is dropped *)
Inductive txn := Txn (ops : list op) (ok : bool) (do_commit : bool) (d : dump).
(* CSrv: a scripted probe on a real QueryServer (internal_batch_modify / internal_modify +
   name_to_uuid): for each probed name, the uuid a full scan finds vs the uuid name_to_uuid
   answers after the commit (None = no answer).  kind 2 = rename chain through replication, 1 = stale lookup, 0 = the probe itself crashed. *)
Inductive case := CHist (txns : list txn) | CSrv (kind : N) (expected observed : list (option N)).

(* equality of two finite maps with duplicate-free keys: same size, same lookups *)
Definition map_eqb {V} (eqv : V -> V -> bool) (m d : list (N * V)) : bool :=
  (N.of_nat (length m) =? N.of_nat (length d)) &&
  forallb (fun p => match aget (fst p) m with Some v => eqv v (snd p) | None => false end) d.
Definition dump_agree (s : st) (d : dump) : bool :=
  map_eqb ent_eqb (ents s) (map (fun e => (eid e, e)) (d_ents d)) &&
  map_eqb list_eqb (idb (idx s)) (d_idx d) &&
  map_eqb N.eqb (db (n2u s)) (d_n2u d) && map_eqb N.eqb (db (x2u s)) (d_x2u d) &&
  map_eqb N.eqb (db (u2s s)) (d_u2s d) && map_eqb N.eqb (db (u2r s)) (d_u2r d).

Definition run_txn (s : st) (ops : list op) (do_commit : bool) : option st * bool :=
  match steps s true ops with
  | Some (s1, lk) => (Some (if do_commit then commit s1 else s), lk)
  | None => (None, true)
  end.

Fixpoint hist_agree (s : st) (l : list txn) : bool :=
  match l with
  | [] => true
  | Txn ops ok cm d :: r =>
      match run_txn s ops cm with
      | (Some s1, lk) => ok && lk && dump_agree s1 d && hist_agree s1 r
      | (None, _) => negb ok && dump_agree s d && hist_agree s r
      end
  end.

Definition agree (c : case) : bool := match c with CHist l => hist_agree st0 l | CSrv _ _ _ => true end.

(* ------------------------------------------------------------------ the property, on the implementation's dumps *)
Fixpoint nodup (l : list N) : bool :=
  match l with [] => true | x :: r => negb (mem x r) && nodup r end.
Fixpoint asc (l : list N) : bool :=
  match l with x :: ((y :: _) as r) => (x <? y) && asc r | _ => true end.

(* what a full scan of the stored entries answers *)
Definition scan_n2u (es : list ent) (n : N) : list N :=
  map euuid (filter (fun e => elive e && mem n (enames e)) es).
Definition scan_x2u (es : list ent) (x : N) : list N :=
  map euuid (filter (fun e => elive e && oeqb (eext e) (Some x)) es).
Definition scan_val (f : ent -> N) (es : list ent) (u : N) : list N :=
  map f (filter (fun e => elive e && (euuid e =? u)) es).
Definition scan_key (es : list ent) (k : N) : list N :=
  map eid (filter (fun e => mem k (ekeys e)) es).
Definition scan (t : tbl) : list ent -> N -> list N :=
  match t with TN2U => scan_n2u | TX2U => scan_x2u | TU2S => scan_val espn | TU2R => scan_val erdn end.

(* the stored entries are well formed and satisfy what the server establishes before it calls
   the backend (ids and uuids unique; attrunique on name / spn / gidnumber / external id) *)
Definition wf_ent (e : ent) : bool := nodup (enames e) && nodup (ekeys e).
Definition all_names (es : list ent) : list N := flat_map (fun e => if elive e then enames e else []) es.
Definition all_exts (es : list ent) : list N :=
  flat_map (fun e => if elive e then match eext e with Some x => [x] | None => [] end else []) es.
Definition uniq (es : list ent) : bool :=
  forallb wf_ent es && nodup (map eid es) && nodup (map euuid es) &&
  nodup (all_names es) && nodup (all_exts es).

(* table = exactly what the scan says, for a single-valued table *)
Definition tbl_mirror (sc : N -> list N) (keys : list N) (d : list (N * N)) : bool :=
  asc (map fst d) &&
  forallb (fun p => list_eqb (sc (fst p)) [snd p]) d &&
  forallb (fun k => match aget k d with Some _ => true | None => match sc k with [] => true | _ => false end end) keys.
Definition idx_mirror (es : list ent) (d : list (N * list N)) : bool :=
  asc (map fst d) &&
  forallb (fun p => match snd p with [] => false | l => list_eqb (scan_key es (fst p)) l end) d &&
  forallb (fun k => match aget k d with Some _ => true | None => false end) (flat_map ekeys es).

Definition dump_mirror (d : dump) : bool :=
  let es := d_ents d in
  d_coh d &&
  idx_mirror es (d_idx d) &&
  tbl_mirror (scan_n2u es) (all_names es) (d_n2u d) &&
  tbl_mirror (scan_x2u es) (all_exts es) (d_x2u d) &&
  tbl_mirror (scan_val espn es) (map euuid (filter elive es)) (d_u2s d) &&
  tbl_mirror (scan_val erdn es) (map euuid (filter elive es)) (d_u2r d).

(* the entries a transaction sees, tracked from its OPut/ODel/OReindex operations only *)
Definition track (es : list (N * ent)) (o : op) : list (N * ent) :=
  match o with
  | OPut e => aset (eid e) e es
  | ODel i => adel i es
  | OReindex l => map (fun e => (eid e, e)) l
  | _ => es
  end.
Definition one (o : option N) : list N := match o with Some v => [v] | None => [] end.
(* every lookup answers what a scan of the entries stored at that moment answers.  A lookup
   is only judged at a point where the stored entries satisfy [uniq] (inside a batch the
   backend is called entry by entry and intermediate tables need not be unique). *)
Fixpoint looks_ok (es : list (N * ent)) (l : list op) : bool :=
  match l with
  | [] => true
  | o :: r =>
      (match o with
       | OLook t k res => negb (uniq (map snd es)) || list_eqb (scan t (map snd es) k) (one res)
       | _ => true
       end) && looks_ok (track es o) r
  end.

Fixpoint hist_ok (prev : list ent) (l : list txn) : bool :=
  match l with
  | [] => true
  | Txn ops ok cm d :: r =>
      (negb ok || looks_ok (map (fun e => (eid e, e)) prev) ops) &&
      (negb (uniq (d_ents d)) || dump_mirror d) &&
      hist_ok (d_ents d) r
  end.

Definition pcheck (c : case) : bool :=
  match c with CHist l => hist_ok [] l | CSrv _ e o => all2 oeqb e o end.

(* ------------------------------------------------------------------ known-finding classes *)
(* K1 "stale lookup": a lookup of a key that this transaction has removed (dirty `Removed` item)
   while the committed SQLite table still holds it: the macro answers the old value and
   re-inserts it clean, which also cancels the removal. *)
Definition stale (k : N) (L : layer) : bool :=
  match aget k (ov L), aget k (db L) with
  | Some (IDirty None), Some _ => true
  | _, _ => false
  end.
(* K2 "foreign removal": entry_index removes a name / external id that the table currently
   assigns to a different uuid (another entry of the same batch has just taken it). *)
Definition foreign_rem (u : N) (ks : list N) (L : layer) : bool :=
  existsb (fun k => match vget k L with Some u' => negb (u' =? u) | None => false end) ks.
Definition extl (e : ent) : list N := match eext e with Some x => [x] | None => [] end.
Definition op_known (s : st) (o : op) : bool :=
  match o with
  | OLook t k _ => stale k (tget t s)
  | OIdx a b =>
      match mask a with
      | Some x =>
          let same := match b with Some y => euuid x =? euuid y | None => true end in
          let post_names := match mask b with Some y => if same then enames y else [] | None => [] end in
          let post_ext := match mask b with Some y => if same then extl y else [] | None => [] end in
          foreign_rem (euuid x) (ldiff (enames x) post_names) (n2u s) ||
          foreign_rem (euuid x) (ldiff (extl x) post_ext) (x2u s)
      | None => false
      end
  | _ => false
  end.
Fixpoint ops_known (s : st) (l : list op) : bool :=
  match l with
  | [] => false
  | o :: r => op_known s o || match step s o with Some (s1, _) => ops_known s1 r | None => false end
  end.
Fixpoint hist_known (s : st) (l : list txn) : bool :=
  match l with
  | [] => false
  | Txn ops ok cm d :: r =>
      ops_known s ops ||
      match run_txn s ops cm with (Some s1, _) => hist_known s1 r | (None, _) => hist_known s r end
  end.
(* a CSrv probe is, by construction, the server-level image of K1 (kind 1) or K2 (kind 2) *)
Definition known (c : case) : bool :=
  match c with CHist l => hist_known st0 l | CSrv k _ _ => (k =? 1) || (k =? 2) end.
