(* KV.C03.Witness — non-vacuity: concrete non-trivial values meeting the hypotheses. *)
From Coq Require Import List NArith Bool.
Import ListNotations.
Require Import KV.C03.Model KV.C03.Proofs.
Open Scope N_scope.

Definition a1 := mkent 1 1 true [10; 20] (Some 7) 100 200 [1; 2; 3].
Definition b1 := mkent 2 2 true [11] None 101 201 [1; 4].
Definition a2 := mkent 1 1 true [12; 20] (Some 8) 102 202 [1; 3; 5].     (* renamed, new ext id *)
Definition a3 := mkent 1 1 false [12; 20] (Some 8) 102 202 [1; 3; 5; 6]. (* recycled *)
Definition a4 := mkent 1 9 true [12; 20] (Some 8) 102 202 [1; 3; 5].     (* revived with a new uuid *)

(* a history create a, create b, rename a, recycle a: all hypotheses of C03_mirror_reachable_partial
   hold (every intermediate table is unique) and the run succeeds *)
Example C03_witness_chain :
  uniq [a1] = true /\ uniq [a1; b1] = true /\ uniq [a2; b1] = true /\ uniq [a3; b1] = true /\
  exists s, run_idx st0 [(None, Some a1); (None, Some b1); (Some a1, Some a2); (Some a2, Some a3)] = Some s
            /\ vget 12 (n2u s) = None /\ vget 11 (n2u s) = Some 2 /\ iget 6 (idx s) = [1] /\ iget 1 (idx s) = [1; 2].
Proof. vm_compute. repeat split. eexists. repeat split. Qed.

(* uuid change of a live entry (replication conflict) and of a recycled one (error branch) *)
Example C03_witness_uuid_change :
  (exists s s1, run_idx st0 [(None, Some a2)] = Some s /\ entry_index (Some a2) (Some a4) s = Some s1 /\
                vget 12 (n2u s1) = Some 9 /\ vget 1 (u2s s1) = None /\ vget 9 (u2s s1) = Some 102) /\
  (exists s, run_idx st0 [(None, Some a3)] = Some s /\ entry_index (Some a3) (Some a4) s = None).
Proof. vm_compute. split; repeat eexists. Qed.

(* reindex from a deliberately wrong state (empty tables, entries stored) *)
Example C03_witness_reindex :
  let s := mkst [(1, a1); (2, b1)] ilayer0 (mklayer [] [(99, 5)]) layer0 layer0 layer0 in
  uniq (map snd (ents s)) = true /\
  exists s', reindex s = Some s' /\ vget 99 (n2u s') = None /\ vget 10 (n2u s') = Some 1.
Proof. vm_compute. split; [reflexivity | eexists; repeat split]. Qed.

(* K1 is reachable: delete a committed entry, then look its name up in the same transaction *)
Example C03_witness_stale_reachable :
  exists s1 s2, run_idx st0 [(None, Some b1)] = Some s1 /\
    entry_index (Some b1) None (commit s1) = Some s2 /\
    stale 11 (n2u s2) = true /\ vget 11 (n2u s2) = None /\ fst (look 11 (n2u s2)) = Some 2 /\
    vget 11 (snd (look 11 (n2u s2))) = Some 2.
Proof. vm_compute. repeat eexists. Qed.

(* K2 is reachable: the name swap of the refutation, recognised by op_known *)
Example C03_witness_swap_known :
  exists s1, entry_index (Some wA) (Some wA') w_s = Some s1 /\
    op_known w_s (OIdx (Some wA) (Some wA')) = false /\
    op_known s1 (OIdx (Some wB) (Some wB')) = true.
Proof. vm_compute. eexists. repeat split. Qed.

(* a non-stale lookup (hypothesis of C03_lookup_mirror_partial) *)
Example C03_witness_lookup :
  exists s, run_idx st0 [(None, Some a1)] = Some s /\ stale 10 (tget TN2U (commit s)) = false /\
            fst (look 10 (tget TN2U (commit s))) = Some 1.
Proof. vm_compute. eexists. repeat split. Qed.

(* the correspondence predicates on a small committed history: agree and pcheck hold; on the
   swap history agree holds (the model reproduces the loss), pcheck fails and known fires *)
Definition d_ab := mkdump [a1; b1] [(1, [1; 2]); (2, [1]); (3, [1]); (4, [2])]
  [(10, 1); (11, 2); (20, 1)] [(7, 1)] [(1, 100); (2, 101)] [(1, 200); (2, 201)] true.
Example C03_witness_agree :
  let c := CHist [Txn [OPut a1; OPut b1; OIdx None (Some a1); OIdx None (Some b1); OLook TN2U 10 (Some 1)] true true d_ab] in
  agree c = true /\ pcheck c = true /\ known c = false.
Proof. vm_compute. auto. Qed.

Definition d_w0 := mkdump [wA; wB] [] [(10, 1); (11, 2)] [] [(1, 100); (2, 101)] [(1, 200); (2, 201)] true.
Definition d_w1 := mkdump [wA'; wB'] [] [(10, 2)] [] [(1, 100); (2, 101)] [(1, 200); (2, 201)] true.
Example C03_witness_refuted_on_dump :
  let c := CHist [Txn [OPut wA; OPut wB; OIdx None (Some wA); OIdx None (Some wB)] true true d_w0;
                  Txn [OPut wA'; OPut wB'; OIdx (Some wA) (Some wA'); OIdx (Some wB) (Some wB')] true true d_w1] in
  agree c = true /\ pcheck c = false /\ known c = true.
Proof. vm_compute. auto. Qed.
