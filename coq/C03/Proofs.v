(* KV.C03.Proofs — lemmas and proofs for the index / name-table mirror property. *)
From Coq Require Import List NArith Bool Lia.
From Hammer Require Import Tactics.
Import ListNotations.
Require Import KV.C03.Model.
Open Scope N_scope.

(* ------------------------------------------------------------------ finite maps *)
Section AssocLemmas.
  Context {V : Type}.
  Implicit Types (l : list (N * V)).

  Lemma aget_adel k k' l : aget k (adel k' l) = if k =? k' then None else aget k l.
  Proof.
    unfold adel. induction l as [|[k1 v1] r IH]; cbn.
    - destruct (k =? k'); reflexivity.
    - destruct (k1 =? k') eqn:E1; cbn.
      + apply N.eqb_eq in E1. subst k1. rewrite IH.
        destruct (k =? k') eqn:E; reflexivity.
      + rewrite IH. destruct (k =? k1) eqn:E2.
        * apply N.eqb_eq in E2. subst k1. rewrite E1. reflexivity.
        * reflexivity.
  Qed.

  Lemma aget_aset k k' (v : V) l : aget k (aset k' v l) = if k =? k' then Some v else aget k l.
  Proof.
    unfold aset. cbn. destruct (k =? k') eqn:E; [reflexivity|].
    rewrite aget_adel, E. reflexivity.
  Qed.

  Lemma aget_none_notin k l : aget k l = None <-> ~ In k (map fst l).
  Proof.
    induction l as [|[k1 v1] r IH]; cbn; [tauto|].
    destruct (k =? k1) eqn:E.
    - apply N.eqb_eq in E. subst. split; [discriminate | intros H; exfalso; apply H; auto].
    - apply N.eqb_neq in E. rewrite IH. split; [intros H [H1|H1]; congruence | tauto].
  Qed.

  Lemma keys_adel k l : forall x, In x (map fst (adel k l)) <-> x <> k /\ In x (map fst l).
  Proof.
    intros x. unfold adel. rewrite !in_map_iff. split.
    - intros [[k1 v1] [E H]]. apply filter_In in H. destruct H as [H Hn]. cbn in *. subst.
      apply negb_true_iff, N.eqb_neq in Hn. split; [assumption|]. exists (x, v1); auto.
    - intros [Hn [[k1 v1] [E H]]]. cbn in *. subst. exists (x, v1). split; [reflexivity|].
      apply filter_In. split; [assumption|]. cbn. apply negb_true_iff, N.eqb_neq. assumption.
  Qed.

  Lemma nodup_adel k l : NoDup (map fst l) -> NoDup (map fst (adel k l)).
  Proof.
    induction l as [|[k1 v1] r IH]; cbn; [auto|]. intros H. inversion H as [|? ? Hn Hr]; subst.
    destruct (k1 =? k); cbn; [apply IH; assumption|]. constructor; [|apply IH; assumption].
    intros Hin. apply keys_adel in Hin. tauto.
  Qed.

  Lemma nodup_aset k (v : V) l : NoDup (map fst l) -> NoDup (map fst (aset k v l)).
  Proof.
    intros H. unfold aset. cbn. constructor; [|apply nodup_adel; assumption].
    intros Hin. apply keys_adel in Hin. tauto.
  Qed.
End AssocLemmas.

Lemma mem_In x l : mem x l = true <-> In x l.
Proof.
  unfold mem. rewrite existsb_exists. split.
  - intros [y [H E]]. apply N.eqb_eq in E. subst. assumption.
  - intros H. exists x. split; [assumption | apply N.eqb_refl].
Qed.
Lemma mem_false x l : mem x l = false <-> ~ In x l.
Proof. rewrite <- mem_In. destruct (mem x l); split; congruence. Qed.

Lemma In_ldiff x a b : In x (ldiff a b) <-> In x a /\ ~ In x b.
Proof.
  unfold ldiff. rewrite filter_In, negb_true_iff, mem_false. tauto.
Qed.

Lemma In_ins x i l : In x (ins i l) <-> x = i \/ In x l.
Proof.
  induction l as [|y r IH]; cbn; [intuition|].
  destruct (i <? y); cbn; [intuition|].
  destruct (i =? y) eqn:E; cbn.
  - apply N.eqb_eq in E. subst. intuition.
  - rewrite IH. intuition.
Qed.
Lemma In_rem x i l : In x (rem i l) <-> x <> i /\ In x l.
Proof.
  unfold rem. rewrite filter_In, negb_true_iff, N.eqb_neq. tauto.
Qed.

(* ------------------------------------------------------------------ name layers *)
Lemma vget_ladd k k' v L : vget k (ladd k' v L) = if k =? k' then Some v else vget k L.
Proof. unfold vget, ladd. cbn [ov db]. rewrite aget_aset. destruct (k =? k'); reflexivity. Qed.
Lemma vget_lrem k k' L : vget k (lrem k' L) = if k =? k' then None else vget k L.
Proof. unfold vget, lrem. cbn [ov db]. rewrite aget_aset. destruct (k =? k'); reflexivity. Qed.

Lemma vget_fold_add u l : forall L k,
  vget k (fold_left (fun L k' => ladd k' u L) l L) = if mem k l then Some u else vget k L.
Proof.
  induction l as [|x r IH]; intros L k; cbn; [reflexivity|].
  rewrite IH, vget_ladd. fold (mem k r). destruct (mem k r), (k =? x); reflexivity.
Qed.
Lemma vget_fold_rem l : forall L k,
  vget k (fold_left (fun L k' => lrem k' L) l L) = if mem k l then None else vget k L.
Proof.
  induction l as [|x r IH]; intros L k; cbn; [reflexivity|].
  rewrite IH, vget_lrem. fold (mem k r). destruct (mem k r), (k =? x); reflexivity.
Qed.

(* well-formed overlay: one item per key; clean items repeat the SQLite value *)
Definition lwf (L : layer) : Prop :=
  NoDup (map fst (ov L)) /\ forall k v, aget k (ov L) = Some (IClean v) -> aget k (db L) = Some v.

Lemma lwf0 : lwf layer0.
Proof. split; [constructor | cbn; discriminate]. Qed.
Lemma lwf_ladd k v L : lwf L -> lwf (ladd k v L).
Proof.
  intros [H1 H2]. split; cbn [ov db ladd].
  - apply nodup_aset. assumption.
  - intros k0 v0. rewrite aget_aset. destruct (k0 =? k); [discriminate | apply H2].
Qed.
Lemma lwf_lrem k L : lwf L -> lwf (lrem k L).
Proof.
  intros [H1 H2]. split; cbn [ov db lrem].
  - apply nodup_aset. assumption.
  - intros k0 v0. rewrite aget_aset. destruct (k0 =? k); [discriminate | apply H2].
Qed.
Lemma lwf_look k L : lwf L -> lwf (snd (look k L)).
Proof.
  intros [H1 H2]. unfold look.
  assert (G : forall v, aget k (db L) = Some v -> lwf (mklayer (aset k (IClean v) (ov L)) (db L))).
  { intros v D. split; cbn [ov db]; [apply nodup_aset; assumption|].
    intros k0 v0. rewrite aget_aset. destruct (k0 =? k) eqn:E0; [|apply H2].
    apply N.eqb_eq in E0. subst. congruence. }
  destruct (aget k (ov L)) as [[[v|]|v]|] eqn:E; cbn [snd]; try (split; assumption).
  - destruct (aget k (db L)) eqn:D; cbn [snd]; [apply G; reflexivity | split; assumption].
  - destruct (aget k (db L)) eqn:D; cbn [snd]; [apply G; reflexivity | split; assumption].
Qed.

Lemma fold_flush ovl : NoDup (map fst ovl) -> forall d k,
  aget k (fold_left flush1 ovl d) =
  match aget k ovl with Some (IDirty o) => o | _ => aget k d end.
Proof.
  induction ovl as [|[k1 i1] r IH]; intros Hn d k; cbn; [reflexivity|].
  inversion Hn as [|? ? Hnot Hr]; subst. rewrite (IH Hr).
  destruct (k =? k1) eqn:E.
  - apply N.eqb_eq in E. subst k1.
    assert (A : aget k r = None) by (apply aget_none_notin; assumption). rewrite A.
    unfold flush1. cbn. destruct i1 as [[v|]|v].
    + rewrite aget_aset, N.eqb_refl. reflexivity.
    + rewrite aget_adel, N.eqb_refl. reflexivity.
    + reflexivity.
  - assert (B : aget k (flush1 d (k1, i1)) = aget k d).
    { unfold flush1. cbn. destruct i1 as [[v|]|v].
      - rewrite aget_aset, E. reflexivity.
      - rewrite aget_adel, E. reflexivity.
      - reflexivity. }
    rewrite B. reflexivity.
Qed.

(* commit writes exactly the transaction's view into the SQLite table *)
Lemma lflush_db L : lwf L -> forall k, aget k (db (lflush L)) = vget k L.
Proof.
  intros [H1 H2] k. unfold lflush, vget. cbn [db].
  rewrite (fold_flush _ H1). destruct (aget k (ov L)) as [[o|v]|] eqn:E; auto.
Qed.
Lemma vget_lflush L : lwf L -> forall k, vget k (lflush L) = vget k L.
Proof. intros H k. rewrite <- (lflush_db L H). unfold vget, lflush. cbn. reflexivity. Qed.
Lemma lwf_lflush L : lwf (lflush L).
Proof. split; cbn; [constructor | discriminate]. Qed.

(* a lookup that is not stale answers the view and does not change it *)
Lemma look_sound k L : lwf L -> stale k L = false ->
  fst (look k L) = vget k L /\ forall k', vget k' (snd (look k L)) = vget k' L.
Proof.
  intros [H1 H2] Hs. unfold look, stale in *.
  destruct (aget k (ov L)) as [[[v|]|v]|] eqn:E.
  - cbn [fst snd]. split; [unfold vget; rewrite E; reflexivity | reflexivity].
  - destruct (aget k (db L)) eqn:D; [discriminate|]. cbn [fst snd].
    split; [unfold vget; rewrite E; reflexivity | reflexivity].
  - cbn [fst snd]. split; [unfold vget; rewrite E; reflexivity | reflexivity].
  - destruct (aget k (db L)) eqn:D; cbn [fst snd].
    + split; [unfold vget; rewrite E; congruence|]. intros k'. unfold vget. cbn [ov db].
      rewrite aget_aset. destruct (k' =? k) eqn:E0; [|reflexivity].
      apply N.eqb_eq in E0. subst. rewrite E. congruence.
    + split; [unfold vget; rewrite E, D; reflexivity | reflexivity].
Qed.

(* ------------------------------------------------------------------ idl layer *)
Definition iwf (I : ilayer) : Prop := NoDup (map fst (iov I)).

Lemma iget_iput k k' l I : iget k (iput k' l I) = if k =? k' then l else iget k I.
Proof. unfold iget, iput. cbn [iov idb]. rewrite aget_aset. destruct (k =? k'); reflexivity. Qed.

Lemma fold_iflush ovl : NoDup (map fst ovl) -> forall d k,
  match aget k (fold_left iflush1 ovl d) with Some l => l | None => [] end =
  match aget k ovl with Some l => l | None => match aget k d with Some l => l | None => [] end end.
Proof.
  induction ovl as [|[k1 l1] r IH]; intros Hn d k; cbn; [reflexivity|].
  inversion Hn as [|? ? Hnot Hr]; subst. rewrite (IH Hr).
  destruct (k =? k1) eqn:E.
  - apply N.eqb_eq in E. subst k1.
    assert (A : aget k r = None) by (apply aget_none_notin; assumption). rewrite A.
    unfold iflush1. cbn. destruct l1.
    + rewrite aget_adel, N.eqb_refl. reflexivity.
    + rewrite aget_aset, N.eqb_refl. reflexivity.
  - assert (B : aget k (iflush1 d (k1, l1)) = aget k d).
    { unfold iflush1. cbn. destruct l1.
      - rewrite aget_adel, E. reflexivity.
      - rewrite aget_aset, E. reflexivity. }
    rewrite B. reflexivity.
Qed.
Lemma iget_iflush I : iwf I -> forall k, iget k (iflush I) = iget k I.
Proof.
  intros H k. unfold iget at 1, iflush. cbn [iov idb aget].
  rewrite (fold_iflush _ H). reflexivity.
Qed.
Lemma iwf_iput k l I : iwf I -> iwf (iput k l I).
Proof. unfold iwf, iput. cbn [iov]. apply nodup_aset. Qed.

(* ------------------------------------------------------------------ the invariant *)
(* E = the stored entries.  A single-valued table mirrors E for (keysof, valof) when it maps
   exactly the keys of the live entries to their values. *)
Definition MirrorMap (E : list ent) (keysof : ent -> list N) (valof : ent -> N) (L : layer) : Prop :=
  forall k v, vget k L = Some v <->
              exists e, In e E /\ elive e = true /\ In k (keysof e) /\ valof e = v.
Definition MirrorIdx (E : list ent) (I : ilayer) : Prop :=
  forall k i, In i (iget k I) <-> exists e, In e E /\ eid e = i /\ In k (ekeys e).
Definition uuidl (e : ent) : list N := [euuid e].

Record Mirror (E : list ent) (s : st) : Prop := mkMirror {
  m_idx : MirrorIdx E (idx s);
  m_n2u : MirrorMap E enames euuid (n2u s);
  m_x2u : MirrorMap E extl euuid (x2u s);
  m_u2s : MirrorMap E uuidl espn (u2s s);
  m_u2r : MirrorMap E uuidl erdn (u2r s) }.

(* what the server guarantees about the stored entries before it calls the backend *)
Definition KeyInj (keysof : ent -> list N) (E : list ent) : Prop :=
  forall e1 e2 k, In e1 E -> In e2 E -> elive e1 = true -> elive e2 = true ->
                  In k (keysof e1) -> In k (keysof e2) -> e1 = e2.
Record Uniq (E : list ent) : Prop := mkUniq {
  u_id : forall e1 e2, In e1 E -> In e2 E -> eid e1 = eid e2 -> e1 = e2;
  u_uuid : KeyInj uuidl E;
  u_name : KeyInj enames E;
  u_ext : KeyInj extl E }.

(* E' is E with [pre] taken out and [post] put in *)
Definition Changed (E : list ent) (pre post : option ent) (E' : list ent) : Prop :=
  forall e, In e E' <-> (In e E /\ Some e <> pre) \/ Some e = post.

Definition okeys (keysof : ent -> list N) (o : option ent) : list N :=
  match o with Some e => keysof e | None => [] end.

(* generic step of a single-valued table: if the new view is "keys of the masked post -> its
   value; other keys of the masked pre -> gone; everything else unchanged", the mirror is kept *)
Lemma map_step E E' pre post keysof valof L L' :
  MirrorMap E keysof valof L ->
  Changed E pre post E' ->
  KeyInj keysof E -> KeyInj keysof E' ->
  (forall x, pre = Some x -> In x E) ->
  (forall k, vget k L' =
     match mask post with
     | Some y => if mem k (keysof y) then Some (valof y)
                 else if mem k (okeys keysof (mask pre)) then None else vget k L
     | None => if mem k (okeys keysof (mask pre)) then None else vget k L
     end) ->
  MirrorMap E' keysof valof L'.
Proof.
  intros HM HC HI HI' Hpre HV k v. rewrite HV. clear HV.
  assert (Hpost : forall y, mask post = Some y -> post = Some y /\ elive y = true).
  { intros y. unfold mask. destruct post as [p|]; [|discriminate]. destruct (elive p) eqn:El; [|discriminate].
    intros [= <-]. auto. }
  assert (Hmpre : forall x, mask pre = Some x -> pre = Some x /\ elive x = true).
  { intros x. unfold mask. destruct pre as [p|]; [|discriminate]. destruct (elive p) eqn:El; [|discriminate].
    intros [= <-]. auto. }
  assert (Hprek : forall x, pre = Some x -> elive x = true -> forall k0, In k0 (keysof x) ->
                  mem k0 (okeys keysof (mask pre)) = true).
  { intros x -> El k0 Hk. unfold mask. rewrite El. cbn. apply mem_In. assumption. }
  (* the unchanged branch, shared by both shapes of [mask post] *)
  assert (Hrest : mem k (okeys keysof (mask pre)) = false ->
            (forall y, mask post = Some y -> ~ In k (keysof y)) ->
            (vget k L = Some v <->
             exists e, In e E' /\ elive e = true /\ In k (keysof e) /\ valof e = v)).
  { intros Hm Hny. rewrite (HM k v). split.
    - intros [e [He [El [Hk Hv]]]]. exists e. repeat split; auto. apply HC. left. split; [assumption|].
      intros Heq. symmetry in Heq. rewrite (Hprek e Heq El k Hk) in Hm. discriminate.
    - intros [e [He [El [Hk Hv]]]]. apply HC in He. destruct He as [[He Hne]|Heq].
      + exists e. auto.
      + exfalso. symmetry in Heq. apply (Hny e); [|assumption]. unfold mask. rewrite Heq, El. reflexivity. }
  destruct (mask post) as [y|] eqn:Emp.
  - destruct (Hpost y eq_refl) as [Hp Ely].
    destruct (mem k (keysof y)) eqn:Eky.
    + apply mem_In in Eky. split.
      * intros [= <-]. exists y. repeat split; auto. apply HC. right. congruence.
      * intros [e [He [El [Hk Hv]]]]. f_equal. rewrite <- Hv. f_equal.
        apply (HI' y e k); auto. apply HC. right. congruence.
    + apply mem_false in Eky.
      destruct (mem k (okeys keysof (mask pre))) eqn:Ekp.
      * split; [discriminate|]. intros [e [He [El [Hk Hv]]]]. exfalso.
        apply HC in He. destruct He as [[He Hne]|Heq].
        -- destruct (mask pre) as [x|] eqn:Emq; cbn in Ekp; [|discriminate].
           destruct (Hmpre x eq_refl) as [Hq Elx]. apply mem_In in Ekp.
           apply Hne. rewrite Hq. f_equal. apply (HI e x k); auto.
        -- assert (e = y) by congruence. subst e. contradiction.
      * apply Hrest; [reflexivity|]. intros y0 [= <-]. assumption.
  - destruct (mem k (okeys keysof (mask pre))) eqn:Ekp.
    + split; [discriminate|]. intros [e [He [El [Hk Hv]]]]. exfalso.
      apply HC in He. destruct He as [[He Hne]|Heq].
      * destruct (mask pre) as [x|] eqn:Emq; cbn in Ekp; [|discriminate].
        destruct (Hmpre x eq_refl) as [Hq Elx]. apply mem_In in Ekp.
        apply Hne. rewrite Hq. f_equal. apply (HI e x k); auto.
      * symmetry in Heq. unfold mask in Emp. rewrite Heq, El in Emp. discriminate.
    + apply Hrest; [reflexivity|]. intros y0 [=].
Qed.

(* ------------------------------------------------------------------ entry_index, table by table *)
Lemma mem_filter k f l : mem k (filter f l) = mem k l && f k.
Proof.
  induction l as [|x r IH]; cbn; [reflexivity|].
  destruct (f x) eqn:Ef; cbn; fold (mem k r); fold (mem k (filter f r)); rewrite IH.
  - destruct (k =? x) eqn:E; cbn; [|reflexivity]. apply N.eqb_eq in E. subst. rewrite Ef.
    destruct (mem x r); reflexivity.
  - destruct (k =? x) eqn:E; cbn; [|reflexivity]. apply N.eqb_eq in E. subst. rewrite Ef.
    rewrite andb_false_r. reflexivity.
Qed.
Lemma mem_ldiff k a b : mem k (ldiff a b) = mem k a && negb (mem k b).
Proof. unfold ldiff. apply mem_filter. Qed.

Definition e_uuid_of (pre post : option ent) : N :=
  match post, pre with Some y, _ => euuid y | None, Some x => euuid x | None, None => 0 end.
Definition e_id_of (pre post : option ent) : N :=
  match post, pre with Some y, _ => eid y | None, Some x => eid x | None, None => 0 end.
Definition uuid_same_of (pre post : option ent) : bool :=
  match pre, post with Some x, Some y => euuid x =? euuid y | _, _ => true end.

(* the name tables after entry_index: one or two [names_write] blocks *)
Definition names_after (pre post : option ent) (s : st) : option st :=
  if uuid_same_of pre post then Some (names_write (e_uuid_of pre post) (mask pre) (mask post) s)
  else match mask pre with
       | Some x => Some (names_write (e_uuid_of pre post) None (mask post)
                                     (names_write (euuid x) (Some x) None s))
       | None => None
       end.

Lemma entry_index_inv pre post s s' :
  entry_index pre post s = Some s' ->
  (pre <> None \/ post <> None) /\
  exists s2, names_after pre post s = Some s2 /\
    n2u s' = n2u s2 /\ x2u s' = x2u s2 /\ u2s s' = u2s s2 /\ u2r s' = u2r s2 /\
    ents s' = ents s /\
    idx s' = fold_left (key_apply (e_id_of pre post)) (keys_diff pre post) (idx s).
Proof.
  unfold entry_index, names_after, uuid_same_of, e_uuid_of, e_id_of.
  destruct pre as [x|], post as [y|]; try discriminate.
  - destruct (euuid x =? euuid y).
    + intros [= <-]. split; [left; discriminate|]. eexists. split; [reflexivity|]. cbn. auto 10.
    + destruct (mask (Some x)) as [x'|]; [|discriminate].
      intros [= <-]. split; [left; discriminate|]. eexists. split; [reflexivity|]. cbn. auto 10.
  - intros [= <-]. split; [left; discriminate|]. eexists. split; [reflexivity|]. cbn. auto 10.
  - intros [= <-]. split; [right; discriminate|]. eexists. split; [reflexivity|]. cbn. auto 10.
Qed.

Definition olist (o : option (list N)) : list N := match o with Some l => l | None => [] end.

Lemma nw_n2u u a b s k :
  vget k (n2u (names_write u a b s)) =
  if mem k (ldiff (okeys enames a) (okeys enames b)) then None
  else if mem k (ldiff (okeys enames b) (okeys enames a)) then Some u else vget k (n2u s).
Proof.
  unfold names_write. cbn [n2u]. rewrite !mem_ldiff.
  destruct a as [x|], b as [y|]; cbn [n2u_diff fst snd okeys].
  - rewrite vget_fold_rem, vget_fold_add, !mem_ldiff. reflexivity.
  - rewrite vget_fold_rem. cbn. rewrite !andb_true_r. reflexivity.
  - rewrite vget_fold_add. cbn. rewrite !andb_true_r. reflexivity.
  - reflexivity.
Qed.

Lemma nw_x2u u a b s k :
  vget k (x2u (names_write u a b s)) =
  if mem k (ldiff (okeys extl a) (okeys extl b)) then None
  else if mem k (ldiff (okeys extl b) (okeys extl a)) then Some u else vget k (x2u s).
Proof.
  unfold names_write. cbn [x2u]. rewrite !mem_ldiff.
  destruct a as [x|], b as [y|]; cbn [x2u_diff fst snd okeys]; unfold extl.
  - destruct (eext x) as [p|], (eext y) as [q|]; cbn [oeqb].
    + destruct (p =? q) eqn:E; cbn [fst snd].
      * apply N.eqb_eq in E. subst. cbn. destruct (k =? q); reflexivity.
      * rewrite vget_lrem, vget_ladd. cbn. apply N.eqb_neq in E.
        destruct (k =? p) eqn:E1, (k =? q) eqn:E2; cbn; try reflexivity.
        apply N.eqb_eq in E1, E2. congruence.
    + cbn [fst snd]. rewrite vget_lrem. cbn. destruct (k =? p); reflexivity.
    + cbn [fst snd]. rewrite vget_ladd. cbn. destruct (k =? q); reflexivity.
    + reflexivity.
  - cbn. destruct (eext x) as [p|]; [rewrite vget_lrem; cbn; destruct (k =? p); reflexivity | reflexivity].
  - cbn. destruct (eext y) as [q|]; [rewrite vget_ladd; cbn; destruct (k =? q); reflexivity | reflexivity].
  - reflexivity.
Qed.

Lemma nw_val (f : ent -> N) (T : st -> layer) u a b s k :
  (forall s0, T (names_write u a b s0) = val_write u (val_diff f a b) (T s0)) ->
  vget k (T (names_write u a b s)) =
  match val_diff f a b with
  | None => vget k (T s)
  | Some o => if k =? u then o else vget k (T s)
  end.
Proof.
  intros H. rewrite H. unfold val_write. destruct (val_diff f a b) as [[v|]|].
  - apply vget_ladd.
  - apply vget_lrem.
  - reflexivity.
Qed.

(* from the "difference form" of a write block to the (post / pre / unchanged) form *)
Lemma diff_form_star (keysof : ent -> list N) (valof : ent -> N) (T : st -> layer) :
  (forall u a b s k,
     vget k (T (names_write u a b s)) =
     if mem k (ldiff (okeys keysof a) (okeys keysof b)) then None
     else if mem k (ldiff (okeys keysof b) (okeys keysof a)) then Some u else vget k (T s)) ->
  forall pre post s s2,
    names_after pre post s = Some s2 ->
    (forall y, post = Some y -> valof y = euuid y) ->
    (forall x, mask pre = Some x -> forall k, In k (keysof x) -> vget k (T s) = Some (euuid x)) ->
    forall k, vget k (T s2) =
      match mask post with
      | Some y => if mem k (keysof y) then Some (valof y)
                  else if mem k (okeys keysof (mask pre)) then None else vget k (T s)
      | None => if mem k (okeys keysof (mask pre)) then None else vget k (T s)
      end.
Proof.
  intros HD pre post s s2 HN Hval Hown k.
  assert (Hpost : forall y, mask post = Some y -> post = Some y).
  { intros y. unfold mask. destruct post as [p|]; [|discriminate]. destruct (elive p); [|discriminate]. congruence. }
  unfold names_after in HN. destruct (uuid_same_of pre post) eqn:Es.
  - injection HN as <-. rewrite HD, !mem_ldiff.
    destruct (mask post) as [y|] eqn:Emp; cbn [okeys].
    + assert (Eu : e_uuid_of pre post = euuid y).
      { rewrite (Hpost y eq_refl). reflexivity. }
      rewrite Eu, (Hval y (Hpost y eq_refl)).
      destruct (mask pre) as [x|] eqn:Emq; cbn [okeys].
      * destruct (mem k (keysof x)) eqn:Ex, (mem k (keysof y)) eqn:Ey; cbn; try reflexivity.
        rewrite (Hown x eq_refl k (proj1 (mem_In _ _) Ex)). f_equal.
        (* same uuid *)
        assert (Hx : pre = Some x).
        { revert Emq. unfold mask. destruct pre as [p|]; [|discriminate]. destruct (elive p); [|discriminate]. congruence. }
        rewrite Hx, (Hpost y eq_refl) in Es. cbn in Es. apply N.eqb_eq in Es. assumption.
      * cbn. destruct (mem k (keysof y)); reflexivity.
    + destruct (mask pre) as [x|]; cbn [okeys]; cbn.
      * destruct (mem k (keysof x)); reflexivity.
      * reflexivity.
  - destruct (mask pre) as [x|] eqn:Emq; [|discriminate]. injection HN as <-.
    rewrite !HD, !mem_ldiff. cbn [okeys]. cbn [mem existsb negb]. rewrite ?andb_true_r, ?andb_false_r. cbn [andb].
    destruct (mask post) as [y|] eqn:Emp; cbn [okeys].
    + assert (Eu : e_uuid_of pre post = euuid y).
      { rewrite (Hpost y eq_refl). reflexivity. }
      rewrite Eu, (Hval y (Hpost y eq_refl)).
      destruct (mem k (keysof y)), (mem k (keysof x)); reflexivity.
    + cbn. destruct (mem k (keysof x)); reflexivity.
Qed.

Lemma mask_some o x : mask o = Some x -> o = Some x /\ elive x = true.
Proof.
  unfold mask. destruct o as [p|]; [|discriminate]. destruct (elive p) eqn:E; [|discriminate].
  intros [= <-]. auto.
Qed.

Lemma val_star (f : ent -> N) (T : st -> layer) :
  (forall u a b s0, T (names_write u a b s0) = val_write u (val_diff f a b) (T s0)) ->
  forall pre post s s2,
    names_after pre post s = Some s2 ->
    (forall x, mask pre = Some x -> vget (euuid x) (T s) = Some (f x)) ->
    forall k, vget k (T s2) =
      match mask post with
      | Some y => if mem k (uuidl y) then Some (f y)
                  else if mem k (okeys uuidl (mask pre)) then None else vget k (T s)
      | None => if mem k (okeys uuidl (mask pre)) then None else vget k (T s)
      end.
Proof.
  intros HT pre post s s2 HN Hown k.
  unfold names_after in HN. destruct (uuid_same_of pre post) eqn:Es.
  - injection HN as <-. rewrite (nw_val f T _ _ _ _ _ (HT _ _ _)).
    destruct (mask post) as [y|] eqn:Emp, (mask pre) as [x|] eqn:Emq; cbn [val_diff okeys uuidl mem existsb];
      rewrite ?orb_false_r.
    + destruct (mask_some _ _ Emp) as [Hp _]. destruct (mask_some _ _ Emq) as [Hq _]. subst pre post.
      cbn in Es. apply N.eqb_eq in Es. cbn [e_uuid_of]. rewrite Es.
      specialize (Hown x eq_refl). rewrite Es in Hown.
      destruct (f x =? f y) eqn:Ef.
      * apply N.eqb_eq in Ef. destruct (k =? euuid y) eqn:Ek; [|reflexivity].
        apply N.eqb_eq in Ek. subst k. congruence.
      * destruct (k =? euuid y); reflexivity.
    + destruct (mask_some _ _ Emp) as [Hp _]. subst post. cbn [e_uuid_of]. reflexivity.
    + destruct (mask_some _ _ Emq) as [Hq _]. subst pre.
      assert (Eu : e_uuid_of (Some x) post = euuid x).
      { destruct post as [y|]; cbn in *; [apply N.eqb_eq in Es; congruence | reflexivity]. }
      rewrite Eu. reflexivity.
    + reflexivity.
  - destruct (mask pre) as [x|] eqn:Emq; [|discriminate]. injection HN as <-.
    rewrite (nw_val f T _ _ _ _ _ (HT _ _ _)), (nw_val f T _ _ _ _ _ (HT _ _ _)).
    destruct (mask post) as [y|] eqn:Emp; cbn [val_diff okeys uuidl mem existsb]; rewrite ?orb_false_r.
    + destruct (mask_some _ _ Emp) as [Hp _]. subst post. destruct pre; cbn [e_uuid_of]; reflexivity.
    + reflexivity.
Qed.

(* ------------------------------------------------------------------ the index tables *)
Lemma iget_fold_keys id ps : NoDup (map snd ps) -> forall I k,
  iget k (fold_left (key_apply id) ps I) =
  match find (fun p => snd p =? k) ps with
  | Some p => (if fst p then ins id else rem id) (iget k I)
  | None => iget k I
  end.
Proof.
  induction ps as [|[b k1] r IH]; intros Hn I k; cbn [fold_left find]; [reflexivity|].
  cbn [map snd] in Hn. inversion Hn as [|? ? Hnot Hr]; subst.
  rewrite (IH Hr). cbn [snd fst]. destruct (k1 =? k) eqn:E.
  - apply N.eqb_eq in E. subst k1.
    assert (F : find (fun p => snd p =? k) r = None).
    { destruct (find (fun p => snd p =? k) r) as [p|] eqn:Ef; [|reflexivity]. exfalso.
      apply find_some in Ef. destruct Ef as [Hin Ek]. apply N.eqb_eq in Ek. subst k.
      apply Hnot. apply in_map. assumption. }
    rewrite F. unfold key_apply. cbn [fst snd]. rewrite iget_iput, N.eqb_refl. reflexivity.
  - assert (G : iget k (key_apply id I (b, k1)) = iget k I).
    { unfold key_apply. cbn [fst snd]. rewrite iget_iput. rewrite N.eqb_sym, E. reflexivity. }
    destruct (find (fun p => snd p =? k) r); rewrite G; reflexivity.
Qed.

Lemma NoDup_filter {A} (f : A -> bool) l : NoDup l -> NoDup (filter f l).
Proof.
  induction 1 as [|x r Hn Hr IH]; cbn; [constructor|]. destruct (f x); [|assumption].
  constructor; [|assumption]. intros H. apply filter_In in H. tauto.
Qed.

Lemma nodup_app {A} (l1 l2 : list A) :
  NoDup l1 -> NoDup l2 -> (forall x, In x l1 -> ~ In x l2) -> NoDup (l1 ++ l2).
Proof.
  induction l1 as [|x r IH]; cbn; intros H1 H2 Hd; [assumption|].
  inversion H1 as [|? ? Hn Hr]; subst. constructor.
  - rewrite in_app_iff. intros [H|H]; [contradiction | apply (Hd x); auto].
  - apply IH; auto.
Qed.

Lemma ldiff_nil l : ldiff l [] = l.
Proof. unfold ldiff. induction l as [|x r IH]; cbn; [reflexivity | f_equal; exact IH]. Qed.

Lemma keys_diff_form pre post :
  keys_diff pre post =
  map (pair false) (ldiff (okeys ekeys pre) (okeys ekeys post)) ++
  map (pair true) (ldiff (okeys ekeys post) (okeys ekeys pre)).
Proof.
  destruct pre as [x|], post as [y|]; cbn [keys_diff okeys]; rewrite ?ldiff_nil; cbn;
    rewrite ?app_nil_r; reflexivity.
Qed.

Lemma keys_diff_nodup pre post :
  NoDup (okeys ekeys pre) -> NoDup (okeys ekeys post) -> NoDup (map snd (keys_diff pre post)).
Proof.
  intros Ha Hb. rewrite keys_diff_form, map_app, !map_map. cbn [snd]. rewrite !map_id.
  apply nodup_app.
  - apply NoDup_filter. assumption.
  - apply NoDup_filter. assumption.
  - intros k H1 H2. apply In_ldiff in H1, H2. tauto.
Qed.

Lemma find_pair b k l :
  find (fun p : bool * N => snd p =? k) (map (pair b) l) = if mem k l then Some (b, k) else None.
Proof.
  induction l as [|x r IH]; cbn; [reflexivity|]. fold (mem k r).
  destruct (x =? k) eqn:E.
  - apply N.eqb_eq in E. subst. rewrite N.eqb_refl. reflexivity.
  - rewrite N.eqb_sym, E. cbn. apply IH.
Qed.

Lemma find_app {A} (f : A -> bool) l1 l2 :
  find f (l1 ++ l2) = match find f l1 with Some x => Some x | None => find f l2 end.
Proof. induction l1 as [|x r IH]; cbn; [reflexivity|]. destruct (f x); auto. Qed.

Lemma idx_star pre post s s' :
  entry_index pre post s = Some s' ->
  NoDup (okeys ekeys pre) -> NoDup (okeys ekeys post) ->
  forall k, iget k (idx s') =
    if mem k (okeys ekeys pre) && negb (mem k (okeys ekeys post)) then rem (e_id_of pre post) (iget k (idx s))
    else if mem k (okeys ekeys post) && negb (mem k (okeys ekeys pre)) then ins (e_id_of pre post) (iget k (idx s))
    else iget k (idx s).
Proof.
  intros H Ha Hb k. apply entry_index_inv in H.
  destruct H as [_ [s2 [_ [_ [_ [_ [_ [_ Hi]]]]]]]]. rewrite Hi.
  rewrite (iget_fold_keys _ _ (keys_diff_nodup _ _ Ha Hb)).
  rewrite keys_diff_form, find_app, !find_pair, !mem_ldiff.
  destruct (mem k (okeys ekeys pre) && negb (mem k (okeys ekeys post))); [reflexivity|].
  destruct (mem k (okeys ekeys post) && negb (mem k (okeys ekeys pre))); reflexivity.
Qed.

Lemma idx_step E E' pre post s s' :
  MirrorIdx E (idx s) ->
  entry_index pre post s = Some s' ->
  Changed E pre post E' ->
  (forall e1 e2, In e1 E -> In e2 E -> eid e1 = eid e2 -> e1 = e2) ->
  (forall x, pre = Some x -> In x E) ->
  (forall x y, pre = Some x -> post = Some y -> eid x = eid y) ->
  NoDup (okeys ekeys pre) -> NoDup (okeys ekeys post) ->
  MirrorIdx E' (idx s').
Proof.
  intros HM HE HC Hid Hpre Hsame Ha Hb k i.
  rewrite (idx_star _ _ _ _ HE Ha Hb k).
  assert (Hidpre : forall x, pre = Some x -> eid x = e_id_of pre post).
  { intros x ->. destruct post as [y|]; cbn; [apply (Hsame x y); reflexivity | reflexivity]. }
  assert (Hidpost : forall y, post = Some y -> eid y = e_id_of pre post).
  { intros y ->. reflexivity. }
  destruct (mem k (okeys ekeys pre)) eqn:Ep, (mem k (okeys ekeys post)) eqn:Eq; cbn [andb negb].
  - (* key kept *)
    rewrite (HM k i). apply mem_In in Ep, Eq.
    destruct pre as [x|]; [|contradiction]. destruct post as [y|]; [|contradiction]. cbn [okeys] in *.
    split; intros [e [He [Hi Hk]]].
    + destruct (HC e) as [_ HC2].
      assert (D : Some e = Some x \/ Some e <> Some x).
      { destruct (N.eq_dec (eid e) (eid x)) as [Eid|Nid].
        - left. f_equal. apply Hid; auto.
        - right. intros [= ->]. apply Nid. reflexivity. }
      destruct D as [D|D].
      * injection D as ->. exists y. split; [apply HC; right; reflexivity|]. split; [|assumption].
        rewrite <- Hi. symmetry. apply (Hsame x y); reflexivity.
      * exists e. split; [apply HC; left; auto | auto].
    + apply HC in He. destruct He as [[He Hne]|Heq].
      * exists e. auto.
      * injection Heq as ->. exists x. split; [apply Hpre; reflexivity|]. split; [|assumption].
        rewrite <- Hi. apply (Hsame x y); reflexivity.
  - (* key removed *)
    rewrite In_rem, (HM k i). apply mem_In in Ep. apply mem_false in Eq.
    destruct pre as [x|]; [|contradiction]. cbn [okeys] in Ep.
    split.
    + intros [Hne [e [He [Hi Hk]]]]. exists e. split; [|auto]. apply HC. left. split; [assumption|].
      intros [= ->]. apply Hne. rewrite <- Hi. apply Hidpre. reflexivity.
    + intros [e [He [Hi Hk]]]. apply HC in He. destruct He as [[He Hne]|Heq].
      * split; [|exists e; auto]. intros Ei. apply Hne. f_equal. apply Hid; auto.
        rewrite Hi, Ei. symmetry. apply Hidpre. reflexivity.
      * exfalso. rewrite <- Heq in Eq. cbn [okeys] in Eq. contradiction.
  - (* key added *)
    rewrite In_ins, (HM k i). apply mem_false in Ep. apply mem_In in Eq.
    destruct post as [y|]; [|contradiction]. cbn [okeys] in Eq.
    split.
    + intros [Hi|[e [He [Hi Hk]]]].
      * exists y. split; [apply HC; right; reflexivity|]. split; [|assumption]. subst i. apply Hidpost. reflexivity.
      * exists e. split; [|auto]. apply HC. left. split; [assumption|]. intros Heq. rewrite <- Heq in Ep. cbn in Ep. contradiction.
    + intros [e [He [Hi Hk]]]. apply HC in He. destruct He as [[He Hne]|Heq].
      * right. exists e. auto.
      * injection Heq as ->. left. rewrite <- Hi. apply Hidpost. reflexivity.
  - (* key untouched *)
    rewrite (HM k i). apply mem_false in Ep, Eq.
    split; intros [e [He [Hi Hk]]].
    + exists e. split; [|auto]. apply HC. left. split; [assumption|]. intros Heq. rewrite <- Heq in Ep. cbn in Ep. contradiction.
    + apply HC in He. destruct He as [[He Hne]|Heq].
      * exists e. auto.
      * exfalso. rewrite <- Heq in Eq. cbn in Eq. contradiction.
Qed.

(* ------------------------------------------------------------------ one entry_index keeps the mirror *)
Definition Wf (E : list ent) : Prop := forall e, In e E -> NoDup (ekeys e).

Lemma own_map E keysof valof L pre :
  MirrorMap E keysof valof L -> (forall x, pre = Some x -> In x E) ->
  forall x, mask pre = Some x -> forall k, In k (keysof x) -> vget k L = Some (valof x).
Proof.
  intros HM Hpre x Hm k Hk. destruct (mask_some _ _ Hm) as [Hp El].
  apply HM. exists x. auto.
Qed.

Theorem entry_index_mirror E E' pre post s s' :
  Mirror E s -> entry_index pre post s = Some s' -> Changed E pre post E' ->
  Uniq E -> Uniq E' ->
  (forall x, pre = Some x -> In x E) ->
  (forall x y, pre = Some x -> post = Some y -> eid x = eid y) ->
  NoDup (okeys ekeys pre) -> NoDup (okeys ekeys post) ->
  Mirror E' s'.
Proof.
  intros [Mi Mn Mx Ms Mr] HE HC [Ui Uu Un Ux] [Ui' Uu' Un' Ux'] Hpre Hsame Ha Hb.
  pose proof (entry_index_inv _ _ _ _ HE) as [_ [s2 [HN [En [Ex [Es [Er [_ _]]]]]]]].
  constructor.
  - eapply idx_step; eauto.
  - rewrite En. eapply (map_step E E' pre post enames euuid (n2u s)); eauto.
    apply (diff_form_star enames euuid n2u nw_n2u pre post s s2 HN); [reflexivity|].
    apply (own_map E enames euuid (n2u s) pre Mn Hpre).
  - rewrite Ex. eapply (map_step E E' pre post extl euuid (x2u s)); eauto.
    apply (diff_form_star extl euuid x2u nw_x2u pre post s s2 HN); [reflexivity|].
    apply (own_map E extl euuid (x2u s) pre Mx Hpre).
  - rewrite Es. eapply (map_step E E' pre post uuidl espn (u2s s)); eauto.
    apply (val_star espn u2s (fun _ _ _ _ => eq_refl) pre post s s2 HN).
    intros x Hm. apply (own_map E uuidl espn (u2s s) pre Ms Hpre x Hm). cbn. auto.
  - rewrite Er. eapply (map_step E E' pre post uuidl erdn (u2r s)); eauto.
    apply (val_star erdn u2r (fun _ _ _ _ => eq_refl) pre post s s2 HN).
    intros x Hm. apply (own_map E uuidl erdn (u2r s) pre Mr Hpre x Hm). cbn. auto.
Qed.

(* ------------------------------------------------------------------ any sequence of entry_index calls *)
Fixpoint run_idx (s : st) (l : list (option ent * option ent)) : option st :=
  match l with
  | [] => Some s
  | (a, b) :: r => match entry_index a b s with Some s1 => run_idx s1 r | None => None end
  end.

(* the stored entries along the sequence: every intermediate table satisfies Uniq *)
Inductive Chain : list ent -> list (option ent * option ent) -> list ent -> Prop :=
| ChNil E : Chain E [] E
| ChCons E E1 E2 a b r :
    Changed E a b E1 -> Uniq E1 ->
    (forall x, a = Some x -> In x E) ->
    (forall x y, a = Some x -> b = Some y -> eid x = eid y) ->
    NoDup (okeys ekeys a) -> NoDup (okeys ekeys b) ->
    Chain E1 r E2 -> Chain E ((a, b) :: r) E2.

Theorem mirror_reachable l : forall E E' s s',
  Mirror E s -> Uniq E -> Chain E l E' -> run_idx s l = Some s' -> Mirror E' s'.
Proof.
  induction l as [|[a b] r IH]; intros E E' s s' HM HU HC HR.
  - inversion HC; subst. cbn in HR. injection HR as <-. assumption.
  - inversion HC as [|? E1 ? ? ? ? Hch Hu1 Hpre Hsame Ha Hb Hrest]; subst.
    cbn in HR. destruct (entry_index a b s) as [s1|] eqn:He; [|discriminate].
    apply (IH E1 E' s1 s'); auto.
    eapply entry_index_mirror; eauto.
Qed.

(* ------------------------------------------------------------------ reindex *)
Lemma Uniq_incl E1 E2 : (forall x, In x E1 -> In x E2) -> Uniq E2 -> Uniq E1.
Proof.
  intros Hi [Ui Uu Un Ux]. constructor.
  - intros e1 e2 H1 H2. apply Ui; auto.
  - intros e1 e2 k H1 H2. apply Uu; auto.
  - intros e1 e2 k H1 H2. apply Un; auto.
  - intros e1 e2 k H1 H2. apply Ux; auto.
Qed.

Lemma mirror_empty es : Mirror [] (mkst es ilayer0 layer0 layer0 layer0 layer0).
Proof.
  constructor; cbn.
  - intros k i. cbn. split; [contradiction | intros [e [[] _]]].
  - intros k v. cbn. split; [discriminate | intros [e [[] _]]].
  - intros k v. cbn. split; [discriminate | intros [e [[] _]]].
  - intros k v. cbn. split; [discriminate | intros [e [[] _]]].
  - intros k v. cbn. split; [discriminate | intros [e [[] _]]].
Qed.

Lemma index_all_mirror es : forall Ep s,
  Mirror Ep s -> Uniq (Ep ++ es) -> Wf es ->
  exists s', index_all es (Some s) = Some s' /\ Mirror (Ep ++ es) s' /\ ents s' = ents s.
Proof.
  induction es as [|e r IH]; intros Ep s HM HU HW.
  - exists s. rewrite app_nil_r. cbn. auto.
  - cbn [index_all].
    destruct (entry_index None (Some e) s) as [s1|] eqn:He.
    2:{ unfold entry_index in He. cbn in He. discriminate. }
    assert (HM1 : Mirror (Ep ++ [e]) s1).
    { eapply (entry_index_mirror Ep (Ep ++ [e]) None (Some e) s s1); eauto.
      - intros e0. rewrite in_app_iff. cbn. split.
        + intros [H|[H|[]]]; [left; split; [assumption | discriminate] | right; congruence].
        + intros [[H _]|H]; [left; assumption | right; left; congruence].
      - eapply Uniq_incl; [|exact HU]. intros x. rewrite !in_app_iff. tauto.
      - eapply Uniq_incl; [|exact HU]. intros x. rewrite !in_app_iff. cbn. intuition.
      - discriminate.
      - discriminate.
      - constructor.
      - cbn. apply HW. left. reflexivity. }
    destruct (IH (Ep ++ [e]) s1 HM1) as [s' [H1 [H2 H3]]].
    + rewrite <- app_assoc. exact HU.
    + intros x Hx. apply HW. right. assumption.
    + exists s'. rewrite <- app_assoc in H2. cbn in H2. split; [assumption|]. split; [assumption|].
      rewrite H3. pose proof (entry_index_inv _ _ _ _ He) as [_ [s2 [_ [_ [_ [_ [_ [Hen _]]]]]]]]. assumption.
Qed.

(* reindex rebuilds a correct mirror from ANY state of the tables *)
Theorem reindex_mirror s :
  Uniq (map snd (ents s)) -> Wf (map snd (ents s)) ->
  exists s', reindex s = Some s' /\ Mirror (map snd (ents s)) s' /\ ents s' = ents s.
Proof.
  intros HU HW. unfold reindex.
  destruct (index_all_mirror (map snd (ents s)) [] _ (mirror_empty (ents s)) HU HW) as [s' [H1 [H2 H3]]].
  exists s'. auto.
Qed.

(* ------------------------------------------------------------------ lookups = scans *)
Lemma scan_n2u_spec E s : MirrorMap E enames euuid (n2u s) ->
  forall n u, vget n (n2u s) = Some u <-> In u (scan_n2u E n).
Proof.
  intros HM n u. rewrite (HM n u). unfold scan_n2u. rewrite in_map_iff. split.
  - intros [e [He [El [Hk Hv]]]]. exists e. split; [assumption|]. apply filter_In. split; [assumption|].
    rewrite El. cbn. apply mem_In. assumption.
  - intros [e [Hv He]]. apply filter_In in He. destruct He as [He Hc]. apply andb_true_iff in Hc.
    destruct Hc as [El Hk]. apply mem_In in Hk. exists e. auto.
Qed.
Lemma scan_x2u_spec E s : MirrorMap E extl euuid (x2u s) ->
  forall x u, vget x (x2u s) = Some u <-> In u (scan_x2u E x).
Proof.
  intros HM n u. rewrite (HM n u). unfold scan_x2u, extl. rewrite in_map_iff. split.
  - intros [e [He [El [Hk Hv]]]]. exists e. split; [assumption|]. apply filter_In. split; [assumption|].
    rewrite El. cbn. destruct (eext e) as [q|]; cbn in *; [|contradiction].
    destruct Hk as [->|[]]. apply N.eqb_refl.
  - intros [e [Hv He]]. apply filter_In in He. destruct He as [He Hc]. apply andb_true_iff in Hc.
    destruct Hc as [El Hk]. exists e. repeat split; auto.
    destruct (eext e) as [q|]; cbn in *; [|discriminate]. apply N.eqb_eq in Hk. auto.
Qed.
Lemma scan_val_spec (f : ent -> N) E L : MirrorMap E uuidl f L ->
  forall u v, vget u L = Some v <-> In v (scan_val f E u).
Proof.
  intros HM u v. rewrite (HM u v). unfold scan_val, uuidl. rewrite in_map_iff. split.
  - intros [e [He [El [Hk Hv]]]]. exists e. split; [assumption|]. apply filter_In. split; [assumption|].
    rewrite El. cbn in *. destruct Hk as [->|[]]. apply N.eqb_refl.
  - intros [e [Hv He]]. apply filter_In in He. destruct He as [He Hc]. apply andb_true_iff in Hc.
    destruct Hc as [El Hk]. apply N.eqb_eq in Hk. exists e. cbn. auto.
Qed.
Lemma scan_key_spec E I : MirrorIdx E I -> forall k i, In i (iget k I) <-> In i (scan_key E k).
Proof.
  intros HM k i. rewrite (HM k i). unfold scan_key. rewrite in_map_iff. split.
  - intros [e [He [Hi Hk]]]. exists e. split; [assumption|]. apply filter_In. split; [assumption|].
    apply mem_In. assumption.
  - intros [e [Hi He]]. apply filter_In in He. destruct He as [He Hk]. apply mem_In in Hk. exists e. auto.
Qed.

(* ------------------------------------------------------------------ overlay well-formedness and commit *)
Record WF (s : st) : Prop := mkWF {
  w_idx : iwf (idx s);
  w_n2u : lwf (n2u s); w_x2u : lwf (x2u s); w_u2s : lwf (u2s s); w_u2r : lwf (u2r s) }.

Lemma WF0 es : WF (mkst es ilayer0 layer0 layer0 layer0 layer0).
Proof. constructor; cbn; try apply lwf0; try constructor. Qed.

Lemma lwf_fold_add u l : forall L, lwf L -> lwf (fold_left (fun L k => ladd k u L) l L).
Proof. induction l as [|x r IH]; intros L H; cbn; [assumption | apply IH, lwf_ladd, H]. Qed.
Lemma lwf_fold_rem l : forall L, lwf L -> lwf (fold_left (fun L k => lrem k L) l L).
Proof. induction l as [|x r IH]; intros L H; cbn; [assumption | apply IH, lwf_lrem, H]. Qed.
Lemma lwf_val_write u d L : lwf L -> lwf (val_write u d L).
Proof. intros H. destruct d as [[v|]|]; cbn; [apply lwf_ladd | apply lwf_lrem |]; assumption. Qed.

Lemma WF_names_write u a b s : WF s -> WF (names_write u a b s).
Proof.
  intros [Wi Wn Wx Ws Wr]. unfold names_write. constructor; cbn [idx n2u x2u u2s u2r].
  - assumption.
  - destruct (snd (n2u_diff a b)); destruct (fst (n2u_diff a b));
      repeat (try apply lwf_fold_rem; try apply lwf_fold_add); assumption.
  - destruct (snd (x2u_diff a b)); destruct (fst (x2u_diff a b));
      repeat (try apply lwf_lrem; try apply lwf_ladd); assumption.
  - apply lwf_val_write. assumption.
  - apply lwf_val_write. assumption.
Qed.

Lemma iwf_fold id ps : forall I, iwf I -> iwf (fold_left (key_apply id) ps I).
Proof.
  induction ps as [|p r IH]; intros I H; cbn; [assumption|]. apply IH. unfold key_apply. apply iwf_iput, H.
Qed.

Lemma WF_entry_index pre post s s' : WF s -> entry_index pre post s = Some s' -> WF s'.
Proof.
  intros HW HE. pose proof (entry_index_inv _ _ _ _ HE) as [_ [s2 [HN [En [Ex [Es [Er [_ Hi]]]]]]]].
  assert (W2 : WF s2).
  { unfold names_after in HN. destruct (uuid_same_of pre post).
    - injection HN as <-. apply WF_names_write, HW.
    - destruct (mask pre); [|discriminate]. injection HN as <-. apply WF_names_write, WF_names_write, HW. }
  destruct W2 as [_ Wn Wx Ws Wr]. constructor.
  - rewrite Hi. apply iwf_fold. apply HW.
  - rewrite En. assumption.
  - rewrite Ex. assumption.
  - rewrite Es. assumption.
  - rewrite Er. assumption.
Qed.

(* commit: the SQLite tables become exactly the transaction's view, and the mirror is kept *)
Theorem commit_tables s : WF s ->
  (forall k, aget k (db (n2u (commit s))) = vget k (n2u s)) /\
  (forall k, aget k (db (x2u (commit s))) = vget k (x2u s)) /\
  (forall k, aget k (db (u2s (commit s))) = vget k (u2s s)) /\
  (forall k, aget k (db (u2r (commit s))) = vget k (u2r s)) /\
  (forall k, match aget k (idb (idx (commit s))) with Some l => l | None => [] end = iget k (idx s)) /\
  ov (n2u (commit s)) = [] /\ ov (x2u (commit s)) = [] /\ ov (u2s (commit s)) = [] /\
  ov (u2r (commit s)) = [] /\ iov (idx (commit s)) = [].
Proof.
  intros [Wi Wn Wx Ws Wr]. unfold commit. cbn [n2u x2u u2s u2r idx].
  repeat split; try (intros k; apply lflush_db; assumption).
  intros k. rewrite <- (iget_iflush _ Wi k). unfold iget at 1, iflush. cbn [iov idb aget]. reflexivity.
Qed.

Theorem commit_mirror E s : WF s -> Mirror E s -> Mirror E (commit s).
Proof.
  intros [Wi Wn Wx Ws Wr] [Mi Mn Mx Ms Mr]. unfold commit. constructor; cbn [n2u x2u u2s u2r idx].
  - intros k i. rewrite (iget_iflush _ Wi). apply Mi.
  - intros k v. rewrite (vget_lflush _ Wn). apply Mn.
  - intros k v. rewrite (vget_lflush _ Wx). apply Mx.
  - intros k v. rewrite (vget_lflush _ Ws). apply Ms.
  - intros k v. rewrite (vget_lflush _ Wr). apply Mr.
Qed.

(* a non-stale lookup answers the view and leaves every view (hence the mirror) unchanged *)
Lemma tget_tset t L s : tget t (tset t L s) = L.
Proof. destruct t; reflexivity. Qed.

Theorem lookup_mirror E s t k : WF s -> Mirror E s -> stale k (tget t s) = false ->
  fst (look k (tget t s)) = vget k (tget t s) /\ Mirror E (tset t (snd (look k (tget t s))) s).
Proof.
  intros [Wi Wn Wx Ws Wr] [Mi Mn Mx Ms Mr] Hs.
  assert (HL : lwf (tget t s)) by (destruct t; assumption).
  destruct (look_sound k (tget t s) HL Hs) as [H1 H2]. split; [assumption|].
  destruct t; constructor; cbn [tset tget idx n2u x2u u2s u2r] in *; try assumption;
    intros k0 v0; rewrite H2; auto.
Qed.

(* ------------------------------------------------------------------ the dump check is sound *)
Definition st_of_dump (d : dump) : st :=
  mkst (map (fun e => (eid e, e)) (d_ents d)) (mkil [] (d_idx d))
       (mklayer [] (d_n2u d)) (mklayer [] (d_x2u d)) (mklayer [] (d_u2s d)) (mklayer [] (d_u2r d)).

Lemma aget_In {V} k (v : V) l : aget k l = Some v -> In (k, v) l.
Proof.
  induction l as [|[k1 v1] r IH]; cbn; [discriminate|]. destruct (k =? k1) eqn:E.
  - apply N.eqb_eq in E. subst. intros [= ->]. left. reflexivity.
  - intros H. right. apply IH, H.
Qed.
Lemma list_eqb_eq a : forall b, list_eqb a b = true -> a = b.
Proof.
  induction a as [|x r IH]; intros [|y t]; cbn; try discriminate; [reflexivity|].
  intros H. apply andb_true_iff in H. destruct H as [H1 H2]. apply N.eqb_eq in H1. subst. f_equal. apply IH, H2.
Qed.

Lemma tbl_mirror_sound E keysof valof (sc : N -> list N) keys d :
  (forall k v, In v (sc k) <-> exists e, In e E /\ elive e = true /\ In k (keysof e) /\ valof e = v) ->
  (forall e k, In e E -> elive e = true -> In k (keysof e) -> In k keys) ->
  tbl_mirror sc keys d = true ->
  MirrorMap E keysof valof (mklayer [] d).
Proof.
  intros Hsc Hkeys H. unfold tbl_mirror in H. apply andb_true_iff in H. destruct H as [H H3].
  apply andb_true_iff in H. destruct H as [_ H2].
  rewrite forallb_forall in H2, H3.
  intros k v. unfold vget. cbn [ov db aget]. split.
  - intros Hg. apply aget_In in Hg. specialize (H2 _ Hg). cbn in H2. apply list_eqb_eq in H2.
    apply Hsc. rewrite H2. left. reflexivity.
  - intros [e [He [El [Hk Hv]]]]. specialize (H3 k (Hkeys e k He El Hk)).
    assert (Hin : In v (sc k)) by (apply Hsc; exists e; auto).
    destruct (aget k d) as [v'|] eqn:Eg.
    + apply aget_In in Eg. specialize (H2 _ Eg). cbn in H2. apply list_eqb_eq in H2.
      rewrite H2 in Hin. destruct Hin as [->|[]]. reflexivity.
    + destruct (sc k); [contradiction | discriminate].
Qed.

Lemma idx_mirror_sound E d : idx_mirror E d = true -> MirrorIdx E (mkil [] d).
Proof.
  intros H. unfold idx_mirror in H. apply andb_true_iff in H. destruct H as [H H3].
  apply andb_true_iff in H. destruct H as [_ H2]. rewrite forallb_forall in H2, H3.
  assert (Hsk : forall k i, In i (scan_key E k) <-> exists e, In e E /\ eid e = i /\ In k (ekeys e)).
  { intros k i. unfold scan_key. rewrite in_map_iff. split.
    - intros [e [Hi He]]. apply filter_In in He. destruct He as [He Hk]. apply mem_In in Hk. exists e. auto.
    - intros [e [He [Hi Hk]]]. exists e. split; [assumption|]. apply filter_In. split; [assumption|].
      apply mem_In. assumption. }
  intros k i. unfold iget. cbn [iov idb aget]. rewrite <- Hsk.
  destruct (aget k d) as [l|] eqn:Eg.
  - apply aget_In in Eg. specialize (H2 _ Eg). cbn in H2. destruct l as [|x r]; [discriminate|].
    apply list_eqb_eq in H2. rewrite H2. reflexivity.
  - split; [contradiction|]. intros Hin. apply Hsk in Hin. destruct Hin as [e [He [Hi Hk]]].
    assert (Hf : In k (flat_map ekeys E)) by (apply in_flat_map; exists e; auto).
    specialize (H3 _ Hf). rewrite Eg in H3. discriminate.
Qed.

Lemma scan_n2u_iff E k v :
  In v (scan_n2u E k) <-> exists e, In e E /\ elive e = true /\ In k (enames e) /\ euuid e = v.
Proof.
  unfold scan_n2u. rewrite in_map_iff. split.
  - intros [e [Hv He]]. apply filter_In in He. destruct He as [He Hc]. apply andb_true_iff in Hc.
    destruct Hc as [El Hk]. apply mem_In in Hk. exists e. auto.
  - intros [e [He [El [Hk Hv]]]]. exists e. split; [assumption|]. apply filter_In. split; [assumption|].
    rewrite El. cbn. apply mem_In. assumption.
Qed.
Lemma scan_x2u_iff E k v :
  In v (scan_x2u E k) <-> exists e, In e E /\ elive e = true /\ In k (extl e) /\ euuid e = v.
Proof.
  unfold scan_x2u, extl. rewrite in_map_iff. split.
  - intros [e [Hv He]]. apply filter_In in He. destruct He as [He Hc]. apply andb_true_iff in Hc.
    destruct Hc as [El Hk]. exists e. repeat split; auto.
    destruct (eext e) as [q|]; cbn in *; [|discriminate]. apply N.eqb_eq in Hk. auto.
  - intros [e [He [El [Hk Hv]]]]. exists e. split; [assumption|]. apply filter_In. split; [assumption|].
    rewrite El. cbn. destruct (eext e) as [q|]; cbn in *; [|contradiction].
    destruct Hk as [->|[]]. apply N.eqb_refl.
Qed.
Lemma scan_val_iff f E k v :
  In v (scan_val f E k) <-> exists e, In e E /\ elive e = true /\ In k (uuidl e) /\ f e = v.
Proof.
  unfold scan_val, uuidl. rewrite in_map_iff. split.
  - intros [e [Hv He]]. apply filter_In in He. destruct He as [He Hc]. apply andb_true_iff in Hc.
    destruct Hc as [El Hk]. apply N.eqb_eq in Hk. exists e. cbn. auto.
  - intros [e [He [El [Hk Hv]]]]. exists e. split; [assumption|]. apply filter_In. split; [assumption|].
    rewrite El. cbn in *. destruct Hk as [->|[]]. apply N.eqb_refl.
Qed.

(* a dump that passes the executable check mirrors its stored entries *)
Theorem dump_mirror_sound d : dump_mirror d = true -> Mirror (d_ents d) (st_of_dump d).
Proof.
  unfold dump_mirror. intros H.
  repeat (apply andb_true_iff in H; destruct H as [H ?]).
  constructor; cbn [st_of_dump idx n2u x2u u2s u2r].
  - apply idx_mirror_sound. assumption.
  - eapply tbl_mirror_sound; [apply scan_n2u_iff | | eassumption].
    intros e k He El Hk. unfold all_names. apply in_flat_map. exists e. rewrite El. auto.
  - eapply tbl_mirror_sound; [apply scan_x2u_iff | | eassumption].
    intros e k He El Hk. unfold all_exts. apply in_flat_map. exists e. rewrite El.
    unfold extl in Hk. auto.
  - eapply tbl_mirror_sound; [apply scan_val_iff | | eassumption].
    intros e k He El Hk. cbn in Hk. destruct Hk as [<-|[]]. apply in_map. apply filter_In. auto.
  - eapply tbl_mirror_sound; [apply scan_val_iff | | eassumption].
    intros e k He El Hk. cbn in Hk. destruct Hk as [<-|[]]. apply in_map. apply filter_In. auto.
Qed.

(* soundness of the executable uniqueness check *)
Lemma nodup_sound l : nodup l = true -> NoDup l.
Proof.
  induction l as [|x r IH]; cbn; [constructor|]. intros H. apply andb_true_iff in H. destruct H as [H1 H2].
  apply negb_true_iff, mem_false in H1. constructor; auto.
Qed.

(* every transaction of a history that passes pcheck leaves tables that mirror the stored
   entries (whenever those entries satisfy the uniqueness the server guarantees) *)
Theorem hist_ok_sound l : forall prev, hist_ok prev l = true ->
  Forall (fun t => match t with Txn _ _ _ d =>
            uniq (d_ents d) = true -> Mirror (d_ents d) (st_of_dump d) /\ d_coh d = true end) l.
Proof.
  induction l as [|[ops ok cm d] r IH]; intros prev H; [constructor|].
  cbn [hist_ok] in H. apply andb_true_iff in H. destruct H as [H H3].
  apply andb_true_iff in H. destruct H as [_ H2]. constructor; [|eapply IH; eassumption].
  intros Hu. rewrite Hu in H2. cbn in H2. split; [apply dump_mirror_sound; assumption|].
  unfold dump_mirror in H2. repeat (apply andb_true_iff in H2; destruct H2 as [H2 ?]). assumption.
Qed.

(* ------------------------------------------------------------------ executable uniqueness = Uniq *)
Lemma nodup_app_inv {A} (l1 l2 : list A) :
  NoDup (l1 ++ l2) -> NoDup l1 /\ NoDup l2 /\ forall x, In x l1 -> ~ In x l2.
Proof.
  induction l1 as [|x r IH]; cbn; intros H.
  - split; [constructor|]. split; [assumption|]. intros x [].
  - inversion H as [|? ? Hn Hr]; subst. destruct (IH Hr) as [H1 [H2 H3]].
    rewrite in_app_iff in Hn. split; [constructor; tauto|]. split; [assumption|].
    intros y [->|Hy]; [tauto | apply H3, Hy].
Qed.

Lemma nodup_map_inj {A} (f : A -> N) l : NoDup (map f l) ->
  forall x y, In x l -> In y l -> f x = f y -> x = y.
Proof.
  induction l as [|a r IH]; cbn; intros H x y Hx Hy E; [contradiction|].
  inversion H as [|? ? Hn Hr]; subst.
  destruct Hx as [->|Hx], Hy as [->|Hy]; auto.
  - exfalso. apply Hn. rewrite E. apply in_map, Hy.
  - exfalso. apply Hn. rewrite <- E. apply in_map, Hx.
Qed.

Lemma nodup_flat_inj (g : ent -> list N) l : NoDup (flat_map g l) ->
  forall e1 e2 k, In e1 l -> In e2 l -> In k (g e1) -> In k (g e2) -> e1 = e2.
Proof.
  induction l as [|a r IH]; cbn; intros H e1 e2 k H1 H2 K1 K2; [contradiction|].
  apply nodup_app_inv in H. destruct H as [Ha [Hr Hd]].
  destruct H1 as [->|H1], H2 as [->|H2]; auto.
  - exfalso. apply (Hd k K1). apply in_flat_map. exists e2. auto.
  - exfalso. apply (Hd k K2). apply in_flat_map. exists e1. auto.
  - apply (IH Hr e1 e2 k); auto.
Qed.

Theorem uniq_sound E : uniq E = true -> Uniq E /\ Wf E.
Proof.
  unfold uniq. intros H. repeat (apply andb_true_iff in H; destruct H as [H ?]).
  apply nodup_sound in H0, H1, H2, H3. rewrite forallb_forall in H.
  split; [constructor|].
  - intros e1 e2 A B Eq. apply (nodup_map_inj eid E H3 e1 e2 A B Eq).
  - intros e1 e2 k A B _ _ K1 K2. cbn in K1, K2. destruct K1 as [<-|[]]. destruct K2 as [K2|[]].
    apply (nodup_map_inj euuid E H2 e1 e2 A B). congruence.
  - intros e1 e2 k A B L1 L2 K1 K2.
    apply (nodup_flat_inj (fun e => if elive e then enames e else []) E H1 e1 e2 k A B).
    + rewrite L1. assumption.
    + rewrite L2. assumption.
  - intros e1 e2 k A B L1 L2 K1 K2.
    apply (nodup_flat_inj (fun e => if elive e then match eext e with Some x => [x] | None => [] end else []) E H0 e1 e2 k A B).
    + rewrite L1. exact K1.
    + rewrite L2. exact K2.
  - intros e He. specialize (H e He). unfold wf_ent in H. apply andb_true_iff in H. destruct H as [_ H].
    apply nodup_sound, H.
Qed.

(* ------------------------------------------------------------------ link to C01 *)
Require KV.C01.Model KV.C01.Proofs.

(* which stored ids produce index key k *)
Definition has_key (E : list ent) (k i : N) : bool :=
  existsb (fun e => (eid e =? i) && mem k (ekeys e)) E.

(* Under the mirror invariant every index row is EXACT in the sense of KV.C01: an index oracle
   that answers `Indexed (row k)` is `sound` for the truth function "entry i produces key k". *)
Theorem index_rows_exact E s : Mirror E s ->
  forall k, KV.C01.Proofs.sound (map eid E) (has_key E k) (KV.C01.Model.Indexed (iget k (idx s))).
Proof.
  intros [Mi _ _ _ _] k. cbn. unfold KV.C01.Proofs.exact. intros x _. rewrite (Mi k x).
  unfold has_key. rewrite existsb_exists. split.
  - intros [e [He [Hi Hk]]]. exists e. split; [assumption|]. apply andb_true_iff. split.
    + apply N.eqb_eq, Hi.
    + apply mem_In, Hk.
  - intros [e [He Hc]]. apply andb_true_iff in Hc. destruct Hc as [Hi Hk].
    apply N.eqb_eq in Hi. apply mem_In in Hk. exists e. auto.
Qed.

(* ------------------------------------------------------------------ the two refuted full statements *)
(* (1) lookups inside a write transaction always answer the transaction's own view *)
Definition lookup_full_statement : Prop :=
  forall L k, lwf L -> fst (look k L) = vget k L.

Lemma lookup_refuted : ~ lookup_full_statement.
Proof.
  intros H. specialize (H (mklayer [(5, IDirty None)] [(5, 7)]) 5).
  assert (W : lwf (mklayer [(5, IDirty None)] [(5, 7)])).
  { split; cbn.
    - constructor; [intros [] | constructor].
    - intros k v. destruct (k =? 5); discriminate. }
  specialize (H W). vm_compute in H. discriminate.
Qed.

(* (2) a batch keeps the mirror as soon as the stored entries are unique before and after it
   (this is all attrunique establishes for a batch) *)
Inductive Chain0 : list ent -> list (option ent * option ent) -> list ent -> Prop :=
| Ch0Nil E : Chain0 E [] E
| Ch0Cons E E1 E2 a b r :
    Changed E a b E1 ->
    (forall x, a = Some x -> In x E) ->
    (forall x y, a = Some x -> b = Some y -> eid x = eid y) ->
    NoDup (okeys ekeys a) -> NoDup (okeys ekeys b) ->
    Chain0 E1 r E2 -> Chain0 E ((a, b) :: r) E2.

Definition batch_full_statement : Prop :=
  forall l E E' s s',
    Mirror E s -> Uniq E -> Chain0 E l E' -> Uniq E' -> run_idx s l = Some s' -> Mirror E' s'.

Definition wA := mkent 1 1 true [10] None 100 200 [].
Definition wB := mkent 2 2 true [11] None 101 201 [].
Definition wA' := mkent 1 1 true [11] None 100 200 [].
Definition wB' := mkent 2 2 true [10] None 101 201 [].
Definition w_s : st :=
  match run_idx st0 [(None, Some wA); (None, Some wB)] with Some s => s | None => st0 end.
Definition w_swap := [(Some wA, Some wA'); (Some wB, Some wB')].

Lemma changed_add E e : Changed E None (Some e) (E ++ [e]).
Proof.
  intros e0. rewrite in_app_iff. cbn. split.
  - intros [H|[H|[]]]; [left; split; [assumption | discriminate] | right; congruence].
  - intros [[H _]|H]; [left; assumption | right; left; congruence].
Qed.

Lemma w_mirror : Mirror [wA; wB] w_s.
Proof.
  apply (mirror_reachable [(None, Some wA); (None, Some wB)] [] [wA; wB] st0 w_s).
  - apply (mirror_empty []).
  - apply uniq_sound. reflexivity.
  - eapply ChCons; [apply (changed_add [] wA) | apply uniq_sound; reflexivity | discriminate | discriminate
                   | constructor | constructor |].
    eapply ChCons; [apply (changed_add [wA] wB) | apply uniq_sound; reflexivity | discriminate | discriminate
                   | constructor | constructor |].
    constructor.
  - reflexivity.
Qed.

Lemma changed_head E x y : (forall e, In e E -> e <> x) ->
  Changed (x :: E) (Some x) (Some y) (y :: E).
Proof.
  intros Hn e. cbn. split.
  - intros [<-|H]; [right; reflexivity | left; split; [right; assumption|]].
    intros [= ->]. apply (Hn x H). reflexivity.
  - intros [[[<-|H] Hne]|[= <-]]; [exfalso; apply Hne; reflexivity | right; assumption | left; reflexivity].
Qed.

Lemma changed_second a x y : a <> x ->
  Changed [a; x] (Some x) (Some y) [a; y].
Proof.
  intros Hn e. cbn. split.
  - intros [<-|[<-|[]]].
    + left. split; [left; reflexivity|]. intros [= ->]. apply Hn. reflexivity.
    + right. reflexivity.
  - intros [[[<-|[<-|[]]] Hne]|[= <-]].
    + left. reflexivity.
    + exfalso. apply Hne. reflexivity.
    + right. left. reflexivity.
Qed.

Lemma batch_refuted : ~ batch_full_statement.
Proof.
  intros H.
  assert (M : Mirror [wA'; wB'] (match run_idx w_s w_swap with Some s => s | None => st0 end)).
  { apply (H w_swap [wA; wB] [wA'; wB'] w_s).
    - exact w_mirror.
    - apply uniq_sound. reflexivity.
    - eapply Ch0Cons; [apply (changed_head [wB] wA wA') | | | constructor | constructor |].
      + intros e [<-|[]]. discriminate.
      + intros x [= <-]. left. reflexivity.
      + intros x y [= <-] [= <-]. reflexivity.
      + eapply Ch0Cons; [apply (changed_second wA' wB wB'); discriminate | | | constructor | constructor | constructor].
        * intros x [= <-]. right. left. reflexivity.
        * intros x y [= <-] [= <-]. reflexivity.
    - apply uniq_sound. reflexivity.
    - reflexivity. }
  destruct M as [_ Mn _ _ _].
  assert (G : vget 11 (n2u (match run_idx w_s w_swap with Some s => s | None => st0 end)) = Some 1).
  { apply Mn. exists wA'. cbn. auto. }
  vm_compute in G. discriminate.
Qed.

(* under the mirror and uniqueness, entry_index never removes a name another entry owns:
   the K2 class needs a non-unique intermediate table *)
Lemma foreign_rem_false E keysof (L : layer) x ks :
  MirrorMap E keysof euuid L -> In x E -> elive x = true ->
  (forall k, In k ks -> In k (keysof x)) ->
  foreign_rem (euuid x) ks L = false.
Proof.
  intros HM Hx El Hks. unfold foreign_rem. apply not_true_is_false. intros H.
  apply existsb_exists in H. destruct H as [k [Hk Hc]].
  assert (G : vget k L = Some (euuid x)) by (apply HM; exists x; auto).
  rewrite G, N.eqb_refl in Hc. discriminate.
Qed.
