(* KV.C03.Props — property theorems only.
   Vocabulary: E = the stored entries (each reduced to what indexing reads); s = the state of a
   backend write transaction (index rows and the four name tables, each an overlay over the
   committed SQLite table).  [Mirror E s]: every index row (attr, type, key) holds exactly the
   ids of the entries of E that produce that key, and name2uuid / externalid2uuid / uuid2spn /
   uuid2rdn hold exactly the pairs produced by the live (not recycled, not tombstoned) entries.
   [Uniq E]: ids and uuids are unique and no two live entries share a name2uuid candidate or an
   external id — what attrunique and the uuid checks establish before the backend is called. *)
From Coq Require Import List NArith Bool.
Import ListNotations.
Require Import KV.C03.Model KV.C03.Proofs.
Require KV.C01.Model KV.C01.Proofs.
Open Scope N_scope.

(* The empty database mirrors the empty entry set. *)
Theorem C03_mirror_init : Mirror [] st0.
Proof. exact (mirror_empty []). Qed.

(* ONE call of entry_index(pre, post) — create, modify (rename, recycle, revive, tombstone,
   uuid change), delete — keeps the mirror, provided the stored entries are unique before and
   after it and `pre` is what was stored. *)
Theorem C03_mirror_step : forall E E' pre post s s',
  Mirror E s -> entry_index pre post s = Some s' -> Changed E pre post E' ->
  Uniq E -> Uniq E' ->
  (forall x, pre = Some x -> In x E) ->
  (forall x y, pre = Some x -> post = Some y -> eid x = eid y) ->
  NoDup (okeys ekeys pre) -> NoDup (okeys ekeys post) ->
  Mirror E' s'.
Proof. exact entry_index_mirror. Qed.

(* FULL STATEMENT for batches (what the property demands, since the server only establishes
   uniqueness of the entries before and after a whole batch): REFUTED by the faithful model —
   an entry that, inside one `modify` / `incremental_apply` batch, takes a name another entry of
   the batch gives up loses that name when it is indexed first (name swap, rename chain).
   Confirmed on the real backend, and on a real replicating pair of QueryServers: chained
   renames on the supplier arrive in one incremental run and leave a live entry that
   name_to_uuid cannot resolve on the consumer (attrunique rejects the same shapes through
   modify / batch_modify, so replication is the reachable path). See props/C03.json. *)
Definition C03_batch_full_statement : Prop := batch_full_statement.
Theorem C03_batch_refuted : ~ C03_batch_full_statement.
Proof. exact batch_refuted. Qed.

(* PARTIAL (what is missing: uniqueness only at batch boundaries): any sequence, of any length,
   of entry_index calls keeps the mirror when the stored entries are unique at every call
   boundary. *)
Theorem C03_mirror_reachable_partial : forall l E E' s s',
  Mirror E s -> Uniq E -> Chain E l E' -> run_idx s l = Some s' -> Mirror E' s'.
Proof. exact mirror_reachable. Qed.

(* ... and in such a sequence the known-finding class K2 (entry_index removes a name that the
   table assigns to another entry) cannot fire. *)
Theorem C03_no_foreign_removal : forall E keysof L x ks,
  MirrorMap E keysof euuid L -> In x E -> elive x = true ->
  (forall k, In k ks -> In k (keysof x)) -> foreign_rem (euuid x) ks L = false.
Proof. exact foreign_rem_false. Qed.

(* Reindex rebuilds a correct mirror from ANY content of the tables and caches. *)
Theorem C03_reindex_mirror : forall s,
  Uniq (map snd (ents s)) -> Wf (map snd (ents s)) ->
  exists s', reindex s = Some s' /\ Mirror (map snd (ents s)) s' /\ ents s' = ents s.
Proof. exact reindex_mirror. Qed.

(* Commit writes exactly the transaction's view into the SQLite tables, empties the overlays
   and keeps the mirror (WF: one overlay item per key, clean items repeat SQLite). *)
Theorem C03_commit_tables : forall s, WF s ->
  (forall k, aget k (db (n2u (commit s))) = vget k (n2u s)) /\
  (forall k, aget k (db (x2u (commit s))) = vget k (x2u s)) /\
  (forall k, aget k (db (u2s (commit s))) = vget k (u2s s)) /\
  (forall k, aget k (db (u2r (commit s))) = vget k (u2r s)) /\
  (forall k, match aget k (idb (idx (commit s))) with Some l => l | None => [] end = iget k (idx s)) /\
  ov (n2u (commit s)) = [] /\ ov (x2u (commit s)) = [] /\ ov (u2s (commit s)) = [] /\
  ov (u2r (commit s)) = [] /\ iov (idx (commit s)) = [].
Proof. exact commit_tables. Qed.
Theorem C03_commit_mirror : forall E s, WF s -> Mirror E s -> Mirror E (commit s).
Proof. exact commit_mirror. Qed.
Theorem C03_wf_preserved : forall pre post s s', WF s -> entry_index pre post s = Some s' -> WF s'.
Proof. exact WF_entry_index. Qed.

(* Under the mirror, what the tables hold is what a full scan of the stored entries finds:
   name -> uuid, external id -> uuid, uuid -> spn, uuid -> rdn, index key -> ids. *)
Theorem C03_lookup_eq_scan : forall E s, Mirror E s ->
  (forall n u, vget n (n2u s) = Some u <-> In u (scan_n2u E n)) /\
  (forall x u, vget x (x2u s) = Some u <-> In u (scan_x2u E x)) /\
  (forall u v, vget u (u2s s) = Some v <-> In v (scan_val espn E u)) /\
  (forall u v, vget u (u2r s) = Some v <-> In v (scan_val erdn E u)) /\
  (forall k i, In i (iget k (idx s)) <-> In i (scan_key E k)).
Proof.
  intros E s [Mi Mn Mx Ms Mr]. repeat split.
  - apply scan_n2u_spec, Mn. - apply scan_n2u_spec, Mn.
  - apply scan_x2u_spec, Mx. - apply scan_x2u_spec, Mx.
  - apply (scan_val_spec espn E (u2s s) Ms). - apply (scan_val_spec espn E (u2s s) Ms).
  - apply (scan_val_spec erdn E (u2r s) Mr). - apply (scan_val_spec erdn E (u2r s) Mr).
  - apply (scan_key_spec E (idx s) Mi). - apply (scan_key_spec E (idx s) Mi).
Qed.

(* FULL STATEMENT for lookups inside a write transaction: the cached lookup answers the
   transaction's own view.  REFUTED by the faithful model: after the transaction removed a key
   the lookup macro falls through to SQLite, answers the old value and re-inserts it clean,
   which also cancels the removal (confirmed on the real backend). *)
Definition C03_lookup_full_statement : Prop := lookup_full_statement.
Theorem C03_lookup_refuted : ~ C03_lookup_full_statement.
Proof. exact lookup_refuted. Qed.

(* PARTIAL (everything outside the decidable class K1 = `stale`): a lookup answers the view and
   leaves the mirror intact. *)
Theorem C03_lookup_mirror_partial : forall E s t k,
  WF s -> Mirror E s -> stale k (tget t s) = false ->
  fst (look k (tget t s)) = vget k (tget t s) /\ Mirror E (tset t (snd (look k (tget t s))) s).
Proof. exact lookup_mirror. Qed.

(* Link to C01: under the mirror every index row is EXACT in C01's sense, i.e. the hypothesis
   "every index leaf answer is sound" of C01_f2i_sound / C01_search_exact holds for the oracle
   that answers `Indexed (row k)` with truth function "entry i produces key k". (That a filter
   leaf is true of an entry iff the entry produces the corresponding key is C01's own runtime
   leaf check, not part of C03.) *)
Theorem C03_index_rows_exact_for_C01 : forall E s, Mirror E s ->
  forall k, KV.C01.Proofs.sound (map eid E) (has_key E k) (KV.C01.Model.Indexed (iget k (idx s))).
Proof. exact index_rows_exact. Qed.

(* Soundness of the run-time predicate: the executable uniqueness check implies Uniq, and in a
   history that passes pcheck every dump (raw SQLite tables read back after a transaction)
   mirrors the entries stored at that moment and every cached read equals the raw table. *)
Theorem C03_uniq_sound : forall E, uniq E = true -> Uniq E /\ Wf E.
Proof. exact uniq_sound. Qed.
Theorem C03_pcheck_sound : forall l, pcheck (CHist l) = true ->
  Forall (fun t => match t with Txn _ _ _ d =>
            uniq (d_ents d) = true -> Mirror (d_ents d) (st_of_dump d) /\ d_coh d = true end) l.
Proof. intros l H. exact (hist_ok_sound l [] H). Qed.
