(* KV.C21.Model — POSIX gid numbers (executable definitions only).
   Transcribes:
     uuid_to_gid_u32                      server/lib/src/utils.rs:15
     apply_gidnumber + the GID_* constants server/lib/src/plugins/gidnumber.rs:26-120
   and, as far as the gidnumber attribute is concerned, the pipeline it sits in:
     Entry::apply_modlist                 server/lib/src/entry.rs  (Present / Removed / Purged / Set)
     create:  pre_create_transform plugins, THEN schema validation   server/lib/src/server/create.rs
     modify:  apply_modlist, pre_modify plugins, THEN schema validation   server/lib/src/server/modify.rs
     schema:  gidnumber is a single-value Uint32 attribute, `systemmust` of posixaccount and
              posixgroup and allowed on no other class (migration_data/dl*/schema.rs). *)
From Coq Require Import List NArith Bool.
Import ListNotations.
Open Scope N_scope.

(* ------------------------------------------------------------------ constants (gidnumber.rs:26-57) *)
Definition GID_SYSTEM_NUMBER_PREFIX : N := 0x70000000.
Definition GID_SYSTEM_NUMBER_MASK   : N := 0x0fffffff.
Definition GID_REGULAR_USER_MIN : N := 1000.
Definition GID_REGULAR_USER_MAX : N := 60000.
Definition GID_UNUSED_A_MIN : N := 60578.
Definition GID_UNUSED_A_MAX : N := 61183.
Definition GID_UNUSED_B_MIN : N := 65520.
Definition GID_UNUSED_B_MAX : N := 65533.
Definition GID_UNUSED_C_MIN : N := 65536.
Definition GID_UNUSED_C_MAX : N := 524287.
Definition GID_NSPAWN_MIN : N := 524288.
Definition GID_NSPAWN_MAX : N := 1879048191.
Definition GID_UNUSED_D_MIN : N := 0x70000000.
Definition GID_UNUSED_D_MAX : N := 0x7fffffff.

(* ------------------------------------------------------------------ utils.rs:15
   a uuid is its 16 bytes (Uuid::as_bytes, big endian);
   `x.clone_from_slice(&b_ref[12..16]); u32::from_be_bytes(x)` *)
Definition uuid := list N.
Definition uuid_to_gid_u32 (u : uuid) : N :=
  match skipn 12 u with
  | [b0; b1; b2; b3] => ((b0 * 256 + b1) * 256 + b2) * 256 + b3
  | _ => 0                      (* not a 16-byte value: cannot happen for a Uuid; excluded by wf_uuidb *)
  end.

(* the same uuid read as the 128-bit big-endian number (Uuid::as_u128) — used by theorems only *)
Definition uuid_as_u128 (u : uuid) : N := fold_left (fun a b => a * 256 + b) u 0.

(* gidnumber.rs:77-82   gid & MASK | PREFIX *)
Definition gen_gid (u : uuid) : N :=
  N.lor (N.land (uuid_to_gid_u32 u) GID_SYSTEM_NUMBER_MASK) GID_SYSTEM_NUMBER_PREFIX.

(* `(lo..=hi).contains(&gid)` *)
Definition contains (lo hi g : N) : bool := (lo <=? g) && (g <=? hi).

(* gidnumber.rs:90-102, disjunct by disjunct *)
Definition accept_gid (g : N) : bool :=
  contains GID_REGULAR_USER_MIN GID_REGULAR_USER_MAX g
  || contains GID_UNUSED_A_MIN GID_UNUSED_A_MAX g
  || contains GID_UNUSED_B_MIN GID_UNUSED_B_MAX g
  || contains GID_UNUSED_C_MIN GID_UNUSED_C_MAX g
  || contains GID_NSPAWN_MIN GID_NSPAWN_MAX g
  || contains GID_UNUSED_D_MIN GID_UNUSED_D_MAX g.

(* ------------------------------------------------------------------ the entry, as far as this plugin can see it
   e_posix : class contains posixgroup or posixaccount
   e_gids  : the gidnumber value set (ValueSetUint32: ascending, duplicate free; [] = attribute absent) *)
Record entry := mkE { e_posix : bool; e_uuid : uuid; e_gids : list N }.

Inductive err := EGidRange (* PL0001GidOverlapsSystemRange *) | ESchema (* SchemaViolation _ *)
               | EUnique (* Plugin(AttrUnique _) *) | EOther.
Inductive res := ROk (e : entry) | RErr (x : err).

(* ValueSetUint32::to_uint32_single: Some only when the set has exactly one element *)
Definition to_uint32_single (l : list N) : option N :=
  match l with [g] => Some g | _ => None end.
Definition attribute_pres (l : list N) : bool := match l with [] => false | _ => true end.

(* gidnumber.rs:65 apply_gidnumber, branch by branch *)
Definition apply_gidnumber (e : entry) : res :=
  if e_posix e && negb (attribute_pres (e_gids e)) then
    ROk (mkE (e_posix e) (e_uuid e) [gen_gid (e_uuid e)])          (* set_ava(GidNumber, once(gid)) *)
  else match to_uint32_single (e_gids e) with
       | Some gid => if accept_gid gid then ROk e else RErr EGidRange
       | None => ROk e                                              (* absent, or more than one value *)
       end.

(* schema validation of the gidnumber attribute, after the plugins:
   posix class: must attribute, single value; other classes: attribute not allowed *)
Definition schema_ok (e : entry) : bool :=
  match e_gids e with
  | [] => negb (e_posix e)
  | [_] => e_posix e
  | _ => false
  end.

Inductive outcome :=
| Stored (posix : bool) (gids : list N)     (* operation succeeded; what is read back from the entry *)
| Rejected (x : err).

Definition pipeline (e : entry) : outcome :=
  match apply_gidnumber e with
  | RErr x => Rejected x
  | ROk e' => if schema_ok e' then Stored (e_posix e') (e_gids e') else Rejected ESchema
  end.

(* ------------------------------------------------------------------ modify lists restricted to the two attributes
   the plugin reads: class (only the posix class value of the entry's kind) and gidnumber *)
Inductive gmod :=
| MPresPosix               (* Present(class, posixaccount|posixgroup) *)
| MRemPosix                (* Removed(class, posixaccount|posixgroup) *)
| MPresGid (g : N)         (* Present(gidnumber, g) *)
| MRemGid (g : N)          (* Removed(gidnumber, g) *)
| MPurgeGid                (* Purged(gidnumber) *)
| MSetGid (gs : list N).   (* Set(gidnumber, valueset) — gs ascending, duplicate free *)

(* SmolSet insert, kept in ascending order *)
Fixpoint ins (g : N) (l : list N) : list N :=
  match l with
  | [] => [g]
  | h :: t => if g <? h then g :: l else if g =? h then l else h :: ins g t
  end.
Definition del (g : N) (l : list N) : list N := filter (fun x => negb (x =? g)) l.

Definition apply_mod (e : entry) (m : gmod) : entry :=
  match m with
  | MPresPosix => mkE true (e_uuid e) (e_gids e)
  | MRemPosix => mkE false (e_uuid e) (e_gids e)
  | MPresGid g => mkE (e_posix e) (e_uuid e) (ins g (e_gids e))
  | MRemGid g => mkE (e_posix e) (e_uuid e) (del g (e_gids e))
  | MPurgeGid => mkE (e_posix e) (e_uuid e) []
  | MSetGid gs => mkE (e_posix e) (e_uuid e) gs
  end.

Definition create (e : entry) : outcome := pipeline e.
Definition modify (e : entry) (ms : list gmod) : outcome := pipeline (fold_left apply_mod ms e).

(* ------------------------------------------------------------------ database histories (used by the theorems) *)
Definition db := list entry.
Inductive op := OpCreate (e : entry) | OpModify (i : nat) (ms : list gmod) | OpDelete (i : nat).

Fixpoint replace (i : nat) (x : entry) (l : db) : db :=
  match l, i with
  | [], _ => []
  | _ :: t, O => x :: t
  | h :: t, S j => h :: replace j x t
  end.
Fixpoint remove_at (i : nat) (l : db) : db :=
  match l, i with
  | [], _ => []
  | _ :: t, O => t
  | h :: t, S j => h :: remove_at j t
  end.

(* a rejected operation leaves the database unchanged (the write transaction fails) *)
Definition step (d : db) (o : op) : db :=
  match o with
  | OpCreate e =>
      match create e with
      | Stored p gs => d ++ [mkE p (e_uuid e) gs]
      | Rejected _ => d
      end
  | OpModify i ms =>
      match nth_error d i with
      | None => d
      | Some e =>
          match modify e ms with
          | Stored p gs => replace i (mkE p (e_uuid e) gs) d
          | Rejected _ => d
          end
      end
  | OpDelete i => remove_at i d
  end.
Definition run (d : db) (ops : list op) : db := fold_left step ops d.

(* ------------------------------------------------------------------ the PROPERTY, stated without the code's tables
   reserved: operating system 0..999, systemd-homed 60001..60577, systemd dynamic users 61184..65519,
   nobody 65534, 16-bit sentinel 65535, and everything from 2^31 (not representable as a signed id).
   NOTE: systemd-nspawn's container range 524288..1879048191 is deliberately NOT in this set: the code
   accepts supplied numbers there (gidnumber.rs:94-101, "for compatibility"), it only never generates them. *)
Definition reservedb (g : N) : bool :=
  (g <? 1000)
  || ((60001 <=? g) && (g <=? 60577))
  || ((61184 <=? g) && (g <=? 65519))
  || (g =? 65534) || (g =? 65535)
  || (2147483648 <=? g).

(* an entry at rest is safe: a posix entry carries exactly one gid and it is not reserved;
   any other entry carries none *)
Definition safe_state (posix : bool) (gids : list N) : bool :=
  if posix then match gids with [g] => negb (reservedb g) | _ => false end
  else match gids with [] => true | _ => false end.
Definition safe (e : entry) : bool := safe_state (e_posix e) (e_gids e).

(* the generated number, by arithmetic on the last four bytes only (no bit operations):
   0x70000000 + the low 28 bits *)
Definition spec_gen (u : uuid) : N :=
  match skipn 12 u with
  | [b0; b1; b2; b3] => 1879048192 + (b0 mod 16) * 16777216 + b1 * 65536 + b2 * 256 + b3
  | _ => 1879048192
  end.

(* declarative outcome of create/modify on the entry as it stands after the modlist *)
Definition spec_outcome (e : entry) : outcome :=
  match e_gids e with
  | [] => if e_posix e then Stored true [spec_gen (e_uuid e)] else Stored false []
  | [g] => if reservedb g then Rejected EGidRange
           else if e_posix e then Stored true [g] else Rejected ESchema
  | _ => Rejected ESchema
  end.

(* ------------------------------------------------------------------ correspondence *)
Definition wf_uuidb (u : uuid) : bool := (N.of_nat (length u) =? 16) && forallb (fun b => b <? 256) u.

Definition err_eqb (a b : err) : bool :=
  match a, b with
  | EGidRange, EGidRange | ESchema, ESchema | EUnique, EUnique | EOther, EOther => true
  | _, _ => false
  end.
Fixpoint list_eqb (a b : list N) : bool :=
  match a, b with
  | [], [] => true
  | x :: a', y :: b' => (x =? y) && list_eqb a' b'
  | _, _ => false
  end.
Definition outcome_eqb (a b : outcome) : bool :=
  match a, b with
  | Stored p gs, Stored q hs => Bool.eqb p q && list_eqb gs hs
  | Rejected x, Rejected y => err_eqb x y
  | _, _ => false
  end.

(* kind: 0 = person account / posixaccount, 1 = group / posixgroup (both disjuncts of the class test)
   CCreate : internal_create of an entry with these classes, uuid and gidnumber values
   CModify : an existing entry (state read back from the server) + modlist through internal_modify_uuid
             (batch = false) or internal_batch_modify (batch = true)
   CCollide: two posix entries created without gidnumber in ONE transaction; `second_unique` = the second
             create was refused by the attribute-uniqueness plugin (gidnumber is a unique attribute) *)
Inductive case :=
| CCreate (kind : N) (posix : bool) (u : uuid) (gids : list N) (out : outcome)
| CModify (kind : N) (batch : bool) (posix : bool) (u : uuid) (gids : list N) (ms : list gmod) (out : outcome)
| CCollide (u1 u2 : uuid) (out2 : outcome).

Definition collide_model (u1 u2 : uuid) : outcome :=
  if gen_gid u1 =? gen_gid u2 then Rejected EUnique else Stored true [gen_gid u2].

Definition agree (c : case) : bool :=
  match c with
  | CCreate _ p u gs out => wf_uuidb u && outcome_eqb (create (mkE p u gs)) out
  | CModify _ _ p u gs ms out => wf_uuidb u && outcome_eqb (modify (mkE p u gs) ms) out
  | CCollide u1 u2 out2 => wf_uuidb u1 && wf_uuidb u2 && outcome_eqb (collide_model u1 u2) out2
  end.

(* numbers a user supplied in a modify: what the entry held plus everything named in the modlist *)
Fixpoint supplied (ms : list gmod) : list N :=
  match ms with
  | [] => []
  | MPresGid g :: r => g :: supplied r
  | MSetGid gs :: r => gs ++ supplied r
  | _ :: r => supplied r
  end.
Definition memb (g : N) (l : list N) : bool := existsb (fun x => x =? g) l.

Definition stored_safe (o : outcome) : bool :=
  match o with Stored p gs => safe_state p gs | Rejected _ => true end.
(* what is stored is the deterministic number of the uuid or one of the supplied numbers *)
Definition stored_origin (u : uuid) (sup : list N) (o : outcome) : bool :=
  match o with
  | Stored true [g] => (g =? spec_gen u) || memb g sup
  | _ => true
  end.

(* the property on the IMPLEMENTATION's observed outcome *)
Definition pcheck (c : case) : bool :=
  match c with
  | CCreate _ p u gs out =>
      stored_safe out && stored_origin u gs out && outcome_eqb (spec_outcome (mkE p u gs)) out
  | CModify _ _ p u gs ms out =>
      stored_safe out && stored_origin u (gs ++ supplied ms) out
  | CCollide u1 u2 out2 =>
      stored_safe out2 &&
      (if spec_gen u1 =? spec_gen u2 then match out2 with Rejected _ => true | _ => false end
       else outcome_eqb (Stored true [spec_gen u2]) out2)
  end.

Definition known (_ : case) : bool := false.
