(* KV.C21.Witness — non-vacuity: concrete, non-trivial values meet the hypotheses of the implication
   theorems of Props.v, and the model reproduces kanidm's own unit-test vectors. *)
From Coq Require Import List NArith Bool Lia.
Import ListNotations.
Require Import KV.C21.Model KV.C21.Proofs.
Open Scope N_scope.

(* 83a0927f-3de1-45ec-bea0-2f7b997ef244 -> 0x797ef244 and d90fb0cb-…-e364d9c13255 -> 0x79c13255
   (test_gidnumber_generate in gidnumber.rs) *)
Definition u_a : uuid := [0x83;0xa0;0x92;0x7f;0x3d;0xe1;0x45;0xec;0xbe;0xa0;0x2f;0x7b;0x99;0x7e;0xf2;0x44].
Definition u_b : uuid := [0xd9;0x0f;0xb0;0xcb;0x67;0x85;0x4f;0x36;0x94;0xcb;0xe3;0x64;0xd9;0xc1;0x32;0x55].
(* u_a with a different top nibble in byte 12 and different leading bytes: same low 28 bits *)
Definition u_a' : uuid := [1;2;3;4;5;6;7;8;9;10;11;12;0x29;0x7e;0xf2;0x44].

(* hypotheses of C21_generated_bytes / C21_low32_of_u128 / C21_pipeline_is_spec: well-formed uuids exist,
   and the generated numbers are the expected ones *)
Example C21_witness_wf_and_vectors :
  wf_uuidb u_a = true /\ wf_uuidb u_b = true /\ wf_uuidb u_a' = true /\
  gen_gid u_a = 0x797ef244 /\ gen_gid u_b = 0x79c13255 /\ spec_gen u_a = 0x797ef244 /\
  uuid_to_gid_u32 u_a = 0x997ef244 /\ uuid_as_u128 u_a mod 2 ^ 32 = 0x997ef244.
Proof. vm_compute. repeat split; reflexivity. Qed.

(* hypothesis of C21_deterministic and of C21_collision_iff (right to left) with DIFFERENT uuids *)
Example C21_witness_deterministic :
  u_a <> u_a' /\ skipn 12 u_a <> skipn 12 u_a' /\
  uuid_to_gid_u32 u_a mod 2 ^ 28 = uuid_to_gid_u32 u_a' mod 2 ^ 28 /\ gen_gid u_a = gen_gid u_a' /\
  skipn 12 u_a = skipn 12 (1 :: tl u_a) /\ u_a <> 1 :: tl u_a /\ gen_gid u_a <> gen_gid u_b.
Proof. vm_compute. repeat split; try reflexivity; discriminate. Qed.

(* hypotheses of C21_supplied / C21_supplied_exact: accepted numbers exist at every interval edge, the
   neighbours are refused *)
Example C21_witness_supplied_edges :
  map accept_gid [1000; 60000; 60578; 61183; 65520; 65533; 65536; 524287; 524288; 1879048191; 1879048192; 2147483647]
    = [true; true; true; true; true; true; true; true; true; true; true; true] /\
  map accept_gid [0; 999; 60001; 60577; 61184; 65519; 65534; 65535; 2147483648; 4294967295]
    = [false; false; false; false; false; false; false; false; false; false] /\
  map reservedb [0; 999; 60001; 60577; 61184; 65519; 65534; 65535; 2147483648; 4294967295]
    = [true; true; true; true; true; true; true; true; true; true].
Proof. vm_compute. repeat split; reflexivity. Qed.

(* hypotheses of C21_reserved_rejected: a posix entry and a non-posix entry with the reserved number 65534 *)
Example C21_witness_reserved_rejected :
  reserved 65534 /\ e_gids (mkE true u_a [65534]) = [65534] /\
  pipeline (mkE true u_a [65534]) = Rejected EGidRange /\
  pipeline (mkE false u_a [65534]) = Rejected EGidRange.
Proof. split; [unfold reserved; lia|]. vm_compute. repeat split; reflexivity. Qed.

(* hypotheses of C21_pipeline_safe / C21_plugin_total: all three kinds of stored outcome occur *)
Example C21_witness_pipeline :
  pipeline (mkE true u_a []) = Stored true [0x797ef244] /\
  pipeline (mkE true u_a [10001]) = Stored true [10001] /\
  pipeline (mkE false u_a []) = Stored false [] /\
  pipeline (mkE false u_a [10001]) = Rejected ESchema /\
  pipeline (mkE true u_a [500; 10001]) = Rejected ESchema.
Proof. vm_compute. repeat split; reflexivity. Qed.

(* hypotheses of C21_modify_safe / C21_stored_origin: purge regenerates, a supplied number is kept,
   adding the class generates, a reserved number among several mods is refused *)
Example C21_witness_modify :
  modify (mkE true u_b [10001]) [MPurgeGid] = Stored true [0x79c13255] /\
  modify (mkE false u_a []) [MPresPosix; MPresGid 10002] = Stored true [10002] /\
  modify (mkE false u_a []) [MPresPosix] = Stored true [0x797ef244] /\
  modify (mkE true u_a [10001]) [MRemGid 10001; MPresGid 65535] = Rejected EGidRange /\
  modify (mkE true u_a [10001]) [MPresGid 500] = Rejected ESchema /\
  modify (mkE true u_a [10001]) [MSetGid [2000]; MRemPosix] = Rejected ESchema.
Proof. vm_compute. repeat split; reflexivity. Qed.

(* hypothesis of C21_reachable_safe: a history that really builds a database (accepted and rejected
   operations, a regeneration, a delete) *)
Example C21_witness_history :
  run [] [OpCreate (mkE true u_a []); OpCreate (mkE true u_b [999]); OpCreate (mkE false u_b []);
          OpModify 1 [MPresPosix; MPresGid 60578]; OpModify 0 [MSetGid [65534]]; OpCreate (mkE true u_a' [1000]);
          OpDelete 0]
  = [mkE true u_b [60578]; mkE true u_a' [1000]].
Proof. vm_compute. reflexivity. Qed.

(* hypothesis of C21_agree_implies_property / C21_pcheck_sound: agreeing cases of each constructor *)
Example C21_witness_cases :
  agree (CCreate 0 true u_a [] (Stored true [0x797ef244])) = true /\
  agree (CModify 1 true true u_b [10001] [MPurgeGid] (Stored true [0x79c13255])) = true /\
  agree (CCollide u_a u_a' (Rejected EUnique)) = true /\
  agree (CCollide u_a u_b (Stored true [0x79c13255])) = true.
Proof. vm_compute. repeat split; reflexivity. Qed.

(* pcheck is not trivially true: it refuses a stored reserved number, a wrong generated number, an altered
   supplied number, and an accepted reserved request — independently of `agree` *)
Example C21_witness_pcheck_refuses :
  pcheck (CCreate 0 true u_a [500] (Stored true [500])) = false /\
  pcheck (CCreate 0 true u_a [] (Stored true [0x797ef245])) = false /\
  pcheck (CCreate 0 true u_a [] (Stored true [0x997ef244])) = false /\
  pcheck (CCreate 1 true u_a [10001] (Stored true [10002])) = false /\
  pcheck (CCreate 1 true u_a [] (Stored true [])) = false /\
  pcheck (CModify 0 false true u_a [10001] [MPresGid 65534; MRemGid 10001] (Stored true [65534])) = false /\
  pcheck (CModify 0 false true u_a [10001] [MPurgeGid] (Stored true [0x797ef245])) = false /\
  pcheck (CCollide u_a u_a' (Stored true [0x797ef244])) = false.
Proof. vm_compute. repeat split; reflexivity. Qed.
