(* KV.C21.Proofs — lemmas and proofs for the gid number model. *)
From Coq Require Import List NArith Bool Lia.
Import ListNotations.
Require Import KV.C21.Model.
Open Scope N_scope.
Arguments N.add : simpl never.
Arguments N.mul : simpl never.
Arguments N.sub : simpl never.
Arguments N.ltb : simpl never.
Arguments N.leb : simpl never.
Arguments N.eqb : simpl never.
Arguments N.land : simpl never.
Arguments N.lor : simpl never.
Arguments N.modulo : simpl never.

Ltac b2p :=
  repeat (rewrite ?orb_true_iff, ?andb_true_iff, ?N.leb_le, ?N.ltb_lt, ?N.eqb_eq in * ).

(* ------------------------------------------------------------------ bit lemmas *)
Lemma land_mask : forall x, N.land x GID_SYSTEM_NUMBER_MASK = x mod 268435456.
Proof.
  intro x. unfold GID_SYSTEM_NUMBER_MASK.
  change 0xfffffff with (N.ones 28). change 268435456 with (2 ^ 28).
  apply N.land_ones.
Qed.

Lemma lor_prefix : forall a, a < 268435456 -> N.lor a 1879048192 = a + 1879048192.
Proof.
  intros a Ha.
  assert (Hd : N.land a 1879048192 = 0).
  { apply N.bits_inj. intro n. rewrite N.land_spec, N.bits_0.
    destruct (N.lt_ge_cases n 28) as [Hn|Hn].
    - change 1879048192 with (N.shiftl 7 28).
      rewrite (N.shiftl_spec_low 7 28 n Hn). apply andb_false_r.
    - rewrite <- (N.mod_small a (2 ^ 28)) by (change (2 ^ 28) with 268435456; exact Ha).
      rewrite (N.mod_pow2_bits_high a 28 n Hn). reflexivity. }
  rewrite <- (N.lxor_lor _ _ Hd). symmetry. apply N.add_nocarry_lxor. exact Hd.
Qed.

Lemma gen_closed : forall u, gen_gid u = 1879048192 + uuid_to_gid_u32 u mod 268435456.
Proof.
  intro u. unfold gen_gid. rewrite land_mask. unfold GID_SYSTEM_NUMBER_PREFIX.
  change 0x70000000 with 1879048192.
  rewrite lor_prefix by (apply N.mod_lt; discriminate). lia.
Qed.

Lemma gen_range : forall u, 1879048192 <= gen_gid u <= 2147483647.
Proof.
  intro u. rewrite gen_closed.
  assert (H : uuid_to_gid_u32 u mod 268435456 < 268435456) by (apply N.mod_lt; discriminate).
  set (m := uuid_to_gid_u32 u mod 268435456) in *. clearbody m. lia.
Qed.

(* ------------------------------------------------------------------ the interval tables *)
Definition accepted (g : N) : Prop :=
  1000 <= g <= 60000 \/ 60578 <= g <= 61183 \/ 65520 <= g <= 65533 \/ 65536 <= g <= 524287
  \/ 524288 <= g <= 1879048191 \/ 1879048192 <= g <= 2147483647.
Definition reserved (g : N) : Prop :=
  g < 1000 \/ 60001 <= g <= 60577 \/ 61184 <= g <= 65519 \/ g = 65534 \/ g = 65535 \/ 2147483648 <= g.

Lemma accept_spec : forall g, accept_gid g = true <-> accepted g.
Proof.
  intro g. unfold accept_gid, contains, accepted,
    GID_REGULAR_USER_MIN, GID_REGULAR_USER_MAX, GID_UNUSED_A_MIN, GID_UNUSED_A_MAX, GID_UNUSED_B_MIN,
    GID_UNUSED_B_MAX, GID_UNUSED_C_MIN, GID_UNUSED_C_MAX, GID_NSPAWN_MIN, GID_NSPAWN_MAX,
    GID_UNUSED_D_MIN, GID_UNUSED_D_MAX.
  change 0x70000000 with 1879048192. change 0x7fffffff with 2147483647.
  b2p. tauto.
Qed.

Lemma reserved_spec : forall g, reservedb g = true <-> reserved g.
Proof. intro g. unfold reservedb, reserved. b2p. tauto. Qed.

Lemma accepted_iff_not_reserved : forall g, accepted g <-> ~ reserved g.
Proof. intro g. unfold accepted, reserved. lia. Qed.

Lemma accept_negb_reserved : forall g, accept_gid g = negb (reservedb g).
Proof.
  intro g. destruct (accept_gid g) eqn:A; destruct (reservedb g) eqn:R; try reflexivity; exfalso.
  - apply accept_spec in A. apply reserved_spec in R. apply accepted_iff_not_reserved in A. tauto.
  - assert (A' : ~ accepted g) by (rewrite <- accept_spec; congruence).
    assert (R' : ~ reserved g) by (rewrite <- reserved_spec; congruence).
    apply A'. apply accepted_iff_not_reserved. exact R'.
Qed.

Lemma gen_not_reserved : forall u, reservedb (gen_gid u) = false.
Proof.
  intro u. pose proof (gen_range u) as Hr.
  destruct (reservedb (gen_gid u)) eqn:R; [|reflexivity].
  apply reserved_spec in R. unfold reserved in R. lia.
Qed.

(* ------------------------------------------------------------------ bytes *)
Lemma wf_uuid_inv : forall u, wf_uuidb u = true ->
  exists a0 a1 a2 a3 a4 a5 a6 a7 a8 a9 a10 a11 b0 b1 b2 b3,
    u = [a0; a1; a2; a3; a4; a5; a6; a7; a8; a9; a10; a11; b0; b1; b2; b3] /\
    Forall (fun b => b < 256) u.
Proof.
  intros u H. unfold wf_uuidb in H. apply andb_true_iff in H as [HL HF].
  apply N.eqb_eq in HL. assert (Hlen : length u = 16%nat) by lia. clear HL.
  assert (HF' : Forall (fun b => b < 256) u).
  { apply Forall_forall. intros x Hx. rewrite forallb_forall in HF. apply N.ltb_lt. apply HF. exact Hx. }
  do 16 (destruct u as [|? u]; [discriminate Hlen|]).
  destruct u; [|discriminate Hlen].
  do 16 eexists. split; [reflexivity | exact HF'].
Qed.

Lemma mod16_split : forall b0 b1 b2 b3, b1 < 256 -> b2 < 256 -> b3 < 256 ->
  (((b0 * 256 + b1) * 256 + b2) * 256 + b3) mod 268435456
  = (b0 mod 16) * 16777216 + b1 * 65536 + b2 * 256 + b3.
Proof.
  intros b0 b1 b2 b3 H1 H2 H3.
  pose proof (N.div_mod b0 16 ltac:(discriminate)) as Hd.
  pose proof (N.mod_lt b0 16 ltac:(discriminate)) as Hr.
  set (q := b0 / 16) in *. set (r := b0 mod 16) in *.
  symmetry. apply (N.mod_unique _ _ q); lia.
Qed.

Lemma gen_is_spec_gen : forall u, wf_uuidb u = true -> gen_gid u = spec_gen u.
Proof.
  intros u H. rewrite gen_closed.
  destruct (wf_uuid_inv u H) as (a0&a1&a2&a3&a4&a5&a6&a7&a8&a9&a10&a11&b0&b1&b2&b3&->&HF).
  unfold uuid_to_gid_u32, spec_gen. cbn [skipn].
  repeat (apply Forall_inv_tail in HF as HF'; apply Forall_inv in HF as ?Hb; clear HF; rename HF' into HF).
  rewrite mod16_split by assumption. lia.
Qed.

Lemma low32_of_u128 : forall u, wf_uuidb u = true ->
  uuid_to_gid_u32 u = uuid_as_u128 u mod 4294967296.
Proof.
  intros u H.
  destruct (wf_uuid_inv u H) as (a0&a1&a2&a3&a4&a5&a6&a7&a8&a9&a10&a11&b0&b1&b2&b3&->&HF).
  unfold uuid_to_gid_u32, uuid_as_u128. cbn [skipn fold_left].
  repeat (apply Forall_inv_tail in HF as HF'; apply Forall_inv in HF as ?Hb; clear HF; rename HF' into HF).
  apply (N.mod_unique _ _
    (fold_left (fun a b => a * 256 + b) [a0; a1; a2; a3; a4; a5; a6; a7; a8; a9; a10; a11] 0)).
  - lia.
  - cbn [fold_left]. lia.
Qed.

Lemma gen_deterministic : forall u v, skipn 12 u = skipn 12 v -> gen_gid u = gen_gid v.
Proof. intros u v H. unfold gen_gid, uuid_to_gid_u32. rewrite H. reflexivity. Qed.

Lemma gen_collision_iff : forall u v,
  gen_gid u = gen_gid v <-> uuid_to_gid_u32 u mod 268435456 = uuid_to_gid_u32 v mod 268435456.
Proof.
  intros u v. rewrite !gen_closed.
  set (m := uuid_to_gid_u32 u mod 268435456). set (n := uuid_to_gid_u32 v mod 268435456).
  clearbody m n. lia.
Qed.

(* ------------------------------------------------------------------ the plugin and the pipeline *)
Lemma plugin_rejects_reserved : forall e g,
  e_gids e = [g] -> reservedb g = true -> apply_gidnumber e = RErr EGidRange.
Proof.
  intros [p u gs] g Hg Hr. cbn [e_gids] in Hg. subst gs.
  unfold apply_gidnumber. cbn [e_posix e_gids e_uuid attribute_pres to_uint32_single negb].
  rewrite andb_false_r. rewrite accept_negb_reserved, Hr. reflexivity.
Qed.

Lemma plugin_ignores_multi : forall p u g1 g2 t,
  apply_gidnumber (mkE p u (g1 :: g2 :: t)) = ROk (mkE p u (g1 :: g2 :: t)).
Proof.
  intros p u g1 g2 t. unfold apply_gidnumber.
  cbn [e_posix e_gids e_uuid attribute_pres to_uint32_single negb]. rewrite andb_false_r. reflexivity.
Qed.

Lemma pipeline_cases : forall p u gs,
  pipeline (mkE p u gs) =
  match gs with
  | [] => if p then Stored true [gen_gid u] else Stored false []
  | [g] => if reservedb g then Rejected EGidRange else if p then Stored true [g] else Rejected ESchema
  | _ => Rejected ESchema
  end.
Proof.
  intros p u gs. unfold pipeline, apply_gidnumber.
  destruct gs as [|g [|g2 t]]; cbn [e_posix e_gids e_uuid attribute_pres to_uint32_single negb].
  - destruct p; cbn [andb schema_ok e_gids e_posix negb]; reflexivity.
  - rewrite andb_false_r. rewrite accept_negb_reserved.
    destruct (reservedb g); cbn [negb]; [reflexivity|].
    destruct p; cbn [schema_ok e_gids e_posix]; reflexivity.
  - rewrite andb_false_r. cbn [schema_ok e_gids]. reflexivity.
Qed.

Lemma pipeline_is_spec : forall e, wf_uuidb (e_uuid e) = true -> pipeline e = spec_outcome e.
Proof.
  intros [p u gs] H. cbn [e_uuid] in H. rewrite pipeline_cases. unfold spec_outcome.
  cbn [e_gids e_posix e_uuid]. destruct gs as [|g [|g2 t]]; try reflexivity.
  rewrite (gen_is_spec_gen u H). reflexivity.
Qed.

Lemma pipeline_safe : forall e p gs, pipeline e = Stored p gs -> safe_state p gs = true.
Proof.
  intros [p0 u gs0] p gs H. rewrite pipeline_cases in H.
  destruct gs0 as [|g [|g2 t]].
  - destruct p0; injection H as <- <-; cbn [safe_state]; [|reflexivity].
    rewrite gen_not_reserved. reflexivity.
  - destruct (reservedb g) eqn:R; [discriminate|]. destruct p0; [|discriminate].
    injection H as <- <-. cbn [safe_state]. rewrite R. reflexivity.
  - discriminate.
Qed.

Lemma safe_state_inv : forall p gs, safe_state p gs = true ->
  (p = true -> exists g, gs = [g] /\ ~ reserved g /\ g < 4294967296) /\ (p = false -> gs = []).
Proof.
  intros p gs H. split; intro Hp; subst p; cbn [safe_state] in H.
  - destruct gs as [|g [|g2 t]]; try discriminate. exists g. split; [reflexivity|].
    assert (R : ~ reserved g).
    { rewrite <- reserved_spec. destruct (reservedb g); [discriminate | congruence]. }
    split; [exact R|]. unfold reserved in R. lia.
  - destruct gs; [reflexivity | discriminate].
Qed.

Lemma pipeline_rejects_reserved : forall e g,
  e_gids e = [g] -> reservedb g = true -> pipeline e = Rejected EGidRange.
Proof.
  intros e g Hg Hr. unfold pipeline. rewrite (plugin_rejects_reserved e g Hg Hr). reflexivity.
Qed.

Lemma pipeline_posix_total : forall e, e_posix e = true ->
  (exists g, pipeline e = Stored true [g] /\ ~ reserved g) \/ (exists x, pipeline e = Rejected x).
Proof.
  intros e Hp. destruct (pipeline e) as [p gs|x] eqn:E; [left | right; eexists; reflexivity].
  pose proof (pipeline_safe e p gs E) as Hs.
  assert (p = true).
  { destruct e as [p0 u gs0]. cbn [e_posix] in Hp. subst p0. rewrite pipeline_cases in E.
    destruct gs0 as [|g [|g2 t]]; try discriminate.
    - injection E as <- _. reflexivity.
    - destruct (reservedb g); [discriminate|]. injection E as <- _. reflexivity. }
  subst p. destruct (safe_state_inv true gs Hs) as [H1 _].
  destruct (H1 eq_refl) as [g [-> [Hr _]]]. exists g. split; [reflexivity | exact Hr].
Qed.

(* ------------------------------------------------------------------ modify lists *)
Lemma fold_uuid : forall ms e, e_uuid (fold_left apply_mod ms e) = e_uuid e.
Proof.
  induction ms as [|m ms IH]; intro e; [reflexivity|]. cbn [fold_left]. rewrite IH.
  destruct m; reflexivity.
Qed.

Lemma in_ins : forall x g l, In x (ins g l) -> x = g \/ In x l.
Proof.
  intros x g l. induction l as [|h t IH]; cbn [ins]; intro H.
  - destruct H as [H|[]]. left. congruence.
  - destruct (g <? h).
    + destruct H as [H|H]; [left; congruence | right; exact H].
    + destruct (g =? h); [right; exact H|].
      destruct H as [H|H]; [right; left; exact H|].
      destruct (IH H) as [H'|H']; [left; exact H' | right; right; exact H'].
Qed.

Lemma fold_gids_origin : forall ms e x,
  In x (e_gids (fold_left apply_mod ms e)) -> In x (e_gids e ++ supplied ms).
Proof.
  induction ms as [|m ms IH]; intros e x H.
  - cbn [fold_left] in H. cbn [supplied]. rewrite app_nil_r. exact H.
  - cbn [fold_left] in H. apply IH in H. apply in_app_or in H. apply in_or_app.
    destruct H as [H|H].
    + destruct m; cbn [apply_mod e_gids supplied] in *.
      * left; exact H.
      * left; exact H.
      * apply in_ins in H as [H|H]; [right; left; congruence | left; exact H].
      * left. unfold del in H. apply filter_In in H. tauto.
      * destruct H.
      * right. apply in_or_app. left. exact H.
    + right. destruct m; cbn [supplied]; try exact H.
      * right; exact H.
      * apply in_or_app. right. exact H.
Qed.

Lemma pipeline_origin : forall e g,
  pipeline e = Stored true [g] -> g = gen_gid (e_uuid e) \/ In g (e_gids e).
Proof.
  intros [p u gs] g H. rewrite pipeline_cases in H. cbn [e_uuid e_gids].
  destruct gs as [|g1 [|g2 t]]; try discriminate.
  - destruct p; [|discriminate]. injection H as <-. left. reflexivity.
  - destruct (reservedb g1); [discriminate|]. destruct p; [|discriminate].
    injection H as <-. right. left. reflexivity.
Qed.

(* ------------------------------------------------------------------ histories *)
Lemma forallb_replace : forall i x d,
  forallb safe d = true -> safe x = true -> forallb safe (replace i x d) = true.
Proof.
  induction i as [|i IH]; intros x d Hd Hx; destruct d as [|h t]; cbn [replace forallb] in *; try reflexivity.
  - apply andb_true_iff in Hd as [_ Ht]. rewrite Hx, Ht. reflexivity.
  - apply andb_true_iff in Hd as [Hh Ht]. rewrite Hh. cbn [andb]. apply IH; assumption.
Qed.

Lemma forallb_remove_at : forall i d, forallb safe d = true -> forallb safe (remove_at i d) = true.
Proof.
  induction i as [|i IH]; intros d Hd; destruct d as [|h t]; cbn [remove_at forallb] in *; try reflexivity.
  - apply andb_true_iff in Hd as [_ Ht]. exact Ht.
  - apply andb_true_iff in Hd as [Hh Ht]. rewrite Hh. cbn [andb]. apply IH. exact Ht.
Qed.

Lemma step_safe : forall d o, forallb safe d = true -> forallb safe (step d o) = true.
Proof.
  intros d o Hd. destruct o as [e|i ms|i]; cbn [step].
  - unfold create. destruct (pipeline e) as [p gs|x] eqn:E; [|exact Hd].
    rewrite forallb_app, Hd. cbn [forallb andb]. rewrite andb_true_r.
    unfold safe. cbn [e_posix e_gids]. exact (pipeline_safe e p gs E).
  - destruct (nth_error d i) as [e|]; [|exact Hd]. unfold modify.
    destruct (pipeline (fold_left apply_mod ms e)) as [p gs|x] eqn:E; [|exact Hd].
    apply forallb_replace; [exact Hd|]. unfold safe. cbn [e_posix e_gids].
    exact (pipeline_safe _ p gs E).
  - apply forallb_remove_at. exact Hd.
Qed.

Lemma run_safe : forall ops d, forallb safe d = true -> forallb safe (run d ops) = true.
Proof.
  unfold run. induction ops as [|o ops IH]; intros d Hd; cbn [fold_left]; [exact Hd|].
  apply IH. apply step_safe. exact Hd.
Qed.

(* ------------------------------------------------------------------ the bridge *)
Lemma list_eqb_eq : forall a b, list_eqb a b = true -> a = b.
Proof.
  induction a as [|x a IH]; intros [|y b] H; cbn [list_eqb] in H; try discriminate; [reflexivity|].
  apply andb_true_iff in H as [H1 H2]. apply N.eqb_eq in H1. rewrite H1, (IH b H2). reflexivity.
Qed.
Lemma list_eqb_refl : forall a, list_eqb a a = true.
Proof. induction a as [|x a IH]; cbn [list_eqb]; [reflexivity|]. rewrite N.eqb_refl, IH. reflexivity. Qed.
Lemma outcome_eqb_eq : forall a b, outcome_eqb a b = true -> a = b.
Proof.
  intros [p gs|x] [q hs|y] H; cbn [outcome_eqb] in H; try discriminate.
  - apply andb_true_iff in H as [H1 H2]. apply eqb_prop in H1. apply list_eqb_eq in H2. congruence.
  - destruct x, y; cbn [err_eqb] in H; try discriminate; reflexivity.
Qed.
Lemma outcome_eqb_refl : forall a, outcome_eqb a a = true.
Proof.
  intros [p gs|x]; cbn [outcome_eqb].
  - rewrite eqb_reflx, list_eqb_refl. reflexivity.
  - destruct x; reflexivity.
Qed.

Lemma memb_in : forall g l, In g l -> memb g l = true.
Proof.
  intros g l H. unfold memb. apply existsb_exists. exists g. split; [exact H | apply N.eqb_refl].
Qed.

Lemma stored_safe_pipeline : forall e, stored_safe (pipeline e) = true.
Proof.
  intro e. destruct (pipeline e) as [p gs|x] eqn:E; cbn [stored_safe]; [|reflexivity].
  exact (pipeline_safe e p gs E).
Qed.

Lemma stored_origin_pipeline : forall e sup,
  wf_uuidb (e_uuid e) = true -> (forall g, In g (e_gids e) -> In g sup) ->
  stored_origin (e_uuid e) sup (pipeline e) = true.
Proof.
  intros e sup Hwf Hsub. destruct (pipeline e) as [p gs|x] eqn:E; cbn [stored_origin]; [|reflexivity].
  destruct p; [|reflexivity]. destruct gs as [|g [|g2 t]]; try reflexivity.
  apply orb_true_iff. destruct (pipeline_origin e g E) as [H|H].
  - left. apply N.eqb_eq. rewrite H. apply gen_is_spec_gen. exact Hwf.
  - right. apply memb_in. apply Hsub. exact H.
Qed.

Lemma agree_implies_pcheck : forall c, agree c = true -> pcheck c = true.
Proof.
  intros [kind p u gs out|kind batch p u gs ms out|u1 u2 out2] H; cbn [agree pcheck] in *.
  - apply andb_true_iff in H as [Hwf H]. apply outcome_eqb_eq in H. subst out. unfold create.
    rewrite (stored_safe_pipeline (mkE p u gs)).
    pose proof (stored_origin_pipeline (mkE p u gs) gs Hwf (fun g Hg => Hg)) as Ho.
    cbn [e_uuid] in Ho. rewrite Ho.
    rewrite <- (pipeline_is_spec (mkE p u gs) Hwf). rewrite outcome_eqb_refl. reflexivity.
  - apply andb_true_iff in H as [Hwf H]. apply outcome_eqb_eq in H. subst out. unfold modify.
    rewrite stored_safe_pipeline. cbn [andb].
    pose proof (fold_uuid ms (mkE p u gs)) as Hu. cbn [e_uuid] in Hu.
    pose proof (stored_origin_pipeline (fold_left apply_mod ms (mkE p u gs)) (gs ++ supplied ms)) as Ho.
    rewrite Hu in Ho. apply Ho; [exact Hwf|].
    intros g Hg. apply fold_gids_origin in Hg. exact Hg.
  - apply andb_true_iff in H as [H H3]. apply andb_true_iff in H as [H1 H2].
    apply outcome_eqb_eq in H3. subst out2. unfold collide_model.
    rewrite <- (gen_is_spec_gen u1 H1), <- (gen_is_spec_gen u2 H2).
    destruct (gen_gid u1 =? gen_gid u2); cbn [stored_safe safe_state andb].
    + reflexivity.
    + rewrite gen_not_reserved. cbn [negb andb]. apply outcome_eqb_refl.
Qed.
