(* KV.C21.Props — property theorems only.
   C21: every POSIX account or group ends up with a gid number outside the ranges reserved for the
   operating system, systemd, 'nobody' and the 16-bit sentinel; generated numbers are a deterministic
   function of the entry's UUID; a user-supplied number inside a reserved range is rejected.

   `reserved g` (KV.C21.Proofs) = g < 1000 \/ 60001..60577 \/ 61184..65519 \/ 65534 \/ 65535 \/ g >= 2^31.
   The systemd-nspawn container range 524288..1879048191 is NOT part of `reserved`: the code accepts
   supplied numbers there on purpose (gidnumber.rs:94-101); C21_generated_safe shows it never GENERATES one. *)
From Coq Require Import List NArith Bool Lia.
Import ListNotations.
Require Import KV.C21.Model KV.C21.Proofs.
Open Scope N_scope.

(* Generated numbers: for EVERY byte list u (all 2^32 values of bytes 12..16, and even ill-formed input)
   the generated number lies in 0x70000000..0x7fffffff, hence is not reserved, is not in the nspawn
   range, and would itself pass the supplied-number check. *)
Theorem C21_generated_safe : forall u,
  0x70000000 <= gen_gid u <= 0x7fffffff /\ ~ reserved (gen_gid u) /\ accept_gid (gen_gid u) = true.
Proof.
  intro u. pose proof (gen_range u) as Hr. pose proof (gen_not_reserved u) as Hn.
  change 0x70000000 with 1879048192. change 0x7fffffff with 2147483647.
  split; [exact Hr|]. split.
  - rewrite <- reserved_spec. rewrite Hn. discriminate.
  - rewrite accept_negb_reserved, Hn. reflexivity.
Qed.

(* mask-and-prefix in closed form: 0x70000000 + (the 32-bit number mod 2^28) *)
Theorem C21_generated_closed_form : forall u,
  gen_gid u = 0x70000000 + uuid_to_gid_u32 u mod 2 ^ 28.
Proof. intro u. change (2 ^ 28) with 268435456. change 0x70000000 with 1879048192. apply gen_closed. Qed.

(* … and, for a real 16-byte uuid, by plain arithmetic on its last four bytes *)
Theorem C21_generated_bytes : forall u, wf_uuidb u = true -> gen_gid u = spec_gen u.
Proof. exact gen_is_spec_gen. Qed.

(* Determinism: the generated number is a function of bytes 12..16 of the uuid and of nothing else *)
Theorem C21_deterministic : forall u v, skipn 12 u = skipn 12 v -> gen_gid u = gen_gid v.
Proof. exact gen_deterministic. Qed.

(* the 32-bit number taken from the uuid is the low 32 bits of the uuid read as a 128-bit number *)
Theorem C21_low32_of_u128 : forall u, wf_uuidb u = true ->
  uuid_to_gid_u32 u = uuid_as_u128 u mod 2 ^ 32.
Proof. intros u H. change (2 ^ 32) with 4294967296. apply low32_of_u128. exact H. Qed.

(* two uuids get the same generated number exactly when their low 28 bits coincide *)
Theorem C21_collision_iff : forall u v,
  gen_gid u = gen_gid v <-> uuid_to_gid_u32 u mod 2 ^ 28 = uuid_to_gid_u32 v mod 2 ^ 28.
Proof. intros u v. change (2 ^ 28) with 268435456. apply gen_collision_iff. Qed.

(* Supplied numbers, ALL naturals (so all 2^32 u32 values) by interval reasoning: the code's six allowed
   intervals are exactly the complement of the reserved set *)
Theorem C21_supplied_exact : forall g, accept_gid g = true <-> ~ reserved g.
Proof. intro g. rewrite accept_spec. apply accepted_iff_not_reserved. Qed.

Theorem C21_supplied : forall g,
  (accept_gid g = true -> ~ reserved g /\ g < 2 ^ 32) /\ (reserved g -> accept_gid g = false).
Proof.
  intro g. split.
  - intro H. apply C21_supplied_exact in H. split; [exact H|].
    change (2 ^ 32) with 4294967296. unfold reserved in H. lia.
  - intro H. destruct (accept_gid g) eqn:A; [|reflexivity]. apply C21_supplied_exact in A. contradiction.
Qed.

(* a single supplied number in a reserved range is refused by the plugin with PL0001, whatever the
   entry's classes; so is the whole create / modify *)
Theorem C21_reserved_rejected : forall e g,
  e_gids e = [g] -> reserved g ->
  apply_gidnumber e = RErr EGidRange /\ pipeline e = Rejected EGidRange.
Proof.
  intros e g Hg Hr. apply reserved_spec in Hr. split.
  - exact (plugin_rejects_reserved e g Hg Hr).
  - exact (pipeline_rejects_reserved e g Hg Hr).
Qed.

(* Whatever create (plugin, then schema) lets through is safe: a posix entry holds exactly one number,
   it is not reserved and fits in 32 bits; a non-posix entry holds none. No hypothesis on the entry. *)
Theorem C21_pipeline_safe : forall e p gs,
  pipeline e = Stored p gs ->
  (p = true -> exists g, gs = [g] /\ ~ reserved g /\ g < 2 ^ 32) /\ (p = false -> gs = []).
Proof.
  intros e p gs H. change (2 ^ 32) with 4294967296.
  apply safe_state_inv. exact (pipeline_safe e p gs H).
Qed.

(* Totality: every posix entry ends with an unreserved number or the operation is rejected *)
Theorem C21_plugin_total : forall e, e_posix e = true ->
  (exists g, pipeline e = Stored true [g] /\ ~ reserved g) \/ (exists x, pipeline e = Rejected x).
Proof. exact pipeline_posix_total. Qed.

(* The pipeline equals the declarative table: no number -> generate (posix) / nothing (other);
   one number -> reserved: PL0001, else kept on a posix entry and a schema error elsewhere;
   several numbers -> schema error *)
Theorem C21_pipeline_is_spec : forall e, wf_uuidb (e_uuid e) = true -> pipeline e = spec_outcome e.
Proof. exact pipeline_is_spec. Qed.

(* Honest remark about the code: the plugin ALONE does not enforce the property. With two or more values
   it checks nothing (to_uint32_single = None) — reserved numbers included; only the later schema check
   (single-value attribute) refuses the entry. C21_pipeline_safe covers the combination. *)
Theorem C21_plugin_skips_multivalue : forall p u g1 g2 t,
  apply_gidnumber (mkE p u (g1 :: g2 :: t)) = ROk (mkE p u (g1 :: g2 :: t)) /\
  pipeline (mkE p u (g1 :: g2 :: t)) = Rejected ESchema.
Proof.
  intros p u g1 g2 t. split; [apply plugin_ignores_multi|]. rewrite pipeline_cases. reflexivity.
Qed.

(* Modify: for EVERY modlist over class / gidnumber (add or drop the posix class, present, remove, purge,
   set — any length, any numbers) applied to ANY entry, what is stored is safe *)
Theorem C21_modify_safe : forall e ms p gs,
  modify e ms = Stored p gs ->
  (p = true -> exists g, gs = [g] /\ ~ reserved g /\ g < 2 ^ 32) /\ (p = false -> gs = []).
Proof. intros e ms p gs H. exact (C21_pipeline_safe _ p gs H). Qed.

(* what is stored is either the uuid's own generated number or one of the numbers the entry held or
   the request named — nothing else can appear *)
Theorem C21_stored_origin : forall e ms g,
  modify e ms = Stored true [g] -> g = gen_gid (e_uuid e) \/ In g (e_gids e ++ supplied ms).
Proof.
  intros e ms g H. unfold modify in H. apply pipeline_origin in H. rewrite fold_uuid in H.
  destruct H as [H|H]; [left; exact H | right; apply fold_gids_origin; exact H].
Qed.

(* Invariant over unbounded histories of creates, modifies and deletes (rejected operations leave the
   database unchanged): every entry at rest is safe *)
Theorem C21_step_preserves : forall d o, forallb safe d = true -> forallb safe (step d o) = true.
Proof. exact step_safe. Qed.

Theorem C21_reachable_safe : forall ops e,
  In e (run [] ops) ->
  (e_posix e = true -> exists g, e_gids e = [g] /\ ~ reserved g /\ g < 2 ^ 32) /\
  (e_posix e = false -> e_gids e = []).
Proof.
  intros ops e Hin. pose proof (run_safe ops [] eq_refl) as H.
  rewrite forallb_forall in H. specialize (H e Hin). change (2 ^ 32) with 4294967296.
  apply safe_state_inv. exact H.
Qed.

(* Bridge: on every recorded case, agreement of the implementation with the model implies the property's
   own predicate on the implementation's output *)
Theorem C21_agree_implies_property : forall c, agree c = true -> pcheck c = true.
Proof. exact agree_implies_pcheck. Qed.

(* … and the predicate means what it says *)
Theorem C21_pcheck_sound : forall c, pcheck c = true ->
  match c with
  | CCreate _ _ _ _ (Stored p gs) | CModify _ _ _ _ _ _ (Stored p gs) | CCollide _ _ (Stored p gs) =>
      (p = true -> exists g, gs = [g] /\ ~ reserved g /\ g < 2 ^ 32) /\ (p = false -> gs = [])
  | _ => True
  end.
Proof.
  intros c H. change (2 ^ 32) with 4294967296.
  destruct c as [k p u gs [q hs|x]|k b p u gs ms [q hs|x]|u1 u2 [q hs|x]]; cbn [pcheck] in H; try exact I;
    repeat (apply andb_true_iff in H as [H ?]); apply safe_state_inv; assumption.
Qed.
