(* KV.C48.Model — upgrading the domain level (executable definitions only).
   Transcribes (server/lib/src/server/migrations.rs, server/mod.rs, entry.rs at /repo HEAD):
     QueryServer::initialise_helper            (version comparison, skip / downgrade refusal,
                                                development-taint re-migration)
     internal_apply_domain_migration           (set Version on the domain entry, reload)
     reload_domain_info_version                (which migrate_domain_* functions run)
     migrate_domain_1_11_to_1_12               (phases 3..7 as batches, phase 8 deletes)
     internal_migrate_or_create_batch          (first error stops the batch; the error is
                                                swallowed in release builds, debug_assert!
                                                panics in debug builds)
     internal_migrate_or_create_ignore_attrs   (create if no live entry, else assert)
     Entry::gen_modlist_assert                 (single-valued / listed ACP attrs: purge then
                                                present, other attributes: present only)
   The database is abstracted to  uuid -> liveness x (attribute -> sorted value set)  over the
   attributes a user or a definition can set; attributes computed by plugins (memberof,
   directmemberof, dynmember, spn, cids, uuid) are outside the model and are only checked on
   the implementation's output (pcheck).  Of the write path only the checks that user content
   can trip are modelled: uuid uniqueness and attribute uniqueness (plugins base, attrunique). *)
From Coq Require Import List NArith Bool.
Import ListNotations.
Open Scope N_scope.

(* plain N (notations, so that terms stay syntactically uniform) *)
Notation attr := N (only parsing).
Notation val := N (only parsing).
Notation uuid := N (only parsing).
Definition avs := list (attr * list val).

(* attribute ids fixed by the harness (harness/src/bin/c48.rs FIXED_ATTRS) *)
Definition A_CLASS : attr := 0.
Definition A_NAME : attr := 1.
Definition A_MEMBER : attr := 2.
Definition A_MCO : attr := 3.      (* member_create_once *)
Definition A_CTM : attr := 4.      (* credential_type_minimum: the attribute migrations ignore *)
Definition A_VERSION : attr := 5.
(* acp_receiver_group, acp_create_attr, acp_create_class, acp_modify_presentattr,
   acp_modify_removedattr, acp_modify_class, systemmust, systemmay *)
Definition purge_first (a : attr) : bool := (6 <=? a) && (a <=? 13).

(* DOMAIN_LEVEL_1_11 / DOMAIN_LEVEL_1_12 / DOMAIN_LEVEL_1_13 *)
Definition DL_1_11 : N := 15.
Definition DL_1_12 : N := 16.
Definition DL_1_13 : N := 17.

Record cfg := mkCfg {
  single : list attr;     (* schema: attributes that are not multivalue *)
  uniq : list attr;       (* schema: attributes with unique = true *)
  refa : list attr;       (* schema: attributes of syntax ReferenceUuid *)
  dbg : bool;             (* cfg!(debug_assertions) *)
  v_builtin : val;        (* class value "builtin" *)
  u_dom : uuid;           (* UUID_DOMAIN_INFO *)
  from_min : N;           (* DOMAIN_MIGRATION_FROM_MIN *)
  min_remig : N;          (* DOMAIN_MIN_REMIGRATION_LEVEL *)
  prev_tgt : N;           (* DOMAIN_PREVIOUS_TGT_LEVEL *)
  devel : bool            (* development taint (KANIDM_PRE_RELEASE) *)
}.

Record entry := mkE { eu : uuid; elive : bool; eav : avs }.
Definition db := list entry.
(* a built-in definition: migration phase, uuid, attributes (without uuid) *)
Record bdef := mkB { bphase : N; bu : uuid; bav : avs }.

(* ---------------------------------------------------------------- value sets / attribute maps *)
Definition vmem (x : N) (l : list N) : bool := existsb (N.eqb x) l.

Fixpoint vins (x : N) (l : list N) : list N :=
  match l with
  | [] => [x]
  | y :: r => if x <? y then x :: l else if x =? y then l else y :: vins x r
  end.
Definition vunion (a b : list N) : list N := fold_right vins a b.
Definition vrem (x : N) (l : list N) : list N := filter (fun y => negb (x =? y)) l.

Definition get (a : attr) (m : avs) : list val :=
  match find (fun p => fst p =? a) m with Some p => snd p | None => [] end.
Definition del (a : attr) (m : avs) : avs := filter (fun p => negb (fst p =? a)) m.
Fixpoint ains (a : attr) (vs : list val) (m : avs) : avs :=
  match m with
  | [] => [(a, vs)]
  | p :: r => if a <? fst p then (a, vs) :: m else p :: ains a vs r
  end.
(* an attribute without values does not exist *)
Definition set (a : attr) (vs : list val) (m : avs) : avs :=
  match vs with [] => del a m | _ => ains a vs (del a m) end.

(* ---------------------------------------------------------------- gen_modlist_assert + apply *)
(* for (k, vs): [Purged k] if single-valued or listed, then Present k v for every v *)
Definition assert_attr (c : cfg) (cur : avs) (kv : attr * list val) : avs :=
  let '(k, vs) := kv in
  if vmem k (single c) || purge_first k then set k vs cur
  else set k (vunion (get k cur) vs) cur.
Definition assert_mods (c : cfg) (want cur : avs) : avs := fold_left (assert_attr c) want cur.

(* the create branch: member_create_once is merged into member; plugin base tags the entry builtin *)
Definition create_avs (c : cfg) (b : avs) : avs :=
  let mco := get A_MCO b in
  let b1 := del A_MCO b in
  let b2 := match mco with [] => b1 | _ => set A_MEMBER (vunion (get A_MEMBER b1) mco) b1 end in
  set A_CLASS (vins (v_builtin c) (get A_CLASS b2)) b2.

(* ---------------------------------------------------------------- the write path checks *)
Definition shares (x y : list val) : bool := existsb (fun v => vmem v y) x.
(* plugin attrunique: another LIVE entry holds one of the candidate's values of a unique attribute *)
Definition uclash (c : cfg) (u : uuid) (m : avs) (d : db) : bool :=
  existsb (fun e => elive e && negb (eu e =? u) &&
                    existsb (fun a => shares (get a m) (get a (eav e))) (uniq c)) d.

Definition find_live (u : uuid) (d : db) : option entry :=
  find (fun e => (eu e =? u) && elive e) d.
Definition exists_any (u : uuid) (d : db) : bool := existsb (fun e => eu e =? u) d.
Definition upd (e' : entry) (d : db) : db :=
  map (fun e => if (eu e =? eu e') && elive e then e' else e) d.
Fixpoint ins_entry (e : entry) (d : db) : db :=
  match d with
  | [] => [e]
  | x :: r => if eu e <? eu x then e :: d else x :: ins_entry e r
  end.

(* internal_migrate_or_create_ignore_attrs; None = Err *)
Definition moc (c : cfg) (d : db) (b : bdef) : option db :=
  match find_live (bu b) d with
  | None =>
      let m := create_avs c (bav b) in
      if exists_any (bu b) d || uclash c (bu b) m d then None
      else Some (ins_entry (mkE (bu b) true m) d)
  | Some e =>
      let want := del A_CTM (del A_MCO (bav b)) in
      let m := assert_mods c want (eav e) in
      if uclash c (bu b) m d then None else Some (upd (mkE (bu b) true m) d)
  end.

(* try_for_each: stops at the first error; (database so far, no error) *)
Fixpoint batch (c : cfg) (d : db) (bs : list bdef) : db * bool :=
  match bs with
  | [] => (d, true)
  | b :: r => match moc c d b with None => (d, false) | Some d' => batch c d' r end
  end.

Definition phase_defs (p : N) (defs : list bdef) : list bdef :=
  filter (fun b => bphase b =? p) defs.

(* internal_migrate_or_create_batch per phase: an error is logged; debug builds panic
   (debug_assert!(false)), release builds return Ok(()) and the migration goes on.
   Result: (None = panicked | Some database, every batch completed) *)
Fixpoint run_phases (c : cfg) (defs : list bdef) (ps : list N) (d : db) : option db * bool :=
  match ps with
  | [] => (Some d, true)
  | p :: r =>
      let '(d1, ok) := batch c d (phase_defs p defs) in
      if ok then run_phases c defs r d1
      else if dbg c then (None, false)
      else (fst (run_phases c defs r d1), false)
  end.

(* internal_delete_batch (phase 8): a live entry goes to the recycle bin, plugin refint removes
   the references to it.  (No entry of the 1.11 -> 1.12 delete list exists in a 1.11 database,
   so this branch is never exercised by the correspondence.) *)
Definition strip1 (c : cfg) (u : uuid) (p : attr * list val) : avs :=
  if vmem (fst p) (refa c) && vmem u (snd p)
  then match vrem u (snd p) with [] => [] | r => [(fst p, r)] end
  else [p].
Definition strip (c : cfg) (u : uuid) (m : avs) : avs := flat_map (strip1 c u) m.
Definition delete_one (c : cfg) (d : db) (u : uuid) : db :=
  match find_live u d with
  | None => d
  | Some _ =>
      map (fun e => if eu e =? u then mkE (eu e) false (eav e)
                    else if elive e then mkE (eu e) true (strip c u (eav e)) else e) d
  end.

Inductive outcome := OOk | OPanic | OSkip | ODowngrade | OErr.

(* an attribute map that mentions none of the uuids [dels] in a reference attribute *)
Definition noref (c : cfg) (dels : list uuid) (m : avs) : bool :=
  forallb (fun p => negb (vmem (fst p) (refa c)) || forallb (fun u => negb (vmem u (snd p))) dels) m.

Definition PHASES : list N := [3; 4; 5; 6; 7].
(* the definitions in the order in which the migration asserts them *)
Definition all_seq (defs : list bdef) : list bdef := flat_map (fun p => phase_defs p defs) PHASES.

(* migrate_domain_1_11_to_1_12: (outcome, database, every built-in was asserted) *)
Definition mig16 (c : cfg) (defs : list bdef) (dels : list uuid) (d : db) : outcome * db * bool :=
  match run_phases c defs PHASES d with
  | (None, _) => (OPanic, d, false)
  | (Some d1, ok) => (OOk, fold_left (delete_one c) dels d1, ok)
  end.

(* reload_domain_info_version with in-memory version [prev] and stored version [new]
   (phase is Running: the server had been initialised before) *)
Definition reload_version (c : cfg) (defs : list bdef) (dels : list uuid) (prev new : N) (d : db)
  : outcome * db * bool :=
  if prev =? new then (OOk, d, true)
  else if prev <? min_remig c then (OErr, d, false)       (* MG0001InvalidReMigrationLevel *)
  else if prev <? DL_1_11 then (OErr, d, false)           (* older migrations: not modelled *)
  else if DL_1_13 <=? new then (OErr, d, false)           (* MG0004DomainLevelInDevelopment *)
  else if (prev <=? DL_1_11) && (DL_1_12 <=? new) then mig16 c defs dels d
  else (OOk, d, true).

Definition set_version (c : cfg) (v : val) (d : db) : db :=
  map (fun e => if (eu e =? u_dom c) && elive e
                then mkE (eu e) true (set A_VERSION [v] (eav e)) else e) d.

(* initialise_helper on an initialised database whose stored level is [cur]; [vtgt] is the
   value that represents [tgt].  Everything runs in ONE write transaction: any outcome other
   than OOk leaves the database as it was. *)
Definition init_helper (c : cfg) (defs : list bdef) (dels : list uuid) (cur tgt : N) (vtgt : val) (d : db)
  : outcome * db * bool :=
  if cur <? tgt then
    if cur <? from_min c then (OSkip, d, false)                  (* MG0008SkipUpgradeAttempted *)
    else if negb (tgt =? cur + 1) then (OErr, d, false)          (* several steps: not modelled *)
    else
      match reload_version c defs dels cur tgt (set_version c vtgt d) with
      | (OOk, d2, ok) => (OOk, d2, ok)
      | (o, _, _) => (o, d, false)
      end
  else if tgt <? cur then (ODowngrade, d, false)                 (* MG0010DowngradeNotAllowed *)
  else if devel c && (prev_tgt c <=? cur) then
    (* domain_remigrate(DOMAIN_PREVIOUS_TGT_LEVEL) then reload *)
    match reload_version c defs dels (prev_tgt c) cur d with
    | (OOk, d2, ok) => (OOk, d2, ok)
    | (o, _, _) => (o, d, false)
    end
  else (OOk, d, true).

(* ================================================================ correspondence *)
(* what the harness dumps per entry: uuid, liveness, (attribute, fingerprint of the stored value
   set, values), every uuid it references, directmemberof, memberof, dynmember *)
Record dentry := mkD {
  du : uuid; dlive : bool; dav : list (attr * N * list val);
  drefs : list uuid; ddmo : list uuid; dmo : list uuid; ddyn : list uuid }.

Definition forget (x : dentry) : entry :=
  mkE (du x) (dlive x) (map (fun p => (fst (fst p), snd p)) (dav x)).

Inductive case :=
| CHist (c : cfg) (defs : list bdef) (dels : list uuid) (cur tgt : N) (vtgt : val) (users : list uuid)
        (before : list dentry) (oc : N) (after : list dentry) (vb va : N)
| CFresh (c : cfg) (defs : list bdef) (after : list dentry) (va : N).

Definition ocode (o : outcome) : N :=
  match o with OOk => 0 | OPanic => 1 | OSkip => 2 | ODowngrade => 3 | OErr => 4 end.

Fixpoint list_eqb {A} (f : A -> A -> bool) (x y : list A) : bool :=
  match x, y with
  | [], [] => true
  | a :: r, b :: s => f a b && list_eqb f r s
  | _, _ => false
  end.
Definition avs_eqb : avs -> avs -> bool :=
  list_eqb (fun p q => (fst p =? fst q) && list_eqb N.eqb (snd p) (snd q)).
Definition entry_eqb (x y : entry) : bool :=
  (eu x =? eu y) && Bool.eqb (elive x) (elive y) && avs_eqb (eav x) (eav y).

Definition subset (x y : list N) : bool := forallb (fun v => vmem v y) x.
(* a bootstrap asserts every definition on an empty database; plugins add further classes
   (memberof, key object kinds) to some entries, every other attribute is exactly the model's *)
Definition covered (m have : avs) : bool :=
  forallb (fun p => if fst p =? A_CLASS then subset (snd p) (get (fst p) have)
                    else list_eqb N.eqb (snd p) (get (fst p) have)) m.

Definition agree (k : case) : bool :=
  match k with
  | CHist c defs dels cur tgt vtgt _ before oc after _ _ =>
      let '(o, d', _) := init_helper c defs dels cur tgt vtgt (map forget before) in
      (ocode o =? oc) && list_eqb entry_eqb d' (map forget after)
  | CFresh c defs after _ =>
      match run_phases c defs PHASES [] with
      | (Some d', true) =>
          forallb (fun e => match find_live (eu e) (map forget after) with
                            | Some x => covered (eav e) (eav x)
                            | None => false end) d'
      | _ => false
      end
  end.

(* ---------------------------------------------------------------- the property, on the
   implementation's observations only *)
Definition dfind (u : uuid) (l : list dentry) : option dentry := find (fun x => du x =? u) l.
Definition dlive_find (u : uuid) (l : list dentry) : option dentry :=
  find (fun x => (du x =? u) && dlive x) l.
Definition dget (a : attr) (x : dentry) : list val := get a (eav (forget x)).
Definition is_def (defs : list bdef) (u : uuid) : bool := existsb (fun b => bu b =? u) defs.

Definition dav_eqb : list (attr * N * list val) -> list (attr * N * list val) -> bool :=
  list_eqb (fun p q => (fst (fst p) =? fst (fst q)) && (snd (fst p) =? snd (fst q))
                       && list_eqb N.eqb (snd p) (snd q)).

(* P2: every entry that is not a built-in definition keeps liveness and every stored value set
   (compared through the fingerprint of the stored form AND the printed values) *)
Definition user_preserved (defs : list bdef) (before after : list dentry) : bool :=
  forallb (fun x => is_def defs (du x) ||
                    match dfind (du x) after with
                    | Some y => Bool.eqb (dlive x) (dlive y) && dav_eqb (dav x) (dav y)
                    | None => false end) before.

(* P3: every definition not on the delete list has a live entry carrying every value of the
   definition; member_create_once / credential_type_minimum only bind entries the migration
   itself created (that is their documented meaning) *)
Definition builtin_present (defs : list bdef) (dels : list uuid) (before after : list dentry) : bool :=
  forallb (fun b => vmem (bu b) dels ||
    match dlive_find (bu b) after with
    | None => false
    | Some y =>
        let fresh := match dlive_find (bu b) before with None => true | Some _ => false end in
        forallb (fun p =>
          if fst p =? A_MCO then negb fresh || subset (snd p) (dget A_MEMBER y)
          else if fst p =? A_CTM then negb fresh || subset (snd p) (dget A_CTM y)
          else subset (snd p) (dget (fst p) y)) (bav b)
    end) defs.

(* P5: what administrators set on EXISTING built-in entries survives unless the definition owns the
   attribute (single-valued or purge-listed attribute named by the definition); in particular added
   members, account-policy values and credential_type_minimum stay *)
Definition bfind (u : uuid) (defs : list bdef) : option bdef := find (fun b => bu b =? u) defs.
Definition builtin_edits_kept (c : cfg) (defs : list bdef) (before after : list dentry) : bool :=
  forallb (fun x =>
    match bfind (du x) defs, dlive x with
    | Some b, true =>
        match dlive_find (du x) after with
        | None => false
        | Some y =>
            forallb (fun p =>
              let a := fst (fst p) in
              let owned := (vmem a (single c) || purge_first a) && vmem a (map fst (bav b))
                           && negb (a =? A_CTM) && negb (a =? A_MCO) in
              owned || ((a =? A_VERSION) && (du x =? u_dom c)) || subset (snd p) (dget a y)) (dav x)
        end
    | _, _ => true
    end) before.

(* P4: consistency recomputed from the dump: references of live entries point to live entries;
   directmemberof = the live groups that list the entry as member or dynmember; memberof is
   locally closed (= exact on acyclic graphs, KV.C17) *)
Definition live_uuids (l : list dentry) : list uuid := map du (filter dlive l).
Definition refs_closed (l : list dentry) : bool :=
  let lv := live_uuids l in
  forallb (fun x => negb (dlive x) || subset (drefs x) lv) l.
Definition groups_of (u : uuid) (l : list dentry) : list uuid :=
  fold_right vins [] (map du (filter (fun g => dlive g && (vmem u (dget A_MEMBER g) || vmem u (ddyn g))) l)).
Definition mo_of (dm : list uuid) (l : list dentry) : list uuid :=
  fold_right (fun g acc => match dlive_find g l with
                           | Some ge => vunion (vins g acc) (dmo ge)
                           | None => vins g acc end) [] dm.
Definition memberof_ok (l : list dentry) : bool :=
  forallb (fun x => negb (dlive x) ||
                    (list_eqb N.eqb (ddmo x) (groups_of (du x) l) &&
                     list_eqb N.eqb (dmo x) (mo_of (ddmo x) l))) l.
Definition consistent (l : list dentry) (v : N) : bool :=
  (v =? 0) && refs_closed l && memberof_ok l.

Definition pcheck (k : case) : bool :=
  match k with
  | CHist c defs dels cur tgt vtgt _ before oc after vb va =>
      user_preserved defs before after &&
      builtin_edits_kept c defs before after &&
      (negb (consistent before vb) || consistent after va) &&
      (if tgt <? cur then negb (oc =? 0)                 (* a downgrade must be refused *)
       else (oc =? 0) && builtin_present defs dels before after)
  | CFresh c defs after va =>
      consistent after va && builtin_present defs [] [] after
  end.

(* known-finding class `name-collision`: a definition without a live entry whose unique
   attribute values (its name) are held by a live entry of the database being upgraded *)
Definition known (k : case) : bool :=
  match k with
  | CHist c defs _ cur tgt _ _ before _ _ _ _ =>
      negb (tgt <? cur) &&
      existsb (fun b => match dlive_find (bu b) before with
                        | Some _ => false
                        | None => uclash c (bu b) (bav b) (map forget before) end) defs
  | CFresh _ _ _ _ => false
  end.
