(* KV.C48.Proofs — lemmas about the migration model. *)
From Coq Require Import List NArith Bool Lia.
Import ListNotations.
Require Import KV.C48.Model.
Open Scope N_scope.

Arguments N.add : simpl never.
Arguments N.sub : simpl never.
Arguments N.ltb : simpl never.
Arguments N.leb : simpl never.
Arguments N.eqb : simpl never.

(* ---------------------------------------------------------------- value sets *)
Lemma vmem_In : forall x l, vmem x l = true <-> In x l.
Proof.
  intros x l. unfold vmem. rewrite existsb_exists. split.
  - intros [y [Hy He]]. apply N.eqb_eq in He. subst. exact Hy.
  - intros H. exists x. split; [exact H | apply N.eqb_refl].
Qed.

Lemma In_vins : forall x y l, In x (vins y l) <-> x = y \/ In x l.
Proof.
  intros x y l. induction l as [|z r IH]; cbn [vins].
  - cbn. intuition congruence.
  - destruct (y <? z) eqn:E1.
    + cbn. intuition congruence.
    + destruct (y =? z) eqn:E2.
      * apply N.eqb_eq in E2. subst. cbn. intuition congruence.
      * cbn. rewrite IH. intuition congruence.
Qed.

Lemma In_vunion : forall x a b, In x (vunion a b) <-> In x a \/ In x b.
Proof.
  intros x a b. unfold vunion. induction b as [|y r IH]; cbn [fold_right].
  - cbn. tauto.
  - rewrite In_vins, IH. cbn. intuition congruence.
Qed.

(* ---------------------------------------------------------------- attribute maps *)
Lemma get_cons : forall a p m, get a (p :: m) = if fst p =? a then snd p else get a m.
Proof. intros a [k vs] m. unfold get. simpl. destruct (k =? a); reflexivity. Qed.

Lemma get_del_same : forall a m, get a (del a m) = [].
Proof.
  intros a m. induction m as [|p r IH]; [reflexivity|].
  unfold del in *. cbn [filter]. destruct (fst p =? a) eqn:E; cbn [negb].
  - exact IH.
  - rewrite get_cons, E. exact IH.
Qed.

Lemma get_del_other : forall a k m, a <> k -> get a (del k m) = get a m.
Proof.
  intros a k m Hne. induction m as [|p r IH]; [reflexivity|].
  unfold del in *. cbn [filter]. rewrite get_cons. destruct (fst p =? k) eqn:E; cbn [negb].
  - apply N.eqb_eq in E. destruct (fst p =? a) eqn:E2.
    + apply N.eqb_eq in E2. congruence.
    + exact IH.
  - rewrite get_cons. destruct (fst p =? a); [reflexivity | exact IH].
Qed.

Lemma get_ains_same : forall a vs m, get a m = [] -> (forall p, In p m -> fst p = a -> False) ->
  get a (ains a vs m) = vs.
Proof.
  intros a vs m _ Hno. induction m as [|p r IH]; cbn [ains].
  - rewrite get_cons. cbn [fst snd]. rewrite N.eqb_refl. reflexivity.
  - destruct (a <? fst p).
    + rewrite get_cons. cbn [fst snd]. rewrite N.eqb_refl. reflexivity.
    + rewrite get_cons. destruct (fst p =? a) eqn:E.
      * apply N.eqb_eq in E. exfalso. apply (Hno p); [left; reflexivity | exact E].
      * apply IH. intros q Hq. apply Hno. right. exact Hq.
Qed.

Lemma del_no_key : forall a m p, In p (del a m) -> fst p = a -> False.
Proof.
  intros a m p H E. unfold del in H. apply filter_In in H. destruct H as [_ H].
  subst. rewrite N.eqb_refl in H. discriminate.
Qed.

Lemma get_ains_other : forall a k vs m, a <> k -> get a (ains k vs m) = get a m.
Proof.
  intros a k vs m Hne. induction m as [|p r IH]; cbn [ains].
  - rewrite get_cons. cbn [fst]. destruct (k =? a) eqn:E; [apply N.eqb_eq in E; congruence | reflexivity].
  - destruct (k <? fst p).
    + rewrite get_cons. cbn [fst]. destruct (k =? a) eqn:E; [apply N.eqb_eq in E; congruence | reflexivity].
    + rewrite !get_cons. destruct (fst p =? a); [reflexivity | exact IH].
Qed.

Lemma get_set_same : forall a vs m, get a (set a vs m) = vs.
Proof.
  intros a vs m. unfold set. destruct vs as [|v r].
  - apply get_del_same.
  - apply get_ains_same; [apply get_del_same | apply del_no_key].
Qed.

Lemma get_set_other : forall a k vs m, a <> k -> get a (set k vs m) = get a m.
Proof.
  intros a k vs m Hne. unfold set. destruct vs as [|v r].
  - apply get_del_other; exact Hne.
  - rewrite get_ains_other by exact Hne. apply get_del_other; exact Hne.
Qed.

Lemma get_not_key : forall a m, ~ In a (map fst m) -> get a m = [].
Proof.
  intros a m. induction m as [|p r IH]; intros H; [reflexivity|].
  rewrite get_cons. destruct (fst p =? a) eqn:E.
  - apply N.eqb_eq in E. exfalso. apply H. left. exact E.
  - apply IH. intros Hi. apply H. right. exact Hi.
Qed.

Lemma keys_del : forall k m, NoDup (map fst m) -> NoDup (map fst (del k m)).
Proof.
  intros k m. induction m as [|p r IH]; intros H; [constructor|].
  cbn [map] in H. inversion H as [|x l Hn Hd]; subst.
  unfold del in *. cbn [filter]. destruct (negb (fst p =? k)).
  - cbn [map]. constructor; [|apply IH; exact Hd].
    intros Hi. apply Hn. apply in_map_iff in Hi. destruct Hi as [q [Hq1 Hq2]].
    apply filter_In in Hq2. apply in_map_iff. exists q. tauto.
  - apply IH. exact Hd.
Qed.

Lemma key_del_In : forall a k m, In a (map fst (del k m)) -> In a (map fst m) /\ a <> k.
Proof.
  intros a k m H. apply in_map_iff in H. destruct H as [q [Hq1 Hq2]].
  unfold del in Hq2. apply filter_In in Hq2. destruct Hq2 as [Hq2 Hq3]. split.
  - apply in_map_iff. exists q. tauto.
  - intros ->. subst. rewrite N.eqb_refl in Hq3. discriminate.
Qed.

Lemma get_In_key : forall a m, NoDup (map fst m) -> forall vs, In (a, vs) m -> get a m = vs.
Proof.
  intros a m. induction m as [|p r IH]; intros Hnd vs Hin; [destruct Hin|].
  cbn [map] in Hnd. inversion Hnd as [|x l Hn Hd]; subst.
  rewrite get_cons. destruct Hin as [->|Hin].
  - cbn [fst snd]. rewrite N.eqb_refl. reflexivity.
  - destruct (fst p =? a) eqn:E.
    + apply N.eqb_eq in E. exfalso. apply Hn. apply in_map_iff. exists (a, vs). split; [symmetry; exact E | exact Hin].
    + apply IH; assumption.
Qed.

(* ---------------------------------------------------------------- assert (gen_modlist_assert) *)
Lemma assert_attr_other : forall c cur k vs a, a <> k -> get a (assert_attr c cur (k, vs)) = get a cur.
Proof.
  intros c cur k vs a Hne. unfold assert_attr.
  destruct (vmem k (single c) || purge_first k); apply get_set_other; exact Hne.
Qed.

Lemma assert_attr_same : forall c cur k vs, incl vs (get k (assert_attr c cur (k, vs))).
Proof.
  intros c cur k vs. unfold assert_attr.
  destruct (vmem k (single c) || purge_first k); rewrite get_set_same.
  - apply incl_refl.
  - intros x Hx. apply In_vunion. right. exact Hx.
Qed.

Lemma assert_mods_other : forall c want cur a, ~ In a (map fst want) ->
  get a (assert_mods c want cur) = get a cur.
Proof.
  intros c want. unfold assert_mods. induction want as [|[k vs] r IH]; intros cur a Hn; [reflexivity|].
  cbn [fold_left]. rewrite IH.
  - apply assert_attr_other. intros ->. apply Hn. left. reflexivity.
  - intros Hi. apply Hn. right. exact Hi.
Qed.

Lemma assert_mods_covers : forall c want cur, NoDup (map fst want) ->
  forall k vs, In (k, vs) want -> incl vs (get k (assert_mods c want cur)).
Proof.
  intros c want. unfold assert_mods. induction want as [|[k0 vs0] r IH]; intros cur Hnd k vs Hin; [destruct Hin|].
  cbn [map fst] in Hnd. inversion Hnd as [|x l Hn Hd]; subst.
  cbn [fold_left]. destruct Hin as [E|Hin].
  - inversion E; subst. fold (assert_mods c r (assert_attr c cur (k, vs))).
    rewrite assert_mods_other by exact Hn. apply assert_attr_same.
  - apply IH; assumption.
Qed.

(* ---------------------------------------------------------------- databases *)
Lemma In_ins_entry : forall x e d, In x (ins_entry e d) <-> x = e \/ In x d.
Proof.
  intros x e d. induction d as [|y r IH]; cbn [ins_entry].
  - cbn. intuition congruence.
  - destruct (eu e <? eu y); cbn; [intuition congruence|]. rewrite IH. intuition congruence.
Qed.

Lemma In_upd_other : forall x e' d, eu x <> eu e' -> (In x (upd e' d) <-> In x d).
Proof.
  intros x e' d Hne. unfold upd. rewrite in_map_iff. split.
  - intros [y [Hy Hin]]. destruct ((eu y =? eu e') && elive y).
    + subst. congruence.
    + subst. exact Hin.
  - intros Hin. exists x. split; [|exact Hin].
    destruct (eu x =? eu e') eqn:E; [apply N.eqb_eq in E; congruence | reflexivity].
Qed.

Lemma find_live_some : forall u d e, find_live u d = Some e -> In e d /\ eu e = u /\ elive e = true.
Proof.
  intros u d e H. unfold find_live in H. apply find_some in H. destruct H as [Hin H].
  apply andb_true_iff in H. destruct H as [H1 H2]. apply N.eqb_eq in H1. tauto.
Qed.

Lemma find_live_none : forall u d, (forall x, In x d -> eu x <> u) -> find_live u d = None.
Proof.
  intros u d H. unfold find_live. destruct (find _ d) as [e|] eqn:E; [|reflexivity].
  apply find_some in E. destruct E as [Hin E]. apply andb_true_iff in E. destruct E as [E _].
  apply N.eqb_eq in E. exfalso. exact (H e Hin E).
Qed.

(* what one internal_migrate_or_create does to the other entries: nothing *)
Lemma moc_other : forall c d b d', moc c d b = Some d' ->
  forall x, eu x <> bu b -> (In x d' <-> In x d).
Proof.
  intros c d b d' H x Hne. unfold moc in H. destruct (find_live (bu b) d) as [e|].
  - destruct (uclash c (bu b) _ d); [discriminate|]. inversion H; subst.
    apply In_upd_other. cbn [eu]. exact Hne.
  - destruct (exists_any (bu b) d || uclash c (bu b) _ d); [discriminate|]. inversion H; subst.
    rewrite In_ins_entry. split; [|tauto]. intros [->|Hi]; [cbn [eu] in Hne; congruence | exact Hi].
Qed.

Lemma batch_other : forall c bs d d' ok, batch c d bs = (d', ok) ->
  forall x, ~ In (eu x) (map bu bs) -> (In x d' <-> In x d).
Proof.
  intros c bs. induction bs as [|b r IH]; intros d d' ok H x Hn; cbn [batch] in H.
  - inversion H; subst. tauto.
  - destruct (moc c d b) as [d1|] eqn:E.
    + rewrite (IH d1 d' ok H x).
      * apply (moc_other c d b d1 E). intros Heq. apply Hn. left. symmetry. exact Heq.
      * intros Hi. apply Hn. right. exact Hi.
    + inversion H; subst. tauto.
Qed.

Lemma phase_defs_bu : forall p defs u, In u (map bu (phase_defs p defs)) -> In u (map bu defs).
Proof.
  intros p defs u H. apply in_map_iff in H. destruct H as [b [Hb Hin]].
  unfold phase_defs in Hin. apply filter_In in Hin. apply in_map_iff. exists b. tauto.
Qed.

Lemma run_phases_other : forall c defs ps d d' ok, run_phases c defs ps d = (Some d', ok) ->
  forall x, ~ In (eu x) (map bu defs) -> (In x d' <-> In x d).
Proof.
  intros c defs ps. induction ps as [|p r IH]; intros d d' ok H x Hn; cbn [run_phases] in H.
  - inversion H; subst. tauto.
  - destruct (batch c d (phase_defs p defs)) as [d1 ok1] eqn:E.
    assert (Hb : In x d1 <-> In x d).
    { apply (batch_other c _ d d1 ok1 E). intros Hi. apply Hn. eapply phase_defs_bu. exact Hi. }
    destruct ok1.
    + rewrite (IH d1 d' ok H x Hn). exact Hb.
    + destruct (dbg c); [discriminate|].
      destruct (run_phases c defs r d1) as [o2 ok2] eqn:E2. cbn [fst] in H.
      inversion H; subst. rewrite (IH d1 d' ok2 E2 x Hn). exact Hb.
Qed.

(* ---------------------------------------------------------------- phase 8 *)
Lemma strip_noref : forall c u dels m, In u dels -> noref c dels m = true -> strip c u m = m.
Proof.
  intros c u dels m Hu. unfold strip, noref. induction m as [|p r IH]; intros H; [reflexivity|].
  cbn [forallb] in H. apply andb_true_iff in H. destruct H as [H1 H2].
  cbn [flat_map]. rewrite (IH H2). unfold strip1.
  destruct (vmem (fst p) (refa c)) eqn:E; cbn [negb orb andb] in *; [|reflexivity].
  rewrite forallb_forall in H1. specialize (H1 u Hu). apply negb_true_iff in H1. rewrite H1. reflexivity.
Qed.

Lemma delete_one_keeps : forall c dels d u x, In u dels -> In x d -> eu x <> u ->
  noref c dels (eav x) = true -> In x (delete_one c d u).
Proof.
  intros c dels d u x Hu Hin Hne Hnr. unfold delete_one. destruct (find_live u d); [|exact Hin].
  apply in_map_iff. exists x. split; [|exact Hin].
  destruct (eu x =? u) eqn:E; [apply N.eqb_eq in E; congruence|].
  destruct (elive x) eqn:El; [|reflexivity].
  rewrite (strip_noref c u dels (eav x) Hu Hnr). destruct x as [xu xl xa]. cbn in *. subst. reflexivity.
Qed.

Lemma deletes_keep : forall c dels0 dels d x, incl dels dels0 -> In x d -> ~ In (eu x) dels ->
  noref c dels0 (eav x) = true -> In x (fold_left (delete_one c) dels d).
Proof.
  intros c dels0 dels. induction dels as [|u r IH]; intros d x Hi Hin Hn Hnr; [exact Hin|].
  cbn [fold_left]. apply IH.
  - intros y Hy. apply Hi. right. exact Hy.
  - apply (delete_one_keeps c dels0); [apply Hi; left; reflexivity | exact Hin | | exact Hnr].
    intros E. apply Hn. left. symmetry. exact E.
  - intros Hy. apply Hn. right. exact Hy.
  - exact Hnr.
Qed.

Lemma get_strip_incl : forall c u a m v, In v (get a m) -> v <> u -> In v (get a (strip c u m)).
Proof.
  intros c u a m v. unfold strip. induction m as [|p r IH]; intros Hin Hne; [exact Hin|].
  rewrite get_cons in Hin. cbn [flat_map]. unfold strip1 at 1.
  destruct (vmem (fst p) (refa c) && vmem u (snd p)).
  - destruct (fst p =? a) eqn:E.
    + assert (Hv : In v (vrem u (snd p))).
      { unfold vrem. apply filter_In. split; [exact Hin|]. apply negb_true_iff. apply N.eqb_neq. congruence. }
      destruct (vrem u (snd p)) as [|w ws] eqn:Er; [destruct Hv|].
      cbn [app]. rewrite get_cons. cbn [fst snd]. rewrite E. exact Hv.
    + destruct (vrem u (snd p)) as [|w ws]; cbn [app].
      * apply IH; assumption.
      * rewrite get_cons. cbn [fst]. rewrite E. apply IH; assumption.
  - cbn [app]. rewrite get_cons. destruct (fst p =? a); [exact Hin | apply IH; assumption].
Qed.

(* an entry that is live and not deleted keeps (under phase 8) every value that is not a deleted uuid *)
Definition holds (vals : attr -> list val) (m : avs) : Prop := forall a, incl (vals a) (get a m).

Lemma delete_one_entry : forall c d u e, In e d -> eu e <> u -> elive e = true ->
  exists e', In e' (delete_one c d u) /\ eu e' = eu e /\ elive e' = true /\
             (forall a v, In v (get a (eav e)) -> v <> u -> In v (get a (eav e'))).
Proof.
  intros c d u e Hin Hne Hl. unfold delete_one. destruct (find_live u d).
  - exists (mkE (eu e) true (strip c u (eav e))). split; [|split; [reflexivity | split; [reflexivity|]]].
    + apply in_map_iff. exists e. split; [|exact Hin].
      destruct (eu e =? u) eqn:E; [apply N.eqb_eq in E; congruence|]. rewrite Hl. reflexivity.
    + intros a v Hva Hvu. cbn [eav]. apply get_strip_incl; assumption.
  - exists e. tauto.
Qed.

Lemma deletes_entry : forall c dels d e, In e d -> ~ In (eu e) dels -> elive e = true ->
  exists e', In e' (fold_left (delete_one c) dels d) /\ eu e' = eu e /\ elive e' = true /\
             (forall a v, In v (get a (eav e)) -> ~ In v dels -> In v (get a (eav e'))).
Proof.
  intros c dels. induction dels as [|u r IH]; intros d e Hin Hn Hl.
  - exists e. cbn. tauto.
  - cbn [fold_left].
    destruct (delete_one_entry c d u e Hin) as [e1 [H1 [H2 [H3 H4]]]]; try assumption.
    + intros E. apply Hn. left. symmetry. exact E.
    + destruct (IH (delete_one c d u) e1 H1) as [e2 [G1 [G2 [G3 G4]]]]; try assumption.
      * rewrite H2. intros Hi. apply Hn. right. exact Hi.
      * exists e2. split; [exact G1|]. split; [congruence|]. split; [exact G3|].
        intros a v Hv Hnv. apply G4.
        -- apply H4; [exact Hv|]. intros ->. apply Hnv. left. reflexivity.
        -- intros Hi. apply Hnv. right. exact Hi.
Qed.

(* ---------------------------------------------------------------- what a definition guarantees *)
(* the values a definition asserts on an existing entry: everything but the two attributes the
   migration ignores there *)
Definition def_common (b : bdef) (a : attr) : list val :=
  if (a =? A_MCO) || (a =? A_CTM) then [] else get a (bav b).
(* on an entry the migration creates: every attribute; member_create_once lands in member *)
Definition def_fresh (b : bdef) (a : attr) : list val :=
  if a =? A_MCO then []
  else if a =? A_MEMBER then get A_MEMBER (bav b) ++ get A_MCO (bav b)
  else get a (bav b).

Lemma keys_NoDup_get : forall m a, NoDup (map fst m) -> forall v, In v (get a m) -> exists vs, In (a, vs) m /\ In v vs.
Proof.
  intros m a _ v. induction m as [|p r IH]; intros H; [destruct H|].
  rewrite get_cons in H. destruct (fst p =? a) eqn:E.
  - apply N.eqb_eq in E. exists (snd p). split; [left; destruct p; cbn in *; subst; reflexivity | exact H].
  - destruct (IH H) as [vs [H1 H2]]. exists vs. split; [right; exact H1 | exact H2].
Qed.

Lemma create_holds : forall c b, holds (def_fresh b) (create_avs c (bav b)).
Proof.
  intros c b a v Hv. unfold def_fresh in Hv. unfold create_avs.
  destruct (a =? A_MCO) eqn:E1; [destruct Hv|]. apply N.eqb_neq in E1.
  set (b1 := del A_MCO (bav b)).
  set (b2 := match get A_MCO (bav b) with [] => b1 | _ => set A_MEMBER (vunion (get A_MEMBER b1) (get A_MCO (bav b))) b1 end).
  assert (Hb1 : forall x, x <> A_MCO -> get x b1 = get x (bav b)).
  { intros x Hx. unfold b1. apply get_del_other. exact Hx. }
  assert (Hb2 : In v (get a b2)).
  { destruct (a =? A_MEMBER) eqn:E2.
    - apply N.eqb_eq in E2. subst a. apply in_app_or in Hv. unfold b2.
      destruct (get A_MCO (bav b)) as [|w ws] eqn:Em.
      + destruct Hv as [Hv|[]]. rewrite Hb1 by exact E1. exact Hv.
      + rewrite get_set_same. apply In_vunion. rewrite Hb1 by exact E1. exact Hv.
    - apply N.eqb_neq in E2. unfold b2. destruct (get A_MCO (bav b)) as [|w ws].
      + rewrite Hb1 by exact E1. exact Hv.
      + rewrite get_set_other by exact E2. rewrite Hb1 by exact E1. exact Hv. }
  fold b1. fold b2.
  destruct (a =? A_CLASS) eqn:E3.
  - apply N.eqb_eq in E3. subst a. rewrite get_set_same. apply In_vins. right. exact Hb2.
  - apply N.eqb_neq in E3. rewrite get_set_other by exact E3. exact Hb2.
Qed.

Lemma assert_holds : forall c b cur, NoDup (map fst (bav b)) ->
  holds (def_common b) (assert_mods c (del A_CTM (del A_MCO (bav b))) cur).
Proof.
  intros c b cur Hnd a v Hv. unfold def_common in Hv.
  destruct ((a =? A_MCO) || (a =? A_CTM)) eqn:E; [destruct Hv|].
  apply orb_false_iff in E. destruct E as [E1 E2]. apply N.eqb_neq in E1. apply N.eqb_neq in E2.
  set (want := del A_CTM (del A_MCO (bav b))).
  assert (Hw : NoDup (map fst want)) by (unfold want; apply keys_del, keys_del; exact Hnd).
  assert (Hg : get a want = get a (bav b)).
  { unfold want. rewrite get_del_other by exact E2. apply get_del_other. exact E1. }
  rewrite <- Hg in Hv. destruct (keys_NoDup_get want a Hw v Hv) as [vs [H1 H2]].
  exact (assert_mods_covers c want cur Hw a vs H1 v H2).
Qed.

(* one migrate-or-create leaves a live entry for the definition that holds its values *)
Lemma moc_holds : forall c d b d', moc c d b = Some d' -> NoDup (map fst (bav b)) ->
  exists e', In e' d' /\ eu e' = bu b /\ elive e' = true /\ holds (def_common b) (eav e') /\
             ((forall x, In x d -> eu x <> bu b) -> holds (def_fresh b) (eav e')).
Proof.
  intros c d b d' H Hnd. unfold moc in H. destruct (find_live (bu b) d) as [e|] eqn:Ef.
  - destruct (uclash c (bu b) _ d); [discriminate|]. inversion H; subst. clear H.
    apply find_live_some in Ef. destruct Ef as [Hin [Hu Hl]].
    exists (mkE (bu b) true (assert_mods c (del A_CTM (del A_MCO (bav b))) (eav e))).
    split; [|split; [reflexivity | split; [reflexivity | split]]].
    + unfold upd. apply in_map_iff. exists e. split; [|exact Hin]. cbn [eu].
      rewrite Hu, N.eqb_refl, Hl. reflexivity.
    + cbn [eav]. apply assert_holds. exact Hnd.
    + intros Hno. exfalso. exact (Hno e Hin Hu).
  - destruct (exists_any (bu b) d || uclash c (bu b) _ d); [discriminate|]. inversion H; subst. clear H.
    exists (mkE (bu b) true (create_avs c (bav b))).
    split; [apply In_ins_entry; left; reflexivity|]. split; [reflexivity|]. split; [reflexivity|].
    assert (Hf : holds (def_fresh b) (create_avs c (bav b))) by apply create_holds.
    split; [|intros _; exact Hf].
    intros a v Hv. apply Hf. unfold def_common in Hv. unfold def_fresh.
    destruct (a =? A_MCO) eqn:E1; [destruct Hv|]. cbn [orb] in Hv.
    destruct (a =? A_CTM) eqn:E2; [destruct Hv|].
    destruct (a =? A_MEMBER) eqn:E3; [|exact Hv].
    apply N.eqb_eq in E3. subst a. apply in_or_app. left. exact Hv.
Qed.

Lemma moc_keeps_entry : forall c d b d' e, moc c d b = Some d' -> In e d -> eu e <> bu b -> In e d'.
Proof. intros c d b d' e H Hin Hne. apply (moc_other c d b d' H e Hne). exact Hin. Qed.

Lemma batch_holds : forall c bs d d', batch c d bs = (d', true) -> NoDup (map bu bs) ->
  (forall b, In b bs -> NoDup (map fst (bav b))) ->
  forall b, In b bs ->
  exists e', In e' d' /\ eu e' = bu b /\ elive e' = true /\ holds (def_common b) (eav e') /\
             ((forall x, In x d -> eu x <> bu b) -> holds (def_fresh b) (eav e')).
Proof.
  intros c bs. induction bs as [|b0 r IH]; intros d d' H Hnd Hwf b Hin; [destruct Hin|].
  cbn [batch] in H. destruct (moc c d b0) as [d1|] eqn:E; [|discriminate].
  cbn [map] in Hnd. inversion Hnd as [|x l Hn Hd]; subst.
  destruct Hin as [->|Hin].
  - destruct (moc_holds c d b d1 E (Hwf b (or_introl eq_refl))) as [e' [H1 [H2 [H3 [H4 H5]]]]].
    exists e'. split; [|tauto].
    apply (batch_other c r d1 d' true H e'); [rewrite H2; exact Hn | exact H1].
  - destruct (IH d1 d' H Hd (fun q Hq => Hwf q (or_intror Hq)) b Hin) as [e' [H1 [H2 [H3 [H4 H5]]]]].
    exists e'. split; [exact H1|]. split; [exact H2|]. split; [exact H3|]. split; [exact H4|].
    intros Hno. apply H5. intros y Hy.
    assert (Hne : bu b <> bu b0).
    { intros Eq. apply Hn. rewrite <- Eq. apply in_map. exact Hin. }
    intros Ey. apply (Hno y); [|exact Ey].
    apply (moc_other c d b0 d1 E y); [congruence | exact Hy].
Qed.

Lemma batch_app : forall c l1 l2 d, batch c d (l1 ++ l2) =
  let '(d1, ok) := batch c d l1 in if ok then batch c d1 l2 else (d1, false).
Proof.
  intros c l1. induction l1 as [|b r IH]; intros l2 d; cbn [batch app].
  - destruct (batch c d l2); reflexivity.
  - destruct (moc c d b) as [d1|]; [apply IH | reflexivity].
Qed.

Lemma run_phases_batch : forall c defs ps d d', run_phases c defs ps d = (Some d', true) ->
  batch c d (flat_map (fun p => phase_defs p defs) ps) = (d', true).
Proof.
  intros c defs ps. induction ps as [|p r IH]; intros d d' H; cbn [run_phases flat_map] in *.
  - inversion H; subst. reflexivity.
  - rewrite batch_app. destruct (batch c d (phase_defs p defs)) as [d1 ok1]. destruct ok1.
    + apply IH. exact H.
    + destruct (dbg c); [discriminate|]. destruct (run_phases c defs r d1). cbn [fst] in H. inversion H.
Qed.

Lemma in_all_seq : forall defs b, In b defs -> In (bphase b) PHASES -> In b (all_seq defs).
Proof.
  intros defs b Hin Hp. unfold all_seq. apply in_flat_map. exists (bphase b). split; [exact Hp|].
  unfold phase_defs. apply filter_In. split; [exact Hin | apply N.eqb_refl].
Qed.

Lemma all_seq_in : forall defs b, In b (all_seq defs) -> In b defs.
Proof.
  intros defs b H. unfold all_seq in H. apply in_flat_map in H. destruct H as [p [_ H]].
  unfold phase_defs in H. apply filter_In in H. tauto.
Qed.

(* ---------------------------------------------------------------- set_version *)
Lemma set_version_other : forall c v d x, eu x <> u_dom c -> (In x (set_version c v d) <-> In x d).
Proof.
  intros c v d x Hne. unfold set_version. rewrite in_map_iff. split.
  - intros [y [Hy Hin]]. destruct ((eu y =? u_dom c) && elive y) eqn:E.
    + apply andb_true_iff in E. destruct E as [E _]. apply N.eqb_eq in E. subst x. cbn [eu] in Hne. congruence.
    + subst. exact Hin.
  - intros Hin. exists x. split; [|exact Hin].
    destruct (eu x =? u_dom c) eqn:E; [apply N.eqb_eq in E; congruence | reflexivity].
Qed.

Lemma set_version_uuids : forall c v d x, In x (set_version c v d) -> exists y, In y d /\ eu y = eu x.
Proof.
  intros c v d x H. unfold set_version in H. apply in_map_iff in H. destruct H as [y [Hy Hin]].
  exists y. split; [exact Hin|]. destruct ((eu y =? u_dom c) && elive y); subst; reflexivity.
Qed.

(* ---------------------------------------------------------------- user entries through the migration *)
Definition untouched (c : cfg) (defs : list bdef) (dels : list uuid) (e : entry) : Prop :=
  ~ In (eu e) (map bu defs) /\ ~ In (eu e) dels /\ noref c dels (eav e) = true.

Lemma mig16_user : forall c defs dels d o d' ok e, mig16 c defs dels d = (o, d', ok) ->
  In e d -> untouched c defs dels e -> In e d'.
Proof.
  intros c defs dels d o d' ok e H Hin [U1 [U2 U3]]. unfold mig16 in H.
  destruct (run_phases c defs PHASES d) as [[d1|] ok1] eqn:E.
  - inversion H; subst. apply (deletes_keep c dels dels); [apply incl_refl | | exact U2 | exact U3].
    apply (run_phases_other c defs PHASES d d1 ok E e U1). exact Hin.
  - inversion H; subst. exact Hin.
Qed.

Lemma reload_version_user : forall c defs dels p n d o d' ok e, reload_version c defs dels p n d = (o, d', ok) ->
  In e d -> untouched c defs dels e -> In e d'.
Proof.
  intros c defs dels p n d o d' ok e H Hin U. unfold reload_version in H.
  repeat match type of H with
  | (if ?b then _ else _) = _ => destruct b
  end; try (inversion H; subst; exact Hin).
  eapply mig16_user; eassumption.
Qed.

Lemma init_helper_user : forall c defs dels cur tgt vtgt d o d' ok e,
  init_helper c defs dels cur tgt vtgt d = (o, d', ok) ->
  In e d -> untouched c defs dels e -> eu e <> u_dom c -> In e d'.
Proof.
  intros c defs dels cur tgt vtgt d o d' ok e H Hin U Hdom. unfold init_helper in H.
  destruct (cur <? tgt).
  - destruct (cur <? from_min c); [inversion H; subst; exact Hin|].
    destruct (negb (tgt =? cur + 1)); [inversion H; subst; exact Hin|].
    destruct (reload_version c defs dels cur tgt (set_version c vtgt d)) as [[o2 d2] ok2] eqn:E.
    assert (Hs : In e (set_version c vtgt d)) by (apply set_version_other; assumption).
    pose proof (reload_version_user _ _ _ _ _ _ _ _ _ e E Hs U) as Hd2.
    destruct o2; inversion H; subst; assumption.
  - destruct (tgt <? cur); [inversion H; subst; exact Hin|].
    destruct (devel c && (prev_tgt c <=? cur)); [|inversion H; subst; exact Hin].
    destruct (reload_version c defs dels (prev_tgt c) cur d) as [[o2 d2] ok2] eqn:E.
    pose proof (reload_version_user _ _ _ _ _ _ _ _ _ e E Hin U) as Hd2.
    destruct o2; inversion H; subst; assumption.
Qed.

(* anything but OOk leaves the database untouched (one write transaction) *)
Lemma init_helper_abort : forall c defs dels cur tgt vtgt d o d' ok,
  init_helper c defs dels cur tgt vtgt d = (o, d', ok) -> o <> OOk -> d' = d.
Proof.
  intros c defs dels cur tgt vtgt d o d' ok H Hne. unfold init_helper in H.
  destruct (cur <? tgt).
  - destruct (cur <? from_min c); [inversion H; reflexivity|].
    destruct (negb (tgt =? cur + 1)); [inversion H; reflexivity|].
    destruct (reload_version c defs dels cur tgt (set_version c vtgt d)) as [[o2 d2] ok2].
    destruct o2; inversion H; subst; try reflexivity. congruence.
  - destruct (tgt <? cur); [inversion H; reflexivity|].
    destruct (devel c && (prev_tgt c <=? cur)); [|inversion H; subst; congruence].
    destruct (reload_version c defs dels (prev_tgt c) cur d) as [[o2 d2] ok2].
    destruct o2; inversion H; subst; try reflexivity. congruence.
Qed.

(* ---------------------------------------------------------------- built-ins after the migration *)
Definition defs_wf (defs : list bdef) (dels : list uuid) : Prop :=
  NoDup (map bu (all_seq defs)) /\
  (forall b, In b defs -> NoDup (map fst (bav b))) /\
  (forall b a u, In b defs -> In u dels -> ~ In u (get a (bav b))).

Lemma def_common_sub : forall b a, incl (def_common b a) (get a (bav b)).
Proof.
  intros b a v H. unfold def_common in H. destruct ((a =? A_MCO) || (a =? A_CTM)); [destruct H | exact H].
Qed.

Lemma def_fresh_sub : forall b a u, In u (def_fresh b a) -> exists a', In u (get a' (bav b)).
Proof.
  intros b a u H. unfold def_fresh in H. destruct (a =? A_MCO); [destruct H|].
  destruct (a =? A_MEMBER).
  - apply in_app_or in H. destruct H as [H|H]; eexists; exact H.
  - eexists; exact H.
Qed.

Lemma mig16_builtin : forall c defs dels d d', mig16 c defs dels d = (OOk, d', true) ->
  defs_wf defs dels ->
  forall b, In b defs -> In (bphase b) PHASES -> ~ In (bu b) dels ->
  exists e', In e' d' /\ eu e' = bu b /\ elive e' = true /\ holds (def_common b) (eav e') /\
             ((forall x, In x d -> eu x <> bu b) -> holds (def_fresh b) (eav e')).
Proof.
  intros c defs dels d d' H [W1 [W2 W3]] b Hin Hp Hnd. unfold mig16 in H.
  destruct (run_phases c defs PHASES d) as [[d1|] ok1] eqn:E; [|inversion H].
  inversion H; subst. clear H.
  apply run_phases_batch in E. fold (all_seq defs) in E.
  destruct (batch_holds c (all_seq defs) d d1 E W1 (fun q Hq => W2 q (all_seq_in defs q Hq)) b
              (in_all_seq defs b Hin Hp)) as [e1 [H1 [H2 [H3 [H4 H5]]]]].
  destruct (deletes_entry c dels d1 e1 H1) as [e2 [G1 [G2 [G3 G4]]]]; try assumption.
  - rewrite H2. exact Hnd.
  - exists e2. split; [exact G1|]. split; [congruence|]. split; [exact G3|]. split.
    + intros a v Hv. apply G4; [apply H4; exact Hv|].
      intros Hu. apply (W3 b a v Hin Hu). apply def_common_sub. exact Hv.
    + intros Hno a v Hv. apply G4; [apply (H5 Hno); exact Hv|].
      intros Hu. destruct (def_fresh_sub b a v Hv) as [a' Ha']. exact (W3 b a' v Hin Hu Ha').
Qed.

(* ---------------------------------------------------------------- the upgrade 1.11 -> 1.12 *)
Definition cfg_ok (c : cfg) : Prop := from_min c <= DL_1_11 /\ min_remig c <= DL_1_11.

Lemma upgrade_is_mig16 : forall c defs dels vtgt d, cfg_ok c ->
  init_helper c defs dels DL_1_11 DL_1_12 vtgt d =
  match mig16 c defs dels (set_version c vtgt d) with
  | (OOk, d2, ok) => (OOk, d2, ok)
  | (o, _, _) => (o, d, false)
  end.
Proof.
  intros c defs dels vtgt d [H1 H2]. unfold init_helper, reload_version.
  change (DL_1_11 <? DL_1_12) with true. cbn [negb].
  replace (DL_1_11 <? from_min c) with false by (symmetry; apply N.ltb_ge; exact H1).
  change (DL_1_12 =? DL_1_11 + 1) with true. cbn [negb].
  change (DL_1_11 =? DL_1_12) with false.
  replace (DL_1_11 <? min_remig c) with false by (symmetry; apply N.ltb_ge; exact H2).
  change (DL_1_11 <? DL_1_11) with false. change (DL_1_13 <=? DL_1_12) with false.
  change ((DL_1_11 <=? DL_1_11) && (DL_1_12 <=? DL_1_12)) with true. cbn iota. reflexivity.
Qed.

Lemma upgrade_builtin : forall c defs dels vtgt d d', cfg_ok c ->
  init_helper c defs dels DL_1_11 DL_1_12 vtgt d = (OOk, d', true) ->
  defs_wf defs dels ->
  forall b, In b defs -> In (bphase b) PHASES -> ~ In (bu b) dels ->
  exists e', In e' d' /\ eu e' = bu b /\ elive e' = true /\ holds (def_common b) (eav e') /\
             ((forall x, In x d -> eu x <> bu b) -> holds (def_fresh b) (eav e')).
Proof.
  intros c defs dels vtgt d d' Hc H W b Hin Hp Hnd. rewrite (upgrade_is_mig16 c defs dels vtgt d Hc) in H.
  destruct (mig16 c defs dels (set_version c vtgt d)) as [[o d2] ok] eqn:E.
  destruct o; inversion H; subst.
  destruct (mig16_builtin c defs dels _ d' E W b Hin Hp Hnd) as [e' [H1 [H2 [H3 [H4 H5]]]]].
  exists e'. split; [exact H1|]. split; [exact H2|]. split; [exact H3|]. split; [exact H4|].
  intros Hno. apply H5. intros x Hx. destruct (set_version_uuids c vtgt d x Hx) as [y [Hy1 Hy2]].
  rewrite <- Hy2. apply Hno. exact Hy1.
Qed.

(* the version stored on the domain entry after a successful upgrade *)
Lemma get_version_set : forall v m, get A_VERSION (set A_VERSION [v] m) = [v].
Proof. intros v m. apply get_set_same. Qed.

(* ---------------------------------------------------------------- bridge: agree -> observed preservation *)
Lemma list_eqb_eq : forall A (f : A -> A -> bool), (forall x y, f x y = true -> x = y) ->
  forall l1 l2, list_eqb f l1 l2 = true -> l1 = l2.
Proof.
  intros A f Hf l1. induction l1 as [|a r IH]; intros [|b s] H; cbn [list_eqb] in H; try discriminate; [reflexivity|].
  apply andb_true_iff in H. destruct H as [H1 H2]. rewrite (Hf a b H1), (IH s H2). reflexivity.
Qed.

Lemma avs_eqb_eq : forall x y, avs_eqb x y = true -> x = y.
Proof.
  apply list_eqb_eq. intros [a vs] [b ws] H. cbn [fst snd] in H.
  apply andb_true_iff in H. destruct H as [H1 H2]. apply N.eqb_eq in H1.
  apply (list_eqb_eq N N.eqb) in H2; [subst; reflexivity|]. intros p q. apply N.eqb_eq.
Qed.

Lemma entry_eqb_eq : forall x y, entry_eqb x y = true -> x = y.
Proof.
  intros [a b c] [a' b' c'] H. unfold entry_eqb in H. cbn [eu elive eav] in H.
  apply andb_true_iff in H. destruct H as [H H3]. apply andb_true_iff in H. destruct H as [H1 H2].
  apply N.eqb_eq in H1. apply Bool.eqb_prop in H2. apply avs_eqb_eq in H3. subst. reflexivity.
Qed.

Lemma agree_user_preserved : forall c defs dels cur tgt vtgt users before oc after vb va,
  agree (CHist c defs dels cur tgt vtgt users before oc after vb va) = true ->
  forall x, In x before -> untouched c defs dels (forget x) -> du x <> u_dom c ->
  In (forget x) (map forget after).
Proof.
  intros c defs dels cur tgt vtgt users before oc after vb va H x Hin U Hdom. cbn [agree] in H.
  destruct (init_helper c defs dels cur tgt vtgt (map forget before)) as [[o d'] ok] eqn:E.
  apply andb_true_iff in H. destruct H as [_ H].
  apply (list_eqb_eq entry entry_eqb entry_eqb_eq) in H. rewrite <- H.
  apply (init_helper_user c defs dels cur tgt vtgt (map forget before) o d' ok (forget x) E).
  - apply in_map. exact Hin.
  - exact U.
  - exact Hdom.
Qed.

(* ---------------------------------------------------------------- the defect: a name collision *)
(* a miniature instance: the domain entry, one definition that already exists (uuid 20), one that
   is new at the target level (uuid 30, name value 77); the database holds a USER group (uuid 1000)
   whose name is 77 *)
Definition w_cfg (debug : bool) : cfg := mkCfg [1; 5] [1] [2] debug 9 10 15 14 15 true.
Definition w_defs : list bdef :=
  [ mkB 4 10 [(0, [50]); (1, [70])];
    mkB 4 30 [(0, [51]); (1, [77])];
    mkB 6 20 [(0, [52]); (1, [71]); (2, [10]); (3, [30])] ].
Definition w_db_collide : db :=
  [ mkE 10 true [(0, [9; 50]); (1, [70]); (5, [15])];
    mkE 20 true [(0, [9; 52]); (1, [71]); (2, [1000])];
    mkE 1000 true [(0, [53]); (1, [77])] ].
Definition w_db_fine : db :=
  [ mkE 10 true [(0, [9; 50]); (1, [70]); (5, [15])];
    mkE 20 true [(0, [9; 52]); (1, [71]); (2, [1000])];
    mkE 1000 true [(0, [53]); (1, [78])] ].

Fixpoint nodupb (l : list N) : bool :=
  match l with [] => true | x :: r => negb (vmem x r) && nodupb r end.
(* a database whose uuids are distinct and whose live entries do not share a unique value *)
Definition db_wfb (c : cfg) (d : db) : bool :=
  nodupb (map eu d) && forallb (fun x => negb (elive x) || negb (uclash c (eu x) (eav x) d)) d.

Lemma w_cfg_ok : forall b, cfg_ok (w_cfg b).
Proof. intros b. split; vm_compute; discriminate. Qed.

Lemma w_defs_phases : forall b, In b w_defs -> In (bphase b) PHASES.
Proof. intros b [<-|[<-|[<-|[]]]]; vm_compute; tauto. Qed.

Lemma w_defs_wf : defs_wf w_defs [].
Proof.
  split; [|split].
  - vm_compute. repeat constructor; cbn; intuition discriminate.
  - intros b [<-|[<-|[<-|[]]]]; cbn; repeat constructor; cbn; intuition discriminate.
  - intros b a u _ [].
Qed.
