(* KV.C48.Witness — non-vacuity: concrete instances meeting the hypotheses of every implication
   theorem, and the refutation witnesses. *)
From Coq Require Import List NArith Bool.
Import ListNotations.
Require Import KV.C48.Model KV.C48.Proofs.
Open Scope N_scope.

(* a database with a user group (uuid 1000, member of built-in 20) upgrades: the new built-in 30 is
   created (tagged builtin = 9), the existing built-in 20 gets its default member 10 back and keeps
   the user's member 1000, member_create_once is NOT re-applied to it, the version is raised *)
Example C48_witness_upgrade_ok :
  init_helper (w_cfg true) w_defs [] DL_1_11 DL_1_12 16 w_db_fine =
  (OOk,
   [ mkE 10 true [(0, [9; 50]); (1, [70]); (5, [16])];
     mkE 20 true [(0, [9; 52]); (1, [71]); (2, [10; 1000])];
     mkE 30 true [(0, [9; 51]); (1, [77])];
     mkE 1000 true [(0, [53]); (1, [78])] ], true).
Proof. vm_compute. reflexivity. Qed.

(* hypotheses of C48_user_preserved / C48_builtin_present_if_complete_partial are met *)
Example C48_witness_hyps :
  cfg_ok (w_cfg true) /\ defs_wf w_defs [] /\ db_wfb (w_cfg true) w_db_fine = true /\
  (let e := mkE 1000 true [(0, [53]); (1, [78])] in
   In e w_db_fine /\ ~ In (eu e) (map bu w_defs) /\ noref (w_cfg true) [] (eav e) = true /\ eu e <> u_dom (w_cfg true)).
Proof.
  split; [apply w_cfg_ok|]. split; [apply w_defs_wf|]. split; [reflexivity|].
  cbn. split; [tauto|]. split; [intuition discriminate|]. split; [reflexivity | discriminate].
Qed.

(* the refutation witness is a well-formed database, and the upgrade is not all-or-nothing in
   release builds: C48_failed_upgrade_changes_nothing's premise o <> OOk is met in debug builds *)
Example C48_witness_refuted_debug :
  db_wfb (w_cfg true) w_db_collide = true /\
  init_helper (w_cfg true) w_defs [] DL_1_11 DL_1_12 16 w_db_collide = (OPanic, w_db_collide, false).
Proof. split; vm_compute; reflexivity. Qed.

(* the correspondence predicates on hand-made observations of the two instances *)
Definition mkd (e : entry) (refs dm mo : list N) : dentry :=
  mkD (eu e) (elive e) (map (fun p => (fst p, 7, snd p)) (eav e)) refs dm mo [].

Definition w_before (nm : N) : list dentry :=
  [ mkd (mkE 10 true [(0, [9; 50]); (1, [70]); (5, [15])]) [] [] [];
    mkd (mkE 20 true [(0, [9; 52]); (1, [71]); (2, [1000])]) [1000] [] [];
    mkd (mkE 1000 true [(0, [53]); (1, [nm])]) [] [20] [20] ].
Definition w_after : list dentry :=
  [ mkd (mkE 10 true [(0, [9; 50]); (1, [70]); (5, [16])]) [] [20] [20];
    mkd (mkE 20 true [(0, [9; 52]); (1, [71]); (2, [10; 1000])]) [10; 1000] [] [];
    mkd (mkE 30 true [(0, [9; 51]); (1, [77])]) [] [] [];
    mkd (mkE 1000 true [(0, [53]); (1, [78])]) [] [20] [20] ].

Example C48_witness_agree :
  let k := CHist (w_cfg true) w_defs [] 15 16 16 [1000] (w_before 78) 0 w_after 0 0 in
  agree k = true /\ pcheck k = true /\ known k = false.
Proof. vm_compute. repeat split. Qed.

Example C48_witness_known_class :
  let k := CHist (w_cfg true) w_defs [] 15 16 16 [1000] (w_before 77) 1 (w_before 77) 0 0 in
  agree k = true /\ pcheck k = false /\ known k = true.
Proof. vm_compute. repeat split. Qed.
