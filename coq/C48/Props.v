(* KV.C48.Props — property theorems only.
   Property C48: upgrading a database from the previous supported domain level to the current one,
   with arbitrary user content, succeeds, passes the consistency check, keeps every user-created
   entry with its user-set values, and leaves every built-in entry of the current level present
   with every value of its definition. *)
From Coq Require Import List NArith Bool.
Import ListNotations.
Require Import KV.C48.Model KV.C48.Proofs.
Open Scope N_scope.

(* USER DATA (full, every outcome, every level pair, debug and release builds).
   Whatever initialise_helper does — upgrade, development re-migration, refusal, panic — an entry
   that is not a built-in definition, is not on the delete list, does not reference a deleted uuid
   and is not the domain entry is in the resulting database exactly as it was: same liveness, same
   value for every attribute the model covers. *)
Theorem C48_user_preserved :
  forall c defs dels cur tgt vtgt d o d' ok e,
  init_helper c defs dels cur tgt vtgt d = (o, d', ok) ->
  In e d ->
  ~ In (eu e) (map bu defs) -> ~ In (eu e) dels -> noref c dels (eav e) = true -> eu e <> u_dom c ->
  In e d'.
Proof.
  intros c defs dels cur tgt vtgt d o d' ok e H Hin H1 H2 H3 H4.
  exact (init_helper_user c defs dels cur tgt vtgt d o d' ok e H Hin (conj H1 (conj H2 H3)) H4).
Qed.

(* ALL OR NOTHING (full).  Any outcome other than success (refused skip, refused downgrade, error,
   debug-build panic) leaves the whole database as it was. *)
Theorem C48_failed_upgrade_changes_nothing :
  forall c defs dels cur tgt vtgt d o d' ok,
  init_helper c defs dels cur tgt vtgt d = (o, d', ok) -> o <> OOk -> d' = d.
Proof. exact init_helper_abort. Qed.

(* BUILT-INS (partial: conditional on [ok = true], i.e. on no built-in create/assert having been
   refused by the write path; that this is the case for collision-free content is NOT proved, only
   executed).  After a 1.11 -> 1.12 upgrade in which every batch completed, every definition that
   is not on the delete list has a LIVE entry that carries every value of the definition — except
   that on an entry that existed before, member_create_once and credential_type_minimum are not
   asserted (their documented meaning); on an entry the migration created they are
   (member_create_once as member). *)
Theorem C48_builtin_present_if_complete_partial :
  forall c defs dels vtgt d d', cfg_ok c ->
  init_helper c defs dels DL_1_11 DL_1_12 vtgt d = (OOk, d', true) ->
  defs_wf defs dels ->
  forall b, In b defs -> In (bphase b) PHASES -> ~ In (bu b) dels ->
  exists e', In e' d' /\ eu e' = bu b /\ elive e' = true /\
    (forall a, a <> A_MCO -> a <> A_CTM -> incl (get a (bav b)) (get a (eav e'))) /\
    ((forall x, In x d -> eu x <> bu b) ->
       (forall a, a <> A_MCO -> incl (get a (bav b)) (get a (eav e'))) /\
       incl (get A_MCO (bav b)) (get A_MEMBER (eav e'))).
Proof.
  intros c defs dels vtgt d d' Hc H W b Hin Hp Hnd.
  destruct (upgrade_builtin c defs dels vtgt d d' Hc H W b Hin Hp Hnd) as [e' [H1 [H2 [H3 [H4 H5]]]]].
  exists e'. split; [exact H1|]. split; [exact H2|]. split; [exact H3|]. split.
  - intros a Ha1 Ha2 v Hv. apply H4. unfold def_common.
    apply N.eqb_neq in Ha1. apply N.eqb_neq in Ha2. rewrite Ha1, Ha2. exact Hv.
  - intros Hno. specialize (H5 Hno). split.
    + intros a Ha v Hv. apply H5. unfold def_fresh. apply N.eqb_neq in Ha. rewrite Ha.
      destruct (a =? A_MEMBER) eqn:E; [|exact Hv]. apply N.eqb_eq in E. subst a. apply in_or_app. left. exact Hv.
    + intros v Hv. apply (H5 A_MEMBER). unfold def_fresh.
      change (A_MEMBER =? A_MCO) with false. change (A_MEMBER =? A_MEMBER) with true. cbn iota.
      apply in_or_app. right. exact Hv.
Qed.

(* THE FULL STATEMENT.  The property is the conjunction of (a) user data kept = C48_user_preserved,
   (b) every definition present with its values = the conclusion of
   C48_builtin_present_if_complete_partial, (c) the consistency check passes (derived attributes:
   outside this model, checked on the implementation's output only) and (d) THE UPGRADE SUCCEEDS AND
   ASSERTS EVERY DEFINITION for every database that is itself consistent with respect to uuid and
   attribute uniqueness.  (d) is the premise (b) needs; it is stated here at full strength. *)
Definition C48_full_statement : Prop :=
  forall c defs dels vtgt d, cfg_ok c -> defs_wf defs dels ->
  (forall b, In b defs -> In (bphase b) PHASES) ->
  db_wfb c d = true ->
  exists d', init_helper c defs dels DL_1_11 DL_1_12 vtgt d = (OOk, d', true).

(* It is FALSE for the code as it is: a user entry may hold the name of a built-in entry that is new
   at the target level (`account_signup_feature` on the real server).  Debug builds panic ... *)
Theorem C48_refuted : ~ C48_full_statement.
Proof.
  intros F. destruct (F (w_cfg true) w_defs [] 16 w_db_collide (w_cfg_ok true) w_defs_wf w_defs_phases eq_refl) as [d' H].
  vm_compute in H. discriminate H.
Qed.

(* ... and release builds swallow the error: the upgrade reports success and COMMITS a database at
   the new level in which the new built-in entry does not exist (and the rest of its batch was
   skipped). *)
Theorem C48_refuted_release :
  exists d', init_helper (w_cfg false) w_defs [] DL_1_11 DL_1_12 16 w_db_collide = (OOk, d', false) /\
             find_live 30 d' = None /\
             (exists e, find_live 10 d' = Some e /\ get A_VERSION (eav e) = [16]).
Proof. eexists. split; [vm_compute; reflexivity|]. split; [reflexivity|]. eexists. split; reflexivity. Qed.

(* Soundness of the run-time tie for the user-data part: whenever the implementation's dumps agree
   with the model, every dumped entry outside the definitions is found unchanged (liveness and the
   values of every attribute) in the implementation's own "after" dump. *)
Theorem C48_agree_transfers_user_preserved :
  forall c defs dels cur tgt vtgt users before oc after vb va,
  agree (CHist c defs dels cur tgt vtgt users before oc after vb va) = true ->
  forall x, In x before ->
  ~ In (du x) (map bu defs) -> ~ In (du x) dels -> noref c dels (eav (forget x)) = true -> du x <> u_dom c ->
  In (forget x) (map forget after).
Proof.
  intros c defs dels cur tgt vtgt users before oc after vb va H x Hin H1 H2 H3 H4.
  exact (agree_user_preserved c defs dels cur tgt vtgt users before oc after vb va H x Hin (conj H1 (conj H2 H3)) H4).
Qed.
