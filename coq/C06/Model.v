(* KV.C06.Model — one reader and one committing writer over versioned cells (executable
   definitions only).

   Transcribes the ORDER in which
     QueryServer::read                      (server/lib/src/server/mod.rs)
     Backend::read                          (server/lib/src/be/mod.rs)
     IdlArcSqlite::read                     (server/lib/src/be/idl_arc_sqlite.rs)
     IdlSqliteReadTransaction::new          (server/lib/src/be/idl_sqlite.rs, BEGIN DEFERRED)
   take their snapshots, the ORDER in which
     QueryServerWriteTransaction::commit, SchemaWriteTransaction::commit,
     BackendWriteTransaction::commit, IdlArcSqliteWriteTransaction::commit
   publish, and the read-through of the get_identry!/get_idl! macros (cache snapshot hit,
   else the transaction's SQLite connection, whose snapshot only exists from its first
   statement on).

   A version label n stands for "the n-th committed state".  The writer moves every cell it
   publishes, the SQLite file and the cache lines of its dirty keys D from the old label to w. *)
From Coq Require Import List NArith Bool.
Import ListNotations.
Open Scope N_scope.

Inductive cell :=
| CSchema | CCid | CEntry | CIdl | CName | CIdxEx | CAllids | CIdxmeta | CRuv
| CDinfo | CSysCfg | CFeat | CAcp | CKeyProv | CRfc
| CPhase | CDyn | COpTs | CMaxid | CKeyh.      (* published by commit, never taken by read() *)

Definition cell_id (c : cell) : N :=
  match c with
  | CSchema => 0 | CCid => 1 | CEntry => 2 | CIdl => 3 | CName => 4 | CIdxEx => 5 | CAllids => 6
  | CIdxmeta => 7 | CRuv => 8 | CDinfo => 9 | CSysCfg => 10 | CFeat => 11 | CAcp => 12
  | CKeyProv => 13 | CRfc => 14 | CPhase => 15 | CDyn => 16 | COpTs => 17 | CMaxid => 18 | CKeyh => 19
  end.
Definition cell_eqb (a b : cell) : bool := cell_id a =? cell_id b.

(* association lists key -> label, newest binding first *)
Definition amap := list (N * N).
Fixpoint aget (m : amap) (k : N) : option N :=
  match m with
  | [] => None
  | (k', v) :: t => if k' =? k then Some v else aget t k
  end.
Definition aset (m : amap) (k v : N) : amap := (k, v) :: m.

(* ---------------------------------------------------------------- shared (published) state *)
Record gst := mkg {
  pubv : cell -> N;      (* label of the value currently published in each CowCell / cache *)
  sql  : N;              (* label of the last COMMITted SQLite state *)
  cch  : cell -> amap    (* lines held by the shared ARC caches (entry / idl / name) *)
}.

Definition fupd {A} (f : cell -> A) (c : cell) (v : A) : cell -> A :=
  fun c' => if cell_eqb c c' then v else f c'.

(* ---------------------------------------------------------------- writer *)
Inductive wstep :=
| WDbTs          (* be_txn.set_db_ts_max: statement inside the writer's own SQLite transaction *)
| WRuvDb         (* idlayer.write_db_ruv: likewise *)
| WFlush         (* dirty cache lines written to SQLite: likewise, invisible before COMMIT *)
| WSqlCommit     (* COMMIT TRANSACTION *)
| WPub (c : cell). (* CowCell / ARCache commit of one cell *)

Definition wexec (w : N) (D : list N) (s : wstep) (g : gst) : gst :=
  match s with
  | WDbTs | WRuvDb | WFlush => g
  | WSqlCommit => mkg (pubv g) w (cch g)
  | WPub c =>
      mkg (fupd (pubv g) c w) (sql g)
          (fupd (cch g) c (fold_left (fun m k => aset m k w) D (cch g c)))
  end.

(* publication order of QueryServerWriteTransaction::commit and the commits below it,
   BEFORE /repo 953436b *)
Definition wcommit_head : list wstep :=
  [ WDbTs; WPub CCid; WPub CRfc; WPub CSchema;
    WPub CDinfo; WPub CSysCfg; WPub CFeat; WPub CPhase; WPub CDyn;
    WPub CKeyProv; WPub CAcp;
    WRuvDb; WFlush; WSqlCommit;
    WPub COpTs; WPub CName; WPub CIdxEx; WPub CIdl; WPub CAllids; WPub CMaxid; WPub CKeyh;
    WPub CEntry; WPub CRuv; WPub CIdxmeta ].

(* the order since /repo 953436b (fix for C04: backend commit BEFORE the in-memory
   publications); [wcommit_head] above is the order of the tree before that fix *)
Definition wcommit_c04 : list wstep :=
  [ WDbTs; WPub CCid; WPub CRfc;
    WRuvDb; WFlush; WSqlCommit;
    WPub COpTs; WPub CName; WPub CIdxEx; WPub CIdl; WPub CAllids; WPub CMaxid; WPub CKeyh;
    WPub CEntry; WPub CRuv; WPub CIdxmeta;
    WPub CSchema; WPub CDinfo; WPub CSysCfg; WPub CFeat; WPub CPhase; WPub CDyn;
    WPub CKeyProv; WPub CAcp ].

Definition c04_fixed : bool := true.   (* /repo 953436b: the C04 fix is committed *)
Definition wcommit : list wstep := if c04_fixed then wcommit_c04 else wcommit_head.

(* ---------------------------------------------------------------- reader *)
Inductive rstep :=
| RAcq (c : cell)     (* take the snapshot of one cell *)
| RBegin              (* BEGIN DEFERRED TRANSACTION: no SQLite snapshot yet *)
| RPin                (* NOT in the code: a first statement issued on purpose (the repair) *)
| RGet (c : cell) (k : N).  (* cache read-through lookup of key k *)

Definition obs := (cell * N * N)%type.       (* cache, key, label seen *)

Record rst := mkr {
  snapv : cell -> option N;     (* label of each held cell snapshot *)
  snapc : cell -> option amap;  (* held cache snapshots *)
  pin   : option N;             (* SQLite snapshot, once the first statement ran *)
  tl    : cell -> amap;         (* the read transaction's thread-local inclusions *)
  log   : list obs              (* answers given so far (oldest first) *)
}.

Definition snap_hit (r : rst) (c : cell) (k : N) : option N :=
  match snapc r c with Some m => aget m k | None => None end.

Definition lookup (r : rst) (c : cell) (k : N) : option N :=
  match snap_hit r c k with Some v => Some v | None => aget (tl r c) k end.

Definition rexec (s : rstep) (g : gst) (r : rst) : rst :=
  match s with
  | RAcq c => mkr (fupd (snapv r) c (Some (pubv g c))) (fupd (snapc r) c (Some (cch g c)))
                  (pin r) (tl r) (log r)
  | RBegin => r
  | RPin => mkr (snapv r) (snapc r) (Some (match pin r with Some p => p | None => sql g end))
                (tl r) (log r)
  | RGet c k =>
      match lookup r c k with
      | Some v => mkr (snapv r) (snapc r) (pin r) (tl r) (log r ++ [(c, k, v)])
      | None =>
          let p := match pin r with Some p => p | None => sql g end in
          mkr (snapv r) (snapc r) (Some p) (fupd (tl r) c (aset (tl r c) k p))
              (log r ++ [(c, k, p)])
      end
  end.

(* acquisition order of QueryServer::read / Backend::read / IdlArcSqlite::read *)
Definition racq : list rstep :=
  [ RAcq CSchema; RAcq CCid;
    RAcq CEntry; RBegin; RAcq CIdl; RAcq CName; RAcq CIdxEx; RAcq CAllids;
    RAcq CIdxmeta; RAcq CRuv;
    RAcq CDinfo; RAcq CSysCfg; RAcq CFeat; RAcq CAcp; RAcq CKeyProv; RAcq CRfc ].

(* the repaired protocol: force the SQLite snapshot before the acquisition block ends *)
Definition racq_pinned : list rstep := racq ++ [RPin].

(* a search by uuid: index lookup through the idl cache, then the entry through the entry cache *)
Definition search (k : N) : list rstep := [RGet CIdl k; RGet CEntry k].
Definition searches (qs : list N) : list rstep := flat_map search qs.

(* ---------------------------------------------------------------- the two-thread machine *)
Record mst := mkm { mg : gst; mr : rst; rp : list rstep; wp : list wstep }.

(* schedule token: true = the reader performs its next step, false = the writer does *)
Fixpoint run (w : N) (D : list N) (sched : list bool) (m : mst) : mst :=
  match sched with
  | [] => m
  | true :: t =>
      match rp m with
      | [] => run w D t m
      | s :: rest => run w D t (mkm (mg m) (rexec s (mg m) (mr m)) rest (wp m))
      end
  | false :: t =>
      match wp m with
      | [] => run w D t m
      | s :: rest => run w D t (mkm (wexec w D s (mg m)) (mr m) (rp m) rest)
      end
  end.

Definition cache_cell (c : cell) : bool :=
  match c with CEntry | CIdl | CName => true | _ => false end.

(* committed state v0 everywhere; `warm` keys are held by the idl and entry caches *)
Definition ginit (v0 : N) (warm : list N) : gst :=
  mkg (fun _ => v0) v0
      (fun c => if cache_cell c then map (fun k => (k, v0)) warm else []).
Definition rinit : rst := mkr (fun _ => None) (fun _ => None) None (fun _ => []) [].
Definition minit (v0 : N) (warm : list N) (rprog : list rstep) (wprog : list wstep) : mst :=
  mkm (ginit v0 warm) rinit rprog wprog.

Definition all_cells : list cell :=
  [ CSchema; CCid; CEntry; CIdl; CName; CIdxEx; CAllids; CIdxmeta; CRuv; CDinfo; CSysCfg; CFeat;
    CAcp; CKeyProv; CRfc; CPhase; CDyn; COpTs; CMaxid; CKeyh ].

(* everything the read transaction has answered or can answer from: lookup answers and the
   label of every held cell snapshot *)
Definition view (r : rst) : list N :=
  map (fun o : obs => snd o) (log r) ++
  flat_map (fun c => match snapv r c with Some v => [v] | None => [] end) all_cells.

Definition all_eqb (v : N) (l : list N) : bool := forallb (N.eqb v) l.
Definition uniformb (l : list N) : bool :=
  match l with [] => true | v :: t => all_eqb v t end.

(* ---------------------------------------------------------------- lock-respecting schedules *)
Fixpoint leading (b : bool) (s : list bool) : nat :=
  match s with
  | x :: t => if Bool.eqb x b then S (leading b t) else O
  | [] => O
  end.

(* the reader ran alone for n steps: is its snapshot window closed (all cells taken, and the
   SQLite snapshot pinned or nothing left to do)? *)
Definition closed_after (v0 : N) (warm : list N) (rprog : list rstep) (n : nat) : bool :=
  let m := run 0 [] (repeat true n) (minit v0 warm rprog []) in
  Nat.leb (length racq) n &&
  (match pin (mr m) with Some _ => true | None => match rp m with [] => true | _ => false end end).

Definition reader_first (v0 : N) (warm : list N) (rprog : list rstep) (s : list bool) : bool :=
  closed_after v0 warm rprog (leading true s).
Definition writer_first (s : list bool) : bool := Nat.leb (length wcommit) (leading false s).

(* ---------------------------------------------------------------- correspondence *)
(* pause points of the hooks: id, and how many model steps run after it *)
Definition rsegs : list (N * nat) :=
  [ (1, 1%nat); (2, 1%nat); (3, 1%nat); (4, 1%nat); (5, 4%nat); (6, 2%nat); (7, 3%nat);
    (8, 1%nat); (9, 2%nat) ].
Definition wsegs_head : list (N * nat) :=
  [ (101, 1%nat); (102, 1%nat); (103, 1%nat); (104, 1%nat); (105, 5%nat); (106, 1%nat);
    (107, 1%nat); (108, 2%nat); (109, 1%nat); (110, 2%nat); (111, 5%nat); (112, 1%nat);
    (113, 1%nat); (114, 1%nat) ].
Definition wsegs_c04 : list (N * nat) :=
  [ (101, 1%nat); (102, 1%nat); (103, 1%nat); (108, 2%nat); (109, 1%nat); (110, 2%nat);
    (111, 5%nat); (112, 1%nat); (113, 1%nat); (114, 1%nat); (104, 1%nat); (105, 5%nat);
    (106, 1%nat); (107, 1%nat) ].
Definition wsegs : list (N * nat) := if c04_fixed then wsegs_c04 else wsegs_head.

(* harness schedules name SEGMENTS (pause to pause); expand to model steps *)
Fixpoint expand (toks : list bool) (rl wl : list nat) : list bool :=
  match toks with
  | [] => []
  | true :: t =>
      match rl with
      | n :: rl' => repeat true n ++ expand t rl' wl
      | [] => expand t [] wl
      end
  | false :: t =>
      match wl with
      | n :: wl' => repeat false n ++ expand t rl wl'
      | [] => expand t rl []
      end
  end.

(* one observed run.  Labels are relative: 0 = the state before the writer's transaction,
   1 = the state it commits, anything else = neither.
   keys: 0 = entry A, 1 = entry B (both changed by the writer). *)
Inductive case :=
| CSched (warm : list N)            (* keys warmed into the caches before the run *)
         (qs : list N)              (* keys searched by the reader, in order *)
         (sched : list bool)        (* segment schedule actually enforced *)
         (tr_r tr_w : list N)       (* pause ids seen on the reader / writer thread *)
         (eobs : list N)            (* label of the entry returned by each search *)
         (cobs : list (N * N)).     (* (cell id, label) for cells observed through the txn *)

Definition dirty : list N := [0; 1].
Definition observed_cells : list cell := [CCid; CRuv; CDinfo; CAcp].

Definition case_rprog (qs : list N) : list rstep := racq ++ searches qs.
Definition case_sched (qs : list N) (sched : list bool) : list bool :=
  expand sched (map snd rsegs ++ repeat 2%nat (length qs)) (map snd wsegs).
Definition case_run (warm qs : list N) (sched : list bool) : mst :=
  run 1 dirty (case_sched qs sched) (minit 0 warm (case_rprog qs) wcommit).

Definition entry_labels (l : list obs) : list N :=
  flat_map (fun o : obs => match fst (fst o) with CEntry => [snd o] | _ => [] end) l.

Fixpoint list_eqb (a b : list N) : bool :=
  match a, b with
  | [], [] => true
  | x :: a', y :: b' => (x =? y) && list_eqb a' b'
  | _, _ => false
  end.

Definition cobs_model (r : rst) : list (N * N) :=
  flat_map (fun c => match snapv r c with Some v => [(cell_id c, v)] | None => [] end) observed_cells.

Fixpoint pairs_eqb (a b : list (N * N)) : bool :=
  match a, b with
  | [], [] => true
  | (x1, x2) :: a', (y1, y2) :: b' => (x1 =? y1) && (x2 =? y2) && pairs_eqb a' b'
  | _, _ => false
  end.

Definition count (b : bool) (s : list bool) : nat := length (filter (Bool.eqb b) s).

Definition agree (c : case) : bool :=
  match c with
  | CSched warm qs sched tr_r tr_w eobs cobs =>
      let m := case_run warm qs sched in
      forallb (fun k => k <? 2) qs &&
      Nat.eqb (count true sched) (length rsegs + length qs)%nat &&      (* the schedule is complete *)
      Nat.eqb (count false sched) (length wsegs) &&
      list_eqb tr_r (map fst rsegs) && list_eqb tr_w (map fst wsegs) &&
      match rp m, wp m with [], [] => true | _, _ => false end &&
      list_eqb eobs (entry_labels (log (mr m))) &&
      pairs_eqb cobs (cobs_model (mr m))
  end.

(* the property on the implementation's own observations: every entry the transaction
   returned and every cell it answered from carry ONE label (this includes: a repeated
   search returns the same version) *)
Definition pcheck (c : case) : bool :=
  match c with
  | CSched _ _ _ _ _ eobs cobs => uniformb (eobs ++ map snd cobs)
  end.

(* known-finding class `overlap`: the reader's snapshot window (first acquisition up to the
   first SQLite statement) is not separated from the writer's commit, i.e. the schedule is
   neither "reader closed its window before the writer's first step" nor "writer finished
   before the reader's first step" *)
Definition known (c : case) : bool :=
  match c with
  | CSched warm qs sched _ _ _ _ =>
      let s := case_sched qs sched in
      negb (reader_first 0 warm (case_rprog qs) s || writer_first s)
  end.
