(* KV.C06.Proofs — lemmas and proofs for C06. *)
From Coq Require Import List NArith Bool Lia PeanoNat.
Import ListNotations.
Require Import KV.C06.Model.
Open Scope N_scope.

(* ------------------------------------------------------------------ basics *)
Lemma cell_eqb_eq : forall a b, cell_eqb a b = true <-> a = b.
Proof.
  intros a b; split.
  - destruct a, b; intro H; try reflexivity; vm_compute in H; discriminate H.
  - intros ->. unfold cell_eqb. apply N.eqb_refl.
Qed.

Lemma cell_eqb_refl : forall a, cell_eqb a a = true.
Proof. intro a. apply cell_eqb_eq. reflexivity. Qed.

Lemma fupd_same : forall A (f : cell -> A) c v, fupd f c v c = v.
Proof. intros. unfold fupd. rewrite cell_eqb_refl. reflexivity. Qed.

Lemma fupd_other : forall A (f : cell -> A) c c' v, c <> c' -> fupd f c v c' = f c'.
Proof.
  intros A f c c' v H. unfold fupd. destruct (cell_eqb c c') eqn:E; [|reflexivity].
  apply cell_eqb_eq in E. contradiction.
Qed.

Lemma run_app : forall w D s1 s2 m, run w D (s1 ++ s2) m = run w D s2 (run w D s1 m).
Proof.
  intros w D s1. induction s1 as [|b t IH]; intros s2 m; [reflexivity|].
  destruct b; cbn [app run].
  - destruct (rp m); apply IH.
  - destruct (wp m); apply IH.
Qed.

Definition isq (s : rstep) : bool := match s with RGet _ _ => true | _ => false end.

(* ------------------------------------------------------------------ repeatable reads *)
Definition Inv_rep (r : rst) : Prop :=
  forall c k v, In (c, k, v) (log r) -> lookup r c k = Some v.

Lemma lookup_after_miss : forall r c k p c' k',
  lookup r c k = None ->
  lookup (mkr (snapv r) (snapc r) (Some p) (fupd (tl r) c (aset (tl r c) k p)) (log r ++ [(c, k, p)])) c' k'
  = if cell_eqb c c' && (k =? k') then Some p else lookup r c' k'.
Proof.
  intros r c k p c' k' L. unfold lookup, snap_hit in *. cbn [snapc tl].
  destruct (cell_eqb c c') eqn:Ec.
  - apply cell_eqb_eq in Ec. subst c'. rewrite fupd_same. cbn [aset aget andb].
    destruct (k =? k') eqn:Ek.
    + apply N.eqb_eq in Ek. subst k'.
      destruct (match snapc r c with Some m => aget m k | None => None end); [discriminate L|reflexivity].
    + reflexivity.
  - cbn [andb]. rewrite fupd_other; [reflexivity|].
    intro H. subst c'. rewrite cell_eqb_refl in Ec. discriminate Ec.
Qed.

Lemma rexec_get_rep : forall g r c k, Inv_rep r -> Inv_rep (rexec (RGet c k) g r).
Proof.
  intros g r c k H. unfold rexec. destruct (lookup r c k) as [v|] eqn:L.
  - intros c' k' v' HI. cbn [log] in HI. apply in_app_or in HI.
    change (lookup r c' k' = Some v').
    destruct HI as [HI|[HI|[]]]; [apply H; exact HI|]. inversion HI; subst. exact L.
  - set (p := match pin r with Some p => p | None => sql g end).
    intros c' k' v' HI. cbn [log] in HI. rewrite lookup_after_miss by exact L.
    apply in_app_or in HI. destruct HI as [HI|[HI|[]]].
    + destruct (cell_eqb c c' && (k =? k')) eqn:E.
      * apply andb_true_iff in E. destruct E as [E1 E2].
        apply cell_eqb_eq in E1. apply N.eqb_eq in E2. subst.
        apply H in HI. rewrite L in HI. discriminate HI.
      * apply H. exact HI.
    + inversion HI; subst. rewrite cell_eqb_refl, N.eqb_refl. reflexivity.
Qed.

Lemma rexec_nonq_log : forall s g r, isq s = false -> log (rexec s g r) = log r.
Proof. intros s g r H. destruct s; try reflexivity. discriminate H. Qed.

Fixpoint okprog (l : list rstep) : Prop :=
  match l with
  | [] => True
  | s :: t => (isq s = true -> Forall (fun x => isq x = true) t) /\ okprog t
  end.

Lemma okprog_queries : forall q, Forall (fun x => isq x = true) q -> okprog q.
Proof.
  induction q as [|s t IH]; intro H; [exact I|]. inversion H; subst. split; [intros _; assumption|].
  apply IH. assumption.
Qed.

Lemma okprog_app : forall a q,
  Forall (fun x => isq x = false) a -> Forall (fun x => isq x = true) q -> okprog (a ++ q).
Proof.
  induction a as [|s t IH]; intros q Ha Hq; [apply okprog_queries; exact Hq|].
  inversion Ha; subst. cbn [app okprog]. split.
  - intro E. congruence.
  - apply IH; assumption.
Qed.

Definition J (m : mst) : Prop :=
  Inv_rep (mr m) /\ okprog (rp m) /\ (log (mr m) = [] \/ Forall (fun x => isq x = true) (rp m)).

Lemma run_J : forall w D sched m, J m -> J (run w D sched m).
Proof.
  intros w D sched. induction sched as [|b t IH]; intros m HJ; [exact HJ|].
  destruct b; cbn [run].
  - destruct (rp m) as [|s rest] eqn:E; [apply IH; exact HJ|].
    apply IH. destruct HJ as (H1 & H2 & H3). rewrite E in H2, H3. cbn [okprog] in H2.
    destruct H2 as [H2a H2b]. unfold J. cbn [mr rp].
    destruct (isq s) eqn:Es.
    + destruct s; try discriminate Es. split; [apply rexec_get_rep; exact H1|].
      split; [exact H2b|]. right. apply H2a. reflexivity.
    + assert (L : log (mr m) = []).
      { destruct H3 as [H3|H3]; [exact H3|]. inversion H3; subst. congruence. }
      split.
      * intros c k v HI. rewrite rexec_nonq_log in HI by exact Es. rewrite L in HI. destruct HI.
      * split; [exact H2b|]. left. rewrite rexec_nonq_log by exact Es. exact L.
  - destruct (wp m) as [|s rest]; apply IH; exact HJ.
Qed.

Lemma repeatable : forall w D sched g0 a q wprog,
  Forall (fun x => isq x = false) a -> Forall (fun x => isq x = true) q ->
  forall c k v1 v2,
    let r := mr (run w D sched (mkm g0 rinit (a ++ q) wprog)) in
    In (c, k, v1) (log r) -> In (c, k, v2) (log r) -> v1 = v2.
Proof.
  intros w D sched g0 a q wprog Ha Hq c k v1 v2 r H1 H2.
  assert (HJ : J (run w D sched (mkm g0 rinit (a ++ q) wprog))).
  { apply run_J. unfold J. cbn [mr rp]. split; [intros ? ? ? []|].
    split; [apply okprog_app; assumption|left; reflexivity]. }
  destruct HJ as (HI & _). apply HI in H1. apply HI in H2. fold r in H1, H2. congruence.
Qed.

(* ------------------------------------------------------------------ reader-only prefixes *)
Lemma run_true_indep : forall n w D g r l wpr,
  run w D (repeat true n) (mkm g r l wpr) =
  let m' := run 0 [] (repeat true n) (mkm g r l []) in mkm g (mr m') (rp m') wpr.
Proof.
  induction n as [|n IH]; intros w D g r l wpr; [reflexivity|].
  cbn [repeat run rp mg mr wp]. destruct l as [|s rest]; apply IH.
Qed.

Lemma run_true_g : forall n g r l, mg (run 0 [] (repeat true n) (mkm g r l [])) = g.
Proof.
  induction n as [|n IH]; intros g r l; [reflexivity|].
  cbn [repeat run rp mg mr wp]. destruct l; apply IH.
Qed.

Lemma run_true_rp : forall n g r l, rp (run 0 [] (repeat true n) (mkm g r l [])) = skipn n l.
Proof.
  induction n as [|n IH]; intros g r l; [reflexivity|].
  cbn [repeat run rp mg mr wp]. destruct l as [|s rest]; [rewrite IH; destruct n; reflexivity|].
  rewrite IH. reflexivity.
Qed.

Lemma in_skipn' : forall A n (l : list A) x, In x (skipn n l) -> In x l.
Proof.
  intros A n. induction n as [|n IH]; intros l x H; [exact H|].
  destruct l as [|y t]; [destruct H|]. right. apply IH. exact H.
Qed.

Lemma skipn_app_queries : forall n (a q : list rstep),
  (length a <= n)%nat -> Forall (fun x => isq x = true) q ->
  Forall (fun x => isq x = true) (skipn n (a ++ q)).
Proof.
  intros n a q Hn Hq. rewrite skipn_app. replace (skipn n a) with (@nil rstep).
  - cbn [app]. apply Forall_forall. intros x Hx. rewrite Forall_forall in Hq. apply Hq.
    eapply in_skipn'. exact Hx.
  - symmetry. apply skipn_all2. exact Hn.
Qed.

(* ------------------------------------------------------------------ all labels equal v *)
Definition AllV (D : list N) (v : N) (r : rst) : Prop :=
  (forall c x, snapv r c = Some x -> x = v) /\
  (forall c m k x, snapc r c = Some m -> In k D -> aget m k = Some x -> x = v) /\
  (forall c k x, aget (tl r c) k = Some x -> x = v) /\
  (forall p, pin r = Some p -> p = v) /\
  Forall (fun o : obs => snd o = v /\ In (snd (fst o)) D) (log r).

Definition gvalid (D : list N) (v : N) (g : gst) : Prop :=
  (forall c, pubv g c = v) /\ sql g = v /\
  (forall c k x, In k D -> aget (cch g c) k = Some x -> x = v).

Definition keys_in (D : list N) (l : list rstep) : Prop :=
  forall c k, In (RGet c k) l -> In k D.

Lemma AllV_rinit : forall D v, AllV D v rinit.
Proof.
  intros D v. unfold AllV, rinit. cbn. repeat split; intros; try discriminate. constructor.
Qed.

(* a step taken while the shared state is uniformly v keeps the reader uniformly v *)
Lemma rexec_AllV_g : forall D v g r s,
  gvalid D v g -> AllV D v r -> (forall c k, s = RGet c k -> In k D) -> AllV D v (rexec s g r).
Proof.
  intros D v g r s (G1 & G2 & G3) (A1 & A2 & A3 & A4 & A5) Hk.
  destruct s as [c| | |c k]; cbn [rexec].
  - unfold AllV. cbn [snapv snapc tl pin log]. repeat split; try assumption.
    + intros c' x H. unfold fupd in H. destruct (cell_eqb c c'); [inversion H; apply G1|eapply A1; exact H].
    + intros c' m k x H Hin Hg. unfold fupd in H. destruct (cell_eqb c c').
      * inversion H; subst. eapply G3; eassumption.
      * eapply A2; eassumption.
  - unfold AllV. repeat split; assumption.
  - unfold AllV. cbn [snapv snapc tl pin log]. repeat split; try assumption.
    intros p H. inversion H. destruct (pin r) eqn:E; [apply A4; reflexivity|exact G2].
  - assert (Hin : In k D) by (eapply Hk; reflexivity).
    destruct (lookup r c k) as [x|] eqn:L.
    + assert (x = v).
      { unfold lookup, snap_hit in L. destruct (snapc r c) as [m|] eqn:Es.
        - destruct (aget m k) eqn:Ea; [inversion L; subst; eapply A2; eassumption|eapply A3; exact L].
        - eapply A3; exact L. }
      subst x. unfold AllV. cbn [snapv snapc tl pin log]. repeat split; try assumption.
      apply Forall_app. split; [exact A5|]. constructor; [|constructor]. cbn. split; [reflexivity|exact Hin].
    + assert (P : match pin r with Some p => p | None => sql g end = v).
      { destruct (pin r) eqn:E; [apply A4; reflexivity|exact G2]. }
      rewrite P. unfold AllV. cbn [snapv snapc tl pin log]. repeat split; try assumption.
      * intros c' k' x H. unfold fupd in H. destruct (cell_eqb c c').
        -- cbn [aset aget] in H. destruct (k =? k'); [inversion H; reflexivity|eapply A3; exact H].
        -- eapply A3; exact H.
      * intros p H. inversion H. reflexivity.
      * apply Forall_app. split; [exact A5|]. constructor; [|constructor]. cbn. split; [reflexivity|exact Hin].
Qed.

(* a QUERY step taken by a reader whose SQLite snapshot is already pinned does not depend on
   the shared state at all *)
Lemma rexec_AllV_pinned : forall D v g r c k,
  AllV D v r -> pin r <> None -> In k D ->
  AllV D v (rexec (RGet c k) g r) /\ pin (rexec (RGet c k) g r) <> None.
Proof.
  intros D v g r c k (A1 & A2 & A3 & A4 & A5) Hp Hin. cbn [rexec].
  destruct (lookup r c k) as [x|] eqn:L.
  - assert (x = v).
    { unfold lookup, snap_hit in L. destruct (snapc r c) as [m|] eqn:Es.
      - destruct (aget m k) eqn:Ea; [inversion L; subst; eapply A2; eassumption|eapply A3; exact L].
      - eapply A3; exact L. }
    subst x. split; [|exact Hp]. unfold AllV. cbn [snapv snapc tl pin log]. repeat split; try assumption.
    apply Forall_app. split; [exact A5|]. constructor; [|constructor]. cbn. split; [reflexivity|exact Hin].
  - destruct (pin r) as [p|] eqn:E; [|contradiction Hp; reflexivity].
    assert (p = v) by (apply A4; reflexivity). subst p.
    split; [|cbn [pin]; discriminate].
    unfold AllV. cbn [snapv snapc tl pin log]. repeat split; try assumption.
    + intros c' k' x H. unfold fupd in H. destruct (cell_eqb c c').
      * cbn [aset aget] in H. destruct (k =? k'); [inversion H; reflexivity|eapply A3; exact H].
      * eapply A3; exact H.
    + apply Forall_app. split; [exact A5|]. constructor; [|constructor]. cbn. split; [reflexivity|exact Hin].
Qed.

(* phase 1: the reader alone against a uniformly-v shared state *)
Lemma run_true_AllV : forall D v n g r l,
  gvalid D v g -> AllV D v r -> keys_in D l ->
  AllV D v (mr (run 0 [] (repeat true n) (mkm g r l []))).
Proof.
  intros D v n. induction n as [|n IH]; intros g r l Hg Hr Hk; [exact Hr|].
  cbn [repeat run rp mg mr wp]. destruct l as [|s rest]; [apply IH; assumption|].
  apply IH; [exact Hg| |].
  - apply rexec_AllV_g; [exact Hg|exact Hr|]. intros c k E. subst s. eapply Hk. left. reflexivity.
  - intros c k H. eapply Hk. right. exact H.
Qed.

(* phase 2: only queries left and the SQLite snapshot pinned (or nothing left): any schedule,
   any writer *)
Lemma run_closed_AllV : forall D v w D' sched m,
  AllV D v (mr m) -> Forall (fun x => isq x = true) (rp m) -> keys_in D (rp m) ->
  (pin (mr m) <> None \/ rp m = []) ->
  AllV D v (mr (run w D' sched m)).
Proof.
  intros D v w D' sched. induction sched as [|b t IH]; intros m Hr Hq Hk Hc; [exact Hr|].
  destruct b; cbn [run].
  - destruct (rp m) as [|s rest] eqn:E; [apply IH; try assumption; rewrite E; assumption|].
    destruct Hc as [Hc|Hc]; [|discriminate Hc].
    inversion Hq; subst. destruct s as [| | |c k]; try discriminate.
    assert (Hin : In k D) by (eapply Hk; left; reflexivity).
    destruct (rexec_AllV_pinned D v (mg m) (mr m) c k Hr Hc Hin) as [X1 X2].
    apply IH; cbn [mr rp]; try assumption.
    + intros c' k' H. eapply Hk. right. exact H.
    + left. exact X2.
  - destruct (wp m) as [|s rest]; apply IH; assumption.
Qed.

Lemma AllV_view : forall D v r, AllV D v r -> Forall (eq v) (view r).
Proof.
  intros D v r (A1 & _ & _ & _ & A5). unfold view. apply Forall_app. split.
  - rewrite Forall_forall in *. intros x Hx. apply in_map_iff in Hx. destruct Hx as (o & <- & Ho).
    symmetry. apply A5. exact Ho.
  - apply Forall_forall. intros x Hx. apply in_flat_map in Hx. destruct Hx as (c & _ & Hc).
    destruct (snapv r c) eqn:E; [|destruct Hc]. destruct Hc as [<-|[]]. symmetry. eapply A1. exact E.
Qed.

Lemma gvalid_ginit : forall D v warm, gvalid D v (ginit v warm).
Proof.
  intros D v warm. unfold gvalid, ginit. cbn [pubv sql cch]. repeat split.
  intros c k x _ H. destruct (cache_cell c); [|discriminate H].
  induction warm as [|k' t IH]; [discriminate H|].
  cbn [map aget] in H. destruct (k' =? k); [inversion H; reflexivity|apply IH; exact H].
Qed.

(* reader first: its window (acquisition + SQLite pin) closes before the writer's first step *)
Lemma reader_first_uniform : forall v0 warm a q n s' w D wprog,
  Forall (fun x => isq x = false) a -> Forall (fun x => isq x = true) q ->
  (length a <= n)%nat ->
  (let m0 := run 0 [] (repeat true n) (minit v0 warm (a ++ q) []) in
   pin (mr m0) <> None \/ rp m0 = []) ->
  Forall (eq v0) (view (mr (run w D (repeat true n ++ s') (minit v0 warm (a ++ q) wprog)))).
Proof.
  intros v0 warm a q n s' w D wprog Ha Hq Hn Hc.
  (* every key counts: take the key universe to be "all keys ever asked" *)
  set (K := flat_map (fun s => match s with RGet _ k => [k] | _ => [] end) (a ++ q)).
  assert (HK : keys_in K (a ++ q)).
  { intros c k H. unfold K. apply in_flat_map. exists (RGet c k). split; [exact H|left; reflexivity]. }
  apply (AllV_view K). rewrite run_app. unfold minit. rewrite run_true_indep. cbv zeta.
  apply run_closed_AllV; cbn [mr rp].
  - apply run_true_AllV; [apply gvalid_ginit|apply AllV_rinit|exact HK].
  - rewrite run_true_rp. apply skipn_app_queries; assumption.
  - rewrite run_true_rp. intros c k H. apply (HK c). eapply in_skipn'. exact H.
  - exact Hc.
Qed.

(* ------------------------------------------------------------------ writer first *)
Lemma run_false_all : forall w D wpr g r l,
  run w D (repeat false (length wpr)) (mkm g r l wpr) =
  mkm (fold_left (fun g s => wexec w D s g) wpr g) r l [].
Proof.
  intros w D wpr. induction wpr as [|s t IH]; intros g r l; [reflexivity|].
  cbn [length repeat run wp mg mr rp fold_left]. apply IH.
Qed.

Lemma aget_fold_in : forall w D m0 k,
  In k D -> aget (fold_left (fun m k => aset m k w) D m0) k = Some w.
Proof.
  intros w D. induction D as [|k' t IH]; intros m0 k H; [destruct H|].
  cbn [fold_left]. destruct (in_dec N.eq_dec k t) as [Hi|Hn]; [apply IH; exact Hi|].
  destruct H as [->|H]; [|contradiction].
  clear IH. revert m0. induction t as [|k2 t IH2]; intro m0.
  - cbn. rewrite N.eqb_refl. reflexivity.
  - cbn [fold_left]. assert (k2 <> k) by (intro; subst; apply Hn; left; reflexivity).
    assert (Hn' : ~ In k t) by (intro; apply Hn; right; assumption).
    specialize (IH2 Hn').
    (* commute the k2 binding below: it does not affect key k *)
    assert (G : forall m1 m2, aget m1 k = aget m2 k ->
                aget (fold_left (fun m k => aset m k w) t m1) k = aget (fold_left (fun m k => aset m k w) t m2) k).
    { clear -Hn'. induction t as [|k3 t IH3]; intros m1 m2 E; [exact E|].
      cbn [fold_left]. apply IH3; [intro; apply Hn'; right; assumption|].
      cbn [aset aget]. destruct (k3 =? k); [reflexivity|exact E]. }
    rewrite (G (aset (aset m0 k w) k2 w) (aset m0 k w)); [apply IH2|].
    cbn [aset aget]. apply N.eqb_neq in H. rewrite H. reflexivity.
Qed.

Definition gdone (w : N) (D : list N) (v0 : N) (warm : list N) : gst :=
  fold_left (fun g s => wexec w D s g) wcommit (ginit v0 warm).

Lemma gdone_valid : forall w D v0 warm, gvalid D w (gdone w D v0 warm).
Proof.
  intros w D v0 warm. unfold gvalid. split; [|split].
  - intro c. destruct c; reflexivity.
  - reflexivity.
  - intros c k x Hin H.
    assert (E : cch (gdone w D v0 warm) c =
                fold_left (fun m k => aset m k w) D (cch (ginit v0 warm) c)) by (destruct c; reflexivity).
    rewrite E in H. rewrite aget_fold_in in H by exact Hin. inversion H. reflexivity.
Qed.

(* with nothing left for the writer to do the shared state never changes again *)
Lemma run_const_AllV : forall D v w D' sched m,
  wp m = [] -> gvalid D v (mg m) -> AllV D v (mr m) -> keys_in D (rp m) ->
  AllV D v (mr (run w D' sched m)).
Proof.
  intros D v w D' sched. induction sched as [|b t IH]; intros m Hw Hg Hr Hk; [exact Hr|].
  destruct b; cbn [run].
  - destruct (rp m) as [|s rest] eqn:E; [apply IH; try assumption; rewrite E; assumption|].
    apply IH; cbn [wp mg mr rp]; try assumption.
    + apply rexec_AllV_g; [exact Hg|exact Hr|]. intros c k Es. subst s. eapply Hk. left. reflexivity.
    + intros c k H. eapply Hk. right. exact H.
  - rewrite Hw. apply IH; assumption.
Qed.

Lemma writer_first_uniform : forall v0 warm rprog s' w D,
  keys_in D rprog ->
  Forall (eq w) (view (mr (run w D (repeat false (length wcommit) ++ s') (minit v0 warm rprog wcommit)))).
Proof.
  intros v0 warm rprog s' w D Hk. apply (AllV_view D). rewrite run_app. unfold minit.
  rewrite run_false_all. apply run_const_AllV; cbn [wp mg mr rp].
  - reflexivity.
  - apply gdone_valid.
  - apply AllV_rinit.
  - exact Hk.
Qed.

(* ------------------------------------------------------------------ schedule shapes *)
Lemma leading_split : forall b s, s = repeat b (leading b s) ++ skipn (leading b s) s.
Proof.
  intros b s. induction s as [|x t IH]; [reflexivity|].
  cbn [leading]. destruct (Bool.eqb x b) eqn:E; [|reflexivity].
  apply Bool.eqb_prop in E. subst x. cbn [repeat app skipn]. f_equal. exact IH.
Qed.

Lemma leading_ge_split : forall b n s, (n <= leading b s)%nat -> s = repeat b n ++ skipn n s.
Proof.
  intros b n. induction n as [|n IH]; intros s H; [reflexivity|].
  destruct s as [|x t]; [cbn in H; lia|]. cbn [leading] in H.
  destruct (Bool.eqb x b) eqn:E; [|lia]. apply Bool.eqb_prop in E. subst x.
  cbn [repeat app skipn]. f_equal. apply IH. lia.
Qed.

Lemma Forall_eq_uniformb : forall v l, Forall (eq v) l -> uniformb l = true.
Proof.
  intros v l H. destruct l as [|x t]; [reflexivity|]. inversion H; subst.
  cbn [uniformb]. unfold all_eqb. apply forallb_forall. intros y Hy.
  rewrite Forall_forall in H3. rewrite <- (H3 y Hy). apply N.eqb_refl.
Qed.

Lemma searches_isq : forall qs, Forall (fun x => isq x = true) (searches qs).
Proof.
  induction qs as [|k t IH]; [constructor|]. cbn [searches flat_map search app] in *.
  constructor; [reflexivity|]. constructor; [reflexivity|]. exact IH.
Qed.

Lemma racq_nonq : Forall (fun x => isq x = false) racq.
Proof. repeat constructor. Qed.

Lemma racq_pinned_nonq : Forall (fun x => isq x = false) racq_pinned.
Proof. repeat constructor. Qed.

Lemma keys_in_case : forall D qs, (forall k, In k qs -> In k D) -> keys_in D (case_rprog qs).
Proof.
  intros D qs H c k Hin. unfold case_rprog in Hin. apply in_app_or in Hin. destruct Hin as [Hin|Hin].
  - unfold racq in Hin. cbn in Hin. repeat (destruct Hin as [Hin|Hin]; [discriminate Hin|]). destruct Hin.
  - unfold searches in Hin. apply in_flat_map in Hin. destruct Hin as (k' & Hk' & Hs).
    cbn in Hs. destruct Hs as [Hs|[Hs|[]]]; inversion Hs; subst; apply H; exact Hk'.
Qed.

(* the real program: uniform outside the overlap class *)
Lemma single_state_partial : forall v0 w D warm qs s,
  (forall k, In k qs -> In k D) ->
  reader_first v0 warm (case_rprog qs) s || writer_first s = true ->
  exists v, Forall (eq v) (view (mr (run w D s (minit v0 warm (case_rprog qs) wcommit)))).
Proof.
  intros v0 w D warm qs s Hk H. apply orb_true_iff in H. destruct H as [H|H].
  - exists v0. unfold reader_first, closed_after in H. apply andb_true_iff in H. destruct H as [H1 H2].
    apply Nat.leb_le in H1. rewrite (leading_split true s). unfold case_rprog.
    apply reader_first_uniform; [exact racq_nonq|apply searches_isq|exact H1|].
    cbv zeta. fold (case_rprog qs).
    destruct (pin (mr (run 0 [] (repeat true (leading true s)) (minit v0 warm (case_rprog qs) [])))).
    + left. discriminate.
    + right. destruct (rp (run 0 [] (repeat true (leading true s)) (minit v0 warm (case_rprog qs) []))); [reflexivity|discriminate H2].
  - exists w. unfold writer_first in H. apply Nat.leb_le in H.
    rewrite (leading_ge_split false _ s H). apply writer_first_uniform. apply keys_in_case. exact Hk.
Qed.

(* the repaired protocol (SQLite snapshot forced inside the acquisition block, acquisition
   block and publication block mutually exclusive) *)
Lemma pinned_closed : forall v0 warm q,
  let m0 := run 0 [] (repeat true (length racq_pinned)) (minit v0 warm (racq_pinned ++ q) []) in
  pin (mr m0) <> None.
Proof. intros v0 warm q. vm_compute. discriminate. Qed.

Lemma under_lock : forall v0 w D warm qs s',
  (forall k, In k qs -> In k D) ->
  Forall (eq v0) (view (mr (run w D (repeat true (length racq_pinned) ++ s')
                              (minit v0 warm (racq_pinned ++ searches qs) wcommit)))) /\
  Forall (eq w) (view (mr (run w D (repeat false (length wcommit) ++ s')
                             (minit v0 warm (racq_pinned ++ searches qs) wcommit)))).
Proof.
  intros v0 w D warm qs s' Hk. split.
  - apply reader_first_uniform; [exact racq_pinned_nonq|apply searches_isq|apply Nat.le_refl|].
    left. apply pinned_closed.
  - apply writer_first_uniform. intros c k Hin. apply in_app_or in Hin. destruct Hin as [Hin|Hin].
    + cbn in Hin. repeat (destruct Hin as [Hin|Hin]; [discriminate Hin|]). destruct Hin.
    + unfold searches in Hin. apply in_flat_map in Hin. destruct Hin as (k' & Hk' & Hs).
      cbn in Hs. destruct Hs as [Hs|[Hs|[]]]; inversion Hs; subst; apply Hk; exact Hk'.
Qed.

(* ------------------------------------------------------------------ bridge *)
Lemma list_eqb_eq : forall a b, list_eqb a b = true -> a = b.
Proof.
  induction a as [|x a IH]; destruct b as [|y b]; intro H; try reflexivity; try discriminate H.
  cbn in H. apply andb_true_iff in H. destruct H as [H1 H2]. apply N.eqb_eq in H1. subst.
  f_equal. apply IH. exact H2.
Qed.

Lemma pairs_eqb_eq : forall a b, pairs_eqb a b = true -> a = b.
Proof.
  induction a as [|[x1 x2] a IH]; destruct b as [|[y1 y2] b]; intro H; try reflexivity; try discriminate H.
  cbn in H. apply andb_true_iff in H. destruct H as [H1 H3]. apply andb_true_iff in H1. destruct H1 as [H1 H2].
  apply N.eqb_eq in H1. apply N.eqb_eq in H2. subst. f_equal. apply IH. exact H3.
Qed.

Lemma entry_labels_view : forall r x, In x (entry_labels (log r)) -> In x (view r).
Proof.
  intros r x H. unfold entry_labels in H. apply in_flat_map in H. destruct H as (o & Ho & Hx).
  unfold view. apply in_or_app. left. apply in_map_iff. exists o. split; [|exact Ho].
  destruct (fst (fst o)); try (destruct Hx; fail). destruct Hx as [<-|[]]. reflexivity.
Qed.

Lemma cobs_view : forall r x, In x (map snd (cobs_model r)) -> In x (view r).
Proof.
  intros r x H. apply in_map_iff in H. destruct H as ([i v] & <- & H). unfold cobs_model in H.
  apply in_flat_map in H. destruct H as (c & Hc & H). destruct (snapv r c) eqn:E; [|destruct H].
  destruct H as [H|[]]. inversion H; subst. unfold view. apply in_or_app. right.
  apply in_flat_map. exists c. split.
  - unfold observed_cells in Hc. unfold all_cells. cbn in Hc |- *.
    destruct Hc as [<-|[<-|[<-|[<-|[]]]]]; tauto.
  - rewrite E. left. reflexivity.
Qed.

Lemma agree_pcheck : forall c, agree c = true -> known c = false -> pcheck c = true.
Proof.
  intros [warm qs sched tr_r tr_w eobs cobs] HA HK. unfold agree in HA. unfold known in HK. unfold pcheck.
  repeat (apply andb_true_iff in HA; destruct HA as [HA ?]).
  apply negb_false_iff in HK.
  assert (Hq : forall k, In k qs -> In k dirty).
  { intros k Hk. rewrite forallb_forall in HA. specialize (HA k Hk). apply N.ltb_lt in HA.
    unfold dirty. destruct (N.eq_dec k 0) as [->|]; [left; reflexivity|]. right. left. lia. }
  destruct (single_state_partial 0 1 dirty warm qs (case_sched qs sched) Hq HK) as [v Hv].
  fold (case_run warm qs sched) in Hv.
  apply list_eqb_eq in H0. apply pairs_eqb_eq in H. subst eobs cobs.
  apply (Forall_eq_uniformb v). apply Forall_forall. intros x Hx. rewrite Forall_forall in Hv. apply Hv.
  apply in_app_or in Hx. destruct Hx as [Hx|Hx]; [apply entry_labels_view|apply cobs_view]; exact Hx.
Qed.
