(* KV.C06.Props — property theorems only. *)
From Coq Require Import List NArith Bool.
Import ListNotations.
Require Import KV.C06.Model KV.C06.Proofs.
Open Scope N_scope.

(* FULL STATEMENT of C06 on the model of the code as it is: whatever the interleaving of the
   reader's steps with the writer's commit steps, whatever the caches hold and whatever the
   reader searches for (among the entries the writer changes), everything the read transaction
   answers from -- the cell snapshots it holds and every lookup answer -- carries one label,
   i.e. comes from a single committed state. *)
Definition C06_full_statement : Prop :=
  forall (warm qs : list N) (sched : list bool),
    Forall (fun k => In k dirty) qs ->
    uniformb (view (mr (run 1 dirty sched (minit 0 warm (case_rprog qs) wcommit)))) = true.

(* The faithful model does NOT satisfy it.  Witness: entry A cached, entry B not; the reader
   completes QueryServer::read() (all 16 acquisitions: nothing inside read() is interleaved),
   the writer then commits completely, the reader then searches A and B: A is answered from the
   old entry-cache snapshot, B from SQLite, whose DEFERRED transaction only now takes its
   snapshot -- after the commit. *)
Theorem C06_refuted : ~ C06_full_statement.
Proof.
  intro H.
  specialize (H [0] [0; 1] (repeat true 16 ++ repeat false 24 ++ repeat true 4)).
  assert (F : Forall (fun k => In k dirty) [0; 1]).
  { constructor; [left; reflexivity|]. constructor; [right; left; reflexivity|]. constructor. }
  specialize (H F). vm_compute in H. discriminate H.
Qed.

(* Repeatable reads hold in full: for ANY acquisition prefix (any order of snapshot steps),
   any list of lookups after it, any writer program, any schedule and any starting state, two
   lookups of the same key through the same cache inside one read transaction return the same
   version. *)
Theorem C06_repeatable :
  forall (w : N) (D : list N) (sched : list bool) (g0 : gst) (a q : list rstep) (wprog : list wstep),
    Forall (fun x => isq x = false) a -> Forall (fun x => isq x = true) q ->
    forall c k v1 v2,
      let r := mr (run w D sched (mkm g0 rinit (a ++ q) wprog)) in
      In (c, k, v1) (log r) -> In (c, k, v2) (log r) -> v1 = v2.
Proof. exact repeatable. Qed.

(* PARTIAL (what is missing: every schedule in which the reader's snapshot window overlaps
   the writer's commit -- the known-finding class `overlap`).  For the code as it is: if the
   reader closes its window (all acquisitions AND the first SQLite statement, or it has
   nothing left to ask) before the writer's first step, or the writer finishes its commit
   before the reader's first step, the view is a single committed state, for every later
   interleaving. *)
Theorem C06_single_state_partial :
  forall (v0 w : N) (D warm qs : list N) (s : list bool),
    (forall k, In k qs -> In k D) ->
    reader_first v0 warm (case_rprog qs) s || writer_first s = true ->
    uniformb (view (mr (run w D s (minit v0 warm (case_rprog qs) wcommit)))) = true.
Proof.
  intros v0 w D warm qs s Hk H.
  destruct (single_state_partial v0 w D warm qs s Hk H) as [v Hv].
  exact (Forall_eq_uniformb v _ Hv).
Qed.

(* The repair, documented: a reader that also FORCES its SQLite snapshot inside the
   acquisition block (racq_pinned) and whose acquisition block is mutually exclusive with the
   writer's publication block (it runs entirely before the writer's first step or entirely
   after its last one) sees one committed state: the old one, respectively the new one --
   whatever happens afterwards. *)
Theorem C06_consistent_under_lock :
  forall (v0 w : N) (D warm qs : list N) (s' : list bool),
    (forall k, In k qs -> In k D) ->
    Forall (eq v0) (view (mr (run w D (repeat true (length racq_pinned) ++ s')
                                (minit v0 warm (racq_pinned ++ searches qs) wcommit)))) /\
    Forall (eq w) (view (mr (run w D (repeat false (length wcommit) ++ s')
                               (minit v0 warm (racq_pinned ++ searches qs) wcommit)))).
Proof. exact under_lock. Qed.

(* ... and a lock around read() ALONE is not a repair: with read() and commit() strictly
   serialised (read() completes, then the whole commit runs, then the reader searches) the
   unforced SQLite snapshot still mixes two states. *)
Theorem C06_lock_without_pin_refuted :
  exists warm qs,
    Forall (fun k => In k dirty) qs /\
    uniformb (view (mr (run 1 dirty
        (repeat true (length racq) ++ repeat false (length wcommit) ++ repeat true (length (searches qs)))
        (minit 0 warm (case_rprog qs) wcommit)))) = false.
Proof.
  exists [0], [0; 1]. split.
  - constructor; [left; reflexivity|]. constructor; [right; left; reflexivity|]. constructor.
  - vm_compute. reflexivity.
Qed.

(* Soundness of the run-time tie: whenever the implementation's observations agree with the
   model on a case OUTSIDE the known class, the property's executable predicate holds on
   those observations. *)
Theorem C06_agree_implies_property :
  forall c : case, agree c = true -> known c = false -> pcheck c = true.
Proof. exact agree_pcheck. Qed.
