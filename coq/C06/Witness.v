(* KV.C06.Witness — non-vacuity and refutation witnesses. *)
From Coq Require Import List NArith Bool.
Import ListNotations.
Require Import KV.C06.Model.
Open Scope N_scope.

Definition grid (i j nr nw : nat) : list bool :=
  repeat true i ++ repeat false j ++ repeat true (nr - i) ++ repeat false (nw - j).

(* the refutation at the granularity of the hooks: reader takes schema .. d_info (7 segments),
   the writer commits, the reader takes the access controls and searches A (cached) and B *)
Example C06_witness_refuted_mixed :
  let m := case_run [0] [0; 1; 0; 1] (grid 7 14 13 14) in
  entry_labels (log (mr m)) = [0; 1; 0; 1] /\ cobs_model (mr m) = [(1, 0); (8, 0); (9, 0); (12, 1)].
Proof. vm_compute. split; reflexivity. Qed.

(* that case as recorded from the real server: agrees, fails the property, is in the class *)
Example C06_witness_known_case :
  let c := CSched [0] [0; 1; 0; 1] (grid 7 14 13 14) (map fst rsegs) (map fst wsegs)
                  [0; 1; 0; 1] [(1, 0); (8, 0); (9, 0); (12, 1)] in
  agree c = true /\ pcheck c = false /\ known c = true.
Proof. vm_compute. repeat split; reflexivity. Qed.

(* hypotheses of C06_single_state_partial / C06_agree_implies_property are satisfiable by
   non-trivial schedules: the reader closes its window (16 acquisitions + the search of the
   uncached B pins SQLite), THEN reader and writer interleave *)
Example C06_witness_reader_first :
  let s := repeat true 18 ++ [false; false; true; false; true; false] ++ repeat false 20 ++ repeat true 4 in
  reader_first 0 [0] (case_rprog [1; 0; 1]) s = true /\
  view (mr (run 1 dirty s (minit 0 [0] (case_rprog [1; 0; 1]) wcommit))) = repeat 0 21.
Proof. vm_compute. split; reflexivity. Qed.

Example C06_witness_writer_first :
  let s := repeat false 24 ++ repeat true 22 in
  writer_first s = true /\
  view (mr (run 1 dirty s (minit 0 [0] (case_rprog [1; 0; 1]) wcommit))) = repeat 1 21.
Proof. vm_compute. split; reflexivity. Qed.

Example C06_witness_agree_outside_known :
  let c := CSched [0] [0; 1] (grid 11 14 11 14) (map fst rsegs) (map fst wsegs)
                  [0; 0] [(1, 0); (8, 0); (9, 0); (12, 0)] in
  agree c = true /\ known c = false /\ pcheck c = true.
Proof. vm_compute. repeat split; reflexivity. Qed.

(* repeatable reads, hypotheses met by the real program under a hostile schedule *)
Example C06_witness_repeatable :
  let m := case_run [] [0; 1; 0; 1; 1; 0] (grid 4 9 15 14) in
  entry_labels (log (mr m)) = [1; 1; 1; 1; 1; 1] /\ rp m = [] /\ wp m = [].
Proof. vm_compute. repeat split; reflexivity. Qed.

(* the repaired protocol on the refuting schedule shape *)
Example C06_witness_under_lock :
  view (mr (run 1 dirty (repeat true 17 ++ repeat false 24 ++ repeat true 4)
              (minit 0 [0] (racq_pinned ++ searches [0; 1]) wcommit))) = repeat 0 19.
Proof. vm_compute. reflexivity. Qed.
