(* KV.C49.Proofs — lemmas about the validity-window gates and the front ends. *)
From Coq Require Import List NArith Bool Lia.
Import ListNotations.
Require Import KV.C49.Model.
Open Scope N_scope.

Arguments N.add : simpl never.
Arguments N.sub : simpl never.
Arguments N.mul : simpl never.
Arguments N.div : simpl never.
Arguments N.ltb : simpl never.
Arguments N.leb : simpl never.
Arguments N.eqb : simpl never.

(* ------------------------------------------------------------------ the gates, in words *)
Lemma within_le_spec : forall ct w,
  within_le ct w = true <->
  (forall v, w_vf w = Some v -> v <= ct) /\ (forall e, w_ex w = Some e -> ct <= e).
Proof.
  intros ct [vf ex]. unfold within_le. cbn [w_vf w_ex]. rewrite andb_true_iff. split.
  - intros [Hv He]. split.
    + intros v Ev. subst vf. apply N.leb_le. exact Hv.
    + intros e Ee. subst ex. apply N.leb_le. exact He.
  - intros [Hv He]. split.
    + destruct vf as [v|]; [apply N.leb_le; apply Hv; reflexivity | reflexivity].
    + destruct ex as [e|]; [apply N.leb_le; apply He; reflexivity | reflexivity].
Qed.

Lemma within_lt_spec : forall ct w,
  within_lt ct w = true <->
  (forall v, w_vf w = Some v -> v < ct) /\ (forall e, w_ex w = Some e -> ct < e).
Proof.
  intros ct [vf ex]. unfold within_lt. cbn [w_vf w_ex]. rewrite andb_true_iff. split.
  - intros [Hv He]. split.
    + intros v Ev. subst vf. apply N.ltb_lt. exact Hv.
    + intros e Ee. subst ex. apply N.ltb_lt. exact He.
  - intros [Hv He]. split.
    + destruct vf as [v|]; [apply N.ltb_lt; apply Hv; reflexivity | reflexivity].
    + destruct ex as [e|]; [apply N.ltb_lt; apply He; reflexivity | reflexivity].
Qed.

Lemma outside_spec : forall ct w,
  outsideb ct w = true <->
  (exists v, w_vf w = Some v /\ ct < v) \/ (exists e, w_ex w = Some e /\ e < ct).
Proof.
  intros ct [vf ex]. unfold outsideb. cbn [w_vf w_ex]. rewrite orb_true_iff. split.
  - intros [H|H].
    + left. destruct vf as [v|]; [|discriminate H]. exists v. split; [reflexivity | apply N.ltb_lt; exact H].
    + right. destruct ex as [e|]; [|discriminate H]. exists e. split; [reflexivity | apply N.ltb_lt; exact H].
  - intros [[v [Ev Hv]]|[e [Ee He]]].
    + left. inversion Ev; subst. apply N.ltb_lt. exact Hv.
    + right. inversion Ee; subst. apply N.ltb_lt. exact He.
Qed.

(* both gates refuse every instant outside the window *)
Lemma outside_not_le : forall ct w, outsideb ct w = true -> within_le ct w = false.
Proof.
  intros ct [vf ex] H. unfold outsideb in H. unfold within_le. cbn [w_vf w_ex] in *.
  apply orb_true_iff in H as [H|H].
  - destruct vf as [v|]; [|discriminate H]. apply N.ltb_lt in H.
    destruct (N.leb_spec v ct) as [L|L]; [lia | reflexivity].
  - destruct ex as [e|]; [|discriminate H]. apply N.ltb_lt in H.
    destruct (N.leb_spec ct e) as [L|L]; [lia | apply andb_false_r].
Qed.

(* the exclusive gate is the stricter one *)
Lemma lt_implies_le : forall ct w, within_lt ct w = true -> within_le ct w = true.
Proof.
  intros ct w H. apply within_lt_spec in H as [Hv He]. apply within_le_spec. split.
  - intros v Ev. apply N.lt_le_incl. apply Hv. exact Ev.
  - intros e Ee. apply N.lt_le_incl. apply He. exact Ee.
Qed.

Lemma outside_not_lt : forall ct w, outsideb ct w = true -> within_lt ct w = false.
Proof.
  intros ct w H. destruct (within_lt ct w) eqn:E; [|reflexivity].
  apply lt_implies_le in E. rewrite (outside_not_le ct w H) in E. discriminate E.
Qed.

(* at a bound itself the two gates differ *)
Lemma boundary_instants : forall ct,
  within_le ct (mkwin (Some ct) (Some ct)) = true /\ within_lt ct (mkwin (Some ct) (Some ct)) = false /\
  outsideb ct (mkwin (Some ct) (Some ct)) = false.
Proof.
  intros ct. unfold within_le, within_lt, outsideb. cbn [w_vf w_ex].
  rewrite N.leb_refl, N.ltb_irrefl. repeat split; reflexivity.
Qed.

Lemma reduce_full : forall rd w, rd_vf rd = true -> rd_ex rd = true -> reduce rd w = w.
Proof. intros rd [vf ex] Hv He. unfold reduce. rewrite Hv, He. reflexivity. Qed.

Lemma reduce_none : forall rd w, rd_vf rd = false -> rd_ex rd = false -> reduce rd w = mkwin None None.
Proof. intros rd [vf ex] Hv He. unfold reduce. rewrite Hv, He. reflexivity. Qed.

(* ------------------------------------------------------------------ gate_then *)
Lemma gate_then_grant : forall g ok o, o <> OGrant ->
  is_grant (gate_then g ok o) = g && ok.
Proof.
  intros g ok o Ho. unfold gate_then. destruct g, ok; try reflexivity; destruct o; try reflexivity; contradiction Ho; reflexivity.
Qed.

Lemma gate_closed : forall g ok o, g = false -> o <> OGrant -> is_grant (gate_then g ok o) = false.
Proof. intros g ok o Hg Ho. rewrite gate_then_grant by exact Ho. rewrite Hg. reflexivity. Qed.

(* ------------------------------------------------------------------ RADIUS *)
(* what the pinned code releases: exactly when the REDUCED entry passes *)
Lemma radius_prefix_char : forall rd hs w ct,
  is_grant (radius_gen false rd hs w ct) =
  rd_vis rd && rd_class rd && (rd_secret rd && hs) && rd_name rd && rd_dn rd && within_lt ct (reduce rd w).
Proof.
  intros rd hs w ct. unfold radius_gen.
  destruct (rd_vis rd), (rd_class rd), (rd_secret rd), hs, (rd_name rd), (rd_dn rd); cbn [negb andb]; try reflexivity;
    destruct (within_lt ct (reduce rd w)); reflexivity.
Qed.

(* with the repair no reduced view matters *)
Lemma radius_fixed_gated : forall rd hs w ct,
  outsideb ct w = true -> is_grant (radius_gen true rd hs w ct) = false.
Proof.
  intros rd hs w ct H. unfold radius_gen. rewrite (outside_not_le ct w H).
  destruct (rd_vis rd), (rd_class rd), (rd_secret rd), hs, (rd_name rd), (rd_dn rd); reflexivity.
Qed.

(* a requester that can read both validity attributes is gated by the pinned code too *)
Lemma radius_prefix_gated_when_readable : forall rd hs w ct,
  rd_vf rd = true -> rd_ex rd = true ->
  outsideb ct w = true -> is_grant (radius_gen false rd hs w ct) = false.
Proof.
  intros rd hs w ct Hv He H. rewrite radius_prefix_char, (reduce_full rd w Hv He), (outside_not_lt ct w H).
  repeat rewrite andb_false_r. reflexivity.
Qed.

(* ------------------------------------------------------------------ every front end *)
Lemma partial : forall fx p w ct,
  outsideb ct w = true -> known_gen fx p w ct = false -> is_grant (run_gen fx p w ct) = false.
Proof.
  intros fx p w ct Ho Hk. pose proof (outside_not_le ct w Ho) as Hle.
  unfold known_gen in Hk. apply orb_false_iff in Hk as [Hr Hc].
  destruct p; cbn [run_gen];
    try (apply gate_closed; [exact Hle | discriminate]).
  - (* PLogin *) cbn [continuation_class] in Hc. rewrite Ho, andb_true_r in Hc.
    apply gate_closed; [exact Hc | discriminate].
  - (* POExchange *) cbn [continuation_class] in Hc. rewrite Ho, andb_true_r in Hc.
    apply gate_closed; [exact Hc | discriminate].
  - (* PRadius *) destruct fx.
    + apply radius_fixed_gated. exact Ho.
    + cbn [negb andb radius_class] in Hr. rewrite Ho in Hr. cbn [andb] in Hr.
      rewrite radius_prefix_char, Hr. repeat rewrite andb_false_r. reflexivity.
  - (* PUnixTok *) destruct vis; [|reflexivity]. apply gate_closed; [exact Hle | discriminate].
Qed.

(* front ends that are ONE call *)
Definition single_call (p : path) : bool :=
  match p with PLogin _ _ _ | POExchange _ _ | PRadius _ _ _ => false | _ => true end.

Lemma single_call_gated : forall fx p w ct,
  single_call p = true -> outsideb ct w = true -> is_grant (run_gen fx p w ct) = false.
Proof.
  intros fx p w ct Hs Ho. apply partial; [exact Ho|].
  unfold known_gen. destruct p; try discriminate Hs; cbn [radius_class continuation_class]; rewrite andb_false_r; reflexivity.
Qed.

(* a login / code exchange whose first step happens at the same instant is gated as well *)
Lemma same_instant_gated : forall fx w ct hc pw s,
  outsideb ct w = true ->
  is_grant (run_gen fx (PLogin ct hc pw) w ct) = false /\ is_grant (run_gen fx (POExchange ct s) w ct) = false.
Proof.
  intros fx w ct hc pw s Ho. pose proof (outside_not_le ct w Ho) as Hle.
  split; cbn [run_gen]; (apply gate_closed; [exact Hle | discriminate]).
Qed.

(* continuations: a granted one was STARTED inside the window, and a code lives < 60 s *)
Lemma code_live_bound : forall t ct, code_live t ct = true -> ct < t + 60 * G.
Proof.
  intros t ct H. unfold code_live in H. apply N.ltb_lt in H.
  assert (HG : G <> 0) by (unfold G; discriminate).
  pose proof (N.mul_div_le t G HG) as Ht.
  assert (Hc : ct < G * (ct / G + 1)).
  { pose proof (N.mul_succ_div_gt ct G HG) as X. rewrite <- N.add_1_r in X. exact X. }
  assert (ct / G + 1 <= t / G + 60) by lia.
  assert (G * (ct / G + 1) <= G * (t / G + 60)) by (apply N.mul_le_mono_l; assumption).
  lia.
Qed.

Lemma continuation_started_inside : forall fx w ct,
  (forall t hc pw, is_grant (run_gen fx (PLogin t hc pw) w ct) = true ->
     within_le t w = true /\ hc = true /\ pw = true) /\
  (forall t s, is_grant (run_gen fx (POExchange t s) w ct) = true ->
     within_le t w = true /\ s = true /\ ct < t + 60 * G).
Proof.
  intros fx w ct. split.
  - intros t hc pw H. cbn [run_gen] in H. rewrite gate_then_grant in H by discriminate.
    apply andb_true_iff in H as [H1 H2]. apply andb_true_iff in H2 as [H2 H3]. auto.
  - intros t s H. cbn [run_gen] in H. rewrite gate_then_grant in H by discriminate.
    apply andb_true_iff in H as [H1 H2]. apply andb_true_iff in H2 as [H2 H3].
    repeat split; try assumption. apply code_live_bound. exact H3.
Qed.

(* the known classes contain only instants outside the window *)
Lemma known_only_outside : forall fx p w ct, known_gen fx p w ct = true -> outsideb ct w = true.
Proof.
  intros fx p w ct H. unfold known_gen in H. apply orb_true_iff in H as [H|H].
  - apply andb_true_iff in H as [_ H]. destruct p; try discriminate H. cbn [radius_class] in H.
    apply andb_true_iff in H as [H _]. exact H.
  - destruct p; try discriminate H; cbn [continuation_class] in H; apply andb_true_iff in H as [_ H]; exact H.
Qed.

(* ------------------------------------------------------------------ bridge *)
Lemma outcome_eqb_eq : forall a b, outcome_eqb a b = true -> a = b.
Proof. intros [] [] H; try reflexivity; discriminate H. Qed.

Lemma agree_pcheck_gen : forall fx c,
  agree_gen fx c = true ->
  (match c with CQ p w ct _ => known_gen fx p w ct end) = false -> pcheck c = true.
Proof.
  intros fx [p w ct o] Ha Hk. unfold agree_gen in Ha. apply andb_true_iff in Ha as [Ha _].
  apply outcome_eqb_eq in Ha. subst o. unfold pcheck.
  destruct (outsideb ct w) eqn:Ho; [|reflexivity].
  rewrite (partial fx p w ct Ho Hk). reflexivity.
Qed.
