(* KV.C49.Model — the validity-window gate of every authentication / credential-release
   front end of kanidm, transcribed from the code.  Executable definitions only.

   Two gate functions exist in the tree:
     Account::check_within_valid_time            (idm/account.rs:529)   vf <= ct && ct <= ex
     RadiusAccount::is_within_valid_time         (idm/radius.rs:66)     vf <  ct && ct <  ex
   and every front end is a short function of (what it reads, when it reads it):

     PLogin        IdmServerAuthTransaction::auth  Init -> AuthSession::new (authsession/mod.rs:1139)
                   gate at the time of Init ONLY; Begin / Cred steps do not look at the window
     PUnixAuth     auth_unix  -> auth_with_unix_pass (idm/server.rs:1466)
     PLdapBind     auth_ldap  -> auth_with_unix_pass
     PLdapAnon     auth_ldap (anonymous)              (idm/server.rs:1593)
     PLdapApp      application_auth_ldap              (idm/application.rs:159)
     PLdapSess     validate_ldap_session (UnixBind) -> process_ldap_uuid_to_identity (server.rs:1027)
     PLdapTokUat   token_auth_ldap (no gate) then validate_ldap_session (UserAuthToken)
     PLdapTokApi   token_auth_ldap (no gate) then validate_ldap_session (ApiToken)
     PTokUat       validate_client_auth_info_to_ident -> process_uat_to_identity ->
                   Account::check_user_auth_token_valid (account.rs:770)
     PTokApi       ... -> process_apit_to_identity -> ServiceAccount::check_api_token_valid
     POAuthorise   bearer token -> identity (gate above) -> check_oauth2_authorisation
     POExchange    check_oauth2_token_exchange_authorization_code (oauth2.rs:1483): NO window
                   gate; the code was minted by an authorisation at t_auth (gated) and lives 60 s
     PORefresh     check_oauth2_token_refresh -> check_oauth2_account_uuid_valid (server.rs:643)
     POIntrospect  oauth2_token_introspect_jwt  -> check_oauth2_account_uuid_valid
     POUserinfo    oauth2_openid_userinfo       -> check_oauth2_account_uuid_valid
     PRadius       get_radiusauthtoken (server.rs:1725): impersonate_search_ext_uuid gives the
                   ACCESS-REDUCED entry; RadiusAccount::try_from_entry_reduced reads secret, name,
                   displayname AND valid_from / expire from it; since fix ed71ad3 the window of
                   the unreduced entry (internal_search_uuid) is checked first with the inclusive
                   gate; to_radiusauthtoken then gates the reduced values with `<`
     PUnixTok      get_unixusertoken: impersonate_search_uuid (full entry), token.valid = gate

   Times are nanoseconds relative to the harness' BASE instant. *)
From Coq Require Import List NArith Bool.
Import ListNotations.
Open Scope N_scope.

(* true  = /repo HEAD (fix ed71ad3, fixes/C49.patch): get_radiusauthtoken also checks the window of
           the UNREDUCED entry with Account::check_within_valid_time;
   false = the tree before the fix: the RADIUS path takes the window from the reduced entry only
           (kept as `run_gen false`; theorems named C49_prefix_...) *)
Definition tree_fixed : bool := true.

Definition otime := option N.
Record win := mkwin { w_vf : otime; w_ex : otime }.

(* Account::check_within_valid_time *)
Definition within_le (ct : N) (w : win) : bool :=
  (match w_vf w with Some v => v <=? ct | None => true end) &&
  (match w_ex w with Some e => ct <=? e | None => true end).

(* RadiusAccount::is_within_valid_time *)
Definition within_lt (ct : N) (w : win) : bool :=
  (match w_vf w with Some v => v <? ct | None => true end) &&
  (match w_ex w with Some e => ct <? e | None => true end).

(* ------------------------------------------------------------------ the property's own words:
   "valid-from time has not arrived or expiry has passed" *)
Definition outsideb (ct : N) (w : win) : bool :=
  (match w_vf w with Some v => ct <? v | None => false end) ||
  (match w_ex w with Some e => e <? ct | None => false end).

(* ------------------------------------------------------------------ access-reduced entry.
   Which attributes of the target survive `impersonate_search_ext_uuid` for the requester:
   rd_vis = the entry is returned at all. *)
Record readable := mkrd {
  rd_vis : bool; rd_class : bool; rd_secret : bool; rd_name : bool; rd_dn : bool;
  rd_vf : bool; rd_ex : bool }.

(* the validity attributes as the reduced entry shows them *)
Definition reduce (rd : readable) (w : win) : win :=
  mkwin (if rd_vf rd then w_vf w else None) (if rd_ex rd then w_ex w else None).

(* requesters of the RADIUS token used by the harness, and what the SHIPPED access profiles
   (migration_data/dl_1_12/access.rs) + two harness-made profiles allow them to read of a person:
     KSelf       idm_acp_self_read (all accounts, target = self)
     KRadSrv     service account in idm_radius_servers: IDM_ACP_RADIUS_SERVERS_V1
                 = class name uuid displayname memberof spn radius_secret   (NO validity attributes)
     KRadSrvEx   idm_radius_servers + a harness profile granting account_expire only
     KRadSrvVf   idm_radius_servers + a harness profile granting account_valid_from only
     KRadSrvPpl  idm_radius_servers + idm_people_admins (IDM_ACP_PEOPLE_READ_V1: both attributes)
     KOther      a plain person looking at another person (no shipped profile shows it the entry)
     KRadAdmin   member of idm_radius_admins (IDM_ACP_RADIUS_SECRET_MANAGE_V1: radius_secret only) *)
Inductive reqkind := KSelf | KRadSrv | KRadSrvEx | KRadSrvVf | KRadSrvPpl | KOther | KRadAdmin.

Definition allowed (k : reqkind) : readable :=
  match k with
  | KSelf      => mkrd true true true true true true true
  | KRadSrv    => mkrd true true true true true false false
  | KRadSrvEx  => mkrd true true true true true false true
  | KRadSrvVf  => mkrd true true true true true true false
  | KRadSrvPpl => mkrd true true true true true true true
  | KOther     => mkrd false false false false false false false
  | KRadAdmin  => mkrd false false false false false false false
  end.

(* ------------------------------------------------------------------ front ends *)
Inductive path :=
| PLogin (t_init : N) (has_cred pw_ok : bool)
| PUnixAuth (pw_ok : bool)
| PLdapBind (pw_ok : bool)
| PLdapAnon
| PLdapApp (pw_ok : bool)
| PLdapSess
| PLdapTokUat (sess_ok : bool)
| PLdapTokApi (sess_ok : bool)
| PTokUat (sess_ok : bool)
| PTokApi (sess_ok : bool)
| POAuthorise (sess_ok : bool)
| POExchange (t_auth : N) (sess_ok : bool)
| PORefresh (sess_ok : bool)
| POIntrospect (sess_ok : bool)
| POUserinfo (sess_ok : bool)
| PRadius (k : reqkind) (rd : readable) (has_secret : bool)
| PUnixTok (vis : bool).

(* OGrant: authenticated / credential released.  ORefuseWindow: the refusal the code gives
   explicitly for the window where the caller can tell it apart (Denied "account expired",
   SessionExpired, InvalidAccountState, valid = false).  ORefuse: any other refusal. *)
Inductive outcome := OGrant | ORefuseWindow | ORefuse.

Definition G : N := 1000000000.
(* authorisation codes carry expiry = secs(t_auth) + 60 and are refused when expiry <= secs(ct) *)
Definition code_live (t_auth ct : N) : bool := ct / G <? t_auth / G + 60.

Definition gate_then (g ok : bool) (o_window : outcome) : outcome :=
  if g then (if ok then OGrant else ORefuse) else o_window.

(* get_radiusauthtoken + RadiusAccount::try_from_entry_reduced + to_radiusauthtoken *)
Definition radius_gen (fx : bool) (rd : readable) (has_secret : bool) (w : win) (ct : N) : outcome :=
  if negb (rd_vis rd) then ORefuse                       (* NoMatchingEntries *)
  else if negb (rd_class rd) then ORefuse                (* MissingClass *)
  else if negb (rd_secret rd && has_secret) then ORefuse (* MissingAttribute radius_secret *)
  else if negb (rd_name rd) then ORefuse
  else if negb (rd_dn rd) then ORefuse
  else if fx && negb (within_le ct w) then ORefuseWindow (* fixes/C49.patch: unreduced entry *)
  else if within_lt ct (reduce rd w) then OGrant else ORefuseWindow.

Definition run_gen (fx : bool) (p : path) (w : win) (ct : N) : outcome :=
  match p with
  | PLogin t_init has_cred pw_ok => gate_then (within_le t_init w) (has_cred && pw_ok) ORefuseWindow
  | PUnixAuth pw_ok => gate_then (within_le ct w) pw_ok ORefuse
  | PLdapBind pw_ok => gate_then (within_le ct w) pw_ok ORefuse
  | PLdapAnon => gate_then (within_le ct w) true ORefuse
  | PLdapApp pw_ok => gate_then (within_le ct w) pw_ok ORefuseWindow
  | PLdapSess => gate_then (within_le ct w) true ORefuseWindow
  | PLdapTokUat s | PLdapTokApi s | PTokUat s | PTokApi s | POAuthorise s
  | PORefresh s | POIntrospect s | POUserinfo s => gate_then (within_le ct w) s ORefuse
  | POExchange t_auth s => gate_then (within_le t_auth w) (s && code_live t_auth ct) ORefuse
  | PRadius _ rd hs => radius_gen fx rd hs w ct
  | PUnixTok vis => if vis then gate_then (within_le ct w) true ORefuseWindow else ORefuse
  end.

Definition run : path -> win -> N -> outcome := run_gen tree_fixed.

Definition is_grant (o : outcome) : bool := match o with OGrant => true | _ => false end.

(* ------------------------------------------------------------------ known-finding classes *)
(* radius-reduced-validity (tree before fix ed71ad3 only): every bound the instant violates is
   hidden from the requester *)
Definition radius_class (p : path) (w : win) (ct : N) : bool :=
  match p with
  | PRadius _ rd _ => outsideb ct w && within_lt ct (reduce rd w)
  | _ => false
  end.
(* continuation: a multi-step flow that STARTED inside the window is completed outside it
   (login: Init at t_init, credential step at ct; OAuth2: authorisation at t_auth, code exchange at ct) *)
Definition continuation_class (p : path) (w : win) (ct : N) : bool :=
  match p with
  | PLogin t _ _ | POExchange t _ => within_le t w && outsideb ct w
  | _ => false
  end.
Definition known_gen (fx : bool) (p : path) (w : win) (ct : N) : bool :=
  (negb fx && radius_class p w ct) || continuation_class p w ct.

(* ------------------------------------------------------------------ cases *)
Inductive case := CQ (p : path) (w : win) (ct : N) (o : outcome).

Definition outcome_eqb (a b : outcome) : bool :=
  match a, b with
  | OGrant, OGrant | ORefuseWindow, ORefuseWindow | ORefuse, ORefuse => true
  | _, _ => false
  end.

Definition readable_eqb (a b : readable) : bool :=
  Bool.eqb (rd_vis a) (rd_vis b) && Bool.eqb (rd_class a) (rd_class b) &&
  Bool.eqb (rd_secret a) (rd_secret b) && Bool.eqb (rd_name a) (rd_name b) &&
  Bool.eqb (rd_dn a) (rd_dn b) && Bool.eqb (rd_vf a) (rd_vf b) && Bool.eqb (rd_ex a) (rd_ex b).

Definition is_some {A} (o : option A) : bool := match o with Some _ => true | None => false end.

(* the reduced entry the real server produced for this requester is the one the shipped profiles
   promise: allowed attribute AND attribute present on the entry *)
Definition table_ok (p : path) (w : win) : bool :=
  match p with
  | PRadius k rd hs =>
      let a := allowed k in
      readable_eqb rd (mkrd (rd_vis a) (rd_class a) (rd_secret a && hs) (rd_name a) (rd_dn a)
                            (rd_vf a && is_some (w_vf w)) (rd_ex a && is_some (w_ex w)))
  | _ => true
  end.

Definition agree_gen (fx : bool) (c : case) : bool :=
  match c with CQ p w ct o => outcome_eqb (run_gen fx p w ct) o && table_ok p w end.
Definition agree : case -> bool := agree_gen tree_fixed.

(* the property, on the implementation's answer only: outside the window nothing is granted *)
Definition pcheck (c : case) : bool :=
  match c with CQ _ w ct o => if outsideb ct w then negb (is_grant o) else true end.

Definition known (c : case) : bool :=
  match c with CQ p w ct _ => known_gen tree_fixed p w ct end.
