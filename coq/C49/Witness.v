From Coq Require Import List NArith Bool.
Import ListNotations.
Require Import KV.C49.Model KV.C49.Proofs.
Open Scope N_scope.

(* hypotheses of C49_gates_refuse_outside / C49_partial / C49_single_call_front_ends are met by
   non-trivial values: a two-sided window, an instant after the expiry, a front end with every
   other input right — and the same front end IS granted inside the window (the refusal is not
   an artefact of a totalised definition) *)
Example C49_witness_outside :
  let w := mkwin (Some 100) (Some 200) in
  outsideb 201 w = true /\ outsideb 99 w = true /\ outsideb 100 w = false /\ outsideb 200 w = false /\
  single_call (PTokUat true) = true /\ known_gen false (PTokUat true) w 201 = false /\
  run_gen false (PTokUat true) w 201 = ORefuse /\ run_gen false (PTokUat true) w 150 = OGrant /\
  run_gen false (PUnixAuth true) w 99 = ORefuse /\ run_gen false (PUnixAuth true) w 100 = OGrant /\
  run_gen false (PLdapApp true) w 201 = ORefuseWindow /\ run_gen false (PLdapApp true) w 200 = OGrant.
Proof. vm_compute. repeat split; reflexivity. Qed.

(* empty window (valid_from after expire): nothing is ever inside *)
Example C49_witness_empty_window :
  let w := mkwin (Some 200) (Some 100) in
  outsideb 150 w = true /\ within_le 150 w = false /\ run_gen false (PORefresh true) w 150 = ORefuse.
Proof. vm_compute. repeat split; reflexivity. Qed.

(* C49_radius_prefix_gated_when_readable / C49_radius_fixed_full: the account asking for its own
   token is refused on both trees, and served inside the window *)
Example C49_witness_radius_self :
  let w := mkwin None (Some 100) in
  rd_vf (allowed KSelf) = true /\ rd_ex (allowed KSelf) = true /\ outsideb 101 w = true /\
  run_gen false (PRadius KSelf (allowed KSelf) true) w 101 = ORefuseWindow /\
  run_gen true (PRadius KSelf (allowed KSelf) true) w 101 = ORefuseWindow /\
  run_gen false (PRadius KSelf (allowed KSelf) true) w 99 = OGrant /\
  run_gen true (PRadius KSelf (allowed KSelf) true) w 99 = OGrant.
Proof. vm_compute. repeat split; reflexivity. Qed.

(* refuted: the RADIUS servers group on the pinned tree; repaired by the patch *)
Example C49_witness_radius_refuted :
  let w := mkwin None (Some 100) in
  outsideb 86400000000100 w = true /\
  radius_class (PRadius KRadSrv (allowed KRadSrv) true) w 86400000000100 = true /\
  run_gen false (PRadius KRadSrv (allowed KRadSrv) true) w 86400000000100 = OGrant /\
  run_gen true (PRadius KRadSrv (allowed KRadSrv) true) w 86400000000100 = ORefuseWindow /\
  run_gen true (PRadius KRadSrv (allowed KRadSrv) true) w 50 = OGrant.
Proof. vm_compute. repeat split; reflexivity. Qed.

(* one-sided hiding: expire readable, valid_from hidden -> not-yet-valid accounts are served *)
Example C49_witness_radius_half_readable :
  let w := mkwin (Some 100) (Some 200) in
  run_gen false (PRadius KRadSrvEx (allowed KRadSrvEx) true) w 50 = OGrant /\
  run_gen false (PRadius KRadSrvEx (allowed KRadSrvEx) true) w 250 = ORefuseWindow.
Proof. vm_compute. repeat split; reflexivity. Qed.

(* C49_continuation_partial: a granted continuation exists (premise is satisfiable), started inside *)
Example C49_witness_continuation :
  let w := mkwin None (Some (10 * G)) in
  run_gen true (PLogin (9 * G) true true) w (11 * G) = OGrant /\ within_le (9 * G) w = true /\
  continuation_class (PLogin (9 * G) true true) w (11 * G) = true /\
  run_gen true (POExchange (9 * G) true) w (68 * G + 999999999) = OGrant /\
  run_gen true (POExchange (9 * G) true) w (69 * G) = ORefuse /\
  run_gen true (POExchange (11 * G) true) w (12 * G) = ORefuse.
Proof. vm_compute. repeat split; reflexivity. Qed.

(* C49_agree_implies_property: a case that agrees, lies outside the classes, is outside the window *)
Example C49_witness_bridge :
  let c := CQ (PLdapSess) (mkwin (Some 100) None) 99 ORefuseWindow in
  agree c = true /\ known c = false /\ pcheck c = true.
Proof. vm_compute. repeat split; reflexivity. Qed.
