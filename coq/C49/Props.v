(* KV.C49.Props — property theorems only. *)
From Coq Require Import List NArith Bool.
Import ListNotations.
Require Import KV.C49.Model KV.C49.Proofs.
Open Scope N_scope.

(* Both gate functions of the tree (the inclusive one of Account, the exclusive one of
   RadiusAccount) refuse every instant at which the valid-from time has not arrived or the
   expiry has passed — for every window, incl. one-sided, empty and single-instant windows. *)
Theorem C49_gates_refuse_outside : forall ct w,
  ((exists v, w_vf w = Some v /\ ct < v) \/ (exists e, w_ex w = Some e /\ e < ct)) ->
  within_le ct w = false /\ within_lt ct w = false.
Proof.
  intros ct w H. apply outside_spec in H. split; [apply outside_not_le | apply outside_not_lt]; exact H.
Qed.

(* The gates say exactly what their names say; they differ only AT a bound. *)
Theorem C49_gate_le_spec : forall ct w,
  within_le ct w = true <->
  (forall v, w_vf w = Some v -> v <= ct) /\ (forall e, w_ex w = Some e -> ct <= e).
Proof. exact within_le_spec. Qed.
Theorem C49_gate_lt_spec : forall ct w,
  within_lt ct w = true <->
  (forall v, w_vf w = Some v -> v < ct) /\ (forall e, w_ex w = Some e -> ct < e).
Proof. exact within_lt_spec. Qed.
Theorem C49_boundary_instants : forall ct,
  within_le ct (mkwin (Some ct) (Some ct)) = true /\ within_lt ct (mkwin (Some ct) (Some ct)) = false /\
  outsideb ct (mkwin (Some ct) (Some ct)) = false.
Proof. exact boundary_instants. Qed.

(* THE PROPERTY, at full strength: whatever the front end, whatever the requester and whatever
   its reduced view of the account, whatever the other inputs (right password, live session ...),
   nothing is granted at an instant outside the account's window. *)
Definition C49_full_statement : Prop :=
  forall p w ct, outsideb ct w = true -> is_grant (run p w ct) = false.

(* It does NOT hold of the code (pinned tree and repaired tree alike): a login whose Init step
   fell inside the window is completed after the expiry. *)
Theorem C49_refuted : ~ C49_full_statement.
Proof.
  intros H. specialize (H (PLogin 5 true true) (mkwin None (Some 10)) 20 eq_refl).
  vm_compute in H. discriminate H.
Qed.

(* On the pinned tree it also fails for the single-call RADIUS release: a member of
   idm_radius_servers, with exactly the attributes the SHIPPED profile lets it read, receives the
   secret of an account that expired (or is not yet valid). *)
Theorem C49_prefix_radius_refuted :
  exists w ct, outsideb ct w = true /\
    is_grant (run_gen false (PRadius KRadSrv (allowed KRadSrv) true) w ct) = true.
Proof. exists (mkwin (Some 50) (Some 100)), 200. vm_compute. split; reflexivity. Qed.

(* The pinned RADIUS path releases the secret exactly when the ACCESS-REDUCED entry passes the
   (exclusive) gate: validity attributes the requester may not read do not count. *)
Theorem C49_radius_reads_reduced_entry : forall rd hs w ct,
  is_grant (radius_gen false rd hs w ct) =
  rd_vis rd && rd_class rd && (rd_secret rd && hs) && rd_name rd && rd_dn rd && within_lt ct (reduce rd w).
Proof. exact radius_prefix_char. Qed.

(* ... so a requester that can read both attributes (the account itself, people admins) is refused *)
Theorem C49_radius_prefix_gated_when_readable : forall rd hs w ct,
  rd_vf rd = true -> rd_ex rd = true ->
  outsideb ct w = true -> is_grant (radius_gen false rd hs w ct) = false.
Proof. exact radius_prefix_gated_when_readable. Qed.

(* With fixes/C49.patch the RADIUS release is gated for EVERY reduced view, i.e. for every set of
   access profiles and every requester. *)
Theorem C49_radius_fixed_full : forall k rd hs w ct,
  outsideb ct w = true -> is_grant (run_gen true (PRadius k rd hs) w ct) = false.
Proof. intros k rd hs w ct H. exact (radius_fixed_gated rd hs w ct H). Qed.

(* Everything outside the two recorded classes is gated (both trees):
   radius-reduced-validity = RADIUS release where every violated bound is hidden from the requester
                             (pinned tree only),
   continuation            = login / OAuth2 code exchange whose FIRST step was inside the window. *)
Theorem C49_partial : forall p w ct,
  outsideb ct w = true -> known_gen tree_fixed p w ct = false -> is_grant (run p w ct) = false.
Proof. intros p w ct. exact (partial tree_fixed p w ct). Qed.

Theorem C49_partial_fixed_tree : forall p w ct,
  outsideb ct w = true -> continuation_class p w ct = false -> is_grant (run_gen true p w ct) = false.
Proof. intros p w ct Ho Hc. apply partial; [exact Ho|]. unfold known_gen. rewrite Hc. reflexivity. Qed.

(* Every single-call front end — POSIX password check, LDAP password / anonymous / application
   bind, LDAP session revalidation, LDAP token binds, user auth token, API token, OAuth2
   authorisation, refresh, introspection, userinfo, POSIX token validity flag — refuses outside the
   window whatever the other inputs are. *)
Theorem C49_single_call_front_ends : forall fx p w ct,
  single_call p = true -> outsideb ct w = true -> is_grant (run_gen fx p w ct) = false.
Proof. exact single_call_gated. Qed.

(* Login and code exchange done in one instant are gated too. *)
Theorem C49_same_instant : forall fx w ct hc pw s,
  outsideb ct w = true ->
  is_grant (run_gen fx (PLogin ct hc pw) w ct) = false /\ is_grant (run_gen fx (POExchange ct s) w ct) = false.
Proof. exact same_instant_gated. Qed.

(* PARTIAL (missing: refusal at COMPLETION time): a login or code exchange that is granted was
   started at an instant inside the window with every other factor right, and an authorisation code
   is honoured for less than 60 s; what it hands out is refused on use by C49_single_call_front_ends. *)
Theorem C49_continuation_partial : forall fx w ct,
  (forall t hc pw, is_grant (run_gen fx (PLogin t hc pw) w ct) = true ->
     within_le t w = true /\ hc = true /\ pw = true) /\
  (forall t s, is_grant (run_gen fx (POExchange t s) w ct) = true ->
     within_le t w = true /\ s = true /\ ct < t + 60 * G).
Proof. exact continuation_started_inside. Qed.

(* the recorded classes never cover an instant inside the window *)
Theorem C49_known_only_outside : forall fx p w ct, known_gen fx p w ct = true -> outsideb ct w = true.
Proof. exact known_only_outside. Qed.

(* Soundness of the run-time tie: where the implementation's answer agrees with the model and the
   case is outside the recorded classes, the property's predicate holds of the answer. *)
Theorem C49_agree_implies_property : forall c : case,
  agree c = true -> known c = false -> pcheck c = true.
Proof. intros c Ha Hk. apply (agree_pcheck_gen tree_fixed c Ha). destruct c. exact Hk. Qed.
