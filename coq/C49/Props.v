(* KV.C49.Props — property theorems only. *)
From Coq Require Import List NArith Bool.
Import ListNotations.
Require Import KV.C49.Model KV.C49.Proofs.
Open Scope N_scope.

(* Both gate functions of the tree (the inclusive one of Account, the exclusive one of
   RadiusAccount) refuse every instant at which the valid-from time has not arrived or the
   expiry has passed — for every window, incl. one-sided, empty and single-instant windows. *)
Theorem C49_gates_refuse_outside : forall ct w,
  ((exists v, w_vf w = Some v /\ ct < v) \/ (exists e, w_ex w = Some e /\ e < ct)) ->
  within_le ct w = false /\ within_lt ct w = false.
Proof.
  intros ct w H. apply outside_spec in H. split; [apply outside_not_le | apply outside_not_lt]; exact H.
Qed.

(* The gates say exactly what their names say; they differ only AT a bound. *)
Theorem C49_gate_le_spec : forall ct w,
  within_le ct w = true <->
  (forall v, w_vf w = Some v -> v <= ct) /\ (forall e, w_ex w = Some e -> ct <= e).
Proof. exact within_le_spec. Qed.
Theorem C49_gate_lt_spec : forall ct w,
  within_lt ct w = true <->
  (forall v, w_vf w = Some v -> v < ct) /\ (forall e, w_ex w = Some e -> ct < e).
Proof. exact within_lt_spec. Qed.
Theorem C49_boundary_instants : forall ct,
  within_le ct (mkwin (Some ct) (Some ct)) = true /\ within_lt ct (mkwin (Some ct) (Some ct)) = false /\
  outsideb ct (mkwin (Some ct) (Some ct)) = false.
Proof. exact boundary_instants. Qed.

(* THE PROPERTY, at full strength: whatever the front end, whatever the requester and whatever
   its reduced view of the account, whatever the other inputs (right password, live session ...),
   nothing is granted at an instant outside the account's window. *)
Definition C49_full_statement : Prop :=
  forall p w ct, outsideb ct w = true -> is_grant (run p w ct) = false.

(* It does NOT hold of the code (before and after the RADIUS fix alike): a login whose Init step
   fell inside the window is completed after the expiry (KNOWN finding class=continuation). *)
Theorem C49_refuted : ~ C49_full_statement.
Proof.
  intros H. specialize (H (PLogin 5 true true) (mkwin None (Some 10)) 20 eq_refl).
  vm_compute in H. discriminate H.
Qed.

(* RADIUS secret release (HEAD, fix ed71ad3): gated for EVERY requester and EVERY reduced view of
   the account, i.e. for every set of access profiles — whatever the requester may or may not
   read, an account outside its window does not get its secret released. *)
Theorem C49_radius_full : forall k rd hs w ct,
  outsideb ct w = true -> is_grant (run (PRadius k rd hs) w ct) = false.
Proof. intros k rd hs w ct H. exact (radius_fixed_gated rd hs w ct H). Qed.

(* ... and it is still served inside the window: granted exactly when the requester can read
   class, secret, name and displayname, the unreduced window holds (inclusive) and the reduced
   one holds (exclusive) *)
Theorem C49_radius_granted_iff : forall k rd hs w ct,
  is_grant (run (PRadius k rd hs) w ct) =
  rd_vis rd && rd_class rd && (rd_secret rd && hs) && rd_name rd && rd_dn rd &&
  within_le ct w && within_lt ct (reduce rd w).
Proof.
  intros k rd hs w ct. unfold run, tree_fixed. cbn [run_gen]. unfold radius_gen. cbn [andb].
  destruct (rd_vis rd), (rd_class rd), (rd_secret rd), hs, (rd_name rd), (rd_dn rd); cbn [negb andb]; try reflexivity;
    destruct (within_le ct w); cbn [negb andb]; try reflexivity; destruct (within_lt ct (reduce rd w)); reflexivity.
Qed.

(* BEFORE the fix the full RADIUS statement failed: a member of idm_radius_servers, with exactly
   the attributes the SHIPPED profile lets it read, received the secret of an account that had
   expired (or was not yet valid). *)
Theorem C49_prefix_radius_refuted :
  exists w ct, outsideb ct w = true /\
    is_grant (run_gen false (PRadius KRadSrv (allowed KRadSrv) true) w ct) = true.
Proof. exists (mkwin (Some 50) (Some 100)), 200. vm_compute. split; reflexivity. Qed.

(* The pre-fix RADIUS path released the secret exactly when the ACCESS-REDUCED entry passed the
   (exclusive) gate: validity attributes the requester may not read did not count. *)
Theorem C49_prefix_radius_reads_reduced_entry : forall rd hs w ct,
  is_grant (radius_gen false rd hs w ct) =
  rd_vis rd && rd_class rd && (rd_secret rd && hs) && rd_name rd && rd_dn rd && within_lt ct (reduce rd w).
Proof. exact radius_prefix_char. Qed.

(* ... so only requesters that can read both attributes (the account itself, people admins) were refused *)
Theorem C49_prefix_radius_gated_when_readable : forall rd hs w ct,
  rd_vf rd = true -> rd_ex rd = true ->
  outsideb ct w = true -> is_grant (radius_gen false rd hs w ct) = false.
Proof. exact radius_prefix_gated_when_readable. Qed.

(* PARTIAL (HEAD): everything outside the one recorded class is gated — for every front end,
   window, instant, requester, reduced view and other input:
   continuation = login / OAuth2 code exchange whose FIRST step was inside the window.
   Missing for the full statement: refusal at the COMPLETION step of these two flows. *)
Theorem C49_partial : forall p w ct,
  outsideb ct w = true -> continuation_class p w ct = false -> is_grant (run p w ct) = false.
Proof. intros p w ct Ho Hc. apply (partial true); [exact Ho|]. unfold known_gen. rewrite Hc. reflexivity. Qed.

(* the tree before the fix had the second class radius-reduced-validity (every violated bound
   hidden from the requester) *)
Theorem C49_prefix_partial : forall p w ct,
  outsideb ct w = true -> known_gen false p w ct = false -> is_grant (run_gen false p w ct) = false.
Proof. intros p w ct. exact (partial false p w ct). Qed.

(* Every single-call front end — POSIX password check, LDAP password / anonymous / application
   bind, LDAP session revalidation, LDAP token binds, user auth token, API token, OAuth2
   authorisation, refresh, introspection, userinfo, POSIX token validity flag — refuses outside the
   window whatever the other inputs are. *)
Theorem C49_single_call_front_ends : forall fx p w ct,
  single_call p = true -> outsideb ct w = true -> is_grant (run_gen fx p w ct) = false.
Proof. exact single_call_gated. Qed.

(* Login and code exchange done in one instant are gated too. *)
Theorem C49_same_instant : forall fx w ct hc pw s,
  outsideb ct w = true ->
  is_grant (run_gen fx (PLogin ct hc pw) w ct) = false /\ is_grant (run_gen fx (POExchange ct s) w ct) = false.
Proof. exact same_instant_gated. Qed.

(* PARTIAL (missing: refusal at COMPLETION time): a login or code exchange that is granted was
   started at an instant inside the window with every other factor right, and an authorisation code
   is honoured for less than 60 s; what it hands out is refused on use by C49_single_call_front_ends. *)
Theorem C49_continuation_partial : forall fx w ct,
  (forall t hc pw, is_grant (run_gen fx (PLogin t hc pw) w ct) = true ->
     within_le t w = true /\ hc = true /\ pw = true) /\
  (forall t s, is_grant (run_gen fx (POExchange t s) w ct) = true ->
     within_le t w = true /\ s = true /\ ct < t + 60 * G).
Proof. exact continuation_started_inside. Qed.

(* the recorded classes never cover an instant inside the window *)
Theorem C49_known_only_outside : forall fx p w ct, known_gen fx p w ct = true -> outsideb ct w = true.
Proof. exact known_only_outside. Qed.

(* Soundness of the run-time tie: where the implementation's answer agrees with the model and the
   case is outside the recorded classes, the property's predicate holds of the answer. *)
Theorem C49_agree_implies_property : forall c : case,
  agree c = true -> known c = false -> pcheck c = true.
Proof. intros c Ha Hk. apply (agree_pcheck_gen tree_fixed c Ha). destruct c. exact Hk. Qed.
