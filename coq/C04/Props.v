(* KV.C04.Props — property theorems only.
   The tree at HEAD contains the fix 953436b (every in-memory publication after the database
   commit): `steps_tree = steps_fixed`. The pre-fix order is kept as `steps_head` and the
   `C04_prefix_*` theorems document the defect that was found and repaired. *)
From Coq Require Import List NArith Bool.
Import ListNotations.
Require Import KV.C04.Model KV.C04.Proofs.
Open Scope N_scope.

(* A write transaction that is dropped (at any operation boundary j, whatever it did before)
   leaves every server state exactly as it was. *)
Theorem C04_abandon_noop : forall steps s ops j,
  run_txn steps s ops (TAbandon j) = (s, false).
Proof. exact abandon_noop. Qed.

(* A transaction one of whose operations fails (and is therefore dropped by its caller)
   leaves every server state exactly as it was, whatever fault is armed. *)
Theorem C04_op_failure_noop : forall steps s ops f,
  apply_ops (m_be s) ops = None -> run_txn steps s ops (TCommit f) = (s, false).
Proof. exact op_failure_noop. Qed.

(* FULL STATEMENT, commit order of the tree at HEAD. For every server whose memory reflects its
   database, every list of operations and every outcome (abandon anywhere; commit with a storage
   failure at ANY storage call; commit without failure): what a later read transaction AND a
   reopened server observe is either exactly what they observed before, or the commit reported
   success and they observe exactly the transaction's effect. *)
Definition C04_full_statement : Prop :=
  forall s ops o, coherent s -> atomic_for steps_tree s ops o.
Theorem C04_commit_atomic : C04_full_statement.
Proof. exact fixed_atomic. Qed.

(* ... and memory keeps reflecting the database after every history of transactions with
   arbitrary abandons, faults and restarts, so the hypothesis `coherent` is an invariant. *)
Theorem C04_coherent_over_histories : forall h s, coherent s -> coherent (run_hist steps_tree s h).
Proof. exact fixed_hist_coherent. Qed.

(* The DATABASE is always before-or-after, from ANY server state and over unbounded histories:
   what a reopened server is loaded from equals the effect of exactly those transactions whose
   operations all succeeded and whose commit ran without fault; the backend's view of the
   entries never differs from the database. (SQLite's rollback of a failed/dropped transaction
   is the assumed part.) *)
Theorem C04_database_exact_over_histories : forall h s, be_coherent s ->
  disk (run_hist steps_tree s h) = spec_hist (disk s) h /\ be_coherent (run_hist steps_tree s h).
Proof. exact (hist_disk_gen steps_fixed fixed_none fixed_fault_disk). Qed.

(* Soundness of the run-time tie: whenever the implementation's observations agree with the
   model of the tree, the property's executable predicate holds on them. *)
Theorem C04_agree_implies_property : forall c : case, agree c = true -> pcheck c = true.
Proof. exact agree_pcheck_fixed. Qed.

(* ------------------------------------------------------------------ the pre-fix tree *)
(* Same statement for the commit order before 953436b ... *)
Definition C04_prefix_full_statement : Prop :=
  forall s ops o, coherent s -> atomic_for steps_head s ops o.
(* ... which the faithful model REFUTED (domain display name change, COMMIT fails) and the real
   server confirmed. *)
Theorem C04_prefix_refuted : ~ C04_prefix_full_statement.
Proof.
  intros H.
  specialize (H (of_disk (mkcells [] false 0 [])) [ODomain 5] (TCommit (Some SDbCommit)) (coherent_of_disk _)).
  destruct H as [H|[H _]]; vm_compute in H; discriminate H.
Qed.
(* Outside the decidable class `exposed` (the failing storage call comes after a publication that
   changed a setting) the old order was atomic too ... *)
Theorem C04_prefix_commit_atomic_partial : forall s ops o, coherent s ->
  match o with TCommit f => exposed s ops f = false | TAbandon _ => True end ->
  atomic_for steps_head s ops o.
Proof. exact head_partial. Qed.
(* ... and inside it every case was a violation of this exact shape: commit reports failure, a
   reopened server and the entries readers see are as before, but readers are shown changed
   settings (access controls / domain info / OAuth2 clients) of the failed transaction. *)
Theorem C04_prefix_exposed_is_torn : forall s ops k, coherent s -> exposed s ops (Some k) = true ->
  let r := run_txn steps_head s ops (TCommit (Some k)) in
  snd r = false /\ read_view (fst r) <> read_view s /\
  read_view (reopen (fst r)) = read_view s /\ c_ents (read_view (fst r)) = c_ents (read_view s).
Proof. exact head_exposed_torn. Qed.
(* the database itself was exact under the old order as well *)
Theorem C04_prefix_database_exact_over_histories : forall h s, be_coherent s ->
  disk (run_hist steps_head s h) = spec_hist (disk s) h /\ be_coherent (run_hist steps_head s h).
Proof. exact (hist_disk_gen steps_head head_none head_fault_disk). Qed.
(* the tie for a pre-fix tree needed the class *)
Theorem C04_prefix_agree_implies_property : forall c : case, agree_with steps_head c = true ->
  match c with CTxn before ops None true _ ct 1 _ _ =>
     match classify (last_label ct) with Some k => exposed (of_disk before) ops (Some k) | None => false end
   | _ => false end = false ->
  pcheck c = true.
Proof. exact agree_pcheck_head. Qed.
