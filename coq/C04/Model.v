(* KV.C04.Model — failed or abandoned write transactions (executable definitions only).

   Transcribes the ORDER of in-memory publications and storage calls of
     IdmServerProxyWriteTransaction::commit   (server/lib/src/idm/server.rs:2385)
     QueryServerWriteTransaction::commit      (server/lib/src/server/mod.rs:3005)
     BackendWriteTransaction::commit          (server/lib/src/be/mod.rs:2102)
     IdlArcSqliteWriteTransaction::commit     (server/lib/src/be/idl_arc_sqlite.rs:635)
     IdlSqliteWriteTransaction::commit / Drop (server/lib/src/be/idl_sqlite.rs:722)
   over a two-level store: `disk` (committed SQLite content) and the published in-memory
   cells readers use.  SQLite's own rollback (a failed or dropped transaction leaves the
   file as it was) is ASSUMED: it is the `pending` copy that is thrown away. *)
From Coq Require Import List NArith Bool.
Import ListNotations.
Open Scope N_scope.

(* ------------------------------------------------------------------ logical content *)
(* entries of the test universe: sorted (index, description id); sorted id sets *)
Definition ents := list (N * N).

Fixpoint eset (e d : N) (l : ents) : ents :=
  match l with
  | [] => [(e, d)]
  | (e', d') :: t => if e <? e' then (e, d) :: l
                     else if e =? e' then (e, d) :: t
                     else (e', d') :: eset e d t
  end.
Fixpoint edel (e : N) (l : ents) : ents :=
  match l with
  | [] => []
  | (e', d') :: t => if e =? e' then t else (e', d') :: edel e t
  end.
Fixpoint ehas (e : N) (l : ents) : bool :=
  match l with [] => false | (e', _) :: t => (e =? e') || ehas e t end.
Fixpoint nins (c : N) (l : list N) : list N :=
  match l with
  | [] => [c]
  | c' :: t => if c <? c' then c :: l else if c =? c' then l else c' :: nins c t
  end.
Fixpoint nrem (c : N) (l : list N) : list N :=
  match l with [] => [] | c' :: t => if c =? c' then t else c' :: nrem c t end.
Fixpoint nhas (c : N) (l : list N) : bool :=
  match l with [] => false | c' :: t => (c =? c') || nhas c t end.

(* what is stored / what a reader can be shown:
   entries, the access profile under test (present or not), the domain display name,
   the OAuth2 clients.  On disk the last three are ENTRIES (profile entry, domain entry,
   client entries); in memory they are the loaded AccessControls / DomainInfo / Oauth2ResourceServers. *)
Record cells := mkcells { c_ents : ents; c_acp : bool; c_dom : N; c_o2 : list N }.

Inductive op :=
| OCreate (e d : N) | OModify (e d : N) | ODelete (e : N)
| OAcp (b : bool) | ODomain (d : N) | OOauth2 (c : N) (b : bool).

(* does the operation succeed on this content?  create of an existing name: AttributeUniqueness;
   delete of nothing: NoMatchingEntries; internal_modify of nothing: Ok (no-op) *)
Definition op_ok (c : cells) (o : op) : bool :=
  match o with
  | OCreate e _ => negb (ehas e (c_ents c))
  | OModify _ _ => true
  | ODelete e => ehas e (c_ents c)
  | OAcp b => negb (Bool.eqb b (c_acp c))
  | ODomain _ => true
  | OOauth2 k b => negb (Bool.eqb b (nhas k (c_o2 c)))
  end.

Definition apply_op (c : cells) (o : op) : cells :=
  match o with
  | OCreate e d => mkcells (eset e d (c_ents c)) (c_acp c) (c_dom c) (c_o2 c)
  | OModify e d => if ehas e (c_ents c) then mkcells (eset e d (c_ents c)) (c_acp c) (c_dom c) (c_o2 c) else c
  | ODelete e => mkcells (edel e (c_ents c)) (c_acp c) (c_dom c) (c_o2 c)
  | OAcp b => mkcells (c_ents c) b (c_dom c) (c_o2 c)
  | ODomain d => mkcells (c_ents c) (c_acp c) d (c_o2 c)
  | OOauth2 k b => mkcells (c_ents c) (c_acp c) (c_dom c) (if b then nins k (c_o2 c) else nrem k (c_o2 c))
  end.

(* run the operations of a transaction on its private copy; None = an operation failed
   (the caller drops the transaction) *)
Fixpoint apply_ops (c : cells) (ops : list op) : option cells :=
  match ops with
  | [] => Some c
  | o :: r => if op_ok c o then apply_ops (apply_op c o) r else None
  end.

(* ChangeFlag::ACP / DOMAIN / OAUTH2 raised by the operations *)
Definition touches_acp (o : op) := match o with OAcp _ => true | _ => false end.
Definition touches_dom (o : op) := match o with ODomain _ => true | _ => false end.
Definition touches_o2 (o : op) := match o with OOauth2 _ _ => true | _ => false end.

(* ------------------------------------------------------------------ the server *)
Record server := mksrv {
  disk : cells;      (* committed SQLite content *)
  m_be : cells;      (* what the backend caches + SQLite show to a new transaction *)
  m_acp : bool;      (* published AccessControls *)
  m_dom : N;         (* published DomainInfo *)
  m_o2 : list N      (* published Oauth2ResourceServers *)
}.

(* start-up: everything is loaded from the database *)
Definition of_disk (d : cells) : server := mksrv d d (c_acp d) (c_dom d) (c_o2 d).
Definition reopen (s : server) : server := of_disk (disk s).

(* a later read transaction: entries through the backend, settings from the published cells *)
Definition read_view (s : server) : cells := mkcells (c_ents (m_be s)) (m_acp s) (m_dom s) (m_o2 s).
Definition observe (s : server) : cells * cells := (read_view s, read_view (reopen s)).

(* private state of a write transaction just before `commit` publishes:
   entries = operations applied to the backend view; each setting is RELOADED from the
   transaction's entries when its change flag is set, otherwise it is the clone of the
   published cell taken at `write()` *)
Record txn := mktxn { p_be : cells; p_acp : bool; p_dom : N; p_o2 : list N }.
Definition prepare (s : server) (ops : list op) (pe : cells) : txn :=
  mktxn pe
        (if existsb touches_acp ops then c_acp pe else m_acp s)
        (if existsb touches_dom ops then c_dom pe else m_dom s)
        (if existsb touches_o2 ops then c_o2 pe else m_o2 s).

(* storage calls that can fail, and in-memory publications, in commit order *)
Inductive sstep := SReload | STsMax | SRuv | SEntries | SIdl | SNames | SDbCommit.
Inductive pstep := PIdm | PQs | PBe.
Inductive cstep := St (k : sstep) | Pub (p : pstep).

Definition sstep_eqb (a b : sstep) : bool :=
  match a, b with
  | SReload, SReload | STsMax, STsMax | SRuv, SRuv | SEntries, SEntries
  | SIdl, SIdl | SNames, SNames | SDbCommit, SDbCommit => true
  | _, _ => false
  end.

(* the order in the code BEFORE the fix 953436b:
   idm: qs.reload + reload_oauth2 (reads) ; applications/oauth2rs/... .commit() ;
   qs : set_db_ts_max ; cid.commit ; schema/d_info/.../key_providers/accesscontrols .commit() ;
   be : write_db_ruv ; idl: entries, idls, names ; db.commit ; caches .commit() ; ruv/idxmeta .commit() *)
Definition steps_head : list cstep :=
  [St SReload; Pub PIdm; St STsMax; Pub PQs; St SRuv; St SEntries; St SIdl; St SNames; St SDbCommit; Pub PBe].
(* the order since 953436b (the tree at HEAD): every publication after the database commit:
   qs: set_db_ts_max ; cid ; be_txn.commit() [ruv, entries, idls, names, COMMIT, caches] ; schema..accesscontrols ;
   idm: applications / oauth2rs / cred_update_sessions / oauth2_client_providers *)
Definition steps_fixed : list cstep :=
  [St SReload; St STsMax; St SRuv; St SEntries; St SIdl; St SNames; St SDbCommit; Pub PBe; Pub PQs; Pub PIdm].

Definition publish (t : txn) (p : pstep) (s : server) : server :=
  match p with
  | PIdm => mksrv (disk s) (m_be s) (m_acp s) (m_dom s) (p_o2 t)
  | PQs => mksrv (disk s) (m_be s) (p_acp t) (p_dom t) (m_o2 s)
  | PBe => mksrv (disk s) (p_be t) (m_acp s) (m_dom s) (m_o2 s)
  end.

(* run the commit steps; `fault = Some k` makes storage call k return an error: the remaining
   steps are skipped and the SQLite transaction is rolled back (disk untouched).
   Result: (new server, commit succeeded?) *)
Fixpoint run_steps (t : txn) (fault : option sstep) (steps : list cstep) (s : server) : server * bool :=
  match steps with
  | [] => (s, true)
  | Pub p :: r => run_steps t fault r (publish t p s)
  | St k :: r =>
      match fault with
      | Some f => if sstep_eqb f k then (s, false) else
                  run_steps t fault r (match k with SDbCommit => mksrv (p_be t) (m_be s) (m_acp s) (m_dom s) (m_o2 s) | _ => s end)
      | None => run_steps t fault r (match k with SDbCommit => mksrv (p_be t) (m_be s) (m_acp s) (m_dom s) (m_o2 s) | _ => s end)
      end
  end.

Inductive outcome :=
| TAbandon (j : nat)               (* dropped after j operations, commit never called *)
| TCommit (fault : option sstep).   (* all operations, then commit with an optional storage fault *)

(* one write transaction. Result: server afterwards, and whether commit reported success *)
Definition run_txn (steps : list cstep) (s : server) (ops : list op) (o : outcome) : server * bool :=
  match o with
  | TAbandon j => (s, false)
  | TCommit f =>
      match apply_ops (m_be s) ops with
      | None => (s, false)                      (* an operation failed: the transaction is dropped *)
      | Some pe => run_steps (prepare s ops pe) f steps s
      end
  end.

(* the state the transaction describes *)
Definition after (s : server) (ops : list op) : option server :=
  match apply_ops (disk s) ops with Some d => Some (of_disk d) | None => None end.

(* ------------------------------------------------------------------ boolean equalities *)
Fixpoint ents_eqb (a b : ents) : bool :=
  match a, b with
  | [], [] => true
  | (e, d) :: ta, (e', d') :: tb => (e =? e') && (d =? d') && ents_eqb ta tb
  | _, _ => false
  end.
Fixpoint nl_eqb (a b : list N) : bool :=
  match a, b with
  | [], [] => true
  | x :: ta, y :: tb => (x =? y) && nl_eqb ta tb
  | _, _ => false
  end.
Definition cells_eqb (a b : cells) : bool :=
  ents_eqb (c_ents a) (c_ents b) && Bool.eqb (c_acp a) (c_acp b) && (c_dom a =? c_dom b) && nl_eqb (c_o2 a) (c_o2 b).

(* the decidable class in which the order at HEAD shows a torn state: the failing storage call
   comes after a publication that changed what readers see *)
Definition after_idm (k : sstep) : bool := match k with SReload => false | _ => true end.
Definition after_qs (k : sstep) : bool := match k with SReload | STsMax => false | _ => true end.
Definition exposed (s : server) (ops : list op) (f : option sstep) : bool :=
  match f, apply_ops (m_be s) ops with
  | Some k, Some pe =>
      let t := prepare s ops pe in
      (after_idm k && negb (nl_eqb (p_o2 t) (m_o2 s)))
      || (after_qs k && (negb (Bool.eqb (p_acp t) (m_acp s)) || negb (p_dom t =? m_dom s)))
  | _, _ => false
  end.

(* ------------------------------------------------------------------ correspondence *)
(* storage-point labels printed by the fault hook (verif_hooks::c04), as small codes:
   0 read statement, 1 set_db_ts_max, 2 ruv row, 3 id2entry row (write or delete), 4 index row,
   5 name-table row, 6 COMMIT, 7 after COMMIT returned (crash-only point), 8 BEGIN EXCLUSIVE, 9 anything else *)
Definition label := N.

(* operation phase: BEGIN, then only reads — every write is deferred to commit *)
Definition optrace_ok (tr : list label) : bool :=
  match tr with
  | 8 :: r => forallb (fun l => l =? 0) r
  | _ => false
  end.

(* commit phase: reads* ts_max ruv* id2entry* index* names* COMMIT post.  `rank` gives the
   position of a label in that order; a trace is accepted when ranks never decrease, the
   singleton stations (ts_max, COMMIT, post) occur at most once; a complete commit must end
   ... COMMIT post and contain ts_max. *)
Definition rank (l : label) : option N :=
  match l with
  | 0 => Some 0 | 1 => Some 1 | 2 => Some 2 | 3 => Some 3 | 4 => Some 4 | 5 => Some 5 | 6 => Some 6 | 7 => Some 7
  | _ => None
  end.
Definition single (r : N) : bool := (r =? 1) || (r =? 6) || (r =? 7).
Fixpoint ranks_ok (cur : N) (tr : list label) : bool :=
  match tr with
  | [] => true
  | l :: r => match rank l with
              | Some k => (if single k then cur <? k else cur <=? k) && ranks_ok k r
              | None => false
              end
  end.
Definition ctrace_ok (complete : bool) (tr : list label) : bool :=
  ranks_ok 0 tr &&
  (if complete then nhas 1 tr && match rev tr with 7 :: 6 :: _ => true | _ => false end else true).

(* which storage call of the model a failed label is *)
Definition classify (l : label) : option sstep :=
  match l with
  | 0 => Some SReload | 1 => Some STsMax | 2 => Some SRuv | 3 => Some SEntries
  | 4 => Some SIdl | 5 => Some SNames | 6 => Some SDbCommit
  | _ => None
  end.

(* result codes of the harness: 0 commit Ok, 1 commit Err, 2 an operation returned Err (txn dropped),
   3 opening the transaction failed, 4 abandoned on purpose *)
Inductive case :=
| CTxn (before : cells) (ops : list op)
       (abandon : option N)      (* Some j: the harness dropped the transaction after j operations *)
       (hit : bool)              (* a storage fault was injected *)
       (optrace ctrace : list label)  (* labels before / inside commit, the failed one last *)
       (res : N) (mem re : cells). (* result code; later read transaction; reopened server *)

Definition last_label (tr : list label) : label := last tr 9.
Definition only_begin (tr : list label) : bool := match tr with [x] => x =? 8 | _ => false end.

(* model prediction: (result code, server afterwards); None = the trace does not fit the model *)
Definition predict (steps : list cstep) (c : case) : option (N * server) :=
  match c with
  | CTxn before ops abandon hit optrace ctrace res mem re =>
      let s := of_disk before in
      match abandon with
      | Some j => if optrace_ok optrace && negb hit && match ctrace with [] => true | _ => false end
                  then Some (4, fst (run_txn steps s ops (TAbandon (N.to_nat j)))) else None
      | None =>
          if negb hit then
            (* no fault: either an operation fails by itself or the commit runs to the end *)
            match apply_ops (m_be s) ops with
            | None => if optrace_ok optrace && match ctrace with [] => true | _ => false end
                      then Some (2, s) else None
            | Some _ => if optrace_ok optrace && ctrace_ok true ctrace
                        then let '(s1, ok) := run_txn steps s ops (TCommit None) in Some (if ok then 0 else 1, s1)
                        else None
            end
          else
            match ctrace with
            | [] => (* fault before commit was called: BEGIN or a read inside an operation *)
                if optrace_ok optrace
                then Some (if only_begin optrace then 3 else 2, s) else None
            | _ =>
                match classify (last_label ctrace), apply_ops (m_be s) ops with
                | Some k, Some _ =>
                    if optrace_ok optrace && ctrace_ok false ctrace
                    then let '(s1, ok) := run_txn steps s ops (TCommit (Some k)) in Some (if ok then 0 else 1, s1)
                    else None
                | _, _ => None
                end
            end
      end
  end.

Definition agree_with (steps : list cstep) (c : case) : bool :=
  match c, predict steps c with
  | CTxn _ _ _ _ _ _ res mem re, Some (r, s1) =>
      (res =? r) && cells_eqb mem (read_view s1) && cells_eqb re (read_view (reopen s1))
  | _, None => false
  end.

(* /repo 953436b (fix: a failed commit must not publish the transaction's in-memory state) moved every
   publication behind the database commit; `steps_head` is the order BEFORE that commit *)
Definition tree_fixed : bool := true.
Definition steps_tree : list cstep := if tree_fixed then steps_fixed else steps_head.
Definition agree (c : case) : bool := agree_with steps_tree c.

(* the property on the implementation's own observations: a commit that reported success shows
   exactly the operations' effect (now and after a restart); anything else shows exactly the
   state before (now and after a restart) *)
Definition pcheck (c : case) : bool :=
  match c with
  | CTxn before ops _ _ _ _ res mem re =>
      if res =? 0 then
        match apply_ops before ops with
        | Some a => cells_eqb mem a && cells_eqb re a
        | None => false
        end
      else cells_eqb mem before && cells_eqb re before
  end.

(* no known class on the fixed tree; on the pre-fix tree the class was `exposed`: a storage fault
   after a publication that changed a setting *)
Definition known (c : case) : bool :=
  match c with
  | CTxn before ops None true _ ctrace 1 _ _ =>
      negb tree_fixed &&
      match classify (last_label ctrace) with
      | Some k => exposed (of_disk before) ops (Some k)
      | None => false
      end
  | _ => false
  end.
