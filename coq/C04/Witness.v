(* KV.C04.Witness — non-vacuity: concrete states meeting the hypotheses, and the refutation witness. *)
From Coq Require Import List NArith Bool.
Import ListNotations.
Require Import KV.C04.Model KV.C04.Proofs.
Open Scope N_scope.

Definition w0 : cells := mkcells [(0, 2); (2, 1)] false 3 [1].
Definition wops : list op := [OCreate 1 4; OAcp true; ODomain 7; OOauth2 0 true; OModify 0 9; ODelete 2].

(* a coherent, non-empty server and a transaction all of whose operations succeed *)
Example C04_witness_coherent : coherent (of_disk w0) /\ be_coherent (of_disk w0) /\
  apply_ops w0 wops = Some (mkcells [(0, 9); (1, 4)] true 7 [0; 1]).
Proof. split; [reflexivity|split; reflexivity]. Qed.

(* a fault-free commit shows exactly the effect, now and after a restart *)
Example C04_witness_commit :
  let r := run_txn steps_head (of_disk w0) wops (TCommit None) in
  snd r = true /\ observe (fst r) = (mkcells [(0, 9); (1, 4)] true 7 [0; 1], mkcells [(0, 9); (1, 4)] true 7 [0; 1]).
Proof. vm_compute. split; reflexivity. Qed.

(* hypothesis of the pre-fix partial theorem: a fault in the reload reads is outside the class ... *)
Example C04_witness_unexposed : exposed (of_disk w0) wops (Some SReload) = false
  /\ exposed (of_disk w0) [OCreate 1 4; OModify 0 3] (Some SDbCommit) = false.
Proof. vm_compute. split; reflexivity. Qed.

(* ... and hypothesis of C04_exposed_is_torn / the refutation witness: COMMIT fails after the
   publications; readers see profile, domain name and OAuth2 client of the FAILED transaction *)
Example C04_witness_prefix_refuted :
  exposed (of_disk w0) wops (Some SDbCommit) = true /\
  let r := run_txn steps_head (of_disk w0) wops (TCommit (Some SDbCommit)) in
  snd r = false /\ read_view (fst r) = mkcells [(0, 2); (2, 1)] true 7 [0; 1] /\ read_view (reopen (fst r)) = w0.
Proof. vm_compute. repeat split; reflexivity. Qed.
(* set_db_ts_max fails: only the IDM-level cell (OAuth2 clients) is already published *)
Example C04_witness_prefix_refuted_tsmax :
  let r := run_txn steps_head (of_disk w0) wops (TCommit (Some STsMax)) in
  snd r = false /\ read_view (fst r) = mkcells [(0, 2); (2, 1)] false 3 [0; 1].
Proof. vm_compute. split; reflexivity. Qed.
(* with the repaired order the same fault leaves no trace *)
Example C04_witness_no_trace :
  let r := run_txn steps_fixed (of_disk w0) wops (TCommit (Some SDbCommit)) in
  snd r = false /\ observe (fst r) = (w0, w0).
Proof. vm_compute. split; reflexivity. Qed.

(* a history with a torn state in the middle: the database follows only the committed transactions *)
Example C04_witness_history :
  let h := [([ODomain 5], TCommit (Some SIdl), false); ([OCreate 1 1], TAbandon 1, false);
            ([OCreate 1 2], TCommit None, false); ([ODelete 3], TCommit None, true); ([OAcp true], TCommit (Some SRuv), true)] in
  read_view (run_hist steps_head (of_disk w0) h) = mkcells [(0, 2); (1, 2); (2, 1)] false 3 [1]
  /\ spec_hist w0 h = mkcells [(0, 2); (1, 2); (2, 1)] false 3 [1].
Proof. vm_compute. split; reflexivity. Qed.

(* the tie: shapes of cases as the harness prints them. The torn observation of the pre-fix tree
   agrees with the pre-fix order only and fails the property; on the tree at HEAD the same fault
   must show the state before. *)
Definition torn : case := CTxn w0 [ODomain 7] None true [8; 0; 0] [0; 1; 2; 3; 4; 4; 5; 6] 1 (mkcells [(0, 2); (2, 1)] false 7 [1]) w0.
Definition clean : case := CTxn w0 [ODomain 7] None true [8; 0; 0] [0; 1; 2; 3; 4; 4; 5; 6] 1 w0 w0.
Example C04_witness_agree :
  agree_with steps_head torn = true /\ agree torn = false /\ pcheck torn = false /\ known torn = false /\
  agree clean = true /\ pcheck clean = true /\
  agree (CTxn w0 [OCreate 1 1] None false [8; 0] [1; 2; 3; 4; 5; 6; 7] 0 (mkcells [(0, 2); (1, 1); (2, 1)] false 3 [1]) (mkcells [(0, 2); (1, 1); (2, 1)] false 3 [1])) = true.
Proof. vm_compute. repeat split; reflexivity. Qed.
