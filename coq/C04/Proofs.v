(* KV.C04.Proofs — lemmas and proofs. *)
From Coq Require Import List NArith Bool Lia.
Import ListNotations.
Require Import KV.C04.Model.
Open Scope N_scope.

(* ------------------------------------------------------------------ boolean equalities *)
Lemma ents_eqb_eq : forall a b, ents_eqb a b = true <-> a = b.
Proof.
  induction a as [|[e d] ta IH]; intros [|[e' d'] tb]; cbn; split; intros H; try reflexivity; try discriminate.
  - apply andb_prop in H as [H1 H3]. apply andb_prop in H1 as [H1 H2].
    apply N.eqb_eq in H1. apply N.eqb_eq in H2. apply IH in H3. subst. reflexivity.
  - injection H as -> -> ->. rewrite !N.eqb_refl. cbn. apply IH. reflexivity.
Qed.
Lemma nl_eqb_eq : forall a b, nl_eqb a b = true <-> a = b.
Proof.
  induction a as [|x ta IH]; intros [|y tb]; cbn; split; intros H; try reflexivity; try discriminate.
  - apply andb_prop in H as [H1 H2]. apply N.eqb_eq in H1. apply IH in H2. subst. reflexivity.
  - injection H as -> ->. rewrite N.eqb_refl. cbn. apply IH. reflexivity.
Qed.
Lemma cells_eqb_eq : forall a b, cells_eqb a b = true <-> a = b.
Proof.
  intros [ea aa da oa] [eb ab db ob]. unfold cells_eqb. cbn. split; intros H.
  - apply andb_prop in H as [H H4]. apply andb_prop in H as [H H3]. apply andb_prop in H as [H1 H2].
    apply ents_eqb_eq in H1. apply Bool.eqb_prop in H2. apply N.eqb_eq in H3. apply nl_eqb_eq in H4.
    subst. reflexivity.
  - injection H as -> -> -> ->.
    assert (E1 : ents_eqb eb eb = true) by (apply ents_eqb_eq; reflexivity).
    assert (E4 : nl_eqb ob ob = true) by (apply nl_eqb_eq; reflexivity).
    rewrite E1, E4, Bool.eqb_reflx, N.eqb_refl. reflexivity.
Qed.
Lemma nl_eqb_false : forall a b, nl_eqb a b = false -> a <> b.
Proof. intros a b H E. apply nl_eqb_eq in E. congruence. Qed.

(* ------------------------------------------------------------------ operations and flags *)
Lemma untouched_acp : forall ops d pe,
  existsb touches_acp ops = false -> apply_ops d ops = Some pe -> c_acp pe = c_acp d.
Proof.
  induction ops as [|o r IH]; intros d pe Hx Ha; cbn in *.
  - injection Ha as <-. reflexivity.
  - apply orb_false_elim in Hx as [Ho Hr]. destruct (op_ok d o); [|discriminate].
    rewrite (IH _ _ Hr Ha). destruct o; cbn in *; try discriminate; try reflexivity.
    destruct (ehas e (c_ents d)); reflexivity.
Qed.
Lemma untouched_dom : forall ops d pe,
  existsb touches_dom ops = false -> apply_ops d ops = Some pe -> c_dom pe = c_dom d.
Proof.
  induction ops as [|o r IH]; intros d pe Hx Ha; cbn in *.
  - injection Ha as <-. reflexivity.
  - apply orb_false_elim in Hx as [Ho Hr]. destruct (op_ok d o); [|discriminate].
    rewrite (IH _ _ Hr Ha). destruct o; cbn in *; try discriminate; try reflexivity.
    destruct (ehas e (c_ents d)); reflexivity.
Qed.
Lemma untouched_o2 : forall ops d pe,
  existsb touches_o2 ops = false -> apply_ops d ops = Some pe -> c_o2 pe = c_o2 d.
Proof.
  induction ops as [|o r IH]; intros d pe Hx Ha; cbn in *.
  - injection Ha as <-. reflexivity.
  - apply orb_false_elim in Hx as [Ho Hr]. destruct (op_ok d o); [|discriminate].
    rewrite (IH _ _ Hr Ha). destruct o; cbn in *; try discriminate; try reflexivity.
    destruct (ehas e (c_ents d)); reflexivity.
Qed.

Definition coherent (s : server) : Prop := s = of_disk (disk s).
Definition be_coherent (s : server) : Prop := m_be s = disk s.

Lemma coherent_of_disk : forall d, coherent (of_disk d).
Proof. intros d. reflexivity. Qed.
Lemma coherent_be : forall s, coherent s -> be_coherent s.
Proof. intros s H. unfold be_coherent. rewrite H. reflexivity. Qed.
Lemma reopen_coherent : forall s, coherent s -> reopen s = s.
Proof. intros s H. unfold reopen. symmetry. exact H. Qed.

(* on a coherent server the prepared settings are exactly the transaction's content *)
Lemma prepare_coherent : forall d ops pe,
  apply_ops d ops = Some pe ->
  prepare (of_disk d) ops pe = mktxn pe (c_acp pe) (c_dom pe) (c_o2 pe).
Proof.
  intros d ops pe Ha. unfold prepare. cbn.
  destruct (existsb touches_acp ops) eqn:E1; destruct (existsb touches_dom ops) eqn:E2;
    destruct (existsb touches_o2 ops) eqn:E3;
    try rewrite <- (untouched_acp _ _ _ E1 Ha); try rewrite <- (untouched_dom _ _ _ E2 Ha);
    try rewrite <- (untouched_o2 _ _ _ E3 Ha); reflexivity.
Qed.

(* ------------------------------------------------------------------ the commit sequences, fault by fault *)
Lemma head_none : forall t s, run_steps t None steps_head s = (mksrv (p_be t) (p_be t) (p_acp t) (p_dom t) (p_o2 t), true).
Proof. intros t s. reflexivity. Qed.
Lemma fixed_none : forall t s, run_steps t None steps_fixed s = (mksrv (p_be t) (p_be t) (p_acp t) (p_dom t) (p_o2 t), true).
Proof. intros t s. reflexivity. Qed.

Lemma head_fault : forall t k s,
  run_steps t (Some k) steps_head s =
  (mksrv (disk s) (m_be s)
         (if after_qs k then p_acp t else m_acp s)
         (if after_qs k then p_dom t else m_dom s)
         (if after_idm k then p_o2 t else m_o2 s), false).
Proof. intros t k [d b a m o]. destruct k; reflexivity. Qed.
Lemma fixed_fault : forall t k s, run_steps t (Some k) steps_fixed s = (s, false).
Proof. intros t k [d b a m o]. destruct k; reflexivity. Qed.

(* ------------------------------------------------------------------ the statement *)
Definition atomic_for (steps : list cstep) (s : server) (ops : list op) (o : outcome) : Prop :=
  observe (fst (run_txn steps s ops o)) = observe s \/
  (snd (run_txn steps s ops o) = true /\
   exists s2, after s ops = Some s2 /\ observe (fst (run_txn steps s ops o)) = observe s2).

Lemma read_view_of_disk : forall d, read_view (of_disk d) = d.
Proof. intros [e a m o]. reflexivity. Qed.
Lemma observe_of_disk : forall d, observe (of_disk d) = (d, d).
Proof. intros [e a m o]. reflexivity. Qed.

Lemma success_coherent : forall steps d ops pe,
  (forall t s, run_steps t None steps s = (mksrv (p_be t) (p_be t) (p_acp t) (p_dom t) (p_o2 t), true)) ->
  apply_ops d ops = Some pe ->
  run_txn steps (of_disk d) ops (TCommit None) = (of_disk pe, true).
Proof.
  intros steps d ops pe Hn Ha. unfold run_txn. cbn [m_be of_disk]. rewrite Ha.
  rewrite (prepare_coherent _ _ _ Ha). rewrite Hn. reflexivity.
Qed.

Lemma abandon_noop : forall steps s ops j, run_txn steps s ops (TAbandon j) = (s, false).
Proof. reflexivity. Qed.
Lemma op_failure_noop : forall steps s ops f, apply_ops (m_be s) ops = None -> run_txn steps s ops (TCommit f) = (s, false).
Proof. intros steps s ops f H. unfold run_txn. rewrite H. reflexivity. Qed.

(* with the repaired order the full statement holds *)
Lemma fixed_atomic : forall s ops o, coherent s -> atomic_for steps_fixed s ops o.
Proof.
  intros s ops o Hc. unfold atomic_for. rewrite Hc. destruct o as [j|[k|]].
  - left. reflexivity.
  - left. unfold run_txn. cbn [m_be of_disk]. destruct (apply_ops (disk s) ops); [rewrite fixed_fault|]; reflexivity.
  - destruct (apply_ops (disk s) ops) as [pe|] eqn:Ha.
    + right. rewrite (success_coherent steps_fixed _ _ _ fixed_none Ha). cbn [fst snd]. split; [reflexivity|].
      exists (of_disk pe). split; [|reflexivity]. unfold after. cbn [disk of_disk]. rewrite Ha. reflexivity.
    + left. rewrite op_failure_noop by exact Ha. reflexivity.
Qed.
Lemma fixed_coherent : forall s ops o, coherent s -> coherent (fst (run_txn steps_fixed s ops o)).
Proof.
  intros s ops o Hc. destruct o as [j|[k|]].
  - exact Hc.
  - unfold run_txn. destruct (apply_ops (m_be s) ops); [rewrite fixed_fault|]; exact Hc.
  - rewrite Hc. destruct (apply_ops (disk s) ops) as [pe|] eqn:Ha.
    + rewrite (success_coherent steps_fixed _ _ _ fixed_none Ha). apply coherent_of_disk.
    + rewrite op_failure_noop by exact Ha. apply coherent_of_disk.
Qed.

(* the order at HEAD: atomic outside the exposed class *)
Lemma andb_negb_false : forall a b, a && negb b = false -> a = true -> b = true.
Proof. intros [] []; cbn; congruence. Qed.

Lemma head_unexposed_fault : forall d ops k,
  exposed (of_disk d) ops (Some k) = false ->
  fst (run_txn steps_head (of_disk d) ops (TCommit (Some k))) = of_disk d.
Proof.
  intros d ops k Hx. unfold run_txn. unfold exposed in Hx. cbn [m_be of_disk] in *.
  destruct (apply_ops d ops) as [pe|] eqn:Ha; [|reflexivity].
  rewrite head_fault. cbn [fst]. set (t := prepare (of_disk d) ops pe) in *.
  apply orb_false_elim in Hx as [H1 H2].
  cbn [m_o2 m_acp m_dom of_disk disk m_be] in *.
  assert (E3 : (if after_idm k then p_o2 t else c_o2 d) = c_o2 d).
  { destruct (after_idm k); [|reflexivity]. rewrite andb_true_l in H1. apply negb_false_iff in H1.
    apply nl_eqb_eq in H1. exact H1. }
  assert (E12 : (if after_qs k then p_acp t else c_acp d) = c_acp d /\ (if after_qs k then p_dom t else c_dom d) = c_dom d).
  { destruct (after_qs k); [|split; reflexivity]. rewrite andb_true_l in H2. apply orb_false_elim in H2 as [Ha1 Ha2].
    apply negb_false_iff in Ha1. apply negb_false_iff in Ha2. apply Bool.eqb_prop in Ha1. apply N.eqb_eq in Ha2.
    split; assumption. }
  destruct E12 as [E1 E2]. unfold of_disk. rewrite E1, E2, E3. reflexivity.
Qed.

Lemma head_partial : forall s ops o, coherent s ->
  match o with TCommit f => exposed s ops f = false | TAbandon _ => True end ->
  atomic_for steps_head s ops o.
Proof.
  intros s ops o Hc Hx. unfold atomic_for. rewrite Hc in *. destruct o as [j|[k|]].
  - left. reflexivity.
  - left. rewrite (head_unexposed_fault _ _ _ Hx). reflexivity.
  - destruct (apply_ops (disk s) ops) as [pe|] eqn:Ha.
    + right. rewrite (success_coherent steps_head _ _ _ head_none Ha). cbn [fst snd]. split; [reflexivity|].
      exists (of_disk pe). split; [|reflexivity]. unfold after. cbn [disk of_disk]. rewrite Ha. reflexivity.
    + left. rewrite op_failure_noop by exact Ha. reflexivity.
Qed.

(* inside the class: commit reports failure, the database and the entries are as before,
   but readers are shown a different setting *)
Lemma head_exposed_torn_d : forall d ops k, exposed (of_disk d) ops (Some k) = true ->
  let r := run_txn steps_head (of_disk d) ops (TCommit (Some k)) in
  snd r = false /\ read_view (fst r) <> d /\
  read_view (reopen (fst r)) = d /\ c_ents (read_view (fst r)) = c_ents d.
Proof.
  intros d ops k Hx. cbn zeta. unfold run_txn, exposed in *.
  cbn [m_be of_disk] in *. destruct (apply_ops d ops) as [pe|] eqn:Ha; [|discriminate].
  rewrite head_fault. cbn [fst snd]. set (t := prepare (of_disk d) ops pe) in *.
  cbn [m_o2 m_acp m_dom of_disk disk m_be] in *.
  split; [reflexivity|]. split; [|split; [destruct d; reflexivity|reflexivity]].
  unfold read_view. cbn [m_be m_acp m_dom m_o2 of_disk]. intros E.
  assert (E1 := f_equal c_acp E). assert (E2 := f_equal c_dom E). assert (E3 := f_equal c_o2 E).
  cbn [c_acp c_dom c_o2] in E1, E2, E3. clear E.
  apply orb_true_iff in Hx as [H|H]; apply andb_prop in H as [Hk H].
  - rewrite Hk in E3. apply negb_true_iff in H. apply nl_eqb_false in H. congruence.
  - rewrite Hk in E1, E2. apply orb_true_iff in H as [H|H]; apply negb_true_iff in H.
    + apply Bool.eqb_false_iff in H. congruence.
    + apply N.eqb_neq in H. congruence.
Qed.
Lemma head_exposed_torn : forall s ops k, coherent s -> exposed s ops (Some k) = true ->
  let r := run_txn steps_head s ops (TCommit (Some k)) in
  snd r = false /\ read_view (fst r) <> read_view s /\
  read_view (reopen (fst r)) = read_view s /\ c_ents (read_view (fst r)) = c_ents (read_view s).
Proof.
  intros s ops k Hc Hx. rewrite Hc in Hx. rewrite Hc. rewrite read_view_of_disk.
  exact (head_exposed_torn_d (disk s) ops k Hx).
Qed.

(* the database itself is always before-or-after, for every server state and both orders *)
Lemma disk_atomic_gen : forall steps,
  (forall t s, run_steps t None steps s = (mksrv (p_be t) (p_be t) (p_acp t) (p_dom t) (p_o2 t), true)) ->
  (forall t k s, disk (fst (run_steps t (Some k) steps s)) = disk s /\ m_be (fst (run_steps t (Some k) steps s)) = m_be s
                 /\ snd (run_steps t (Some k) steps s) = false) ->
  forall s ops o,
  let r := run_txn steps s ops o in
  (snd r = false /\ disk (fst r) = disk s /\ m_be (fst r) = m_be s) \/
  (snd r = true /\ o = TCommit None /\ apply_ops (m_be s) ops = Some (disk (fst r)) /\ m_be (fst r) = disk (fst r)).
Proof.
  intros steps Hn Hf s ops o. destruct o as [j|[k|]]; cbn zeta.
  - left. cbn. auto.
  - left. unfold run_txn. destruct (apply_ops (m_be s) ops) as [pe|]; [|cbn; auto].
    destruct (Hf (prepare s ops pe) k s) as (H1 & H2 & H3). auto.
  - unfold run_txn. destruct (apply_ops (m_be s) ops) as [pe|] eqn:Ha; [|left; cbn; auto].
    right. rewrite Hn. cbn. auto.
Qed.
Lemma head_fault_disk : forall t k s,
  disk (fst (run_steps t (Some k) steps_head s)) = disk s /\ m_be (fst (run_steps t (Some k) steps_head s)) = m_be s
  /\ snd (run_steps t (Some k) steps_head s) = false.
Proof. intros. rewrite head_fault. cbn. auto. Qed.
Lemma fixed_fault_disk : forall t k s,
  disk (fst (run_steps t (Some k) steps_fixed s)) = disk s /\ m_be (fst (run_steps t (Some k) steps_fixed s)) = m_be s
  /\ snd (run_steps t (Some k) steps_fixed s) = false.
Proof. intros. rewrite fixed_fault. cbn. auto. Qed.

(* ------------------------------------------------------------------ histories *)
(* a history: transactions with their outcome, each optionally followed by a restart *)
Definition hstep := (list op * outcome * bool)%type.
Fixpoint run_hist (steps : list cstep) (s : server) (h : list hstep) : server :=
  match h with
  | [] => s
  | (ops, o, re) :: r =>
      let s1 := fst (run_txn steps s ops o) in
      run_hist steps (if re then reopen s1 else s1) r
  end.
(* the specification: only transactions that ran to the end without fault and whose operations
   all succeed change the content *)
Fixpoint spec_hist (d : cells) (h : list hstep) : cells :=
  match h with
  | [] => d
  | (ops, TCommit None, _) :: r => match apply_ops d ops with Some d1 => spec_hist d1 r | None => spec_hist d r end
  | _ :: r => spec_hist d r
  end.

Lemma hist_disk_gen : forall steps,
  (forall t s, run_steps t None steps s = (mksrv (p_be t) (p_be t) (p_acp t) (p_dom t) (p_o2 t), true)) ->
  (forall t k s, disk (fst (run_steps t (Some k) steps s)) = disk s /\ m_be (fst (run_steps t (Some k) steps s)) = m_be s
                 /\ snd (run_steps t (Some k) steps s) = false) ->
  forall h s, be_coherent s ->
  disk (run_hist steps s h) = spec_hist (disk s) h /\ be_coherent (run_hist steps s h).
Proof.
  intros steps Hn Hf. induction h as [|[[ops o] re] r IH]; intros s Hb.
  - cbn. auto.
  - cbn [run_hist]. pose proof (disk_atomic_gen steps Hn Hf s ops o) as D. cbn zeta in D.
    set (s1 := fst (run_txn steps s ops o)) in *.
    assert (Hb1 : be_coherent (if re then reopen s1 else s1) /\ disk (if re then reopen s1 else s1) = disk s1
                  /\ be_coherent s1).
    { assert (B : be_coherent s1).
      { destruct D as [(_ & D1 & D2)|(_ & _ & _ & D2)]; unfold be_coherent in *; congruence. }
      destruct re; cbn; auto. split; [reflexivity|auto]. }
    destruct Hb1 as (Hb1 & Hd1 & Hb2).
    destruct (IH _ Hb1) as [I1 I2]. split; [|exact I2]. rewrite I1, Hd1.
    destruct D as [(D0 & D1 & D2)|(D0 & -> & D1 & D2)].
    + rewrite D1. cbn [spec_hist]. destruct o as [j|[k|]]; try reflexivity.
      (* TCommit None that did not succeed: an operation failed *)
      unfold s1, run_txn in D0. rewrite Hb in *. destruct (apply_ops (disk s) ops) eqn:Ha.
      * rewrite Hn in D0. discriminate.
      * reflexivity.
    + cbn [spec_hist]. rewrite Hb in D1. rewrite D1. reflexivity.
Qed.

Lemma fixed_hist_coherent : forall h s, coherent s -> coherent (run_hist steps_fixed s h).
Proof.
  induction h as [|[[ops o] re] r IH]; intros s Hc; [exact Hc|].
  cbn [run_hist]. apply IH. pose proof (fixed_coherent s ops o Hc) as H.
  destruct re; [|exact H]. unfold reopen. apply coherent_of_disk.
Qed.

(* ------------------------------------------------------------------ the run-time bridge *)
Lemma run_txn_head_fault_false : forall s ops k, snd (run_txn steps_head s ops (TCommit (Some k))) = false.
Proof. intros. unfold run_txn. destruct (apply_ops (m_be s) ops); [rewrite head_fault|]; reflexivity. Qed.
Lemma run_txn_fixed_fault_false : forall s ops k, snd (run_txn steps_fixed s ops (TCommit (Some k))) = false.
Proof. intros. unfold run_txn. destruct (apply_ops (m_be s) ops); [rewrite fixed_fault|]; reflexivity. Qed.

Lemma pcheck_unchanged : forall before ops ab hit ot ct res mem re,
  res <> 0 -> mem = before -> re = before ->
  pcheck (CTxn before ops ab hit ot ct res mem re) = true.
Proof.
  intros. subst. cbn. destruct (res =? 0) eqn:E; [apply N.eqb_eq in E; contradiction|].
  assert (X : cells_eqb before before = true) by (apply cells_eqb_eq; reflexivity). rewrite X. reflexivity.
Qed.

Section Bridge.
  Variable steps : list cstep.
  Hypothesis Hn : forall t s, run_steps t None steps s = (mksrv (p_be t) (p_be t) (p_acp t) (p_dom t) (p_o2 t), true).
  Hypothesis Hff : forall s ops k, snd (run_txn steps s ops (TCommit (Some k))) = false.
  (* when does a faulted commit leave a coherent server as it was *)
  Variable safe : cells -> list op -> sstep -> bool.
  Hypothesis Hsafe : forall d ops k, safe d ops k = true ->
    fst (run_txn steps (of_disk d) ops (TCommit (Some k))) = of_disk d.

  Lemma bridge : forall before ops ab hit ot ct res mem re,
    agree_with steps (CTxn before ops ab hit ot ct res mem re) = true ->
    (ab = None -> hit = true -> res = 1 -> forall k, classify (last_label ct) = Some k -> safe before ops k = true) ->
    pcheck (CTxn before ops ab hit ot ct res mem re) = true.
  Proof.
    intros before ops ab hit ot ct res mem re Hag Hk.
    unfold agree_with in Hag.
    destruct (predict steps (CTxn before ops ab hit ot ct res mem re)) as [[r s1]|] eqn:Hp; [|discriminate].
    apply andb_prop in Hag as [Hag Hre]. apply andb_prop in Hag as [Hr Hmem].
    apply N.eqb_eq in Hr. apply cells_eqb_eq in Hmem. apply cells_eqb_eq in Hre. subst res.
    unfold predict in Hp. destruct ab as [j|].
    - destruct (optrace_ok ot && negb hit && match ct with [] => true | _ => false end); [|discriminate].
      injection Hp as <- <-. apply pcheck_unchanged; [discriminate| |]; subst; cbn [run_txn fst];
        [|unfold reopen; cbn [disk of_disk]]; apply read_view_of_disk.
    - destruct hit; cbn [negb] in Hp.
      + destruct ct as [|l ct'].
        * destruct (optrace_ok ot); [|discriminate].
          injection Hp as <- <-.
          apply pcheck_unchanged; [destruct (only_begin ot); discriminate| |];
            subst; [|unfold reopen; cbn [disk of_disk]]; apply read_view_of_disk.
        * destruct (classify (last_label (l :: ct'))) as [k|] eqn:Hc; [|discriminate].
          cbn [m_be of_disk] in Hp. destruct (apply_ops before ops) as [pe|] eqn:Ha; [|discriminate].
          destruct (optrace_ok ot && ctrace_ok false (l :: ct')); [|discriminate].
          destruct (run_txn steps (of_disk before) ops (TCommit (Some k))) as [s1' ok] eqn:Hrun.
          pose proof (Hff (of_disk before) ops k) as Hok. rewrite Hrun in Hok. cbn in Hok. subst ok.
          injection Hp as <- <-.
          pose proof (Hk eq_refl eq_refl eq_refl k eq_refl) as Hs. apply Hsafe in Hs. rewrite Hrun in Hs. cbn in Hs. subst s1'.
          apply pcheck_unchanged; [discriminate| |]; subst; [|unfold reopen; cbn [disk of_disk]]; apply read_view_of_disk.
      + cbn [m_be of_disk] in Hp. destruct (apply_ops before ops) as [pe|] eqn:Ha.
        * destruct (optrace_ok ot && ctrace_ok true ct); [|discriminate].
          rewrite (success_coherent steps _ _ _ Hn Ha) in Hp. injection Hp as <- <-.
          cbn [pcheck]. cbn [N.eqb]. rewrite Ha.
          unfold reopen in Hre. cbn [disk of_disk] in Hre. rewrite read_view_of_disk in Hmem, Hre. subst.
          assert (X : cells_eqb pe pe = true) by (apply cells_eqb_eq; reflexivity). rewrite X. reflexivity.
        * destruct (optrace_ok ot && match ct with [] => true | _ => false end); [|discriminate].
          injection Hp as <- <-.
          apply pcheck_unchanged; [discriminate| |]; subst; [|unfold reopen; cbn [disk of_disk]]; apply read_view_of_disk.
  Qed.
End Bridge.

Lemma agree_pcheck_head : forall c, agree_with steps_head c = true ->
  match c with CTxn before ops None true _ ct 1 _ _ =>
     match classify (last_label ct) with Some k => exposed (of_disk before) ops (Some k) | None => false end
   | _ => false end = false ->
  pcheck c = true.
Proof.
  intros [before ops ab hit ot ct res mem re] Hag Hk.
  apply (bridge steps_head head_none run_txn_head_fault_false
                (fun d0 o0 k0 => negb (exposed (of_disk d0) o0 (Some k0)))) with (1 := fun d0 o0 k0 H => head_unexposed_fault d0 o0 k0 (proj1 (negb_true_iff _) H)) (2 := Hag).
  intros -> -> -> k Hc. rewrite Hc in Hk. rewrite Hk. reflexivity.
Qed.

Lemma agree_pcheck_fixed : forall c, agree_with steps_fixed c = true -> pcheck c = true.
Proof.
  intros [before ops ab hit ot ct res mem re] Hag.
  apply (bridge steps_fixed fixed_none run_txn_fixed_fault_false (fun _ _ _ => true)) with (2 := Hag).
  - intros d0 o0 k0 _. unfold run_txn. cbn [m_be of_disk]. destruct (apply_ops d0 o0); [rewrite fixed_fault|]; reflexivity.
  - intros. reflexivity.
Qed.
