(* KV.C11.Proofs *)
From Coq Require Import List NArith Bool Lia Sorted Arith.
Import ListNotations.
Require Import KV.C11.Model.
Open Scope N_scope.
Arguments N.compare : simpl never.
Arguments N.ltb : simpl never.
Arguments N.eqb : simpl never.

(* ================================================================== comparison laws *)
Record CmpLaws {K} (cmp : K -> K -> comparison) : Prop := {
  cmp_eq : forall a b, cmp a b = Eq -> a = b;
  cmp_refl : forall a, cmp a a = Eq;
  cmp_antisym : forall a b, cmp b a = CompOpp (cmp a b);
  cmp_trans : forall a b c, cmp a b = Lt -> cmp b c = Lt -> cmp a c = Lt }.

Lemma N_laws : CmpLaws N.compare.
Proof.
  split.
  - intros a b H. apply N.compare_eq_iff. exact H.
  - apply N.compare_refl.
  - intros a b. apply N.compare_antisym.
  - intros a b c H1 H2. rewrite N.compare_lt_iff in *. lia.
Qed.

Lemma cid_laws : CmpLaws cid_cmp.
Proof.
  split.
  - intros [a1 a2] [b1 b2]. unfold cid_cmp. cbn [fst snd].
    destruct (N.compare_spec a1 b1); try discriminate.
    destruct (N.compare_spec a2 b2); try discriminate. intros _. subst. reflexivity.
  - intros [a1 a2]. unfold cid_cmp. cbn [fst snd]. rewrite !N.compare_refl. reflexivity.
  - intros [a1 a2] [b1 b2]. unfold cid_cmp. cbn [fst snd].
    rewrite (N.compare_antisym a1 b1), (N.compare_antisym a2 b2).
    destruct (a1 ?= b1); reflexivity.
  - intros [a1 a2] [b1 b2] [c1 c2]. unfold cid_cmp. cbn [fst snd]. intros Hab Hbc.
    destruct (N.compare_spec a1 b1) as [E1|E1|E1]; try discriminate;
    destruct (N.compare_spec b1 c1) as [E2|E2|E2]; try discriminate;
    destruct (N.compare_spec a1 c1) as [E3|E3|E3]; try reflexivity; try (exfalso; lia).
    rewrite N.compare_lt_iff in *. lia.
Qed.

Lemma cid_eqb_eq a b : cid_eqb a b = true <-> a = b.
Proof.
  destruct a as [a1 a2], b as [b1 b2]. unfold cid_eqb. cbn [fst snd].
  rewrite andb_true_iff, !N.eqb_eq. split; [intros [-> ->]; reflexivity | intros [= -> ->]; auto].
Qed.

(* ================================================================== sorted maps *)
Section MapFacts.
  Context {K V : Type}.
  Variable kcmp : K -> K -> comparison.
  Hypothesis KL : CmpLaws kcmp.

  Definition klt (a b : K * V) : Prop := kcmp (fst a) (fst b) = Lt.
  Definition sorted (m : list (K * V)) : Prop := StronglySorted klt m.

  Lemma kcmp_gt_lt a b : kcmp a b = Gt -> kcmp b a = Lt.
  Proof. intros H. rewrite (cmp_antisym _ KL a b), H. reflexivity. Qed.
  Lemma kcmp_lt_gt a b : kcmp a b = Lt -> kcmp b a = Gt.
  Proof. intros H. rewrite (cmp_antisym _ KL a b), H. reflexivity. Qed.

  Lemma get_none_lt k (m : list (K * V)) :
    (forall kv, In kv m -> kcmp k (fst kv) = Lt) -> get kcmp k m = None.
  Proof.
    induction m as [|[k0 v0] r IH]; intros H; cbn; [reflexivity|].
    pose proof (H (k0, v0) (or_introl eq_refl)) as H0. cbn [fst] in H0. rewrite H0. apply IH. intros kv Hkv. apply H. right. exact Hkv.
  Qed.

  Lemma sorted_inv kv (r : list (K * V)) :
    sorted (kv :: r) -> sorted r /\ forall x, In x r -> klt kv x.
  Proof.
    intros H. apply StronglySorted_inv in H as [H1 H2]. split; [exact H1|].
    rewrite Forall_forall in H2. exact H2.
  Qed.

  Lemma get_head_tail k0 (v0 : V) r k :
    sorted ((k0, v0) :: r) -> kcmp k k0 = Eq -> get kcmp k r = None.
  Proof.
    intros Hs He. apply (cmp_eq _ KL) in He. subst k0. apply sorted_inv in Hs as [_ Hlt].
    apply get_none_lt. intros kv Hkv. exact (Hlt kv Hkv).
  Qed.

  Lemma get_put k v k' (m : list (K * V)) :
    get kcmp k' (put kcmp k v m) = match kcmp k' k with Eq => Some v | _ => get kcmp k' m end.
  Proof.
    induction m as [|[k0 v0] r IH]; cbn [put get].
    - destruct (kcmp k' k); reflexivity.
    - destruct (kcmp k k0) eqn:E0; cbn [get].
      + apply (cmp_eq _ KL) in E0. subst k0. destruct (kcmp k' k); reflexivity.
      + destruct (kcmp k' k); reflexivity.
      + rewrite IH. destruct (kcmp k' k0) eqn:E1; try reflexivity.
        destruct (kcmp k' k) eqn:E2; try reflexivity.
        apply (cmp_eq _ KL) in E1. apply (cmp_eq _ KL) in E2. subst.
        rewrite (cmp_refl _ KL) in E0. discriminate.
  Qed.

  Lemma in_put x k v (m : list (K * V)) : In x (put kcmp k v m) -> x = (k, v) \/ In x m.
  Proof.
    induction m as [|[k0 v0] r IH]; cbn [put].
    - intros [<-|[]]. left. reflexivity.
    - destruct (kcmp k k0) eqn:E0.
      + apply (cmp_eq _ KL) in E0. subst k0. intros [<-|H]; [left; reflexivity | right; right; exact H].
      + intros [<-|H]; [left; reflexivity | right; exact H].
      + intros [<-|H]; [right; left; reflexivity|]. destruct (IH H) as [->|H']; [left; reflexivity | right; right; exact H'].
  Qed.

  Lemma put_sorted k v (m : list (K * V)) : sorted m -> sorted (put kcmp k v m).
  Proof.
    induction m as [|[k0 v0] r IH]; intros Hs; cbn [put].
    - constructor; constructor.
    - pose proof (sorted_inv _ _ Hs) as [Hr Hlt]. destruct (kcmp k k0) eqn:E0.
      + constructor; [exact Hr|]. apply Forall_forall. intros x Hx. exact (Hlt x Hx).
      + constructor; [exact Hs|]. apply Forall_forall. intros x [<-|Hx]; [exact E0|].
        unfold klt. cbn [fst]. apply (cmp_trans _ KL _ k0); [exact E0 | exact (Hlt x Hx)].
      + constructor; [exact (IH Hr)|]. apply Forall_forall. intros x Hx.
        destruct (in_put _ _ _ _ Hx) as [->|Hx']; [|exact (Hlt x Hx')].
        unfold klt. cbn [fst]. apply kcmp_gt_lt. exact E0.
  Qed.

  Lemma filter_sorted f (m : list (K * V)) : sorted m -> sorted (filter f m).
  Proof.
    induction m as [|kv r IH]; intros Hs; cbn [filter]; [constructor|].
    pose proof (sorted_inv _ _ Hs) as [Hr Hlt]. destruct (f kv); [|exact (IH Hr)].
    constructor; [exact (IH Hr)|]. apply Forall_forall. intros x Hx.
    apply filter_In in Hx as [Hx _]. exact (Hlt x Hx).
  Qed.

  Lemma get_retain f k (m : list (K * V)) : sorted m ->
    get kcmp k (retain f m) = match get kcmp k m with Some v => if f v then Some v else None | None => None end.
  Proof.
    unfold retain. induction m as [|[k0 v0] r IH]; intros Hs; cbn [filter get snd]; [reflexivity|].
    pose proof (sorted_inv _ _ Hs) as [Hr Hlt]. destruct (f v0) eqn:Ef; cbn [get].
    - destruct (kcmp k k0) eqn:E; [rewrite Ef; reflexivity | exact (IH Hr) | exact (IH Hr)].
    - rewrite (IH Hr). destruct (kcmp k k0) eqn:E; try reflexivity.
      rewrite (get_head_tail _ _ _ _ Hs E), Ef. reflexivity.
  Qed.

  Lemma in_get k v (m : list (K * V)) : sorted m -> In (k, v) m -> get kcmp k m = Some v.
  Proof.
    induction m as [|[k0 v0] r IH]; intros Hs Hin; [destruct Hin|].
    pose proof (sorted_inv _ _ Hs) as [Hr Hlt]. cbn [get]. destruct Hin as [[= -> ->]|Hin].
    - rewrite (cmp_refl _ KL). reflexivity.
    - pose proof (Hlt _ Hin) as H. unfold klt in H. cbn [fst] in H.
      rewrite (kcmp_lt_gt _ _ H). exact (IH Hr Hin).
  Qed.

  Lemma get_in k v (m : list (K * V)) : get kcmp k m = Some v -> exists k', In (k', v) m /\ kcmp k k' = Eq.
  Proof.
    induction m as [|[k0 v0] r IH]; cbn [get]; [discriminate|].
    destruct (kcmp k k0) eqn:E.
    - intros [= ->]. exists k0. split; [left; reflexivity | exact E].
    - intros H. destruct (IH H) as [k' [H1 H2]]. exists k'. split; [right; exact H1 | exact H2].
    - intros H. destruct (IH H) as [k' [H1 H2]]. exists k'. split; [right; exact H1 | exact H2].
  Qed.

  Lemma sorted_nodup (m : list (K * V)) : sorted m -> NoDup (map fst m).
  Proof.
    induction m as [|[k0 v0] r IH]; intros Hs; cbn [map fst]; constructor.
    - pose proof (sorted_inv _ _ Hs) as [Hr Hlt]. intros Hin. apply in_map_iff in Hin as [[k1 v1] [Hk Hin]].
      cbn [fst] in Hk. subst k1. pose proof (Hlt _ Hin) as H. unfold klt in H. cbn [fst] in H.
      rewrite (cmp_refl _ KL) in H. discriminate.
    - apply IH. exact (proj1 (sorted_inv _ _ Hs)).
  Qed.

  (* a sorted list is determined by its lookups *)
  Lemma sorted_ext (a b : list (K * V)) :
    sorted a -> sorted b -> (forall k, get kcmp k a = get kcmp k b) -> a = b.
  Proof.
    revert b. induction a as [|[ka va] ra IH]; intros [|[kb vb] rb] Ha Hb H.
    - reflexivity.
    - specialize (H kb). cbn [get] in H. rewrite (cmp_refl _ KL) in H. discriminate.
    - specialize (H ka). cbn [get] in H. rewrite (cmp_refl _ KL) in H. discriminate.
    - pose proof (sorted_inv _ _ Ha) as [Hra Hlta]. pose proof (sorted_inv _ _ Hb) as [Hrb Hltb].
      destruct (kcmp ka kb) eqn:E.
      + pose proof (cmp_eq _ KL _ _ E) as ->.
        pose proof (H kb) as H0. cbn [get] in H0. rewrite (cmp_refl _ KL) in H0. injection H0 as ->.
        f_equal. apply IH; [exact Hra | exact Hrb|]. intros k. specialize (H k). cbn [get] in H.
        destruct (kcmp k kb) eqn:E'; try exact H.
        rewrite (get_head_tail _ _ _ _ Ha E'), (get_head_tail _ _ _ _ Hb E'). reflexivity.
      + exfalso. specialize (H ka). cbn [get] in H. rewrite (cmp_refl _ KL), E in H.
        rewrite get_none_lt in H; [discriminate|]. intros kv Hkv.
        apply (cmp_trans _ KL _ kb); [exact E | exact (Hltb kv Hkv)].
      + exfalso. specialize (H kb). cbn [get] in H. rewrite (cmp_refl _ KL), (kcmp_gt_lt _ _ E) in H.
        rewrite get_none_lt in H; [discriminate|]. intros kv Hkv.
        apply (cmp_trans _ KL _ ka); [exact (kcmp_gt_lt _ _ E) | exact (Hlta kv Hkv)].
  Qed.

  (* ---- the merge loop, as a statement about lookups *)
  Variable gt : V -> V -> bool.
  (* newer value a, older value b *)
  Definition jv (a b : option V) : option V :=
    match a, b with
    | Some x, Some y => Some (if gt y x then y else x)
    | Some x, None => Some x
    | None, y => y
    end.

  Lemma merge_step_sorted acc kv : sorted acc -> sorted (merge_step kcmp gt acc kv).
  Proof.
    intros H. unfold merge_step. destruct (get kcmp (fst kv) acc) as [vs|]; [destruct (gt (snd kv) vs)|];
      try exact H; apply put_sorted; exact H.
  Qed.
  Lemma merge_raw_sorted n o : sorted n -> sorted (merge_raw kcmp gt n o).
  Proof.
    unfold merge_raw. revert n. induction o as [|kv r IH]; intros n Hn; cbn [fold_left]; [exact Hn|].
    apply IH. apply merge_step_sorted. exact Hn.
  Qed.

  Lemma get_merge_raw k o : forall n, sorted o ->
    get kcmp k (merge_raw kcmp gt n o) = jv (get kcmp k n) (get kcmp k o).
  Proof.
    unfold merge_raw. induction o as [|[k0 v0] r IH]; intros n Hs; cbn [fold_left get].
    - destruct (get kcmp k n); reflexivity.
    - pose proof (sorted_inv _ _ Hs) as [Hr Hlt]. rewrite (IH _ Hr).
      unfold merge_step. cbn [fst snd]. destruct (kcmp k k0) eqn:E.
      + rewrite (get_head_tail _ _ _ _ Hs E). pose proof (cmp_eq _ KL _ _ E) as <-.
        destruct (get kcmp k n) as [vs|] eqn:En.
        * destruct (gt v0 vs) eqn:Eg; [rewrite get_put, (cmp_refl _ KL) | rewrite En]; cbn; rewrite ?Eg; reflexivity.
        * rewrite get_put, (cmp_refl _ KL). reflexivity.
      + destruct (get kcmp k0 n) as [vs|]; [destruct (gt v0 vs)|]; rewrite ?get_put, ?E; reflexivity.
      + destruct (get kcmp k0 n) as [vs|]; [destruct (gt v0 vs)|]; rewrite ?get_put, ?E; reflexivity.
  Qed.
End MapFacts.

(* ================================================================== change id of a merge tree *)
Definition cle (a b : cid) : Prop := cid_cmp a b <> Gt.
Lemma cle_refl a : cle a a.
Proof. unfold cle. rewrite (cmp_refl _ cid_laws). discriminate. Qed.
Lemma cle_trans a b c : cle a b -> cle b c -> cle a c.
Proof.
  unfold cle. intros H1 H2. destruct (cid_cmp a b) eqn:E1; [| |congruence].
  - apply (cmp_eq _ cid_laws) in E1. subst. exact H2.
  - destruct (cid_cmp b c) eqn:E2; [| |congruence].
    + apply (cmp_eq _ cid_laws) in E2. subst. rewrite E1. discriminate.
    + rewrite (cmp_trans _ cid_laws _ _ _ E1 E2). discriminate.
Qed.
Lemma cle_antisym a b : cle a b -> cle b a -> a = b.
Proof.
  unfold cle. intros H1 H2. rewrite (cmp_antisym _ cid_laws a b) in H2.
  destruct (cid_cmp a b) eqn:E; cbn in H2; try congruence.
  apply (cmp_eq _ cid_laws). exact E.
Qed.
Lemma cle_total a b : cle a b \/ cle b a.
Proof.
  unfold cle. rewrite (cmp_antisym _ cid_laws a b). destruct (cid_cmp a b); cbn;
    [left | left | right]; discriminate.
Qed.
Lemma cid_gtb_false a b : cid_gtb a b = false -> cle a b.
Proof. unfold cid_gtb, cle. destruct (cid_cmp a b); congruence. Qed.
Lemma cid_gtb_true a b : cid_gtb a b = true -> cle b a.
Proof.
  unfold cid_gtb, cle. rewrite (cmp_antisym _ cid_laws a b). destruct (cid_cmp a b); cbn; congruence.
Qed.

Definition is_node (s : shape) : Prop := match s with Nd _ _ => True | L _ => False end.
Definition same_leafset (s1 s2 : shape) : Prop := forall i, In i (leaves s1) <-> In i (leaves s2).

Section CidMax.
  Context {M : Type}.
  Variable mrg : M -> M -> M.
  Variable ins : list (cid * M).

  Fixpoint wf (s : shape) : Prop :=
    match s with L i => nth_error ins (N.to_nat i) <> None | Nd a b => wf a /\ wf b end.

  Lemma eval_some s : wf s -> exists c m, eval mrg ins s = Some (c, m).
  Proof.
    induction s as [i|a IHa b IHb]; cbn [wf eval].
    - destruct (nth_error ins (N.to_nat i)) as [[c m]|]; [intros _; eauto | congruence].
    - intros [Ha Hb]. destruct (IHa Ha) as [ca [ma ->]]. destruct (IHb Hb) as [cb [mb ->]].
      unfold repl_merge. cbn [fst snd]. destruct (cid_gtb ca cb); eauto.
  Qed.

  (* the change id of a result is the greatest change id of the replicas below the tree *)
  Definition cid_max_of (s : shape) (c : cid) : Prop :=
    (forall i ci mi, In i (leaves s) -> nth_error ins (N.to_nat i) = Some (ci, mi) -> cle ci c) /\
    (exists i mi, In i (leaves s) /\ nth_error ins (N.to_nat i) = Some (c, mi)).

  Lemma eval_cid_max s : forall c m, eval mrg ins s = Some (c, m) -> cid_max_of s c.
  Proof.
    induction s as [i|a IHa b IHb]; intros c m; cbn [eval leaves].
    - intros H. split.
      + intros j cj mj [<-|[]] Hj. rewrite H in Hj. injection Hj as <- _. apply cle_refl.
      + exists i, m. split; [left; reflexivity | exact H].
    - destruct (eval mrg ins a) as [[ca ma]|]; [|discriminate].
      destruct (eval mrg ins b) as [[cb mb]|]; [|discriminate].
      destruct (IHa _ _ eq_refl) as [Ua [ia [mia [Hia Eia]]]].
      destruct (IHb _ _ eq_refl) as [Ub [ib [mib [Hib Eib]]]].
      unfold repl_merge. cbn [fst snd]. destruct (cid_gtb ca cb) eqn:G; intros [= <- _].
      + apply cid_gtb_true in G. split.
        * intros j cj mj Hj Ej. apply in_app_or in Hj as [Hj|Hj]; [exact (Ua _ _ _ Hj Ej)|].
          exact (cle_trans _ _ _ (Ub _ _ _ Hj Ej) G).
        * exists ia, mia. split; [apply in_or_app; left; exact Hia | exact Eia].
      + apply cid_gtb_false in G. split.
        * intros j cj mj Hj Ej. apply in_app_or in Hj as [Hj|Hj]; [|exact (Ub _ _ _ Hj Ej)].
          exact (cle_trans _ _ _ (Ua _ _ _ Hj Ej) G).
        * exists ib, mib. split; [apply in_or_app; right; exact Hib | exact Eib].
  Qed.

  Lemma cid_max_unique s1 s2 c1 c2 :
    same_leafset s1 s2 -> cid_max_of s1 c1 -> cid_max_of s2 c2 -> c1 = c2.
  Proof.
    intros Hl [U1 [i1 [m1 [H1 E1]]]] [U2 [i2 [m2 [H2 E2]]]]. apply cle_antisym.
    - apply (U2 i1 c1 m1); [apply Hl; exact H1 | exact E1].
    - apply (U1 i2 c2 m2); [apply Hl; exact H2 | exact E2].
  Qed.
End CidMax.

(* ================================================================== the lattice argument *)
Section Lattice.
  Context {K V : Type}.
  Variable kcmp : K -> K -> comparison.
  Hypothesis KL : CmpLaws kcmp.
  Variable gt : V -> V -> bool.
  Variable dead : V -> bool.
  Hypothesis gt_asym : forall a b, gt a b = true -> gt b a = false.
  Hypothesis gt_trans : forall a b c, gt a b = true -> gt b c = true -> gt a c = true.

  Notation kvmap := (list (K * V)).
  Notation srt := (sorted (V:=V) kcmp).
  Notation lk := (get (V:=V) kcmp).

  (* the generic merge: pointwise "older replaces newer if strictly greater", then trim *)
  Definition gmerge (n o : kvmap) : kvmap :=
    retain (fun v => negb (dead v)) (merge_raw kcmp gt n o).
  Definition tv (a : option V) : option V :=
    match a with Some x => if dead x then None else Some x | None => None end.

  Lemma get_gmerge k n o : srt n -> srt o ->
    lk k (gmerge n o) = tv (jv gt (lk k n) (lk k o)).
  Proof.
    intros Hn Ho. unfold gmerge. rewrite (get_retain kcmp KL) by (apply (merge_raw_sorted kcmp KL); exact Hn).
    rewrite (get_merge_raw kcmp KL) by exact Ho. unfold tv.
    destruct (jv gt (lk k n) (lk k o)) as [v|]; [destruct (dead v)|]; reflexivity.
  Qed.
  Lemma gmerge_sorted n o : srt n -> srt (gmerge n o).
  Proof. intros Hn. unfold gmerge, retain. apply filter_sorted. apply (merge_raw_sorted kcmp KL). exact Hn. Qed.

  Definition comparable (x y : V) : Prop := x = y \/ gt x y = true \/ gt y x = true.

  Lemma jv_cases a b : jv gt a b = a \/ jv gt a b = b.
  Proof. destruct a as [x|], b as [y|]; cbn; auto. destruct (gt y x); auto. Qed.

  Lemma jv_comm a b :
    (forall x y, a = Some x -> b = Some y -> comparable x y) -> jv gt a b = jv gt b a.
  Proof.
    destruct a as [x|], b as [y|]; cbn; auto. intros H.
    destruct (H x y eq_refl eq_refl) as [->|[G|G]].
    - destruct (gt y y); reflexivity.
    - rewrite G, (gt_asym _ _ G). reflexivity.
    - rewrite G, (gt_asym _ _ G). reflexivity.
  Qed.

  (* trimming before a further merge does not change the trimmed result, as long as expired
     revocations are expired everywhere ("window") *)
  Lemma tv_jv_step X Y x y :
    (forall a b, X = Some a -> Y = Some b -> comparable a b /\ dead a = dead b) ->
    (x = X \/ x = tv X) -> (y = Y \/ y = tv Y) ->
    tv (jv gt x y) = tv (jv gt X Y) /\ tv (jv gt y x) = tv (jv gt X Y).
  Proof.
    intros H Hx Hy. destruct X as [a|], Y as [b|].
    - destruct (H a b eq_refl eq_refl) as [Hc Hd]. assert (Db : dead b = dead a) by congruence.
      destruct Hx as [->| ->], Hy as [->| ->]; cbn [tv]; rewrite ?Db;
        destruct (dead a) eqn:Da; cbn [tv jv]; rewrite ?Db, ?Da;
        destruct (gt b a) eqn:Gba; destruct (gt a b) eqn:Gab; cbn [tv jv]; rewrite ?Db, ?Da;
        try (split; reflexivity);
        try (rewrite (gt_asym _ _ Gab) in Gba; discriminate);
        (destruct Hc as [Hc|[Hc|Hc]]; [subst b | congruence | congruence]); split; reflexivity.
    - destruct Hx as [->| ->], Hy as [->| ->]; cbn [tv jv]; destruct (dead a) eqn:Da; cbn [tv jv]; rewrite ?Da; split; reflexivity.
    - destruct Hx as [->| ->], Hy as [->| ->]; cbn [tv jv]; destruct (dead b) eqn:Db; cbn [tv jv]; rewrite ?Db; split; reflexivity.
    - destruct Hx as [->| ->], Hy as [->| ->]; cbn [tv jv]; split; reflexivity.
  Qed.

  (* ---- "is at least": the order in which the merge keeps the greater element *)
  Definition oge (x y : option V) : Prop :=
    match y with
    | None => True
    | Some b => match x with Some a => a = b \/ gt a b = true | None => False end
    end.
  Lemma oge_refl x : oge x x.
  Proof. destruct x; cbn; auto. Qed.
  Lemma oge_trans x y z : oge x y -> oge y z -> oge x z.
  Proof.
    destruct z as [c|]; [|intros; exact I]. destruct y as [b|]; [|intros _ []].
    destruct x as [a|]; [|intros []]. cbn. intros [->|H1] [->|H2]; auto.
    right. exact (gt_trans _ _ _ H1 H2).
  Qed.
  Lemma oge_antisym x y : oge x y -> oge y x -> x = y.
  Proof.
    destruct x as [a|], y as [b|]; cbn; try tauto.
    intros [->|H1] [H2|H2]; try congruence. rewrite (gt_asym _ _ H1) in H2. discriminate.
  Qed.
  Lemma oge_jv_l a b : oge (jv gt a b) a.
  Proof. destruct a as [x|], b as [y|]; cbn; auto. destruct (gt y x) eqn:G; auto. Qed.
  Lemma oge_jv_r a b :
    (forall x y, a = Some x -> b = Some y -> comparable x y) -> oge (jv gt a b) b.
  Proof.
    destruct a as [x|], b as [y|]; cbn; auto. intros H. destruct (gt y x) eqn:G; auto.
    destruct (H x y eq_refl eq_refl) as [->|[G'|G']]; auto. congruence.
  Qed.

  (* ---- the replicas *)
  Variable ins : list (cid * kvmap).
  Definition Sorted_ins : Prop := forall c m, In (c, m) ins -> srt m.
  (* per-id data is consistent: two records under one key are equal or strictly ordered *)
  Definition Cons : Prop := forall c1 m1 c2 m2 k v1 v2,
    In (c1, m1) ins -> In (c2, m2) ins -> lk k m1 = Some v1 -> lk k m2 = Some v2 -> comparable v1 v2.
  (* window: an expired revocation held by one replica is expired in every replica holding the key *)
  Definition Win : Prop := forall c1 m1 c2 m2 k v1 v2,
    In (c1, m1) ins -> In (c2, m2) ins -> lk k m1 = Some v1 -> lk k m2 = Some v2 ->
    dead v1 = true -> dead v2 = true.

  (* the greatest record of key k among the replicas below the tree *)
  Fixpoint sem (s : shape) (k : K) : option V :=
    match s with
    | L i => match nth_error ins (N.to_nat i) with Some (_, m) => lk k m | None => None end
    | Nd a b => jv gt (sem a k) (sem b k)
    end.

  Lemma sem_leaf s k v : sem s k = Some v -> exists c m, In (c, m) ins /\ lk k m = Some v.
  Proof.
    induction s as [i|a IHa b IHb]; cbn [sem].
    - destruct (nth_error ins (N.to_nat i)) as [[c m]|] eqn:E; [|discriminate].
      intros H. exists c, m. split; [exact (nth_error_In _ _ E) | exact H].
    - intros H. destruct (jv_cases (sem a k) (sem b k)) as [E|E]; rewrite E in H; auto.
  Qed.

  Lemma sem_comparable a b k x y : Cons -> sem a k = Some x -> sem b k = Some y -> comparable x y.
  Proof.
    intros HC Hx Hy. destruct (sem_leaf _ _ _ Hx) as [c1 [m1 [I1 G1]]].
    destruct (sem_leaf _ _ _ Hy) as [c2 [m2 [I2 G2]]]. exact (HC _ _ _ _ _ _ _ I1 I2 G1 G2).
  Qed.
  Lemma sem_dead_eq a b k x y : Win -> sem a k = Some x -> sem b k = Some y -> dead x = dead y.
  Proof.
    intros HW Hx Hy. destruct (sem_leaf _ _ _ Hx) as [c1 [m1 [I1 G1]]].
    destruct (sem_leaf _ _ _ Hy) as [c2 [m2 [I2 G2]]].
    destruct (dead x) eqn:Dx, (dead y) eqn:Dy; try reflexivity.
    - rewrite (HW _ _ _ _ _ _ _ I1 I2 G1 G2 Dx) in Dy. discriminate.
    - rewrite (HW _ _ _ _ _ _ _ I2 I1 G2 G1 Dy) in Dx. discriminate.
  Qed.

  (* what a merge tree computes, key by key *)
  Lemma eval_spec s : Sorted_ins -> Cons -> Win -> wf ins s ->
    exists c m, eval gmerge ins s = Some (c, m) /\ srt m /\
      (forall k, lk k m = sem s k \/ lk k m = tv (sem s k)) /\
      (is_node s -> forall k, lk k m = tv (sem s k)).
  Proof.
    intros HS HC HW. induction s as [i|a IHa b IHb]; cbn [wf eval sem].
    - destruct (nth_error ins (N.to_nat i)) as [[c m]|] eqn:E; [|congruence]. intros _.
      exists c, m. split; [reflexivity|]. split; [exact (HS _ _ (nth_error_In _ _ E))|].
      split; [intros k; left; reflexivity | intros []].
    - intros [Wa Wb]. destruct (IHa Wa) as [ca [ma [Ea [Sa [Ga _]]]]].
      destruct (IHb Wb) as [cb [mb [Eb [Sb [Gb _]]]]]. rewrite Ea, Eb.
      assert (Hstep : forall k,
        tv (jv gt (lk k ma) (lk k mb)) = tv (jv gt (sem a k) (sem b k)) /\
        tv (jv gt (lk k mb) (lk k ma)) = tv (jv gt (sem a k) (sem b k))).
      { intros k. apply tv_jv_step; [|exact (Ga k) | exact (Gb k)].
        intros x y Hx Hy. split; [exact (sem_comparable _ _ _ _ _ HC Hx Hy) | exact (sem_dead_eq _ _ _ _ _ HW Hx Hy)]. }
      unfold repl_merge. cbn [fst snd]. destruct (cid_gtb ca cb).
      + exists ca, (gmerge ma mb). split; [reflexivity|]. split; [apply gmerge_sorted; exact Sa|].
        assert (H : forall k, lk k (gmerge ma mb) = tv (jv gt (sem a k) (sem b k))).
        { intros k. rewrite (get_gmerge k _ _ Sa Sb). exact (proj1 (Hstep k)). }
        split; [intros k; right; exact (H k) | intros _ k; exact (H k)].
      + exists cb, (gmerge mb ma). split; [reflexivity|]. split; [apply gmerge_sorted; exact Sb|].
        assert (H : forall k, lk k (gmerge mb ma) = tv (jv gt (sem a k) (sem b k))).
        { intros k. rewrite (get_gmerge k _ _ Sb Sa). exact (proj2 (Hstep k)). }
        split; [intros k; right; exact (H k) | intros _ k; exact (H k)].
  Qed.

  (* sem is the greatest leaf value ... *)
  Lemma sem_ub s k : Cons -> forall i c m,
    In i (leaves s) -> nth_error ins (N.to_nat i) = Some (c, m) -> oge (sem s k) (lk k m).
  Proof.
    intros HC. induction s as [j|a IHa b IHb]; intros i c m; cbn [leaves sem].
    - intros [<-|[]] E. rewrite E. apply oge_refl.
    - intros Hi E. apply in_app_or in Hi as [Hi|Hi].
      + exact (oge_trans _ _ _ (oge_jv_l _ _) (IHa _ _ _ Hi E)).
      + refine (oge_trans _ _ _ (oge_jv_r _ _ _) (IHb _ _ _ Hi E)).
        intros x y Hx Hy. exact (sem_comparable _ _ _ _ _ HC Hx Hy).
  Qed.
  (* ... and it is attained *)
  Lemma sem_attained s k : sem s k = None \/
    exists i c m, In i (leaves s) /\ nth_error ins (N.to_nat i) = Some (c, m) /\ lk k m = sem s k.
  Proof.
    induction s as [j|a IHa b IHb]; cbn [leaves sem].
    - destruct (nth_error ins (N.to_nat j)) as [[c m]|] eqn:E; [|left; reflexivity].
      right. exists j, c, m. split; [left; reflexivity|]. split; [exact E | reflexivity].
    - destruct (jv_cases (sem a k) (sem b k)) as [E|E]; rewrite E.
      + destruct IHa as [H|[i [c [m [H1 [H2 H3]]]]]]; [left; exact H|]. right. exists i, c, m.
        split; [apply in_or_app; left; exact H1 | split; assumption].
      + destruct IHb as [H|[i [c [m [H1 [H2 H3]]]]]]; [left; exact H|]. right. exists i, c, m.
        split; [apply in_or_app; right; exact H1 | split; assumption].
  Qed.

  Lemma sem_same_leaves s1 s2 k : Cons -> same_leafset s1 s2 -> sem s1 k = sem s2 k.
  Proof.
    intros HC Hl. apply oge_antisym.
    - destruct (sem_attained s2 k) as [H|[i [c [m [H1 [H2 H3]]]]]]; [rewrite H; exact I|].
      rewrite <- H3. apply (sem_ub s1 k HC i c m); [apply Hl; exact H1 | exact H2].
    - destruct (sem_attained s1 k) as [H|[i [c [m [H1 [H2 H3]]]]]]; [rewrite H; exact I|].
      rewrite <- H3. apply (sem_ub s2 k HC i c m); [apply Hl; exact H1 | exact H2].
  Qed.

  (* ORDER AND GROUPING INDEPENDENCE (generic) *)
  Theorem tree_indep s1 s2 : Sorted_ins -> Cons -> Win ->
    wf ins s1 -> wf ins s2 -> is_node s1 -> is_node s2 -> same_leafset s1 s2 ->
    eval gmerge ins s1 = eval gmerge ins s2.
  Proof.
    intros HS HC HW W1 W2 N1 N2 Hl.
    destruct (eval_spec s1 HS HC HW W1) as [c1 [m1 [E1 [S1 [_ G1]]]]].
    destruct (eval_spec s2 HS HC HW W2) as [c2 [m2 [E2 [S2 [_ G2]]]]].
    rewrite E1, E2. f_equal. f_equal.
    - exact (cid_max_unique ins s1 s2 c1 c2 Hl (eval_cid_max _ _ _ _ _ E1) (eval_cid_max _ _ _ _ _ E2)).
    - apply (sorted_ext kcmp KL _ _ S1 S2). intros k.
      rewrite (G1 N1 k), (G2 N2 k), (sem_same_leaves s1 s2 k HC Hl). reflexivity.
  Qed.

  (* DOMINANCE (generic): a record that is not expired, held by any replica below the tree,
     is in the result either itself or replaced by a strictly greater, not expired record that
     some replica below the tree holds and that is at least every replica's record *)
  Theorem tree_dominance s i ci mi k v c m : Sorted_ins -> Cons -> Win ->
    wf ins s -> is_node s -> eval gmerge ins s = Some (c, m) ->
    In i (leaves s) -> nth_error ins (N.to_nat i) = Some (ci, mi) -> lk k mi = Some v -> dead v = false ->
    exists v', lk k m = Some v' /\ (v' = v \/ gt v' v = true) /\ dead v' = false /\
      (exists j cj mj, In j (leaves s) /\ nth_error ins (N.to_nat j) = Some (cj, mj) /\ lk k mj = Some v') /\
      (forall j cj mj w, In j (leaves s) -> nth_error ins (N.to_nat j) = Some (cj, mj) -> lk k mj = Some w ->
         v' = w \/ gt v' w = true).
  Proof.
    intros HS HC HW W N E Hi Ei Gv Dv.
    destruct (eval_spec s HS HC HW W) as [c' [m' [E' [S' [_ G']]]]]. rewrite E in E'. injection E' as <- <-.
    pose proof (sem_ub s k HC i ci mi Hi Ei) as Hub. rewrite Gv in Hub.
    destruct (sem s k) as [v'|] eqn:Es; [|destruct Hub]. cbn in Hub.
    assert (Dv' : dead v' = false).
    { destruct (sem_leaf _ _ _ Es) as [c1 [m1 [I1 G1]]]. destruct (dead v') eqn:D; [|reflexivity].
      rewrite (HW _ _ _ _ _ _ _ I1 (nth_error_In _ _ Ei) G1 Gv D) in Dv. discriminate. }
    exists v'. split; [rewrite (G' N k), Es; cbn; rewrite Dv'; reflexivity|].
    split; [exact Hub|]. split; [exact Dv'|]. split.
    - destruct (sem_attained s k) as [H|[j [cj [mj [H1 [H2 H3]]]]]]; [congruence|].
      exists j, cj, mj. split; [exact H1|]. split; [exact H2|]. rewrite H3. exact Es.
    - intros j cj mj w Hj Ej Gw. pose proof (sem_ub s k HC j cj mj Hj Ej) as H. rewrite Es, Gw in H. exact H.
  Qed.

  (* TRIM ONLY REMOVES WHAT IS EXPIRED (generic): a key missing from the result is missing
     from every replica below the tree, or its greatest record is expired *)
  Theorem tree_trim_only_expired s k c m : Sorted_ins -> Cons -> Win ->
    wf ins s -> is_node s -> eval gmerge ins s = Some (c, m) -> lk k m = None ->
    (forall j cj mj, In j (leaves s) -> nth_error ins (N.to_nat j) = Some (cj, mj) -> lk k mj = None) \/
    (exists v, dead v = true /\ exists j cj mj, In j (leaves s) /\ nth_error ins (N.to_nat j) = Some (cj, mj) /\ lk k mj = Some v).
  Proof.
    intros HS HC HW W N E Hn.
    destruct (eval_spec s HS HC HW W) as [c' [m' [E' [S' [_ G']]]]]. rewrite E in E'. injection E' as <- <-.
    rewrite (G' N k) in Hn. destruct (sem s k) as [v|] eqn:Es.
    - right. exists v. cbn in Hn. split; [destruct (dead v); [reflexivity | discriminate]|].
      destruct (sem_attained s k) as [H|[j [cj [mj [H1 [H2 H3]]]]]]; [congruence|].
      exists j, cj, mj. split; [exact H1|]. split; [exact H2|]. rewrite H3. exact Es.
    - left. intros j cj mj Hj Ej. pose proof (sem_ub s k HC j cj mj Hj Ej) as H. rewrite Es in H.
      destruct (lk k mj); [destruct H | reflexivity].
  Qed.

  (* every key of a result is a key of some replica below the tree *)
  Lemma eval_keys s c m k v : Sorted_ins -> Cons -> Win -> wf ins s ->
    eval gmerge ins s = Some (c, m) -> lk k m = Some v -> exists c' m', In (c', m') ins /\ lk k m' <> None.
  Proof.
    intros HS HC HW W E Gv.
    destruct (eval_spec s HS HC HW W) as [c' [m' [E' [S' [G' _]]]]]. rewrite E in E'. injection E' as <- <-.
    assert (H : exists w, sem s k = Some w).
    { destruct (G' k) as [H|H]; rewrite Gv in H; [eauto|]. destruct (sem s k) as [w|]; [eauto | discriminate]. }
    destruct H as [w Hw]. destruct (sem_leaf _ _ _ Hw) as [c1 [m1 [I1 G1]]].
    exists c1, m1. split; [exact I1 | congruence].
  Qed.
End Lattice.

(* ================================================================== the concrete orders *)
Lemma sstate_laws : CmpLaws sstate_cmp.
Proof.
  split.
  - intros [ca|ta|] [cb|tb|]; cbn; try discriminate; intros H.
    + apply (cmp_eq _ cid_laws) in H. subst. reflexivity.
    + apply N.compare_eq_iff in H. subst. reflexivity.
    + reflexivity.
  - intros [ca|ta|]; cbn; [apply (cmp_refl _ cid_laws) | apply N.compare_refl | reflexivity].
  - intros [ca|ta|] [cb|tb|]; cbn; try reflexivity;
      [apply (cmp_antisym _ cid_laws) | apply N.compare_antisym].
  - intros [ca|ta|] [cb|tb|] [cc|tc|]; cbn; try discriminate; try reflexivity.
    + intros H1 H2. exact (cmp_trans _ cid_laws _ _ _ H2 H1).
    + apply (cmp_trans _ N_laws).
Qed.

Lemma sval_gt_asym a b : sval_gt a b = true -> sval_gt b a = false.
Proof.
  unfold sval_gt. rewrite (cmp_antisym _ sstate_laws (s_state a) (s_state b)).
  destruct (sstate_cmp (s_state a) (s_state b)); cbn; congruence.
Qed.
Lemma cmp_gt_trans {K} (cmp : K -> K -> comparison) (HL : CmpLaws cmp) a b c :
  cmp a b = Gt -> cmp b c = Gt -> cmp a c = Gt.
Proof.
  intros H1 H2. rewrite (cmp_antisym _ HL c a).
  assert (Hba : cmp b a = Lt) by (rewrite (cmp_antisym _ HL a b), H1; reflexivity).
  assert (Hcb : cmp c b = Lt) by (rewrite (cmp_antisym _ HL b c), H2; reflexivity).
  rewrite (cmp_trans _ HL _ _ _ Hcb Hba). reflexivity.
Qed.
Lemma sval_gt_trans a b c : sval_gt a b = true -> sval_gt b c = true -> sval_gt a c = true.
Proof.
  unfold sval_gt. destruct (sstate_cmp (s_state a) (s_state b)) eqn:E1; try discriminate.
  destruct (sstate_cmp (s_state b) (s_state c)) eqn:E2; try discriminate. intros _ _.
  rewrite (cmp_gt_trans _ sstate_laws _ _ _ E1 E2). reflexivity.
Qed.
Lemma cid_ltb_lt a b : cid_ltb a b = true <-> cid_cmp a b = Lt.
Proof. unfold cid_ltb. destruct (cid_cmp a b); split; congruence. Qed.
Lemma kval_gt_spec a b : kval_gt a b = true <->
  (krank (k_status b) < krank (k_status a) \/
   (krank (k_status a) = krank (k_status b) /\ cid_cmp (k_cid a) (k_cid b) = Lt)).
Proof. unfold kval_gt. rewrite orb_true_iff, andb_true_iff, N.ltb_lt, N.eqb_eq, cid_ltb_lt. tauto. Qed.
Lemma kval_gt_asym a b : kval_gt a b = true -> kval_gt b a = false.
Proof.
  intros H. apply kval_gt_spec in H. destruct (kval_gt b a) eqn:E; [|reflexivity].
  apply kval_gt_spec in E. destruct H as [H|[H1 H2]], E as [E|[E1 E2]]; try lia.
  rewrite (cmp_antisym _ cid_laws (k_cid a) (k_cid b)), H2 in E2. discriminate.
Qed.
Lemma kval_gt_trans a b c : kval_gt a b = true -> kval_gt b c = true -> kval_gt a c = true.
Proof.
  intros H1 H2. apply kval_gt_spec in H1. apply kval_gt_spec in H2. apply kval_gt_spec.
  destruct H1 as [H1|[H1 H1']], H2 as [H2|[H2 H2']]; try (left; lia).
  right. split; [lia|]. exact (cmp_trans _ cid_laws _ _ _ H1' H2').
Qed.

(* a strictly greater state than a revocation is an earlier revocation *)
Lemma sval_gt_revoked v' v rc : sval_gt v' v = true -> s_state v = RevokedAt rc ->
  exists rc', s_state v' = RevokedAt rc' /\ cid_cmp rc' rc = Lt.
Proof.
  unfold sval_gt. intros H E. rewrite E in H. destruct (s_state v') as [rc'|t|]; cbn in H; try discriminate.
  exists rc'. split; [reflexivity|]. rewrite (cmp_antisym _ cid_laws rc rc').
  destruct (cid_cmp rc rc'); cbn; congruence.
Qed.

(* ================================================================== the predicates of the theorems *)
Section Preds.
  Context {K V : Type}.
  (* R holds between any two records stored under one key, in any two replicas *)
  Definition entries_rel (R : V -> V -> Prop) (ins : list (cid * list (K * V))) : Prop :=
    forall c1 m1 c2 m2 k v1 v2,
      In (c1, m1) ins -> In (c2, m2) ins -> In (k, v1) m1 -> In (k, v2) m2 -> R v1 v2.
  (* every replica is a map: strictly ascending keys *)
  Definition WellFormed (kcmp : K -> K -> comparison) (ins : list (cid * list (K * V))) : Prop :=
    forall c m, In (c, m) ins -> sorted kcmp m.
  (* the replicas hold at most n distinct keys in total *)
  Definition Fits (n : nat) (ins : list (cid * list (K * V))) : Prop :=
    exists ks : list K, (length ks <= n)%nat /\ forall c m k v, In (c, m) ins -> In (k, v) m -> In k ks.

  Lemma entries_rel_get kcmp (KL : CmpLaws kcmp) R ins :
    entries_rel R ins -> forall c1 m1 c2 m2 k v1 v2,
      In (c1, m1) ins -> In (c2, m2) ins -> get kcmp k m1 = Some v1 -> get kcmp k m2 = Some v2 -> R v1 v2.
  Proof.
    intros H c1 m1 c2 m2 k v1 v2 I1 I2 G1 G2.
    destruct (get_in kcmp _ _ _ G1) as [k1 [J1 E1]]. destruct (get_in kcmp _ _ _ G2) as [k2 [J2 E2]].
    apply (cmp_eq _ KL) in E1. apply (cmp_eq _ KL) in E2. subst k1 k2.
    exact (H _ _ _ _ _ _ _ I1 I2 J1 J2).
  Qed.
End Preds.

Definition SessConsistent : list (cid * smap) -> Prop :=
  entries_rel (fun v1 v2 => s_state v1 = s_state v2 -> v1 = v2).
Definition SessWindow (trim : cid) : list (cid * smap) -> Prop :=
  entries_rel (fun v1 v2 => sval_dead trim v1 = true -> sval_dead trim v2 = true).
(* distinct sessions were issued at distinct times (what the 48-limit eviction relies on) *)
Definition SessIssuedDistinct (ins : list (cid * smap)) : Prop :=
  forall c1 m1 c2 m2 k1 k2 v1 v2, In (c1, m1) ins -> In (c2, m2) ins -> In (k1, v1) m1 -> In (k2, v2) m2 ->
    (k1 = k2 <-> s_issued v1 = s_issued v2).
Definition KeyConsistent : list (cid * kmap) -> Prop :=
  entries_rel (fun v1 v2 => k_status v1 = k_status v2 -> k_pay v1 = k_pay v2).
Definition KeyWindow (trim : cid) : list (cid * kmap) -> Prop :=
  entries_rel (fun v1 v2 => kval_dead trim v1 = true -> kval_dead trim v2 = true).
Definition AuditConsistent : list (cid * amap) -> Prop := entries_rel (fun v1 v2 : N => v1 = v2).

(* ================================================================== sessions *)
Definition s_gmerge (trim : cid) : smap -> smap -> smap := gmerge N.compare sval_gt (sval_dead trim).

Lemma sess_cons ins : WellFormed N.compare ins -> SessConsistent ins -> Cons N.compare sval_gt ins.
Proof.
  intros HW HC c1 m1 c2 m2 k v1 v2 I1 I2 G1 G2. unfold comparable, sval_gt.
  pose proof (entries_rel_get N.compare N_laws _ _ HC _ _ _ _ _ _ _ I1 I2 G1 G2) as H.
  rewrite (cmp_antisym _ sstate_laws (s_state v1) (s_state v2)).
  destruct (sstate_cmp (s_state v1) (s_state v2)) eqn:E; cbn; auto.
  left. apply H. exact (cmp_eq _ sstate_laws _ _ E).
Qed.
Lemma sess_win trim ins : SessWindow trim ins -> Win N.compare (sval_dead trim) ins.
Proof.
  intros HWn c1 m1 c2 m2 k v1 v2 I1 I2 G1 G2.
  exact (entries_rel_get N.compare N_laws _ _ HWn _ _ _ _ _ _ _ I1 I2 G1 G2).
Qed.

Lemma sess_merge_oauth trim n o : sess_merge true trim n o = s_gmerge trim n o.
Proof. reflexivity. Qed.
Lemma sess_merge_fits trim n o :
  (length (s_gmerge trim n o) <= SESSION_MAXIMUM)%nat -> sess_merge false trim n o = s_gmerge trim n o.
Proof.
  intros H. unfold sess_merge, sess_trim.
  change (retain (fun v : sval => negb (sval_dead trim v)) (merge_raw N.compare sval_gt n o)) with (s_gmerge trim n o).
  unfold evict. destruct (Nat.ltb SESSION_MAXIMUM (length (s_gmerge trim n o))) eqn:E; [|reflexivity].
  apply Nat.ltb_lt in E. lia.
Qed.

Section FitsLen.
  Context {K V : Type}.
  Variable kcmp : K -> K -> comparison.
  Hypothesis KL : CmpLaws kcmp.
  Variable gt : V -> V -> bool.
  Variable dead : V -> bool.
  Hypothesis gt_asym : forall a b, gt a b = true -> gt b a = false.
  Variable ins : list (cid * list (K * V)).

  (* results of merge trees are no larger than the number of distinct keys of the replicas *)
  Lemma eval_length n s c m :
    Sorted_ins kcmp ins -> Cons kcmp gt ins -> Win kcmp dead ins -> Fits n ins -> wf ins s ->
    eval (gmerge kcmp gt dead) ins s = Some (c, m) -> (length m <= n)%nat.
  Proof.
    intros HS HC HW [ks [Hlen Hks]] W E.
    destruct (eval_spec kcmp KL gt dead gt_asym ins s HS HC HW W) as [c' [m' [E' [S' _]]]].
    rewrite E in E'. injection E' as <- <-.
    rewrite <- (map_length fst m). etransitivity; [|exact Hlen].
    apply NoDup_incl_length; [apply (sorted_nodup kcmp KL); exact S'|].
    intros k Hk. apply in_map_iff in Hk as [[k' v] [<- Hin]]. cbn [fst].
    pose proof (in_get kcmp KL _ _ _ S' Hin) as G.
    destruct (eval_keys kcmp KL gt dead gt_asym ins s c m k' v HS HC HW W E G) as [c1 [m1 [I1 G1]]].
    destruct (get kcmp k' m1) as [w|] eqn:Gw; [|congruence].
    destruct (get_in kcmp _ _ _ Gw) as [k2 [J2 E2]]. apply (cmp_eq _ KL) in E2. subst k2.
    exact (Hks _ _ _ _ I1 J2).
  Qed.
End FitsLen.

(* with at most SESSION_MAXIMUM distinct sessions, the eviction never fires in any tree *)
Lemma eval_sess_fits trim ins s :
  WellFormed N.compare ins -> SessConsistent ins -> SessWindow trim ins -> Fits SESSION_MAXIMUM ins ->
  wf ins s -> eval (sess_merge false trim) ins s = eval (s_gmerge trim) ins s.
Proof.
  intros HWf HC HWn HF. induction s as [i|a IHa b IHb]; cbn [wf]; [reflexivity|].
  intros [Wa Wb].
  assert (Hlen : forall c m, eval (s_gmerge trim) ins (Nd a b) = Some (c, m) -> (length m <= SESSION_MAXIMUM)%nat).
  { intros c m E. refine (eval_length N.compare N_laws sval_gt (sval_dead trim) sval_gt_asym ins _ (Nd a b) c m
      HWf (sess_cons _ HWf HC) (sess_win _ _ HWn) HF _ E). split; assumption. }
  cbn [eval] in *. rewrite (IHa Wa), (IHb Wb).
  destruct (eval (s_gmerge trim) ins a) as [[ca ma]|]; [|reflexivity].
  destruct (eval (s_gmerge trim) ins b) as [[cb mb]|]; [|reflexivity].
  unfold repl_merge in *. cbn [fst snd] in *. destruct (cid_gtb ca cb).
  - rewrite (sess_merge_fits trim ma mb (Hlen _ _ eq_refl)). reflexivity.
  - rewrite (sess_merge_fits trim mb ma (Hlen _ _ eq_refl)). reflexivity.
Qed.

Lemma sess_eval_generic oauth trim ins s :
  WellFormed N.compare ins -> SessConsistent ins -> SessWindow trim ins ->
  (oauth = true \/ Fits SESSION_MAXIMUM ins) -> wf ins s ->
  eval (sess_merge oauth trim) ins s = eval (s_gmerge trim) ins s.
Proof.
  intros HWf HC HWn [->|HF] W; [reflexivity|]. destruct oauth; [reflexivity|].
  exact (eval_sess_fits trim ins s HWf HC HWn HF W).
Qed.

Theorem sess_tree_indep oauth trim ins s1 s2 :
  WellFormed N.compare ins -> SessConsistent ins -> SessWindow trim ins ->
  (oauth = true \/ Fits SESSION_MAXIMUM ins) ->
  wf ins s1 -> wf ins s2 -> is_node s1 -> is_node s2 -> same_leafset s1 s2 ->
  eval (sess_merge oauth trim) ins s1 = eval (sess_merge oauth trim) ins s2.
Proof.
  intros HWf HC HWn HF W1 W2 N1 N2 Hl.
  rewrite !(sess_eval_generic oauth trim ins _ HWf HC HWn HF) by assumption.
  exact (tree_indep N.compare N_laws sval_gt (sval_dead trim) sval_gt_asym sval_gt_trans ins s1 s2
    HWf (sess_cons _ HWf HC) (sess_win _ _ HWn) W1 W2 N1 N2 Hl).
Qed.

Theorem sess_revocation_dominates oauth trim ins s i ci mi k v rc c m :
  WellFormed N.compare ins -> SessConsistent ins -> SessWindow trim ins ->
  (oauth = true \/ Fits SESSION_MAXIMUM ins) ->
  wf ins s -> is_node s -> eval (sess_merge oauth trim) ins s = Some (c, m) ->
  In i (leaves s) -> nth_error ins (N.to_nat i) = Some (ci, mi) -> In (k, v) mi ->
  s_state v = RevokedAt rc -> cid_ltb rc trim = false ->
  exists v' rc', In (k, v') m /\ s_state v' = RevokedAt rc' /\ cle rc' rc /\
    (exists j cj mj, In j (leaves s) /\ nth_error ins (N.to_nat j) = Some (cj, mj) /\ In (k, v') mj) /\
    (forall j cj mj w rw, In j (leaves s) -> nth_error ins (N.to_nat j) = Some (cj, mj) -> In (k, w) mj ->
       s_state w = RevokedAt rw -> cle rc' rw).
Proof.
  intros HWf HC HWn HF W Nn E Hi Ei Hin Est Hlive.
  rewrite (sess_eval_generic oauth trim ins _ HWf HC HWn HF W) in E.
  pose proof (HWf _ _ (nth_error_In _ _ Ei)) as Smi.
  assert (Dv : sval_dead trim v = false) by (unfold sval_dead; rewrite Est; exact Hlive).
  destruct (tree_dominance N.compare N_laws sval_gt (sval_dead trim) sval_gt_asym sval_gt_trans ins
    s i ci mi k v c m HWf (sess_cons _ HWf HC) (sess_win _ _ HWn) W Nn E Hi Ei (in_get _ N_laws _ _ _ Smi Hin) Dv)
    as [v' [G' [Hge [Dv' [[j [cj [mj [Hj [Ej Gj]]]]] Hall]]]]].
  assert (Hrev : forall w rw, s_state w = RevokedAt rw -> v' = w \/ sval_gt v' w = true ->
            exists rc', s_state v' = RevokedAt rc' /\ cle rc' rw).
  { intros w rw Ew [->|Hg].
    - exists rw. split; [exact Ew | apply cle_refl].
    - destruct (sval_gt_revoked _ _ _ Hg Ew) as [rc' [E1 E2]]. exists rc'. split; [exact E1|].
      unfold cle. rewrite E2. discriminate. }
  destruct (Hrev v rc Est Hge) as [rc' [Erc' Hle]].
  destruct (get_in N.compare _ _ _ G') as [k1 [J1 E1]]. apply (cmp_eq _ N_laws) in E1. subst k1.
  exists v', rc'. split; [exact J1|]. split; [exact Erc'|]. split; [exact Hle|]. split.
  - destruct (get_in N.compare _ _ _ Gj) as [k2 [J2 E2]]. apply (cmp_eq _ N_laws) in E2. subst k2.
    exists j, cj, mj. auto.
  - intros j' cj' mj' w rw Hj' Ej' Hw Ew.
    pose proof (in_get _ N_laws _ _ _ (HWf _ _ (nth_error_In _ _ Ej')) Hw) as Gw.
    destruct (Hrev w rw Ew (Hall _ _ _ _ Hj' Ej' Gw)) as [rc'' [E1 E2]]. congruence.
Qed.

Theorem sess_trim_only_expired oauth trim ins s k c m :
  WellFormed N.compare ins -> SessConsistent ins -> SessWindow trim ins ->
  (oauth = true \/ Fits SESSION_MAXIMUM ins) ->
  wf ins s -> is_node s -> eval (sess_merge oauth trim) ins s = Some (c, m) ->
  (forall v, ~ In (k, v) m) ->
  (forall j cj mj v, In j (leaves s) -> nth_error ins (N.to_nat j) = Some (cj, mj) -> ~ In (k, v) mj) \/
  (exists v rc, s_state v = RevokedAt rc /\ cid_ltb rc trim = true /\
     exists j cj mj, In j (leaves s) /\ nth_error ins (N.to_nat j) = Some (cj, mj) /\ In (k, v) mj).
Proof.
  intros HWf HC HWn HF W Nn E Hnot.
  rewrite (sess_eval_generic oauth trim ins _ HWf HC HWn HF W) in E. unfold s_gmerge in E.
  destruct (eval_spec N.compare N_laws sval_gt (sval_dead trim) sval_gt_asym ins s HWf (sess_cons _ HWf HC) (sess_win _ _ HWn) W)
    as [c' [m' [E' [S' _]]]]. pose proof (eq_trans (eq_sym E') E) as Heq. injection Heq as -> ->.
  assert (Gn : get N.compare k m = None).
  { destruct (get N.compare k m) as [v|] eqn:G; [|reflexivity].
    destruct (get_in N.compare _ _ _ G) as [k1 [J1 E1]]. apply (cmp_eq _ N_laws) in E1. subst k1.
    destruct (Hnot v J1). }
  destruct (tree_trim_only_expired N.compare N_laws sval_gt (sval_dead trim) sval_gt_asym sval_gt_trans ins
    s k c m HWf (sess_cons _ HWf HC) (sess_win _ _ HWn) W Nn E Gn) as [H|[v [Dv [j [cj [mj [Hj [Ej Gj]]]]]]]].
  - left. intros j cj mj v Hj Ej Hin.
    specialize (H j cj mj Hj Ej). rewrite (in_get _ N_laws _ _ _ (HWf _ _ (nth_error_In _ _ Ej)) Hin) in H. discriminate.
  - right. unfold sval_dead in Dv. destruct (s_state v) as [rc|t|] eqn:Es; try discriminate.
    exists v, rc. split; [exact Es|]. split; [exact Dv|].
    destruct (get_in N.compare _ _ _ Gj) as [k2 [J2 E2]]. apply (cmp_eq _ N_laws) in E2. subst k2.
    exists j, cj, mj. auto.
Qed.

(* merging a replica with itself only drops the expired revocations *)
Lemma gmerge_idem {K V} (kcmp : K -> K -> comparison) (KL : CmpLaws kcmp) gt (dead : V -> bool) m :
  sorted kcmp m -> gmerge kcmp gt dead m m = retain (fun v => negb (dead v)) m.
Proof.
  intros S. apply (sorted_ext kcmp KL).
  - apply gmerge_sorted; assumption.
  - apply filter_sorted. exact S.
  - intros k. rewrite (get_gmerge kcmp KL gt dead k m m S S), (get_retain kcmp KL _ k m S).
    destruct (get kcmp k m) as [v|]; cbn; [|reflexivity].
    destruct (gt v v); cbn; destruct (dead v); reflexivity.
Qed.

(* ================================================================== keys *)
Definition k_gmerge (trim : cid) : kmap -> kmap -> kmap := gmerge N.compare kval_gt (kval_dead trim).
Lemma key_merge_generic trim : key_merge trim = k_gmerge trim.
Proof. reflexivity. Qed.

Lemma krank_inj a b : krank a = krank b -> a = b.
Proof. destruct a, b; cbn; congruence. Qed.

Lemma key_cons ins : WellFormed N.compare ins -> KeyConsistent ins -> Cons N.compare kval_gt ins.
Proof.
  intros HW HC c1 m1 c2 m2 k v1 v2 I1 I2 G1 G2. unfold comparable.
  pose proof (entries_rel_get N.compare N_laws _ _ HC _ _ _ _ _ _ _ I1 I2 G1 G2) as Hp.
  destruct (N.lt_trichotomy (krank (k_status v1)) (krank (k_status v2))) as [H|[H|H]].
  - right. right. apply kval_gt_spec. left. exact H.
  - destruct (cid_cmp (k_cid v1) (k_cid v2)) eqn:E.
    + left. apply (cmp_eq _ cid_laws) in E. pose proof (krank_inj _ _ H) as Hs. specialize (Hp Hs).
      destruct v1 as [[s1 c1'] p1], v2 as [[s2 c2'] p2]. unfold k_status, k_cid, k_pay in *. cbn in *. congruence.
    + right. left. apply kval_gt_spec. right. split; [exact H | exact E].
    + right. right. apply kval_gt_spec. right. split; [symmetry; exact H|].
      rewrite (cmp_antisym _ cid_laws (k_cid v1) (k_cid v2)), E. reflexivity.
  - right. left. apply kval_gt_spec. left. exact H.
Qed.
Lemma key_win trim ins : KeyWindow trim ins -> Win N.compare (kval_dead trim) ins.
Proof.
  intros HWn c1 m1 c2 m2 k v1 v2 I1 I2 G1 G2.
  exact (entries_rel_get N.compare N_laws _ _ HWn _ _ _ _ _ _ _ I1 I2 G1 G2).
Qed.

Theorem key_tree_indep trim ins s1 s2 :
  WellFormed N.compare ins -> KeyConsistent ins -> KeyWindow trim ins ->
  wf ins s1 -> wf ins s2 -> is_node s1 -> is_node s2 -> same_leafset s1 s2 ->
  eval (key_merge trim) ins s1 = eval (key_merge trim) ins s2.
Proof.
  intros HWf HC HWn W1 W2 N1 N2 Hl. rewrite key_merge_generic.
  exact (tree_indep N.compare N_laws kval_gt (kval_dead trim) kval_gt_asym kval_gt_trans ins s1 s2
    HWf (key_cons _ HWf HC) (key_win _ _ HWn) W1 W2 N1 N2 Hl).
Qed.

(* a strictly greater record than a revoked one is revoked at an earlier status cid *)
Lemma kval_gt_revoked v' v : kval_gt v' v = true -> k_status v = KRevoked ->
  k_status v' = KRevoked /\ cid_cmp (k_cid v') (k_cid v) = Lt.
Proof.
  intros H E. apply kval_gt_spec in H. rewrite E in H. destruct H as [H|[H1 H2]].
  - destruct (k_status v'); cbn in H; lia.
  - split; [apply krank_inj; exact H1 | exact H2].
Qed.

Theorem key_revocation_dominates trim ins s i ci mi k v c m :
  WellFormed N.compare ins -> KeyConsistent ins -> KeyWindow trim ins ->
  wf ins s -> is_node s -> eval (key_merge trim) ins s = Some (c, m) ->
  In i (leaves s) -> nth_error ins (N.to_nat i) = Some (ci, mi) -> In (k, v) mi ->
  k_status v = KRevoked -> cid_ltb (k_cid v) trim = false ->
  exists v', In (k, v') m /\ k_status v' = KRevoked /\ cle (k_cid v') (k_cid v) /\
    (exists j cj mj, In j (leaves s) /\ nth_error ins (N.to_nat j) = Some (cj, mj) /\ In (k, v') mj) /\
    (forall j cj mj w, In j (leaves s) -> nth_error ins (N.to_nat j) = Some (cj, mj) -> In (k, w) mj ->
       k_status w = KRevoked -> cle (k_cid v') (k_cid w)).
Proof.
  intros HWf HC HWn W Nn E Hi Ei Hin Est Hlive. rewrite key_merge_generic in E.
  pose proof (HWf _ _ (nth_error_In _ _ Ei)) as Smi.
  assert (Dv : kval_dead trim v = false) by (unfold kval_dead; rewrite Est; exact Hlive).
  destruct (tree_dominance N.compare N_laws kval_gt (kval_dead trim) kval_gt_asym kval_gt_trans ins
    s i ci mi k v c m HWf (key_cons _ HWf HC) (key_win _ _ HWn) W Nn E Hi Ei (in_get _ N_laws _ _ _ Smi Hin) Dv)
    as [v' [G' [Hge [Dv' [[j [cj [mj [Hj [Ej Gj]]]]] Hall]]]]].
  assert (Hrev : forall w, k_status w = KRevoked -> v' = w \/ kval_gt v' w = true ->
            k_status v' = KRevoked /\ cle (k_cid v') (k_cid w)).
  { intros w Ew [->|Hg].
    - split; [exact Ew | apply cle_refl].
    - destruct (kval_gt_revoked _ _ Hg Ew) as [E1 E2]. split; [exact E1|]. unfold cle. rewrite E2. discriminate. }
  destruct (Hrev v Est Hge) as [Est' Hle].
  destruct (get_in N.compare _ _ _ G') as [k1 [J1 E1]]. apply (cmp_eq _ N_laws) in E1. subst k1.
  exists v'. split; [exact J1|]. split; [exact Est'|]. split; [exact Hle|]. split.
  - destruct (get_in N.compare _ _ _ Gj) as [k2 [J2 E2]]. apply (cmp_eq _ N_laws) in E2. subst k2.
    exists j, cj, mj. auto.
  - intros j' cj' mj' w Hj' Ej' Hw Ew.
    pose proof (in_get _ N_laws _ _ _ (HWf _ _ (nth_error_In _ _ Ej')) Hw) as Gw.
    exact (proj2 (Hrev w Ew (Hall _ _ _ _ Hj' Ej' Gw))).
Qed.

(* ================================================================== audit log *)
Definition a_gmerge : amap -> amap -> amap := gmerge cid_cmp (fun _ _ : N => false) (fun _ : N => false).

Lemma get_fold_put {K V} (kcmp : K -> K -> comparison) (KL : CmpLaws kcmp) k (n : list (K * V)) :
  forall o, sorted kcmp n ->
  get kcmp k (fold_left (fun acc kv => put kcmp (fst kv) (snd kv) acc) n o)
  = match get kcmp k n with Some v => Some v | None => get kcmp k o end.
Proof.
  induction n as [|[k0 v0] r IH]; intros o Hs; cbn [fold_left get fst snd]; [reflexivity|].
  pose proof (sorted_inv kcmp _ _ Hs) as [Hr _]. rewrite (IH _ Hr), (get_put kcmp KL).
  destruct (kcmp k k0) eqn:E; try reflexivity.
  rewrite (get_head_tail kcmp KL _ _ _ _ Hs E). reflexivity.
Qed.
Lemma fold_put_sorted {K V} (kcmp : K -> K -> comparison) (KL : CmpLaws kcmp) (n : list (K * V)) :
  forall o, sorted kcmp o -> sorted kcmp (fold_left (fun acc kv => put kcmp (fst kv) (snd kv) acc) n o).
Proof.
  induction n as [|kv r IH]; intros o Ho; cbn [fold_left]; [exact Ho|]. apply IH. apply (put_sorted kcmp KL). exact Ho.
Qed.

Lemma audit_merge_fits n o : sorted cid_cmp n -> sorted cid_cmp o ->
  (length (a_gmerge n o) <= AUDIT_LOG_STRING_CAPACITY)%nat -> audit_merge n o = a_gmerge n o.
Proof.
  intros Sn So Hlen. unfold audit_merge.
  assert (Hraw : fold_left (fun acc kv => put cid_cmp (fst kv) (snd kv) acc) n o = a_gmerge n o).
  { apply (sorted_ext cid_cmp cid_laws).
    - apply (fold_put_sorted cid_cmp cid_laws). exact So.
    - apply gmerge_sorted; assumption || exact cid_laws.
    - intros k. rewrite (get_fold_put cid_cmp cid_laws k n o Sn).
      unfold a_gmerge. rewrite (get_gmerge cid_cmp cid_laws _ _ k n o Sn So).
      destruct (get cid_cmp k n), (get cid_cmp k o); reflexivity. }
  rewrite Hraw. unfold remove_oldest.
  replace (length (a_gmerge n o) - AUDIT_LOG_STRING_CAPACITY)%nat with 0%nat by lia. reflexivity.
Qed.

Lemma audit_cons ins : WellFormed cid_cmp ins -> AuditConsistent ins -> Cons cid_cmp (fun _ _ : N => false) ins.
Proof.
  intros HW HC c1 m1 c2 m2 k v1 v2 I1 I2 G1 G2. left.
  exact (entries_rel_get cid_cmp cid_laws _ _ HC _ _ _ _ _ _ _ I1 I2 G1 G2).
Qed.
Lemma audit_win ins : Win cid_cmp (fun _ : N => false) ins.
Proof. intros c1 m1 c2 m2 k v1 v2 _ _ _ _ H. discriminate. Qed.
Lemma false_asym (a b : N) : false = true -> false = false. Proof. reflexivity. Qed.
Lemma false_trans (a b c : N) : false = true -> false = true -> false = true. Proof. discriminate. Qed.

Lemma eval_audit_fits ins s :
  WellFormed cid_cmp ins -> AuditConsistent ins -> Fits AUDIT_LOG_STRING_CAPACITY ins ->
  wf ins s -> eval audit_merge ins s = eval a_gmerge ins s.
Proof.
  intros HWf HC HF. induction s as [i|a IHa b IHb]; cbn [wf]; [reflexivity|].
  intros [Wa Wb].
  pose proof (audit_cons _ HWf HC) as HCo. pose proof (audit_win ins) as HWi.
  assert (Hlen : forall c m, eval a_gmerge ins (Nd a b) = Some (c, m) -> (length m <= AUDIT_LOG_STRING_CAPACITY)%nat).
  { intros c m E. refine (eval_length cid_cmp cid_laws _ _ false_asym ins _ (Nd a b) c m HWf HCo HWi HF _ E).
    split; assumption. }
  destruct (eval_spec cid_cmp cid_laws _ _ false_asym ins a HWf HCo HWi Wa) as [ca [ma [Ea [Sa _]]]].
  destruct (eval_spec cid_cmp cid_laws _ _ false_asym ins b HWf HCo HWi Wb) as [cb [mb [Eb [Sb _]]]].
  assert (Ea' : eval a_gmerge ins a = Some (ca, ma)) by exact Ea.
  assert (Eb' : eval a_gmerge ins b = Some (cb, mb)) by exact Eb.
  cbn [eval] in Hlen. rewrite Ea', Eb' in Hlen. unfold repl_merge in Hlen. cbn [fst snd] in Hlen.
  cbn [eval]. rewrite (IHa Wa), (IHb Wb), Ea', Eb'.
  unfold repl_merge. cbn [fst snd]. destruct (cid_gtb ca cb).
  - rewrite (audit_merge_fits ma mb Sa Sb (Hlen _ _ eq_refl)). reflexivity.
  - rewrite (audit_merge_fits mb ma Sb Sa (Hlen _ _ eq_refl)). reflexivity.
Qed.

Theorem audit_tree_indep ins s1 s2 :
  WellFormed cid_cmp ins -> AuditConsistent ins -> Fits AUDIT_LOG_STRING_CAPACITY ins ->
  wf ins s1 -> wf ins s2 -> is_node s1 -> is_node s2 -> same_leafset s1 s2 ->
  eval audit_merge ins s1 = eval audit_merge ins s2.
Proof.
  intros HWf HC HF W1 W2 N1 N2 Hl.
  rewrite !(eval_audit_fits ins _ HWf HC HF) by assumption.
  exact (tree_indep cid_cmp cid_laws _ _ false_asym false_trans ins s1 s2
    HWf (audit_cons _ HWf HC) (audit_win ins) W1 W2 N1 N2 Hl).
Qed.

(* ================================================================== binary corollaries *)
(* the roles are chosen by change id, so with distinct change ids the argument order is
   irrelevant for ANY valueset merge function *)
Lemma repl_merge_comm_distinct {M} (mrg : M -> M -> M) (a b : cid * M) :
  fst a <> fst b -> repl_merge mrg a b = repl_merge mrg b a.
Proof.
  intros Hne. unfold repl_merge, cid_gtb. rewrite (cmp_antisym _ cid_laws (fst a) (fst b)).
  destruct (cid_cmp (fst a) (fst b)) eqn:E; cbn; try reflexivity.
  apply (cmp_eq _ cid_laws) in E. contradiction.
Qed.

Lemma wf2 {M} (a b : cid * M) i j : (i < 2)%N -> (j < 2)%N -> wf [a; b] (Nd (L i) (L j)).
Proof.
  intros Hi Hj. cbn [wf]. split.
  - destruct (N.to_nat i) as [|[|n]] eqn:E; cbn; try discriminate. lia.
  - destruct (N.to_nat j) as [|[|n]] eqn:E; cbn; try discriminate. lia.
Qed.

Theorem sess_comm oauth trim a b :
  WellFormed N.compare [a; b] -> SessConsistent [a; b] -> SessWindow trim [a; b] ->
  (oauth = true \/ Fits SESSION_MAXIMUM [a; b]) ->
  repl_merge (sess_merge oauth trim) a b = repl_merge (sess_merge oauth trim) b a.
Proof.
  intros HWf HC HWn HF.
  assert (H : Some (repl_merge (sess_merge oauth trim) a b) = Some (repl_merge (sess_merge oauth trim) b a)).
  { refine (sess_tree_indep oauth trim [a; b] (Nd (L 0) (L 1)) (Nd (L 1) (L 0)) HWf HC HWn HF _ _ I I _).
    - apply wf2; lia.
    - apply wf2; lia.
    - intros i. cbn. tauto. }
  injection H as H. exact H.
Qed.

Theorem sess_assoc oauth trim a b c :
  WellFormed N.compare [a; b; c] -> SessConsistent [a; b; c] -> SessWindow trim [a; b; c] ->
  (oauth = true \/ Fits SESSION_MAXIMUM [a; b; c]) ->
  repl_merge (sess_merge oauth trim) (repl_merge (sess_merge oauth trim) a b) c
  = repl_merge (sess_merge oauth trim) a (repl_merge (sess_merge oauth trim) b c).
Proof.
  intros HWf HC HWn HF.
  assert (H : Some (repl_merge (sess_merge oauth trim) (repl_merge (sess_merge oauth trim) a b) c)
            = Some (repl_merge (sess_merge oauth trim) a (repl_merge (sess_merge oauth trim) b c))).
  { refine (sess_tree_indep oauth trim [a; b; c] (Nd (Nd (L 0) (L 1)) (L 2)) (Nd (L 0) (Nd (L 1) (L 2)))
      HWf HC HWn HF _ _ I I _).
    - cbn. repeat split; discriminate.
    - cbn. repeat split; discriminate.
    - intros i. cbn. tauto. }
  injection H as H. exact H.
Qed.

Lemma filter_length_le {A} (f : A -> bool) l : (length (filter f l) <= length l)%nat.
Proof. induction l as [|x r IH]; cbn; [lia|]. destruct (f x); cbn; lia. Qed.

Theorem sess_idem oauth trim (a : cid * smap) :
  sorted N.compare (snd a) -> (oauth = true \/ (length (snd a) <= SESSION_MAXIMUM)%nat) ->
  repl_merge (sess_merge oauth trim) a a = (fst a, retain (fun v => negb (sval_dead trim v)) (snd a)).
Proof.
  intros S HF. unfold repl_merge.
  assert (H : sess_merge oauth trim (snd a) (snd a) = retain (fun v => negb (sval_dead trim v)) (snd a)).
  { pose proof (gmerge_idem N.compare N_laws sval_gt (sval_dead trim) (snd a) S) as Hg.
    destruct HF as [->|HF]; [exact Hg|]. destruct oauth; [exact Hg|].
    rewrite sess_merge_fits; [exact Hg|]. unfold s_gmerge. rewrite Hg. unfold retain.
    etransitivity; [apply filter_length_le | exact HF]. }
  rewrite H. destruct (cid_gtb (fst a) (fst a)); reflexivity.
Qed.

Theorem key_comm trim a b :
  WellFormed N.compare [a; b] -> KeyConsistent [a; b] -> KeyWindow trim [a; b] ->
  repl_merge (key_merge trim) a b = repl_merge (key_merge trim) b a.
Proof.
  intros HWf HC HWn.
  assert (H : Some (repl_merge (key_merge trim) a b) = Some (repl_merge (key_merge trim) b a)).
  { refine (key_tree_indep trim [a; b] (Nd (L 0) (L 1)) (Nd (L 1) (L 0)) HWf HC HWn _ _ I I _).
    - apply wf2; lia.
    - apply wf2; lia.
    - intros i. cbn. tauto. }
  injection H as H. exact H.
Qed.

Theorem key_assoc trim a b c :
  WellFormed N.compare [a; b; c] -> KeyConsistent [a; b; c] -> KeyWindow trim [a; b; c] ->
  repl_merge (key_merge trim) (repl_merge (key_merge trim) a b) c
  = repl_merge (key_merge trim) a (repl_merge (key_merge trim) b c).
Proof.
  intros HWf HC HWn.
  assert (H : Some (repl_merge (key_merge trim) (repl_merge (key_merge trim) a b) c)
            = Some (repl_merge (key_merge trim) a (repl_merge (key_merge trim) b c))).
  { refine (key_tree_indep trim [a; b; c] (Nd (Nd (L 0) (L 1)) (L 2)) (Nd (L 0) (Nd (L 1) (L 2)))
      HWf HC HWn _ _ I I _).
    - cbn. repeat split; discriminate.
    - cbn. repeat split; discriminate.
    - intros i. cbn. tauto. }
  injection H as H. exact H.
Qed.

Theorem key_idem trim (a : cid * kmap) :
  sorted N.compare (snd a) ->
  repl_merge (key_merge trim) a a = (fst a, retain (fun v => negb (kval_dead trim v)) (snd a)).
Proof.
  intros S. unfold repl_merge.
  rewrite key_merge_generic. unfold k_gmerge. rewrite (gmerge_idem N.compare N_laws kval_gt (kval_dead trim) (snd a) S).
  destruct (cid_gtb (fst a) (fst a)); reflexivity.
Qed.

(* ================================================================== the key-internal defect (PRE-FIX code) *)
(* order/grouping independence of the merge as it was BEFORE /repo ea75008 (status cid ignored) *)
Definition key_prefix_full_statement : Prop :=
  forall trim ins s1 s2,
    WellFormed N.compare ins -> KeyConsistent ins -> KeyWindow trim ins ->
    wf ins s1 -> wf ins s2 -> is_node s1 -> is_node s2 -> same_leafset s1 s2 ->
    eval (key_merge_prefix trim) ins s1 = eval (key_merge_prefix trim) ins s2.

(* two replicas revoked key 7 independently (at 12.1 and at 15.2); a third replica has a
   newer change of the attribute that does not touch key 7 *)
Definition key_witness_ins : list (cid * kmap) :=
  [((20, 1), [(7, (KRevoked, (12, 1), 32))]);
   ((21, 2), [(7, (KRevoked, (15, 2), 32))]);
   ((22, 3), [])].
Definition key_witness_trim : cid := (10, 2).

Ltac inv_in :=
  repeat match goal with
  | H : In _ (_ :: _) |- _ => destruct H as [H|H]
  | H : In _ [] |- _ => destruct H
  | H : (_, _) = (_, _) |- _ => inversion H; subst; clear H
  end.

Lemma key_witness_wf : WellFormed N.compare key_witness_ins.
Proof. intros c m H. unfold key_witness_ins in H. inv_in; repeat constructor. Qed.
Lemma key_witness_consistent : KeyConsistent key_witness_ins.
Proof. intros c1 m1 c2 m2 k v1 v2 I1 I2 J1 J2. unfold key_witness_ins in *. inv_in; intros; reflexivity. Qed.
Lemma key_witness_window : KeyWindow key_witness_trim key_witness_ins.
Proof.
  intros c1 m1 c2 m2 k v1 v2 I1 I2 J1 J2. unfold key_witness_ins in *. inv_in; vm_compute; intros; congruence.
Qed.

Theorem key_prefix_refuted : ~ key_prefix_full_statement.
Proof.
  intros H.
  specialize (H key_witness_trim key_witness_ins (Nd (Nd (L 2) (L 0)) (L 1)) (Nd (L 2) (Nd (L 0) (L 1)))
    key_witness_wf key_witness_consistent key_witness_window).
  assert (W1 : wf key_witness_ins (Nd (Nd (L 2) (L 0)) (L 1))) by (cbn; repeat split; discriminate).
  assert (W2 : wf key_witness_ins (Nd (L 2) (Nd (L 0) (L 1)))) by (cbn; repeat split; discriminate).
  assert (Hl : same_leafset (Nd (Nd (L 2) (L 0)) (L 1)) (Nd (L 2) (Nd (L 0) (L 1)))) by (intros i; cbn; tauto).
  specialize (H W1 W2 I I Hl). vm_compute in H. discriminate.
Qed.

(* ================================================================== soundness of the run-time tie *)
Lemma list_eqb_eq {A} (e : A -> A -> bool) :
  (forall x y, e x y = true -> x = y) -> forall a b, list_eqb e a b = true -> a = b.
Proof.
  intros He. induction a as [|x a IH]; intros [|y b]; cbn; try discriminate; [reflexivity|].
  intros H. apply andb_true_iff in H as [H1 H2]. rewrite (He _ _ H1), (IH _ H2). reflexivity.
Qed.
Lemma pair_eqb_eq {A B} (ea : A -> A -> bool) (eb : B -> B -> bool) :
  (forall x y, ea x y = true -> x = y) -> (forall x y, eb x y = true -> x = y) ->
  forall x y, pair_eqb ea eb x y = true -> x = y.
Proof.
  intros Ha Hb [x1 x2] [y1 y2]. unfold pair_eqb. cbn [fst snd]. intros H.
  apply andb_true_iff in H as [H1 H2]. rewrite (Ha _ _ H1), (Hb _ _ H2). reflexivity.
Qed.
Lemma opt_eqb_eq {A} (e : A -> A -> bool) :
  (forall x y, e x y = true -> x = y) -> forall a b, opt_eqb e a b = true -> a = b.
Proof. intros He [x|] [y|]; cbn; try discriminate; [intros H; rewrite (He _ _ H)|]; reflexivity. Qed.
Lemma Neqb_eq x y : (x =? y) = true -> x = y.
Proof. apply N.eqb_eq. Qed.
Lemma cid_eqb_sound x y : cid_eqb x y = true -> x = y.
Proof. apply cid_eqb_eq. Qed.
Lemma sstate_eqb_eq a b : sstate_eqb a b = true -> a = b.
Proof.
  destruct a as [x|x|], b as [y|y|]; cbn; try discriminate; intros H;
    [apply cid_eqb_eq in H | apply N.eqb_eq in H |]; subst; reflexivity.
Qed.
Lemma sval_eqb_eq a b : sval_eqb a b = true -> a = b.
Proof.
  destruct a as [[s1 i1] p1], b as [[s2 i2] p2]. unfold sval_eqb, s_state, s_issued, s_pay. cbn [fst snd].
  intros H. apply andb_true_iff in H as [H H3]. apply andb_true_iff in H as [H1 H2].
  apply sstate_eqb_eq in H1. apply N.eqb_eq in H2. apply N.eqb_eq in H3. subst. reflexivity.
Qed.
Lemma kval_eqb_eq a b : kval_eqb a b = true -> a = b.
Proof.
  destruct a as [[s1 c1] p1], b as [[s2 c2] p2]. unfold kval_eqb, kstatus_eqb, k_status, k_cid, k_pay. cbn [fst snd].
  intros H. apply andb_true_iff in H as [H H3]. apply andb_true_iff in H as [H1 H2].
  apply N.eqb_eq in H1. apply krank_inj in H1. apply cid_eqb_eq in H2. apply N.eqb_eq in H3. subst. reflexivity.
Qed.
Lemma smap_eqb_eq a b : smap_eqb a b = true -> a = b.
Proof. apply list_eqb_eq. apply pair_eqb_eq; [exact Neqb_eq | exact sval_eqb_eq]. Qed.
Lemma kmap_eqb_eq a b : kmap_eqb a b = true -> a = b.
Proof. apply list_eqb_eq. apply pair_eqb_eq; [exact Neqb_eq | exact kval_eqb_eq]. Qed.
Lemma amap_eqb_eq a b : amap_eqb a b = true -> a = b.
Proof. apply list_eqb_eq. apply pair_eqb_eq; [exact cid_eqb_sound | exact Neqb_eq]. Qed.

Lemma agree_outs_sound {M} (e : M -> M -> bool) mrg ins outs :
  (forall x y, e x y = true -> x = y) -> agree_outs e mrg ins outs = true ->
  forall s o, In (s, o) outs -> eval mrg ins s = o.
Proof.
  intros He H s o Hin. unfold agree_outs in H. rewrite forallb_forall in H. specialize (H _ Hin).
  cbn [fst snd] in H. apply (opt_eqb_eq (rep_eqb e)); [|exact H].
  unfold rep_eqb. apply pair_eqb_eq; [exact cid_eqb_sound | exact He].
Qed.

Lemma memN_in x l : memN x l = true <-> In x l.
Proof.
  unfold memN. rewrite existsb_exists. split.
  - intros [y [Hy E]]. apply N.eqb_eq in E. subst. exact Hy.
  - intros H. exists x. split; [exact H | apply N.eqb_refl].
Qed.
Lemma same_leaves_iff a b : same_leaves a b = true <-> same_leafset a b.
Proof.
  unfold same_leaves, same_leafset. rewrite andb_true_iff, !forallb_forall. split.
  - intros [H1 H2] i. split; intros Hi; apply memN_in; auto.
  - intros H. split; intros x Hx; apply memN_in; apply H; exact Hx.
Qed.

(* the executable independence check means what it says *)
Lemma indep_sound {M} (e : M -> M -> bool) outs :
  (forall x y, e x y = true -> x = y) -> indep e outs = true ->
  forall s1 o1 s2 o2, In (s1, o1) outs -> In (s2, o2) outs -> same_leafset s1 s2 -> o1 = o2.
Proof.
  intros He H s1 o1 s2 o2 I1 I2 Hl. unfold indep in H. rewrite forallb_forall in H.
  specialize (H _ I1). rewrite forallb_forall in H. specialize (H _ I2). cbn [fst snd] in H.
  rewrite (proj2 (same_leaves_iff s1 s2) Hl) in H. cbn in H.
  apply (opt_eqb_eq (rep_eqb e)); [|exact H]. unfold rep_eqb. apply pair_eqb_eq; [exact cid_eqb_sound | exact He].
Qed.

(* agreement with the model transfers the theorems to the implementation's recorded results *)
Theorem agree_transfers_sess oauth trim ins outs :
  agree (CSess oauth trim ins outs) = true ->
  WellFormed N.compare ins -> SessConsistent ins -> SessWindow trim ins ->
  (oauth = true \/ Fits SESSION_MAXIMUM ins) ->
  forall s1 o1 s2 o2, In (s1, o1) outs -> In (s2, o2) outs ->
    wf ins s1 -> wf ins s2 -> is_node s1 -> is_node s2 -> same_leafset s1 s2 -> o1 = o2.
Proof.
  intros Ha HWf HC HWn HF s1 o1 s2 o2 I1 I2 W1 W2 N1 N2 Hl. cbn [agree] in Ha.
  rewrite <- (agree_outs_sound _ _ _ _ smap_eqb_eq Ha _ _ I1), <- (agree_outs_sound _ _ _ _ smap_eqb_eq Ha _ _ I2).
  exact (sess_tree_indep oauth trim ins s1 s2 HWf HC HWn HF W1 W2 N1 N2 Hl).
Qed.
Theorem agree_transfers_key trim ins outs :
  agree (CKey trim ins outs) = true ->
  WellFormed N.compare ins -> KeyConsistent ins -> KeyWindow trim ins ->
  forall s1 o1 s2 o2, In (s1, o1) outs -> In (s2, o2) outs ->
    wf ins s1 -> wf ins s2 -> is_node s1 -> is_node s2 -> same_leafset s1 s2 -> o1 = o2.
Proof.
  intros Ha HWf HC HWn s1 o1 s2 o2 I1 I2 W1 W2 N1 N2 Hl. cbn [agree] in Ha.
  rewrite <- (agree_outs_sound _ _ _ _ kmap_eqb_eq Ha _ _ I1), <- (agree_outs_sound _ _ _ _ kmap_eqb_eq Ha _ _ I2).
  exact (key_tree_indep trim ins s1 s2 HWf HC HWn W1 W2 N1 N2 Hl).
Qed.
Theorem agree_transfers_audit trim ins outs :
  agree (CAudit trim ins outs) = true ->
  WellFormed cid_cmp ins -> AuditConsistent ins -> Fits AUDIT_LOG_STRING_CAPACITY ins ->
  forall s1 o1 s2 o2, In (s1, o1) outs -> In (s2, o2) outs ->
    wf ins s1 -> wf ins s2 -> is_node s1 -> is_node s2 -> same_leafset s1 s2 -> o1 = o2.
Proof.
  intros Ha HWf HC HF s1 o1 s2 o2 I1 I2 W1 W2 N1 N2 Hl. cbn [agree] in Ha.
  rewrite <- (agree_outs_sound _ _ _ _ amap_eqb_eq Ha _ _ I1), <- (agree_outs_sound _ _ _ _ amap_eqb_eq Ha _ _ I2).
  exact (audit_tree_indep ins s1 s2 HWf HC HF W1 W2 N1 N2 Hl).
Qed.
