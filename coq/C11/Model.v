(* KV.C11.Model — replicated merge of the four "mergeable" valuesets, transcribed from
     server/lib/src/valueset/session.rs      ValueSetSession / ValueSetOauth2Session
                                             ::repl_merge_valueset, ::trim
     server/lib/src/value.rs                 Ord for SessionState, derive(Ord) KeyStatus
     server/lib/src/valueset/key_internal.rs ValueSetKeyInternal::repl_merge_valueset, ::trim
                                             (as repaired by /repo ea75008)
     server/lib/src/valueset/auditlogstring.rs ::repl_merge_valueset, remove_oldest
     server/lib/src/entry.rs                 merge_state: newer/older role by change id (take_left)
     server/lib/src/repl/cid.rs              derive(Ord) on Cid { ts, s_uuid }
   Executable definitions only. *)
From Coq Require Import List NArith Bool.
Import ListNotations.
Open Scope N_scope.

(* ------------------------------------------------------------------ change ids *)
Definition cid := (N * N)%type.            (* (ts, s_uuid): derive(Ord) = lexicographic *)
Definition cid_cmp (a b : cid) : comparison :=
  match fst a ?= fst b with Eq => snd a ?= snd b | c => c end.
Definition cid_ltb (a b : cid) : bool := match cid_cmp a b with Lt => true | _ => false end.
Definition cid_gtb (a b : cid) : bool := match cid_cmp a b with Gt => true | _ => false end.
Definition cid_eqb (a b : cid) : bool := (fst a =? fst b) && (snd a =? snd b).
Definition cid_leb (a b : cid) : bool := negb (cid_gtb a b).

(* ------------------------------------------------------------------ BTreeMap as a key-sorted list *)
Section GMap.
  Context {K V : Type}.
  Variable kcmp : K -> K -> comparison.

  Fixpoint get (k : K) (m : list (K * V)) : option V :=
    match m with
    | [] => None
    | (k', v) :: r => match kcmp k k' with Eq => Some v | _ => get k r end
    end.

  (* BTreeMap::insert (new key, or replace the value of an existing key) *)
  Fixpoint put (k : K) (v : V) (m : list (K * V)) : list (K * V) :=
    match m with
    | [] => [(k, v)]
    | (k', v') :: r =>
        match kcmp k k' with
        | Eq => (k', v) :: r
        | Lt => (k, v) :: (k', v') :: r
        | Gt => (k', v') :: put k v r
        end
    end.

  (* BTreeMap::remove *)
  Definition del (k : K) (m : list (K * V)) : list (K * V) :=
    filter (fun kv => match kcmp k (fst kv) with Eq => false | _ => true end) m.

  (* BTreeMap::retain on the value *)
  Definition retain (f : V -> bool) (m : list (K * V)) : list (K * V) :=
    filter (fun kv => f (snd kv)) m.

  (* the shared loop of the three `repl_merge_valueset`s:
       let mut map = self.map.clone();
       for (k_other, v_other) in older { if let Some(v_self) = map.get_mut(k_other)
            { if v_other > v_self { *v_self = v_other } } else { map.insert(k_other, v_other) } } *)
  Variable gt : V -> V -> bool.
  Definition merge_step (acc : list (K * V)) (kv : K * V) : list (K * V) :=
    match get (fst kv) acc with
    | Some v_self => if gt (snd kv) v_self then put (fst kv) (snd kv) acc else acc
    | None => put (fst kv) (snd kv) acc
    end.
  Definition merge_raw (newer older : list (K * V)) : list (K * V) :=
    fold_left merge_step older newer.
End GMap.

(* ------------------------------------------------------------------ sessions *)
Inductive sstate := RevokedAt (c : cid) | ExpiresAt (t : N) | NeverExpires.

(* impl Ord for SessionState *)
Definition sstate_cmp (a b : sstate) : comparison :=
  match a, b with
  | RevokedAt ca, RevokedAt cb => cid_cmp cb ca
  | RevokedAt _, _ => Gt
  | _, RevokedAt _ => Lt
  | ExpiresAt ta, ExpiresAt tb => ta ?= tb
  | ExpiresAt _, _ => Gt
  | _, ExpiresAt _ => Lt
  | NeverExpires, NeverExpires => Eq
  end.

(* a session / oauth2 session: state, issued_at, and one number standing for all the other
   fields (label, issued_by, cred_id, scope, type_, ext_metadata / parent, rs_uuid) *)
Definition sval := (sstate * N * N)%type.
Definition s_state (v : sval) : sstate := fst (fst v).
Definition s_issued (v : sval) : N := snd (fst v).
Definition s_pay (v : sval) : N := snd v.
Definition smap := list (N * sval).

Definition sval_gt (a b : sval) : bool :=
  match sstate_cmp (s_state a) (s_state b) with Gt => true | _ => false end.
(* trim: `SessionState::RevokedAt(cid) if cid < trim_cid => false` *)
Definition sval_dead (trim : cid) (v : sval) : bool :=
  match s_state v with RevokedAt c => cid_ltb c trim | _ => false end.

Definition SESSION_MAXIMUM : nat := 48.
(* time_idx : BTreeMap<issued_at, session id>, collected in session-id order (later wins) *)
Definition time_idx (m : smap) : list (N * N) :=
  fold_left (fun acc kv => put N.compare (s_issued (snd kv)) (fst kv) acc) m [].
Definition evict (m : smap) : smap :=
  if Nat.ltb SESSION_MAXIMUM (length m) then
    let to_take := (length m - SESSION_MAXIMUM)%nat in
    fold_left (fun acc sid => del N.compare sid acc) (map snd (firstn to_take (time_idx m))) m
  else m.

Definition sess_trim (oauth : bool) (trim : cid) (m : smap) : smap :=
  let m' := retain (fun v => negb (sval_dead trim v)) m in
  if oauth then m' else evict m'.
Definition sess_merge (oauth : bool) (trim : cid) (newer older : smap) : smap :=
  sess_trim oauth trim (merge_raw N.compare sval_gt newer older).

(* ------------------------------------------------------------------ key-internal *)
Inductive kstatus := KValid | KRetained | KRevoked.       (* derive(Ord): declaration order *)
Definition krank (s : kstatus) : N := match s with KValid => 0 | KRetained => 1 | KRevoked => 2 end.
(* status, status_cid, and one number standing for usage / valid_from / der *)
Definition kval := (kstatus * cid * N)%type.
Definition k_status (v : kval) : kstatus := fst (fst v).
Definition k_cid (v : kval) : cid := snd (fst v).
Definition k_pay (v : kval) : N := snd v.
Definition kmap := list (N * kval).
(* `if v_other.status > v_self.status
       || (v_other.status == v_self.status && v_other.status_cid < v_self.status_cid)`
   (since /repo ea75008: on equal status the EARLIEST status cid wins) *)
Definition kval_gt (a b : kval) : bool :=
  (krank (k_status b) <? krank (k_status a))
  || ((krank (k_status a) =? krank (k_status b)) && cid_ltb (k_cid a) (k_cid b)).
Definition kval_dead (trim : cid) (v : kval) : bool :=
  match k_status v with KRevoked => cid_ltb (k_cid v) trim | _ => false end.
Definition key_merge (trim : cid) (newer older : kmap) : kmap :=
  retain (fun v => negb (kval_dead trim v)) (merge_raw N.compare kval_gt newer older).

(* PRE-FIX behaviour (before /repo ea75008), kept only to document the defect:
   `if v_other.status > v_self.status` — the status cid was NOT consulted *)
Definition kval_gt_prefix (a b : kval) : bool := krank (k_status b) <? krank (k_status a).
Definition key_merge_prefix (trim : cid) (newer older : kmap) : kmap :=
  retain (fun v => negb (kval_dead trim v)) (merge_raw N.compare kval_gt_prefix newer older).

(* ------------------------------------------------------------------ audit log *)
Definition amap := list (cid * N).         (* BTreeMap<Cid, String>; the string as an id *)
Definition AUDIT_LOG_STRING_CAPACITY : nat := 9.
Definition remove_oldest (m : amap) : amap := skipn (length m - AUDIT_LOG_STRING_CAPACITY) m.
(* `let mut map = older.clone(); mergemaps!(map, self.map)` — newer content always wins *)
Definition audit_merge (newer older : amap) : amap :=
  remove_oldest (fold_left (fun acc kv => put cid_cmp (fst kv) (snd kv) acc) newer older).

(* ------------------------------------------------------------------ merge_state's role choice *)
(* `let take_left = cid_left > cid_right;` — the side with the greater change id is `self`
   of repl_merge_valueset and its change id is kept; on equal ids the right side is taken *)
Definition repl_merge {M} (mrg : M -> M -> M) (l r : cid * M) : cid * M :=
  if cid_gtb (fst l) (fst r) then (fst l, mrg (snd l) (snd r)) else (fst r, mrg (snd r) (snd l)).

(* merge trees over numbered replicas: every order and grouping *)
Inductive shape := L (i : N) | Nd (a b : shape).
Fixpoint eval {M} (mrg : M -> M -> M) (ins : list (cid * M)) (s : shape) : option (cid * M) :=
  match s with
  | L i => nth_error ins (N.to_nat i)
  | Nd a b =>
      match eval mrg ins a, eval mrg ins b with
      | Some x, Some y => Some (repl_merge mrg x y)
      | _, _ => None
      end
  end.

(* ------------------------------------------------------------------ decidable equalities *)
Definition sstate_eqb (a b : sstate) : bool :=
  match a, b with
  | RevokedAt x, RevokedAt y => cid_eqb x y
  | ExpiresAt x, ExpiresAt y => x =? y
  | NeverExpires, NeverExpires => true
  | _, _ => false
  end.
Definition sval_eqb (a b : sval) : bool :=
  sstate_eqb (s_state a) (s_state b) && (s_issued a =? s_issued b) && (s_pay a =? s_pay b).
Definition kstatus_eqb (a b : kstatus) : bool := krank a =? krank b.
Definition kval_eqb (a b : kval) : bool :=
  kstatus_eqb (k_status a) (k_status b) && cid_eqb (k_cid a) (k_cid b) && (k_pay a =? k_pay b).

Fixpoint list_eqb {A} (e : A -> A -> bool) (a b : list A) : bool :=
  match a, b with
  | [], [] => true
  | x :: a', y :: b' => e x y && list_eqb e a' b'
  | _, _ => false
  end.
Definition pair_eqb {A B} (ea : A -> A -> bool) (eb : B -> B -> bool) (x y : A * B) : bool :=
  ea (fst x) (fst y) && eb (snd x) (snd y).
Definition opt_eqb {A} (e : A -> A -> bool) (a b : option A) : bool :=
  match a, b with Some x, Some y => e x y | None, None => true | _, _ => false end.

Definition smap_eqb : smap -> smap -> bool := list_eqb (pair_eqb N.eqb sval_eqb).
Definition kmap_eqb : kmap -> kmap -> bool := list_eqb (pair_eqb N.eqb kval_eqb).
Definition amap_eqb : amap -> amap -> bool := list_eqb (pair_eqb cid_eqb N.eqb).
Definition rep_eqb {M} (e : M -> M -> bool) : cid * M -> cid * M -> bool := pair_eqb cid_eqb e.

(* ------------------------------------------------------------------ the cases *)
(* inputs: the replicas (attribute change id, valueset content in key order);
   outs: for each merge tree the implementation's result (None = the implementation failed) *)
Inductive case :=
| CSess (oauth : bool) (trim : cid) (ins : list (cid * smap)) (outs : list (shape * option (cid * smap)))
| CKey (trim : cid) (ins : list (cid * kmap)) (outs : list (shape * option (cid * kmap)))
| CAudit (trim : cid) (ins : list (cid * amap)) (outs : list (shape * option (cid * amap))).

Definition agree_outs {M} (e : M -> M -> bool) (mrg : M -> M -> M) (ins : list (cid * M))
    (outs : list (shape * option (cid * M))) : bool :=
  forallb (fun so => opt_eqb (rep_eqb e) (eval mrg ins (fst so)) (snd so)) outs.

Definition agree (c : case) : bool :=
  match c with
  | CSess oauth trim ins outs => agree_outs smap_eqb (sess_merge oauth trim) ins outs
  | CKey trim ins outs => agree_outs kmap_eqb (key_merge trim) ins outs
  | CAudit trim ins outs => agree_outs amap_eqb audit_merge ins outs
  end.

(* ------------------------------------------------------------------ the property, executable,
   evaluated on the IMPLEMENTATION's recorded results only (no merge function is used below) *)
Fixpoint leaves (s : shape) : list N :=
  match s with L i => [i] | Nd a b => leaves a ++ leaves b end.
Definition memN (x : N) (l : list N) : bool := existsb (N.eqb x) l.
Definition same_leaves (a b : shape) : bool :=
  forallb (fun x => memN x (leaves b)) (leaves a) && forallb (fun x => memN x (leaves a)) (leaves b).

(* every entry of every replica, with duplicates *)
Definition entries {K V} (ins : list (cid * list (K * V))) : list (K * V) := concat (map snd ins).
(* a relation that must hold between any two entries stored under the same key *)
Definition pairwise {K V} (keq : K -> K -> bool) (r : V -> V -> bool) (es : list (K * V)) : bool :=
  forallb (fun a => forallb (fun b => implb (keq (fst a) (fst b)) (r (snd a) (snd b))) es) es.

(* order / grouping independence: trees over the same set of replicas give the same result *)
Definition indep {M} (e : M -> M -> bool) (outs : list (shape * option (cid * M))) : bool :=
  forallb (fun a => forallb (fun b =>
     implb (same_leaves (fst a) (fst b)) (opt_eqb (rep_eqb e) (snd a) (snd b))) outs) outs.
Definition all_some {A B} (outs : list (A * option B)) : bool :=
  forallb (fun so => match snd so with Some _ => true | None => false end) outs.
(* the change id of a result is the greatest change id among its replicas *)
Definition cid_is_max {M} (ins : list (cid * M)) (outs : list (shape * option (cid * M))) : bool :=
  forallb (fun so => match snd so with
     | Some (c, _) =>
         forallb (fun i => match nth_error ins (N.to_nat i) with
                           | Some (ci, _) => cid_leb ci c | None => false end) (leaves (fst so))
         && existsb (fun i => match nth_error ins (N.to_nat i) with
                           | Some (ci, _) => cid_eqb ci c | None => false end) (leaves (fst so))
     | None => false end) outs.
(* merging a replica with itself changes nothing (beyond dropping what [drop] says is expired) *)
Definition idem {M} (e : M -> M -> bool) (drop : M -> M) (ins : list (cid * M))
    (outs : list (shape * option (cid * M))) : bool :=
  forallb (fun so => match fst so with
     | Nd (L i) (L j) =>
         if i =? j then
           match nth_error ins (N.to_nat i), snd so with
           | Some (ci, mi), Some (c, m) => cid_eqb ci c && e (drop mi) m
           | _, _ => false
           end
         else true
     | _ => true end) outs.
(* every entry of every replica below a tree satisfies [chk entry result-map] *)
Definition dominates {K V} (chk : K * V -> list (K * V) -> bool) (ins : list (cid * list (K * V)))
    (outs : list (shape * option (cid * list (K * V)))) : bool :=
  forallb (fun so => match snd so with
     | Some (_, m) =>
         forallb (fun i => match nth_error ins (N.to_nat i) with
                           | Some (_, mi) => forallb (fun kv => chk kv m) mi
                           | None => false end) (leaves (fst so))
     | None => false end) outs.

Definition count_keys {K V} (keq : K -> K -> bool) (es : list (K * V)) : nat :=
  length (fold_left (fun acc kv => if existsb (keq (fst kv)) acc then acc else fst kv :: acc) es []).

(* --- sessions *)
(* per-id fields are immutable: two records of one session with the same state are the same record *)
Definition sess_consistent (es : list (N * sval)) : bool :=
  pairwise N.eqb (fun a b => implb (sstate_eqb (s_state a) (s_state b)) (sval_eqb a b)) es.
(* no replica is outside the changelog window: if somebody holds a revocation older than the
   trim cid, nobody still holds that session in a state that is not such an old revocation *)
Definition sess_window (trim : cid) (es : list (N * sval)) : bool :=
  pairwise N.eqb (fun a b => implb (sval_dead trim a) (sval_dead trim b)) es.
(* SESSION_MAXIMUM eviction is by issue time: needs distinct issue times (or no overflow) *)
Definition sess_issued_ok (es : list (N * sval)) : bool :=
  forallb (fun a => forallb (fun b => Bool.eqb (fst a =? fst b) (s_issued (snd a) =? s_issued (snd b))) es) es.
Definition sess_fits (es : list (N * sval)) : bool := Nat.leb (count_keys N.eqb es) SESSION_MAXIMUM.
Definition sess_pre (oauth : bool) (trim : cid) (es : list (N * sval)) : bool :=
  sess_consistent es && sess_window trim es && (oauth || sess_fits es || sess_issued_ok es).
(* a live revocation (cid >= trim) held by any replica below the tree survives, with a
   revocation time that is not later; when the 48-limit may evict, absence is tolerated *)
Definition sess_rev_chk (may_evict : bool) (trim : cid) (kv : N * sval) (m : smap) : bool :=
  match s_state (snd kv) with
  | RevokedAt c =>
      if cid_ltb c trim then true else
      match get N.compare (fst kv) m with
      | Some v' => match s_state v' with RevokedAt c' => cid_leb c' c | _ => false end
      | None => may_evict
      end
  | _ => true
  end.

(* --- keys *)
(* usage / valid_from / der are fixed per key and status *)
Definition key_consistent (es : list (N * kval)) : bool :=
  pairwise N.eqb (fun a b => implb (kstatus_eqb (k_status a) (k_status b)) (k_pay a =? k_pay b)) es.
Definition key_window (trim : cid) (es : list (N * kval)) : bool :=
  pairwise N.eqb (fun a b => implb (kval_dead trim a) (kval_dead trim b)) es.
(* two replicas hold one key in the same status with different status cids (the class on
   which the pre-fix merge was order dependent; no longer special) *)
Definition key_tie (es : list (N * kval)) : bool :=
  negb (pairwise N.eqb (fun a b => implb (kstatus_eqb (k_status a) (k_status b)) (cid_eqb (k_cid a) (k_cid b))) es).
Definition key_rev_chk (trim : cid) (kv : N * kval) (m : kmap) : bool :=
  match k_status (snd kv) with
  | KRevoked =>
      if cid_ltb (k_cid (snd kv)) trim then true else
      match get N.compare (fst kv) m with
      | Some v' => match k_status v' with KRevoked => cid_leb (k_cid v') (k_cid (snd kv)) | _ => false end
      | None => false
      end
  | _ => true
  end.

(* --- audit log *)
Definition audit_consistent (es : list (cid * N)) : bool := pairwise cid_eqb N.eqb es.
(* every result holds at most CAPACITY entries, all taken from the replicas below the tree *)
Definition audit_bounded (ins : list (cid * amap)) (outs : list (shape * option (cid * amap))) : bool :=
  forallb (fun so => match snd so with
     | Some (_, m) => Nat.leb (length m) AUDIT_LOG_STRING_CAPACITY
         && forallb (fun kv => existsb (fun i => match nth_error ins (N.to_nat i) with
               | Some (_, mi) => existsb (pair_eqb cid_eqb N.eqb kv) mi | None => false end)
               (leaves (fst so))) m
     | None => false end) outs.

Definition pcheck (c : case) : bool :=
  match c with
  | CSess oauth trim ins outs =>
      let es := entries ins in
      implb (sess_pre oauth trim es)
        (all_some outs && indep smap_eqb outs && cid_is_max ins outs
         && idem smap_eqb (retain (fun v => negb (sval_dead trim v))) ins outs
         && dominates (sess_rev_chk (negb (oauth || sess_fits es)) trim) ins outs)
  | CKey trim ins outs =>
      let es := entries ins in
      implb (key_consistent es && key_window trim es)
        (all_some outs && indep kmap_eqb outs && cid_is_max ins outs
         && idem kmap_eqb (retain (fun v => negb (kval_dead trim v))) ins outs
         && dominates (key_rev_chk trim) ins outs)
  | CAudit trim ins outs =>
      let es := entries ins in
      implb (audit_consistent es)
        (all_some outs && indep amap_eqb outs && cid_is_max ins outs
         && idem amap_eqb (fun m => m) ins outs && audit_bounded ins outs)
  end.

Definition known (_ : case) : bool := false.
