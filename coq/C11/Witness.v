(* KV.C11.Witness — non-vacuity of the implication theorems, and the refuting witness. *)
From Coq Require Import List NArith Bool Lia.
Import ListNotations.
Require Import KV.C11.Model KV.C11.Proofs.
Open Scope N_scope.

Definition w_trim : cid := (10, 2).

(* three replicas; session 1 is revoked by two of them at different times and merely expiring
   in the third, session 2 has three different expiries, session 3 is an expired revocation
   (older than the trim cid) wherever it still exists *)
Definition w_sess : list (cid * smap) :=
  [((20, 1), [(1, (RevokedAt (12, 1), 3, 1)); (2, (ExpiresAt 5, 4, 2)); (3, (RevokedAt (4, 1), 5, 3))]);
   ((21, 2), [(1, (ExpiresAt 9, 3, 1)); (2, (ExpiresAt 9, 4, 2)); (3, (RevokedAt (9, 3), 5, 3))]);
   ((22, 3), [(1, (RevokedAt (15, 2), 3, 1)); (2, (NeverExpires, 4, 2))])].

Example C11_witness_session_hypotheses :
  WellFormed N.compare w_sess /\ SessConsistent w_sess /\ SessWindow w_trim w_sess /\
  Fits SESSION_MAXIMUM w_sess /\ SessIssuedDistinct w_sess.
Proof.
  split; [|split; [|split; [|split]]].
  - intros c m H. unfold w_sess in H. inv_in; repeat constructor.
  - intros c1 m1 c2 m2 k v1 v2 I1 I2 J1 J2. unfold w_sess in *. inv_in; cbn; intros; congruence.
  - intros c1 m1 c2 m2 k v1 v2 I1 I2 J1 J2. unfold w_sess in *. inv_in; vm_compute; intros; congruence.
  - exists [1; 2; 3]. split; [unfold SESSION_MAXIMUM, AUDIT_LOG_STRING_CAPACITY; cbn; lia|]. intros c m k v I J. unfold w_sess in *. inv_in; cbn; tauto.
  - intros c1 m1 c2 m2 k1 k2 v1 v2 I1 I2 J1 J2. unfold w_sess in *. inv_in; cbn; split; congruence.
Qed.

(* every grouping gives: session 1 revoked at the EARLIEST revocation 12.1, session 2 with the
   latest expiry, session 3 trimmed; change id = the greatest *)
Example C11_witness_session_result :
  let r := Some ((22, 3), [(1, (RevokedAt (12, 1), 3, 1)); (2, (ExpiresAt 9, 4, 2))]) in
  eval (sess_merge false w_trim) w_sess (Nd (Nd (L 0) (L 1)) (L 2)) = r /\
  eval (sess_merge false w_trim) w_sess (Nd (L 2) (Nd (L 1) (L 0))) = r /\
  eval (sess_merge false w_trim) w_sess (Nd (Nd (L 1) (L 2)) (Nd (L 0) (L 1))) = r /\
  eval (sess_merge true w_trim) w_sess (Nd (L 1) (Nd (L 2) (L 0))) = r.
Proof. vm_compute. repeat split; reflexivity. Qed.

(* the window premise is needed: a replica that never saw an already-trimmed revocation
   resurrects the session in one grouping and not in the other (by design such a replica is
   refused by the RUV check and must refresh) *)
Example C11_witness_window_needed :
  let ins := [((20, 1), [(1, (RevokedAt (4, 1), 3, 1))]); ((21, 2), []); ((22, 3), [(1, (ExpiresAt 9, 3, 1))])] in
  eval (sess_merge true w_trim) ins (Nd (Nd (L 0) (L 1)) (L 2)) = Some ((22, 3), [(1, (ExpiresAt 9, 3, 1))]) /\
  eval (sess_merge true w_trim) ins (Nd (L 0) (Nd (L 1) (L 2))) = Some ((22, 3), []).
Proof. vm_compute. split; reflexivity. Qed.

(* keys: one key revoked by one replica, retained by another, valid in the third *)
Definition w_keys : list (cid * kmap) :=
  [((20, 1), [(7, (KRevoked, (12, 1), 32)); (8, (KValid, (5, 1), 40))]);
   ((21, 2), [(7, (KRetained, (11, 2), 31))]);
   ((22, 3), [(7, (KValid, (8, 1), 30)); (8, (KValid, (5, 1), 40)); (9, (KRevoked, (4, 1), 52))])].

Example C11_witness_key_hypotheses :
  WellFormed N.compare w_keys /\ KeyConsistent w_keys /\ KeyWindow w_trim w_keys.
Proof.
  split; [|split].
  - intros c m H. unfold w_keys in H. inv_in; repeat constructor.
  - intros c1 m1 c2 m2 k v1 v2 I1 I2 J1 J2. unfold w_keys in *. inv_in; cbn; intros; congruence.
  - intros c1 m1 c2 m2 k v1 v2 I1 I2 J1 J2. unfold w_keys in *. inv_in; vm_compute; intros; congruence.
Qed.
Example C11_witness_key_result :
  let r := Some ((22, 3), [(7, (KRevoked, (12, 1), 32)); (8, (KValid, (5, 1), 40))]) in
  eval (key_merge w_trim) w_keys (Nd (Nd (L 0) (L 1)) (L 2)) = r /\
  eval (key_merge w_trim) w_keys (Nd (L 2) (Nd (L 1) (L 0))) = r.
Proof. vm_compute. split; reflexivity. Qed.

(* status cid ties: two replicas revoked key 7 independently (12.1 and 15.2), a third has a
   newer change of the attribute; the hypotheses of the key theorems hold and every grouping
   keeps the EARLIEST revocation ... *)
Example C11_witness_key_ties :
  WellFormed N.compare key_witness_ins /\ KeyConsistent key_witness_ins /\
  KeyWindow key_witness_trim key_witness_ins /\
  eval (key_merge key_witness_trim) key_witness_ins (Nd (Nd (L 2) (L 0)) (L 1))
    = Some ((22, 3), [(7, (KRevoked, (12, 1), 32))]) /\
  eval (key_merge key_witness_trim) key_witness_ins (Nd (L 2) (Nd (L 0) (L 1)))
    = Some ((22, 3), [(7, (KRevoked, (12, 1), 32))]).
Proof.
  split; [exact key_witness_wf|]. split; [exact key_witness_consistent|]. split; [exact key_witness_window|].
  vm_compute. split; reflexivity.
Qed.
(* ... whereas the PRE-FIX merge (before /repo ea75008) gave two different status cids for the
   two groupings: the refuting witness of C11_key_prefix_full_statement, evaluated *)
Example C11_witness_key_prefix :
  eval (key_merge_prefix key_witness_trim) key_witness_ins (Nd (Nd (L 2) (L 0)) (L 1))
    = Some ((22, 3), [(7, (KRevoked, (12, 1), 32))]) /\
  eval (key_merge_prefix key_witness_trim) key_witness_ins (Nd (L 2) (Nd (L 0) (L 1)))
    = Some ((22, 3), [(7, (KRevoked, (15, 2), 32))]).
Proof. vm_compute. split; reflexivity. Qed.

(* audit log: overlapping logs of three replicas *)
Definition w_audit : list (cid * amap) :=
  [((20, 1), [((1, 1), 10); ((2, 1), 11); ((4, 1), 14)]);
   ((21, 2), [((1, 2), 20); ((2, 1), 11)]);
   ((22, 3), [((3, 3), 30); ((4, 1), 14)])].
Example C11_witness_audit_hypotheses :
  WellFormed cid_cmp w_audit /\ AuditConsistent w_audit /\ Fits AUDIT_LOG_STRING_CAPACITY w_audit.
Proof.
  split; [|split].
  - intros c m H. unfold w_audit in H. inv_in; repeat constructor.
  - intros c1 m1 c2 m2 k v1 v2 I1 I2 J1 J2. unfold w_audit in *. inv_in; reflexivity.
  - exists [(1, 1); (1, 2); (2, 1); (3, 3); (4, 1)]. split; [unfold SESSION_MAXIMUM, AUDIT_LOG_STRING_CAPACITY; cbn; lia|].
    intros c m k v I J. unfold w_audit in *. inv_in; cbn; tauto.
Qed.
Example C11_witness_audit_result :
  let r := Some ((22, 3), [((1, 1), 10); ((1, 2), 20); ((2, 1), 11); ((3, 3), 30); ((4, 1), 14)]) in
  eval audit_merge w_audit (Nd (Nd (L 0) (L 1)) (L 2)) = r /\
  eval audit_merge w_audit (Nd (L 2) (Nd (L 1) (L 0))) = r.
Proof. vm_compute. split; reflexivity. Qed.

(* the eviction beyond SESSION_MAXIMUM is order dependent when issue times collide (why the full
   session statement carries SessIssuedDistinct): 49 sessions, the two oldest issued at the
   same instant, merged with a replica holding one newer session *)
Definition w_many : smap :=
  map (fun i => (N.of_nat i, (ExpiresAt 5, (if Nat.leb i 1 then 100 else 100 + N.of_nat i), N.of_nat i))) (seq 0 49).
Example C11_witness_eviction_ties :
  let ins := [((20, 1), w_many); ((21, 2), [(60, (ExpiresAt 5, 500, 60))]); ((22, 3), [])] in
  option_map (fun r => map fst (snd r)) (eval (sess_merge false w_trim) ins (Nd (Nd (L 0) (L 2)) (L 1)))
  <> option_map (fun r => map fst (snd r)) (eval (sess_merge false w_trim) ins (Nd (L 0) (Nd (L 2) (L 1)))).
Proof. vm_compute. congruence. Qed.
