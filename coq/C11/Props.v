(* KV.C11.Props — property theorems only.

   Vocabulary (defined in Model.v / Proofs.v):
     ins               the replicas' views of ONE attribute: a list of (change id, valueset)
     shape             a merge tree over replica numbers: L i | Nd a b  (every order and grouping)
     eval mrg ins s    run the tree with merge_state's role choice (greater change id = "newer")
     WellFormed        every valueset is a map (strictly ascending keys)
     *Consistent       immutable per-id data: two records under one key with the same state are equal
     *Window trim      no replica is outside the changelog window: a revocation older than the trim
                       cid held by one replica is, in every replica holding that key, such an old revocation
     Fits n            the replicas hold at most n distinct keys in total
     same_leafset      two trees mention the same set of replicas (any order, grouping, repetition) *)
From Coq Require Import List NArith Bool.
Import ListNotations.
Require Import KV.C11.Model KV.C11.Proofs.
Open Scope N_scope.

(* ------------------------------------------------------------------ the orders *)
(* Change ids (ts, server) are totally ordered. *)
Theorem C11_cid_total_order : CmpLaws cid_cmp.
Proof. exact cid_laws. Qed.

(* `Ord for SessionState` is a total order (equal only if identical, antisymmetric, transitive) ... *)
Theorem C11_sstate_total_order : CmpLaws sstate_cmp.
Proof. exact sstate_laws. Qed.
(* ... in which every revocation is above every other state, and among revocations the
   EARLIEST change id is the greatest. *)
Theorem C11_sstate_revoked_on_top : forall c c' t,
  sstate_cmp (RevokedAt c) (ExpiresAt t) = Gt /\ sstate_cmp (RevokedAt c) NeverExpires = Gt /\
  sstate_cmp (ExpiresAt t) NeverExpires = Gt /\
  (sstate_cmp (RevokedAt c) (RevokedAt c') = Gt <-> cid_cmp c c' = Lt).
Proof.
  intros c c' t. repeat split; cbn.
  - intros H. rewrite (cmp_antisym _ cid_laws c' c), H. reflexivity.
  - intros H. rewrite (cmp_antisym _ cid_laws c c'), H. reflexivity.
Qed.

(* With distinct change ids the newer/older roles are fixed by the ids, not by the argument
   order: merge_state's merge is commutative for ANY valueset merge function. *)
Theorem C11_role_choice_commutes : forall (M : Type) (mrg : M -> M -> M) (a b : cid * M),
  fst a <> fst b -> repl_merge mrg a b = repl_merge mrg b a.
Proof. exact @repl_merge_comm_distinct. Qed.

(* ------------------------------------------------------------------ sessions and oauth2 sessions *)
(* FULL STATEMENT for login sessions: any two merge trees over the same set of replicas give
   the same result, as long as distinct sessions have distinct issue times. *)
Definition C11_session_full_statement : Prop :=
  forall trim ins s1 s2,
    WellFormed N.compare ins -> SessConsistent ins -> SessWindow trim ins -> SessIssuedDistinct ins ->
    wf ins s1 -> wf ins s2 -> is_node s1 -> is_node s2 -> same_leafset s1 s2 ->
    eval (sess_merge false trim) ins s1 = eval (sess_merge false trim) ins s2.

(* PROVED PART (sessions): the same with "at most SESSION_MAXIMUM = 48 distinct sessions over all
   replicas" in place of distinct issue times, i.e. whenever the forced eviction cannot fire.
   MISSING: the eviction of the oldest-issued sessions beyond 48 (it is exercised by the
   differential runs, incl. pcheck on the implementation's results, but not proved).
   For OAuth2 sessions (oauth = true, no limit in the code) nothing is missing. *)
Theorem C11_session_order_grouping_independent_partial : forall oauth trim ins s1 s2,
  WellFormed N.compare ins -> SessConsistent ins -> SessWindow trim ins ->
  (oauth = true \/ Fits SESSION_MAXIMUM ins) ->
  wf ins s1 -> wf ins s2 -> is_node s1 -> is_node s2 -> same_leafset s1 s2 ->
  eval (sess_merge oauth trim) ins s1 = eval (sess_merge oauth trim) ins s2.
Proof. exact sess_tree_indep. Qed.

Theorem C11_oauth2_order_grouping_independent : forall trim ins s1 s2,
  WellFormed N.compare ins -> SessConsistent ins -> SessWindow trim ins ->
  wf ins s1 -> wf ins s2 -> is_node s1 -> is_node s2 -> same_leafset s1 s2 ->
  eval (sess_merge true trim) ins s1 = eval (sess_merge true trim) ins s2.
Proof. intros trim ins s1 s2 H1 H2 H3. exact (sess_tree_indep true trim ins s1 s2 H1 H2 H3 (or_introl eq_refl)). Qed.

(* the classic binary laws, as instances *)
Theorem C11_session_comm : forall oauth trim a b,
  WellFormed N.compare [a; b] -> SessConsistent [a; b] -> SessWindow trim [a; b] ->
  (oauth = true \/ Fits SESSION_MAXIMUM [a; b]) ->
  repl_merge (sess_merge oauth trim) a b = repl_merge (sess_merge oauth trim) b a.
Proof. exact sess_comm. Qed.
Theorem C11_session_assoc : forall oauth trim a b c,
  WellFormed N.compare [a; b; c] -> SessConsistent [a; b; c] -> SessWindow trim [a; b; c] ->
  (oauth = true \/ Fits SESSION_MAXIMUM [a; b; c]) ->
  repl_merge (sess_merge oauth trim) (repl_merge (sess_merge oauth trim) a b) c
  = repl_merge (sess_merge oauth trim) a (repl_merge (sess_merge oauth trim) b c).
Proof. exact sess_assoc. Qed.
(* merging a state with itself changes nothing except dropping revocations older than the trim cid *)
Theorem C11_session_idem : forall oauth trim (a : cid * smap),
  sorted N.compare (snd a) -> (oauth = true \/ (length (snd a) <= SESSION_MAXIMUM)%nat) ->
  repl_merge (sess_merge oauth trim) a a = (fst a, retain (fun v => negb (sval_dead trim v)) (snd a)).
Proof. exact sess_idem. Qed.

(* REVOCATION IS NEVER LOST: if any replica below the tree holds session k revoked at rc, and rc
   is not older than the trim cid, then the result holds k revoked, at a change id rc' <= rc that
   is some replica's revocation of k and is the EARLIEST of all replicas' revocations of k. *)
Theorem C11_session_revocation_dominates : forall oauth trim ins s i ci mi k v rc c m,
  WellFormed N.compare ins -> SessConsistent ins -> SessWindow trim ins ->
  (oauth = true \/ Fits SESSION_MAXIMUM ins) ->
  wf ins s -> is_node s -> eval (sess_merge oauth trim) ins s = Some (c, m) ->
  In i (leaves s) -> nth_error ins (N.to_nat i) = Some (ci, mi) -> In (k, v) mi ->
  s_state v = RevokedAt rc -> cid_ltb rc trim = false ->
  exists v' rc', In (k, v') m /\ s_state v' = RevokedAt rc' /\ cle rc' rc /\
    (exists j cj mj, In j (leaves s) /\ nth_error ins (N.to_nat j) = Some (cj, mj) /\ In (k, v') mj) /\
    (forall j cj mj w rw, In j (leaves s) -> nth_error ins (N.to_nat j) = Some (cj, mj) -> In (k, w) mj ->
       s_state w = RevokedAt rw -> cle rc' rw).
Proof. exact sess_revocation_dominates. Qed.

(* TRIM ONLY REMOVES WHAT HAS LEFT THE WINDOW: a session missing from a result is missing from
   every replica below the tree, or some replica holds it revoked before the trim cid. *)
Theorem C11_session_trim_only_expired : forall oauth trim ins s k c m,
  WellFormed N.compare ins -> SessConsistent ins -> SessWindow trim ins ->
  (oauth = true \/ Fits SESSION_MAXIMUM ins) ->
  wf ins s -> is_node s -> eval (sess_merge oauth trim) ins s = Some (c, m) ->
  (forall v, ~ In (k, v) m) ->
  (forall j cj mj v, In j (leaves s) -> nth_error ins (N.to_nat j) = Some (cj, mj) -> ~ In (k, v) mj) \/
  (exists v rc, s_state v = RevokedAt rc /\ cid_ltb rc trim = true /\
     exists j cj mj, In j (leaves s) /\ nth_error ins (N.to_nat j) = Some (cj, mj) /\ In (k, v) mj).
Proof. exact sess_trim_only_expired. Qed.

(* ------------------------------------------------------------------ key-internal (cryptographic key states) *)
(* key_merge is the code as repaired by /repo ea75008 ("replicated key revocations must merge
   to the earliest status change"): on equal status the earliest status cid wins.
   KeyConsistent only asks the immutable key data (usage, valid_from, der per status) to be
   consistent; nothing is assumed about status cids. *)

(* FULL STATEMENT for keys: any two merge trees over the same set of replicas give the same result. *)
Theorem C11_key_order_grouping_independent : forall trim ins s1 s2,
  WellFormed N.compare ins -> KeyConsistent ins -> KeyWindow trim ins ->
  wf ins s1 -> wf ins s2 -> is_node s1 -> is_node s2 -> same_leafset s1 s2 ->
  eval (key_merge trim) ins s1 = eval (key_merge trim) ins s2.
Proof. exact key_tree_indep. Qed.
Theorem C11_key_comm : forall trim a b,
  WellFormed N.compare [a; b] -> KeyConsistent [a; b] -> KeyWindow trim [a; b] ->
  repl_merge (key_merge trim) a b = repl_merge (key_merge trim) b a.
Proof. exact key_comm. Qed.
Theorem C11_key_assoc : forall trim a b c,
  WellFormed N.compare [a; b; c] -> KeyConsistent [a; b; c] -> KeyWindow trim [a; b; c] ->
  repl_merge (key_merge trim) (repl_merge (key_merge trim) a b) c
  = repl_merge (key_merge trim) a (repl_merge (key_merge trim) b c).
Proof. exact key_assoc. Qed.
Theorem C11_key_idem : forall trim (a : cid * kmap),
  sorted N.compare (snd a) ->
  repl_merge (key_merge trim) a a = (fst a, retain (fun v => negb (kval_dead trim v)) (snd a)).
Proof. exact key_idem. Qed.
(* REVOCATION IS NEVER LOST: a key revoked by any replica below the tree at a status cid not
   older than the trim cid is revoked in the result, at a status cid that is some replica's
   revocation of that key and the EARLIEST of all replicas' revocations of it. *)
Theorem C11_key_revocation_dominates : forall trim ins s i ci mi k v c m,
  WellFormed N.compare ins -> KeyConsistent ins -> KeyWindow trim ins ->
  wf ins s -> is_node s -> eval (key_merge trim) ins s = Some (c, m) ->
  In i (leaves s) -> nth_error ins (N.to_nat i) = Some (ci, mi) -> In (k, v) mi ->
  k_status v = KRevoked -> cid_ltb (k_cid v) trim = false ->
  exists v', In (k, v') m /\ k_status v' = KRevoked /\ cle (k_cid v') (k_cid v) /\
    (exists j cj mj, In j (leaves s) /\ nth_error ins (N.to_nat j) = Some (cj, mj) /\ In (k, v') mj) /\
    (forall j cj mj w, In j (leaves s) -> nth_error ins (N.to_nat j) = Some (cj, mj) -> In (k, w) mj ->
       k_status w = KRevoked -> cle (k_cid v') (k_cid w)).
Proof. exact key_revocation_dominates. Qed.

(* PRE-FIX BEHAVIOUR (documentation of the defect repaired by ea75008, NOT the current code):
   key_merge_prefix compared only `status` and ignored `status_cid`; the same statement was
   FALSE for it — two independent revocations of one key at different change ids were resolved
   by the newer/older role, which depends on the grouping (witness Proofs.key_witness_ins,
   reproduced on the pre-fix code by the harness; evaluated in Witness.C11_witness_key_prefix). *)
Definition C11_key_prefix_full_statement : Prop := key_prefix_full_statement.
Theorem C11_key_prefix_refuted : ~ C11_key_prefix_full_statement.
Proof. exact key_prefix_refuted. Qed.

(* ------------------------------------------------------------------ audit log *)
(* FULL STATEMENT for audit log strings: no bound on the number of entries. *)
Definition C11_audit_full_statement : Prop :=
  forall ins s1 s2,
    WellFormed cid_cmp ins -> AuditConsistent ins ->
    wf ins s1 -> wf ins s2 -> is_node s1 -> is_node s2 -> same_leafset s1 s2 ->
    eval audit_merge ins s1 = eval audit_merge ins s2.
(* PROVED PART: at most AUDIT_LOG_STRING_CAPACITY = 9 distinct entries over all replicas.
   MISSING: the interplay with `remove_oldest` beyond 9 entries (differentially tested only). *)
Theorem C11_audit_order_grouping_independent_partial : forall ins s1 s2,
  WellFormed cid_cmp ins -> AuditConsistent ins -> Fits AUDIT_LOG_STRING_CAPACITY ins ->
  wf ins s1 -> wf ins s2 -> is_node s1 -> is_node s2 -> same_leafset s1 s2 ->
  eval audit_merge ins s1 = eval audit_merge ins s2.
Proof. exact audit_tree_indep. Qed.

(* ------------------------------------------------------------------ the run-time tie *)
(* The executable independence check of pcheck means Leibniz equality of the recorded results. *)
Theorem C11_indep_check_sound : forall outs : list (shape * option (cid * smap)),
  indep smap_eqb outs = true ->
  forall s1 o1 s2 o2, In (s1, o1) outs -> In (s2, o2) outs -> same_leafset s1 s2 -> o1 = o2.
Proof. intros outs. exact (indep_sound smap_eqb outs smap_eqb_eq). Qed.

(* If the implementation's recorded results agree with the model on a case, the independence
   theorems hold of the IMPLEMENTATION's results of that case. *)
Theorem C11_agree_transfers_session : forall oauth trim ins outs,
  agree (CSess oauth trim ins outs) = true ->
  WellFormed N.compare ins -> SessConsistent ins -> SessWindow trim ins ->
  (oauth = true \/ Fits SESSION_MAXIMUM ins) ->
  forall s1 o1 s2 o2, In (s1, o1) outs -> In (s2, o2) outs ->
    wf ins s1 -> wf ins s2 -> is_node s1 -> is_node s2 -> same_leafset s1 s2 -> o1 = o2.
Proof. exact agree_transfers_sess. Qed.
Theorem C11_agree_transfers_key : forall trim ins outs,
  agree (CKey trim ins outs) = true ->
  WellFormed N.compare ins -> KeyConsistent ins -> KeyWindow trim ins ->
  forall s1 o1 s2 o2, In (s1, o1) outs -> In (s2, o2) outs ->
    wf ins s1 -> wf ins s2 -> is_node s1 -> is_node s2 -> same_leafset s1 s2 -> o1 = o2.
Proof. exact agree_transfers_key. Qed.
Theorem C11_agree_transfers_audit : forall trim ins outs,
  agree (CAudit trim ins outs) = true ->
  WellFormed cid_cmp ins -> AuditConsistent ins -> Fits AUDIT_LOG_STRING_CAPACITY ins ->
  forall s1 o1 s2 o2, In (s1, o1) outs -> In (s2, o2) outs ->
    wf ins s1 -> wf ins s2 -> is_node s1 -> is_node s2 -> same_leafset s1 s2 -> o1 = o2.
Proof. exact agree_transfers_audit. Qed.
