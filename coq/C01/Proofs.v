(* KV.C01.Proofs — soundness of the candidate-set algebra. *)
From Coq Require Import List NArith Bool Lia.
Import ListNotations.
Require Import KV.Base.Filter KV.C01.Model.
Open Scope N_scope.
Arguments N.ltb : simpl never.
Arguments N.eqb : simpl never.
Arguments N.sub : simpl never.
Arguments N.add : simpl never.

(* ---- sets *)
Lemma mem_In x s : mem x s = true <-> In x s.
Proof.
  unfold mem. rewrite existsb_exists. split.
  - intros [y [Hy E]]. apply N.eqb_eq in E. subst. exact Hy.
  - intros H. exists x. split; [exact H | apply N.eqb_refl].
Qed.
Lemma mem_false x s : mem x s = false <-> ~ In x s.
Proof.
  rewrite <- mem_In. destruct (mem x s); split.
  - discriminate.
  - intros H. exfalso. apply H. reflexivity.
  - intros _ H. discriminate.
  - reflexivity.
Qed.
Lemma In_inter x a b : In x (inter_ a b) <-> In x a /\ In x b.
Proof. unfold inter_. rewrite filter_In, mem_In. tauto. Qed.
Lemma In_diff x a b : In x (diff_ a b) <-> In x a /\ ~ In x b.
Proof. unfold diff_. rewrite filter_In, negb_true_iff, mem_false. tauto. Qed.
Lemma In_union x a b : In x (union_ a b) <-> In x a \/ In x b.
Proof.
  unfold union_. rewrite in_app_iff, In_diff. split; [tauto|].
  intros [H|H]; [left; exact H|]. destruct (mem x a) eqn:E.
  - left. apply mem_In. exact E.
  - right. split; [exact H | apply mem_false; exact E].
Qed.
Lemma isnil_spec s : isnil s = true -> s = [].
Proof. destruct s; [reflexivity | discriminate]. Qed.

Lemma existsb_map' {A B} (f : B -> bool) (g : A -> B) l :
  existsb f (map g l) = existsb (fun x => f (g x)) l.
Proof. induction l as [|x r IH]; cbn; [reflexivity|]. rewrite IH. reflexivity. Qed.
Lemma forallb_map' {A B} (f : B -> bool) (g : A -> B) l :
  forallb f (map g l) = forallb (fun x => f (g x)) l.
Proof. induction l as [|x r IH]; cbn; [reflexivity|]. rewrite IH. reflexivity. Qed.
Lemma forallb_ext' {A} (f g : A -> bool) l : (forall x, f x = g x) -> forallb f l = forallb g l.
Proof. intros E. induction l as [|x r IH]; cbn; [reflexivity|]. rewrite E, IH. reflexivity. Qed.

Section Sound.
  Variable univ : list N.

  (* s contains every stored id on which tru holds *)
  Definition sup (tru : N -> bool) (s : list N) : Prop :=
    forall x, In x univ -> tru x = true -> In x s.
  (* restricted to stored ids, s is exactly the set where tru holds *)
  Definition exact (tru : N -> bool) (s : list N) : Prop :=
    forall x, In x univ -> (In x s <-> tru x = true).
  Definition sound (tru : N -> bool) (i : idl) : Prop :=
    match i with
    | AllIds => True
    | Partial s | PartialThreshold s => sup tru s
    | Indexed s => exact tru s
    end.

  Lemma exact_sup tru s : exact tru s -> sup tru s.
  Proof. intros H x Hx Ht. apply (H x Hx). exact Ht. Qed.
  Lemma sound_sup tru i : sound tru i ->
    match i with AllIds => True | Partial s | PartialThreshold s | Indexed s => sup tru s end.
  Proof. destruct i; cbn; auto using exact_sup. Qed.
  Lemma sound_ext t1 t2 i : (forall x, In x univ -> t1 x = t2 x) -> sound t1 i -> sound t2 i.
  Proof.
    intros E. destruct i; cbn; auto.
    - intros H x Hx Ht. apply H; auto. rewrite E; auto.
    - intros H x Hx Ht. apply H; auto. rewrite E; auto.
    - intros H x Hx. rewrite <- E by exact Hx. apply H. exact Hx.
  Qed.
  Lemma sup_weaken (A P : N -> bool) s :
    (forall x, In x univ -> A x = true -> P x = true) -> sup P s -> sup A s.
  Proof. intros HA H x Hx Ht. apply H; auto. Qed.
  Lemma exact_nil_of_sup (A : N -> bool) : sup A [] -> exact A [].
  Proof.
    intros H x Hx. split; [intros [] |]. intros Ht. exact (H x Hx Ht).
  Qed.

  (* ---- Or *)
  Lemma or_comb_sound : forall (l : list ((N -> bool) * idl)) acc tacc p t,
    Forall (fun c => sound (fst c) (snd c)) l ->
    sup tacc acc -> (p = false -> exact tacc acc) ->
    sound (fun x => tacc x || existsb (fun c => fst c x) l) (or_comb (map snd l) acc p t).
  Proof.
    induction l as [|[tr i] r IH]; intros acc tacc p t HF Hs He; cbn [map or_comb snd fst existsb].
    - destruct p.
      + assert (S : sup (fun x => tacc x || false) acc).
        { intros x Hx Ht. rewrite orb_false_r in Ht. auto. }
        destruct t; exact S.
      + cbn. intros x Hx. rewrite orb_false_r. apply He; auto.
    - inversion HF as [|c l' H1 H2]; subst. cbn [fst snd] in H1.
      assert (Hext : forall acc' p' t', 
                 sup (fun x => tacc x || tr x) acc' ->
                 (p' = false -> exact (fun x => tacc x || tr x) acc') ->
                 sound (fun x => tacc x || (tr x || existsb (fun c => fst c x) r))
                       (or_comb (map snd r) acc' p' t')).
      { intros acc' p' t' Hs' He'.
        eapply sound_ext; [|apply (IH acc' (fun x => tacc x || tr x) p' t' H2 Hs' He')].
        intros x _. cbn. rewrite orb_assoc. reflexivity. }
      assert (Hsu : forall s, sup tr s -> sup (fun x => tacc x || tr x) (union_ acc s)).
      { intros s Hs1 x Hx Ht. apply In_union. apply orb_true_iff in Ht as [Ht|Ht]; [left|right]; auto. }
      destruct i as [|s|s|s]; cbn in H1.
      + exact I.
      + apply Hext; [apply Hsu; exact H1 | discriminate].
      + apply Hext; [apply Hsu; exact H1 | discriminate].
      + apply Hext; [apply Hsu; apply exact_sup; exact H1 |].
        intros Hp x Hx. rewrite In_union, orb_true_iff, (He Hp x Hx), (H1 x Hx). tauto.
  Qed.

  (* ---- And steps *)
  Definition step_ok (P T : N -> bool) (neg : bool) (r : idl + idl) : Prop :=
    let C := fun x => P x && (if neg then negb (T x) else T x) in
    match r with
    | inl ret => forall A : N -> bool, (forall x, In x univ -> A x = true -> C x = true) -> sound A ret
    | inr c => sound C c
    end.

  Lemma thr_ret_ok (C : N -> bool) thres cnt r (k : list N -> idl) :
    sup C r -> (k = Partial \/ k = PartialThreshold) ->
    match thr_ret thres cnt r k with
    | inl ret => forall A : N -> bool, (forall x, In x univ -> A x = true -> C x = true) -> sound A ret
    | inr c => sound C c
    end.
  Proof.
    intros Hs Hk. unfold thr_ret. destruct (below thres r && (0 <? cnt)).
    - intros A HA. cbn. eapply sup_weaken; eauto.
    - destruct Hk as [-> | ->]; exact Hs.
  Qed.

  Lemma and_step_ok P T thres cnt cand inter :
    sound P cand -> sound T inter -> step_ok P T false (and_step thres cnt cand inter).
  Proof.
    intros Hc Hi. unfold step_ok.
    set (C := fun x => P x && T x).
    assert (Hinter : forall ia ib, sup P ia -> sup T ib -> sup C (inter_ ia ib)).
    { intros ia ib H1 H2 x Hx Ht. unfold C in Ht. apply andb_true_iff in Ht as [Hp Hq].
      apply In_inter. split; auto. }
    assert (HP : forall i, sup P i -> sup C i).
    { intros i H x Hx Ht. unfold C in Ht. apply andb_true_iff in Ht as [Hp _]. auto. }
    assert (HT : forall i, sup T i -> sup C i).
    { intros i H x Hx Ht. unfold C in Ht. apply andb_true_iff in Ht as [_ Hq]. auto. }
    destruct cand as [|ia|ia|ia], inter as [|ib|ib|ib]; cbn [and_step]; cbn in Hc, Hi.
    all: try (apply thr_ret_ok; [apply Hinter; auto using exact_sup | auto]; fail).
    all: try exact I.
    all: try (cbn; first [ solve [apply HT; auto using exact_sup] | solve [apply HP; auto using exact_sup] ]).
    - (* Indexed, Indexed *)
      assert (Hex : exact C (inter_ ia ib)).
      { intros x Hx. unfold C. rewrite In_inter, andb_true_iff, (Hc x Hx), (Hi x Hx). tauto. }
      destruct (below thres (inter_ ia ib) && (0 <? cnt)).
      + intros A HA. cbn. eapply sup_weaken; [exact HA | apply exact_sup; exact Hex].
      + destruct (isnil (inter_ ia ib)) eqn:En.
        * intros A HA. cbn. apply exact_nil_of_sup. apply isnil_spec in En.
          rewrite <- En. eapply sup_weaken; [exact HA | apply exact_sup; exact Hex].
        * exact Hex.
  Qed.

  Lemma andnot_step_ok P T thres cnt cand inter :
    sound P cand -> sound T inter -> step_ok P T true (andnot_step thres cnt cand inter).
  Proof.
    intros Hc Hi. unfold step_ok.
    set (C := fun x => P x && negb (T x)).
    assert (Hdiff : forall ia ib, sup P ia -> exact T ib -> sup C (diff_ ia ib)).
    { intros ia ib H1 H2 x Hx Ht. unfold C in Ht. apply andb_true_iff in Ht as [Hp Hq].
      apply In_diff. split; auto. intros Hin. apply (H2 x Hx) in Hin. rewrite Hin in Hq. discriminate. }
    assert (HP : forall i, sup P i -> sup C i).
    { intros i H x Hx Ht. unfold C in Ht. apply andb_true_iff in Ht as [Hp _]. auto. }
    destruct cand as [|ia|ia|ia], inter as [|ib|ib|ib]; cbn [andnot_step]; cbn in Hc, Hi;
      try exact I;
      try (apply thr_ret_ok; [first [apply Hdiff; auto using exact_sup | apply HP; auto using exact_sup] | auto]).
    (* Indexed, Indexed *)
    cbn. intros x Hx. unfold C. rewrite In_diff, andb_true_iff, negb_true_iff, (Hc x Hx).
    specialize (Hi x Hx). destruct (T x); split; intros [H1 H2]; split; auto; try congruence.
    - exfalso. apply H2. apply Hi. reflexivity.
    - intros Hin. apply Hi in Hin. discriminate.
  Qed.

  (* conjunction of a list of (truth, idl) terms, all used positively / all negatively *)
  Definition conj (neg : bool) (l : list ((N -> bool) * idl)) (x : N) : bool :=
    forallb (fun c => if neg then negb (fst c x) else fst c x) l.

  Lemma loop_ok (neg : bool) thres
        (step : N -> N -> idl -> idl -> idl + idl)
        (Hstep : forall P T cnt cand inter, sound P cand -> sound T inter ->
                   step_ok P T neg (step thres cnt cand inter)) :
    forall (l : list ((N -> bool) * idl)) P cnt cand,
      Forall (fun c => sound (fst c) (snd c)) l -> sound P cand ->
      match loop (step thres) cnt cand (map snd l) with
      | inl ret => forall A : N -> bool,
          (forall x, In x univ -> A x = true -> P x && conj neg l x = true) -> sound A ret
      | inr (c, _) => sound (fun x => P x && conj neg l x) c
      end.
  Proof.
    induction l as [|[tr i] r IH]; intros P cnt cand HF Hc; cbn [map loop snd].
    - eapply sound_ext; [|exact Hc]. intros x _. unfold conj; cbn. rewrite andb_true_r. reflexivity.
    - inversion HF as [|c l' H1 H2]; subst. cbn [fst snd] in H1.
      pose proof (Hstep P tr (cnt - 1) cand i Hc H1) as Hs. unfold step_ok in Hs.
      destruct (step thres (cnt - 1) cand i) as [ret|c].
      + intros A HA. apply Hs. intros x Hx Ht. specialize (HA x Hx Ht).
        unfold conj in HA. cbn [forallb fst] in HA.
        apply andb_true_iff in HA as [Hp Hq]. apply andb_true_iff in Hq as [Hq _].
        rewrite Hp, Hq. reflexivity.
      + specialize (IH _ (cnt - 1) c H2 Hs).
        destruct (loop (step thres) (cnt - 1) c (map snd r)) as [ret|[c2 n2]].
        * intros A HA. apply IH. intros x Hx Ht. specialize (HA x Hx Ht).
          unfold conj in *. cbn [forallb fst] in HA. rewrite <- andb_assoc. exact HA.
        * eapply sound_ext; [|exact IH]. intros x _. unfold conj. cbn [forallb fst].
          rewrite andb_assoc. reflexivity.
  Qed.

  (* children of an And: (truth of the term it stands for — for an AndNot child the truth
     of the INNER filter —, (is_andnot, idl)) *)
  Definition child := ((N -> bool) * (bool * idl))%type.
  Definition andtru (ch : list child) (x : N) : bool :=
    forallb (fun c : child => if fst (snd c) then negb (fst c x) else fst c x) ch.
  Definition posl (ch : list child) : list ((N -> bool) * idl) :=
    map (fun c : child => (fst c, snd (snd c))) (filter (fun c : child => negb (fst (snd c))) ch).
  Definition negl (ch : list child) : list ((N -> bool) * idl) :=
    map (fun c : child => (fst c, snd (snd c))) (filter (fun c : child => fst (snd c)) ch).

  Lemma andtru_split ch x : andtru ch x = conj false (posl ch) x && conj true (negl ch) x.
  Proof.
    unfold andtru, conj, posl, negl. induction ch as [|[t [ng i]] r IH]; [reflexivity|].
    cbn [forallb filter fst snd]. rewrite IH. destruct ng; cbn [negb map forallb fst snd].
    - destruct (t x); cbn [negb andb]; rewrite ?andb_false_r; reflexivity.
    - rewrite andb_assoc. reflexivity.
  Qed.

  Lemma map_snd_posl ch :
    map snd (filter (fun c => negb (fst c)) (map snd ch)) = map snd (posl ch).
  Proof.
    unfold posl. induction ch as [|[t [ng i]] r IH]; [reflexivity|].
    cbn [map filter fst snd]. destruct ng; cbn [negb map snd fst]; rewrite IH; reflexivity.
  Qed.
  Lemma map_snd_negl ch :
    map snd (filter (fun c => fst c) (map snd ch)) = map snd (negl ch).
  Proof.
    unfold negl. induction ch as [|[t [ng i]] r IH]; [reflexivity|].
    cbn [map filter fst snd]. destruct ng; cbn [map snd fst]; rewrite IH; reflexivity.
  Qed.
  Lemma Forall_posl ch : Forall (fun c : child => sound (fst c) (snd (snd c))) ch ->
    Forall (fun c => sound (fst c) (snd c)) (posl ch).
  Proof.
    unfold posl. induction 1 as [|[t [ng i]] r H1 H2 IH]; [constructor|].
    cbn [filter fst snd]. destruct ng; cbn [negb map]; [exact IH | constructor; [exact H1 | exact IH]].
  Qed.
  Lemma Forall_negl ch : Forall (fun c : child => sound (fst c) (snd (snd c))) ch ->
    Forall (fun c => sound (fst c) (snd c)) (negl ch).
  Proof.
    unfold negl. induction 1 as [|[t [ng i]] r H1 H2 IH]; [constructor|].
    cbn [filter fst snd]. destruct ng; cbn [map]; [constructor; [exact H1 | exact IH] | exact IH].
  Qed.

  Lemma and_comb_sound thres (ch : list child) :
    Forall (fun c : child => sound (fst c) (snd (snd c))) ch ->
    posl ch <> [] ->
    sound (andtru ch) (and_comb thres (map snd ch)).
  Proof.
    intros HF Hne. unfold and_comb. rewrite map_snd_posl, map_snd_negl.
    pose proof (Forall_posl ch HF) as HFp. pose proof (Forall_negl ch HF) as HFn.
    assert (Hsplit := andtru_split ch).
    destruct (posl ch) as [|[t1 i1] rest] eqn:Ep; cbn [map snd]; [congruence|].
    inversion HFp as [|c l' H1 H2]; subst. cbn [fst snd] in H1.
    set (cnt0 := N.of_nat (length (i1 :: map snd rest)) + N.of_nat (length (map snd (negl ch))) - 1).
    (* A implies the first positive term *)
    assert (HA1 : forall x, In x univ -> andtru ch x = true -> t1 x = true).
    { intros x _ Ht. rewrite Hsplit in Ht. apply andb_true_iff in Ht as [Ht _].
      unfold conj in Ht. cbn [forallb fst] in Ht. apply andb_true_iff in Ht as [Ht _]. exact Ht. }
    assert (Hearly : forall s, sup t1 s ->
              match (if below thres s && (0 <? cnt0) then Some (PartialThreshold s)
                     else if isnil s then Some (Indexed []) else None) with
              | Some r => sound (andtru ch) r
              | None => True end).
    { intros s Hs. destruct (below thres s && (0 <? cnt0)).
      - cbn. eapply sup_weaken; [exact HA1 | exact Hs].
      - destruct (isnil s) eqn:En; [|exact I]. cbn. apply exact_nil_of_sup.
        apply isnil_spec in En. rewrite <- En. eapply sup_weaken; [exact HA1 | exact Hs]. }
    (* the main loops *)
    assert (Hmain :
      sound (andtru ch)
        match loop (and_step thres) cnt0 i1 (map snd rest) with
        | inl r => r
        | inr (c, cnt1) =>
            match loop (andnot_step thres) cnt1 c (map snd (negl ch)) with
            | inl r => r
            | inr (c2, _) => c2
            end
        end).
    { pose proof (loop_ok false thres (fun th => and_step th)
                   (fun P T cnt cand inter => and_step_ok P T thres cnt cand inter)
                   rest t1 cnt0 i1 H2 H1) as L1.
      destruct (loop (and_step thres) cnt0 i1 (map snd rest)) as [ret|[c cnt1]].
      - apply L1. intros x Hx Ht. rewrite Hsplit in Ht. apply andb_true_iff in Ht as [Ht _].
        unfold conj in *. cbn [forallb fst] in Ht. exact Ht.
      - pose proof (loop_ok true thres (fun th => andnot_step th)
                     (fun P T cnt cand inter => andnot_step_ok P T thres cnt cand inter)
                     (negl ch) _ cnt1 c HFn L1) as L2.
        destruct (loop (andnot_step thres) cnt1 c (map snd (negl ch))) as [ret|[c2 n2]].
        + apply L2. intros x Hx Ht. rewrite Hsplit in Ht. unfold conj in *. cbn [forallb fst] in Ht.
          exact Ht.
        + eapply sound_ext; [|exact L2]. intros x _. rewrite Hsplit. unfold conj. cbn [forallb fst].
          reflexivity. }
    destruct i1 as [|s|s|s]; cbn in H1.
    - exact Hmain.
    - specialize (Hearly s H1). fold cnt0.
      destruct (if below thres s && (0 <? cnt0) then Some (PartialThreshold s)
                else if isnil s then Some (Indexed []) else None); [exact Hearly | exact Hmain].
    - specialize (Hearly s H1). fold cnt0.
      destruct (if below thres s && (0 <? cnt0) then Some (PartialThreshold s)
                else if isnil s then Some (Indexed []) else None); [exact Hearly | exact Hmain].
    - specialize (Hearly s (exact_sup _ _ H1)). fold cnt0.
      destruct (if below thres s && (0 <? cnt0) then Some (PartialThreshold s)
                else if isnil s then Some (Indexed []) else None); [exact Hearly | exact Hmain].
  Qed.

  (* ---- the whole algorithm *)
  Variable sem : N -> leafsem.                (* leaf truth of each stored entry *)
  Variable orc : leafkind -> N -> N -> slope -> idl.
  Variable thres : N.
  Hypothesis leaf_sound : forall k a v s, sound (fun x => sem x k a v) (orc k a v s).

  Definition tru (f : filt) (x : N) : bool := ematch (sem x) f.

  Definition P (f : filt) : Prop :=
    (user_filter f = true -> unguarded f = false -> sound (tru f) (f2i orc thres f)) /\
    (forall g s, f = FAndNot g s -> user_filter g = true -> unguarded g = false ->
                 sound (tru g) (f2i orc thres g)).

  Lemma existsb_false {A} (p : A -> bool) l : existsb p l = false -> forall x, In x l -> p x = false.
  Proof.
    intros H x Hx. destruct (p x) eqn:E; [|reflexivity].
    assert (existsb p l = true) by (apply existsb_exists; exists x; auto). congruence.
  Qed.

  Lemma f2i_sound_strong : forall f, P f.
  Proof.
    induction f as [k a v s | l s IH | l s IH | a | l s IH | g s IH] using filt_ind';
      (split; [intros Hu Hg; cbn [f2i] | intros g0 s0 E; try discriminate E]).
    - apply leaf_sound.
    - (* Or *)
      cbn [user_filter] in Hu. rewrite forallb_forall in Hu.
      cbn [unguarded] in Hg. pose proof (existsb_false _ _ Hg) as Hg'.
      assert (HF : Forall (fun c : (N -> bool) * idl => sound (fst c) (snd c))
                          (map (fun f => (tru f, f2i orc thres f)) l)).
      { apply Forall_forall. intros c Hc. apply in_map_iff in Hc as [f [<- Hf]]. cbn.
        rewrite Forall_forall in IH. apply (IH f Hf); auto. }
      pose proof (or_comb_sound _ [] (fun _ => false) false false HF) as H.
      rewrite map_map in H. cbn [snd] in H.
      eapply sound_ext; [|apply H].
      + intros x _. unfold tru. cbn [ematch orb]. rewrite existsb_map'. cbn. reflexivity.
      + intros x _ Ht. discriminate.
      + intros _ x _. split; [intros [] | discriminate].
    - (* And *)
      cbn [user_filter] in Hu. rewrite forallb_forall in Hu.
      cbn [unguarded] in Hg. apply orb_false_iff in Hg as [Hpos Hg].
      apply negb_false_iff in Hpos. pose proof (existsb_false _ _ Hg) as Hg'.
      set (mk := fun c : filt => match c with
                                 | FAndNot g _ => (tru g, (true, f2i orc thres g))
                                 | _ => (tru c, (false, f2i orc thres c)) end).
      assert (HF : Forall (fun c : child => sound (fst c) (snd (snd c))) (map mk l)).
      { apply Forall_forall. intros c Hc. apply in_map_iff in Hc as [f [<- Hf]].
        rewrite Forall_forall in IH. destruct (IH f Hf) as [IH1 IH2]. specialize (Hu f Hf).
        specialize (Hg' f Hf).
        destruct f as [k a v s'| l' s'| l' s'| a| l' s'| g s']; cbn [mk fst snd];
          try (apply IH1; [exact Hu | exact Hg']).
        apply (IH2 g s' eq_refl); [exact Hu | exact Hg']. }
      assert (Hne : posl (map mk l) <> []).
      { apply existsb_exists in Hpos as [c [Hc Hn]]. unfold posl.
        intros Habs. apply map_eq_nil in Habs.
        assert (Hin : In (mk c) (filter (fun c0 : child => negb (fst (snd c0))) (map mk l))).
        { apply filter_In. split; [apply in_map; exact Hc|].
          destruct c; cbn in Hn |- *; try reflexivity. discriminate. }
        rewrite Habs in Hin. destruct Hin. }
      pose proof (and_comb_sound thres _ HF Hne) as H.
      rewrite map_map in H.
      assert (Emap : map (fun x => snd (mk x)) l =
                     map (fun c => match c with
                                   | FAndNot g _ => (true, f2i orc thres g)
                                   | _ => (false, f2i orc thres c) end) l).
      { apply map_ext. intros c. destruct c; reflexivity. }
      rewrite Emap in H.
      eapply sound_ext; [|exact H].
      intros x _. unfold tru, andtru. cbn [ematch]. rewrite forallb_map'.
      apply forallb_ext'. intros c. destruct c; reflexivity.
    - (* Invalid *) cbn. intros x _. split; [intros [] | discriminate].
    - (* Inclusion: not a user filter *) discriminate Hu.
    - (* AndNot isolated: unguarded *) discriminate Hg.
    - injection E as -> ->. intros Hu Hg. apply IH; assumption.
  Qed.

  Theorem f2i_sound : forall f, user_filter f = true -> unguarded f = false ->
    sound (tru f) (f2i orc thres f).
  Proof. intros f. apply f2i_sound_strong. Qed.

  (* the candidate set search/exists start from is sound for EVERY user filter *)
  Theorem cand_sound : forall f, user_filter f = true -> sound (tru f) (cand orc thres f).
  Proof.
    intros f Hu. unfold cand. destruct (unguarded f) eqn:E; [exact I | apply f2i_sound; assumption].
  Qed.

  (* ---- search: explicit error, or exactly the stored entries satisfying the filter *)
  Theorem be_search_exact lim f :
    user_filter f = true ->
    match be_search lim univ (tru f) (cand orc thres f) with
    | SErr => True
    | SOk r => forall x, In x r <-> In x univ /\ tru f x = true
    end.
  Proof.
    intros Hu. pose proof (cand_sound f Hu) as Hs. unfold be_search.
    destruct (match cand orc thres f with
              | AllIds => negb (unindexed_allow lim)
              | Partial s => negb (below (max_filter_test lim) s)
              | PartialThreshold _ => false
              | Indexed s => negb (below (max_results lim) s) end); [exact I|].
    match goal with |- context [if ?c then SErr else SOk ?r] => destruct c; [exact I|] end.
    intros x. destruct (cand orc thres f) as [|s|s|s]; cbn in Hs.
    - rewrite filter_In. tauto.
    - rewrite !filter_In, mem_In. split; [tauto|]. intros [Hx Ht]. repeat split; auto.
    - rewrite !filter_In, mem_In. split; [tauto|]. intros [Hx Ht]. repeat split; auto.
    - rewrite filter_In, mem_In. split.
      + intros [Hx Hin]. split; [exact Hx|]. apply (Hs x Hx). exact Hin.
      + intros [Hx Ht]. split; [exact Hx|]. apply (Hs x Hx). exact Ht.
  Qed.
  Lemma isnil_filter (p : N -> bool) l : isnil (filter p l) = true <-> (forall x, In x l -> p x = false).
  Proof.
    induction l as [|y r IH]; cbn [filter].
    - split; [intros _ x [] | reflexivity].
    - destruct (p y) eqn:E; cbn [isnil].
      + split; [discriminate|]. intros H. specialize (H y (or_introl eq_refl)). congruence.
      + rewrite IH. split.
        * intros H x [<-|Hx]; auto.
        * intros H x Hx. apply H. right. exact Hx.
  Qed.

  (* exists: explicit error, or true iff some stored entry satisfies the filter.
     For a fully indexed answer the candidate list itself is consulted, so its ids must be stored ids. *)
  Theorem be_exists_exact lim f :
    user_filter f = true ->
    (forall s, cand orc thres f = Indexed s -> forall x, In x s -> In x univ) ->
    match be_exists lim univ (tru f) (cand orc thres f) with
    | EErr => True
    | EOk b => b = true <-> exists x, In x univ /\ tru f x = true
    end.
  Proof.
    intros Hu Hsub. pose proof (cand_sound f Hu) as Hs. unfold be_exists.
    destruct (match cand orc thres f with
              | AllIds => negb (unindexed_allow lim)
              | Partial s => negb (below (max_filter_test lim) s)
              | _ => false end); [exact I|].
    destruct (cand orc thres f) as [|s|s|s]; cbn in Hs.
    - rewrite negb_true_iff. split.
      + intros H. destruct (filter (tru f) univ) as [|x r] eqn:E; [discriminate|].
        assert (Hin : In x (filter (tru f) univ)) by (rewrite E; left; reflexivity).
        apply filter_In in Hin. exists x. exact Hin.
      + intros [x [Hx Ht]]. destruct (isnil (filter (tru f) univ)) eqn:E; [|reflexivity].
        apply isnil_filter with (x := x) in E; [congruence | exact Hx].
    - rewrite negb_true_iff. split.
      + intros H. destruct (filter (tru f) (filter (fun x => mem x s) univ)) as [|x r] eqn:E; [discriminate|].
        assert (Hin : In x (filter (tru f) (filter (fun x => mem x s) univ))) by (rewrite E; left; reflexivity).
        apply filter_In in Hin as [Hin Ht]. apply filter_In in Hin as [Hin _]. exists x. auto.
      + intros [x [Hx Ht]]. destruct (isnil (filter (tru f) (filter (fun x => mem x s) univ))) eqn:E; [|reflexivity].
        apply isnil_filter with (x := x) in E; [congruence|].
        apply filter_In. split; [exact Hx | apply mem_In; apply Hs; auto].
    - rewrite negb_true_iff. split.
      + intros H. destruct (filter (tru f) (filter (fun x => mem x s) univ)) as [|x r] eqn:E; [discriminate|].
        assert (Hin : In x (filter (tru f) (filter (fun x => mem x s) univ))) by (rewrite E; left; reflexivity).
        apply filter_In in Hin as [Hin Ht]. apply filter_In in Hin as [Hin _]. exists x. auto.
      + intros [x [Hx Ht]]. destruct (isnil (filter (tru f) (filter (fun x => mem x s) univ))) eqn:E; [|reflexivity].
        apply isnil_filter with (x := x) in E; [congruence|].
        apply filter_In. split; [exact Hx | apply mem_In; apply Hs; auto].
    - rewrite negb_true_iff. split.
      + intros H. destruct s as [|x r]; [discriminate|].
        assert (Hx : In x univ) by (apply (Hsub _ eq_refl); left; reflexivity).
        exists x. split; [exact Hx|]. apply (Hs x Hx). left. reflexivity.
      + intros [x [Hx Ht]]. apply (Hs x Hx) in Ht. destruct s; [destruct Ht | reflexivity].
  Qed.
End Sound.

(* ------------------------------------------------------------------ bridge to the run-time tie *)
Lemma leafkind_eqb_eq a b : leafkind_eqb a b = true -> a = b.
Proof. destruct a, b; cbn; intros H; try discriminate; reflexivity. Qed.

Lemma find_leaf_spec ls k a v idx r :
  find_leaf ls k a v idx = Some r -> In r ls /\ lr_k r = k /\ lr_a r = a /\ lr_v r = v.
Proof.
  induction ls as [|r0 t IH]; cbn [find_leaf]; [discriminate|].
  unfold key_eqb. destruct (leafkind_eqb (lr_k r0) k && (lr_a r0 =? a) && (lr_v r0 =? v) && Bool.eqb (lr_idx r0) idx) eqn:E.
  - intros [= <-]. apply andb_true_iff in E as [E _]. apply andb_true_iff in E as [E Ev].
    apply andb_true_iff in E as [Ek Ea]. apply leafkind_eqb_eq in Ek. apply N.eqb_eq in Ea. apply N.eqb_eq in Ev.
    repeat split; auto. left; reflexivity.
  - intros H. destruct (IH H) as (Hin & H1). split; [right; exact Hin | exact H1].
Qed.

Lemma leaves_ok_sound univ ls :
  forallb (leaf_ok univ ls) ls = true ->
  forall k a v s, sound univ (fun x => sem_of ls x k a v) (orc_of ls k a v s).
Proof.
  intros Hall k a v s. unfold orc_of. destruct (find_leaf ls k a v (is_some s)) as [r|] eqn:E; [|exact I].
  apply find_leaf_spec in E as (Hin & Hk & Ha & Hv).
  rewrite forallb_forall in Hall. specialize (Hall r Hin). unfold leaf_ok in Hall.
  apply andb_true_iff in Hall as [_ Hall]. rewrite Hk, Ha, Hv in Hall.
  destruct (lr_idl r) as [|t|t|t]; cbn; try exact I.
  - intros x Hx Ht. rewrite forallb_forall in Hall. specialize (Hall x Hx). rewrite Ht in Hall.
    apply mem_In. exact Hall.
  - intros x Hx Ht. rewrite forallb_forall in Hall. specialize (Hall x Hx). rewrite Ht in Hall.
    apply mem_In. exact Hall.
  - intros x Hx. rewrite forallb_forall in Hall. specialize (Hall x Hx).
    apply eqb_prop in Hall. rewrite <- Hall. apply iff_sym, mem_In.
Qed.

Lemma set_eqb_spec a b : set_eqb a b = true <-> (forall x, In x a <-> In x b).
Proof.
  unfold set_eqb. rewrite andb_true_iff, !forallb_forall. split.
  - intros [H1 H2] x. split; intros H; apply mem_In; auto.
  - intros H. split; intros x Hx; apply mem_In; apply H; exact Hx.
Qed.

(* If the recorded leaf answers are sound and the real backend's search answer agrees with the
   model's, then the real answer is exactly the reference-semantics result. *)
Theorem agree_search_exact univ ls f thres lim ii isr ier itrue :
  forallb (leaf_ok univ ls) ls = true -> user_filter f = true ->
  agree (CBe univ ls f thres lim ii isr ier itrue) = true ->
  match isr with SErr => True | SOk r => set_eqb r (ref_result univ ls f) = true end.
Proof.
  intros Hl Hu Ha. cbn [agree] in Ha.
  apply andb_true_iff in Ha as [Ha _]. apply andb_true_iff in Ha as [_ Hs].
  pose proof (be_search_exact univ (sem_of ls) (orc_of ls) 0 (leaves_ok_sound univ ls Hl) lim f Hu) as Hex.
  unfold tru in Hex.
  destruct (be_search lim univ (fun id => ematch (sem_of ls id) f) (cand (orc_of ls) 0 f)) as [|r'];
    destruct isr as [|r]; cbn [sres_eqb] in Hs; try discriminate Hs; [exact I|].
  apply set_eqb_spec. intros x. apply set_eqb_spec with (x := x) in Hs. rewrite <- Hs, (Hex x).
  unfold ref_result. rewrite filter_In. tauto.
Qed.
