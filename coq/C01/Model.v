(* KV.C01.Model — candidate-set algebra of BackendTransaction::filter2idl and the re-test of
   BackendTransaction::search / exists (server/lib/src/be/mod.rs), transcribed arm by arm
   (tree AFTER the commit "fix: backend search ...": AndNot arms subtract only exactly
   resolved sets; search/exists test every entry when an AndNot is unguarded). Executable definitions only.

   Leaf terms (Eq/Cnt/Stw/Enw/Pres/LessThan) are resolved by an index ORACLE `orc`: in the
   theorems any oracle satisfying `leaf_sound`; in the correspondence the candidate list the
   real backend returned for that leaf alone. *)
From Coq Require Import List NArith Bool.
Import ListNotations.
Require Import KV.Base.Filter.
Open Scope N_scope.

(* ---- id sets: duplicate-free lists *)
Definition mem (x : N) (s : list N) : bool := existsb (N.eqb x) s.
Definition inter_ (a b : list N) : list N := filter (fun x => mem x b) a.
Definition diff_ (a b : list N) : list N := filter (fun x => negb (mem x b)) a.
Definition union_ (a b : list N) : list N := a ++ diff_ b a.
Definition isnil (s : list N) : bool := match s with [] => true | _ => false end.
(* IDLBitRange::below_threshold *)
Definition below (thres : N) (s : list N) : bool := N.of_nat (length s) <? thres.

Inductive idl := AllIds | Partial (s : list N) | PartialThreshold (s : list N) | Indexed (s : list N).

(* ---- Or arm *)
Fixpoint or_comb (l : list idl) (acc : list N) (partial threshold : bool) : idl :=
  match l with
  | [] => if partial then (if threshold then PartialThreshold acc else Partial acc) else Indexed acc
  | AllIds :: _ => AllIds
  | Indexed s :: r => or_comb r (union_ acc s) partial threshold
  | Partial s :: r => or_comb r (union_ acc s) true threshold
  | PartialThreshold s :: r => or_comb r (union_ acc s) true true
  end.

(* ---- And arm. inl = early `return`, inr = continue with the new candidate set.
   cnt = f_rem_count after the decrement of this iteration. *)
Definition thr_ret (thres cnt : N) (r : list N) (k : list N -> idl) : idl + idl :=
  if below thres r && (0 <? cnt) then inl (PartialThreshold r) else inr (k r).

Definition and_step (thres cnt : N) (cand inter : idl) : idl + idl :=
  match cand, inter with
  | Indexed ia, Indexed ib =>
      let r := inter_ ia ib in
      if below thres r && (0 <? cnt) then inl (PartialThreshold r)
      else if isnil r then inl (Indexed []) else inr (Indexed r)
  | Indexed ia, Partial ib | Partial ia, Indexed ib | Partial ia, Partial ib =>
      thr_ret thres cnt (inter_ ia ib) Partial
  | Indexed ia, PartialThreshold ib | PartialThreshold ia, Indexed ib
  | PartialThreshold ia, PartialThreshold ib | PartialThreshold ia, Partial ib
  | Partial ia, PartialThreshold ib =>
      thr_ret thres cnt (inter_ ia ib) PartialThreshold
  | Indexed i, AllIds | AllIds, Indexed i | Partial i, AllIds | AllIds, Partial i => inr (Partial i)
  | PartialThreshold i, AllIds | AllIds, PartialThreshold i => inr (PartialThreshold i)
  | AllIds, AllIds => inr AllIds
  end.

(* the AndNot loop: `inter` is the candidate set of the NEGATED term *)
Definition andnot_step (thres cnt : N) (cand inter : idl) : idl + idl :=
  match cand, inter with
  | Indexed ia, Indexed ib => inr (Indexed (diff_ ia ib))
  | Partial ia, Indexed ib => thr_ret thres cnt (diff_ ia ib) Partial
  | PartialThreshold ia, Indexed ib => thr_ret thres cnt (diff_ ia ib) PartialThreshold
  (* negated term known only as a superset: nothing may be removed *)
  | Indexed r, Partial _ | Partial r, Partial _ => thr_ret thres cnt r Partial
  | Indexed r, PartialThreshold _ | PartialThreshold r, PartialThreshold _
  | PartialThreshold r, Partial _ | Partial r, PartialThreshold _ =>
      thr_ret thres cnt r PartialThreshold
  | _, AllIds | AllIds, _ => inr AllIds
  end.

Fixpoint loop (step : N -> idl -> idl -> idl + idl) (cnt : N) (cand : idl) (l : list idl) : idl + (idl * N) :=
  match l with
  | [] => inr (cand, cnt)
  | i :: r =>
      let cnt' := cnt - 1 in
      match step cnt' cand i with
      | inl ret => inl ret
      | inr c => loop step cnt' c r
      end
  end.

(* children: (is_andnot, idl of the child — for an AndNot child the idl of its INNER filter) *)
Definition and_comb (thres : N) (ch : list (bool * idl)) : idl :=
  let pos := map snd (filter (fun c => negb (fst c)) ch) in
  let neg := map snd (filter (fun c => fst c) ch) in
  match pos with
  | [] => Indexed []                  (* "And filter was empty, or contains only AndNot" *)
  | first :: rest =>
      let cnt0 := N.of_nat (length pos) + N.of_nat (length neg) - 1 in
      let early :=
        match first with
        | Indexed s | Partial s | PartialThreshold s =>
            if below thres s && (0 <? cnt0) then Some (PartialThreshold s)
            else if isnil s then Some (Indexed []) else None
        | AllIds => None
        end in
      match early with
      | Some r => r
      | None =>
          match loop (and_step thres) cnt0 first rest with
          | inl r => r
          | inr (c, cnt1) =>
              match loop (andnot_step thres) cnt1 c neg with
              | inl r => r
              | inr (c2, _) => c2
              end
          end
      end
  end.

(* ---- Inclusion arm (internal only; kept for a faithful transcription) *)
Fixpoint inc_comb (l : list idl) (acc : list N) : idl :=
  match l with
  | [] => Indexed acc
  | Indexed s :: r => if isnil s then Indexed [] else inc_comb r (union_ acc s)
  | _ :: _ => Partial []
  end.

Section F2I.
  Variable orc : leafkind -> N -> N -> slope -> idl.
  Variable thres : N.
  Fixpoint f2i (f : filt) : idl :=
    match f with
    | FLeaf k a v s => orc k a v s
    | FOr l _ => or_comb (map f2i l) [] false false
    | FAnd l _ =>
        and_comb thres (map (fun c => match c with
                                      | FAndNot g _ => (true, f2i g)
                                      | _ => (false, f2i c) end) l)
    | FInvalid _ => Indexed []
    | FInclusion l _ => inc_comb (map f2i l) []
    | FAndNot _ _ => Indexed []      (* "top level or isolated AndNot, returning empty" *)
    end.
End F2I.

(* FilterResolved::has_unguarded_andnot (server/lib/src/filter.rs): an AndNot the index layer
   cannot resolve — anywhere but as a term of an And that also has a positive term *)
Fixpoint unguarded (f : filt) : bool :=
  match f with
  | FAndNot _ _ => true
  | FOr l _ | FInclusion l _ => existsb unguarded l
  | FAnd l _ =>
      negb (existsb (fun c => negb (is_andnot c)) l)
      || existsb (fun c => match c with FAndNot g _ => unguarded g | _ => unguarded c end) l
  | FLeaf _ _ _ _ | FInvalid _ => false
  end.

(* the candidate set search/exists start from *)
Definition cand (orc : leafkind -> N -> N -> slope -> idl) (thres : N) (f : filt) : idl :=
  if unguarded f then AllIds else f2i orc thres f.

(* ---- search / exists: resource limits and the per-entry re-test *)
Record limits := mklim { unindexed_allow : bool; max_results : N; max_filter_test : N }.
Inductive sres := SErr | SOk (ids : list N).

(* univ: ids of all stored entries; tru id = entry_match_no_index of the WHOLE filter on entry id *)
Definition be_search (lim : limits) (univ : list N) (tru : N -> bool) (i : idl) : sres :=
  let pre_err :=
    match i with
    | AllIds => negb (unindexed_allow lim)
    | Partial s => negb (below (max_filter_test lim) s)
    | PartialThreshold _ => false
    | Indexed s => negb (below (max_results lim) s)
    end in
  if pre_err then SErr else
  let res :=
    match i with
    | AllIds => filter tru univ
    | Partial s | PartialThreshold s => filter tru (filter (fun x => mem x s) univ)
    | Indexed s => filter (fun x => mem x s) univ
    end in
  if max_results lim <? N.of_nat (length res) then SErr else SOk res.

Inductive eres := EErr | EOk (b : bool).
Definition be_exists (lim : limits) (univ : list N) (tru : N -> bool) (i : idl) : eres :=
  let pre_err :=
    match i with
    | AllIds => negb (unindexed_allow lim)
    | Partial s => negb (below (max_filter_test lim) s)
    | _ => false
    end in
  if pre_err then EErr else
  match i with
  | Indexed s => EOk (negb (isnil s))
  | AllIds => EOk (negb (isnil (filter tru univ)))
  | Partial s | PartialThreshold s => EOk (negb (isnil (filter tru (filter (fun x => mem x s) univ))))
  end.

(* ------------------------------------------------------------------ correspondence *)
Definition set_eqb (a b : list N) : bool := forallb (fun x => mem x b) a && forallb (fun x => mem x a) b.
Definition idl_eqb (a b : idl) : bool :=
  match a, b with
  | AllIds, AllIds => true
  | Partial x, Partial y | PartialThreshold x, PartialThreshold y | Indexed x, Indexed y => set_eqb x y
  | _, _ => false
  end.
Definition sres_eqb (a b : sres) : bool :=
  match a, b with SErr, SErr => true | SOk x, SOk y => set_eqb x y | _, _ => false end.
Definition eres_eqb (a b : eres) : bool :=
  match a, b with EErr, EErr => true | EOk x, EOk y => Bool.eqb x y | _, _ => false end.

(* one recorded leaf: key, whether the resolver marked it indexed, the candidate list the real
   backend returned for the leaf ALONE, and the ids of the entries on which the real
   entry_match_no_index of that leaf is true *)
Record leafrec := mkleaf { lr_k : leafkind; lr_a : N; lr_v : N; lr_idx : bool; lr_idl : idl; lr_true : list N }.

Definition key_eqb (r : leafrec) (k : leafkind) (a v : N) (idx : bool) : bool :=
  leafkind_eqb (lr_k r) k && (lr_a r =? a) && (lr_v r =? v) && Bool.eqb (lr_idx r) idx.
Definition is_some {A} (o : option A) : bool := match o with Some _ => true | None => false end.

Fixpoint find_leaf (ls : list leafrec) (k : leafkind) (a v : N) (idx : bool) : option leafrec :=
  match ls with
  | [] => None
  | r :: t => if key_eqb r k a v idx then Some r else find_leaf t k a v idx
  end.
Definition orc_of (ls : list leafrec) : leafkind -> N -> N -> slope -> idl :=
  fun k a v s => match find_leaf ls k a v (is_some s) with Some r => lr_idl r | None => AllIds end.
(* leaf truth for entry `id`: the first record for (kind, attr, value); the slope does not matter for meaning *)
Fixpoint find_key (ls : list leafrec) (k : leafkind) (a v : N) : option leafrec :=
  match ls with
  | [] => None
  | r :: t => if leafkind_eqb (lr_k r) k && (lr_a r =? a) && (lr_v r =? v) then Some r else find_key t k a v
  end.
Definition sem_of (ls : list leafrec) (id : N) : leafsem :=
  fun k a v => match find_key ls k a v with Some r => mem id (lr_true r) | None => false end.

Inductive case :=
(* backend level: one resolved filter tree under one index layout *)
| CBe (univ : list N) (leaves : list leafrec) (f : filt) (thres : N) (lim : limits)
      (impl_idl : idl) (impl_search : sres) (impl_exists : eres)
      (impl_true : list N)            (* ids where the real entry_match_no_index(f) is true *)
(* server level (resolve + optimise + caches): only the answer and the reference are recorded *)
| CSrv (univ : list N) (leaves : list leafrec) (f : filt) (impl_result : sres).

Definition ref_result (univ : list N) (ls : list leafrec) (f : filt) : list N :=
  filter (fun id => ematch (sem_of ls id) f) univ.

Definition agree (c : case) : bool :=
  match c with
  | CBe univ ls f thres lim ii isr ier itrue =>
      let i := f2i (orc_of ls) thres f in
      (* search/exists run with FILTER_SEARCH_TEST_THRESHOLD = FILTER_EXISTS_TEST_THRESHOLD = 0 *)
      let i0 := cand (orc_of ls) 0 f in
      let tru := fun id => ematch (sem_of ls id) f in
      idl_eqb i ii
      && set_eqb (filter tru univ) itrue                   (* reference semantics transcription *)
      && sres_eqb (be_search lim univ tru i0) isr
      && eres_eqb (be_exists lim univ tru i0) ier
  | CSrv univ ls f isr =>
      match isr with SErr => true | SOk r => set_eqb (ref_result univ ls f) r end
  end.

(* recorded leaf data is sound w.r.t. the recorded leaf truth: Indexed = exactly the matching
   stored ids, Partial = a superset. (Two records for one (kind, attr, value) with different index
   flags are both judged against the same truth, the one `sem_of` uses.) *)
Definition leaf_ok (univ : list N) (ls : list leafrec) (r : leafrec) : bool :=
  let t := fun x => sem_of ls x (lr_k r) (lr_a r) (lr_v r) in
  set_eqb (filter (fun x => mem x (lr_true r)) univ) (filter t univ)     (* duplicates agree on truth *)
  && match lr_idl r with
     | AllIds => true
     | Indexed s => forallb (fun x => Bool.eqb (mem x s) (t x)) univ
     | Partial s | PartialThreshold s => forallb (fun x => implb (t x) (mem x s)) univ
     end.

(* the property on the implementation's answers: explicit error, or exactly the entries that
   satisfy the filter under the reference boolean semantics *)
Definition pcheck (c : case) : bool :=
  match c with
  | CBe univ ls f thres lim ii isr ier itrue =>
      forallb (leaf_ok univ ls) ls && user_filter f
      && match isr with SErr => true | SOk r => set_eqb r (ref_result univ ls f) end
      && match ier with EErr => true | EOk b => Bool.eqb b (negb (isnil (ref_result univ ls f))) end
  | CSrv univ ls f isr =>
      match isr with SErr => true | SOk r => set_eqb r (ref_result univ ls f) end
  end.

Definition known (_ : case) : bool := false.
