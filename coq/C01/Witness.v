(* KV.C01.Witness — non-vacuity, and the inputs on which the pre-fix algorithm was wrong. *)
From Coq Require Import List NArith Bool.
Import ListNotations.
Require Import KV.Base.Filter KV.C01.Model.
Open Scope N_scope.

(* three entries 1,2,3 with gid 3000, 7000, 9000 (attribute 7); names ga, gb, gc (attribute 1) *)
Definition univ := [1; 2; 3].
Definition sem (x : N) : leafsem := fun k a v =>
  match k, a with
  | KPres, 7 => true
  | KLt, 7 => (match x with 1 => 3000 | 2 => 7000 | _ => 9000 end) <? v
  | KEq, 1 => x =? v
  | _, _ => false
  end.
(* an index layout: presence(7) indexed, LessThan(7) served from the presence index as a
   superset, equality(1) indexed *)
Definition orc : leafkind -> N -> N -> slope -> idl := fun k a v _ =>
  match k, a with
  | KPres, 7 => Indexed [1; 2; 3]
  | KLt, 7 => Partial [1; 2; 3]
  | KEq, 1 => Indexed (filter (fun x => x =? v) univ)
  | _, _ => AllIds
  end.

(* pres gid AND NOT (gid < 5000)  — the image of SCIM `gid ge 5000` *)
Definition f_ge := FAnd [FLeaf KPres 7 0 (Some 1); FAndNot (FLeaf KLt 7 5000 (Some 1)) None] None.
(* name = 1 OR NOT name = 2 *)
Definition f_or := FOr [FLeaf KEq 1 1 (Some 1); FAndNot (FLeaf KEq 1 2 (Some 1)) None] None.
Definition lim := mklim true 1000 1000.

Example C01_witness_ge :
  user_filter f_ge = true /\
  unguarded f_ge = false /\
  be_search lim univ (fun x => ematch (sem x) f_ge) (cand orc 0 f_ge) = SOk [2; 3].
Proof. vm_compute. repeat split; reflexivity. Qed.

Example C01_witness_or_not :
  user_filter f_or = true /\
  unguarded f_or = true /\
  be_search lim univ (fun x => ematch (sem x) f_or) (cand orc 0 f_or) = SOk [1; 3].
Proof. vm_compute. repeat split; reflexivity. Qed.

(* the guard is necessary: the raw candidate algebra is NOT sound on an unguarded NOT (it
   resolves `name = 1 OR NOT name = 2` to exactly {1}); this is why search must not use it there *)
Example C01_witness_unguarded_f2i_unsound :
  f2i orc 0 f_or = Indexed [1] /\ ematch (sem 3) f_or = true.
Proof. vm_compute. split; reflexivity. Qed.

(* the oracle above satisfies the leaf hypothesis on these filters' leaves (checked pointwise) *)
Example C01_witness_leaves_sound :
  forallb (fun x => Bool.eqb (mem x [1;2;3]) (sem x KPres 7 0)) univ = true /\
  forallb (fun x => implb (sem x KLt 7 5000) (mem x [1;2;3])) univ = true.
Proof. vm_compute. split; reflexivity. Qed.
