(* KV.C01.Props — property theorems only. *)
From Coq Require Import List NArith Bool.
Import ListNotations.
Require Import KV.Base.Filter KV.C01.Model KV.C01.Proofs.
Open Scope N_scope.

(* For ANY stored id set, ANY per-entry leaf semantics, ANY threshold and ANY index oracle whose
   leaf answers are sound (Indexed = exactly the matching stored ids, Partial = a superset,
   AllIds = no information) — i.e. any index layout, slope or statistic — and ANY user filter
   tree (unbounded nesting of AND / OR / NOT over the six leaf kinds) in which every NOT is a term
   of an AND with a positive term, the candidate set filter2idl computes is sound for the reference boolean semantics (NOT = complement). *)
Theorem C01_f2i_sound :
  forall (univ : list N) (sem : N -> leafsem) (orc : leafkind -> N -> N -> slope -> idl) (thres : N),
    (forall k a v s, sound univ (fun x => sem x k a v) (orc k a v s)) ->
    forall f, user_filter f = true -> unguarded f = false ->
      sound univ (fun x => ematch (sem x) f) (f2i orc thres f).
Proof. exact f2i_sound. Qed.

(* ... and the candidate set that search and exists actually start from (all ids when an AndNot
   is not guarded by a positive And term) is sound for EVERY user filter. *)
Theorem C01_cand_sound :
  forall (univ : list N) (sem : N -> leafsem) (orc : leafkind -> N -> N -> slope -> idl) (thres : N),
    (forall k a v s, sound univ (fun x => sem x k a v) (orc k a v s)) ->
    forall f, user_filter f = true ->
      sound univ (fun x => ematch (sem x) f) (cand orc thres f).
Proof. exact cand_sound. Qed.

(* Search: an explicit error, or EXACTLY the stored entries that satisfy the filter. *)
Theorem C01_search_exact :
  forall univ sem orc thres,
    (forall k a v s, sound univ (fun x => sem x k a v) (orc k a v s)) ->
    forall lim f, user_filter f = true ->
      match be_search lim univ (fun x => ematch (sem x) f) (cand orc thres f) with
      | SErr => True
      | SOk r => forall x, In x r <-> In x univ /\ ematch (sem x) f = true
      end.
Proof. exact be_search_exact. Qed.

(* Exists: an explicit error, or true iff some stored entry satisfies the filter. *)
Theorem C01_exists_exact :
  forall univ sem orc thres,
    (forall k a v s, sound univ (fun x => sem x k a v) (orc k a v s)) ->
    forall lim f, user_filter f = true ->
      (forall s, cand orc thres f = Indexed s -> forall x, In x s -> In x univ) ->
      match be_exists lim univ (fun x => ematch (sem x) f) (cand orc thres f) with
      | EErr => True
      | EOk b => b = true <-> exists x, In x univ /\ ematch (sem x) f = true
      end.
Proof. exact be_exists_exact. Qed.

(* The answer never depends on what is indexed: two sound oracles (two index layouts, two
   thresholds) over the same entries give the same members whenever both answer. *)
Theorem C01_layout_independent :
  forall univ sem orc1 orc2 th1 th2 lim1 lim2 f r1 r2,
    (forall k a v s, sound univ (fun x => sem x k a v) (orc1 k a v s)) ->
    (forall k a v s, sound univ (fun x => sem x k a v) (orc2 k a v s)) ->
    user_filter f = true ->
    be_search lim1 univ (fun x => ematch (sem x) f) (cand orc1 th1 f) = SOk r1 ->
    be_search lim2 univ (fun x => ematch (sem x) f) (cand orc2 th2 f) = SOk r2 ->
    forall x, In x r1 <-> In x r2.
Proof.
  intros univ sem orc1 orc2 th1 th2 lim1 lim2 f r1 r2 H1 H2 Hu E1 E2 x.
  pose proof (be_search_exact univ sem orc1 th1 H1 lim1 f Hu) as S1.
  pose proof (be_search_exact univ sem orc2 th2 H2 lim2 f Hu) as S2.
  unfold tru in S1, S2. rewrite E1 in S1. rewrite E2 in S2.
  rewrite (S1 x), (S2 x). tauto.
Qed.

(* Soundness of the run-time tie: on a recorded backend case whose leaf answers pass the
   soundness check, agreement of the real search answer with the model's forces the real answer
   to be exactly the reference-semantics result (so zero disagreements transfer C01_search_exact
   to every observed implementation case). *)
Theorem C01_agree_implies_search_exact :
  forall univ ls f thres lim ii isr ier itrue,
    forallb (leaf_ok univ ls) ls = true -> user_filter f = true ->
    agree (CBe univ ls f thres lim ii isr ier itrue) = true ->
    match isr with SErr => True | SOk r => set_eqb r (ref_result univ ls f) = true end.
Proof. exact agree_search_exact. Qed.
