(* KV.C02.Props — property theorems only. *)
From Coq Require Import List NArith Bool Permutation.
Import ListNotations.
Require Import KV.Base.Filter KV.C02.Model KV.C02.Proofs.
Open Scope N_scope.

(* Two terms the server considers equal (==, slopes ignored) mean the same on every entry. *)
Theorem C02_eq_sound : forall (sem : leafsem),
  (forall a v v', sem KPres a v = sem KPres a v') ->
  forall x y, feq x y = true -> ematch sem x = ematch sem y.
Proof. exact feq_sound. Qed.

(* The full rewrite (recursive flattening of nested AND/OR/Inclusion groups, sorting,
   de-duplication, unwrapping single-term groups) never changes which entries match — for EVERY
   filter tree, EVERY entry, and EVERY permutation-returning sort (so the unspecified order in
   which sort_unstable leaves equal terms cannot matter). *)
Theorem C02_optimise_preserves : forall (sem : leafsem),
  (forall a v v', sem KPres a v = sem KPres a v') ->
  forall (srt srt_rev : list filt -> list filt),
  (forall l, Permutation (srt l) l) -> (forall l, Permutation (srt_rev l) l) ->
  forall f, ematch sem (optimise srt srt_rev f) = ematch sem f.
Proof. exact optimise_preserves. Qed.

Theorem C02_fast_optimise_preserves : forall (sem : leafsem),
  (forall a v v', sem KPres a v = sem KPres a v') ->
  forall (srt : list filt -> list filt), (forall l, Permutation (srt l) l) ->
  forall f, ematch sem (fast_optimise srt f) = ematch sem f.
Proof. exact fast_optimise_preserves. Qed.

(* Resolving the caller's identity (SelfUuid := uuid = caller) and tagging terms with index
   metadata keeps the meaning, for any index metadata. *)
Theorem C02_resolve_preserves : forall idx self sem f,
  ematch sem (resolve idx self f) = cmatch self sem f.
Proof. exact resolve_preserves. Qed.

(* Composition: what is executed means what was asked. *)
Theorem C02_rewrite_pipeline : forall (sem : leafsem),
  (forall a v v', sem KPres a v = sem KPres a v') ->
  forall srt srt_rev, (forall l, Permutation (srt l) l) -> (forall l, Permutation (srt_rev l) l) ->
  forall idx self f,
  ematch sem (optimise srt srt_rev (resolve idx self f)) = cmatch self sem f.
Proof.
  intros sem Hp srt srt_rev H1 H2 idx self f.
  rewrite (optimise_preserves sem Hp srt srt_rev H1 H2). apply resolve_preserves.
Qed.
