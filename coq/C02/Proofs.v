(* KV.C02.Proofs *)
From Coq Require Import List NArith Bool Permutation.
Import ListNotations.
Require Import KV.Base.Filter KV.C02.Model.
Open Scope N_scope.
Arguments N.eqb : simpl never.

Section Sem.
  Variable sem : leafsem.
  (* a presence test does not look at a value *)
  Hypothesis pres_ignores_value : forall a v v', sem KPres a v = sem KPres a v'.
  Notation em := (ematch sem).

  (* == implies same meaning *)
  Lemma feq_sound : forall x y, feq x y = true -> em x = em y.
  Proof.
    induction x as [k a v s | l s IH | l s IH | a | l s IH | g s IH] using filt_ind';
      intros y H; destruct y as [k2 a2 v2 s2 | l2 s2 | l2 s2 | a2 | l2 s2 | g2 s2];
      cbn [feq] in H; try discriminate H.
    - destruct k, k2; try discriminate H; cbn [ematch];
        try (apply andb_true_iff in H as [Ha Hv]; apply N.eqb_eq in Ha; apply N.eqb_eq in Hv; subst; reflexivity).
      apply N.eqb_eq in H. subst. apply pres_ignores_value.
    - cbn [ematch]. revert l2 H. induction IH as [|x l Hx HF IHl]; intros [|b q] H; try discriminate H; [reflexivity|].
      apply andb_true_iff in H as [H1 H2]. cbn [existsb]. rewrite (Hx b H1), (IHl q H2). reflexivity.
    - cbn [ematch]. revert l2 H. induction IH as [|x l Hx HF IHl]; intros [|b q] H; try discriminate H; [reflexivity|].
      apply andb_true_iff in H as [H1 H2]. cbn [forallb]. rewrite (Hx b H1), (IHl q H2). reflexivity.
    - reflexivity.
    - cbn [ematch]. rewrite (IH g2 H). reflexivity.
  Qed.

  Lemma dedup_from_forallb prev l : em prev = true \/ True ->
    forallb em (prev :: dedup_from prev l) = forallb em (prev :: l).
  Proof.
    intros _. revert prev. induction l as [|x r IH]; intros prev; [reflexivity|].
    cbn [dedup_from]. destruct (feq x prev) eqn:E.
    - rewrite IH. cbn [forallb]. rewrite (feq_sound _ _ E). destruct (em prev); reflexivity.
    - cbn [forallb] in *. rewrite IH. reflexivity.
  Qed.
  Lemma dedup_forallb l : forallb em (dedup l) = forallb em l.
  Proof. destruct l as [|x r]; [reflexivity|]. unfold dedup. apply dedup_from_forallb. right; exact I. Qed.

  Lemma dedup_from_existsb prev l :
    existsb em (prev :: dedup_from prev l) = existsb em (prev :: l).
  Proof.
    revert prev. induction l as [|x r IH]; intros prev; [reflexivity|].
    cbn [dedup_from]. destruct (feq x prev) eqn:E.
    - rewrite IH. cbn [existsb]. rewrite (feq_sound _ _ E). destruct (em prev); reflexivity.
    - cbn [existsb] in *. rewrite IH. reflexivity.
  Qed.
  Lemma dedup_existsb l : existsb em (dedup l) = existsb em l.
  Proof. destruct l as [|x r]; [reflexivity|]. unfold dedup. apply dedup_from_existsb. Qed.

  Lemma forallb_perm (p : filt -> bool) l1 l2 : Permutation l1 l2 -> forallb p l1 = forallb p l2.
  Proof.
    induction 1 as [|x l l' H IH|x y l|l l' l'' H1 IH1 H2 IH2]; cbn; try congruence.
    destruct (p x), (p y); reflexivity.
  Qed.
  Lemma existsb_perm (p : filt -> bool) l1 l2 : Permutation l1 l2 -> existsb p l1 = existsb p l2.
  Proof.
    induction 1 as [|x l l' H IH|x y l|l l' l'' H1 IH1 H2 IH2]; cbn; try congruence.
    destruct (p x), (p y); reflexivity.
  Qed.

  (* partition + flattening of same-kind children *)
  Lemma partition_perm {A} (p : A -> bool) l : 
    let '(a, b) := partition p l in Permutation l (b ++ a).
  Proof.
    induction l as [|x r IH]; cbn; [constructor|].
    destruct (partition p r) as [a b]. destruct (p x).
    - apply Permutation_cons_app. exact IH.
    - cbn. constructor. exact IH.
  Qed.
  Lemma partition_true {A} (p : A -> bool) l :
    forall x, In x (fst (partition p l)) -> p x = true.
  Proof.
    induction l as [|y r IH]; cbn; [intros x []|].
    destruct (partition p r) as [a b]. destruct (p y) eqn:E; cbn in *.
    - intros x [<-|Hx]; auto.
    - exact IH.
  Qed.

  Lemma flat_and l : (forall x, In x l -> is_and x = true) ->
    forallb em (flat_map children l) = forallb em l.
  Proof.
    induction l as [|x r IH]; intros H; [reflexivity|].
    cbn [flat_map forallb]. rewrite forallb_app, IH by (intros y Hy; apply H; right; exact Hy).
    specialize (H x (or_introl eq_refl)). destruct x; try discriminate H. reflexivity.
  Qed.
  Lemma flat_or l : (forall x, In x l -> is_or x = true) ->
    existsb em (flat_map children l) = existsb em l.
  Proof.
    induction l as [|x r IH]; intros H; [reflexivity|].
    cbn [flat_map existsb]. rewrite existsb_app, IH by (intros y Hy; apply H; right; exact Hy).
    specialize (H x (or_introl eq_refl)). destruct x; try discriminate H. reflexivity.
  Qed.

  Variable srt srt_rev : list filt -> list filt.
  Hypothesis srt_perm : forall l, Permutation (srt l) l.
  Hypothesis srt_rev_perm : forall l, Permutation (srt_rev l) l.

  Lemma forallb_map_ext (l : list filt) (g : filt -> filt) :
    Forall (fun f => em (g f) = em f) l -> forallb em (map g l) = forallb em l.
  Proof. induction 1 as [|x r Hx HF IH]; cbn; [reflexivity|]. rewrite Hx, IH. reflexivity. Qed.
  Lemma existsb_map_ext (l : list filt) (g : filt -> filt) :
    Forall (fun f => em (g f) = em f) l -> existsb em (map g l) = existsb em l.
  Proof. induction 1 as [|x r Hx HF IH]; cbn; [reflexivity|]. rewrite Hx, IH. reflexivity. Qed.

  Theorem optimise_preserves : forall f, em (optimise srt srt_rev f) = em f.
  Proof.
    induction f as [k a v s | l s IH | l s IH | a | l s IH | g s IH] using filt_ind';
      cbn [optimise]; try reflexivity.
    - (* Or *)
      pose proof (partition_perm is_or (map (optimise srt srt_rev) l)) as Hp.
      pose proof (partition_true is_or (map (optimise srt srt_rev) l)) as Ht.
      destruct (partition is_or (map (optimise srt srt_rev) l)) as [ors rest]. cbn [fst] in Ht.
      assert (Hnew : existsb em (rest ++ flat_map children ors) = existsb em l).
      { rewrite existsb_app, (flat_or ors Ht), <- existsb_app.
        rewrite <- (existsb_perm em _ _ Hp). apply existsb_map_ext. exact IH. }
      cbn [ematch]. rewrite <- Hnew.
      destruct (rest ++ flat_map children ors) as [|x [|y t]] eqn:En.
      + cbn [ematch]. rewrite dedup_existsb. apply existsb_perm, srt_rev_perm.
      + cbn [existsb]. rewrite orb_false_r. reflexivity.
      + cbn [ematch]. rewrite dedup_existsb. apply existsb_perm, srt_rev_perm.
    - (* And *)
      pose proof (partition_perm is_and (map (optimise srt srt_rev) l)) as Hp.
      pose proof (partition_true is_and (map (optimise srt srt_rev) l)) as Ht.
      destruct (partition is_and (map (optimise srt srt_rev) l)) as [ands rest]. cbn [fst] in Ht.
      assert (Hnew : forallb em (rest ++ flat_map children ands) = forallb em l).
      { rewrite forallb_app, (flat_and ands Ht), <- forallb_app.
        rewrite <- (forallb_perm em _ _ Hp). apply forallb_map_ext. exact IH. }
      cbn [ematch]. rewrite <- Hnew.
      destruct (rest ++ flat_map children ands) as [|x [|y t]] eqn:En.
      + cbn [ematch]. rewrite dedup_forallb. apply forallb_perm, srt_perm.
      + cbn [forallb]. rewrite andb_true_r. reflexivity.
      + cbn [ematch]. rewrite dedup_forallb. apply forallb_perm, srt_perm.
    - (* Inclusion *)
      destruct (partition is_inc (map (optimise srt srt_rev) l)) as [inc rest]. reflexivity.
  Qed.

  Theorem fast_optimise_preserves : forall f, em (fast_optimise srt f) = em f.
  Proof.
    destruct f as [k a v s | l s | l s | a | l s | g s]; cbn [fast_optimise]; try reflexivity.
    cbn [ematch]. rewrite dedup_forallb. apply forallb_perm, srt_perm.
  Qed.
End Sem.

(* resolution keeps the meaning, whatever the index metadata says *)
Theorem resolve_preserves : forall (idx : leafkind -> N -> slope) (self : N) (sem : leafsem) (f : fc),
  ematch sem (resolve idx self f) = cmatch self sem f.
Proof.
  intros idx self sem. fix REC 1. intros f. destruct f as [k a v | | l | l | l | g | a]; cbn [resolve cmatch ematch]; try reflexivity.
  - induction l as [|x r IH]; cbn; [reflexivity|]. rewrite REC, IH. reflexivity.
  - induction l as [|x r IH]; cbn; [reflexivity|]. rewrite REC, IH. reflexivity.
  - rewrite REC. reflexivity.
Qed.
