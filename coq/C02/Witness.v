From Coq Require Import List NArith Bool Permutation.
Import ListNotations.
Require Import KV.Base.Filter KV.C02.Model.
Open Scope N_scope.
(* a filter on which every rewrite step fires: nested And folded, duplicates (with different
   slopes) removed, single-term Or unwrapped *)
Definition f0 :=
  FAnd [FLeaf KEq 1 1 (Some 2); FAnd [FLeaf KPres 2 0 None; FLeaf KEq 1 1 (Some 2)] None;
        FOr [FLeaf KCnt 3 4 None] None; FAndNot (FLeaf KEq 1 2 None) None] None.
Example C02_witness_rewrites :
  optimise (fun l => l) (@rev filt) f0 =
  FAnd [FLeaf KEq 1 1 (Some 2); FLeaf KCnt 3 4 None; FAndNot (FLeaf KEq 1 2 None) None;
        FLeaf KPres 2 0 None; FLeaf KEq 1 1 (Some 2)] (Some 2).
Proof. vm_compute. reflexivity. Qed.
Example C02_witness_dedup :
  dedup [FLeaf KEq 1 1 (Some 2); FLeaf KEq 1 1 None; FLeaf KStw 1 1 None; FLeaf KStw 1 1 None]
  = [FLeaf KEq 1 1 (Some 2); FLeaf KStw 1 1 None; FLeaf KStw 1 1 None].
Proof. vm_compute. reflexivity. Qed.
(* the sort hypotheses are satisfiable *)
Example C02_witness_sorts : (forall l : list filt, Permutation ((fun l => l) l) l) /\ (forall l : list filt, Permutation (rev l) l).
Proof. split; intros l; [apply Permutation_refl | apply Permutation_sym, Permutation_rev]. Qed.
