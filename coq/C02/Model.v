(* KV.C02.Model — filter rewriting: PartialEq / Ord of FilterResolved, dedup, optimise,
   fast_optimise, resolve (server/lib/src/filter.rs:1327-1760). Executable definitions only.
   The sort is a PARAMETER: `sort_unstable` promises only a permutation consistent with Ord,
   and the theorems hold for every permutation-returning function. *)
From Coq Require Import List NArith Bool.
Import ListNotations.
Require Import KV.Base.Filter.
Open Scope N_scope.

(* impl PartialEq for FilterResolved: ignores slopes; Stw/Enw/Invalid never compare equal *)
Fixpoint feq (x y : filt) : bool :=
  match x, y with
  | FLeaf k1 a1 v1 _, FLeaf k2 a2 v2 _ =>
      match k1, k2 with
      | KEq, KEq | KCnt, KCnt | KLt, KLt => (a1 =? a2) && (v1 =? v2)
      | KPres, KPres => a1 =? a2
      | _, _ => false
      end
  | FAnd l1 _, FAnd l2 _ | FOr l1 _, FOr l2 _ | FInclusion l1 _, FInclusion l2 _ =>
      (fix leq (p q : list filt) : bool :=
         match p, q with
         | [], [] => true
         | a :: p', b :: q' => feq a b && leq p' q'
         | _, _ => false
         end) l1 l2
  | FAndNot f1 _, FAndNot f2 _ => feq f1 f2
  | _, _ => false
  end.

(* Vec::dedup(): drop an element equal (==) to the previously retained one *)
Fixpoint dedup_from (prev : filt) (l : list filt) : list filt :=
  match l with
  | [] => []
  | x :: r => if feq x prev then dedup_from prev r else x :: dedup_from x r
  end.
Definition dedup (l : list filt) : list filt :=
  match l with [] => [] | x :: r => x :: dedup_from x r end.

Definition slope_of (f : filt) : slope :=
  match f with
  | FLeaf _ _ _ s | FOr _ s | FAnd _ s | FInclusion _ s | FAndNot _ s => s
  | FInvalid _ => Some 1
  end.
Definition is_and (f : filt) := match f with FAnd _ _ => true | _ => false end.
Definition is_or (f : filt) := match f with FOr _ _ => true | _ => false end.
Definition is_inc (f : filt) := match f with FInclusion _ _ => true | _ => false end.
Definition children (f : filt) : list filt :=
  match f with FAnd l _ | FOr l _ | FInclusion l _ => l | _ => [] end.
Definition first_slope (l : list filt) : slope := match l with [] => None | x :: _ => slope_of x end.
Definition last_slope (l : list filt) : slope := match rev l with [] => None | x :: _ => slope_of x end.

Section Opt.
  (* srt: sort_unstable (ascending, for And / Inclusion); srt_rev: sort_unstable_by(|a,b| b.cmp(a)) for Or *)
  Variable srt srt_rev : list filt -> list filt.

  Fixpoint optimise (f : filt) : filt :=
    match f with
    | FInclusion l _ =>
        let ol := map optimise l in
        let '(inc, rest) := partition is_inc ol in
        let new := dedup (srt (rest ++ flat_map children inc)) in
        FInclusion new (last_slope new)
    | FAnd l _ =>
        let ol := map optimise l in
        let '(ands, rest) := partition is_and ol in
        let new := rest ++ flat_map children ands in
        match new with
        | [x] => x
        | _ => let d := dedup (srt new) in FAnd d (first_slope d)
        end
    | FOr l _ =>
        let ol := map optimise l in
        let '(ors, rest) := partition is_or ol in
        let new := rest ++ flat_map children ors in
        match new with
        | [x] => x
        | _ => let d := dedup (srt_rev new) in FOr d (last_slope d)
        end
    | _ => f
    end.

  Definition fast_optimise (f : filt) : filt :=
    match f with
    | FInclusion l _ => let d := dedup (srt l) in FInclusion d (last_slope d)
    | FAnd l _ => let d := dedup (srt l) in FAnd d (first_slope d)
    | _ => f
    end.
End Opt.

(* ---- the caller-facing filter language (enum FilterComp) and its resolution *)
Inductive fc :=
| CLeaf (k : leafkind) (a v : N)
| CSelf                                   (* SelfUuid *)
| COr (l : list fc) | CAnd (l : list fc) | CInclusion (l : list fc)
| CAndNot (f : fc) | CInvalid (a : N).

Definition uuid_attr : N := 0.
Section Resolve.
  Variable idx : leafkind -> N -> slope.      (* index metadata lookup (resolve_idx) or the fixed guesses of resolve_no_idx *)
  Variable self : N.                          (* value id of the caller's uuid *)
  Fixpoint resolve (f : fc) : filt :=
    match f with
    | CLeaf k a v => FLeaf k a v (idx k a)
    | CSelf => FLeaf KEq uuid_attr self (idx KEq uuid_attr)
    | COr l => FOr (map resolve l) None
    | CAnd l => FAnd (map resolve l) None
    | CInclusion l => FInclusion (map resolve l) None
    | CAndNot g => FAndNot (resolve g) None
    | CInvalid a => FInvalid a
    end.
  (* what the unresolved filter means for an entry with leaf truth `sem`: SelfUuid = "this entry's
     uuid is the caller's" *)
  Fixpoint cmatch (sem : leafsem) (f : fc) : bool :=
    match f with
    | CLeaf k a v => sem k a v
    | CSelf => sem KEq uuid_attr self
    | COr l => existsb (cmatch sem) l
    | CAnd l => forallb (cmatch sem) l
    | CInclusion _ => false
    | CAndNot g => negb (cmatch sem g)
    | CInvalid _ => false
    end.
End Resolve.

(* ------------------------------------------------------------------ correspondence *)
Definition mem (x : N) (s : list N) : bool := existsb (N.eqb x) s.
Definition set_eqb (a b : list N) : bool := forallb (fun x => mem x b) a && forallb (fun x => mem x a) b.
Record leafrec := mkleaf { lr_k : leafkind; lr_a : N; lr_v : N; lr_true : list N }.
Fixpoint find_leaf (ls : list leafrec) (k : leafkind) (a v : N) : option leafrec :=
  match ls with
  | [] => None
  | r :: t => if leafkind_eqb (lr_k r) k && (lr_a r =? a) && (lr_v r =? v) then Some r else find_leaf t k a v
  end.
Definition sem_of (ls : list leafrec) (id : N) : leafsem :=
  fun k a v => match find_leaf ls k a v with Some r => mem id (lr_true r) | None => false end.
Definition truth (univ : list N) (ls : list leafrec) (f : filt) : list N :=
  filter (fun id => ematch (sem_of ls id) f) univ.

(* a concrete permutation-returning sort for running the model: identity-order-preserving
   insertion by a total preorder is NOT needed — any permutation will do, so use `rev` for the
   Or case and the identity for the And case; Coq-side agreement is on MEANING only *)
Inductive case :=
| COpt (univ : list N) (leaves : list leafrec)
       (orig : filt)                 (* tree handed to the real optimiser *)
       (impl_opt : filt)             (* tree the real optimise() returned, exported structurally *)
       (impl_fast : filt)            (* tree the real fast_optimise() returned *)
       (true_orig true_opt true_fast : list N). (* ids where the real entry_match_no_index holds *)

Definition agree (c : case) : bool :=
  match c with
  | COpt univ ls orig iopt ifast torig topt tfast =>
      (* reference-semantics transcription vs the real entry_match_no_index, on all three trees *)
      set_eqb (truth univ ls orig) torig
      && set_eqb (truth univ ls iopt) topt
      && set_eqb (truth univ ls ifast) tfast
      (* the model's rewrite (with one particular permutation as the sort) means the same as the real one *)
      && set_eqb (truth univ ls (optimise (fun l => l) (@rev filt) orig)) topt
      && set_eqb (truth univ ls (fast_optimise (fun l => l) orig)) tfast
  end.

(* the property on the implementation's own answers *)
Definition pcheck (c : case) : bool :=
  match c with
  | COpt univ ls orig iopt ifast torig topt tfast => set_eqb torig topt && set_eqb torig tfast
  end.
Definition known (_ : case) : bool := false.
