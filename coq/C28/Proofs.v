(* KV.C28.Proofs — lemmas and proofs for the credential soft lock model. *)
From Coq Require Import List NArith PeanoNat Bool Lia.
Import ListNotations.
Require Import KV.C28.Model.
Open Scope N_scope.

Arguments N.add : simpl never.
Arguments N.sub : simpl never.
Arguments N.mul : simpl never.
Arguments N.div : simpl never.
Arguments N.modulo : simpl never.
Arguments N.ltb : simpl never.
Arguments N.leb : simpl never.
Arguments N.eqb : simpl never.
Arguments N.min : simpl never.

(* ------------------------------------------------------------------ window arithmetic *)
Lemma G_pos : 0 < G. Proof. reflexivity. Qed.

Lemma div_lo : forall t P, 0 < P -> t / P * P <= t.
Proof. intros t P HP. rewrite N.mul_comm. apply N.mul_div_le. lia. Qed.

Lemma div_hi : forall t P, 0 < P -> t < (t / P + 1) * P.
Proof.
  intros t P HP. rewrite N.mul_comm, N.add_1_r. apply N.mul_succ_div_gt. lia.
Qed.

Lemma div_ge : forall t P k, 0 < P -> k * P <= t -> k <= t / P.
Proof. intros t P k HP H. apply N.div_le_lower_bound; [lia|]. rewrite N.mul_comm. exact H. Qed.

Lemma div_lt : forall t P k, 0 < P -> t < k * P -> t / P < k.
Proof. intros t P k HP H. apply N.div_lt_upper_bound; [lia|]. rewrite N.mul_comm. exact H. Qed.

Lemma div_eq_iff : forall t P k, 0 < P -> (t / P = k <-> k * P <= t /\ t < (k + 1) * P).
Proof.
  intros t P k HP. split.
  - intros <-. split; [apply div_lo | apply div_hi]; exact HP.
  - intros [H1 H2]. apply div_ge in H1; [|exact HP]. apply div_lt in H2; [|exact HP]. lia.
Qed.

Lemma window_end_eq : forall w ct, 0 < w ->
  window_end w ct = (ct / (w * G) + 1) * (w * G).
Proof.
  intros w ct Hw. unfold window_end, secs, of_secs. cbv zeta.
  set (s := ct / G).
  assert (Hm : (s + w) mod w = s mod w).
  { replace (s + w) with (s + 1 * w) by lia. apply N.mod_add. lia. }
  rewrite Hm.
  assert (Hd : ct / (w * G) = s / w).
  { unfold s. rewrite N.div_div; [| compute; discriminate | lia].
    rewrite (N.mul_comm G w). reflexivity. }
  rewrite Hd.
  pose proof (N.div_mod s w ltac:(lia)) as Hs.
  assert (Hle : s mod w <= s) by (apply N.mod_le; lia).
  replace (s + w - s mod w) with ((s / w + 1) * w) by lia.
  lia.
Qed.

Lemma day_index : forall t, t / (ONEDAY * G) = secs t / ONEDAY.
Proof.
  intros t. unfold secs. rewrite N.div_div; [| compute; discriminate | compute; discriminate].
  rewrite (N.mul_comm G ONEDAY). reflexivity.
Qed.

Lemma step_index : forall step t, 0 < step -> t / (step * G) = secs t / step.
Proof.
  intros step t H. unfold secs. rewrite N.div_div; [| compute; discriminate | lia].
  rewrite (N.mul_comm G step). reflexivity.
Qed.

(* ------------------------------------------------------------------ basic facts *)
Definition policy_ok (p : policy) : bool :=
  match p with PTotp step => 0 <? step | _ => true end.

Lemma slock_eta : forall s, s = mk (st s) (pol s) (last_exp s).
Proof. intros [x p le]. reflexivity. Qed.

(* a time step without (new) administrator expiry *)
Definition step_state (x : lstate) (ct : N) : lstate :=
  match x with
  | Init => Init
  | Locked c r u => if r <? ct then Init else if u <? ct then Unlocked c r else Locked c r u
  | Unlocked c r => if r <? ct then Init else Unlocked c r
  end.

Lemma ts_none : forall s ct,
  apply_time_step s ct None = mk (step_state (st s) ct) (pol s) (last_exp s).
Proof.
  intros [x p le] ct. unfold apply_time_step. cbn [st pol last_exp].
  destruct x as [|c r u|c r]; cbn [step_state]; try reflexivity.
  destruct (r <? ct); reflexivity.
Qed.

Lemma ts_quiet : forall s e, quiet_for (last_exp s) e = true ->
  apply_time_step s (ev_ct e) (ev_exp e) = apply_time_step s (ev_ct e) None.
Proof.
  intros [x p le] e Hq. unfold quiet_for in Hq. cbn [last_exp] in Hq.
  destruct (ev_exp e) as [y|]; [|reflexivity].
  apply N.eqb_eq in Hq. subst y.
  unfold apply_time_step. cbn [st pol last_exp]. destruct x; try reflexivity.
  rewrite N.eqb_refl. reflexivity.
Qed.

Lemma ts_pol : forall s ct e, pol (apply_time_step s ct e) = pol s.
Proof.
  intros [x p le] ct e. unfold apply_time_step. cbn [st pol last_exp].
  destruct x as [|c r u|c r]; try reflexivity.
  - destruct e as [y|]; [destruct (negb (le =? y))|]; reflexivity.
  - destruct (r <? ct); reflexivity.
Qed.

Lemma rf_pol : forall s ct, pol (record_failure s ct) = pol s.
Proof. reflexivity. Qed.
Lemma rf_le : forall s ct, last_exp (record_failure s ct) = last_exp s.
Proof. reflexivity. Qed.

(* shape of failure_next_state: it locks (except Unrestricted), strictly beyond ct, and the
   lock never outlives its window: unlock_at <= reset_at *)
Lemma fns_shape : forall p c ct, policy_ok p = true ->
  failure_next_state p c ct = Init /\ p = PUnrestricted \/
  exists r u, failure_next_state p c ct = Locked c r u /\ ct < u.
Proof.
  intros p c ct Hok. pose proof G_pos as HG. destruct p as [|step| |]; cbn [failure_next_state]; cbv zeta.
  - right. pose proof (window_end_eq ONEDAY ct ltac:(reflexivity)) as He.
    pose proof (div_hi ct (ONEDAY * G) ltac:(reflexivity)) as Hh.
    unfold of_secs.
    destruct (c <? 3); [eexists; eexists; split; [reflexivity|lia]|].
    destruct (c <? 9); [eexists; eexists; split; [reflexivity|lia]|].
    destruct (c <? 25); [eexists; eexists; split; [reflexivity|lia]|].
    destruct (c <? 100); [eexists; eexists; split; [reflexivity|lia]|].
    eexists; eexists; split; [reflexivity|]. rewrite He. exact Hh.
  - right. cbn [policy_ok] in Hok. apply N.ltb_lt in Hok.
    pose proof (window_end_eq step ct Hok) as He.
    pose proof (div_hi ct (step * G) ltac:(lia)) as Hh.
    unfold of_secs.
    destruct (3 <=? c); eexists; eexists; (split; [reflexivity|]); [rewrite He; exact Hh | lia].
  - right. unfold of_secs. eexists; eexists; split; [reflexivity|lia].
  - left. split; reflexivity.
Qed.

Lemma fns_le : forall p c ct c' r u, failure_next_state p c ct = Locked c' r u -> u <= r.
Proof.
  intros p c ct c' r u H. destruct p as [|step| |]; cbn [failure_next_state] in H; cbv zeta in H;
    try discriminate; injection H as _ <- <-; try apply N.le_max_r. apply N.le_refl.
Qed.

(* the two windowed policies: reset_at is at or beyond the end of the window containing ct,
   and at or beyond the cap the lock lasts exactly until that window end *)
Lemma fns_window : forall p P cap c ct, limit_of p = Some (P, cap) ->
  0 < P /\ 1 <= cap /\
  exists r u, failure_next_state p c ct = Locked c r u /\ (ct / P + 1) * P <= r /\ ct < u /\
              u <= r /\ (cap <= c -> u = (ct / P + 1) * P /\ r = u).
Proof.
  intros p P cap c ct Hl. pose proof G_pos as HG. destruct p as [|step| |]; cbn [limit_of] in Hl; try discriminate.
  - injection Hl as <- <-. split; [reflexivity|]. split; [lia|].
    cbn [failure_next_state]. cbv zeta. rewrite (window_end_eq ONEDAY ct ltac:(reflexivity)).
    pose proof (div_hi ct (ONEDAY * G) ltac:(reflexivity)) as Hh. unfold of_secs.
    set (we := (ct / (ONEDAY * G) + 1) * (ONEDAY * G)) in *.
    destruct (c <? 3) eqn:E1; [apply N.ltb_lt in E1; eexists; eexists; split; [reflexivity|repeat split; lia]|].
    destruct (c <? 9) eqn:E2; [apply N.ltb_lt in E2; eexists; eexists; split; [reflexivity|repeat split; lia]|].
    destruct (c <? 25) eqn:E3; [apply N.ltb_lt in E3; eexists; eexists; split; [reflexivity|repeat split; lia]|].
    destruct (c <? 100) eqn:E4; [apply N.ltb_lt in E4; eexists; eexists; split; [reflexivity|repeat split; lia]|].
    eexists; eexists; split; [reflexivity|]. repeat split; lia.
  - destruct (step =? 0) eqn:E0; [discriminate|]. apply N.eqb_neq in E0.
    injection Hl as <- <-. assert (Hs : 0 < step) by lia.
    split; [lia|]. split; [lia|].
    cbn [failure_next_state]. cbv zeta. rewrite (window_end_eq step ct Hs).
    pose proof (div_hi ct (step * G) ltac:(lia)) as Hh. unfold of_secs.
    set (we := (ct / (step * G) + 1) * (step * G)) in *.
    destruct (3 <=? c) eqn:E1.
    + eexists; eexists; split; [reflexivity|]. repeat split; lia.
    + apply N.leb_gt in E1. eexists; eexists; split; [reflexivity|]. repeat split; lia.
Qed.

(* ------------------------------------------------------------------ the rate limit *)
Section Rate.
  Variables (p : policy) (P cap : N).
  Hypothesis Hlim : limit_of p = Some (P, cap).

  Let HP : 0 < P. Proof. destruct (fns_window p P cap 0 0 Hlim) as [H _]. exact H. Qed.
  Let Hcap : 1 <= cap. Proof. destruct (fns_window p P cap 0 0 Hlim) as [_ [H _]]. exact H. Qed.

  Variable k : N.   (* the window under consideration: [k*P, (k+1)*P) *)

  Definition wf_st (x : lstate) : Prop :=
    match x with
    | Init => True
    | Locked c r u => c <= cap /\ (cap <= c -> r <= u)
    | Unlocked c r => c < cap
    end.

  Definition cover (x : lstate) (n : N) : Prop :=
    match x with
    | Init => False
    | Locked c r _ | Unlocked c r => n <= c /\ (k + 1) * P <= r
    end.

  (* n = number of failures recorded so far at instants of window k; now = latest instant *)
  Definition Inv (s : slock) (now n : N) : Prop :=
    pol s = p /\ n <= cap /\ wf_st (st s) /\
    (n = 0 \/ (k * P <= now /\ ((k + 1) * P < now \/ cover (st s) n))).

  Definition fresh (x : lstate) (ct : N) : Prop :=
    match x with Unlocked _ r => ct <= r | _ => True end.

  Lemma step_inv : forall s now n ct, Inv s now n -> now <= ct ->
    Inv (apply_time_step s ct None) ct n /\ fresh (st (apply_time_step s ct None)) ct.
  Proof.
    intros s now n ct (Hp & Hn & Hwf & Hc) Hle. rewrite ts_none. unfold Inv. cbn [st pol].
    destruct (st s) as [|c r u|c r] eqn:Es; cbn [step_state].
    - split; [|exact I]. repeat split; try assumption.
      destruct Hc as [Hc|[H1 [H2|[]]]]; [left; exact Hc|]. right. split; [lia|]. left. lia.
    - cbn [wf_st cover] in *. destruct Hwf as [Hw1 Hw2].
      destruct (r <? ct) eqn:E1; [apply N.ltb_lt in E1|apply N.ltb_ge in E1].
      + split; [|exact I]. repeat split; try assumption.
        destruct Hc as [Hc|[H1 [H2|[H2 H3]]]]; [left; exact Hc| |]; right; (split; [lia|]); left; lia.
      + destruct (u <? ct) eqn:E2; [apply N.ltb_lt in E2|apply N.ltb_ge in E2]; cbn [wf_st cover fresh].
        * split; [|exact E1]. repeat split; try assumption.
          { destruct (N.lt_ge_cases c cap) as [Hlt|Hge]; [exact Hlt|]. specialize (Hw2 Hge). lia. }
          destruct Hc as [Hc|[H1 [H2|[H2 H3]]]]; [left; exact Hc| |]; right; (split; [lia|]);
            [left; lia | right; split; assumption].
        * split; [|exact I]. repeat split; try assumption.
          destruct Hc as [Hc|[H1 [H2|[H2 H3]]]]; [left; exact Hc| |]; right; (split; [lia|]);
            [left; lia | right; split; assumption].
    - cbn [wf_st cover] in *.
      destruct (r <? ct) eqn:E1; [apply N.ltb_lt in E1|apply N.ltb_ge in E1]; cbn [st pol wf_st cover fresh].
      + split; [|exact I]. repeat split; try assumption.
        destruct Hc as [Hc|[H1 [H2|[H2 H3]]]]; [left; exact Hc| |]; right; (split; [lia|]); left; lia.
      + split; [|exact E1]. repeat split; try assumption.
        destruct Hc as [Hc|[H1 [H2|[H2 H3]]]]; [left; exact Hc| |]; right; (split; [lia|]);
          [left; lia | right; split; assumption].
  Qed.

  Lemma fail_inv : forall s ct n, Inv s ct n -> is_valid s = true -> fresh (st s) ct ->
    Inv (record_failure s ct) ct (n + (if ct / P =? k then 1 else 0)).
  Proof.
    intros s ct n (Hp & Hn & Hwf & Hc) Hv Hf. unfold Inv, record_failure. cbn [st pol].
    unfold is_valid in Hv.
    pose proof (div_lo ct P HP) as Hlo. pose proof (div_hi ct P HP) as Hhi.
    assert (Hmono : k < ct / P -> (k + 1) * P <= ct / P * P)
      by (intros; apply N.mul_le_mono_r; lia).
    assert (Hk : k * P <= ct -> k <= ct / P) by (intros; apply div_ge; [exact HP|lia]).
    destruct (st s) as [|c r u|c r] eqn:Es; [|discriminate|]; rewrite Hp.
    - destruct (fns_window p P cap 1 ct Hlim) as (_ & _ & r' & u & -> & Hr & Hu & Hur & Hcu).
      cbn [wf_st cover]. cbn [cover] in Hc.
      destruct (ct / P =? k) eqn:Ek;
        [apply N.eqb_eq in Ek; subst k|apply N.eqb_neq in Ek; rewrite N.add_0_r];
        (destruct Hc as [Hc|[H1 [H2|[]]]]);
        repeat split; try lia; try solve [intros Hge; destruct (Hcu Hge); lia].
    - destruct (fns_window p P cap (c + 1) ct Hlim) as (_ & _ & r' & u & -> & Hr & Hu & Hur & Hcu).
      cbn [wf_st cover fresh] in *.
      destruct (ct / P =? k) eqn:Ek;
        [apply N.eqb_eq in Ek; subst k|apply N.eqb_neq in Ek; rewrite N.add_0_r];
        (destruct Hc as [Hc|[H1 [H2|[H2 H3]]]]);
        repeat split; try lia; try solve [intros Hge; destruct (Hcu Hge); lia].
  Qed.

  Lemma rate_inv : forall l s now n, Inv s now n -> mono now l = true ->
    quiet_all (last_exp s) l = true ->
    n + failed_in P k l (exec s l) <= cap.
  Proof.
    induction l as [|e l IH]; intros s now n HI Hm Hq.
    - cbn [exec failed_in]. destruct HI as (_ & Hn & _). lia.
    - cbn [mono] in Hm. apply andb_true_iff in Hm as [Hm1 Hm2]. apply N.leb_le in Hm1.
      cbn [quiet_all] in Hq. apply andb_true_iff in Hq as [Hq1 Hq2].
      cbn [exec]. unfold attempt. rewrite (ts_quiet s e Hq1).
      destruct (step_inv s now n (ev_ct e) HI Hm1) as [HI1 Hf1].
      assert (Hle : last_exp (apply_time_step s (ev_ct e) None) = last_exp s) by (rewrite ts_none; reflexivity).
      set (s1 := apply_time_step s (ev_ct e) None) in *.
      destruct (is_valid s1) eqn:Ev.
      + destruct (ev_bad e).
        * cbn [failed_in is_failed andb].
          pose proof (fail_inv s1 (ev_ct e) n HI1 Ev Hf1) as HI2.
          specialize (IH (record_failure s1 (ev_ct e)) (ev_ct e) _ HI2 Hm2).
          rewrite rf_le, Hle in IH. specialize (IH Hq2). lia.
        * cbn [failed_in is_failed andb].
          specialize (IH s1 (ev_ct e) n HI1 Hm2). rewrite Hle in IH. specialize (IH Hq2). lia.
      + cbn [failed_in is_failed andb].
        specialize (IH s1 (ev_ct e) n HI1 Hm2). rewrite Hle in IH. specialize (IH Hq2). lia.
  Qed.

  Lemma inv_new : Inv (new p) 0 0.
  Proof. unfold Inv, new. cbn [st pol wf_st]. repeat split; try lia. Qed.

  Lemma rate_new : forall l, mono 0 l = true -> quiet_all 0 l = true ->
    failed_in P k l (exec (new p) l) <= cap.
  Proof.
    intros l Hm Hq. pose proof (rate_inv l (new p) 0 0 inv_new Hm Hq) as H. lia.
  Qed.
End Rate.

(* ------------------------------------------------------------------ P1: locked until min unlock reset *)
Lemma refused_partial : forall l s c r u lim,
  st s = Locked c r u -> lim <= N.min u r ->
  refused_while (last_exp s) lim l (exec s l) = true.
Proof.
  induction l as [|e l IH]; intros s c r u lim Hs Hlim; [reflexivity|].
  cbn [exec].
  destruct ((ev_ct e <=? lim) && quiet_for (last_exp s) e) eqn:Ec.
  - pose proof Ec as Ec'. apply andb_true_iff in Ec' as [E1 E2]. apply N.leb_le in E1.
    assert (Ha : attempt s e = (mk (Locked c r u) (pol s) (last_exp s), Refused)).
    { unfold attempt. rewrite (ts_quiet s e E2), ts_none, Hs. cbn [step_state].
      assert (H1 : r <? ev_ct e = false) by (apply N.ltb_ge; lia).
      assert (H2 : u <? ev_ct e = false) by (apply N.ltb_ge; lia).
      rewrite H1, H2. reflexivity. }
    rewrite Ha. cbn [refused_while st last_exp]. rewrite Ec. cbn [is_refused andb].
    apply (IH (mk (Locked c r u) (pol s) (last_exp s)) c r u lim); [reflexivity|exact Hlim].
  - destruct (attempt s e) as [s' o]. cbn [refused_while]. rewrite Ec. reflexivity.
Qed.

Lemma attempt_cases : forall s e,
  let s1 := apply_time_step s (ev_ct e) (ev_exp e) in
  (attempt s e = (s1, Refused) /\ is_valid s1 = false) \/
  (attempt s e = (s1, Passed) /\ is_valid s1 = true) \/
  (attempt s e = (record_failure s1 (ev_ct e), Failed) /\ is_valid s1 = true).
Proof.
  intros s e s1. unfold attempt. fold s1. destruct (is_valid s1); [|left; split; reflexivity].
  right. destruct (ev_bad e); [right|left]; split; reflexivity.
Qed.

Lemma rf_state : forall s ct, policy_ok (pol s) = true -> is_valid s = true ->
  (st (record_failure s ct) = Init /\ pol s = PUnrestricted) \/
  exists r u, st (record_failure s ct) = Locked (count_of (st s) + 1) r u /\ ct < u.
Proof.
  intros s ct Hok Hv. unfold record_failure, is_valid in *. cbn [st].
  destruct (st s) as [|c r u|c r]; [|discriminate|]; cbn [count_of].
  - destruct (fns_shape (pol s) 1 ct Hok) as [[H1 H2]|(r & u & H1 & H2)]; [left; split; assumption|].
    right. exists r, u. split; [exact H1|exact H2].
  - destruct (fns_shape (pol s) (c + 1) ct Hok) as [[H1 H2]|(r' & u & H1 & H2)]; [left; split; assumption|].
    right. exists r', u. split; [exact H1|exact H2].
Qed.

Lemma rf_le_reset : forall s ct c r u, st (record_failure s ct) = Locked c r u -> u <= r.
Proof.
  intros s ct c r u H. unfold record_failure in H. cbn [st] in H.
  destruct (st s); apply fns_le in H; exact H.
Qed.

Lemma locked_full : forall l s, policy_ok (pol s) = true ->
  locked_ok l (exec s l) = true.
Proof.
  induction l as [|e l IH]; intros s Hok; [reflexivity|].
  cbn [exec]. pose proof (ts_pol s (ev_ct e) (ev_exp e)) as Hp1.
  destruct (attempt_cases s e) as [[Ha Hv]|[[Ha Hv]|[Ha Hv]]]; rewrite Ha; cbn [locked_ok].
  - rewrite IH by (rewrite Hp1; exact Hok). reflexivity.
  - rewrite IH by (rewrite Hp1; exact Hok). reflexivity.
  - set (s1 := apply_time_step s (ev_ct e) (ev_exp e)) in *.
    rewrite IH by (rewrite rf_pol, Hp1; exact Hok).
    destruct (rf_state s1 (ev_ct e) ltac:(rewrite Hp1; exact Hok) Hv) as [[H1 _]|(r & u & H1 & H2)];
      rewrite H1; [reflexivity|].
    pose proof (rf_le_reset s1 (ev_ct e) _ r u H1) as Hur.
    apply N.ltb_lt in H2. rewrite H2. cbn [andb].
    replace (u <=? r) with true by (symmetry; apply N.leb_le; exact Hur). cbn [andb].
    rewrite (refused_partial l (record_failure s1 (ev_ct e)) _ r u u H1) by (rewrite N.min_l; lia).
    reflexivity.
Qed.

(* ------------------------------------------------------------------ P3: never shorter *)
Definition J (x : lstate) (now : N) (h : option N) : Prop :=
  match h with
  | None => True
  | Some u0 => match x with Init => False | Locked _ _ u => u0 = u | Unlocked _ _ => u0 < now end
  end.

Lemma J_step : forall x now h ct, J x now h -> now <= ct ->
  match step_state x ct with Init => True | y => J y ct h end.
Proof.
  intros x now h ct HJ Hle. destruct h as [u0|]; [|destruct (step_state x ct); exact I].
  destruct x as [|c r u|c r]; cbn [J step_state] in *.
  - exact I.
  - destruct (r <? ct); [exact I|]. destruct (u <? ct) eqn:E; cbn [J]; [apply N.ltb_lt in E; lia|exact HJ].
  - destruct (r <? ct); [exact I|]. cbn [J]. lia.
Qed.

Lemma never_shorter_inv : forall l s now h, policy_ok (pol s) = true ->
  J (st s) now h -> mono now l = true -> quiet_all (last_exp s) l = true ->
  never_shorter h l (exec s l) = true.
Proof.
  induction l as [|e l IH]; intros s now h Hok HJ Hm Hq; [reflexivity|].
  cbn [mono] in Hm. apply andb_true_iff in Hm as [Hm1 Hm2]. apply N.leb_le in Hm1.
  cbn [quiet_all] in Hq. apply andb_true_iff in Hq as [Hq1 Hq2].
  cbn [exec].
  pose proof (attempt_cases s e) as Hc. cbv zeta in Hc. rewrite (ts_quiet s e Hq1) in Hc.
  pose proof (J_step (st s) now h (ev_ct e) HJ Hm1) as HJ1.
  rewrite ts_none in Hc.
  set (s1 := mk (step_state (st s) (ev_ct e)) (pol s) (last_exp s)) in *.
  destruct Hc as [[Ha Hv]|[[Ha Hv]|[Ha Hv]]]; rewrite Ha; cbn [never_shorter].
  - unfold is_valid in Hv. unfold s1 at 1. cbn [st].
    destruct (step_state (st s) (ev_ct e)) as [|c r u|c r] eqn:Es; try discriminate.
    cbn [is_failed]. apply (IH s1 (ev_ct e) h); [exact Hok| |exact Hm2|exact Hq2].
    exact HJ1.
  - unfold is_valid in Hv. unfold s1 at 1. cbn [st].
    destruct (step_state (st s) (ev_ct e)) as [|c r u|c r] eqn:Es; try discriminate.
    + apply (IH s1 (ev_ct e) None); [exact Hok|exact I|exact Hm2|exact Hq2].
    + apply (IH s1 (ev_ct e) h); [exact Hok| |exact Hm2|exact Hq2].
      exact HJ1.
  - destruct (rf_state s1 (ev_ct e) Hok Hv) as [[H1 _]|(r & u & H1 & H2)]; rewrite H1.
    + apply (IH (record_failure s1 (ev_ct e)) (ev_ct e) None); [exact Hok|exact I|exact Hm2|exact Hq2].
    + cbn [is_failed].
      assert (Hh : (if count_of (st s1) + 1 <=? 1 then true
                    else match h with Some u0 => u0 <? u | None => true end) = true).
      { destruct (count_of (st s1) + 1 <=? 1) eqn:Ec; [reflexivity|]. apply N.leb_gt in Ec.
        destruct h as [u0|]; [|reflexivity]. apply N.ltb_lt.
        unfold is_valid in Hv. unfold s1 in Hv, Ec. cbn [st] in Hv, Ec.
        destruct (step_state (st s) (ev_ct e)) as [|c' r' u'|c' r']; cbn [J count_of] in HJ1, Ec;
          [lia|discriminate|lia]. }
      rewrite Hh. cbn [andb].
      apply (IH (record_failure s1 (ev_ct e)) (ev_ct e) (Some u)); [exact Hok| |exact Hm2|exact Hq2].
      rewrite H1. reflexivity.
Qed.

(* ------------------------------------------------------------------ P4: the count only resets
   after reset_at or a new administrator expiry *)
Lemma ts_count : forall s ct exp b,
  count_of (st (apply_time_step s ct exp)) = count_of (st s) \/
  (st (apply_time_step s ct exp) = Init /\ reset_cond (st s) (last_exp s) (Ev ct exp b) = true).
Proof.
  intros [x p le] ct exp b. unfold apply_time_step, reset_cond. cbn [st pol last_exp ev_ct ev_exp].
  destruct x as [|c r u|c r]; [left; reflexivity| |].
  - destruct exp as [y|].
    + rewrite (N.eqb_sym y le). destruct (le =? y) eqn:E0; cbn [negb andb].
      * rewrite orb_false_r. destruct (r <? ct) eqn:E1; cbn [st]; [right; split; reflexivity|].
        left. destruct (u <? ct); reflexivity.
      * destruct (y <? r) eqn:E1.
        -- destruct (y <? ct) eqn:E2; cbn [st].
           ++ right. split; [reflexivity|]. apply orb_true_r.
           ++ left. destruct (u <? ct); reflexivity.
        -- destruct (r <? ct) eqn:E2; cbn [st]; [right; split; reflexivity|].
           left. destruct (u <? ct); reflexivity.
    + rewrite orb_false_r. destruct (r <? ct) eqn:E1; cbn [st]; [right; split; reflexivity|].
      left. destruct (u <? ct); reflexivity.
  - rewrite orb_false_r. destruct (r <? ct) eqn:E1; cbn [st]; [right; split; reflexivity|].
    left. reflexivity.
Qed.

Lemma ts_unres : forall s ct exp, st s = Init -> st (apply_time_step s ct exp) = Init.
Proof. intros [x p le] ct exp H. cbn [st] in H. subst x. reflexivity. Qed.

Lemma count_inv : forall l s, policy_ok (pol s) = true ->
  (pol s = PUnrestricted -> st s = Init) ->
  count_ok (is_unrestricted (pol s)) (st s) (last_exp s) l (exec s l) = true.
Proof.
  induction l as [|e l IH]; intros s Hok Hun; [reflexivity|].
  cbn [exec]. pose proof (ts_pol s (ev_ct e) (ev_exp e)) as Hp1.
  pose proof (ts_count s (ev_ct e) (ev_exp e) (ev_bad e)) as Hc.
  replace (Ev (ev_ct e) (ev_exp e) (ev_bad e)) with e in Hc by (destruct e; reflexivity).
  set (s1 := apply_time_step s (ev_ct e) (ev_exp e)) in *.
  assert (Hun1 : pol s1 = PUnrestricted -> st s1 = Init).
  { intros H. apply ts_unres. apply Hun. rewrite <- Hp1. exact H. }
  destruct (attempt_cases s e) as [[Ha Hv]|[[Ha Hv]|[Ha Hv]]]; fold s1 in Ha, Hv; rewrite Ha; cbn [count_ok].
  - rewrite <- Hp1. rewrite (IH s1) by first [exact Hun1 | rewrite Hp1; exact Hok].
    cbn [is_failed negb orb andb].
    destruct Hc as [Hc|[Hc1 Hc2]]; [rewrite Hc, N.leb_refl|rewrite Hc2, orb_true_r]; reflexivity.
  - rewrite <- Hp1. rewrite (IH s1) by first [exact Hun1 | rewrite Hp1; exact Hok].
    cbn [is_failed negb orb andb].
    destruct Hc as [Hc|[Hc1 Hc2]]; [rewrite Hc, N.leb_refl|rewrite Hc2, orb_true_r]; reflexivity.
  - assert (Hok1 : policy_ok (pol s1) = true) by (rewrite Hp1; exact Hok).
    destruct (rf_state s1 (ev_ct e) Hok1 Hv) as [[H1 H2]|(r & u & H1 & H2)].
    + (* unrestricted: nothing is ever counted *)
      assert (Hs : st s = Init) by (apply Hun; rewrite <- Hp1; exact H2).
      rewrite <- Hp1, <- (rf_pol s1 (ev_ct e)).
      rewrite (IH (record_failure s1 (ev_ct e))); [|exact Hok1|intros _; exact H1].
      rewrite H1, Hs, rf_pol, H2. reflexivity.
    + rewrite <- Hp1, <- (rf_pol s1 (ev_ct e)).
      rewrite (IH (record_failure s1 (ev_ct e))); [|exact Hok1|].
      2:{ intros Hu. rewrite rf_pol in Hu. rewrite (Hun1 Hu) in *.
          unfold record_failure in H1. cbn [st] in H1. rewrite (Hun1 Hu), Hu in H1. discriminate. }
      rewrite H1. cbn [count_of is_failed negb orb]. rewrite andb_true_r.
      assert (H3 : 1 <=? count_of (st s1) + 1 = true) by (apply N.leb_le; lia).
      rewrite H3, orb_true_r, andb_true_r.
      destruct Hc as [Hc|[Hc1 Hc2]]; [|rewrite Hc2; apply orb_true_r].
      assert (H4 : count_of (st s) <=? count_of (st s1) + 1 = true) by (apply N.leb_le; lia).
      rewrite H4. reflexivity.
Qed.

(* ------------------------------------------------------------------ P2 in executable form *)
Lemma failed_idx_eq : forall P k l os,
  failed_idx k (map (fun e => ev_ct e / P) l) os = failed_in P k l os.
Proof.
  induction l as [|e l IH]; intros os; [reflexivity|].
  cbn [map failed_idx failed_in]. destruct os as [|[[o x] le] os]; [reflexivity|].
  rewrite IH. reflexivity.
Qed.

Lemma rate_ok_new : forall p l, rate_ok p l (exec (new p) l) = true.
Proof.
  intros p l. unfold rate_ok. destruct (limit_of p) as [[P cap]|] eqn:El; [|reflexivity].
  destruct (mono 0 l && quiet_all 0 l) eqn:E; [|reflexivity].
  apply andb_true_iff in E as [Em Eq]. cbv zeta.
  apply forallb_forall. intros k _. rewrite failed_idx_eq. apply N.leb_le.
  apply (rate_new p P cap El k l Em Eq).
Qed.

(* ------------------------------------------------------------------ failure_next_state meets its spec *)
Lemma wend_eq : forall w ct, 0 < w -> window_end w ct = wend w ct.
Proof.
  intros w ct Hw. rewrite (window_end_eq w ct Hw). unfold wend. rewrite (step_index w ct Hw). reflexivity.
Qed.

Lemma wend_gt : forall w ct, 0 < w -> ct < wend w ct.
Proof.
  intros w ct Hw. rewrite <- (wend_eq w ct Hw), (window_end_eq w ct Hw).
  apply div_hi. pose proof G_pos. lia.
Qed.

Ltac prop_hyps :=
  repeat match goal with
  | H : (_ <? _) = true |- _ => apply N.ltb_lt in H
  | H : (_ <? _) = false |- _ => apply N.ltb_ge in H
  | H : (_ <=? _) = true |- _ => apply N.leb_le in H
  | H : (_ <=? _) = false |- _ => apply N.leb_gt in H
  end.
Ltac bool_atoms :=
  rewrite ?N.eqb_refl; cbn [andb]; repeat (apply andb_true_iff; split); try reflexivity;
  first [apply N.ltb_lt | apply N.leb_le | apply N.eqb_eq]; try apply N.le_max_r; nia.

Lemma next_spec_ok : forall p c ct, policy_ok p = true ->
  next_spec p c ct (failure_next_state p c ct) = true.
Proof.
  intros p c ct Hok. pose proof G_pos as HG.
  destruct p as [|step| |]; cbn [failure_next_state next_spec]; cbv zeta.
  - rewrite (wend_eq ONEDAY ct ltac:(reflexivity)).
    pose proof (wend_gt ONEDAY ct ltac:(reflexivity)) as Hh.
    set (we := wend ONEDAY ct) in *. unfold of_secs.
    destruct (c <? 3) eqn:E1; [|destruct (c <? 9) eqn:E2; [|destruct (c <? 25) eqn:E3; [|destruct (c <? 100) eqn:E4]]];
      destruct (100 <=? c) eqn:E5; prop_hyps; try lia; bool_atoms.
  - cbn [policy_ok] in Hok. apply N.ltb_lt in Hok.
    rewrite (wend_eq step ct Hok).
    pose proof (wend_gt step ct Hok) as Hh.
    set (we := wend step ct) in *. unfold of_secs.
    destruct (3 <=? c) eqn:E1; prop_hyps; bool_atoms.
  - unfold of_secs. bool_atoms.
  - reflexivity.
Qed.

(* ------------------------------------------------------------------ raw traces *)
Lemma lstate_eqb_refl : forall x, lstate_eqb x x = true.
Proof. destruct x; cbn [lstate_eqb]; rewrite ?N.eqb_refl; reflexivity. Qed.

Lemma raw_ok_run : forall ops s,
  raw_ok (st s) (last_exp s) ops (map slock_obs (run_ops s ops)) = true.
Proof.
  induction ops as [|o ops IH]; intros s; [reflexivity|].
  cbn [run_ops map raw_ok slock_obs]. rewrite IH, andb_true_r.
  destruct o as [ct e|ct]; [|reflexivity]. cbn [apply_op].
  destruct (st s) as [|c r u|c r] eqn:Es; try reflexivity.
  destruct ((ct <=? N.min u r) && match e with None => true | Some y => y =? last_exp s end) eqn:Ec;
    [|reflexivity].
  apply andb_true_iff in Ec as [E1 E2]. apply N.leb_le in E1.
  assert (Hq : quiet_for (last_exp s) (Ev ct e false) = true) by exact E2.
  pose proof (ts_quiet s (Ev ct e false) Hq) as Ht. cbn [ev_ct ev_exp] in Ht.
  rewrite Ht, ts_none, Es. cbn [step_state st].
  replace (r <? ct) with false by (symmetry; apply N.ltb_ge; lia).
  replace (u <? ct) with false by (symmetry; apply N.ltb_ge; lia).
  apply lstate_eqb_refl.
Qed.

(* ------------------------------------------------------------------ decoding the equality tests *)
Lemma lstate_eqb_eq : forall a b, lstate_eqb a b = true -> a = b.
Proof.
  intros [|c r u|c r] [|c' r' u'|c' r'] H; cbn [lstate_eqb] in H; try discriminate; try reflexivity.
  - apply andb_true_iff in H as [H H3]. apply andb_true_iff in H as [H1 H2].
    apply N.eqb_eq in H1, H2, H3. subst. reflexivity.
  - apply andb_true_iff in H as [H1 H2]. apply N.eqb_eq in H1, H2. subst. reflexivity.
Qed.

Lemma obs_eqb_eq : forall a b, obs_eqb a b = true -> a = b.
Proof.
  intros [[o x] le] [[o' x'] le'] H. cbn [obs_eqb] in H.
  apply andb_true_iff in H as [H H3]. apply andb_true_iff in H as [H1 H2].
  apply lstate_eqb_eq in H2. apply N.eqb_eq in H3. subst.
  destruct o, o'; try discriminate; reflexivity.
Qed.

Lemma sobs_eqb_eq : forall a b, sobs_eqb a b = true -> a = b.
Proof.
  intros [x le] [x' le'] H. unfold sobs_eqb in H. cbn [fst snd] in H.
  apply andb_true_iff in H as [H1 H2]. apply lstate_eqb_eq in H1. apply N.eqb_eq in H2. subst. reflexivity.
Qed.

Lemma list_eqb_eq : forall A (f : A -> A -> bool), (forall a b, f a b = true -> a = b) ->
  forall a b, list_eqb f a b = true -> a = b.
Proof.
  intros A f Hf. induction a as [|x a IH]; intros [|y b] H; cbn [list_eqb] in H; try discriminate; [reflexivity|].
  apply andb_true_iff in H as [H1 H2]. apply Hf in H1. apply IH in H2. subst. reflexivity.
Qed.

Lemma exec_length : forall l s, length (exec s l) = length l.
Proof.
  induction l as [|e l IH]; intros s; [reflexivity|]. cbn [exec].
  destruct (attempt s e) as [s' o]. cbn [length]. rewrite IH. reflexivity.
Qed.

(* ------------------------------------------------------------------ the model has the property
   (partial form) on every history *)
Lemma rest_ok_new : forall p l, policy_ok p = true -> rest_ok p l (exec (new p) l) = true.
Proof.
  intros p l Hok. unfold rest_ok.
  rewrite exec_length, Nat.eqb_refl, rate_ok_new. cbn [andb].
  assert (Hc : count_ok (is_unrestricted p) Init 0 l (exec (new p) l) = true).
  { apply (count_inv l (new p)); [exact Hok|reflexivity]. }
  rewrite Hc, andb_true_r.
  destruct (mono 0 l && quiet_all 0 l) eqn:E; [|reflexivity].
  apply andb_true_iff in E as [Em Eq].
  apply (never_shorter_inv l (new p) 0 None Hok I Em Eq).
Qed.

(* ------------------------------------------------------------------ policy selection *)
Lemma fold_min_le : forall r s, fold_left N.min r s <= s /\ forall x, In x r -> fold_left N.min r s <= x.
Proof.
  induction r as [|y r IH]; intros s; cbn [fold_left].
  - split; [lia|intros x []].
  - destruct (IH (N.min s y)) as [H1 H2]. split; [lia|].
    intros x [<-|Hx]; [lia|apply H2; exact Hx].
Qed.

Lemma fold_min_in : forall r s, In (fold_left N.min r s) (s :: r).
Proof.
  induction r as [|y r IH]; intros s; cbn [fold_left]; [left; reflexivity|].
  destruct (IH (N.min s y)) as [H|H]; [|right; right; exact H].
  rewrite <- H. destruct (N.min_spec s y) as [[_ E]|[_ E]]; rewrite E; [left|right; left]; reflexivity.
Qed.

Lemma min_step_spec : forall s r, In (min_step (s :: r)) (s :: r) /\
  forall x, In x (s :: r) -> min_step (s :: r) <= x.
Proof.
  intros s r. cbn [min_step]. split; [apply fold_min_in|].
  destruct (fold_min_le r s) as [H1 H2]. intros x [<-|Hx]; [exact H1|apply H2; exact Hx].
Qed.

Lemma policy_spec_ok : forall c, policy_spec c (softlock_policy c) = true.
Proof.
  intros [| |steps keys b|n]; try reflexivity. cbn [softlock_policy policy_spec].
  destruct steps as [|s r]; cbn [negb].
  - destruct (keys =? 0); reflexivity.
  - destruct (min_step_spec s r) as [Hin Hle]. apply andb_true_iff. split.
    + apply existsb_exists. exists (min_step (s :: r)). split; [exact Hin|apply N.eqb_refl].
    + apply forallb_forall. intros x Hx. apply N.leb_le. apply Hle. exact Hx.
Qed.

Lemma policy_eqb_eq : forall a b, policy_eqb a b = true -> a = b.
Proof.
  intros [|x| |] [|y| |] H; cbn [policy_eqb] in H; try discriminate; try reflexivity.
  apply N.eqb_eq in H. subst. reflexivity.
Qed.

Definition required_policy (c : cshape) : policy :=
  match c with
  | SMfa (s :: r) _ _ => PTotp (fold_left N.min r s)
  | SMfa [] 0 _ | SPassword | SGenerated => PPassword
  | _ => PWebauthn
  end.

Lemma required_policy_eq : forall c, required_policy c = softlock_policy c.
Proof.
  intros [| |steps keys b|n]; try reflexivity. cbn [required_policy softlock_policy].
  destruct steps as [|s r]; cbn [negb]; [|reflexivity].
  destruct keys; reflexivity.
Qed.

Definition case_ok (c : case) : bool :=
  match c with
  | CPolicy _ _ => true
  | CShapeEvents _ c _ _ => policy_ok (softlock_policy c)
  | CNext p _ _ _ => policy_ok p
  | CRaw p _ _ _ _ => policy_ok p
  | CEvents _ p _ _ => policy_ok p
  end.

Lemma agree_property : forall c, case_ok c = true -> agree c = true ->
  pcheck c = true.
Proof.
  intros [c impl|src c evs impl|p count ct impl|p s0 le0 ops impl|src p evs impl] Hok Ha; cbn [case_ok agree pcheck] in *.
  - apply policy_eqb_eq in Ha. subst impl. apply policy_spec_ok.
  - apply (list_eqb_eq _ _ obs_eqb_eq) in Ha. subst impl.
    change (locked_ok evs (exec (new (softlock_policy c)) evs) &&
            rest_ok (required_policy c) evs (exec (new (softlock_policy c)) evs) = true).
    rewrite required_policy_eq.
    rewrite (rest_ok_new _ evs Hok), (locked_full evs (new (softlock_policy c)) Hok). reflexivity.
  - apply lstate_eqb_eq in Ha. subst impl. apply next_spec_ok. exact Hok.
  - apply (list_eqb_eq _ _ sobs_eqb_eq) in Ha. subst impl.
    apply (raw_ok_run ops (mk s0 p le0)).
  - apply (list_eqb_eq _ _ obs_eqb_eq) in Ha. subst impl.
    rewrite (rest_ok_new p evs Hok), (locked_full evs (new p) Hok). reflexivity.
Qed.

(* ------------------------------------------------------------------ Prop-level forms *)
Fixpoint final (s : slock) (l : list ev) : slock :=
  match l with [] => s | e :: r => final (fst (attempt s e)) r end.

Lemma exec_app : forall l1 l2 s, exec s (l1 ++ l2) = exec s l1 ++ exec (final s l1) l2.
Proof.
  induction l1 as [|e l1 IH]; intros l2 s; [reflexivity|].
  cbn [app exec final]. destruct (attempt s e) as [s' o]. cbn [fst app]. rewrite IH. reflexivity.
Qed.

Lemma final_pol : forall l s, pol (final s l) = pol s.
Proof.
  induction l as [|e l IH]; intros s; [reflexivity|]. cbn [final]. rewrite IH.
  destruct (attempt_cases s e) as [[Ha _]|[[Ha _]|[Ha _]]]; rewrite Ha; cbn [fst];
    rewrite ?rf_pol; apply ts_pol.
Qed.

(* locked until min unlock_at reset_at, and nothing changes meanwhile *)
Lemma locked_until_min : forall l s c r u, st s = Locked c r u ->
  (forall e, In e l -> ev_ct e <= N.min u r /\ quiet_for (last_exp s) e = true) ->
  forall ob, In ob (exec s l) -> ob = (Refused, Locked c r u, last_exp s).
Proof.
  induction l as [|e l IH]; intros s c r u Hs Hl ob Hin; [destruct Hin|].
  destruct (Hl e (or_introl eq_refl)) as [H1 H2].
  assert (Ha : attempt s e = (mk (Locked c r u) (pol s) (last_exp s), Refused)).
  { unfold attempt. rewrite (ts_quiet s e H2), ts_none, Hs. cbn [step_state].
    replace (r <? ev_ct e) with false by (symmetry; apply N.ltb_ge; lia).
    replace (u <? ev_ct e) with false by (symmetry; apply N.ltb_ge; lia). reflexivity. }
  cbn [exec] in Hin. rewrite Ha in Hin. cbn [st last_exp] in Hin. destruct Hin as [<-|Hin]; [reflexivity|].
  apply (IH (mk (Locked c r u) (pol s) (last_exp s)) c r u eq_refl); [|exact Hin].
  intros e' He'. apply Hl. right. exact He'.
Qed.

(* the count goes down only on a reset condition *)
Lemma count_drop : forall s e,
  policy_ok (pol s) = true -> (pol s = PUnrestricted -> st s = Init) ->
  count_of (st (fst (attempt s e))) < count_of (st s) ->
  reset_cond (st s) (last_exp s) e = true.
Proof.
  intros s e Hok Hun Hlt.
  pose proof (ts_count s (ev_ct e) (ev_exp e) (ev_bad e)) as Hc.
  replace (Ev (ev_ct e) (ev_exp e) (ev_bad e)) with e in Hc by (destruct e; reflexivity).
  pose proof (ts_pol s (ev_ct e) (ev_exp e)) as Hp1.
  destruct Hc as [Hc|[_ Hc]]; [|exact Hc]. exfalso.
  destruct (attempt_cases s e) as [[Ha Hv]|[[Ha Hv]|[Ha Hv]]]; rewrite Ha in Hlt; cbn [fst] in Hlt; try lia.
  set (s1 := apply_time_step s (ev_ct e) (ev_exp e)) in *.
  destruct (rf_state s1 (ev_ct e) ltac:(rewrite Hp1; exact Hok) Hv) as [[H1 H2]|(r & u & H1 & H2)].
  - rewrite Hp1 in H2. rewrite (Hun H2) in Hlt. cbn [count_of] in Hlt. lia.
  - rewrite H1 in Hlt. cbn [count_of] in Hlt. lia.
Qed.

(* two consecutive failures of one window *)
Lemma ns_skip : forall l os h, length os = length l ->
  (forall ob, In ob os -> is_failed (fst (fst ob)) = false /\ snd (fst ob) <> Init) ->
  forall l2 os2, never_shorter h (l ++ l2) (os ++ os2) = never_shorter h l2 os2.
Proof.
  induction l as [|e l IH]; intros [|[[o x] le] os] h Hlen Hob l2 os2; try discriminate; [reflexivity|].
  cbn [app never_shorter]. destruct (Hob _ (or_introl eq_refl)) as [H1 H2]. cbn [fst snd] in H1, H2.
  assert (Hrec : never_shorter h (l ++ l2) (os ++ os2) = never_shorter h l2 os2).
  { apply IH; [cbn [length] in Hlen; congruence|]. intros ob Hin. apply Hob. right. exact Hin. }
  destruct x as [|c r u|c r]; [congruence| |exact Hrec]. rewrite H1. exact Hrec.
Qed.

Lemma two_failures : forall s1 c1 r1 u1 l e2 c2 r2 u2 le2,
  policy_ok (pol s1) = true -> st s1 = Locked c1 r1 u1 ->
  mono 0 (l ++ [e2]) = true -> quiet_all (last_exp s1) (l ++ [e2]) = true ->
  (forall ob, In ob (exec s1 l) -> is_failed (fst (fst ob)) = false /\ snd (fst ob) <> Init) ->
  exec (final s1 l) [e2] = [(Failed, Locked c2 r2 u2, le2)] -> 1 < c2 ->
  u1 < u2.
Proof.
  intros s1 c1 r1 u1 l e2 c2 r2 u2 le2 Hok Hs Hm Hq Hob He2 Hc2.
  assert (HJ : J (st s1) 0 (Some u1)) by (rewrite Hs; reflexivity).
  pose proof (never_shorter_inv (l ++ [e2]) s1 0 (Some u1) Hok HJ Hm Hq) as Hns.
  rewrite exec_app, He2 in Hns.
  rewrite (ns_skip l (exec s1 l) (Some u1) (exec_length l s1) Hob) in Hns.
  cbn [never_shorter is_failed] in Hns.
  replace (c2 <=? 1) with false in Hns by (symmetry; apply N.leb_gt; exact Hc2).
  rewrite andb_true_r in Hns. apply N.ltb_lt. exact Hns.
Qed.

(* ------------------------------------------------------------------ the full first sentence *)
Lemma locked_until_unlock : forall s e s' c r u l, policy_ok (pol s) = true ->
  attempt s e = (s', Failed) -> st s' = Locked c r u ->
  (forall e2, In e2 l -> ev_ct e2 <= u /\ quiet_for (last_exp s') e2 = true) ->
  ev_ct e < u /\ u <= r /\
  forall ob, In ob (exec s' l) -> ob = (Refused, Locked c r u, last_exp s').
Proof.
  intros s e s' c r u l Hok Ha Hs Hl.
  destruct (attempt_cases s e) as [[Ha' _]|[[Ha' _]|[Ha' Hv]]]; rewrite Ha in Ha'; try discriminate.
  injection Ha' as ->.
  set (s1 := apply_time_step s (ev_ct e) (ev_exp e)) in *.
  pose proof (rf_le_reset s1 (ev_ct e) c r u Hs) as Hur.
  assert (Hok1 : policy_ok (pol s1) = true) by (unfold s1; rewrite ts_pol; exact Hok).
  split; [|split; [exact Hur|]].
  - destruct (rf_state s1 (ev_ct e) Hok1 Hv) as [[H1 _]|(r' & u' & H1 & H2)]; rewrite H1 in Hs; [discriminate|].
    injection Hs as _ _ <-. exact H2.
  - apply (locked_until_min l (record_failure s1 (ev_ct e)) c r u Hs).
    intros e2 He2. destruct (Hl e2 He2) as [H1 H2]. split; [lia|exact H2].
Qed.

(* without administrator expiry every lock a history produces has unlock_at <= reset_at *)
Definition lock_wf (x : lstate) : Prop :=
  match x with Locked _ r u => u <= r | _ => True end.

Lemma final_lock_wf : forall l s, lock_wf (st s) -> quiet_all (last_exp s) l = true ->
  lock_wf (st (final s l)).
Proof.
  induction l as [|e l IH]; intros s Hw Hq; [exact Hw|].
  cbn [quiet_all] in Hq. apply andb_true_iff in Hq as [Hq1 Hq2]. cbn [final].
  pose proof (attempt_cases s e) as Hc. cbv zeta in Hc. rewrite (ts_quiet s e Hq1), ts_none in Hc.
  set (s1 := mk (step_state (st s) (ev_ct e)) (pol s) (last_exp s)) in *.
  assert (Hw1 : lock_wf (st s1)).
  { unfold s1. cbn [st]. destruct (st s) as [|c r u|c r]; cbn [step_state lock_wf] in *; [exact I| |].
    - destruct (r <? ev_ct e); [exact I|]. destruct (u <? ev_ct e); [exact I|exact Hw].
    - destruct (r <? ev_ct e); exact I. }
  destruct Hc as [[Ha _]|[[Ha _]|[Ha _]]]; rewrite Ha; cbn [fst].
  - apply IH; [exact Hw1|exact Hq2].
  - apply IH; [exact Hw1|exact Hq2].
  - apply IH; [|rewrite rf_le; exact Hq2].
    destruct (st (record_failure s1 (ev_ct e))) as [|c r u|c r] eqn:Es; cbn [lock_wf]; try exact I.
    apply (rf_le_reset s1 (ev_ct e) c r u Es).
Qed.
