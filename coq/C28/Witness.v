(* KV.C28.Witness — non-vacuity: concrete, non-trivial values meet the hypotheses of the
   implication theorems; plus the refutation witness as a checked case. *)
From Coq Require Import List NArith Bool.
Import ListNotations.
Require Import KV.C28.Model KV.C28.Proofs.
Open Scope N_scope.

Definition t (s : N) : N := s * G.

(* n wrong passwords, 11 s apart, starting at instant t0 (seconds) *)
Fixpoint wrongs (n : nat) (t0 : N) : list ev :=
  match n with O => [] | S n' => Ev (t t0) None true :: wrongs n' (t0 + 11) end.

(* C28_password_100_per_day: a monotone quiet history with 130 wrong passwords inside one
   UTC day (day 19700): exactly 100 are recorded as failures, the rest is refused unchecked *)
Example C28_witness_password_cap :
  let l := wrongs 130 (19700 * 86400 + 1000) in
  mono 0 l = true /\ quiet_all 0 l = true /\
  failed_in (ONEDAY * G) 19700 l (exec (new PPassword) l) = 100 /\
  nth 129 (exec (new PPassword) l) (Passed, Init, 0)
    = (Refused, Locked 100 (t (19701 * 86400)) (t (19701 * 86400)), 0).
Proof. vm_compute. repeat split; reflexivity. Qed.

(* C28_totp_3_per_step: 6 wrong codes 2 s apart inside one 30 s step: 3 failures, then refused *)
Example C28_witness_totp_cap :
  let l := [Ev (t 3002) None true; Ev (t 3004) None true; Ev (t 3006) None true;
            Ev (t 3008) None true; Ev (t 3010) None false; Ev (t 3029) None true] in
  mono 0 l = true /\ quiet_all 0 l = true /\
  failed_in (30 * G) 100 l (exec (new (PTotp 30)) l) = 3 /\
  map (fun ob => fst (fst ob)) (exec (new (PTotp 30)) l)
    = [Failed; Failed; Failed; Refused; Refused; Refused].
Proof. vm_compute. repeat split; reflexivity. Qed.

(* C28_locked_until_unlock: a wrong password arms a lock (3rd failure: 3 s), which is then
   consulted three times up to and including its unlock instant (sub-second instant included) *)
Example C28_witness_locked :
  let s := mk (Unlocked 2 (t 86400)) PPassword 0 in
  let e := Ev (t 500) None true in
  let l := [Ev (t 502) None true; Ev (t 502 + 500000000) (Some 0) false; Ev (t 503) None true] in
  attempt s e = (mk (Locked 3 (t 86400) (t 503)) PPassword 0, Failed) /\
  forallb (fun e2 => (ev_ct e2 <=? t 503) && quiet_for 0 e2) l = true /\
  map (fun ob => fst (fst ob)) (exec (fst (attempt s e)) l) = [Refused; Refused; Refused].
Proof. vm_compute. repeat split; reflexivity. Qed.

(* C28_locked_state_stays_locked: a lock whose reset_at an administrator expiry pulled in *)
Example C28_witness_capped_lock :
  let s := mk (Locked 2 (t 400) (t 503)) PPassword (t 400) in
  let l := [Ev (t 399) (Some (t 400)) true; Ev (t 400) None false] in
  forallb (fun e => (ev_ct e <=? N.min (t 503) (t 400)) && quiet_for (last_exp s) e) l = true /\
  length (exec s l) = 2%nat.
Proof. vm_compute. split; reflexivity. Qed.

(* C28_never_shortens: failure (count 1, unlock 501 s), a right credential at 502 s
   (Passed, lock becomes Unlocked), a wrong one at 503 s (count 2, unlock 504 s > 501 s) *)
Example C28_witness_never_shortens :
  let s1 := mk (Locked 1 (t 86400) (t 501)) PPassword 0 in
  let l := [Ev (t 502) None false] in
  let e2 := Ev (t 503) None true in
  mono 0 (l ++ [e2]) = true /\ quiet_all (last_exp s1) (l ++ [e2]) = true /\
  exec s1 l = [(Passed, Unlocked 1 (t 86400), 0)] /\
  exec (final s1 l) [e2] = [(Failed, Locked 2 (t 86400) (t 504), 0)].
Proof. vm_compute. repeat split; reflexivity. Qed.

(* C28_reset_only_after_window: the count does drop (2 -> 0) once reset_at has passed, and
   (second example) when a new administrator expiry in the past is applied to a locked credential *)
Example C28_witness_reset :
  let s := mk (Unlocked 2 (t 86400)) PPassword 0 in
  let e := Ev (t 86400 + 1) None false in
  count_of (st (fst (attempt s e))) <? count_of (st s) = true /\
  reset_cond (st s) (last_exp s) e = true.
Proof. vm_compute. split; reflexivity. Qed.
Example C28_witness_admin_reset :
  let s := mk (Locked 100 (t 86400) (t 86400)) PPassword 0 in
  let e := Ev (t 5000) (Some (t 4999)) false in
  attempt s e = (mk Init PPassword (t 4999), Passed) /\
  reset_cond (st s) (last_exp s) e = true.
Proof. vm_compute. split; reflexivity. Qed.

(* the day-end history of C28_prefix_refuted: the FIXED model keeps the credential refused up
   to and including the unlock instant (reset_at is pushed out to unlock_at) and the case
   passes pcheck; the PRE-FIX model let the right password through at the unlock instant *)
Definition dayend_history : list ev :=
  [Ev (t 86380) None true; Ev (t 86382) None true; Ev (t 86384) None true;
   Ev (t 86398) None true; Ev (t 86400 + 500000000) None false; Ev (t 86401) None false;
   Ev (t 86401 + 1) None false].
Example C28_witness_dayend_fixed :
  let c := CEvents 0 PPassword dayend_history (exec (new PPassword) dayend_history) in
  agree c = true /\ pcheck c = true /\
  skipn 3 (exec (new PPassword) dayend_history)
    = [(Failed, Locked 4 (t 86401) (t 86401), 0); (Refused, Locked 4 (t 86401) (t 86401), 0);
       (Refused, Locked 4 (t 86401) (t 86401), 0); (Passed, Init, 0)].
Proof. vm_compute. repeat split; reflexivity. Qed.
Example C28_witness_dayend_prefix :
  skipn 3 (exec_prefix (new PPassword) dayend_history)
    = [(Failed, Locked 4 (t 86400) (t 86401), 0); (Passed, Init, 0); (Passed, Init, 0); (Passed, Init, 0)] /\
  pcheck (CEvents 0 PPassword dayend_history (exec_prefix (new PPassword) dayend_history)) = false.
Proof. vm_compute. split; reflexivity. Qed.

(* the same at sub-second scale for TOTP: failure 0.5 s before the step ends *)
Example C28_witness_stepend :
  let l := [Ev (t 29 + 500000000) None true; Ev (t 30 + 200000000) None false] in
  exec (new (PTotp 30)) l
  = [(Failed, Locked 1 (t 30 + 500000000) (t 30 + 500000000), 0);
     (Refused, Locked 1 (t 30 + 500000000) (t 30 + 500000000), 0)] /\
  exec_prefix (new (PTotp 30)) l
  = [(Failed, Locked 1 (t 30) (t 30 + 500000000), 0); (Passed, Init, 0)].
Proof. vm_compute. split; reflexivity. Qed.

(* policy selection: a credential with TOTPs of steps 60 and 30, two security keys and backup
   codes is limited per 30 s step; hypotheses of C28_totp_credential_3_per_step are met *)
Example C28_witness_policy_selection :
  softlock_policy (SMfa [60; 30] 2 true) = PTotp 30 /\
  forallb (N.ltb 0) [60; 30] = true /\
  softlock_policy (SMfa [] 2 true) = PWebauthn /\
  policy_spec (SMfa [60; 30] 2 true) PWebauthn = false /\
  policy_spec (SMfa [60; 30] 2 true) (PTotp 60) = false.
Proof. vm_compute. repeat split; reflexivity. Qed.

(* a lock that behaves like the webauthn policy on a TOTP+security-key credential (what a wrong
   policy selection would give: 6 wrong codes accepted in one step) is flagged by pcheck *)
Example C28_witness_wrong_policy_flagged :
  let l := [Ev (t 3002) None true; Ev (t 3004) None true; Ev (t 3006) None true;
            Ev (t 3008) None true; Ev (t 3010) None true; Ev (t 3012) None true] in
  pcheck (CShapeEvents 4 (SMfa [30] 1 false) l (exec (new PWebauthn) l)) = false /\
  pcheck (CShapeEvents 4 (SMfa [30] 1 false) l (exec (new (PTotp 30)) l)) = true.
Proof. vm_compute. split; reflexivity. Qed.

(* C28_agree_implies_property: case_ok holds of real policies *)
Example C28_witness_case_ok :
  case_ok (CEvents 1 (PTotp 30) [] []) = true /\ case_ok (CNext PPassword 100 5 Init) = true /\
  case_ok (CShapeEvents 4 (SMfa [60; 30] 1 true) [] []) = true.
Proof. vm_compute. repeat split; reflexivity. Qed.
