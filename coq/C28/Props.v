(* KV.C28.Props — property theorems only.
   Time is in nanoseconds (a Rust Duration); `secs t = t / G` is Duration::as_secs.
   `exec s l` is the list of observations (outcome, lock state, last_expire_at) the server's
   consultation discipline produces on lock s for the consultations l; an event
   `Ev ct exp bad` is one consultation at instant ct with the account's soft-lock expiry
   attribute exp, presenting a wrong (bad = true) or right credential.
   "quiet" = no NEW administrator expiry (none, or the one the lock already consumed);
   "mono"  = the instants never go backwards. *)
From Coq Require Import List NArith Bool Lia.
Import ListNotations.
Require Import KV.C28.Model KV.C28.Proofs.
Open Scope N_scope.

(* ---- sentence 1: "after a failed attempt the credential is refused until its unlock time" *)

(* The sentence as written, over reachable locks: after any history l1 and a failing
   consultation e that arms the lock with unlock time u, every consultation at an instant
   <= u (no new administrator expiry) is refused. *)
Definition C28_full_statement : Prop :=
  forall p l1 e s' c r u l2, policy_ok p = true ->
    attempt (final (new p) l1) e = (s', Failed) -> st s' = Locked c r u ->
    (forall e2, In e2 l2 -> ev_ct e2 <= u /\ quiet_for (last_exp s') e2 = true) ->
    forall ob, In ob (exec s' l2) -> fst (fst ob) = Refused.

(* It does NOT hold of the code: a lock whose unlock time lies beyond its window's reset
   time is re-opened by the window reset.  Witness: a password credential with 3 failures
   in the day fails again 2 s before midnight UTC (3 s delay => unlock 1 s after midnight,
   reset at midnight); a consultation AT the unlock instant is let through. *)
Theorem C28_refuted : ~ C28_full_statement.
Proof.
  intros H.
  pose (t := fun s : N => s * G).
  specialize (H PPassword
    [Ev (t 86380) None true; Ev (t 86382) None true; Ev (t 86384) None true]
    (Ev (t 86398) None true)
    (mk (Locked 4 (t 86400) (t 86401)) PPassword 0) 4 (t 86400) (t 86401)
    [Ev (t 86401) None false] eq_refl).
  assert (H1 : fst (fst (Passed, Init, 0)) = Refused).
  { apply H.
    - vm_compute. reflexivity.
    - reflexivity.
    - intros e2 [<-|[]]. split; [vm_compute; discriminate|reflexivity].
    - vm_compute. left. reflexivity. }
  discriminate H1.
Qed.

(* What does hold, for EVERY lock state (reachable or not) and every policy: a locked
   credential stays refused — and the lock is unchanged — at every consultation up to
   min(unlock_at, reset_at) (no new administrator expiry).  Outside the class
   KnownClass = { locks with reset_at < unlock_at } this is the full sentence. *)
Theorem C28_locked_until_unlock_partial : forall s c r u l,
  st s = Locked c r u ->
  (forall e, In e l -> ev_ct e <= N.min u r /\ quiet_for (last_exp s) e = true) ->
  forall ob, In ob (exec s l) -> ob = (Refused, Locked c r u, last_exp s).
Proof. exact (fun s c r u l => locked_until_min l s c r u). Qed.

Theorem C28_locked_until_unlock_outside_known_class : forall s c r u l,
  st s = Locked c r u -> u <= r ->
  (forall e, In e l -> ev_ct e <= u /\ quiet_for (last_exp s) e = true) ->
  forall ob, In ob (exec s l) -> fst (fst ob) = Refused.
Proof.
  intros s c r u l Hs Hur Hl ob Hin.
  rewrite (locked_until_min l s c r u Hs) with (ob := ob); [reflexivity| |exact Hin].
  intros e He. destruct (Hl e He) as [H1 H2]. split; [lia|exact H2].
Qed.

(* a wrong credential always arms a lock that ends strictly later than the attempt
   (at least 1 s later below the cap, see C28_next_state_spec) — except for the
   unrestricted (anonymous) policy, which never locks *)
Theorem C28_failure_locks : forall s ct, policy_ok (pol s) = true -> is_valid s = true ->
  (st (record_failure s ct) = Init /\ pol s = PUnrestricted) \/
  exists r u, st (record_failure s ct) = Locked (count_of (st s) + 1) r u /\ ct < u.
Proof. exact rf_state. Qed.

(* failure_next_state meets its specification (window end, delays, cap) for all inputs *)
Theorem C28_next_state_spec : forall p c ct, policy_ok p = true ->
  next_spec p c ct (failure_next_state p c ct) = true.
Proof. exact next_spec_ok. Qed.

(* ---- sentence 1b: "further failures in the same window never shorten the lock" *)

(* Two consecutive failures: the lock armed by a failure has unlock time u1; after any
   number of non-failing consultations during which the lock was never reset, a further
   failure that continues the count (c2 > 1: same window) arms a lock with u2 > u1.
   Needs a monotone clock and no new administrator expiry. *)
Theorem C28_never_shortens : forall s1 c1 r1 u1 l e2 c2 r2 u2 le2,
  policy_ok (pol s1) = true -> st s1 = Locked c1 r1 u1 ->
  mono 0 (l ++ [e2]) = true -> quiet_all (last_exp s1) (l ++ [e2]) = true ->
  (forall ob, In ob (exec s1 l) -> is_failed (fst (fst ob)) = false /\ snd (fst ob) <> Init) ->
  exec (final s1 l) [e2] = [(Failed, Locked c2 r2 u2, le2)] -> 1 < c2 ->
  u1 < u2.
Proof. exact two_failures. Qed.

(* the same over whole histories, in the executable form used on the implementation *)
Theorem C28_never_shortens_history : forall p l, policy_ok p = true ->
  mono 0 l = true -> quiet_all 0 l = true ->
  never_shorter None l (exec (new p) l) = true.
Proof. intros p l Hok Hm Hq. exact (never_shorter_inv l (new p) 0 None Hok I Hm Hq). Qed.

(* ---- sentence 2: "the count resets only after the window's reset time or an
        administrator-set expiry, never because of a successful login" *)

(* a consultation with a RIGHT credential changes the lock exactly as the passage of time
   alone does (it is indistinguishable from a mere validity check) *)
Theorem C28_success_does_not_reset : forall s e, ev_bad e = false ->
  fst (attempt s e) = apply_time_step s (ev_ct e) (ev_exp e).
Proof.
  intros s e Hb. unfold attempt. rewrite Hb. destruct (is_valid _); reflexivity.
Qed.

(* whatever the outcome, the failure count decreases only if the instant is after the
   lock's reset_at, or after a new administrator expiry applied to a locked credential *)
Theorem C28_reset_only_after_window : forall s e,
  policy_ok (pol s) = true -> (pol s = PUnrestricted -> st s = Init) ->
  count_of (st (fst (attempt s e))) < count_of (st s) ->
  reset_cond (st s) (last_exp s) e = true.
Proof. exact count_drop. Qed.

(* reset_at never lies before the end of the window (UTC day / TOTP step) of the failure *)
Theorem C28_reset_at_is_window_end : forall p P cap c ct, limit_of p = Some (P, cap) ->
  exists u, failure_next_state p c ct = Locked c ((ct / P + 1) * P) u /\ ct < u /\
            (cap <= c -> u = (ct / P + 1) * P).
Proof. intros p P cap c ct H. destruct (fns_window p P cap c ct H) as (_ & _ & H'). exact H'. Qed.

(* ---- sentence 3: the rate limits *)

(* index of the UTC day / TOTP step of an instant, as used below *)
Theorem C28_day_index : forall t, t / (ONEDAY * G) = secs t / ONEDAY.
Proof. exact day_index. Qed.
Theorem C28_step_index : forall step t, 0 < step -> t / (step * G) = secs t / step.
Proof. exact step_index. Qed.

(* password-only credential: for EVERY history of consultations (any length, any instants
   that do not go backwards, wrong and right credentials in any order, no new
   administrator expiry) at most 100 failures are recorded in any UTC day *)
Theorem C28_password_100_per_day : forall l day,
  mono 0 l = true -> quiet_all 0 l = true ->
  failed_in (ONEDAY * G) day l (exec (new PPassword) l) <= 100.
Proof. intros l day. exact (rate_new PPassword (ONEDAY * G) 100 eq_refl day l). Qed.

(* TOTP-protected credential with step `step` seconds: at most 3 failures per TOTP step *)
Theorem C28_totp_3_per_step : forall step l k, 0 < step ->
  mono 0 l = true -> quiet_all 0 l = true ->
  failed_in (step * G) k l (exec (new (PTotp step)) l) <= 3.
Proof.
  intros step l k Hs. apply (rate_new (PTotp step) (step * G) 3).
  cbn [limit_of]. replace (step =? 0) with false by (symmetry; apply N.eqb_neq; lia). reflexivity.
Qed.

(* ---- bridge: a run without disagreements transfers everything to the observed cases *)
Theorem C28_agree_implies_property : forall c, case_ok c = true -> agree c = true ->
  pcheck c || known c = true.
Proof. exact agree_property. Qed.

(* known-class cases are exactly: the full sentence fails, its partial form and all the
   other predicates hold *)
Theorem C28_known_class : forall src p evs impl,
  known (CEvents src p evs impl) = true <->
  locked_ok true evs impl = false /\ locked_ok false evs impl = true /\ rest_ok p evs impl = true.
Proof.
  intros src p evs impl. cbn [known]. rewrite !andb_true_iff, negb_true_iff. tauto.
Qed.
