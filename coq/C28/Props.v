(* KV.C28.Props — property theorems only.
   Time is in nanoseconds (a Rust Duration); `secs t = t / G` is Duration::as_secs.
   `exec s l` is the list of observations (outcome, lock state, last_expire_at) the server's
   consultation discipline produces on lock s for the consultations l; an event
   `Ev ct exp bad` is one consultation at instant ct with the account's soft-lock expiry
   attribute exp, presenting a wrong (bad = true) or right credential.
   "quiet" = no NEW administrator expiry (none, or the one the lock already consumed);
   "mono"  = the instants never go backwards. *)
From Coq Require Import List NArith Bool Lia.
Import ListNotations.
Require Import KV.C28.Model KV.C28.Proofs.
Open Scope N_scope.

(* ---- sentence 1: "after a failed attempt the credential is refused until its unlock time" *)

(* The sentence in full, for EVERY lock state s (reachable or not) and every policy: if a
   consultation e fails and arms the lock with unlock time u, then u lies strictly after
   the attempt, not beyond reset_at, and every following consultation at an instant <= u
   (any number of them, wrong or right credential, no new administrator expiry) is refused
   without a credential check and leaves the lock exactly as it is. *)
Theorem C28_locked_until_unlock : forall s e s' c r u l, policy_ok (pol s) = true ->
  attempt s e = (s', Failed) -> st s' = Locked c r u ->
  (forall e2, In e2 l -> ev_ct e2 <= u /\ quiet_for (last_exp s') e2 = true) ->
  ev_ct e < u /\ u <= r /\
  forall ob, In ob (exec s' l) -> ob = (Refused, Locked c r u, last_exp s').
Proof. exact locked_until_unlock. Qed.

(* The same over reachable locks, in the shape of the original sentence: after any history
   l1 and a failing consultation e. *)
Definition C28_full_statement : Prop :=
  forall p l1 e s' c r u l2, policy_ok p = true ->
    attempt (final (new p) l1) e = (s', Failed) -> st s' = Locked c r u ->
    (forall e2, In e2 l2 -> ev_ct e2 <= u /\ quiet_for (last_exp s') e2 = true) ->
    forall ob, In ob (exec s' l2) -> fst (fst ob) = Refused.

Theorem C28_full_statement_holds : C28_full_statement.
Proof.
  intros p l1 e s' c r u l2 Hok Ha Hs Hl ob Hin.
  assert (Hp : policy_ok (pol (final (new p) l1)) = true) by (rewrite final_pol; exact Hok).
  destruct (locked_until_unlock _ e s' c r u l2 Hp Ha Hs Hl) as (_ & _ & H).
  rewrite (H ob Hin). reflexivity.
Qed.

(* any locked state (also one whose reset_at an administrator expiry has pulled in) stays
   refused and unchanged up to min(unlock_at, reset_at) *)
Theorem C28_locked_state_stays_locked : forall s c r u l,
  st s = Locked c r u ->
  (forall e, In e l -> ev_ct e <= N.min u r /\ quiet_for (last_exp s) e = true) ->
  forall ob, In ob (exec s l) -> ob = (Refused, Locked c r u, last_exp s).
Proof. exact (fun s c r u l => locked_until_min l s c r u). Qed.

(* without administrator expiry, every lock that a history produces has unlock_at <= reset_at *)
Theorem C28_unlock_never_beyond_reset : forall p l, quiet_all 0 l = true ->
  lock_wf (st (final (new p) l)).
Proof. intros p l Hq. apply (final_lock_wf l (new p)); [exact I|exact Hq]. Qed.

(* THE DEFECT THIS CHECK FOUND (fixed in /repo commit 5cd0e73).  Before the fix reset_at was
   the bare window end (failure_next_state_prefix), and the same sentence was false: a lock
   whose unlock time lay beyond its window's reset time was re-opened by the window reset.
   Witness: a password credential with 3 failures in the day fails again 2 s before midnight
   UTC (3 s delay => unlock 1 s after midnight, reset at midnight); a consultation AT the
   unlock instant was let through.  Confirmed on the real server before the fix. *)
Definition C28_prefix_statement : Prop :=
  forall p l1 e s' c r u l2, policy_ok p = true ->
    attempt_prefix (final_prefix (new p) l1) e = (s', Failed) -> st s' = Locked c r u ->
    (forall e2, In e2 l2 -> ev_ct e2 <= u /\ quiet_for (last_exp s') e2 = true) ->
    forall ob, In ob (exec_prefix s' l2) -> fst (fst ob) = Refused.

Theorem C28_prefix_refuted : ~ C28_prefix_statement.
Proof.
  intros H.
  pose (t := fun s : N => s * G).
  specialize (H PPassword
    [Ev (t 86380) None true; Ev (t 86382) None true; Ev (t 86384) None true]
    (Ev (t 86398) None true)
    (mk (Locked 4 (t 86400) (t 86401)) PPassword 0) 4 (t 86400) (t 86401)
    [Ev (t 86401) None false] eq_refl).
  assert (H1 : fst (fst (Passed, Init, 0)) = Refused).
  { apply H.
    - vm_compute. reflexivity.
    - reflexivity.
    - intros e2 [<-|[]]. split; [vm_compute; discriminate|reflexivity].
    - vm_compute. left. reflexivity. }
  discriminate H1.
Qed.

(* a wrong credential always arms a lock that ends strictly later than the attempt
   (at least 1 s later below the cap, see C28_next_state_spec) — except for the
   unrestricted (anonymous) policy, which never locks *)
Theorem C28_failure_locks : forall s ct, policy_ok (pol s) = true -> is_valid s = true ->
  (st (record_failure s ct) = Init /\ pol s = PUnrestricted) \/
  exists r u, st (record_failure s ct) = Locked (count_of (st s) + 1) r u /\ ct < u.
Proof. exact rf_state. Qed.

(* failure_next_state meets its specification (window end, delays, cap) for all inputs *)
Theorem C28_next_state_spec : forall p c ct, policy_ok p = true ->
  next_spec p c ct (failure_next_state p c ct) = true.
Proof. exact next_spec_ok. Qed.

(* ---- sentence 1b: "further failures in the same window never shorten the lock" *)

(* Two consecutive failures: the lock armed by a failure has unlock time u1; after any
   number of non-failing consultations during which the lock was never reset, a further
   failure that continues the count (c2 > 1: same window) arms a lock with u2 > u1.
   Needs a monotone clock and no new administrator expiry. *)
Theorem C28_never_shortens : forall s1 c1 r1 u1 l e2 c2 r2 u2 le2,
  policy_ok (pol s1) = true -> st s1 = Locked c1 r1 u1 ->
  mono 0 (l ++ [e2]) = true -> quiet_all (last_exp s1) (l ++ [e2]) = true ->
  (forall ob, In ob (exec s1 l) -> is_failed (fst (fst ob)) = false /\ snd (fst ob) <> Init) ->
  exec (final s1 l) [e2] = [(Failed, Locked c2 r2 u2, le2)] -> 1 < c2 ->
  u1 < u2.
Proof. exact two_failures. Qed.

(* the same over whole histories, in the executable form used on the implementation *)
Theorem C28_never_shortens_history : forall p l, policy_ok p = true ->
  mono 0 l = true -> quiet_all 0 l = true ->
  never_shorter None l (exec (new p) l) = true.
Proof. intros p l Hok Hm Hq. exact (never_shorter_inv l (new p) 0 None Hok I Hm Hq). Qed.

(* ---- sentence 2: "the count resets only after the window's reset time or an
        administrator-set expiry, never because of a successful login" *)

(* a consultation with a RIGHT credential changes the lock exactly as the passage of time
   alone does (it is indistinguishable from a mere validity check) *)
Theorem C28_success_does_not_reset : forall s e, ev_bad e = false ->
  fst (attempt s e) = apply_time_step s (ev_ct e) (ev_exp e).
Proof.
  intros s e Hb. unfold attempt. rewrite Hb. destruct (is_valid _); reflexivity.
Qed.

(* whatever the outcome, the failure count decreases only if the instant is after the
   lock's reset_at, or after a new administrator expiry applied to a locked credential *)
Theorem C28_reset_only_after_window : forall s e,
  policy_ok (pol s) = true -> (pol s = PUnrestricted -> st s = Init) ->
  count_of (st (fst (attempt s e))) < count_of (st s) ->
  reset_cond (st s) (last_exp s) e = true.
Proof. exact count_drop. Qed.

(* reset_at never lies before the end of the window (UTC day / TOTP step) of the failure,
   and at or beyond the cap the lock lasts exactly until that window end *)
Theorem C28_reset_at_covers_window : forall p P cap c ct, limit_of p = Some (P, cap) ->
  exists r u, failure_next_state p c ct = Locked c r u /\ (ct / P + 1) * P <= r /\ ct < u /\
              u <= r /\ (cap <= c -> u = (ct / P + 1) * P /\ r = u).
Proof. intros p P cap c ct H. destruct (fns_window p P cap c ct H) as (_ & _ & H'). exact H'. Qed.

(* ---- sentence 3: the rate limits *)

(* index of the UTC day / TOTP step of an instant, as used below *)
Theorem C28_day_index : forall t, t / (ONEDAY * G) = secs t / ONEDAY.
Proof. exact day_index. Qed.
Theorem C28_step_index : forall step t, 0 < step -> t / (step * G) = secs t / step.
Proof. exact step_index. Qed.

(* password-only credential: for EVERY history of consultations (any length, any instants
   that do not go backwards, wrong and right credentials in any order, no new
   administrator expiry) at most 100 failures are recorded in any UTC day *)
Theorem C28_password_100_per_day : forall l day,
  mono 0 l = true -> quiet_all 0 l = true ->
  failed_in (ONEDAY * G) day l (exec (new PPassword) l) <= 100.
Proof. intros l day. exact (rate_new PPassword (ONEDAY * G) 100 eq_refl day l). Qed.

(* TOTP-protected credential with step `step` seconds: at most 3 failures per TOTP step *)
Theorem C28_totp_3_per_step : forall step l k, 0 < step ->
  mono 0 l = true -> quiet_all 0 l = true ->
  failed_in (step * G) k l (exec (new (PTotp step)) l) <= 3.
Proof.
  intros step l k Hs. apply (rate_new (PTotp step) (step * G) 3).
  cbn [limit_of]. replace (step =? 0) with false by (symmetry; apply N.eqb_neq; lia). reflexivity.
Qed.

(* ---- which policy a credential gets (Credential::softlock_policy) *)

(* Any credential that offers a TOTP factor — whatever else it carries: security keys,
   backup codes — gets the per-step policy, with the SMALLEST step of its TOTPs. *)
Theorem C28_totp_factor_gets_totp_policy : forall s r keys backup,
  exists m, softlock_policy (SMfa (s :: r) keys backup) = PTotp m /\
            In m (s :: r) /\ forall x, In x (s :: r) -> m <= x.
Proof.
  intros s r keys backup. exists (min_step (s :: r)). split; [reflexivity|apply min_step_spec].
Qed.

(* a credential whose only factor is a password (typed, generated, or an MFA shell without
   TOTP and security key) gets the per-day policy; the 1 s webauthn policy is given only to
   credentials without a TOTP factor that have a security key, and to passkeys *)
Theorem C28_password_only_gets_password : forall backup,
  softlock_policy SPassword = PPassword /\ softlock_policy SGenerated = PPassword /\
  softlock_policy (SMfa [] 0 backup) = PPassword.
Proof. intros backup. repeat split; reflexivity. Qed.

Theorem C28_webauthn_policy_only_without_totp : forall c,
  softlock_policy c = PWebauthn ->
  (exists n, c = SPasskey n) \/ (exists keys backup, c = SMfa [] keys backup /\ 0 < keys).
Proof.
  intros [| |steps keys b|n] H; try discriminate; [|left; eexists; reflexivity].
  cbn [softlock_policy] in H. destruct steps as [|s r]; cbn [negb] in H; [|discriminate].
  destruct (keys =? 0) eqn:E; [discriminate|]. apply N.eqb_neq in E.
  right. exists keys, b. split; [reflexivity|lia].
Qed.

(* the selected policy meets the selection spec for every shape *)
Theorem C28_policy_selection_spec : forall c, policy_spec c (softlock_policy c) = true.
Proof. exact policy_spec_ok. Qed.

(* hence: a credential offering a TOTP factor (all steps > 0) records at most 3 failures in
   any window of its smallest TOTP step, and a password-only credential at most 100 per UTC
   day — for the lock that the server creates with the SELECTED policy *)
Theorem C28_totp_credential_3_per_step : forall s r keys backup l k,
  (forall x, In x (s :: r) -> 0 < x) ->
  mono 0 l = true -> quiet_all 0 l = true ->
  failed_in (min_step (s :: r) * G) k l
    (exec (new (softlock_policy (SMfa (s :: r) keys backup))) l) <= 3.
Proof.
  intros s r keys backup l k Hpos Hm Hq.
  change (softlock_policy (SMfa (s :: r) keys backup)) with (PTotp (min_step (s :: r))).
  apply C28_totp_3_per_step; [|exact Hm|exact Hq].
  apply Hpos. apply min_step_spec.
Qed.

Theorem C28_password_credential_100_per_day : forall c l day,
  c = SPassword \/ c = SGenerated \/ (exists b, c = SMfa [] 0 b) ->
  mono 0 l = true -> quiet_all 0 l = true ->
  failed_in (ONEDAY * G) day l (exec (new (softlock_policy c)) l) <= 100.
Proof.
  intros c l day [->|[->|[b ->]]] Hm Hq; apply C28_password_100_per_day; assumption.
Qed.

(* ---- bridge: a run without disagreements transfers everything to the observed cases *)
Theorem C28_agree_implies_property : forall c, case_ok c = true -> agree c = true ->
  pcheck c = true.
Proof. exact agree_property. Qed.
