(* KV.C28.Model — credential soft lock (server/lib/src/credential/softlock.rs) and the
   discipline with which the server consults it (idm/server.rs auth Begin/Cred,
   auth_with_unix_pass; idm/reauth.rs).  Executable definitions only.

   Time: a Rust `Duration` is represented by its total number of NANOSECONDS (N).
   `Duration::as_secs` = t / G, `Duration::from_secs s` = s * G, Duration comparison =
   comparison of the nanosecond totals.  u64 overflow is not modelled (assumption). *)
From Coq Require Import List NArith Bool.
Import ListNotations.
Open Scope N_scope.

Definition G : N := 1000000000.          (* nanoseconds per second *)
Definition ONEDAY : N := 86400.          (* const ONEDAY: u64 = 86400 *)
Definition secs (t : N) : N := t / G.    (* Duration::as_secs *)
Definition of_secs (s : N) : N := s * G. (* Duration::from_secs *)

Inductive policy := PPassword | PTotp (step : N) | PWebauthn | PUnrestricted.

Inductive lstate :=
| Init
| Locked (count reset_at unlock_at : N)
| Unlocked (count reset_at : N).

(* `let next_end = ct.as_secs() + w; let rem = next_end % w; from_secs(next_end - rem)` *)
Definition window_end (w ct : N) : N :=
  let next_end := secs ct + w in of_secs (next_end - next_end mod w).

(* CredSoftLockPolicy::failure_next_state (softlock.rs:77) as repaired by /repo commit
   5cd0e73: `let unlock_at = if .. {..}; Locked { count, reset_at: reset_at.max(unlock_at), unlock_at }` *)
Definition failure_next_state (p : policy) (count ct : N) : lstate :=
  match p with
  | PPassword =>
      let reset_at := window_end ONEDAY ct in
      let unlock_at :=
        if count <? 3 then ct + of_secs 1
        else if count <? 9 then ct + of_secs 3
        else if count <? 25 then ct + of_secs 5
        else if count <? 100 then ct + of_secs 10
        else reset_at in
      Locked count (N.max reset_at unlock_at) unlock_at
  | PTotp step =>
      let reset_at := window_end step ct in
      let unlock_at := if 3 <=? count then reset_at else ct + of_secs 1 in
      Locked count (N.max reset_at unlock_at) unlock_at
  | PWebauthn => Locked count (ct + of_secs 1) (ct + of_secs 1)
  | PUnrestricted => Init
  end.

(* PRE-FIX behaviour (the tree before 5cd0e73), kept ONLY to document the defect
   (C28_prefix_refuted): reset_at was the bare window end, so a lock whose unlock time lay
   beyond it was re-opened by the window reset. Not used by agree/pcheck. *)
Definition failure_next_state_prefix (p : policy) (count ct : N) : lstate :=
  match p with
  | PPassword =>
      let reset_at := window_end ONEDAY ct in
      if count <? 3 then Locked count reset_at (ct + of_secs 1)
      else if count <? 9 then Locked count reset_at (ct + of_secs 3)
      else if count <? 25 then Locked count reset_at (ct + of_secs 5)
      else if count <? 100 then Locked count reset_at (ct + of_secs 10)
      else Locked count reset_at reset_at
  | PTotp step =>
      let reset_at := window_end step ct in
      if 3 <=? count then Locked count reset_at reset_at
      else Locked count reset_at (ct + of_secs 1)
  | PWebauthn => Locked count (ct + of_secs 1) (ct + of_secs 1)
  | PUnrestricted => Init
  end.

(* struct CredSoftLock { state, policy, last_expire_at } *)
Record slock := mk { st : lstate; pol : policy; last_exp : N }.

Definition new (p : policy) : slock := mk Init p 0.

(* ------------------------------------------------------------------ policy selection
   Credential::softlock_policy (server/lib/src/credential/mod.rs:782) as a function of the
   credential's shape, i.e. the factors it offers. *)
Definition TOTP_DEFAULT_STEP : N := 30.

Inductive cshape :=
| SPassword                                   (* CredentialType::Password *)
| SGenerated                                  (* CredentialType::GeneratedPassword *)
| SMfa (totp_steps : list N) (security_keys : N) (backup_codes : bool)
                                              (* CredentialType::PasswordMfa(pw, totp, wan, backup) *)
| SPasskey (passkeys : N).                    (* CredentialType::Webauthn *)

(* `totp.iter().map(|(_, t)| t.step).min().unwrap_or(TOTP_DEFAULT_STEP)` *)
Definition min_step (steps : list N) : N :=
  match steps with [] => TOTP_DEFAULT_STEP | s :: r => fold_left N.min r s end.

Definition softlock_policy (c : cshape) : policy :=
  match c with
  | SPassword | SGenerated => PPassword
  | SMfa steps keys _ =>
      if negb (match steps with [] => true | _ => false end) then PTotp (min_step steps)
      else if negb (keys =? 0) then PWebauthn
      else PPassword
  | SPasskey _ => PWebauthn
  end.

(* spec, stated on the OBSERVED policy and without the selection order of the code: a
   credential that offers a TOTP factor is limited per TOTP step, with the smallest step of
   its TOTPs; a credential whose only factor is a password is limited per day; only
   credentials without password-guessable or code-guessable factor (passkeys) or with a
   security key and no TOTP get the 1 s webauthn policy. *)
Definition policy_spec (c : cshape) (impl : policy) : bool :=
  match c with
  | SPassword | SGenerated => match impl with PPassword => true | _ => false end
  | SMfa steps keys _ =>
      match steps with
      | _ :: _ =>
          match impl with
          | PTotp m => existsb (N.eqb m) steps && forallb (N.leb m) steps
          | _ => false
          end
      | [] =>
          if keys =? 0 then match impl with PPassword => true | _ => false end
          else match impl with PWebauthn => true | _ => false end
      end
  | SPasskey _ => match impl with PWebauthn => true | _ => false end
  end.

(* CredSoftLock::apply_time_step (softlock.rs:189) *)
Definition apply_time_step (s : slock) (ct : N) (expire_at : option N) : slock :=
  match st s with
  | Init => s
  | Locked count reset_at unlock_at =>
      let '(reset_at', le') :=
        match expire_at with
        | Some expiry =>
            if negb (last_exp s =? expiry)
            then ((if expiry <? reset_at then expiry else reset_at), expiry)
            else (reset_at, last_exp s)
        | None => (reset_at, last_exp s)
        end in
      mk (if reset_at' <? ct then Init
          else if unlock_at <? ct then Unlocked count reset_at'
          else Locked count reset_at' unlock_at)
         (pol s) le'
  | Unlocked count reset_at =>
      if reset_at <? ct then mk Init (pol s) (last_exp s) else s
  end.

(* CredSoftLock::is_valid *)
Definition is_valid (s : slock) : bool :=
  match st s with Locked _ _ _ => false | _ => true end.

(* CredSoftLock::record_failure (softlock.rs:246) *)
Definition record_failure (s : slock) (ct : N) : slock :=
  mk (match st s with
      | Init => failure_next_state (pol s) 1 ct
      | Locked count _ _ => failure_next_state (pol s) (count + 1) ct
      | Unlocked count _ => failure_next_state (pol s) (count + 1) ct
      end) (pol s) (last_exp s).

(* ------------------------------------------------------------------ raw operations *)
Inductive op := OStep (ct : N) (expire_at : option N) | OFail (ct : N).

Definition apply_op (s : slock) (o : op) : slock :=
  match o with
  | OStep ct e => apply_time_step s ct e
  | OFail ct => record_failure s ct
  end.

Fixpoint run_ops (s : slock) (l : list op) : list slock :=
  match l with
  | [] => []
  | o :: r => let s' := apply_op s o in s' :: run_ops s' r
  end.

(* ------------------------------------------------------------------ server discipline
   One consultation of the lock by the server at time ct:
     slock.apply_time_step(ct, expire); if slock.is_valid() { check the credential;
     if it was wrong { slock.record_failure(ct) } } else { refuse without checking }
   (server.rs:1347-1349 Begin [no credential: bad=false], 1405-1433 Cred [expire=None],
    1520-1535 auth_with_unix_pass, reauth.rs:115-116). *)
Record ev := Ev { ev_ct : N; ev_exp : option N; ev_bad : bool }.

Inductive outcome := Refused | Failed | Passed.

Definition attempt (s : slock) (e : ev) : slock * outcome :=
  let s1 := apply_time_step s (ev_ct e) (ev_exp e) in
  if is_valid s1
  then if ev_bad e then (record_failure s1 (ev_ct e), Failed) else (s1, Passed)
  else (s1, Refused).

(* observation after every event: outcome, lock state, last_expire_at *)
Definition obs := (outcome * lstate * N)%type.

Fixpoint exec (s : slock) (l : list ev) : list obs :=
  match l with
  | [] => []
  | e :: r => let '(s', o) := attempt s e in (o, st s', last_exp s') :: exec s' r
  end.

(* the same discipline over the PRE-FIX failure_next_state (documentation of the defect only) *)
Definition record_failure_prefix (s : slock) (ct : N) : slock :=
  mk (match st s with
      | Init => failure_next_state_prefix (pol s) 1 ct
      | Locked count _ _ => failure_next_state_prefix (pol s) (count + 1) ct
      | Unlocked count _ => failure_next_state_prefix (pol s) (count + 1) ct
      end) (pol s) (last_exp s).
Definition attempt_prefix (s : slock) (e : ev) : slock * outcome :=
  let s1 := apply_time_step s (ev_ct e) (ev_exp e) in
  if is_valid s1
  then if ev_bad e then (record_failure_prefix s1 (ev_ct e), Failed) else (s1, Passed)
  else (s1, Refused).
Fixpoint exec_prefix (s : slock) (l : list ev) : list obs :=
  match l with
  | [] => []
  | e :: r => let '(s', o) := attempt_prefix s e in (o, st s', last_exp s') :: exec_prefix s' r
  end.
Fixpoint final_prefix (s : slock) (l : list ev) : slock :=
  match l with [] => s | e :: r => final_prefix (fst (attempt_prefix s e)) r end.

(* ------------------------------------------------------------------ spec-level predicates
   (evaluated on OBSERVED outputs; they do not call the functions above) *)
Definition count_of (x : lstate) : N :=
  match x with Init => 0 | Locked c _ _ => c | Unlocked c _ => c end.

Definition is_refused (o : outcome) : bool := match o with Refused => true | _ => false end.
Definition is_failed (o : outcome) : bool := match o with Failed => true | _ => false end.

(* no NEW administrator expiry: none given, or the one already consumed *)
Definition quiet_for (le : N) (e : ev) : bool :=
  match ev_exp e with None => true | Some x => x =? le end.

Fixpoint quiet_all (le : N) (l : list ev) : bool :=
  match l with [] => true | e :: r => quiet_for le e && quiet_all le r end.

(* times never go backwards, starting from now *)
Fixpoint mono (now : N) (l : list ev) : bool :=
  match l with [] => true | e :: r => (now <=? ev_ct e) && mono (ev_ct e) r end.

(* number of credential failures (outcome Failed) at times in window k of period P ns *)
Fixpoint failed_in (P k : N) (l : list ev) (os : list obs) : N :=
  match l, os with
  | e :: r, (o, _, _) :: os' =>
      (if is_failed o && (ev_ct e / P =? k) then 1 else 0) + failed_in P k r os'
  | _, _ => 0
  end.

(* the rate limit of a policy: (window period in ns, max failures per window) *)
Definition limit_of (p : policy) : option (N * N) :=
  match p with
  | PPassword => Some (ONEDAY * G, 100)
  | PTotp step => if step =? 0 then None else Some (step * G, 3)
  | _ => None
  end.

(* the same count over precomputed window indices (one division per event) *)
Fixpoint failed_idx (k : N) (ks : list N) (os : list obs) : N :=
  match ks, os with
  | k' :: r, (o, _, _) :: os' =>
      (if is_failed o && (k' =? k) then 1 else 0) + failed_idx k r os'
  | _, _ => 0
  end.

(* P2: at most cap failures in every window that contains an event *)
Definition rate_ok (p : policy) (l : list ev) (os : list obs) : bool :=
  match limit_of p with
  | Some (P, cap) =>
      if mono 0 l && quiet_all 0 l
      then let ks := map (fun e => ev_ct e / P) l in
           forallb (fun k => failed_idx k ks os <=? cap) ks
      else true
  | None => true
  end.

(* P1: after a failure the credential is refused at every following consultation up to
   (and including) the instant unlock_at, as long as no new administrator expiry arrives. *)
Fixpoint refused_while (le lim : N) (l : list ev) (os : list obs) : bool :=
  match l, os with
  | e :: r, (o, _, _) :: os' =>
      if (ev_ct e <=? lim) && quiet_for le e
      then is_refused o && refused_while le lim r os'
      else true
  | _, _ => true
  end.

Fixpoint locked_ok (l : list ev) (os : list obs) : bool :=
  match l, os with
  | e :: r, (o, x, le) :: os' =>
      (match o, x with
       | Failed, Locked _ ra ua =>
           (ev_ct e <? ua) && (ua <=? ra) && refused_while le ua r os'
       | Failed, Init => true          (* unrestricted credential: nothing is locked *)
       | Failed, Unlocked _ _ => false (* a failure always locks *)
       | _, _ => true
       end) && locked_ok r os'
  | _, _ => true
  end.

(* P3: within one window (the count continues: no Init state in between and the failure
   is not the first of a fresh window) a later failure never brings the unlock time
   forward.  h = unlock_at of the latest lock of the current window. *)
Fixpoint never_shorter (h : option N) (l : list ev) (os : list obs) : bool :=
  match l, os with
  | e :: r, (o, x, _) :: os' =>
      match x with
      | Init => never_shorter None r os'
      | Locked c _ ua =>
          if is_failed o
          then (if c <=? 1 then true   (* first failure of a fresh window *)
                else match h with Some u0 => u0 <? ua | None => true end)
               && never_shorter (Some ua) r os'
          else never_shorter h r os'
      | Unlocked _ _ => never_shorter h r os'
      end
  | _, _ => true
  end.

(* P4: the failure count goes down only when the window's reset time has passed or a new
   administrator expiry has passed — whatever the outcome (a success never resets) — and a
   failure makes it at least 1. *)
Definition reset_cond (pre : lstate) (le : N) (e : ev) : bool :=
  match pre with
  | Init => false
  | Locked _ ra _ | Unlocked _ ra =>
      (ra <? ev_ct e) ||
      match pre, ev_exp e with
      | Locked _ _ _, Some x => negb (x =? le) && (x <? ev_ct e)
      | _, _ => false
      end
  end.

Fixpoint count_ok (unrestricted : bool) (pre : lstate) (le : N) (l : list ev) (os : list obs) : bool :=
  match l, os with
  | e :: r, (o, x, le') :: os' =>
      ((count_of pre <=? count_of x) || reset_cond pre le e) &&
      (negb (is_failed o) || unrestricted || (1 <=? count_of x)) &&
      count_ok unrestricted x le' r os'
  | _, _ => true
  end.

Definition is_unrestricted (p : policy) : bool :=
  match p with PUnrestricted => true | _ => false end.

Definition rest_ok (p : policy) (l : list ev) (os : list obs) : bool :=
  Nat.eqb (length l) (length os) && rate_ok p l os &&
  (if mono 0 l && quiet_all 0 l then never_shorter None l os else true) &&
  count_ok (is_unrestricted p) Init 0 l os.

(* ------------------------------------------------------------------ failure_next_state spec
   stated without the code's `x - x % w` formula: the window of instant ct ends at
   (secs ct / w + 1) * w seconds; reset_at is that end, pushed out to unlock_at if the lock
   lasts longer (so that unlock_at <= reset_at always). *)
Definition wend (w ct : N) : N := (secs ct / w + 1) * (w * G).
Definition next_spec (p : policy) (count ct : N) (x : lstate) : bool :=
  match p, x with
  | PUnrestricted, Init => true
  | PUnrestricted, _ => false
  | PWebauthn, Locked c ra ua => (c =? count) && (ua =? ct + G) && (ra =? ua)
  | PPassword, Locked c ra ua =>
      (c =? count) && (ct <? ua) && (ua <=? ra) && (ra =? N.max (wend ONEDAY ct) ua) &&
      (if 100 <=? count then ua =? wend ONEDAY ct else (ct + G <=? ua) && (ua <=? ct + 10 * G))
  | PTotp step, Locked c ra ua =>
      (c =? count) && (ct <? ua) && (ua <=? ra) && (ra =? N.max (wend step ct) ua) &&
      (if 3 <=? count then ua =? wend step ct else ua =? ct + G)
  | _, _ => false
  end.

(* ------------------------------------------------------------------ correspondence *)
Definition lstate_eqb (a b : lstate) : bool :=
  match a, b with
  | Init, Init => true
  | Locked c r u, Locked c' r' u' => (c =? c') && (r =? r') && (u =? u')
  | Unlocked c r, Unlocked c' r' => (c =? c') && (r =? r')
  | _, _ => false
  end.
Definition outcome_eqb (a b : outcome) : bool :=
  match a, b with
  | Refused, Refused | Failed, Failed | Passed, Passed => true
  | _, _ => false
  end.
Definition obs_eqb (a b : obs) : bool :=
  let '(o, x, le) := a in let '(o', x', le') := b in
  outcome_eqb o o' && lstate_eqb x x' && (le =? le').
Fixpoint list_eqb {A} (f : A -> A -> bool) (a b : list A) : bool :=
  match a, b with
  | [], [] => true
  | x :: a', y :: b' => f x y && list_eqb f a' b'
  | _, _ => false
  end.
Definition slock_obs (s : slock) : lstate * N := (st s, last_exp s).
Definition sobs_eqb (a b : lstate * N) : bool := lstate_eqb (fst a) (fst b) && (snd a =? snd b).

(* src: 0 = discipline run directly on the real CredSoftLock (hook); 1 = real server,
   auth Init/Begin/Cred; 2 = real server, auth_unix; 3 = real server, password+TOTP *)
Definition policy_eqb (a b : policy) : bool :=
  match a, b with
  | PPassword, PPassword | PWebauthn, PWebauthn | PUnrestricted, PUnrestricted => true
  | PTotp x, PTotp y => x =? y
  | _, _ => false
  end.

(* CPolicy: the real softlock_policy() on a credential of the given shape.
   CShapeEvents: a real IdmServer account whose primary credential has the given shape, driven
   through the auth path; the lock must behave as the policy REQUIRED for that shape. *)
Inductive case :=
| CPolicy (c : cshape) (impl : policy)
| CShapeEvents (src : N) (c : cshape) (evs : list ev) (impl : list obs)
| CNext (p : policy) (count ct : N) (impl : lstate)
| CRaw (p : policy) (s0 : lstate) (le0 : N) (ops : list op) (impl : list (lstate * N))
| CEvents (src : N) (p : policy) (evs : list ev) (impl : list obs).

Definition agree (c : case) : bool :=
  match c with
  | CPolicy c impl => policy_eqb (softlock_policy c) impl
  | CShapeEvents _ c evs impl => list_eqb obs_eqb (exec (new (softlock_policy c)) evs) impl
  | CNext p count ct impl => lstate_eqb (failure_next_state p count ct) impl
  | CRaw p s0 le0 ops impl =>
      list_eqb sobs_eqb (map slock_obs (run_ops (mk s0 p le0) ops)) impl
  | CEvents _ p evs impl => list_eqb obs_eqb (exec (new p) evs) impl
  end.

(* raw traces start in ARBITRARY lock states (also ones no history produces, e.g. with
   reset_at < unlock_at): an observed Locked state stays Locked under a quiet time step that
   is not after min unlock_at reset_at — the local form of P1 on arbitrary states *)
Fixpoint raw_ok (pre : lstate) (le : N) (ops : list op) (os : list (lstate * N)) : bool :=
  match ops, os with
  | o :: r, (x, le') :: os' =>
      (match o, pre with
       | OStep ct e, Locked c ra ua =>
           if (ct <=? N.min ua ra) && (match e with None => true | Some y => y =? le end)
           then lstate_eqb x pre else true
       | OFail ct, _ => true
       | _, _ => true
       end) && raw_ok x le' r os'
  | _, _ => true
  end.

Definition pcheck (c : case) : bool :=
  match c with
  | CPolicy c impl => policy_spec c impl
  | CShapeEvents _ c evs impl =>
      (* the rate bound of the factors the credential offers: evaluated with the policy the
         spec requires for the shape (for a TOTP factor: PTotp of the smallest step) *)
      let p := match c with
               | SMfa (s :: r) _ _ => PTotp (fold_left N.min r s)
               | SMfa [] 0 _ | SPassword | SGenerated => PPassword
               | _ => PWebauthn
               end in
      locked_ok evs impl && rest_ok p evs impl
  | CNext p count ct impl => next_spec p count ct impl
  | CRaw p s0 le0 ops impl => raw_ok s0 le0 ops impl
  | CEvents _ p evs impl => locked_ok evs impl && rest_ok p evs impl
  end.

(* no known-finding class: the early re-opening found by this check was fixed in /repo
   commit 5cd0e73 *)
Definition known (_ : case) : bool := false.
