(* KV.C37.Model — credential reset links (intent tokens) and the update sessions they start.
   Executable definitions only.  Transcribes, from server/lib/src/idm/credupdatesession.rs:
     build_credential_update_intent   (OInit)      clamp of the ttl, removal of the account's expired links
     exchange_intent_credential_update (OExchange) Consumed / expired => reject, InProgress => supersede
     create_credupdate_session                     prune expired sessions, store session, token = (sid, ct+900s)
     credential_primary_set_password  (OSetPw)     get_current_session: ttl check, then lookup by session id
     credential_update_commit_common               ttl check, then remove the session from the map
     commit_credential_update         (OCommit)    can_commit; InProgress with the SAME session id => Consumed
     cancel_credential_update         (OCancel)    InProgress with the same session id => Valid
     revoke_credential_update_intent  (ORevoke)    Valid / InProgress => Consumed, otherwise EmptyRequest
   and the state IntentTokenState {Valid, InProgress, Consumed} of server/lib/src/value.rs.

   A failed operation leaves the state unchanged (the caller drops the write transaction; both the
   database and the BptreeMap of sessions are transactional).  Session ids are
   uuid(ct + 900 s, 4 random bytes): the model uses a fresh counter [nsid] for the random part
   (assumption: no collision of the random bytes for two exchanges at the same nanosecond).
   Credentials are abstracted to an id: 0 = no primary credential, n > 0 = password number n. *)
From Coq Require Import List NArith Bool.
Import ListNotations.
Open Scope N_scope.

Definition NS : N := 1000000000.
Definition SESSION_TTL : N := 900 * NS.          (* MAXIMUM_CRED_UPDATE_TTL *)
Definition MIN_INTENT_TTL : N := 300 * NS.
Definition DEFAULT_INTENT_TTL : N := 3600 * NS.
Definition MAX_INTENT_TTL : N := 86400 * NS.

(* max_ttl.unwrap_or(DEFAULT).clamp(MIN, MAX) *)
Definition clamp_ttl (t : option N) : N :=
  let m := match t with Some v => v | None => DEFAULT_INTENT_TTL end in
  if m <? MIN_INTENT_TTL then MIN_INTENT_TTL else if MAX_INTENT_TTL <? m then MAX_INTENT_TTL else m.

Inductive lstate :=
| LValid (m : N)
| LInProgress (m sid sttl : N)
| LConsumed (m : N).

Definition ls_mttl (x : lstate) : N :=
  match x with LValid m => m | LInProgress m _ _ => m | LConsumed m => m end.

Record link := mklink { l_id : N; l_acct : N; l_st : lstate }.
(* an update session held in the server's memory; s_staged = the primary credential it would write *)
Record sess := mksess { s_id : N; s_exp : N; s_link : N; s_acct : N; s_staged : N }.

Record st := mkst {
  links : list link;        (* all reset links stored on the accounts, ascending id *)
  sessions : list sess;
  cred0 : N; cred1 : N;     (* stored primary credential of account 0 / any other account *)
  nlink : N;                (* next link id *)
  nsid : N                  (* next session id *)
}.

Definition init (c0 c1 : N) : st := mkst [] [] c0 c1 0 0.

Inductive err :=
| EWait | ESessionExpired | EInvalidState | EInconsistent | EConflict | EInvalidated
| EEmptyRequest | EOther.
Inductive res := ROk | RIntent (exp : N) | RTok (sid mttl : N) | RErr (e : err).

Inductive op :=
| OInit (acct : N) (ttl : option N) (ct : N)
| OExchange (k : N) (ct : N)
| OSetPw (sid mttl : N) (pw : N) (ct : N)
| OCommit (sid mttl : N) (ct : N)
| OCancel (sid mttl : N) (ct : N)
| ORevoke (k : N) (ct : N).

Definition get_cred (a : N) (s : st) : N := if a =? 0 then cred0 s else cred1 s.
Definition set_cred (a v : N) (s : st) : N * N :=
  if a =? 0 then (v, cred1 s) else (cred0 s, v).

Definition find_link (k : N) (ls : list link) : option link := find (fun l => l_id l =? k) ls.
Definition set_link (k : N) (x : lstate) (ls : list link) : list link :=
  map (fun l => if l_id l =? k then mklink (l_id l) (l_acct l) x else l) ls.
Definition find_sess (sid : N) (ss : list sess) : option sess := find (fun x => s_id x =? sid) ss.
Definition del_sess (sid : N) (ss : list sess) : list sess := filter (fun x => negb (s_id x =? sid)) ss.
Definition stage (sid pw : N) (ss : list sess) : list sess :=
  map (fun x => if s_id x =? sid then mksess (s_id x) (s_exp x) (s_link x) (s_acct x) pw else x) ss.

Definition fail (s : st) (e : err) : st * res := (s, RErr e).

Definition step (s : st) (o : op) : st * res :=
  match o with
  | OInit a ttl ct =>
      let m := ct + clamp_ttl ttl in
      (* "Remove any old credential update intents": ct >= max_ttl, same account *)
      let keep := filter (fun l => negb ((l_acct l =? a) && (ls_mttl (l_st l) <=? ct))) (links s) in
      (mkst (keep ++ [mklink (nlink s) a (LValid m)]) (sessions s) (cred0 s) (cred1 s)
            (nlink s + 1) (nsid s), RIntent m)
  | OExchange k ct =>
      match find_link k (links s) with
      | None => fail s EWait
      | Some l =>
          match l_st l with
          | LConsumed _ => fail s ESessionExpired
          | LInProgress m _ _ | LValid m =>
              if m <=? ct then fail s ESessionExpired
              else
                let sid := nsid s in
                let ex := ct + SESSION_TTL in
                (* expire_credential_update_sessions(ct): split_off_lt(uuid(ct, _)) *)
                let live := filter (fun x => negb (s_exp x <? ct)) (sessions s) in
                (mkst (set_link k (LInProgress m sid ex) (links s))
                      (live ++ [mksess sid ex k (l_acct l) (get_cred (l_acct l) s)])
                      (cred0 s) (cred1 s) (nlink s) (nsid s + 1), RTok sid ex)
          end
      end
  | OSetPw sid mttl pw ct =>
      if mttl <=? ct then fail s ESessionExpired
      else match find_sess sid (sessions s) with
           | None => fail s EInvalidState
           | Some _ => (mkst (links s) (stage sid pw (sessions s)) (cred0 s) (cred1 s) (nlink s) (nsid s), ROk)
           end
  | OCommit sid mttl ct =>
      if mttl <=? ct then fail s ESessionExpired
      else match find_sess sid (sessions s) with
           | None => fail s EInvalidState
           | Some x =>
               if s_staged x =? 0 then fail s EInconsistent      (* can_commit: NoValidCredentials *)
               else match find_link (s_link x) (links s) with
                    | Some l =>
                        match l_st l with
                        | LInProgress m sid' _ =>
                            if sid' =? sid then
                              let '(c0, c1) := set_cred (s_acct x) (s_staged x) s in
                              (mkst (set_link (s_link x) (LConsumed m) (links s))
                                    (del_sess sid (sessions s)) c0 c1 (nlink s) (nsid s), ROk)
                            else fail s EConflict
                        | _ => fail s EInvalidated
                        end
                    | None => fail s EInvalidated
                    end
           end
  | OCancel sid mttl ct =>
      if mttl <=? ct then fail s ESessionExpired
      else match find_sess sid (sessions s) with
           | None => fail s EInvalidState
           | Some x =>
               match find_link (s_link x) (links s) with
               | Some l =>
                   match l_st l with
                   | LInProgress m sid' _ =>
                       if sid' =? sid then
                         (mkst (set_link (s_link x) (LValid m) (links s))
                               (del_sess sid (sessions s)) (cred0 s) (cred1 s) (nlink s) (nsid s), ROk)
                       else fail s EInvalidState
                   | _ => fail s EInvalidState
                   end
               | None => fail s EInvalidState
               end
           end
  | ORevoke k _ =>
      match find_link k (links s) with
      | Some l =>
          match l_st l with
          | LConsumed _ => fail s EEmptyRequest
          | LInProgress m _ _ | LValid m =>
              (mkst (set_link k (LConsumed m) (links s)) (sessions s) (cred0 s) (cred1 s) (nlink s) (nsid s), ROk)
          end
      | None => fail s EEmptyRequest
      end
  end.

Fixpoint run (s : st) (ops : list op) : st :=
  match ops with [] => s | o :: r => run (fst (step s o)) r end.

(* the labelled trace: every op with its result and the state it was applied to *)
Fixpoint trace (s : st) (ops : list op) : list (st * op * res) :=
  match ops with
  | [] => []
  | o :: r => (s, o, snd (step s o)) :: trace (fst (step s o)) r
  end.

(* ------------------------------------------------------------------ correspondence *)
(* what the harness reads back from the two account entries after every operation *)
Definition view := (list (N * N * lstate) * N * N)%type.
Definition view_of (s : st) : view :=
  (map (fun l => (l_id l, l_acct l, l_st l)) (links s), cred0 s, cred1 s).

Inductive case :=
| CHist (c0 c1 : N) (steps : list (op * res * view))
| CClamp (ttl : option N) (ct out : N).

Definition lstate_eqb (a b : lstate) : bool :=
  match a, b with
  | LValid m, LValid m' => m =? m'
  | LInProgress m i t, LInProgress m' i' t' => (m =? m') && (i =? i') && (t =? t')
  | LConsumed m, LConsumed m' => m =? m'
  | _, _ => false
  end.
Definition err_code (e : err) : N :=
  match e with
  | EWait => 0 | ESessionExpired => 1 | EInvalidState => 2 | EInconsistent => 3
  | EConflict => 4 | EInvalidated => 5 | EEmptyRequest => 6 | EOther => 7
  end.
Definition res_eqb (a b : res) : bool :=
  match a, b with
  | ROk, ROk => true
  | RIntent e, RIntent e' => e =? e'
  | RTok i m, RTok i' m' => (i =? i') && (m =? m')
  | RErr e, RErr e' => err_code e =? err_code e'
  | _, _ => false
  end.
Fixpoint links_eqb (a b : list (N * N * lstate)) : bool :=
  match a, b with
  | [], [] => true
  | (i, c, x) :: ra, (i', c', x') :: rb => (i =? i') && (c =? c') && lstate_eqb x x' && links_eqb ra rb
  | _, _ => false
  end.
Definition view_eqb (a b : view) : bool :=
  let '(la, a0, a1) := a in let '(lb, b0, b1) := b in
  links_eqb la lb && (a0 =? b0) && (a1 =? b1).

Fixpoint hist_agree (s : st) (steps : list (op * res * view)) : bool :=
  match steps with
  | [] => true
  | (o, r, v) :: rest =>
      let '(s1, r1) := step s o in
      res_eqb r1 r && view_eqb (view_of s1) v && hist_agree s1 rest
  end.

Definition agree (c : case) : bool :=
  match c with
  | CHist c0 c1 steps => hist_agree (init c0 c1) steps
  | CClamp ttl ct out => out =? ct + clamp_ttl ttl
  end.

(* ------------------------------------------------------------------ the property as a monitor
   An independent bookkeeping over the implementation's observations (no link state machine):
   per link (numbered in order of the successful OInit results): account, announced expiry,
   whether a commit was already accepted, the session returned by the latest accepted exchange;
   plus which link each session id came from, and the previously observed stored credentials. *)
Record mlink := mkml { ml_acct : N; ml_exp : N; ml_done : bool; ml_last : option N }.
Record mon := mkmon { m_links : list mlink; m_sids : list (N * N); m_c0 : N; m_c1 : N }.

Definition mon_init (c0 c1 : N) : mon := mkmon [] [] c0 c1.

Fixpoint assoc (k : N) (l : list (N * N)) : option N :=
  match l with [] => None | (a, b) :: r => if a =? k then Some b else assoc k r end.
Fixpoint nth_ml (k : nat) (l : list mlink) : option mlink :=
  match l, k with
  | [], _ => None
  | x :: _, O => Some x
  | _ :: r, S k' => nth_ml k' r
  end.
Fixpoint set_ml (k : nat) (y : mlink) (l : list mlink) : list mlink :=
  match l, k with
  | [], _ => []
  | _ :: r, O => y :: r
  | x :: r, S k' => x :: set_ml k' y r
  end.

Definition same_creds (m : mon) (v : view) : bool :=
  let '(_, c0, c1) := v in (c0 =? m_c0 m) && (c1 =? m_c1 m).

(* one observed step: Some new monitor state if the observation is allowed by the property *)
Definition mon_step (m : mon) (x : op * res * view) : option mon :=
  let '(o, r, v) := x in
  let '(_, v0, v1) := v in
  match o, r with
  | OInit a _ _, RIntent e =>
      if same_creds m v
      then Some (mkmon (m_links m ++ [mkml a e false None]) (m_sids m) (m_c0 m) (m_c1 m))
      else None
  | OExchange k ct, RTok sid _ =>
      (* an exchange is accepted only for an existing link, before its expiry, never after a commit *)
      match nth_ml (N.to_nat k) (m_links m) with
      | Some y =>
          if negb (ml_done y) && (ct <? ml_exp y) && same_creds m v
          then Some (mkmon (set_ml (N.to_nat k) (mkml (ml_acct y) (ml_exp y) false (Some sid)) (m_links m))
                           ((sid, k) :: m_sids m) (m_c0 m) (m_c1 m))
          else None
      | None => None
      end
  | OCommit sid _ _, ROk =>
      (* a commit is accepted only from the session of the LATEST accepted exchange of a link that
         has not committed before; it may change the credentials of that link's account only *)
      match assoc sid (m_sids m) with
      | Some k =>
          match nth_ml (N.to_nat k) (m_links m) with
          | Some y =>
              let last_ok := match ml_last y with Some sid' => sid' =? sid | None => false end in
              let only_acct := if ml_acct y =? 0 then v1 =? m_c1 m else v0 =? m_c0 m in
              if negb (ml_done y) && last_ok && only_acct
              then Some (mkmon (set_ml (N.to_nat k) (mkml (ml_acct y) (ml_exp y) true (ml_last y)) (m_links m))
                               (m_sids m) v0 v1)
              else None
          | None => None
          end
      | None => None
      end
  | _, _ => if same_creds m v then Some m else None   (* nothing else may touch stored credentials *)
  end.

Fixpoint mon_run (m : mon) (steps : list (op * res * view)) : bool :=
  match steps with
  | [] => true
  | x :: r => match mon_step m x with Some m1 => mon_run m1 r | None => false end
  end.

Definition pcheck (c : case) : bool :=
  match c with
  | CHist c0 c1 steps => mon_run (mon_init c0 c1) steps
  | CClamp ttl ct out => (ct + MIN_INTENT_TTL <=? out) && (out <=? ct + MAX_INTENT_TTL)
  end.

Definition known (_ : case) : bool := false.
