(* KV.C37.Proofs *)
From Coq Require Import List NArith Bool Lia.
Import ListNotations.
Require Import KV.C37.Model.
Open Scope N_scope.
Arguments N.add : simpl never.
Arguments N.mul : simpl never.
Arguments N.ltb : simpl never.
Arguments N.leb : simpl never.
Arguments N.eqb : simpl never.
Arguments N.sub : simpl never.
Arguments clamp_ttl : simpl never.
Arguments SESSION_TTL : simpl never.

(* ------------------------------------------------------------------ list helpers *)
Lemma find_link_in k ls l : find_link k ls = Some l -> In l ls /\ l_id l = k.
Proof.
  unfold find_link. intros H. apply find_some in H. destruct H as [Hin He].
  split; [exact Hin | apply N.eqb_eq; exact He].
Qed.

Lemma find_sess_in sid ss x : find_sess sid ss = Some x -> In x ss /\ s_id x = sid.
Proof.
  unfold find_sess. intros H. apply find_some in H. destruct H as [Hin He].
  split; [exact Hin | apply N.eqb_eq; exact He].
Qed.

Lemma in_set_link k x ls l' :
  In l' (set_link k x ls) ->
  exists l, In l ls /\ l_id l' = l_id l /\ l_acct l' = l_acct l /\
            ((l_id l = k /\ l_st l' = x) \/ (l_id l <> k /\ l' = l)).
Proof.
  unfold set_link. intros H. apply in_map_iff in H. destruct H as [l [He Hin]].
  exists l. split; [exact Hin|].
  destruct (N.eqb_spec (l_id l) k) as [E|E]; subst l'; cbn.
  - repeat split; auto.
  - repeat split; auto.
Qed.

Lemma in_stage sid pw ss x' :
  In x' (stage sid pw ss) ->
  exists x, In x ss /\ s_id x' = s_id x /\ s_link x' = s_link x /\ s_acct x' = s_acct x.
Proof.
  unfold stage. intros H. apply in_map_iff in H. destruct H as [x [He Hin]].
  exists x. split; [exact Hin|].
  destruct (s_id x =? sid); subst x'; cbn; auto.
Qed.

Lemma in_del_sess sid ss x : In x (del_sess sid ss) -> In x ss /\ s_id x <> sid.
Proof.
  unfold del_sess. intros H. apply filter_In in H. destruct H as [Hin Hb].
  split; [exact Hin|]. intros E. rewrite E, N.eqb_refl in Hb. discriminate.
Qed.

(* ------------------------------------------------------------------ what each operation does *)
Definition is_err (r : res) : Prop := exists e, r = RErr e.

Lemma step_init s a ttl ct :
  step s (OInit a ttl ct) =
  (mkst (filter (fun l => negb ((l_acct l =? a) && (ls_mttl (l_st l) <=? ct))) (links s)
           ++ [mklink (nlink s) a (LValid (ct + clamp_ttl ttl))])
        (sessions s) (cred0 s) (cred1 s) (nlink s + 1) (nsid s),
   RIntent (ct + clamp_ttl ttl)).
Proof. reflexivity. Qed.

Lemma step_exchange s k ct s' r :
  step s (OExchange k ct) = (s', r) ->
  (is_err r /\ s' = s) \/
  (exists l m, find_link k (links s) = Some l /\ ls_mttl (l_st l) = m /\
     (forall mm, l_st l <> LConsumed mm) /\ ct < m /\
     r = RTok (nsid s) (ct + SESSION_TTL) /\
     s' = mkst (set_link k (LInProgress m (nsid s) (ct + SESSION_TTL)) (links s))
               (filter (fun x => negb (s_exp x <? ct)) (sessions s)
                  ++ [mksess (nsid s) (ct + SESSION_TTL) k (l_acct l) (get_cred (l_acct l) s)])
               (cred0 s) (cred1 s) (nlink s) (nsid s + 1)).
Proof.
  unfold step, fail. intros H.
  destruct (find_link k (links s)) as [l|] eqn:Hf.
  2:{ inversion H; subst. left. split; [eexists; reflexivity | reflexivity]. }
  destruct (l_st l) as [m|m a b|m] eqn:Hs.
  - destruct (N.leb_spec m ct).
    + inversion H; subst. left. split; [eexists; reflexivity | reflexivity].
    + inversion H; subst. right. exists l, m. rewrite Hs. cbn.
      repeat split; auto. intros mm; discriminate.
  - destruct (N.leb_spec m ct).
    + inversion H; subst. left. split; [eexists; reflexivity | reflexivity].
    + inversion H; subst. right. exists l, m. rewrite Hs. cbn.
      repeat split; auto. intros mm; discriminate.
  - inversion H; subst. left. split; [eexists; reflexivity | reflexivity].
Qed.

Lemma step_setpw s sid mttl pw ct s' r :
  step s (OSetPw sid mttl pw ct) = (s', r) ->
  (is_err r /\ s' = s) \/
  (r = ROk /\ s' = mkst (links s) (stage sid pw (sessions s)) (cred0 s) (cred1 s) (nlink s) (nsid s)).
Proof.
  unfold step, fail. intros H.
  destruct (mttl <=? ct).
  { inversion H; subst. left. split; [eexists; reflexivity | reflexivity]. }
  destruct (find_sess sid (sessions s)).
  - inversion H; subst. right. split; reflexivity.
  - inversion H; subst. left. split; [eexists; reflexivity | reflexivity].
Qed.

Lemma step_commit s sid mttl ct s' r :
  step s (OCommit sid mttl ct) = (s', r) ->
  (is_err r /\ s' = s) \/
  (exists x l m t, ct < mttl /\ find_sess sid (sessions s) = Some x /\ s_staged x <> 0 /\
     find_link (s_link x) (links s) = Some l /\ l_st l = LInProgress m sid t /\
     r = ROk /\
     s' = mkst (set_link (s_link x) (LConsumed m) (links s)) (del_sess sid (sessions s))
               (fst (set_cred (s_acct x) (s_staged x) s)) (snd (set_cred (s_acct x) (s_staged x) s))
               (nlink s) (nsid s)).
Proof.
  unfold step, fail. intros H.
  destruct (N.leb_spec mttl ct).
  { inversion H; subst. left. split; [eexists; reflexivity | reflexivity]. }
  destruct (find_sess sid (sessions s)) as [x|] eqn:Hx.
  2:{ inversion H; subst. left. split; [eexists; reflexivity | reflexivity]. }
  destruct (N.eqb_spec (s_staged x) 0).
  { inversion H; subst. left. split; [eexists; reflexivity | reflexivity]. }
  destruct (find_link (s_link x) (links s)) as [l|] eqn:Hl.
  2:{ inversion H; subst. left. split; [eexists; reflexivity | reflexivity]. }
  destruct (l_st l) as [m|m a b|m] eqn:Hs;
    try (inversion H; subst; left; split; [eexists; reflexivity | reflexivity]).
  destruct (N.eqb_spec a sid).
  2:{ inversion H; subst. left. split; [eexists; reflexivity | reflexivity]. }
  subst a. destruct (set_cred (s_acct x) (s_staged x) s) as [c0 c1] eqn:Hc.
  inversion H; subst. right. exists x, l, m, b. rewrite Hc. cbn. repeat split; auto.
Qed.

Lemma step_cancel s sid mttl ct s' r :
  step s (OCancel sid mttl ct) = (s', r) ->
  (is_err r /\ s' = s) \/
  (exists x l m t, find_sess sid (sessions s) = Some x /\
     find_link (s_link x) (links s) = Some l /\ l_st l = LInProgress m sid t /\
     r = ROk /\
     s' = mkst (set_link (s_link x) (LValid m) (links s)) (del_sess sid (sessions s))
               (cred0 s) (cred1 s) (nlink s) (nsid s)).
Proof.
  unfold step, fail. intros H.
  destruct (N.leb_spec mttl ct).
  { inversion H; subst. left. split; [eexists; reflexivity | reflexivity]. }
  destruct (find_sess sid (sessions s)) as [x|] eqn:Hx.
  2:{ inversion H; subst. left. split; [eexists; reflexivity | reflexivity]. }
  destruct (find_link (s_link x) (links s)) as [l|] eqn:Hl.
  2:{ inversion H; subst. left. split; [eexists; reflexivity | reflexivity]. }
  destruct (l_st l) as [m|m a b|m] eqn:Hs;
    try (inversion H; subst; left; split; [eexists; reflexivity | reflexivity]).
  destruct (N.eqb_spec a sid).
  2:{ inversion H; subst. left. split; [eexists; reflexivity | reflexivity]. }
  subst a. inversion H; subst. right. exists x, l, m, b. repeat split; auto.
Qed.

Lemma step_revoke s k ct s' r :
  step s (ORevoke k ct) = (s', r) ->
  (is_err r /\ s' = s) \/
  (exists l, find_link k (links s) = Some l /\ r = ROk /\
     s' = mkst (set_link k (LConsumed (ls_mttl (l_st l))) (links s)) (sessions s)
               (cred0 s) (cred1 s) (nlink s) (nsid s)).
Proof.
  unfold step, fail. intros H.
  destruct (find_link k (links s)) as [l|] eqn:Hf.
  2:{ inversion H; subst. left. split; [eexists; reflexivity | reflexivity]. }
  destruct (l_st l) as [m|m a b|m] eqn:Hs.
  - inversion H; subst. right. exists l. rewrite Hs. repeat split; auto.
  - inversion H; subst. right. exists l. rewrite Hs. repeat split; auto.
  - inversion H; subst. left. split; [eexists; reflexivity | reflexivity].
Qed.

(* a refused operation changes nothing *)
Lemma step_err_same s o : is_err (snd (step s o)) -> fst (step s o) = s.
Proof.
  intros [e He]. destruct (step s o) as [s' r] eqn:H. cbn in *. subst r.
  destruct o.
  - rewrite step_init in H. inversion H.
  - apply step_exchange in H. destruct H as [[_ E]|(l & m & _ & _ & _ & _ & Hr & _)]; [exact E | discriminate].
  - apply step_setpw in H. destruct H as [[_ E]|[Hr _]]; [exact E | discriminate].
  - apply step_commit in H. destruct H as [[_ E]|(x & l & m & t & _ & _ & _ & _ & _ & Hr & _)]; [exact E | discriminate].
  - apply step_cancel in H. destruct H as [[_ E]|(x & l & m & t & _ & _ & _ & Hr & _)]; [exact E | discriminate].
  - apply step_revoke in H. destruct H as [[_ E]|(l & _ & Hr & _)]; [exact E | discriminate].
Qed.

(* ------------------------------------------------------------------ generic trace reasoning *)
Lemma trace_inv (I : st -> Prop) :
  (forall s o, I s -> I (fst (step s o))) ->
  forall ops s, I s -> forall s' o r, In (s', o, r) (trace s ops) -> I s' /\ r = snd (step s' o).
Proof.
  intros Hstep. induction ops as [|o ops IH]; intros s Hs s' o' r Hin; cbn in Hin.
  - contradiction.
  - destruct Hin as [E|Hin].
    + inversion E; subst. split; [exact Hs | reflexivity].
    + eapply IH; [apply Hstep; exact Hs | exact Hin].
Qed.

Lemma run_inv (I : st -> Prop) :
  (forall s o, I s -> I (fst (step s o))) -> forall ops s, I s -> I (run s ops).
Proof.
  intros Hstep. induction ops as [|o ops IH]; intros s Hs; cbn; [exact Hs|].
  apply IH. apply Hstep. exact Hs.
Qed.

(* ------------------------------------------------------------------ well-formedness *)
(* link ids are below the link counter, session ids below the session counter *)
Definition wf (s : st) : Prop :=
  (forall l, In l (links s) -> l_id l < nlink s) /\
  (forall x, In x (sessions s) -> s_id x < nsid s).

Lemma wf_init c0 c1 : wf (init c0 c1).
Proof. split; intros ? []. Qed.

Lemma wf_step s o : wf s -> wf (fst (step s o)).
Proof.
  intros [Hl Hx]. destruct (step s o) as [s' r] eqn:H. cbn.
  destruct o.
  - rewrite step_init in H. inversion H; subst; clear H. split; cbn.
    + intros l Hin. apply in_app_iff in Hin. destruct Hin as [Hin|[E|[]]].
      * apply filter_In in Hin. destruct Hin as [Hin _]. apply Hl in Hin. lia.
      * subst l. cbn. lia.
    + exact Hx.
  - apply step_exchange in H. destruct H as [[_ E]|(l & m & _ & _ & _ & _ & _ & E)]; subst s'.
    + split; assumption.
    + split; cbn.
      * intros l' Hin. apply in_set_link in Hin. destruct Hin as (l0 & Hin & Hid & _). rewrite Hid. auto.
      * intros x Hin. apply in_app_iff in Hin. destruct Hin as [Hin|[E|[]]].
        -- apply filter_In in Hin. destruct Hin as [Hin _]. apply Hx in Hin. lia.
        -- subst x. cbn. lia.
  - apply step_setpw in H. destruct H as [[_ E]|[_ E]]; subst s'.
    + split; assumption.
    + split; cbn; [exact Hl|].
      intros x Hin. apply in_stage in Hin. destruct Hin as (x0 & Hin & Hid & _). rewrite Hid. auto.
  - apply step_commit in H. destruct H as [[_ E]|(x & l & m & t & _ & _ & _ & _ & _ & _ & E)]; subst s'.
    + split; assumption.
    + split; cbn.
      * intros l' Hin. apply in_set_link in Hin. destruct Hin as (l0 & Hin & Hid & _). rewrite Hid. auto.
      * intros x' Hin. apply in_del_sess in Hin. destruct Hin as [Hin _]. auto.
  - apply step_cancel in H. destruct H as [[_ E]|(x & l & m & t & _ & _ & _ & _ & E)]; subst s'.
    + split; assumption.
    + split; cbn.
      * intros l' Hin. apply in_set_link in Hin. destruct Hin as (l0 & Hin & Hid & _). rewrite Hid. auto.
      * intros x' Hin. apply in_del_sess in Hin. destruct Hin as [Hin _]. auto.
  - apply step_revoke in H. destruct H as [[_ E]|(l & _ & _ & E)]; subst s'.
    + split; assumption.
    + split; cbn; [|exact Hx].
      intros l' Hin. apply in_set_link in Hin. destruct Hin as (l0 & Hin & Hid & _). rewrite Hid. auto.
Qed.

Lemma wf_run ops s : wf s -> wf (run s ops).
Proof. apply run_inv. intros; apply wf_step; assumption. Qed.

(* ------------------------------------------------------------------ one lemma for all link updates *)
(* [upd s o k x]: operation o, accepted in state s, rewrites the state of link k to x *)
Inductive upd (s : st) : op -> N -> lstate -> Prop :=
| UExch k ct l0 :
    find_link k (links s) = Some l0 -> (forall mm, l_st l0 <> LConsumed mm) -> ct < ls_mttl (l_st l0) ->
    upd s (OExchange k ct) k (LInProgress (ls_mttl (l_st l0)) (nsid s) (ct + SESSION_TTL))
| UCommit sid mttl ct x l0 m t :
    find_sess sid (sessions s) = Some x -> find_link (s_link x) (links s) = Some l0 ->
    l_st l0 = LInProgress m sid t ->
    upd s (OCommit sid mttl ct) (s_link x) (LConsumed m)
| UCancel sid mttl ct x l0 m t :
    find_sess sid (sessions s) = Some x -> find_link (s_link x) (links s) = Some l0 ->
    l_st l0 = LInProgress m sid t ->
    upd s (OCancel sid mttl ct) (s_link x) (LValid m)
| URevoke k ct l0 :
    find_link k (links s) = Some l0 ->
    upd s (ORevoke k ct) k (LConsumed (ls_mttl (l_st l0))).

Lemma step_links s o l' :
  In l' (links (fst (step s o))) ->
  In l' (links s) \/
  (exists l k x, In l (links s) /\ upd s o k x /\ l_id l = k /\ l' = mklink (l_id l) (l_acct l) x) \/
  (exists a ttl ct, o = OInit a ttl ct /\ l' = mklink (nlink s) a (LValid (ct + clamp_ttl ttl))).
Proof.
  destruct (step s o) as [s' r] eqn:H. cbn. intros Hin.
  assert (Hset : forall k x, In l' (set_link k x (links s)) -> upd s o k x ->
     In l' (links s) \/
     (exists l k x, In l (links s) /\ upd s o k x /\ l_id l = k /\ l' = mklink (l_id l) (l_acct l) x)).
  { intros k x Hi Hu. unfold set_link in Hi. apply in_map_iff in Hi. destruct Hi as [l [He Hl]].
    destruct (N.eqb_spec (l_id l) k) as [E|E].
    - right. exists l, k, x. subst l'. auto.
    - left. subst l'. exact Hl. }
  destruct o.
  - rewrite step_init in H. inversion H; subst; clear H. cbn in Hin.
    apply in_app_iff in Hin. destruct Hin as [Hin|[E|[]]].
    + apply filter_In in Hin. left. apply Hin.
    + right. right. exists acct, ttl, ct. split; [reflexivity | symmetry; exact E].
  - apply step_exchange in H. destruct H as [[_ E]|(l & m & Hf & Hm & Hnc & Hlt & _ & E)]; subst s'.
    + left. exact Hin.
    + cbn in Hin. subst m. destruct (Hset _ _ Hin) as [A|A]; [constructor; assumption | auto | auto].
  - apply step_setpw in H. destruct H as [[_ E]|[_ E]]; subst s'; left; exact Hin.
  - apply step_commit in H. destruct H as [[_ E]|(x & l & m & t & _ & Hx & _ & Hl & Hs & _ & E)]; subst s'.
    + left. exact Hin.
    + cbn in Hin. destruct (Hset _ _ Hin) as [A|A]; [econstructor; eassumption | auto | auto].
  - apply step_cancel in H. destruct H as [[_ E]|(x & l & m & t & Hx & Hl & Hs & _ & E)]; subst s'.
    + left. exact Hin.
    + cbn in Hin. destruct (Hset _ _ Hin) as [A|A]; [econstructor; eassumption | auto | auto].
  - apply step_revoke in H. destruct H as [[_ E]|(l & Hl & _ & E)]; subst s'.
    + left. exact Hin.
    + cbn in Hin. destruct (Hset _ _ Hin) as [A|A]; [econstructor; eassumption | auto | auto].
Qed.

Lemma step_sessions s o x' :
  In x' (sessions (fst (step s o))) ->
  (exists x, In x (sessions s) /\ s_id x' = s_id x /\ s_link x' = s_link x /\ s_acct x' = s_acct x) \/
  (exists k ct l0, o = OExchange k ct /\ find_link k (links s) = Some l0 /\
     s_id x' = nsid s /\ s_link x' = k /\ s_acct x' = l_acct l0).
Proof.
  destruct (step s o) as [s' r] eqn:H. cbn. intros Hin.
  assert (Hsame : In x' (sessions s) ->
    exists x, In x (sessions s) /\ s_id x' = s_id x /\ s_link x' = s_link x /\ s_acct x' = s_acct x).
  { intros Hi. exists x'. auto. }
  destruct o.
  - rewrite step_init in H. inversion H; subst; clear H. left. auto.
  - apply step_exchange in H. destruct H as [[_ E]|(l & m & Hf & _ & _ & _ & _ & E)]; subst s'.
    + left. auto.
    + cbn in Hin. apply in_app_iff in Hin. destruct Hin as [Hin|[E|[]]].
      * apply filter_In in Hin. left. apply Hsame, Hin.
      * right. exists k, ct, l. subst x'. cbn. auto.
  - apply step_setpw in H. destruct H as [[_ E]|[_ E]]; subst s'.
    + left. auto.
    + cbn in Hin. left. apply in_stage in Hin. exact Hin.
  - apply step_commit in H. destruct H as [[_ E]|(x & l & m & t & _ & _ & _ & _ & _ & _ & E)]; subst s'.
    + left. auto.
    + cbn in Hin. apply in_del_sess in Hin. left. apply Hsame, Hin.
  - apply step_cancel in H. destruct H as [[_ E]|(x & l & m & t & _ & _ & _ & _ & E)]; subst s'.
    + left. auto.
    + cbn in Hin. apply in_del_sess in Hin. left. apply Hsame, Hin.
  - apply step_revoke in H. destruct H as [[_ E]|(l & _ & _ & E)]; subst s'; left; auto.
Qed.

Lemma step_counters s o : nlink s <= nlink (fst (step s o)) /\ nsid s <= nsid (fst (step s o)).
Proof.
  destruct (step s o) as [s' r] eqn:H. cbn.
  destruct o.
  - rewrite step_init in H. inversion H; subst; cbn. lia.
  - apply step_exchange in H. destruct H as [[_ E]|(l & m & _ & _ & _ & _ & _ & E)]; subst s'; cbn; lia.
  - apply step_setpw in H. destruct H as [[_ E]|[_ E]]; subst s'; cbn; lia.
  - apply step_commit in H. destruct H as [[_ E]|(x & l & m & t & _ & _ & _ & _ & _ & _ & E)]; subst s'; cbn; lia.
  - apply step_cancel in H. destruct H as [[_ E]|(x & l & m & t & _ & _ & _ & _ & E)]; subst s'; cbn; lia.
  - apply step_revoke in H. destruct H as [[_ E]|(l & _ & _ & E)]; subst s'; cbn; lia.
Qed.

(* ------------------------------------------------------------------ dead links stay dead *)
(* link k has been created and every copy of it is Consumed or gone *)
Definition dead (k : N) (s : st) : Prop :=
  k < nlink s /\ forall l, In l (links s) -> l_id l = k -> exists m, l_st l = LConsumed m.

Lemma dead_step k s o : dead k s -> dead k (fst (step s o)).
Proof.
  intros [Hk Hd]. split.
  { pose proof (step_counters s o). lia. }
  intros l' Hin Hid. apply step_links in Hin.
  destruct Hin as [Hin|[(l & k' & x & Hin & Hu & Hk' & E)|(a & ttl & ct & _ & E)]].
  - auto.
  - subst l'. cbn in Hid. cbn.
    destruct Hu as [k0 ct l0 Hf Hnc Hlt | sid mttl ct x0 l0 m t Hx Hf Hs
                   | sid mttl ct x0 l0 m t Hx Hf Hs | k0 ct l0 Hf]; cbn.
    + apply find_link_in in Hf. destruct Hf as [Hi0 Hid0].
      destruct (Hd l0 Hi0) as [mm Hc]; [congruence|]. exfalso. eapply Hnc. exact Hc.
    + eauto.
    + apply find_link_in in Hf. destruct Hf as [Hi0 Hid0].
      destruct (Hd l0 Hi0) as [mm Hc]; [congruence|]. congruence.
    + eauto.
  - subst l'. cbn in Hid. lia.
Qed.

Lemma dead_no_exchange k s ct : dead k s -> is_err (snd (step s (OExchange k ct))).
Proof.
  intros [_ Hd]. destruct (step s (OExchange k ct)) as [s' r] eqn:H. cbn.
  apply step_exchange in H. destruct H as [[E _]|(l & m & Hf & _ & Hnc & _)]; [exact E|].
  apply find_link_in in Hf. destruct Hf as [Hin Hid].
  destruct (Hd _ Hin Hid) as [mm Hc]. exfalso. eapply Hnc. exact Hc.
Qed.

(* which link an accepted commit belongs to (read off the session in the pre-state) *)
Definition commits_on (k : N) (e : st * op * res) : bool :=
  let '(s, o, r) := e in
  match o, r with
  | OCommit sid _ _, ROk =>
      match find_sess sid (sessions s) with Some x => s_link x =? k | None => false end
  | _, _ => false
  end.

Lemma dead_no_commit k s o : dead k s -> commits_on k (s, o, snd (step s o)) = false.
Proof.
  intros [_ Hd]. unfold commits_on. destruct o; try reflexivity.
  destruct (step s (OCommit sid mttl ct)) as [s' r] eqn:H. cbn.
  destruct r; try reflexivity.
  apply step_commit in H. destruct H as [[[e E] _]|(x & l & m & t & _ & Hx & _ & Hl & Hs & _)]; [discriminate|].
  rewrite Hx. destruct (N.eqb_spec (s_link x) k) as [E|E]; [|reflexivity].
  apply find_link_in in Hl. destruct Hl as [Hin Hid].
  destruct (Hd _ Hin (eq_trans Hid E)) as [mm Hc]. congruence.
Qed.

Lemma commit_makes_dead k s o :
  wf s -> commits_on k (s, o, snd (step s o)) = true -> dead k (fst (step s o)).
Proof.
  intros [Hwl _] Hc. unfold commits_on in Hc. destruct o; try discriminate.
  destruct (step s (OCommit sid mttl ct)) as [s' r] eqn:H. cbn in *.
  destruct r; try discriminate.
  apply step_commit in H. destruct H as [[[e E] _]|(x & l & m & t & _ & Hx & _ & Hl & Hs & _ & E)]; [discriminate|].
  rewrite Hx in Hc. apply N.eqb_eq in Hc. subst s'. cbn.
  apply find_link_in in Hl. destruct Hl as [Hin Hid].
  split; cbn.
  - rewrite <- Hc, <- Hid. auto.
  - intros l' Hin' Hid'. apply in_set_link in Hin'.
    destruct Hin' as (l0 & _ & Hi & _ & [[_ Hst]|[Hne _]]).
    + eauto.
    + exfalso. apply Hne. congruence.
Qed.

Definition ncommits (k : N) (tr : list (st * op * res)) : nat := length (filter (commits_on k) tr).

Lemma dead_ncommits k ops : forall s, dead k s -> ncommits k (trace s ops) = 0%nat.
Proof.
  induction ops as [|o ops IH]; intros s Hd; [reflexivity|].
  unfold ncommits in *. cbn [trace filter].
  rewrite (dead_no_commit k s o Hd). apply IH. apply dead_step. exact Hd.
Qed.

Lemma ncommits_le_1 k ops : forall s, wf s -> (ncommits k (trace s ops) <= 1)%nat.
Proof.
  induction ops as [|o ops IH]; intros s Hwf; [cbn; lia|].
  unfold ncommits in *. cbn [trace filter].
  destruct (commits_on k (s, o, snd (step s o))) eqn:Hc.
  - cbn [length]. pose proof (dead_ncommits k ops _ (commit_makes_dead k s o Hwf Hc)) as H0.
    unfold ncommits in H0. rewrite H0. lia.
  - apply IH. apply wf_step. exact Hwf.
Qed.

Lemma dead_trace_no_exchange k ops s :
  dead k s -> forall s' ct r, In (s', OExchange k ct, r) (trace s ops) -> is_err r.
Proof.
  intros Hd s' ct r Hin.
  destruct (trace_inv (dead k) (dead_step k) ops s Hd _ _ _ Hin) as [Hd' Hr].
  subst r. apply dead_no_exchange. exact Hd'.
Qed.

(* ------------------------------------------------------------------ expiry of a link never moves *)
Definition expiry (k m : N) (s : st) : Prop :=
  k < nlink s /\ forall l, In l (links s) -> l_id l = k -> ls_mttl (l_st l) = m.

Lemma expiry_step k m s o : expiry k m s -> expiry k m (fst (step s o)).
Proof.
  intros [Hk Hd]. split.
  { pose proof (step_counters s o). lia. }
  intros l' Hin Hid. apply step_links in Hin.
  destruct Hin as [Hin|[(l & k' & x & Hin & Hu & Hk' & E)|(a & ttl & ct & _ & E)]].
  - auto.
  - subst l'. cbn in Hid. cbn.
    destruct Hu as [k0 ct l0 Hf Hnc Hlt | sid mttl ct x0 l0 m0 t Hx Hf Hs
                   | sid mttl ct x0 l0 m0 t Hx Hf Hs | k0 ct l0 Hf]; cbn;
      apply find_link_in in Hf; destruct Hf as [Hi0 Hid0];
      assert (Hm0 : ls_mttl (l_st l0) = m) by (apply Hd; [exact Hi0 | congruence]).
    + exact Hm0.
    + rewrite Hs in Hm0. exact Hm0.
    + rewrite Hs in Hm0. exact Hm0.
    + exact Hm0.
  - subst l'. cbn in Hid. lia.
Qed.

Lemma expired_no_exchange k m s ct : expiry k m s -> m <= ct -> is_err (snd (step s (OExchange k ct))).
Proof.
  intros [_ Hd] Hle. destruct (step s (OExchange k ct)) as [s' r] eqn:H. cbn.
  apply step_exchange in H. destruct H as [[E _]|(l & m' & Hf & Hm & _ & Hlt & _)]; [exact E|].
  apply find_link_in in Hf. destruct Hf as [Hin Hid].
  specialize (Hd _ Hin Hid). lia.
Qed.

Lemma init_expiry s a ttl ct :
  wf s -> expiry (nlink s) (ct + clamp_ttl ttl) (fst (step s (OInit a ttl ct))).
Proof.
  intros [Hwl _]. rewrite step_init. cbn. split; cbn; [lia|].
  intros l Hin Hid. apply in_app_iff in Hin. destruct Hin as [Hin|[E|[]]].
  - apply filter_In in Hin. destruct Hin as [Hin _]. apply Hwl in Hin. lia.
  - subst l. reflexivity.
Qed.

Lemma clamp_bounds ttl : MIN_INTENT_TTL <= clamp_ttl ttl <= MAX_INTENT_TTL.
Proof.
  unfold clamp_ttl. set (m := match ttl with Some v => v | None => DEFAULT_INTENT_TTL end).
  assert (MIN_INTENT_TTL <= MAX_INTENT_TTL) by (vm_compute; discriminate).
  destruct (N.ltb_spec m MIN_INTENT_TTL); [lia|].
  destruct (N.ltb_spec MAX_INTENT_TTL m); lia.
Qed.

(* ------------------------------------------------------------------ stale sessions cannot commit *)
(* session id sid was issued for link k (and no other session will ever carry that id) *)
Definition owns (sid k : N) (s : st) : Prop :=
  sid < nsid s /\ forall x, In x (sessions s) -> s_id x = sid -> s_link x = k.

(* ... and link k is not waiting for that session any more *)
Definition stale (sid k : N) (s : st) : Prop :=
  owns sid k s /\
  forall l, In l (links s) -> l_id l = k -> forall m t, l_st l <> LInProgress m sid t.

Lemma owns_step sid k s o : owns sid k s -> owns sid k (fst (step s o)).
Proof.
  intros [Hlt Ho]. split.
  { pose proof (step_counters s o). lia. }
  intros x' Hin Hid. apply step_sessions in Hin.
  destruct Hin as [(x & Hin & Hi & Hl & _)|(k' & ct & l0 & _ & _ & Hi & _)].
  - rewrite Hl. apply Ho; [exact Hin | congruence].
  - lia.
Qed.

Lemma stale_step sid k s o : stale sid k s -> stale sid k (fst (step s o)).
Proof.
  intros [Ho Hs]. split; [apply owns_step; exact Ho|].
  destruct Ho as [Hlt Ho].
  intros l' Hin Hid m t. apply step_links in Hin.
  destruct Hin as [Hin|[(l & k' & x & Hin & Hu & Hk' & E)|(a & ttl & ct & _ & E)]].
  - auto.
  - subst l'. cbn in Hid. cbn.
    destruct Hu as [k0 ct l0 Hf Hnc Hlt' | sid' mttl ct x0 l0 m0 t0 Hx Hf Hs'
                   | sid' mttl ct x0 l0 m0 t0 Hx Hf Hs' | k0 ct l0 Hf]; cbn; try discriminate.
    intros E. inversion E. lia.
  - subst l'. cbn. discriminate.
Qed.

Lemma stale_no_commit sid k s mttl ct : stale sid k s -> is_err (snd (step s (OCommit sid mttl ct))).
Proof.
  intros [[_ Ho] Hs]. destruct (step s (OCommit sid mttl ct)) as [s' r] eqn:H. cbn.
  apply step_commit in H. destruct H as [[E _]|(x & l & m & t & _ & Hx & _ & Hl & Hst & _)]; [exact E|].
  apply find_sess_in in Hx. destruct Hx as [Hix Hidx].
  apply find_link_in in Hl. destruct Hl as [Hil Hidl].
  exfalso. eapply (Hs l Hil); [|exact Hst]. rewrite Hidl. apply Ho; assumption.
Qed.

Lemma stale_trace sid k ops s :
  stale sid k s -> forall s' mttl ct r, In (s', OCommit sid mttl ct, r) (trace s ops) -> is_err r.
Proof.
  intros Hd s' mttl ct r Hin.
  destruct (trace_inv (stale sid k) (stale_step sid k) ops s Hd _ _ _ Hin) as [Hd' Hr].
  subst r. apply (stale_no_commit sid k). exact Hd'.
Qed.

(* an accepted exchange of k hands out a session id owned by k ... *)
Lemma exchange_owns s k ct s' sid m :
  wf s -> step s (OExchange k ct) = (s', RTok sid m) -> sid = nsid s /\ owns sid k s'.
Proof.
  intros [_ Hwx] H. apply step_exchange in H.
  destruct H as [[[e E] _]|(l & m' & _ & _ & _ & _ & Hr & E)]; [discriminate|].
  inversion Hr; subst sid m. split; [reflexivity|]. subst s'. split; cbn; [lia|].
  intros x Hin Hid. apply in_app_iff in Hin. destruct Hin as [Hin|[E|[]]].
  - apply filter_In in Hin. destruct Hin as [Hin _]. apply Hwx in Hin. lia.
  - subst x. reflexivity.
Qed.

(* ... and makes every earlier session of k stale *)
Lemma exchange_supersedes s k ct s' sid m sid1 :
  owns sid1 k s -> step s (OExchange k ct) = (s', RTok sid m) -> stale sid1 k s'.
Proof.
  intros Ho H. split.
  { replace s' with (fst (step s (OExchange k ct))) by (rewrite H; reflexivity). apply owns_step. exact Ho. }
  destruct Ho as [Hlt _].
  apply step_exchange in H.
  destruct H as [[[e E] _]|(l & m' & _ & _ & _ & _ & _ & E)]; [discriminate|].
  subst s'. cbn. intros l' Hin Hid mm t. apply in_set_link in Hin.
  destruct Hin as (l0 & _ & Hi & _ & [[_ Hst]|[Hne _]]).
  - rewrite Hst. intros E. inversion E. lia.
  - exfalso. apply Hne. congruence.
Qed.

(* ------------------------------------------------------------------ stored credentials *)
Definition is_commit (o : op) : bool := match o with OCommit _ _ _ => true | _ => false end.

Lemma creds_only_by_commit s o :
  (is_commit o = false \/ is_err (snd (step s o))) ->
  cred0 (fst (step s o)) = cred0 s /\ cred1 (fst (step s o)) = cred1 s.
Proof.
  intros [Hc|He].
  2:{ rewrite (step_err_same s o He). split; reflexivity. }
  destruct (step s o) as [s' r] eqn:H. cbn.
  destruct o; try discriminate.
  - rewrite step_init in H. inversion H; subst; cbn. split; reflexivity.
  - apply step_exchange in H. destruct H as [[_ E]|(l & m & _ & _ & _ & _ & _ & E)]; subst s'; cbn; split; reflexivity.
  - apply step_setpw in H. destruct H as [[_ E]|[_ E]]; subst s'; cbn; split; reflexivity.
  - apply step_cancel in H. destruct H as [[_ E]|(x & l & m & t & _ & _ & _ & _ & E)]; subst s'; cbn; split; reflexivity.
  - apply step_revoke in H. destruct H as [[_ E]|(l & _ & _ & E)]; subst s'; cbn; split; reflexivity.
Qed.

(* an accepted commit writes exactly the session's staged credential to the session's account *)
Lemma commit_writes s sid mttl ct :
  snd (step s (OCommit sid mttl ct)) = ROk ->
  exists x, find_sess sid (sessions s) = Some x /\
    get_cred (s_acct x) (fst (step s (OCommit sid mttl ct))) = s_staged x /\
    (s_acct x = 0 -> cred1 (fst (step s (OCommit sid mttl ct))) = cred1 s) /\
    (s_acct x <> 0 -> cred0 (fst (step s (OCommit sid mttl ct))) = cred0 s).
Proof.
  destruct (step s (OCommit sid mttl ct)) as [s' r] eqn:H. cbn. intros Hr. subst r.
  apply step_commit in H. destruct H as [[[e E] _]|(x & l & m & t & _ & Hx & _ & _ & _ & _ & E)]; [discriminate|].
  exists x. split; [exact Hx|]. subst s'. unfold get_cred, set_cred. cbn.
  destruct (N.eqb_spec (s_acct x) 0) as [E|E]; cbn; repeat split; auto; intros; congruence.
Qed.

(* ------------------------------------------------------------------ the bridge: agree -> pcheck *)
Lemma lstate_eqb_eq a b : lstate_eqb a b = true -> a = b.
Proof.
  destruct a, b; cbn; intros H; try discriminate.
  - apply N.eqb_eq in H. congruence.
  - apply andb_true_iff in H. destruct H as [H H3]. apply andb_true_iff in H. destruct H as [H1 H2].
    apply N.eqb_eq in H1, H2, H3. congruence.
  - apply N.eqb_eq in H. congruence.
Qed.

Lemma links_eqb_eq a : forall b, links_eqb a b = true -> a = b.
Proof.
  induction a as [|[[i c] x] a IH]; intros [|[[i' c'] x'] b] H; cbn in H; try discriminate; [reflexivity|].
  apply andb_true_iff in H. destruct H as [H H4]. apply andb_true_iff in H. destruct H as [H H3].
  apply andb_true_iff in H. destruct H as [H1 H2].
  apply N.eqb_eq in H1, H2. apply lstate_eqb_eq in H3. apply IH in H4. congruence.
Qed.

Lemma view_eqb_eq a b : view_eqb a b = true -> a = b.
Proof.
  destruct a as [[la a0] a1], b as [[lb b0] b1]. cbn. intros H.
  apply andb_true_iff in H. destruct H as [H H3]. apply andb_true_iff in H. destruct H as [H1 H2].
  apply links_eqb_eq in H1. apply N.eqb_eq in H2, H3. congruence.
Qed.

Lemma res_eqb_eq a b : res_eqb a b = true -> a = b.
Proof.
  destruct a, b; cbn; intros H; try discriminate; try reflexivity.
  - apply N.eqb_eq in H. congruence.
  - apply andb_true_iff in H. destruct H as [H1 H2]. apply N.eqb_eq in H1, H2. congruence.
  - apply N.eqb_eq in H. destruct e, e0; cbn in H; try reflexivity; discriminate.
Qed.

Lemma nth_set_same k : forall l y y', nth_ml k l = Some y -> nth_ml k (set_ml k y' l) = Some y'.
Proof. induction k; intros [|z l] y y' H; cbn in *; try discriminate; eauto. Qed.

Lemma nth_set_other k : forall k' l y', k <> k' -> nth_ml k' (set_ml k y' l) = nth_ml k' l.
Proof.
  induction k; intros [|k'] [|z l] y' H; cbn; try reflexivity; try congruence.
  apply IHk. congruence.
Qed.

Lemma set_ml_same k : forall l y, nth_ml k l = Some y -> set_ml k y l = l.
Proof.
  induction k; intros [|z l] y H; cbn in *; try discriminate; try reflexivity.
  - congruence.
  - f_equal. apply IHk. exact H.
Qed.

Lemma length_set k : forall l y, length (set_ml k y l) = length l.
Proof. induction k; intros [|z l] y; cbn; auto. Qed.

Lemma nth_app_old k : forall l y z, nth_ml k l = Some y -> nth_ml k (l ++ [z]) = Some y.
Proof. induction k; intros [|w l] y z H; cbn in *; try discriminate; eauto. Qed.

Lemma nth_app_new : forall l z, nth_ml (length l) (l ++ [z]) = Some z.
Proof. induction l; intros z; cbn; auto. Qed.

Lemma assoc_in k l v : assoc k l = Some v -> In (k, v) l.
Proof.
  induction l as [|[a b] l IH]; cbn; [discriminate|].
  destruct (N.eqb_spec a k); intros H.
  - left. congruence.
  - right. auto.
Qed.

(* what the monitor knows about link (id, acct, state) *)
Definition RL (ml : list mlink) (id acct : N) (x : lstate) : Prop :=
  exists y, nth_ml (N.to_nat id) ml = Some y /\ ml_acct y = acct /\ ml_exp y = ls_mttl x /\
    (ml_done y = true -> exists mm, x = LConsumed mm) /\
    (forall mm sid t, x = LInProgress mm sid t -> ml_last y = Some sid).

Record R (s : st) (m : mon) : Prop := mkR {
  R_len : N.of_nat (length (m_links m)) = nlink s;
  R_links : forall l, In l (links s) -> RL (m_links m) (l_id l) (l_acct l) (l_st l);
  R_sess : forall x, In x (sessions s) ->
      assoc (s_id x) (m_sids m) = Some (s_link x) /\ s_link x < nlink s /\
      (forall l, In l (links s) -> l_id l = s_link x -> l_acct l = s_acct x);
  R_sids : forall a b, In (a, b) (m_sids m) -> a < nsid s;
  R_c0 : m_c0 m = cred0 s;
  R_c1 : m_c1 m = cred1 s;
  R_wf : wf s
}.

Lemma R_init c0 c1 : R (init c0 c1) (mon_init c0 c1).
Proof. constructor; cbn; try reflexivity; try (intros; contradiction). apply wf_init. Qed.

Lemma RL_set ml k y y' xnew (ls : list link) :
  (forall l, In l ls -> RL ml (l_id l) (l_acct l) (l_st l)) ->
  nth_ml (N.to_nat k) ml = Some y ->
  ml_acct y' = ml_acct y -> ml_exp y' = ml_exp y -> ls_mttl xnew = ml_exp y ->
  (ml_done y' = true -> exists mm, xnew = LConsumed mm) ->
  (forall mm sid t, xnew = LInProgress mm sid t -> ml_last y' = Some sid) ->
  forall l', In l' (set_link k xnew ls) ->
    RL (set_ml (N.to_nat k) y' ml) (l_id l') (l_acct l') (l_st l').
Proof.
  intros Hall Hy Ha He Hm Hd Hl l' Hin.
  apply in_set_link in Hin. destruct Hin as (l & Hi & Hid & Hac & [[Hk Hst]|[Hne E]]).
  - destruct (Hall l Hi) as (y0 & Hy0 & Hy0a & _). rewrite Hk, Hy in Hy0. inversion Hy0; subst y0.
    exists y'. rewrite Hid, Hk, Hac, Hst. repeat split; auto.
    + eapply nth_set_same. exact Hy.
    + congruence.
    + congruence.
  - subst l'. destruct (Hall l Hi) as (y0 & Hy0 & Hrest). exists y0. split; [|exact Hrest].
    rewrite nth_set_other; [exact Hy0|]. intros E. apply Hne. apply N2Nat.inj. symmetry. exact E.
Qed.

Lemma same_creds_refl s m : m_c0 m = cred0 s -> m_c1 m = cred1 s -> same_creds m (view_of s) = true.
Proof. intros H0 H1. unfold same_creds, view_of. rewrite H0, H1, !N.eqb_refl. reflexivity. Qed.

Lemma same_creds_eq s s' m :
  m_c0 m = cred0 s -> m_c1 m = cred1 s -> cred0 s' = cred0 s -> cred1 s' = cred1 s ->
  same_creds m (view_of s') = true.
Proof. intros H0 H1 E0 E1. unfold same_creds, view_of. rewrite H0, H1, E0, E1, !N.eqb_refl. reflexivity. Qed.

Lemma mon_default m o r s' :
  (match o, r with
   | OInit _ _ _, RIntent _ => False | OExchange _ _, RTok _ _ => False | OCommit _ _ _, ROk => False
   | _, _ => True end) ->
  same_creds m (view_of s') = true ->
  mon_step m (o, r, view_of s') = Some m.
Proof.
  intros Hm Hs. unfold mon_step. unfold view_of in *.
  destruct o, r; try contradiction; rewrite Hs; reflexivity.
Qed.

Lemma sim_step s m o :
  R s m -> exists m1, mon_step m (o, snd (step s o), view_of (fst (step s o))) = Some m1 /\ R (fst (step s o)) m1.
Proof.
  intros HR. pose proof (wf_step s o (R_wf _ _ HR)) as Hwf'.
  destruct HR as [Hlen Hlinks Hsess Hsids Hc0 Hc1 Hwf].
  destruct (step s o) as [s' r] eqn:H. cbn [fst snd] in *.
  assert (Herr : is_err r -> s' = s ->
     exists m1, mon_step m (o, r, view_of s') = Some m1 /\ R s' m1).
  { intros [e He] Es. subst r s'. exists m. split.
    - apply mon_default; [destruct o; exact I | apply same_creds_refl; assumption].
    - constructor; assumption. }
  destruct o.
  - (* init *)
    rewrite step_init in H. inversion H; subst s' r; clear H.
    eexists. split.
    + unfold mon_step, view_of. cbn [links cred0 cred1].
      unfold same_creds. rewrite Hc0, Hc1, !N.eqb_refl. cbn. reflexivity.
    + assert (Hnl : N.to_nat (nlink s) = length (m_links m)) by (rewrite <- Hlen; apply Nat2N.id).
      constructor; cbn.
      * rewrite app_length. cbn. lia.
      * intros l Hin. apply in_app_iff in Hin. destruct Hin as [Hin|[E|[]]].
        -- apply filter_In in Hin. destruct Hin as [Hin _].
           destruct (Hlinks l Hin) as (y & Hy & Hrest). exists y. split; [|exact Hrest].
           apply nth_app_old. exact Hy.
        -- subst l. cbn. eexists. split; [rewrite Hnl; apply nth_app_new|].
           cbn. repeat split; auto; intros; discriminate.
      * intros x Hin. destruct (Hsess x Hin) as (Ha & Hlt & Hacc). repeat split; [exact Ha | lia |].
        intros l Hl Hid. apply in_app_iff in Hl. destruct Hl as [Hl|[E|[]]].
        -- apply filter_In in Hl. apply Hacc; [apply Hl | exact Hid].
        -- subst l. cbn in Hid. lia.
      * exact Hsids.
      * first [exact Hc0 | reflexivity].
      * first [exact Hc1 | reflexivity].
      * exact Hwf'.
  - (* exchange *)
    apply step_exchange in H. destruct H as [[He Es]|(l & mm & Hf & Hm & Hnc & Hlt & Hr & Es)]; [auto|].
    apply find_link_in in Hf. destruct Hf as [Hil Hidl].
    destruct (Hlinks l Hil) as (y & Hy & Hya & Hye & Hyd & Hyl). rewrite Hidl in Hy.
    assert (Hdone : ml_done y = false).
    { destruct (ml_done y) eqn:E; [|reflexivity]. destruct (Hyd eq_refl) as [m0 Hm0]. exfalso. eapply Hnc. exact Hm0. }
    eexists. split.
    + subst r s'. unfold mon_step, view_of. cbn [links cred0 cred1]. rewrite Hy.
      rewrite Hdone. unfold same_creds. rewrite Hc0, Hc1, !N.eqb_refl.
      replace (ct <? ml_exp y) with true by (symmetry; apply N.ltb_lt; lia). cbn. reflexivity.
    + subst s'. destruct Hwf as [Hwl Hwx]. constructor; cbn.
      * rewrite length_set. exact Hlen.
      * intros l' Hin.
        apply (RL_set (m_links m) k y (mkml (ml_acct y) (ml_exp y) false (Some (nsid s)))
                 (LInProgress mm (nsid s) (ct + SESSION_TTL)) (links s) Hlinks Hy eq_refl eq_refl);
          [cbn; congruence | cbn; discriminate | intros m0 sid0 t0 E; inversion E; reflexivity | exact Hin].
      * intros x Hin. apply in_app_iff in Hin. destruct Hin as [Hin|[E|[]]].
        -- apply filter_In in Hin. destruct Hin as [Hin _].
           destruct (Hsess x Hin) as (Ha & Hl & Hacc). pose proof (Hwx x Hin) as Hx.
           repeat split; auto.
           ++ destruct (N.eqb_spec (nsid s) (s_id x)); [lia | exact Ha].
           ++ intros l' Hl' Hid'. apply in_set_link in Hl'. destruct Hl' as (l0 & Hi0 & Hid0 & Hac0 & _).
              rewrite Hac0. apply Hacc; [exact Hi0 | congruence].
        -- subst x. cbn. rewrite N.eqb_refl. repeat split; auto.
           ++ rewrite <- Hidl. auto.
           ++ intros l' Hl' Hid'. apply in_set_link in Hl'. destruct Hl' as (l0 & Hi0 & Hid0 & Hac0 & _).
              rewrite Hac0. destruct (Hlinks l0 Hi0) as (y0 & Hy0 & Hy0a & _).
              assert (E : l_id l0 = k) by congruence. rewrite E, Hy in Hy0. inversion Hy0; subst y0. congruence.
      * intros a b [E|Hin]; [inversion E; lia | apply Hsids in Hin; lia].
      * first [exact Hc0 | reflexivity].
      * first [exact Hc1 | reflexivity].
      * exact Hwf'.
  - (* setpw *)
    apply step_setpw in H. destruct H as [[He Es]|[Hr Es]]; [auto|].
    exists m. split.
    + subst r s'. apply mon_default; [exact I | apply same_creds_eq with (s := s); auto].
    + subst s'. constructor; cbn; auto.
      intros x Hin. apply in_stage in Hin. destruct Hin as (x0 & Hi0 & Hid & Hl & Ha).
      rewrite Hid, Hl, Ha. apply Hsess. exact Hi0.
  - (* commit *)
    apply step_commit in H. destruct H as [[He Es]|(x & l & mm & t & _ & Hx & _ & Hl & Hst & Hr & Es)]; [auto|].
    apply find_sess_in in Hx. destruct Hx as [Hix Hidx].
    apply find_link_in in Hl. destruct Hl as [Hil Hidl].
    destruct (Hsess x Hix) as (Hass & Hklt & Hacc).
    destruct (Hlinks l Hil) as (y & Hy & Hya & Hye & Hyd & Hyl). rewrite Hidl in Hy.
    assert (Hdone : ml_done y = false).
    { destruct (ml_done y) eqn:E; [|reflexivity]. destruct (Hyd eq_refl) as [m0 Hm0]. congruence. }
    pose proof (Hyl _ _ _ Hst) as Hlast.
    pose proof (Hacc l Hil Hidl) as Hacct.
    eexists. split.
    + subst r s'. unfold mon_step, view_of. cbn [links cred0 cred1].
      rewrite <- Hidx, Hass, Hy, Hdone, Hlast, Hidx, N.eqb_refl. cbn [negb andb].
      replace (if ml_acct y =? 0
               then snd (set_cred (s_acct x) (s_staged x) s) =? m_c1 m
               else fst (set_cred (s_acct x) (s_staged x) s) =? m_c0 m) with true; [reflexivity|].
      unfold set_cred. rewrite Hya, Hacct. destruct (s_acct x =? 0); cbn; symmetry; apply N.eqb_eq; congruence.
    + subst s'. constructor; cbn.
      * rewrite length_set. exact Hlen.
      * intros l' Hin.
        apply (RL_set (m_links m) (s_link x) y (mkml (ml_acct y) (ml_exp y) true (Some sid))
                 (LConsumed mm) (links s) Hlinks Hy eq_refl eq_refl);
          [rewrite Hst in Hye; cbn in Hye; cbn; congruence | intros _; eauto | intros; discriminate | exact Hin].
      * intros x' Hin. apply in_del_sess in Hin. destruct Hin as [Hin _].
        destruct (Hsess x' Hin) as (Ha' & Hl' & Hacc'). repeat split; auto.
        intros l' Hl'' Hid'. apply in_set_link in Hl''. destruct Hl'' as (l0 & Hi0 & Hid0 & Hac0 & _).
        rewrite Hac0. apply Hacc'; [exact Hi0 | congruence].
      * exact Hsids.
      * reflexivity.
      * reflexivity.
      * exact Hwf'.
  - (* cancel *)
    apply step_cancel in H. destruct H as [[He Es]|(x & l & mm & t & Hx & Hl & Hst & Hr & Es)]; [auto|].
    apply find_link_in in Hl. destruct Hl as [Hil Hidl].
    destruct (Hlinks l Hil) as (y & Hy & Hya & Hye & Hyd & Hyl). rewrite Hidl in Hy.
    assert (Hdone : ml_done y = false).
    { destruct (ml_done y) eqn:E; [|reflexivity]. destruct (Hyd eq_refl) as [m0 Hm0]. congruence. }
    exists m. split.
    + subst r s'. apply mon_default; [exact I | apply same_creds_eq with (s := s); auto].
    + subst s'. constructor; cbn; auto.
      * intros l' Hin. rewrite <- (set_ml_same _ _ _ Hy).
        apply (RL_set (m_links m) (s_link x) y y (LValid mm) (links s) Hlinks Hy eq_refl eq_refl);
          [rewrite Hst in Hye; cbn in Hye; cbn; congruence | intros E; congruence | intros; discriminate | exact Hin].
      * intros x' Hin. apply in_del_sess in Hin. destruct Hin as [Hin _].
        destruct (Hsess x' Hin) as (Ha' & Hl' & Hacc'). repeat split; auto.
        intros l' Hl'' Hid'. apply in_set_link in Hl''. destruct Hl'' as (l0 & Hi0 & Hid0 & Hac0 & _).
        rewrite Hac0. apply Hacc'; [exact Hi0 | congruence].
  - (* revoke *)
    apply step_revoke in H. destruct H as [[He Es]|(l & Hl & Hr & Es)]; [auto|].
    apply find_link_in in Hl. destruct Hl as [Hil Hidl].
    destruct (Hlinks l Hil) as (y & Hy & Hya & Hye & Hyd & Hyl). rewrite Hidl in Hy.
    exists m. split.
    + subst r s'. apply mon_default; [exact I | apply same_creds_eq with (s := s); auto].
    + subst s'. constructor; cbn; auto.
      * intros l' Hin. rewrite <- (set_ml_same _ _ _ Hy).
        apply (RL_set (m_links m) k y y (LConsumed (ls_mttl (l_st l))) (links s) Hlinks Hy eq_refl eq_refl);
          [cbn; congruence | intros _; eauto | intros; discriminate | exact Hin].
      * intros x' Hin.
        destruct (Hsess x' Hin) as (Ha' & Hl' & Hacc'). repeat split; auto.
        intros l' Hl'' Hid'. apply in_set_link in Hl''. destruct Hl'' as (l0 & Hi0 & Hid0 & Hac0 & _).
        rewrite Hac0. apply Hacc'; [exact Hi0 | congruence].
Qed.

Lemma sim_run steps : forall s m, R s m -> hist_agree s steps = true -> mon_run m steps = true.
Proof.
  induction steps as [|[[o r] v] steps IH]; intros s m HR Ha; [reflexivity|].
  cbn [hist_agree] in Ha. destruct (step s o) as [s1 r1] eqn:Hs.
  apply andb_true_iff in Ha. destruct Ha as [Ha Hrest]. apply andb_true_iff in Ha. destruct Ha as [Hr Hv].
  apply res_eqb_eq in Hr. apply view_eqb_eq in Hv. subst r v.
  destruct (sim_step s m o HR) as (m1 & Hm & HR1). rewrite Hs in Hm, HR1. cbn [fst snd] in *.
  cbn [mon_run]. rewrite Hm. eapply IH; eassumption.
Qed.

Lemma agree_pcheck c : agree c = true -> pcheck c = true.
Proof.
  destruct c as [c0 c1 steps|ttl ct out]; cbn [agree pcheck].
  - apply sim_run. apply R_init.
  - intros H. apply N.eqb_eq in H. subst out. pose proof (clamp_bounds ttl).
    apply andb_true_iff. split; apply N.leb_le; lia.
Qed.

(* ------------------------------------------------------------------ positions in one trace *)
Lemma trace_split : forall tr1 s ops e tr2, trace s ops = tr1 ++ e :: tr2 ->
  exists ops1 o ops2, ops = ops1 ++ o :: ops2 /\ tr1 = trace s ops1 /\
    e = (run s ops1, o, snd (step (run s ops1) o)) /\
    tr2 = trace (fst (step (run s ops1) o)) ops2.
Proof.
  induction tr1 as [|e1 tr1 IH]; intros s [|o ops] e tr2 H; cbn in H; try discriminate.
  - inversion H. exists [], o, ops. cbn. auto.
  - inversion H as [[He1 Ht]]. apply IH in Ht. destruct Ht as (ops1 & o' & ops2 & E1 & E2 & E3 & E4).
    exists (o :: ops1), o', ops2. cbn. subst. auto.
Qed.

Lemma after_commit_no_exchange s ops k tr1 e tr2 :
  wf s -> trace s ops = tr1 ++ e :: tr2 -> commits_on k e = true ->
  forall s' ct r, In (s', OExchange k ct, r) tr2 -> is_err r.
Proof.
  intros Hwf Ht Hc s' ct r Hin.
  apply trace_split in Ht. destruct Ht as (ops1 & o & ops2 & _ & _ & He & Ht2). subst e tr2.
  eapply dead_trace_no_exchange; [|exact Hin].
  apply commit_makes_dead; [apply wf_run; exact Hwf | exact Hc].
Qed.

Lemma after_expiry_no_exchange s ops tr1 s1 a ttl ct0 e tr2 :
  wf s -> trace s ops = tr1 ++ (s1, OInit a ttl ct0, RIntent e) :: tr2 ->
  e = ct0 + clamp_ttl ttl /\
  forall s' ct r, In (s', OExchange (nlink s1) ct, r) tr2 -> e <= ct -> is_err r.
Proof.
  intros Hwf Ht. apply trace_split in Ht. destruct Ht as (ops1 & o & ops2 & _ & _ & He & Ht2).
  inversion He as [[Hs1 Ho Hr]]. clear He. rewrite <- Ho, <- Hs1 in *. rewrite step_init in Hr. cbn in Hr.
  inversion Hr as [He]. split; [reflexivity|].
  intros s' ct r Hin Hle. subst tr2.
  assert (Hex : expiry (nlink s1) (ct0 + clamp_ttl ttl) (fst (step s1 (OInit a ttl ct0)))).
  { apply init_expiry. rewrite Hs1. apply wf_run. exact Hwf. }
  destruct (trace_inv _ (expiry_step (nlink s1) (ct0 + clamp_ttl ttl)) ops2 _ Hex _ _ _ Hin) as [Hex' Hr'].
  subst r. eapply expired_no_exchange; [exact Hex' | lia].
Qed.

Lemma superseded_no_commit s ops k tr1 s1 ct1 sid1 m1 tr2 s3 ct2 sid2 m2 tr3 :
  wf s ->
  trace s ops = tr1 ++ (s1, OExchange k ct1, RTok sid1 m1) :: tr2 ++ (s3, OExchange k ct2, RTok sid2 m2) :: tr3 ->
  sid1 <> sid2 /\
  forall s' mttl ct r, In (s', OCommit sid1 mttl ct, r) tr3 -> is_err r.
Proof.
  intros Hwf Ht. apply trace_split in Ht. destruct Ht as (opsA & oA & opsB & _ & _ & HeA & HtB).
  inversion HeA as [[Hs1 HoA HrA]]. clear HeA. rewrite <- HoA, <- Hs1 in *.
  remember (fst (step s1 (OExchange k ct1))) as s2 eqn:Es2.
  assert (HA : step s1 (OExchange k ct1) = (s2, RTok sid1 m1)).
  { rewrite (surjective_pairing (step s1 (OExchange k ct1))), <- Es2, <- HrA. reflexivity. }
  clear HrA Es2. symmetry in HtB.
  apply trace_split in HtB. destruct HtB as (opsC & oC & opsD & _ & _ & HeC & HtD).
  inversion HeC as [[Hs3 HoC HrC]]. clear HeC. rewrite <- HoC, <- Hs3 in *.
  remember (fst (step s3 (OExchange k ct2))) as s4 eqn:Es4.
  assert (HC : step s3 (OExchange k ct2) = (s4, RTok sid2 m2)).
  { rewrite (surjective_pairing (step s3 (OExchange k ct2))), <- Es4, <- HrC. reflexivity. }
  clear HrC Es4.
  assert (Hwf1 : wf s1) by (rewrite Hs1; apply wf_run; exact Hwf).
  destruct (exchange_owns _ _ _ _ _ _ Hwf1 HA) as [Hsid1 Hown2].
  assert (Hown3 : owns sid1 k s3).
  { rewrite Hs3. apply (run_inv (owns sid1 k)); [intros; apply owns_step; assumption | exact Hown2]. }
  assert (Hwf3 : wf s3).
  { rewrite Hs3. apply wf_run. replace s2 with (fst (step s1 (OExchange k ct1))) by (rewrite HA; reflexivity).
    apply wf_step. exact Hwf1. }
  destruct (exchange_owns _ _ _ _ _ _ Hwf3 HC) as [Hsid2 _].
  split.
  { destruct Hown3 as [Hlt _]. lia. }
  intros s' mttl ct r Hin. subst tr3.
  eapply stale_trace; [|exact Hin].
  eapply exchange_supersedes; eassumption.
Qed.
