(* KV.C37.Props — property theorems only.
   Vocabulary (KV.C37.Model): [step s o] = (state after, result) of one server call at its
   harness-chosen time; [trace s ops] = the list of (state before, op, result) of a history;
   [commits_on k e] = trace entry e is an ACCEPTED commit of a session started from link k;
   [is_err r] = the call was refused.  Every theorem quantifies over ALL op lists (any length, any
   interleaving of init / exchange / set-password / commit / cancel / revoke, any number of links and
   sessions, ARBITRARY time stamps incl. regressions, arbitrary — even forged — session tokens). *)
From Coq Require Import List NArith Bool Lia.
Import ListNotations.
Require Import KV.C37.Model KV.C37.Proofs.
Open Scope N_scope.

(* A reset link leads to at most one accepted commit: in any history from any well-formed state
   (in particular from the initial one), the accepted commits that belong to link k number <= 1. *)
Theorem C37_at_most_one_commit : forall (s : st) (ops : list op) (k : N),
  wf s -> (ncommits k (trace s ops) <= 1)%nat.
Proof. intros s ops k H. apply ncommits_le_1. exact H. Qed.

Theorem C37_at_most_one_commit_from_init : forall c0 c1 ops k,
  (ncommits k (trace (init c0 c1) ops) <= 1)%nat.
Proof. intros. apply ncommits_le_1. apply wf_init. Qed.

(* Stored credentials change ONLY through an accepted commit (so "at most one accepted commit per
   link" is "at most one committed credential change per link") ... *)
Theorem C37_credentials_change_only_by_commit : forall s o,
  is_commit o = false \/ is_err (snd (step s o)) ->
  cred0 (fst (step s o)) = cred0 s /\ cred1 (fst (step s o)) = cred1 s.
Proof. exact creds_only_by_commit. Qed.

(* ... which writes the credential staged in that session to that session's account and to no other. *)
Theorem C37_commit_writes_staged : forall s sid mttl ct,
  snd (step s (OCommit sid mttl ct)) = ROk ->
  exists x, find_sess sid (sessions s) = Some x /\
    get_cred (s_acct x) (fst (step s (OCommit sid mttl ct))) = s_staged x /\
    (s_acct x = 0 -> cred1 (fst (step s (OCommit sid mttl ct))) = cred1 s) /\
    (s_acct x <> 0 -> cred0 (fst (step s (OCommit sid mttl ct))) = cred0 s).
Proof. exact commit_writes. Qed.

(* A refused call changes nothing at all (links, sessions, credentials). *)
Theorem C37_refused_changes_nothing : forall s o, is_err (snd (step s o)) -> fst (step s o) = s.
Proof. exact step_err_same. Qed.

(* Once a commit for link k has been accepted, no later exchange of link k is accepted. *)
Theorem C37_no_exchange_after_commit : forall s ops k tr1 e tr2,
  wf s -> trace s ops = tr1 ++ e :: tr2 -> commits_on k e = true ->
  forall s' ct r, In (s', OExchange k ct, r) tr2 -> is_err r.
Proof. exact after_commit_no_exchange. Qed.

(* The link created by an init at time ct0 expires at e = ct0 + clamp(ttl) with
   300 s <= clamp <= 86400 s, and no later exchange of it at a time ct >= e is accepted
   (whatever happened in between: exchanges, cancels, other links, time going backwards). *)
Theorem C37_no_exchange_after_expiry : forall s ops tr1 s1 a ttl ct0 e tr2,
  wf s -> trace s ops = tr1 ++ (s1, OInit a ttl ct0, RIntent e) :: tr2 ->
  (e = ct0 + clamp_ttl ttl /\ ct0 + MIN_INTENT_TTL <= e <= ct0 + MAX_INTENT_TTL) /\
  forall s' ct r, In (s', OExchange (nlink s1) ct, r) tr2 -> e <= ct -> is_err r.
Proof.
  intros s ops tr1 s1 a ttl ct0 e tr2 Hwf Ht.
  destruct (after_expiry_no_exchange _ _ _ _ _ _ _ _ _ Hwf Ht) as [He Hx].
  split; [|exact Hx]. split; [exact He|]. pose proof (clamp_bounds ttl). lia.
Qed.

(* A session superseded by a later accepted exchange of the same link can never commit:
   if link k was exchanged (session sid1) and later exchanged again (session sid2), then the two
   sessions differ and every commit presented for sid1 afterwards is refused — for any token ttl. *)
Theorem C37_superseded_cannot_commit :
  forall s ops k tr1 s1 ct1 sid1 m1 tr2 s3 ct2 sid2 m2 tr3,
  wf s ->
  trace s ops = tr1 ++ (s1, OExchange k ct1, RTok sid1 m1) :: tr2
                    ++ (s3, OExchange k ct2, RTok sid2 m2) :: tr3 ->
  sid1 <> sid2 /\
  forall s' mttl ct r, In (s', OCommit sid1 mttl ct, r) tr3 -> is_err r.
Proof. exact superseded_no_commit. Qed.

(* More generally: whenever link k is no longer waiting for session sid (superseded, cancelled,
   consumed, revoked or purged), sid can never commit again. *)
Theorem C37_stale_session_cannot_commit : forall sid k s ops,
  stale sid k s ->
  forall s' mttl ct r, In (s', OCommit sid mttl ct, r) (trace s ops) -> is_err r.
Proof. intros sid k s ops H. apply (stale_trace sid k). exact H. Qed.

(* Soundness of the run-time tie: whenever the implementation's observations (results, link states
   and stored credentials after every call) agree with the model, the single-use monitor — which
   is stated without the link state machine — accepts those observations. *)
Theorem C37_agree_implies_property : forall c : case, agree c = true -> pcheck c = true.
Proof. exact agree_pcheck. Qed.
