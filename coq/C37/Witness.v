(* KV.C37.Witness — non-vacuity: concrete histories meeting the hypotheses of the implication theorems. *)
From Coq Require Import List NArith Bool Lia.
Import ListNotations.
Require Import KV.C37.Model KV.C37.Proofs.
Open Scope N_scope.

(* one link on account 0 (which has password 1): exchanged twice, the second session sets password 2
   and commits; then everything else is tried *)
Definition w_ops : list op :=
  [ OInit 0 (Some 0) 10;                 (* link 0, expiry 10 + 300 s *)
    OExchange 0 11;                      (* session 0 *)
    OSetPw 0 900000000011 3 12;
    OExchange 0 13;                      (* session 1 supersedes session 0 *)
    OSetPw 1 900000000013 2 14;
    OCommit 0 900000000011 15;           (* refused: superseded *)
    OCommit 1 900000000013 16;           (* accepted *)
    OCommit 1 900000000013 17;           (* refused: session gone *)
    OExchange 0 18;                      (* refused: consumed *)
    OCancel 1 900000000013 19;
    ORevoke 0 20 ].

Definition results (tr : list (st * op * res)) : list res := map (fun e => snd e) tr.

Example C37_witness_history :
  results (trace (init 1 0) w_ops) =
  [ RIntent 300000000010; RTok 0 900000000011; ROk; RTok 1 900000000013; ROk;
    RErr EConflict; ROk; RErr EInvalidState; RErr ESessionExpired; RErr EInvalidState; RErr EEmptyRequest ]
  /\ ncommits 0 (trace (init 1 0) w_ops) = 1%nat
  /\ cred0 (run (init 1 0) w_ops) = 2
  /\ wf (init 1 0).
Proof. split; [vm_compute; reflexivity|]. split; [vm_compute; reflexivity|]. split; [vm_compute; reflexivity | apply wf_init]. Qed.

(* hypotheses of C37_no_exchange_after_commit: an accepted commit of link 0 followed by an exchange of link 0 *)
Example C37_witness_commit_then_exchange :
  exists tr1 e tr2, trace (init 1 0) w_ops = tr1 ++ e :: tr2 /\ commits_on 0 e = true /\
    exists s' ct r, In (s', OExchange 0 ct, r) tr2.
Proof.
  exists (firstn 6 (trace (init 1 0) w_ops)), (nth 6 (trace (init 1 0) w_ops) (init 0 0, ORevoke 0 0, ROk)),
         (skipn 7 (trace (init 1 0) w_ops)).
  split; [vm_compute; reflexivity|]. split; [vm_compute; reflexivity|].
  eexists _, 18, _. vm_compute. right. left. reflexivity.
Qed.

(* hypotheses of C37_superseded_cannot_commit: two accepted exchanges of link 0, then a commit of the first session *)
Example C37_witness_superseded :
  exists tr1 s1 tr2 s3 tr3,
    trace (init 1 0) w_ops = tr1 ++ (s1, OExchange 0 11, RTok 0 900000000011) :: tr2
                                 ++ (s3, OExchange 0 13, RTok 1 900000000013) :: tr3 /\
    exists s', In (s', OCommit 0 900000000011 15, RErr EConflict) tr3.
Proof.
  set (tr := trace (init 1 0) w_ops).
  exists (firstn 1 tr), (fst (fst (nth 1 tr (init 0 0, ORevoke 0 0, ROk)))),
         (firstn 1 (skipn 2 tr)), (fst (fst (nth 3 tr (init 0 0, ORevoke 0 0, ROk)))), (skipn 4 tr).
  split; [vm_compute; reflexivity|].
  eexists. vm_compute. right. left. reflexivity.
Qed.

(* hypotheses of C37_no_exchange_after_expiry: 1 ns before the expiry the exchange is accepted,
   exactly at the expiry (and after a cancel in between) it is refused *)
Example C37_witness_expiry :
  results (trace (init 0 1)
    [ OInit 1 None 5; OExchange 0 3600000000004; OCancel 0 4500000000004 3600000000004;
      OExchange 0 3600000000005; OExchange 0 3600000000004 ])
  = [ RIntent 3600000000005; RTok 0 4500000000004; ROk; RErr ESessionExpired; RTok 1 4500000000004 ].
Proof. vm_compute. reflexivity. Qed.

(* hypothesis of C37_stale_session_cannot_commit: after a cancel the session is stale *)
Example C37_witness_stale :
  stale 0 0 (run (init 1 0) [OInit 0 None 5; OExchange 0 6; OCancel 0 900000000006 7]).
Proof.
  split; [split|].
  - vm_compute. reflexivity.
  - vm_compute. intros x [].
  - vm_compute. intros l [E|[]] _ m t. subst l. cbn. discriminate.
Qed.

(* two links on one account: the stale session of link 0 writes back the OLD credential after link 1's
   session changed it — each link still commits once *)
Example C37_witness_two_links :
  let tr := trace (init 1 0)
    [ OInit 0 None 5; OInit 0 None 5; OExchange 0 6; OExchange 1 6;
      OSetPw 1 900000000006 2 7; OCommit 1 900000000006 8; OCommit 0 900000000006 9;
      OCommit 0 900000000006 9; OExchange 1 9 ] in
  results tr = [ RIntent 3600000000005; RIntent 3600000000005; RTok 0 900000000006; RTok 1 900000000006;
                 ROk; ROk; ROk; RErr EInvalidState; RErr ESessionExpired ]
  /\ ncommits 0 tr = 1%nat /\ ncommits 1 tr = 1%nat.
Proof. vm_compute. repeat split; reflexivity. Qed.

(* a correspondence case as the harness prints it: agree and pcheck both hold *)
Example C37_witness_agree :
  let c := CHist 1 0
    [ (OInit 0 (Some 0) 10, RIntent 300000000010, ([(0, 0, LValid 300000000010)], 1, 0));
      (OExchange 0 11, RTok 0 900000000011, ([(0, 0, LInProgress 300000000010 0 900000000011)], 1, 0));
      (OSetPw 0 900000000011 2 12, ROk, ([(0, 0, LInProgress 300000000010 0 900000000011)], 1, 0));
      (OCommit 0 900000000011 13, ROk, ([(0, 0, LConsumed 300000000010)], 2, 0));
      (OExchange 0 14, RErr ESessionExpired, ([(0, 0, LConsumed 300000000010)], 2, 0)) ] in
  agree c = true /\ pcheck c = true.
Proof. vm_compute. split; reflexivity. Qed.

(* the monitor is not trivially true: a second accepted commit, an exchange after a commit, a commit
   by a superseded session and a credential change without a commit are all rejected by pcheck *)
Example C37_witness_monitor_rejects :
  pcheck (CHist 1 0
    [ (OInit 0 None 10, RIntent 100, ([], 1, 0)); (OExchange 0 11, RTok 0 50, ([], 1, 0));
      (OCommit 0 50 12, ROk, ([], 2, 0)); (OExchange 0 13, RTok 1 60, ([], 2, 0)) ]) = false
  /\ pcheck (CHist 1 0
    [ (OInit 0 None 10, RIntent 100, ([], 1, 0)); (OExchange 0 11, RTok 0 50, ([], 1, 0));
      (OExchange 0 12, RTok 1 60, ([], 1, 0)); (OCommit 0 50 13, ROk, ([], 2, 0)) ]) = false
  /\ pcheck (CHist 1 0
    [ (OInit 0 None 10, RIntent 100, ([], 1, 0)); (OExchange 0 100, RTok 0 50, ([], 1, 0)) ]) = false
  /\ pcheck (CHist 1 0
    [ (OInit 0 None 10, RIntent 100, ([], 1, 0)); (OExchange 0 11, RTok 0 50, ([], 2, 0)) ]) = false
  /\ pcheck (CHist 1 0
    [ (OInit 0 None 10, RIntent 100, ([], 1, 0)); (OExchange 0 11, RTok 0 50, ([], 1, 0));
      (OCommit 0 50 12, ROk, ([], 2, 0)); (OExchange 0 13, RErr ESessionExpired, ([], 2, 0));
      (OCommit 0 50 14, ROk, ([], 3, 0)) ]) = false.
Proof. vm_compute. repeat split; reflexivity. Qed.
